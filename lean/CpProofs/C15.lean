import CpModel.Cache
import CpProofs.C15Lemmas
/-!
  C15 — cached responses are genuine, fresh and never cross Vary variants.

  Theorems are about `CpModel.Cache` (the transcription of `MemoryCache`, `caching.get`,
  `caching.tee_output`, `CachingTool._wrapper`).  They quantify over *all* configurations and
  *all* histories (lists of requests, clock advances and expiry sweeps, no length bound): the
  store invariant `Inv` is established by induction over the history.

  `exec cfg {} ops` is the list of request events `⟨request, handler plan, outcome, time⟩`.
  A `hit g a` outcome means: served from the cache, generation `g`, header `Age: a`.
-/
namespace CpProofs.C15
open CpModel.Cache CpModel

/-! ### the store invariant -/

/-- The producing request and response allowed the response to be stored. -/
def Storable (cfg : Cfg) (e : Ev) : Prop :=
  sNoStore ∉ e.r.cc ∧ e.p.noStore = false ∧ e.p.pragmaNoCache = false ∧ 0 < e.p.size ∧
    e.p.size < cfg.maxobjSize ∧ e.r.method ∉ cfg.invalid ∧ e.p.completes e.r = true

/-- `L` is the log of the request events so far.  `P uri sel` is whatever is known about the
    selecting-header list of a resource, `Q r p` about the (request, plan) pairs of the history. -/
structure Inv (cfg : Cfg) (P : Str → List Str → Prop) (Q : Req → Plan → Prop) (w : World) (L : List Ev) : Prop where
  vals : ∀ uri uc key v, aget w.cache.store uri = some uc → aget uc.slots key = some (.val v) →
    ∃ e ∈ L, e.out = .miss v.gen true ∧ e.r.uri = uri ∧ key = uc.sel.map (hget e.r) ∧
      v.created = e.t ∧ Storable cfg e
  sels : ∀ uri uc, aget w.cache.store uri = some uc → P uri uc.sel
  times : ∀ e ∈ L, e.t ≤ w.now
  evs : ∀ e ∈ L, Q e.r e.p
  gens : ∀ e ∈ L, ∀ g c, e.out = .miss g c → g < w.nextGen

variable {cfg : Cfg} {P : Str → List Str → Prop} {Q : Req → Plan → Prop}

theorem Inv.init : Inv cfg P Q {} [] where
  vals := by intro uri uc key v h; simp [aget] at h
  sels := by intro uri uc h; simp [aget] at h
  times := by simp
  evs := by simp
  gens := by simp

/-- the store shrinks, time and the generation counter move forward -/
theorem Inv.mono {w w' : World} {L : List Ev} (h : Inv cfg P Q w L)
    (hs : Shrinks w'.cache.store w.cache.store) (hn : w.now ≤ w'.now) (hg : w.nextGen ≤ w'.nextGen) :
    Inv cfg P Q w' L where
  vals := by
    intro uri uc' key v h1 h2
    obtain ⟨uc, g1, s1, v1⟩ := hs uri uc' h1
    obtain ⟨e, he, a, b, c, d⟩ := h.vals uri uc key v g1 (v1 key v h2)
    exact ⟨e, he, a, b, by rw [← s1]; exact c, d⟩
  sels := by
    intro uri uc' h1
    obtain ⟨uc, g1, s1, _⟩ := hs uri uc' h1
    rw [← s1]
    exact h.sels uri uc g1
  times := fun e he => Nat.le_trans (h.times e he) hn
  evs := h.evs
  gens := fun e he g c hm => Nat.lt_of_lt_of_le (h.gens e he g c hm) hg

/-- one more event in the log -/
theorem Inv.snoc {w : World} {L : List Ev} (h : Inv cfg P Q w L) (e : Ev) (ht : e.t ≤ w.now) (hq : Q e.r e.p)
    (hg : ∀ g c, e.out = .miss g c → g < w.nextGen) : Inv cfg P Q w (L ++ [e]) where
  vals := by
    intro uri uc key v h1 h2
    obtain ⟨e', he, rest⟩ := h.vals uri uc key v h1 h2
    exact ⟨e', List.mem_append_left _ he, rest⟩
  sels := h.sels
  times := by
    intro e' he
    rcases List.mem_append.mp he with he | he
    · exact h.times e' he
    · simp at he; subst he; exact ht
  evs := by
    intro e' he
    rcases List.mem_append.mp he with he | he
    · exact h.evs e' he
    · simp at he; subst he; exact hq
  gens := by
    intro e' he
    rcases List.mem_append.mp he with he | he
    · exact h.gens e' he
    · simp at he; subst he; exact hg

/-- the handler ran: generation counter bumped, store not larger, event logged -/
theorem Inv.handler {w : World} {L : List Ev} (hI : Inv cfg P Q w L) (c' : Cache)
    (hc' : Shrinks c'.store w.cache.store) (r : Req) (p : Plan) (cb : Bool) (hQ : Q r p) :
    Inv cfg P Q { w with cache := c', nextGen := w.nextGen + 1 } (L ++ [⟨r, p, .miss w.nextGen cb, w.now⟩]) := by
  have h1 : Inv cfg P Q { w with cache := c', nextGen := w.nextGen + 1 } L :=
    Inv.mono hI hc' (Nat.le_refl _) (Nat.le_succ _)
  exact Inv.snoc h1 _ (Nat.le_refl _) hQ (by intro g c hgc; cases hgc; exact Nat.lt_succ_self _)

/-- handler + tee: the one place where a response enters the store -/
theorem runHandler_inv {w : World} {L : List Ev} (hI : Inv cfg P Q w L) (c : Cache) (r : Req) (p : Plan)
    (hc : Shrinks c.store w.cache.store) (hm : r.method ∉ cfg.invalid)
    (hP : P r.uri (sortDesc p.vary)) (hQ : Q r p) :
    Inv cfg P Q (runHandler cfg w c r p).1 (L ++ [⟨r, p, (runHandler cfg w c r p).2, w.now⟩]) := by
  have hsn : Inv cfg P Q { w with nextGen := w.nextGen + 1 } (L ++ [⟨r, p, .miss w.nextGen true, w.now⟩]) :=
    Inv.handler hI w.cache (Shrinks.refl _) r p true hQ
  have shrinkCase : ∀ c' : Cache, Shrinks c'.store w.cache.store →
      Inv cfg P Q { w with cache := c', nextGen := w.nextGen + 1 } (L ++ [⟨r, p, .miss w.nextGen true, w.now⟩]) :=
    fun c' hc' => Inv.handler hI c' hc' r p true hQ
  simp only [runHandler, tee]
  split
  · exact shrinkCase c hc
  · rename_i hcomp
    split
    · exact shrinkCase c hc
    · rename_i hns
      split
      · exact shrinkCase c hc
      · rename_i hfl
        split
        · exact shrinkCase _ ((delete_shrinks c r.uri).trans hc)
        · rename_i hsz
          refine ⟨?_, ?_, hsn.times, hsn.evs, hsn.gens⟩
          · intro uri uc' key v h1 h2
            dsimp only at h1
            have newcase : uri = r.uri → key = uc'.sel.map (hget r) → v = ⟨w.nextGen, w.now⟩ →
                p.size < cfg.maxobjSize →
                ∃ e ∈ L ++ [⟨r, p, .miss w.nextGen true, w.now⟩], e.out = .miss v.gen true ∧ e.r.uri = uri ∧
                  key = uc'.sel.map (hget e.r) ∧ v.created = e.t ∧ Storable cfg e := by
              intro hu hk hv hlim
              refine ⟨⟨r, p, .miss w.nextGen true, w.now⟩, by simp, ?_, hu.symm, hk, ?_, ?_⟩
              · rw [hv]
              · rw [hv]
              · refine ⟨hns, ?_, ?_, Nat.pos_of_ne_zero hsz, hlim, hm, ?_⟩
                · cases hb : p.noStore <;> simp_all
                · cases hb : p.pragmaNoCache <;> simp_all
                · cases hb : p.completes r <;> simp_all
            rcases put_cases cfg c r p w.nextGen w.now uri uc' h1 with ⟨uc, g1, s1, v1⟩ | ⟨hu, _, _, v1⟩
            · rcases v1 key v h2 with hold | ⟨hu, hk, hv, hlim⟩
              · obtain ⟨uc0, g0, s0, v0⟩ := hc uri uc g1
                obtain ⟨e, he, a, b, c', d⟩ := hI.vals uri uc0 key v g0 (v0 key v hold)
                exact ⟨e, List.mem_append_left _ he, a, b, by rw [← s1, ← s0]; exact c', d⟩
              · exact newcase hu hk hv hlim
            · obtain ⟨hk, hv, hlim⟩ := v1 key v h2
              exact newcase hu hk hv hlim
          · intro uri uc' h1
            dsimp only at h1
            rcases put_cases cfg c r p w.nextGen w.now uri uc' h1 with ⟨uc, g1, s1, _⟩ | ⟨hu, _, hsel, _⟩
            · obtain ⟨uc0, g0, s0, _⟩ := hc uri uc g1
              rw [← s1, ← s0]
              exact hI.sels uri uc0 g0
            · rw [hu, hsel]
              exact hP

theorem runHandler_out (w : World) (c : Cache) (r : Req) (p : Plan) :
    (runHandler cfg w c r p).2 = .miss w.nextGen true := rfl

/-- every request preserves the invariant, with its event appended to the log -/
theorem request_inv {w : World} {L : List Ev} (hI : Inv cfg P Q w L) (r : Req) (p : Plan)
    (hP : P r.uri (sortDesc p.vary)) (hQ : Q r p) :
    Inv cfg P Q (request cfg w r p).1 (L ++ [⟨r, p, (request cfg w r p).2, w.now⟩]) := by
  have same : ∀ out : Outcome, (∀ g c, out ≠ .miss g c) → Inv cfg P Q w (L ++ [⟨r, p, out, w.now⟩]) := by
    intro out hne
    apply Inv.snoc hI
    · exact Nat.le_refl _
    · exact hQ
    · intro g c hgc
      exact absurd hgc (hne g c)
  unfold request
  split
  · -- invalidating method
    exact Inv.handler hI _ (delete_shrinks _ _) r p false hQ
  · rename_i hm
    split
    · exact runHandler_inv hI _ r p (Shrinks.refl _) hm hP hQ
    · split
      · exact runHandler_inv hI _ r p (get_shrinks _ _) hm hP hQ
      · split
        · exact same _ (by intro g c h; cases h)
        · exact runHandler_inv hI _ r p (Shrinks.refl _) hm hP hQ
        · split
          · exact runHandler_inv hI _ r p (Shrinks.refl _) hm hP hQ
          · exact same _ (by intro g c h; cases h)

/-! ### what a hit is -/

/-- every outcome `miss g _` carries the current generation counter -/
theorem request_miss_gen (w : World) (r : Req) (p : Plan) (g : Nat) (c : Bool)
    (h : (request cfg w r p).2 = .miss g c) : g = w.nextGen := by
  unfold request at h
  split at h
  · cases h; rfl
  · split at h
    · cases h; rfl
    · split at h
      · cases h; rfl
      · split at h
        · cases h
        · cases h; rfl
        · split at h
          · cases h; rfl
          · cases h

/-- The meaning of "served from the cache" for one event `e`, given the earlier events `L`;
    and: a handler run gets a generation number no earlier event has. -/
def Good (cfg : Cfg) (P : Str → List Str → Prop) (Q : Req → Plan → Prop) (L : List Ev) (e : Ev) : Prop :=
  (∀ g a, e.out = .hit g a →
    ∃ e' ∈ L, ∃ sel, e'.out = .miss g true ∧ e'.r.uri = e.r.uri ∧ P e.r.uri sel ∧ Q e'.r e'.p ∧
      (∀ h ∈ sel, hget e.r h = hget e'.r h) ∧ e'.t ≤ e.t ∧ a = (e.t - e'.t) / tps ∧ a ≤ cfg.delay ∧
      (∀ n, scanCC (sortDesc e.r.cc) = .proceed (some n) → a ≤ n) ∧
      (∃ m, scanCC (sortDesc e.r.cc) = .proceed m) ∧ Storable cfg e') ∧
  (∀ g c, e.out = .miss g c → ∀ e' ∈ L, ∀ g' c', e'.out = .miss g' c' → g' < g)

theorem request_good {w : World} {L : List Ev} (hI : Inv cfg P Q w L) (r : Req) (p : Plan) :
    Good cfg P Q L ⟨r, p, (request cfg w r p).2, w.now⟩ := by
  refine ⟨?_, ?_⟩
  · intro g a hout
    dsimp only at hout
    unfold request at hout
    split at hout
    · cases hout
    · split at hout
      · cases hout
      · split at hout
        · cases hout
        · rename_i v hv
          split at hout
          · cases hout
          · cases hout
          · rename_i m hscan
            split at hout
            · cases hout
            · rename_i hage
              cases hout
              obtain ⟨_, uc, hg, hk⟩ := get_some _ _ _ hv
              obtain ⟨e', he', hmiss, huri, hkey, hcr, hst⟩ := hI.vals r.uri uc _ v hg hk
              refine ⟨e', he', uc.sel, hmiss, huri, hI.sels _ _ hg, hI.evs e' he', ?_, hI.times e' he',
                by rw [hcr], ?_, ?_, ⟨m, hscan⟩, hst⟩
              · exact List.map_inj_left.mp hkey
              · have : (w.now - v.created) / tps ≤ effMaxAge cfg m := Nat.le_of_not_gt hage
                cases m with
                | none => simpa [effMaxAge] using this
                | some n => simp only [effMaxAge] at this; omega
              · intro n hn
                rw [hscan] at hn
                cases hn
                have : (w.now - v.created) / tps ≤ effMaxAge cfg (some n) := Nat.le_of_not_gt hage
                simp only [effMaxAge] at this
                omega
  · intro g c hout e' he' g' c' hm'
    dsimp only at hout
    rw [request_miss_gen w r p g c hout]
    exact hI.gens e' he' g' c' hm'

/-! ### all histories -/

def AllGood (cfg : Cfg) (P : Str → List Str → Prop) (Q : Req → Plan → Prop) : List Ev → List Ev → Prop
  | _, [] => True
  | L, e :: es => Good cfg P Q L e ∧ AllGood cfg P Q (L ++ [e]) es

theorem AllGood.at {L es : List Ev} (h : AllGood cfg P Q L es) (pre : List Ev) (e : Ev) (post : List Ev)
    (heq : es = pre ++ e :: post) : Good cfg P Q (L ++ pre) e := by
  induction pre generalizing L es with
  | nil =>
    subst heq
    simpa using h.1
  | cons x xs ih =>
    subst heq
    have := ih h.2 rfl
    simpa using this

theorem step_inv {w : World} {L : List Ev} (hI : Inv cfg P Q w L) (op : Op)
    (hPQ : ∀ r p, Q r p → P r.uri (sortDesc p.vary)) (hop : ∀ r p, op = .req r p → Q r p) :
    match (step cfg w op).2 with
    | some e => Good cfg P Q L e ∧ Inv cfg P Q (step cfg w op).1 (L ++ [e])
    | none => Inv cfg P Q (step cfg w op).1 L := by
  cases op with
  | req r p =>
    simp only [step]
    exact ⟨request_good hI r p, request_inv hI r p (hPQ r p (hop r p rfl)) (hop r p rfl)⟩
  | tick n =>
    simp only [step]
    exact Inv.mono hI (Shrinks.refl _) (Nat.le_add_right _ _) (Nat.le_refl _)
  | sweep =>
    simp only [step]
    exact Inv.mono hI (sweep_shrinks _ _) (Nat.le_refl _) (Nat.le_refl _)

theorem exec_allGood (hPQ : ∀ r p, Q r p → P r.uri (sortDesc p.vary)) (ops : List Op)
    (hops : ∀ r p, Op.req r p ∈ ops → Q r p) (w : World) (L : List Ev) (hI : Inv cfg P Q w L) :
    AllGood cfg P Q L (exec cfg w ops) := by
  induction ops generalizing w L with
  | nil => trivial
  | cons op ops ih =>
    have hs := step_inv hI op hPQ (fun r p h => hops r p (by simp [h]))
    have hops' : ∀ r p, Op.req r p ∈ ops → Q r p := fun r p h => hops r p (List.mem_cons_of_mem _ h)
    simp only [exec]
    split
    · rename_i e he
      rw [he] at hs
      exact ⟨hs.1, ih hops' _ _ hs.2⟩
    · rename_i he
      rw [he] at hs
      exact ih hops' _ _ hs

/-! ### the Cache-Control loop -/

theorem scan_none_no_max_age (l : List Str) (h : scanCC l = .proceed none) :
    ∀ v ∈ l, (splitEq v).1 ≠ sMaxAge := by
  induction l with
  | nil => simp
  | cons x xs ih =>
    simp only [scanCC] at h
    split at h
    · split at h
      · split at h <;> cases h
      · cases h
    · rename_i hx
      split at h
      · cases h
      · intro v hv
        rcases List.mem_cons.mp hv with rfl | hv
        · exact hx
        · exact ih h v hv

theorem scan_some_is_directive (l : List Str) (n : Nat) (h : scanCC l = .proceed (some n)) :
    ∃ v ∈ l, (splitEq v).1 = sMaxAge ∧ ∃ a, (splitEq v).2 = some a ∧ isDigits a = true ∧ n = toNat a := by
  induction l with
  | nil => simp [scanCC] at h
  | cons x xs ih =>
    simp only [scanCC] at h
    split at h
    · rename_i hx
      split at h
      · rename_i a ha
        split at h
        · rename_i hd
          cases h
          exact ⟨x, by simp, hx, a, ha, hd, rfl⟩
        · cases h
      · cases h
    · split at h
      · cases h
      · obtain ⟨v, hv, rest⟩ := ih h
        exact ⟨v, List.mem_cons_of_mem _ hv, rest⟩

/-! ### the property theorems -/

/-- `VaryStable`, decidable form: all plans for one URI name the same Vary list. -/
def varyStableB (ops : List Op) : Bool :=
  ops.all fun o1 => ops.all fun o2 =>
    match o1, o2 with
    | .req r1 p1, .req r2 p2 => !(r1.uri == r2.uri) || p1.vary == p2.vary
    | _, _ => true

def VaryStable (ops : List Op) : Prop :=
  ∀ r1 p1 r2 p2, Op.req r1 p1 ∈ ops → Op.req r2 p2 ∈ ops → r1.uri = r2.uri → p1.vary = p2.vary

theorem varyStable_of_B (ops : List Op) (h : varyStableB ops = true) : VaryStable ops := by
  intro r1 p1 r2 p2 h1 h2 hu
  have a := List.all_eq_true.mp h _ h1
  have b := List.all_eq_true.mp a _ h2
  simpa [hu] using b

/-- What is known about the selecting headers of a resource in a history: they are the (sorted)
    Vary list of *some* planned response for that URI. -/
def SelOf (ops : List Op) (uri : Str) (sel : List Str) : Prop :=
  ∃ r0 p0, Op.req r0 p0 ∈ ops ∧ r0.uri = uri ∧ sel = sortDesc p0.vary

/-- Master statement for every history: each event is `Good` w.r.t. the events before it. -/
theorem hit_master (cfg : Cfg) (ops : List Op) (pre : List Ev) (e : Ev) (post : List Ev)
    (hx : exec cfg {} ops = pre ++ e :: post) :
    Good cfg (SelOf ops) (fun r p => Op.req r p ∈ ops) pre e := by
  have h := exec_allGood (cfg := cfg) (P := SelOf ops) (Q := fun r p => Op.req r p ∈ ops)
    (fun r p h => ⟨r, p, h, rfl, rfl⟩) ops (fun r p h => h) {} [] Inv.init
  simpa using h.at pre e post hx

/-- **C15_hit_genuine.**  In every history whose URIs keep their Vary list, a response served from the
    cache is generation `g` of an earlier handler run for the same URI (URL + query string) whose
    request carried the same value for every header named in that response's Vary. -/
theorem C15_hit_genuine (cfg : Cfg) (ops : List Op) (hs : varyStableB ops = true)
    (pre : List Ev) (e : Ev) (post : List Ev) (g a : Nat)
    (hx : exec cfg {} ops = pre ++ e :: post) (hh : e.out = .hit g a) :
    ∃ e' ∈ pre, e'.out = .miss g true ∧ e'.r.uri = e.r.uri ∧
      ∀ h ∈ e'.p.vary, hget e.r h = hget e'.r h := by
  obtain ⟨e', he', sel, hm, hu, ⟨r0, p0, hop0, hu0, hsel⟩, hq, hv, _⟩ := (hit_master cfg ops pre e post hx).1 g a hh
  refine ⟨e', he', hm, hu, ?_⟩
  intro h hh'
  apply hv
  have : p0.vary = e'.p.vary := varyStable_of_B ops hs r0 p0 e'.r e'.p hop0 hq (hu0.trans hu.symm)
  rw [hsel, this]
  exact (mem_sortDesc h _).mpr hh'

/-- Without `VaryStable` the hit still agrees with its producer on every *selecting* header of the
    resource (the Vary list of the first response stored for the URI). -/
theorem C15_hit_genuine_selecting (cfg : Cfg) (ops : List Op)
    (pre : List Ev) (e : Ev) (post : List Ev) (g a : Nat)
    (hx : exec cfg {} ops = pre ++ e :: post) (hh : e.out = .hit g a) :
    ∃ e' ∈ pre, e'.out = .miss g true ∧ e'.r.uri = e.r.uri ∧
      ∃ sel, SelOf ops e.r.uri sel ∧ ∀ h ∈ sel, hget e.r h = hget e'.r h := by
  obtain ⟨e', he', sel, hm, hu, hsel, _, hv, _⟩ := (hit_master cfg ops pre e post hx).1 g a hh
  exact ⟨e', he', hm, hu, sel, hsel, hv⟩

/-- the generation number identifies the handler run: no two handler runs share one -/
theorem C15_generation_unique (cfg : Cfg) (ops : List Op) (pre : List Ev) (e : Ev) (post : List Ev) (g : Nat)
    (c : Bool) (hx : exec cfg {} ops = pre ++ e :: post) (hm : e.out = .miss g c) :
    ∀ e' ∈ pre, ∀ c', e'.out ≠ .miss g c' := by
  intro e' he' c' h'
  exact Nat.lt_irrefl _ ((hit_master cfg ops pre e post hx).2 g c hm e' he' g c' h')

/-- **C15_fresh.**  The served response was produced no longer ago (in whole seconds) than `delay`,
    and no longer ago than the request's `max-age` when all its max-age directives say `N`. -/
theorem C15_fresh (cfg : Cfg) (ops : List Op) (pre : List Ev) (e : Ev) (post : List Ev) (g a : Nat)
    (hx : exec cfg {} ops = pre ++ e :: post) (hh : e.out = .hit g a) :
    ∃ e' ∈ pre, e'.out = .miss g true ∧ e'.t ≤ e.t ∧ (e.t - e'.t) / tps ≤ cfg.delay ∧
      ∀ N, (∃ v ∈ e.r.cc, (splitEq v).1 = sMaxAge) →
        (∀ v ∈ e.r.cc, (splitEq v).1 = sMaxAge → ∃ arg, (splitEq v).2 = some arg ∧ toNat arg = N) →
        (e.t - e'.t) / tps ≤ N := by
  obtain ⟨e', he', sel, hm, _, _, _, _, ht, ha, hd, hn, ⟨m, hscan⟩, _⟩ := (hit_master cfg ops pre e post hx).1 g a hh
  refine ⟨e', he', hm, ht, ha ▸ hd, ?_⟩
  intro N ⟨v, hv, hdir⟩ hall
  cases m with
  | none =>
    exact absurd hdir (scan_none_no_max_age _ hscan v ((mem_sortDesc v _).mpr hv))
  | some n =>
    obtain ⟨v', hv', hdir', arg, harg, _, hnn⟩ := scan_some_is_directive _ n hscan
    obtain ⟨arg2, h2, hN⟩ := hall v' ((mem_sortDesc v' _).mp hv') hdir'
    rw [harg] at h2
    cases h2
    rw [← ha, ← hN, ← hnn]
    exact hn n hscan

/-- **C15_age_header.**  The `Age` header of a hit is the elapsed time since the handler run that
    produced the response, in whole seconds (`tps` ticks per second). -/
theorem C15_age_header (cfg : Cfg) (ops : List Op) (pre : List Ev) (e : Ev) (post : List Ev) (g a : Nat)
    (hx : exec cfg {} ops = pre ++ e :: post) (hh : e.out = .hit g a) :
    ∃ e' ∈ pre, e'.out = .miss g true ∧ a = (e.t - e'.t) / tps := by
  obtain ⟨e', he', sel, hm, _, _, _, _, _, ha, _⟩ := (hit_master cfg ops pre e post hx).1 g a hh
  exact ⟨e', he', hm, ha⟩

/-- **C15_no_store** (histories).  A response served from the cache was produced by a request without
    `no-store`, carried neither `Cache-Control: no-store` nor `Pragma: no-cache`, was non-empty and
    below the per-object size limit, and its request method was not an invalidating one. -/
theorem C15_no_store (cfg : Cfg) (ops : List Op) (pre : List Ev) (e : Ev) (post : List Ev) (g a : Nat)
    (hx : exec cfg {} ops = pre ++ e :: post) (hh : e.out = .hit g a) :
    ∃ e' ∈ pre, e'.out = .miss g true ∧ Storable cfg e' := by
  obtain ⟨e', he', sel, hm, _, _, _, _, _, _, _, _, _, hst⟩ := (hit_master cfg ops pre e post hx).1 g a hh
  exact ⟨e', he', hm, hst⟩

/-- **C15_no_store** (one request).  A request carrying `Cache-Control: no-store`, or whose response
    carries `Cache-Control: no-store` / `Pragma: no-cache`, adds nothing to the store (for any
    state of the cache whatsoever): every resource, selecting-header list and stored response
    after the request was there before it. -/
theorem C15_no_store_step (cfg : Cfg) (w : World) (r : Req) (p : Plan)
    (h : sNoStore ∈ r.cc ∨ p.noStore = true ∨ p.pragmaNoCache = true) :
    Shrinks (request cfg w r p).1.cache.store w.cache.store :=
  request_marked_shrinks cfg w r p (by rcases h with h | h | h <;> simp [h])

/-- **C15_complete_only** (one request).  From any state: when the handler raises, its body iterator
    raises at any chunk, a streamed body is abandoned by the client, or a streamed response answers a
    HEAD — i.e. whenever the response was not produced to its end — the request adds nothing to the
    store; in fact the whole cache (placeholder included) is what the lookup left. -/
theorem C15_complete_only_step (cfg : Cfg) (w : World) (r : Req) (p : Plan) (h : p.completes r = false) :
    Shrinks (request cfg w r p).1.cache.store w.cache.store :=
  request_marked_shrinks cfg w r p (Or.inr (Or.inr (Or.inr h)))

/-- **C15_complete_only** (histories).  The producer of every response served from the cache ran to
    completion: handler returned, body iterator exhausted without raising, and (streamed) fully read
    by its client. -/
theorem C15_complete_only (cfg : Cfg) (ops : List Op) (pre : List Ev) (e : Ev) (post : List Ev) (g a : Nat)
    (hx : exec cfg {} ops = pre ++ e :: post) (hh : e.out = .hit g a) :
    ∃ e' ∈ pre, e'.out = .miss g true ∧ e'.p.bodyOk = true ∧ (e'.p.stream = true → e'.p.drained = true ∧ e'.r.method ≠ sHead) := by
  obtain ⟨e', he', sel, hm, _, _, _, _, _, _, _, _, _, hst⟩ := (hit_master cfg ops pre e post hx).1 g a hh
  refine ⟨e', he', hm, ?_⟩
  have hc := hst.2.2.2.2.2.2
  simp only [Plan.completes, Bool.and_eq_true, Bool.or_eq_true, Bool.not_eq_true', decide_eq_true_eq] at hc
  refine ⟨hc.1, ?_⟩
  intro hs
  rcases hc.2 with h | h
  · rw [hs] at h; cases h
  · exact h

/-- **C15_invalidate.**  From any state: after a request with an invalidating method for a URI,
    whatever happens to other URIs and however the clock and the sweeper run, the next request
    for that URI reaches the handler. -/
theorem C15_invalidate (cfg : Cfg) (w : World) (r : Req) (p : Plan) (mid : List Op) (r2 : Req) (p2 : Plan)
    (hm : r.method ∈ cfg.invalid) (hmid : ∀ r' p', Op.req r' p' ∈ mid → r'.uri ≠ r.uri)
    (h2 : r2.uri = r.uri) :
    ∃ c, (request cfg (runOps cfg (request cfg w r p).1 mid) r2 p2).2
      = .miss (runOps cfg (request cfg w r p).1 mid).nextGen c := by
  apply request_absent
  rw [h2]
  exact runOps_absent cfg mid _ r.uri hmid (request_invalidates cfg w r p hm)

/-- the invalidating request itself reaches the handler too, and is never stored -/
theorem C15_invalidating_request_not_cached (cfg : Cfg) (w : World) (r : Req) (p : Plan)
    (hm : r.method ∈ cfg.invalid) : (request cfg w r p).2 = .miss w.nextGen false := by
  unfold request
  rw [if_pos hm]

/-- the live table of invalidating methods (regenerated from `caching.get`'s signature on every
    run) contains the three methods the property names -/
theorem C15_invalidate_methods :
    ['P', 'O', 'S', 'T'] ∈ Gen.C15.invalidMethods ∧ ['P', 'U', 'T'] ∈ Gen.C15.invalidMethods ∧
      ['D', 'E', 'L', 'E', 'T', 'E'] ∈ Gen.C15.invalidMethods := by decide

/-- and does not contain the methods that are served from the cache -/
theorem C15_get_head_not_invalidating :
    ['G', 'E', 'T'] ∉ Gen.C15.invalidMethods ∧ ['H', 'E', 'A', 'D'] ∉ Gen.C15.invalidMethods := by decide

/-- `Pragma: no-cache` on the request: the handler is reached (from any state). -/
theorem C15_pragma_no_cache (cfg : Cfg) (w : World) (r : Req) (p : Plan) (h : sNoCache ∈ r.pragma) :
    ∃ c, (request cfg w r p).2 = .miss w.nextGen c := by
  unfold request
  split
  · exact ⟨false, rfl⟩
  · exact ⟨true, rfl⟩

/-- `Cache-Control: no-cache` (or `no-cache=...`) anywhere among the request's Cache-Control elements:
    the handler is reached from any state, whatever other directives (a valid or malformed
    `max-age` included) accompany it — `header_elements` order puts `no-cache` before `max-age`. -/
theorem C15_cc_no_cache (cfg : Cfg) (w : World) (r : Req) (p : Plan)
    (h : ∃ v ∈ r.cc, (splitEq v).1 = sNoCache) : ∃ c, (request cfg w r p).2 = .miss w.nextGen c := by
  have hs : scanCC (sortDesc r.cc) = .noCache := by
    apply scan_desc_no_cache _ (sortDesc_desc _)
    obtain ⟨v, hv, hd⟩ := h
    exact ⟨v, (mem_sortDesc v _).mpr hv, hd⟩
  unfold request
  split
  · exact ⟨false, rfl⟩
  · split
    · exact ⟨true, rfl⟩
    · split
      · exact ⟨true, rfl⟩
      · rw [hs]
        exact ⟨true, rfl⟩

/-- non-vacuity / reading of `C15_fresh`: a lone `max-age=5` is what the loop selects -/
example : scanCC (sortDesc [['m', 'a', 'x', '-', 'a', 'g', 'e', '=', '5']]) = .proceed (some 5) := by decide
example : scanCC (sortDesc [['m', 'a', 'x', '-', 'a', 'g', 'e', '=', '5'], sNoCache]) = .noCache := by decide
example : scanCC (sortDesc [['m', 'a', 'x', '-', 'a', 'g', 'e']]) = .bad := by decide

/-! ### the store key (finding C15-N1) -/

/-- Two different (path, query) pairs with the same store key `cherrypy.url(qs=...)`: `/a?x` + empty query and
    `/a` + `x`. -/
theorem C15_uriKey_collision :
    uriKeyWith false ['/', 'a', '?', 'x'] [] = uriKeyWith false ['/', 'a'] ['x'] ∧
      (['/', 'a', '?', 'x'], ([] : Str)) ≠ (['/', 'a'], ['x']) := by
  decide

theorem append_q_inj (p1 q1 p2 q2 : Str) (h1 : '?' ∉ p1) (h2 : '?' ∉ p2)
    (h : p1 ++ '?' :: q1 = p2 ++ '?' :: q2) : p1 = p2 ∧ q1 = q2 := by
  induction p1 generalizing p2 with
  | nil =>
    cases p2 with
    | nil => simpa using h
    | cons b bs =>
      simp only [List.nil_append, List.cons_append, List.cons.injEq] at h
      exact absurd (by rw [← h.1]; simp) h2
  | cons a as ih =>
    cases p2 with
    | nil =>
      simp only [List.nil_append, List.cons_append, List.cons.injEq] at h
      exact absurd (by rw [h.1]; simp) h1
    | cons b bs =>
      simp only [List.cons_append, List.cons.injEq] at h
      have := ih bs (fun hm => h1 (List.mem_cons_of_mem _ hm)) (fun hm => h2 (List.mem_cons_of_mem _ hm)) h.2
      exact ⟨by rw [h.1, this.1], this.2⟩

/-- ... and that is the only way: for paths without `?` the key determines path and query. -/
theorem C15_uriKey_injective_partial (p1 q1 p2 q2 : Str) (h1 : '?' ∉ p1) (h2 : '?' ∉ p2)
    (h : uriKeyWith false p1 q1 = uriKeyWith false p2 q2) : p1 = p2 ∧ q1 = q2 := by
  simp only [uriKeyWith, Bool.false_eq_true, if_false] at h
  split at h <;> split at h
  · rename_i a b; exact ⟨h, a.trans b.symm⟩
  · rename_i a b
    exact absurd (by rw [h]; simp) h1
  · rename_i a b
    exact absurd (by rw [← h]; simp) h2
  · exact append_q_inj p1 q1 p2 q2 h1 h2 h

theorem escPath_no_q (p : Str) : '?' ∉ escPath p := by
  induction p with
  | nil => simp [escPath]
  | cons c cs ih =>
    simp only [escPath]
    split
    · simp [ih]
    · split
      · simp [ih]
      · rename_i h1 h2
        simp only [List.mem_cons, not_or]
        exact ⟨fun h => h2 h.symm, ih⟩

theorem escPath_inj (p1 p2 : Str) (h : escPath p1 = escPath p2) : p1 = p2 := by
  have hq : ('?' : Char) ≠ '%' := by decide
  induction p1 generalizing p2 with
  | nil =>
    cases p2 with
    | nil => rfl
    | cons b bs =>
      simp only [escPath] at h
      split at h
      · cases h
      · split at h <;> cases h
  | cons a as ih =>
    cases p2 with
    | nil =>
      simp only [escPath] at h
      split at h
      · cases h
      · split at h <;> cases h
    | cons b bs =>
      simp only [escPath] at h
      by_cases ha : a = '%'
      · subst ha
        by_cases hb : b = '%'
        · subst hb
          simp only [if_true, List.cons.injEq, true_and] at h
          rw [ih bs h]
        · by_cases hb2 : b = '?'
          · subst hb2
            simp [hq] at h
          · simp only [if_true, hb, hb2, if_false, List.cons.injEq] at h
            exact absurd h.1.symm hb
      · by_cases ha2 : a = '?'
        · subst ha2
          by_cases hb : b = '%'
          · subst hb
            simp [hq] at h
          · by_cases hb2 : b = '?'
            · subst hb2
              simp only [hq, if_false, if_true, List.cons.injEq, true_and] at h
              rw [ih bs h]
            · simp only [hq, if_false, if_true, hb, hb2, List.cons.injEq] at h
              exact absurd h.1.symm hb
        · by_cases hb : b = '%'
          · subst hb
            simp only [ha, ha2, if_false, if_true, List.cons.injEq] at h
            exact h.1.elim
          · by_cases hb2 : b = '?'
            · subst hb2
              simp only [ha, ha2, hq, if_false, if_true, List.cons.injEq] at h
              exact h.1.elim
            · simp only [ha, ha2, hb, hb2, if_false, List.cons.injEq] at h
              rw [h.1, ih bs h.2]

/-- **The repaired key is injective**: with `%` and `?` of the path percent-encoded, the key determines the path
    and the query string (proposed fix `C15-resource-key`). -/
theorem C15_uriKey_injective_escaped (p1 q1 p2 q2 : Str)
    (h : uriKeyWith true p1 q1 = uriKeyWith true p2 q2) : p1 = p2 ∧ q1 = q2 := by
  simp only [uriKeyWith, if_true] at h
  split at h <;> split at h
  · rename_i a b; exact ⟨escPath_inj _ _ h, a.trans b.symm⟩
  · exact absurd (by rw [h]; simp) (escPath_no_q p1)
  · exact absurd (by rw [← h]; simp) (escPath_no_q p2)
  · have := append_q_inj _ q1 _ q2 (escPath_no_q p1) (escPath_no_q p2) h
    exact ⟨escPath_inj _ _ this.1, this.2⟩

example : '?' ∉ (['/', 'a'] : Str) := by decide

/-! ### size accounting -/

/-- **C15_size_bounds.**  In every history `cursize` is never negative, is `0` or below `maxsize`,
    and covers the sizes of all entries still waiting in `expirations`. -/
theorem C15_size_bounds (cfg : Cfg) (ops : List Op) :
    0 ≤ (runOps cfg {} ops).cache.cursize ∧
    ((runOps cfg {} ops).cache.cursize = 0 ∨ (runOps cfg {} ops).cache.cursize < cfg.maxsize) ∧
    (sumSizes (runOps cfg {} ops).cache.exps : Int) ≤ (runOps cfg {} ops).cache.cursize := by
  have h := runOps_sizeInv (cfg := cfg) ops {} (SizeInv.init cfg)
  exact ⟨h.nonneg, h.bound, h.sum⟩

/-- **object count.**  In every history the number of resources (URIs) that hold a stored response is
    zero or below `maxobjects` (what `len(self.store) < self.maxobjects` in `put` provides: it bounds
    resources, not variants, and placeholder-only resources do not count). -/
theorem C15_object_count (cfg : Cfg) (ops : List Op) :
    countRes (runOps cfg {} ops).cache.store = 0 ∨ countRes (runOps cfg {} ops).cache.store < cfg.maxobjects :=
  runOps_countInv (cfg := cfg) ops {} (Or.inl rfl)

theorem runOps_inv (hPQ : ∀ r p, Q r p → P r.uri (sortDesc p.vary)) (ops : List Op)
    (hops : ∀ r p, Op.req r p ∈ ops → Q r p) (w : World) (L : List Ev) (hI : Inv cfg P Q w L) :
    Inv cfg P Q (runOps cfg w ops) (L ++ exec cfg w ops) := by
  induction ops generalizing w L with
  | nil => simpa [runOps, exec] using hI
  | cons op ops ih =>
    have hs := step_inv hI op hPQ (fun r p h => hops r p (by simp [h]))
    have hops' : ∀ r p, Op.req r p ∈ ops → Q r p := fun r p h => hops r p (List.mem_cons_of_mem _ h)
    simp only [exec, runOps]
    split
    · rename_i e he
      rw [he] at hs
      have := ih hops' _ _ hs.2
      simpa using this
    · rename_i he
      rw [he] at hs
      exact ih hops' _ _ hs

/-- every response in the store at the end of any history was produced by a handler run of that
    history for that URI, was storable, non-empty and smaller than `maxobj_size` -/
theorem C15_stored_objects (cfg : Cfg) (ops : List Op) (uri : Str) (uc : UriCache) (key : List Str) (v : Variant)
    (h1 : aget (runOps cfg {} ops).cache.store uri = some uc) (h2 : aget uc.slots key = some (.val v)) :
    ∃ e ∈ exec cfg {} ops, e.out = .miss v.gen true ∧ e.r.uri = uri ∧ v.created = e.t ∧
      0 < e.p.size ∧ e.p.size < cfg.maxobjSize ∧ Storable cfg e := by
  have hI := runOps_inv (cfg := cfg) (P := SelOf ops) (Q := fun r p => Op.req r p ∈ ops)
    (fun r p h => ⟨r, p, h, rfl, rfl⟩) ops (fun r p h => h) {} [] Inv.init
  obtain ⟨e, he, a, b, _, d, st⟩ := hI.vals uri uc key v h1 h2
  exact ⟨e, by simpa using he, a, b, d, st.2.2.2.1, st.2.2.2.2.1, st⟩

def hXA : Str := ['X', '-', 'A']
def hXB : Str := ['X', '-', 'B']

/-! ### what recording the header NAMES in `expirations` does (not a violation of C15: a leak) -/

def lkCfg (byNames : Bool) : Cfg :=
  { delay := 1, maxobjects := 1000, maxobjSize := 100000, maxsize := 10000000, sweepByNames := byNames,
    invalid := [] }
def lkReq (a : Str) : Req :=
  { method := ['G', 'E', 'T'], uri := ['/', 'a'], hdrs := [(hXA, a)], pragma := [], cc := [] }
def lkPlan (size : Nat) : Plan := { vary := [hXA], size := size, noStore := false, pragmaNoCache := false }

/-- With the names as sweep key an expired variant of a resource with `Vary: X-A` survives the
    sweep and `cursize` is not given back; with the values as key it is removed. -/
theorem C15_sweep_by_names_leaks :
    (let w := runOps (lkCfg true) {} [.req (lkReq ['p']) (lkPlan 12), .tick 8, .sweep]
     countVals w.cache.store = 1 ∧ w.cache.cursize = 12 ∧ w.cache.exps.length = 0) ∧
    (let w := runOps (lkCfg false) {} [.req (lkReq ['p']) (lkPlan 12), .tick 8, .sweep]
     countVals w.cache.store = 0 ∧ w.cache.cursize = 0 ∧ w.cache.exps.length = 0) := by
  decide

/-- ... and when a header value happens to equal the header's name, the sweep of *another*
    variant's entry removes it and subtracts the wrong size: `cursize = 10` while the response of
    1000 bytes (generation 1) is still stored. -/
theorem C15_sweep_by_names_undercounts :
    (let w := runOps (lkCfg true) {}
        [.req (lkReq ['p']) (lkPlan 1000), .tick 1, .req (lkReq hXA) (lkPlan 10), .tick 3, .sweep]
     w.cache.cursize = 10 ∧ countVals w.cache.store = 1 ∧
       (exec (lkCfg true) w [.req (lkReq ['p']) (lkPlan 1000)]).map (·.out) = [.hit 1 1]) := by
  decide

/-! ### the statement without `VaryStable` is false (finding F16b) -/

/-- C15_hit_genuine without the hypothesis that a URI keeps its Vary list. -/
def C15_hit_genuine_full : Prop :=
  ∀ (cfg : Cfg) (ops : List Op) (pre : List Ev) (e : Ev) (post : List Ev) (g a : Nat),
    exec cfg {} ops = pre ++ e :: post → e.out = .hit g a →
    ∃ e' ∈ pre, e'.out = .miss g true ∧ e'.r.uri = e.r.uri ∧ ∀ h ∈ e'.p.vary, hget e.r h = hget e'.r h

def wCfg : Cfg := { delay := 10, maxobjects := 1000, maxobjSize := 100000, maxsize := 10000000 }
def wReq (a b : Char) : Req :=
  { method := ['G', 'E', 'T'], uri := ['/', 'a'], hdrs := [(hXA, [a]), (hXB, [b])], pragma := [], cc := [] }
def wPlan (vary : List Str) : Plan := { vary := vary, size := 12, noStore := false, pragmaNoCache := false }

/-- the witness history of F16b: the first response varies on X-A only, the second on X-A and X-B -/
def wOps : List Op :=
  [.req (wReq '1' 'p') (wPlan [hXA]), .req (wReq '2' 'p') (wPlan [hXA, hXB]), .req (wReq '2' 'q') (wPlan [hXA, hXB])]

theorem C15_hit_genuine_full_false : ¬ C15_hit_genuine_full := by
  intro h
  have := h wCfg wOps ((exec wCfg {} wOps).take 2) ⟨wReq '2' 'q', wPlan [hXA, hXB], .hit 2 0, 0⟩ [] 2 0
    (by decide) rfl
  revert this
  decide

/-- non-vacuity of `VaryStable`: a history with two URIs, Vary lists, a hit and a sweep satisfies it -/
example : varyStableB
    [.req (wReq '1' 'p') (wPlan [hXA, hXB]), .tick 3, .req (wReq '1' 'p') (wPlan [hXA, hXB]), .sweep,
     .req { wReq '1' 'q' with uri := ['/', 'b'] } (wPlan [])] = true := by decide

/-- non-vacuity of the hit theorems: that history does contain a hit (generation 1, Age 0) -/
example : (exec wCfg {}
    [.req (wReq '1' 'p') (wPlan [hXA, hXB]), .tick 3, .req (wReq '1' 'p') (wPlan [hXA, hXB])]).map (·.out)
      = [.miss 1 true, .hit 1 0] := by decide

/-- ... and the F16b witness is excluded by the hypothesis -/
example : varyStableB wOps = false := by decide

end CpProofs.C15
