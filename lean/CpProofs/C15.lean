import CpModel.Cache
/-! C15 — caching tool (theorems under construction). -/
namespace CpProofs.C15
open CpModel.Cache
end CpProofs.C15
