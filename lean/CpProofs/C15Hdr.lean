import CpModel.CacheHdr
import CpProofs.C15
/-!
  C15 — the header layer (`CpModel.CacheHdr`) and conditional answers from the cache
  (`CpModel.Cache.validateSince`, `finalise`).  All strings, all histories.
-/
namespace CpProofs.C15Hdr
open CpModel.Cache CpModel.CacheHdr CpModel CpProofs.C15

/-! ### comma lists -/

/-- the plain comma split: what `RE_HEADER_SPLIT.split` is when no quote character is around -/
def splitOnComma : Str → Str → List Str
  | [], cur => [cur.reverse]
  | c :: cs, cur => if c = ',' then cur.reverse :: splitOnComma cs [] else splitOnComma cs (c :: cur)

theorem countQ_zero (s : Str) (h : '"' ∉ s) : countQ s = 0 := by
  induction s with
  | nil => rfl
  | cons c cs ih =>
    simp only [List.mem_cons, not_or] at h
    simp only [countQ, List.countP_cons]
    have : countQ cs = 0 := ih h.2
    simp only [countQ] at this
    rw [this]
    have : ¬ (c = '"') := fun hc => h.1 hc.symm
    simp [this]

/-- without quote characters RE_HEADER_SPLIT splits at every comma -/
theorem splitHdrAux_noquote (s cur : Str) (h : '"' ∉ s) : splitHdrAux s cur = splitOnComma s cur := by
  induction s generalizing cur with
  | nil => rfl
  | cons c cs ih =>
    simp only [List.mem_cons, not_or] at h
    simp only [splitHdrAux, splitOnComma, countQ_zero cs h.2]
    by_cases hc : c = ','
    · simp [hc, ih [] h.2]
    · simp [hc, ih (c :: cur) h.2]

/-- the pieces joined with commas -/
def joinComma : List Str → Str
  | [] => []
  | [x] => x
  | x :: y :: r => x ++ ',' :: joinComma (y :: r)

theorem splitOnComma_ne_nil (s cur : Str) : splitOnComma s cur ≠ [] := by
  induction s generalizing cur with
  | nil => simp [splitOnComma]
  | cons c cs ih =>
    simp only [splitOnComma]
    split
    · simp
    · exact ih _

theorem joinComma_cons (x : Str) (l : List Str) (h : l ≠ []) : joinComma (x :: l) = x ++ ',' :: joinComma l := by
  cases l with
  | nil => exact absurd rfl h
  | cons y r => rfl

/-- `splitOnComma` really is the comma split: joining the pieces with commas gives the text back … -/
theorem splitOnComma_join (s cur : Str) : joinComma (splitOnComma s cur) = cur.reverse ++ s := by
  induction s generalizing cur with
  | nil => simp [splitOnComma, joinComma]
  | cons c cs ih =>
    simp only [splitOnComma]
    by_cases hc : c = ','
    · subst hc
      simp only [if_true]
      rw [joinComma_cons _ _ (splitOnComma_ne_nil cs []), ih []]
      simp
    · simp only [hc, if_false]
      rw [ih (c :: cur)]
      simp

/-- … and no piece contains a comma -/
theorem splitOnComma_no_comma (s cur : Str) (hcur : ',' ∉ cur) : ∀ p ∈ splitOnComma s cur, ',' ∉ p := by
  induction s generalizing cur with
  | nil =>
    intro p hp
    simp only [splitOnComma, List.mem_singleton] at hp
    subst hp
    simpa using hcur
  | cons c cs ih =>
    intro p hp
    simp only [splitOnComma] at hp
    by_cases hc : c = ','
    · simp only [hc, if_true, List.mem_cons] at hp
      rcases hp with rfl | hp
      · simpa using hcur
      · exact ih [] (by simp) p hp
    · simp only [hc, if_false] at hp
      refine ih (c :: cur) ?_ p hp
      simp only [List.mem_cons, not_or]
      exact ⟨fun h => hc h.symm, hcur⟩

/-! ### `parse_header`'s first item, `strip` -/

/-- without quote characters the first item ends at the first `;` -/
theorem firstPartAux_noquote (s : Str) (pos : Nat) (pb : Bool) (acc : Str) (h : '"' ∉ s) :
    firstPartAux s pos 0 0 pb acc = acc.reverse ++ s.takeWhile (· ≠ ';') := by
  induction s generalizing pos pb acc with
  | nil => simp [firstPartAux]
  | cons c cs ih =>
    simp only [List.mem_cons, not_or] at h
    have hq : ¬ (c = '"') := fun hc => h.1 hc.symm
    simp only [firstPartAux]
    by_cases hc : c = ';'
    · simp [hc]
    · simp only [hc, false_and, if_false, hq]
      rw [ih _ _ _ h.2]
      simp [List.takeWhile, hc]

def allSpace (s : Str) : Prop := ∀ c ∈ s, isSpace c = true

theorem lstrip_spaces (l x : Str) (h : allSpace l) : lstrip (l ++ x) = lstrip x := by
  induction l with
  | nil => rfl
  | cons c cs ih =>
    have hc : isSpace c = true := h c (by simp)
    simp only [List.cons_append, lstrip, hc, if_true]
    exact ih (fun d hd => h d (List.mem_cons_of_mem _ hd))

theorem lstrip_nonspace (c : Char) (x : Str) (h : isSpace c = false) : lstrip (c :: x) = c :: x := by
  simp [lstrip, h]

/-- `strip` removes exactly the surrounding white space: for `s = l ++ m ++ r` with `l`, `r` white space and
    `m` empty or beginning and ending with a non-space character, `strip s = m` -/
theorem strip_spec (l m r : Str) (hl : allSpace l) (hr : allSpace r)
    (hm : m = [] ∨ (∃ c x, m = c :: x ∧ isSpace c = false) ∧ (∃ c x, m = x ++ [c] ∧ isSpace c = false)) :
    strip (l ++ m ++ r) = m := by
  have hrr : allSpace r.reverse := fun c hc => hr c (List.mem_reverse.mp hc)
  rcases hm with rfl | ⟨⟨c, x, rfl, hc⟩, ⟨d, y, hy, hd⟩⟩
  · -- only white space
    simp only [List.append_nil, strip]
    have h1 : lstrip (l ++ r) = [] := by
      have : lstrip ((l ++ r) ++ []) = lstrip [] := lstrip_spaces (l ++ r) [] (by
        intro c hc
        rcases List.mem_append.mp hc with h | h
        · exact hl c h
        · exact hr c h)
      simpa [lstrip] using this
    rw [h1]
    rfl
  · simp only [strip]
    rw [List.append_assoc, lstrip_spaces l _ hl, List.cons_append, lstrip_nonspace c _ hc]
    simp only [rstrip]
    have : (c :: (x ++ r)).reverse = r.reverse ++ (d :: y.reverse) := by
      have h2 : c :: (x ++ r) = (c :: x) ++ r := rfl
      rw [h2, hy]
      simp
    rw [this, lstrip_spaces _ _ hrr, lstrip_nonspace d _ hd]
    simp only [List.reverse_cons, List.reverse_reverse]
    exact hy.symm

/-- a quote-free header value: its element values are the comma pieces, cut at their first `;`, stripped -/
theorem values_noquote (v : Str) (hv : v ≠ []) (hq : '"' ∉ v) :
    values v = (splitOnComma v []).map fun p => strip (p.takeWhile (· ≠ ';')) := by
  have hpieces : ∀ p ∈ splitOnComma v [], '"' ∉ p := by
    -- every piece is a sub-list of v
    have : ∀ (s cur : Str), '"' ∉ s → '"' ∉ cur → ∀ p ∈ splitOnComma s cur, '"' ∉ p := by
      intro s
      induction s with
      | nil =>
        intro cur _ hc p hp
        simp only [splitOnComma, List.mem_singleton] at hp
        subst hp
        simpa using hc
      | cons c cs ih =>
        intro cur hs hc p hp
        simp only [List.mem_cons, not_or] at hs
        simp only [splitOnComma] at hp
        split at hp
        · simp only [List.mem_cons] at hp
          rcases hp with rfl | hp
          · simpa using hc
          · exact ih [] hs.2 (by simp) p hp
        · exact ih (c :: cur) hs.2 (by simp only [List.mem_cons, not_or]; exact ⟨hs.1, hc⟩) p hp
    exact this v [] hq (by simp)
  simp only [values, hv, if_false, splitHdr, splitHdrAux_noquote v [] hq]
  apply List.map_congr_left
  intro p hp
  simp only [elemValue]
  rw [firstPartAux_noquote p 0 false [] (hpieces p hp)]
  simp

/-! ### no-cache on the wire -/

/-- `p` is one of the comma-separated elements of the (quote-free) header value `v`, read the way HTTP reads
    a list: cut at its first `;` (parameters), surrounding white space removed -/
def HasElement (v tok : Str) : Prop :=
  ∃ piece ∈ splitOnComma v [], strip (piece.takeWhile (· ≠ ';')) = tok

theorem mem_values_of_hasElement (v tok : Str) (hq : '"' ∉ v) (ht0 : tok ≠ []) (h : HasElement v tok) :
    tok ∈ values v := by
  obtain ⟨piece, hp, ht⟩ := h
  by_cases hv : v = []
  · subst hv
    simp only [splitOnComma, List.reverse_nil, List.mem_singleton] at hp
    subst hp
    exact absurd ht.symm ht0
  · rw [values_noquote v hv hq]
    exact List.mem_map.mpr ⟨piece, hp, ht⟩

/-- **`Cache-Control: no-cache` on the wire.**  Whatever else the (quote-free) header value lists, in whatever
    order, with whatever white space (anything `str.strip()` removes) and parameters: if one of its elements is
    `no-cache`, the handler is reached, from any cache state. -/
theorem C15_raw_cc_no_cache (cfg : Cfg) (w : World) (rr : RawReq) (p : Plan)
    (hq : '"' ∉ hdr rr sCacheControl) (h : HasElement (hdr rr sCacheControl) sNoCache) :
    ∃ c, (request cfg w (parseReq rr) p).2 = .miss w.nextGen c := by
  apply C15_cc_no_cache
  exact ⟨sNoCache, mem_values_of_hasElement _ _ hq (by decide) h, by decide⟩

/-- **`Pragma: no-cache` on the wire.** -/
theorem C15_raw_pragma_no_cache (cfg : Cfg) (w : World) (rr : RawReq) (p : Plan)
    (hq : '"' ∉ hdr rr sPragma) (h : HasElement (hdr rr sPragma) sNoCache) :
    ∃ c, (request cfg w (parseReq rr) p).2 = .miss w.nextGen c :=
  C15_pragma_no_cache cfg w (parseReq rr) p (mem_values_of_hasElement _ _ hq (by decide) h)

/-- **`no-store` on the wire**: a request or a response that lists `no-store` adds nothing to the store. -/
theorem C15_raw_no_store (cfg : Cfg) (w : World) (rr : RawReq) (rp : RawPlan)
    (h : ('"' ∉ hdr rr sCacheControl ∧ HasElement (hdr rr sCacheControl) sNoStore) ∨
         ('"' ∉ rp.cacheControl ∧ HasElement rp.cacheControl sNoStore)) :
    Shrinks (request cfg w (parseReq rr) (parsePlan rp)).1.cache.store w.cache.store := by
  apply C15_no_store_step
  rcases h with ⟨hq, h⟩ | ⟨hq, h⟩
  · exact Or.inl (mem_values_of_hasElement _ _ hq (by decide) h)
  · right; left
    simp only [parsePlan, decide_eq_true_eq]
    exact mem_values_of_hasElement _ _ hq (by decide) h

/-- non-vacuity: the usual spellings are such lists (white space of every kind, parameters, other directives) -/
example : HasElement "max-age=0 ,\tno-cache ;x=1, foo".toList sNoCache := ⟨" \tno-cache ;x=1".toList.tail, by decide, by decide⟩
example : '"' ∉ "max-age=0 ,\tno-cache ;x=1, foo".toList := by decide
/-- … and what is NOT a `no-cache` directive: inside a quoted string, or in another case -/
example : values "foo=\"a, no-cache\"".toList = ["foo=\"a, no-cache\"".toList] := by decide
example : sNoCache ∉ values "No-Cache".toList := by decide

/-! ### Vary on the wire -/

/-- header names are folded: a selecting header named in any case selects the same request header -/
theorem C15_vary_name_folded (r : Req) (h h' : Str) (hh : title h = title h') : hget r h = hget r h' := by
  simp only [hget, hh]

theorem alpha_lt (c : Char) (hc : isAsciiAlpha c = true) : c.toNat < 128 := by
  simp only [isAsciiAlpha, Bool.or_eq_true, Bool.and_eq_true, decide_eq_true_eq] at hc
  have : 'z'.toNat = 122 := by decide
  have : 'Z'.toNat = 90 := by decide
  omega

theorem alpha_all : ∀ n : Fin 128, isAsciiAlpha (Char.ofNat n) = true →
    (isAsciiAlpha (Char.ofNat n).toLower = true ∧ (Char.ofNat n).toLower.toLower = (Char.ofNat n).toLower) ∧
    (isAsciiAlpha (Char.ofNat n).toUpper = true ∧ (Char.ofNat n).toUpper.toUpper = (Char.ofNat n).toUpper) := by
  decide

theorem alpha_facts (c : Char) (hc : isAsciiAlpha c = true) :
    (isAsciiAlpha c.toLower = true ∧ c.toLower.toLower = c.toLower) ∧
    (isAsciiAlpha c.toUpper = true ∧ c.toUpper.toUpper = c.toUpper) := by
  have h := alpha_all ⟨c.toNat, alpha_lt c hc⟩
  simp only [Char.ofNat_toNat] at h
  exact h hc

theorem titleAux_idem (b : Bool) (s : Str) : titleAux b (titleAux b s) = titleAux b s := by
  induction s generalizing b with
  | nil => rfl
  | cons c cs ih =>
    have alphaL : ∀ c : Char, isAsciiAlpha c = true → isAsciiAlpha c.toLower = true ∧ c.toLower.toLower = c.toLower :=
      fun c hc => (alpha_facts c hc).1
    have alphaU : ∀ c : Char, isAsciiAlpha c = true → isAsciiAlpha c.toUpper = true ∧ c.toUpper.toUpper = c.toUpper :=
      fun c hc => (alpha_facts c hc).2
    simp only [titleAux]
    by_cases ha : isAsciiAlpha c = true
    · simp only [ha, if_true]
      cases b
      · simp only [Bool.false_eq_true, if_false]
        simp only [titleAux, (alphaU c ha).1, if_true, Bool.false_eq_true, if_false, (alphaU c ha).2, ih]
      · simp only [if_true]
        simp only [titleAux, (alphaL c ha).1, if_true, (alphaL c ha).2, ih]
    · simp only [ha, if_false, Bool.false_eq_true]
      simp only [titleAux, ha, if_false, Bool.false_eq_true, ih]

/-- **Key folding is idempotent**: the folded name selects what the name selects (so `selecting_headers` may
    hold the names in any case, and `Vary: x-a` and `Vary: X-A` mean the same request header). -/
theorem C15_title_idempotent (s : Str) : title (title s) = title s := titleAux_idem false s

theorem C15_vary_name_case (r : Req) (h : Str) : hget r (title h) = hget r h := by
  simp only [hget, C15_title_idempotent]

example : title "x-a".toList = "X-A".toList ∧ title "X-a".toList = "X-A".toList ∧ title "*".toList = "*".toList := by decide

/-- **`Vary` on the wire**: for a quote-free Vary value the selecting headers are its comma elements (cut at
    `;`, stripped). -/
theorem C15_raw_vary (rp : RawPlan) (hv : rp.vary ≠ []) (hq : '"' ∉ rp.vary) :
    (parsePlan rp).vary = (splitOnComma rp.vary []).map fun p => strip (p.takeWhile (· ≠ ';')) := by
  simp only [parsePlan]
  exact values_noquote _ hv hq

/-- `Vary: *` names a header called `*`: every request that does not carry one shares a single variant
    (HTTP's meaning, "never reuse without revalidation", is NOT implemented; the statement of C15 speaks of
    the request headers named in Vary, and `*` names none a client sends) -/
theorem C15_vary_star_is_a_name : (parsePlan { vary := "*".toList, cacheControl := [], pragma := [], lastMod := [], size := 1 }).vary = ["*".toList] := by
  decide

/-! ### conditional requests answered from the cache -/

theorem split_at {α : Type} (pre post : List α) (e : α) (j : Nat) (hj : j < pre.length) :
    pre ++ e :: post = pre.take j ++ pre[j] :: (pre.drop (j + 1) ++ e :: post) := by
  have hp : pre = pre.take j ++ pre[j] :: pre.drop (j + 1) := by simp
  have := congrArg (fun l => l ++ e :: post) hp
  simp only [List.append_assoc, List.cons_append] at this
  exact this

theorem find_producer (L : List Ev) (g : Nat) (h : ∃ e' ∈ L, e'.out = .miss g true) :
    ∃ e', producerOf L g = some e' ∧ e' ∈ L ∧ e'.out = .miss g true := by
  unfold producerOf
  cases hf : L.find? (fun e => decide (e.out = .miss g true)) with
  | none =>
    obtain ⟨e', he', ho⟩ := h
    have := List.find?_eq_none.mp hf e' he'
    simp [ho] at this
  | some e' =>
    refine ⟨e', rfl, List.mem_of_find?_eq_some hf, ?_⟩
    have := List.find?_some hf
    simpa using this

/-- **In every history the stored response a hit was served from is found**: `finalise` consults the headers
    (Last-Modified) of a real, earlier handler run of the same store key. -/
theorem C15_producer_found (cfg : Cfg) (ops : List Op) (pre : List Ev) (e : Ev) (post : List Ev) (g a : Nat)
    (hx : exec cfg {} ops = pre ++ e :: post) (ho : e.out = .hit g a) :
    ∃ e', producerOf pre g = some e' ∧ e' ∈ pre ∧ e'.out = .miss g true ∧ e'.r.uri = e.r.uri := by
  obtain ⟨e1, h1, sel, hm, hu, _⟩ := (hit_master cfg ops pre e post hx).1 g a ho
  obtain ⟨e', hf, hin, hout⟩ := find_producer pre g ⟨e1, h1, hm⟩
  refine ⟨e', hf, hin, hout, ?_⟩
  -- generation numbers are unique: e' is e1
  obtain ⟨i, hi, rfl⟩ := List.getElem_of_mem hin
  obtain ⟨j, hj, rfl⟩ := List.getElem_of_mem h1
  have hex := exec_allGood (cfg := cfg) (P := fun _ _ => True) (Q := fun _ _ => True) (fun _ _ _ => trivial) ops
    (fun _ _ _ => trivial) {} [] Inv.init
  rw [hx] at hex
  by_cases hij : i = j
  · subst hij; exact hu
  · exfalso
    -- the later of the two has a generation larger than the earlier one
    rcases Nat.lt_or_gt_of_ne hij with hlt | hlt
    · have hsplit := split_at pre post e j hj
      have hg := (AllGood.at hex (pre.take j) pre[j] _ hsplit).2 g true hm pre[i]
        (by simp only [List.nil_append]; exact List.mem_take_iff_getElem.mpr ⟨i, by omega, rfl⟩) g true hout
      omega
    · have hsplit := split_at pre post e i hi
      have hg := (AllGood.at hex (pre.take i) pre[i] _ hsplit).2 g true hout pre[j]
        (by simp only [List.nil_append]; exact List.mem_take_iff_getElem.mpr ⟨j, by omega, rfl⟩) g true hm
      omega

/-- **A 304 from the cache is justified**: it answers a request that hit a stored response (so everything
    proved about hits — genuine, same variant, fresh, Age — holds for it), on a GET or HEAD, whose
    If-Modified-Since is exactly the stored response's (non-empty) Last-Modified, and whose
    If-Unmodified-Since, if any, is that value too. -/
theorem C15_not_modified_justified (L : List Ev) (e : Ev) (g a : Nat) (h : finalise L e = .notModified g a) :
    e.out = .hit g a ∧ ∃ e', producerOf L g = some e' ∧ e'.p.lastMod ≠ [] ∧ e.r.ims = e'.p.lastMod ∧
      (e.r.method = sGet ∨ e.r.method = sHead) ∧ (e.r.ius = [] ∨ e.r.ius = e'.p.lastMod) := by
  unfold finalise at h
  split at h
  · cases h
  · cases h
  · rename_i g' a' ho
    split at h
    · cases h
    · rename_i e' hp
      split at h
      · cases h
      · rename_i hv
        cases h
        refine ⟨ho, e', hp, ?_⟩
        unfold validateSince at hv
        split at hv
        · cases hv
        · rename_i hlm
          split at hv
          · cases hv
          · rename_i hius
            split at hv
            · rename_i hims
              split at hv
              · rename_i hmeth
                refine ⟨hlm, hims.2, hmeth, ?_⟩
                by_cases h0 : e.r.ius = []
                · exact Or.inl h0
                · right
                  by_cases h1 : e.r.ius = e'.p.lastMod
                  · exact h1
                  · exact absurd ⟨h0, h1⟩ hius
              · cases hv
            · cases hv
      · cases h

/-- a 412 from the cache likewise answers a request that hit a stored response with a Last-Modified -/
theorem C15_precondition_failed_justified (L : List Ev) (e : Ev) (g : Nat) (h : finalise L e = .precond g) :
    (∃ a, e.out = .hit g a) ∧ ∃ e', producerOf L g = some e' ∧ e'.p.lastMod ≠ [] ∧
      ((e.r.ius ≠ [] ∧ e.r.ius ≠ e'.p.lastMod) ∨
       (e.r.ims = e'.p.lastMod ∧ e.r.method ≠ sGet ∧ e.r.method ≠ sHead)) := by
  unfold finalise at h
  split at h
  · cases h
  · cases h
  · rename_i g' a' ho
    split at h
    · cases h
    · rename_i e' hp
      split at h
      · cases h
      · cases h
      · rename_i hv
        cases h
        refine ⟨⟨a', ho⟩, e', hp, ?_⟩
        unfold validateSince at hv
        split at hv
        · cases hv
        · rename_i hlm
          split at hv
          · rename_i hius
            exact ⟨hlm, Or.inl hius⟩
          · split at hv
            · rename_i hims
              split at hv
              · cases hv
              · rename_i hmeth
                exact ⟨hlm, Or.inr ⟨hims.2, fun h => hmeth (Or.inl h), fun h => hmeth (Or.inr h)⟩⟩
            · cases hv

/-- whatever `finalise` answers that is not the handler's own response or a 400 comes from a hit -/
theorem C15_final_from_hit (L : List Ev) (e : Ev) :
    (∀ g a, finalise L e = .served g a → e.out = .hit g a) ∧
    (∀ g c, finalise L e = .handler g c ↔ e.out = .miss g c) := by
  unfold finalise
  refine ⟨?_, ?_⟩
  · intro g a h
    split at h
    · cases h
    · cases h
    · rename_i g' a' ho
      split at h
      · cases h; exact ho
      · split at h <;> cases h
        exact ho
  · intro g c
    constructor
    · intro h
      split at h
      · rename_i ho; cases h; exact ho
      · cases h
      · split at h
        · cases h
        · split at h <;> cases h
    · intro h
      rw [h]

/-! ### the expires tool -/

/-- `expires(secs=0, force=True)`: Pragma: no-cache, (HTTP/1.1) Cache-Control, Expires in the past — always -/
theorem C15_expires_zero_force (http11 : Bool) (h : HdrPresence) :
    expiresTool 0 true http11 h = ⟨true, http11, some .past⟩ := by
  cases http11 <;> simp [expiresTool]

/-- without `force` and without an indicator header (ETag, Last-Modified, Age, Expires) the tool does nothing -/
theorem C15_expires_no_indicator (secs : Int) (http11 : Bool) (h : HdrPresence)
    (hi : h.etag = false ∧ h.lastModified = false ∧ h.age = false ∧ h.expires = false) :
    expiresTool secs false http11 h = ⟨false, false, none⟩ := by
  obtain ⟨a, b, c, d⟩ := hi
  simp [expiresTool, a, b, c, d]

/-- a header already there is kept unless `force` -/
theorem C15_expires_keeps_existing (secs : Int) (http11 : Bool) (h : HdrPresence) :
    (h.pragma = true → (expiresTool secs false http11 h).setPragma = false) ∧
    (h.cacheControl = true → (expiresTool secs false http11 h).setCacheControl = false) ∧
    (h.expires = true → (expiresTool secs false http11 h).setExpires = none) := by
  refine ⟨?_, ?_, ?_⟩ <;> intro hp <;> simp only [expiresTool, hp] <;> split <;> simp_all

/-- **A response on which the expires tool wrote `Pragma: no-cache` is never stored**: whatever the cache
    state, the request adds nothing to the store. -/
theorem C15_expires_prevents_store (cfg : Cfg) (w : World) (r : Req) (rp : RawPlan) (e : ExpiresEffect)
    (h : e.setPragma = true) :
    Shrinks (request cfg w r (parsePlan (applyExpires e rp))).1.cache.store w.cache.store := by
  apply C15_no_store_step
  right; right
  simp only [parsePlan, applyExpires, h, if_true, decide_eq_true_eq]
  decide

/-- `tools.expires` with `secs = 0` on an application: a response that carries a validator or an expiry date
    (ETag, Last-Modified, Expires), or any response when `force` is set, is never stored by the caching tool --
    unless the handler itself set a `Pragma` header that is not `no-cache` and `force` is off. -/
theorem C15_expires_zero_app (cfg : Cfg) (w : World) (r : Req) (rp : RawPlan) (x : ExpCfg) (hs : x.secs = 0)
    (h : x.force = true ∨ ((rp.etag = true ∨ rp.lastMod ≠ [] ∨ rp.expiresHdr = true) ∧ rp.pragma = [])) :
    Shrinks (request cfg w r (parsePlan (afterTools (some x) rp))).1.cache.store w.cache.store := by
  simp only [afterTools]
  apply C15_expires_prevents_store
  simp only [expiresTool, presenceOf, hs]
  rcases h with h | ⟨h1, h2⟩
  · simp [h]
  · cases hf : x.force
    · rcases h1 with h1 | h1 | h1 <;> simp [h1, h2]
    · simp

end CpProofs.C15Hdr
