import CpModel.DispatchFn
import CpModel.Gen.C02Popargs
import CpProofs.C02
/-!
  C02 with `_cp_dispatch` at full strength: theorems about `CpModel.DispatchFn` (`find_handler` over an
  arbitrary dispatcher function) and the proof that `CpModel.Dispatch` (the model compared with the real
  dispatcher) is an instance.
-/
namespace CpProofs.C02Fn
open CpModel.Dispatch CpModel.DispatchFn CpProofs.C02

/-! ### `Dispatch.walk` is `walkF` over the descriptor interpreter -/

theorem resolve_refines (tr : Name → Name) (g : Graph) (node : Option NodeId) (name : Name)
    (rest : List Name) :
    resolve tr g node name rest = resolveF (semOf g) tr g node name rest := by
  unfold resolve resolveF semOf
  cases g.getattr node (tr name) with
  | some s => rfl
  | none =>
    dsimp only
    cases g.getattr node dispatchName with
    | none => rfl
    | some d =>
      dsimp only
      split
      · cases (g.nodeD d).disp with
        | none => rfl
        | some dd =>
          dsimp only
          cases runDisp g dd (name :: rest).dropLast with
          | none => rfl
          | some r => obtain ⟨t, vp, ps⟩ := r; rfl
      · rfl

theorem walkStep_refines (tr : Name → Name) (app : App) (fp : List Name) (st : WalkStF) (name : Name)
    (rest : List Name) :
    walkStep tr app fp st.toWalkSt name rest =
      (walkStepF (semOf app.g) tr app fp st name rest).map (·.toWalkSt) := by
  unfold walkStep walkStepF
  rw [resolve_refines]
  cases resolveF (semOf app.g) tr app.g st.node name rest with
  | error e => rfl
  | ok r =>
    obtain ⟨sub, iter1, ps⟩ := r
    dsimp only
    split <;> rfl

theorem walk_refines (tr : Name → Name) (app : App) (fp : List Name) :
    ∀ (fuel : Nat) (st : WalkStF),
      walk tr app fp fuel st.toWalkSt = (walkF (semOf app.g) tr app fp fuel st).map (·.toWalkSt) := by
  intro fuel
  induction fuel with
  | zero =>
    intro st
    unfold walk walkF
    split <;> rfl
  | succ n ih =>
    intro st
    unfold walk walkF
    cases hit : st.iter with
    | nil => rfl
    | cons name rest =>
      dsimp only
      rw [walkStep_refines]
      cases walkStepF (semOf app.g) tr app fp st name rest with
      | error e => rfl
      | ok st' => exact ih st'

theorem run_refines (tr : Name → Name) (app : App) (segs : List Name) :
    walk tr app (fullpathOf segs) (fullpathOf segs).length
        { node := some app.g.root, iter := fullpathOf segs,
          trail := [rootEntry app (fullpathOf segs).length] } =
      (runF (semOf app.g) tr app segs).map (·.toWalkSt) := by
  unfold runF
  exact walk_refines tr app (fullpathOf segs) _ (initF app (fullpathOf segs))

theorem trailOf_refines (tr : Name → Name) (app : App) (segs : List Name) :
    trailOf tr app segs = (runF (semOf app.g) tr app segs).map (·.trail) := by
  unfold trailOf
  dsimp only
  rw [run_refines]
  cases runF (semOf app.g) tr app segs <;> rfl

theorem paramsOf_refines (tr : Name → Name) (app : App) (segs : List Name) :
    paramsOf tr app segs = paramsF (semOf app.g) tr app segs := by
  unfold paramsOf paramsF
  dsimp only
  rw [run_refines]
  cases runF (semOf app.g) tr app segs <;> rfl

/-- **Refinement.**  The model that is compared with the real dispatcher on every run is `findHandlerF`
    over the descriptor interpreter: every theorem below about an arbitrary dispatcher function holds for it. -/
theorem findHandler_refines (tr : Name → Name) (app : App) (path : List Char) :
    findHandlerWith tr app path = (findHandlerF (semOf app.g) tr app path).map (·.toFindResult) := by
  unfold findHandlerWith findHandlerF
  dsimp only
  rw [trailOf_refines]
  cases runF (semOf app.g) tr app (segments path) with
  | error e => rfl
  | ok st =>
    dsimp only [Except.map]
    cases scan app.g st.trail.reverse <;> rfl

theorem dispatchWith_eq (tr : Name → Name) (app : App) (path : List Char) :
    dispatchWith tr app path = dispatchOfFind app (findHandlerWith tr app path) := by
  unfold dispatchWith dispatchOfFind
  rfl

theorem methodDispatchWith_eq (tr : Name → Name) (app : App) (path : List Char) (meth : Name) :
    methodDispatchWith tr app path meth = methodOfFind app (findHandlerWith tr app path) meth := by
  unfold methodDispatchWith methodOfFind
  rfl

theorem dispatch_refines (tr : Name → Name) (app : App) (path : List Char) :
    dispatchWith tr app path = dispatchF (semOf app.g) tr app path := by
  rw [dispatchWith_eq, findHandler_refines]; rfl

theorem methodDispatch_refines (tr : Name → Name) (app : App) (path : List Char) (meth : Name) :
    methodDispatchWith tr app path meth = methodDispatchF (semOf app.g) tr app path meth := by
  rw [methodDispatchWith_eq, findHandler_refines]; rfl

/-! ### one iteration, for an arbitrary dispatcher function -/

theorem dropLast_drop_append_last {α : Type} (l : List α) (x : α) (k : Nat) (hx : l.getLast? = some x) :
    ∃ k', l.dropLast.drop k ++ [x] = l.drop k' := by
  have hl : l.dropLast ++ [x] = l := by
    obtain ⟨ys, hys⟩ := List.getLast?_eq_some_iff.mp hx
    subst hys; simp
  by_cases hk : k ≤ l.dropLast.length
  · refine ⟨k, ?_⟩
    conv => rhs; rw [← hl]
    rw [List.drop_append_of_le_length hk]
  · refine ⟨l.dropLast.length, ?_⟩
    rw [List.drop_eq_nil_of_le (by omega)]
    conv => rhs; rw [← hl]
    simp

/-- What one successful iteration does: one trail entry (and one ghost list) appended, the entry carries the
    new node and the new length of `iternames`, the move is a `Step`, the list got strictly shorter, and — when
    dispatchers only remove from the front — the new list is a suffix of the old one. -/
theorem walkStepF_ok {sem : DispSem} {tr : Name → Name} {app : App} {fp : List Name} {st st' : WalkStF}
    {name : Name} {rest : List Name} (h : walkStepF sem tr app fp st name rest = .ok st') :
    (∃ e, st'.trail = st.trail ++ [e] ∧ e.node = st'.node ∧ e.segleft = st'.iter.length ∧ e.name = name) ∧
    st'.rests = st.rests ++ [st'.iter] ∧
    Step sem tr app.g (st.node, name :: rest) (st'.node, st'.iter) ∧
    st'.iter.length ≤ rest.length ∧
    (WF sem → ∃ k, st'.iter = (name :: rest).drop k) := by
  unfold walkStepF at h
  split at h
  · cases h
  · rename_i sub iter1 ps hres
    dsimp only at h
    split at h
    · cases h
    · rename_i hle
      injection h with h; subst h
      dsimp only
      refine ⟨⟨_, rfl, rfl, rfl, rfl⟩, rfl, ?_, ?_, ?_⟩
      · -- the move is a Step
        unfold resolveF at hres
        split at hres
        · rename_i s hs
          injection hres with hres
          injection hres with h1 h2
          injection h2 with h2 h3
          subst h1 h2
          have : ¬ (rest.length = rest.length + 1) := by omega
          simp only [this, if_false]
          exact Step.attr hs
        · rename_i hs
          split at hres
          · rename_i hd
            injection hres with hres
            injection hres with h1 h2
            injection h2 with h2 h3
            subst h1 h2
            have : ¬ (rest.length = rest.length + 1) := by omega
            simp only [this, if_false]
            exact Step.miss hs (by unfold dispatcherOf; rw [hd])
          · rename_i d hd
            dsimp only at hres
            split at hres
            · rename_i hcond
              split at hres
              · cases hres
              · rename_i o ho
                injection hres with hres
                injection hres with h1 h2
                injection h2 with h2 h3
                subst h1 h2
                have hdo : dispatcherOf app.g st.node (rest.length + 1) = some d := by
                  unfold dispatcherOf; rw [hd]; dsimp only; rw [if_pos hcond]
                exact Step.disp hs hdo ho (by omega)
            · rename_i hcond
              injection hres with hres
              injection hres with h1 h2
              injection h2 with h2 h3
              subst h1 h2
              have : ¬ (rest.length = rest.length + 1) := by omega
              simp only [this, if_false]
              exact Step.miss hs (by unfold dispatcherOf; rw [hd]; dsimp only; rw [if_neg hcond])
      · split
        · rename_i heq; simp only [List.length_drop]; omega
        · omega
      · intro hwf
        -- iter1 is a suffix of name :: rest
        have h1 : ∃ k, iter1 = (name :: rest).drop k := by
          unfold resolveF at hres
          split at hres
          · injection hres with hres
            injection hres with h1 h2
            injection h2 with h2 h3
            exact ⟨1, by simp [← h2]⟩
          · split at hres
            · injection hres with hres
              injection hres with h1 h2
              injection h2 with h2 h3
              exact ⟨1, by simp [← h2]⟩
            · dsimp only at hres
              split at hres
              · split at hres
                · cases hres
                · rename_i o ho
                  injection hres with hres
                  injection hres with h1 h2
                  injection h2 with h2 h3
                  obtain ⟨k, hk⟩ := hwf _ _ _ ho
                  have hlast : (name :: rest).getLast? = some ((name :: rest).getLast (by simp)) :=
                    List.getLast?_eq_some_getLast (by simp)
                  rw [← h2, hk, hlast]
                  exact dropLast_drop_append_last (name :: rest) _ k hlast
              · injection hres with hres
                injection hres with h1 h2
                injection h2 with h2 h3
                exact ⟨1, by simp [← h2]⟩
        obtain ⟨k, hk⟩ := h1
        split
        · exact ⟨k + 1, by rw [hk, List.drop_drop]⟩
        · exact ⟨k, hk⟩

/-! ### the loop invariant -/

theorem chain_snoc {α : Type} {R : α → α → Prop} : ∀ (l : List α) (b : α), Chain R l →
    (∀ a, l.getLast? = some a → R a b) → Chain R (l ++ [b]) := by
  intro l
  induction l with
  | nil => intro b _ _; trivial
  | cons x xs ih =>
    intro b hc hl
    cases xs with
    | nil => exact ⟨hl x rfl, trivial⟩
    | cons y ys =>
      refine ⟨hc.1, ?_⟩
      apply ih b hc.2
      intro a ha
      apply hl a
      simpa [List.getLast?_cons_cons] using ha

theorem getLast?_zip {α β : Type} {l₁ : List α} {l₂ : List β} {a : α} {b : β}
    (hlen : l₁.length = l₂.length) (h1 : l₁.getLast? = some a) (h2 : l₂.getLast? = some b) :
    (l₁.zip l₂).getLast? = some (a, b) := by
  obtain ⟨ys, hys⟩ := List.getLast?_eq_some_iff.mp h1
  obtain ⟨zs, hzs⟩ := List.getLast?_eq_some_iff.mp h2
  subst hys hzs
  have : ys.length = zs.length := by simpa using hlen
  rw [List.zip_append this]
  simp

/-- What holds of the loop state at every iteration. -/
structure Inv (sem : DispSem) (tr : Name → Name) (app : App) (fp : List Name) (st : WalkStF) : Prop where
  len : st.trail.length = st.rests.length
  seg : st.trail.map (·.segleft) = st.rests.map (·.length)
  lastNode : (st.trail.map (·.node)).getLast? = some st.node
  lastRest : st.rests.getLast? = some st.iter
  chain : Chain (Step sem tr app.g) ((st.trail.map (·.node)).zip st.rests)
  suffix : WF sem → ∀ r ∈ st.rests, ∃ k, r = fp.drop k
  headT : st.trail.head? = some (rootEntry app fp.length)
  headR : st.rests.head? = some fp

theorem inv_init (sem : DispSem) (tr : Name → Name) (app : App) (fp : List Name) :
    Inv sem tr app fp (initF app fp) := by
  refine ⟨rfl, ?_, rfl, rfl, trivial, ?_, rfl, rfl⟩
  · simp [initF, rootEntry]
  · intro _ r hr
    simp [initF] at hr
    exact ⟨0, by simp [hr]⟩

theorem inv_step {sem : DispSem} {tr : Name → Name} {app : App} {fp : List Name} {st st' : WalkStF}
    {name : Name} {rest : List Name} (hi : Inv sem tr app fp st) (hit : st.iter = name :: rest)
    (h : walkStepF sem tr app fp st name rest = .ok st') : Inv sem tr app fp st' := by
  obtain ⟨⟨e, hT, hn, hs, _⟩, hR, hstep, _, hsuf⟩ := walkStepF_ok h
  refine ⟨?_, ?_, ?_, ?_, ?_, ?_, ?_, ?_⟩
  · rw [hT, hR]; simp [hi.len]
  · rw [hT, hR]; simp [hi.seg, hs]
  · rw [hT]; simp [hn]
  · rw [hR]; simp
  · rw [hT, hR, List.map_append, List.zip_append (by simp [hi.len])]
    apply chain_snoc _ _ hi.chain
    intro a ha
    have := getLast?_zip (by simp [hi.len]) hi.lastNode hi.lastRest
    rw [this] at ha
    injection ha with ha; subst ha
    rw [hit]
    simpa [hn] using hstep
  · intro hwf r hr
    rw [hR] at hr
    rcases List.mem_append.mp hr with hr | hr
    · exact hi.suffix hwf r hr
    · simp at hr
      subst hr
      obtain ⟨k, hk⟩ := hsuf hwf
      obtain ⟨j, hj⟩ := hi.suffix hwf st.iter (List.mem_of_getLast? hi.lastRest)
      exact ⟨j + k, by rw [hk, ← hit, hj, List.drop_drop]⟩
  · rw [hT]; cases hh : st.trail with
    | nil => have := hi.headT; rw [hh] at this; cases this
    | cons x xs => have := hi.headT; rw [hh] at this; simpa using this
  · rw [hR]; cases hh : st.rests with
    | nil => have := hi.headR; rw [hh] at this; cases this
    | cons x xs => have := hi.headR; rw [hh] at this; simpa using this

theorem inv_walk {sem : DispSem} {tr : Name → Name} {app : App} {fp : List Name} :
    ∀ (fuel : Nat) (st st' : WalkStF), Inv sem tr app fp st → walkF sem tr app fp fuel st = .ok st' →
      Inv sem tr app fp st' ∧ st'.iter = [] := by
  intro fuel
  induction fuel with
  | zero =>
    intro st st' hi h
    unfold walkF at h
    split at h
    · rename_i he
      injection h with h; subst h
      exact ⟨hi, by simpa using he⟩
    · cases h
  | succ n ih =>
    intro st st' hi h
    unfold walkF at h
    split at h
    · rename_i he
      injection h with h; subst h
      exact ⟨hi, he⟩
    · rename_i name rest hit
      split at h
      · cases h
      · rename_i st1 hst
        exact ih st1 st' (inv_step hi hit hst) h

/-! ### `find_handler` over an arbitrary dispatcher function -/

theorem findHandlerF_ok {sem : DispSem} {tr : Name → Name} {app : App} {path : List Char} {r : FindResultF}
    (h : findHandlerF sem tr app path = .ok r) :
    ∃ st, runF sem tr app (segments path) = .ok st ∧ r.walked = st.trail ∧ r.rests = st.rests ∧
      r.params = st.params ∧
      r.found = scan app.g st.trail.reverse ∧
      (∀ f, r.found = some f → r.vpath = vpathOf (fullpathOf (segments path)) f.segleft ∧
        r.trail = insertDefault app.g st.trail f) ∧
      (r.found = none → r.vpath = [] ∧ r.trail = st.trail) := by
  unfold findHandlerF at h
  dsimp only at h
  split at h
  · cases h
  · rename_i st hst
    refine ⟨st, hst, ?_⟩
    split at h
    · rename_i hs
      injection h with h; subst h
      simp [hs]
    · rename_i f hs
      injection h with h; subst h
      refine ⟨rfl, rfl, rfl, hs.symm, ?_, by simp⟩
      intro f' hf'
      injection hf' with hf'; subst hf'
      exact ⟨rfl, rfl⟩

/-- **Exposed only (any `_cp_dispatch`).**  Whatever the dispatcher functions do, the callable `find_handler`
    returns carries a true `exposed` mark. -/
theorem C02F_exposed_only {sem : DispSem} {tr : Name → Name} {app : App} {path : List Char}
    {r : FindResultF} {f : Found} (h : findHandlerF sem tr app path = .ok r) (hf : r.found = some f) :
    app.g.exposed f.handler = true := by
  obtain ⟨st, _, _, _, _, hscan, _⟩ := findHandlerF_ok h
  rw [hf] at hscan
  exact scan_exposed _ _ _ hscan.symm

/-- **Most specific, relative to the trail the dispatchers produced.**  The handler is a candidate of the
    walked object trail and no candidate is more specific (larger trail index; `default` before the object at
    the same index); `None` (404) exactly when the trail offers no exposed candidate. -/
theorem C02F_most_specific {sem : DispSem} {tr : Name → Name} {app : App} {path : List Char}
    {r : FindResultF} (h : findHandlerF sem tr app path = .ok r) :
    (∀ f, r.found = some f → Cand app.g r.walked f ∧ ∀ f', Cand app.g r.walked f' → NoBetter f' f) ∧
    (r.found = none ↔ ∀ f', ¬ Cand app.g r.walked f') := by
  obtain ⟨st, _, hw, _, _, hscan, _⟩ := findHandlerF_ok h
  rw [hw]
  have h1 : ∀ f, r.found = some f → Cand app.g st.trail f ∧ ∀ f', Cand app.g st.trail f' → NoBetter f' f := by
    intro f hf
    have := (scan_spec app.g st.trail.reverse).1 f (by rw [← hscan, hf])
    simpa using this
  refine ⟨h1, ?_, ?_⟩
  · intro hn
    have := (scan_spec app.g st.trail.reverse).2 (by rw [← hscan, hn])
    simpa using this
  · intro hno
    cases hf : r.found with
    | none => rfl
    | some f => exact absurd (h1 f hf).1 (hno f)

/-- **404 iff no candidate** at the level of `Dispatcher.__call__` (a falsy exposed result also gives 404). -/
theorem C02F_not_found_iff {sem : DispSem} {tr : Name → Name} {app : App} {path : List Char} :
    dispatchF sem tr app path = .notFound ↔
      ∃ r, findHandlerF sem tr app path = .ok r ∧
        ((∀ f', ¬ Cand app.g r.walked f') ∨
         (∃ f, r.found = some f ∧ (app.g.nodeD f.handler).truthy = false)) := by
  unfold dispatchF dispatchOfFind
  cases hr : findHandlerF sem tr app path with
  | error e => simp [Except.map]
  | ok r =>
    have hms := C02F_most_specific hr
    simp only [Except.map, FindResultF.toFindResult]
    cases hf : r.found with
    | none =>
      simp only [true_iff]
      exact ⟨r, rfl, .inl (hms.2.mp hf)⟩
    | some f =>
      simp only
      constructor
      · intro h
        split at h
        · cases h
        · rename_i ht
          exact ⟨r, rfl, .inr ⟨f, hf, by simpa using ht⟩⟩
      · intro ⟨r', hr', hc⟩
        injection hr' with hr'; subst hr'
        rcases hc with hno | ⟨f', hf', ht⟩
        · exact absurd (hms.1 f hf).1 (hno f)
        · rw [hf] at hf'; injection hf' with hf'; subst hf'
          simp [ht]

/-- **The trail is the path matched against the tree.**  The walked trail starts at the root with the whole
    `fullpath` to match, consecutive entries are related by `Step` (attribute of the translated name / miss /
    whatever the dispatcher did), and `segleft` of an entry is the number of names left at that point. -/
theorem C02F_trail_chain {sem : DispSem} {tr : Name → Name} {app : App} {path : List Char}
    {r : FindResultF} (h : findHandlerF sem tr app path = .ok r) :
    r.walked.length = r.rests.length ∧
    r.walked.map (·.segleft) = r.rests.map (·.length) ∧
    r.walked.head? = some (rootEntry app (fullpathOf (segments path)).length) ∧
    r.rests.head? = some (fullpathOf (segments path)) ∧
    r.rests.getLast? = some [] ∧
    Chain (Step sem tr app.g) ((r.walked.map (·.node)).zip r.rests) := by
  obtain ⟨st, hrun, hw, hr, _⟩ := findHandlerF_ok h
  unfold runF at hrun
  obtain ⟨hi, hnil⟩ := inv_walk _ _ _ (inv_init sem tr app (fullpathOf (segments path))) hrun
  rw [hw, hr]
  exact ⟨hi.len, hi.seg, hi.headT, hi.headR, by rw [hi.lastRest, hnil], hi.chain⟩

theorem drop_eq_drop_length_sub {α : Type} (l : List α) (k : Nat) :
    l.drop k = l.drop (l.length - (l.drop k).length) := by
  by_cases hk : k ≤ l.length
  · have : l.length - (l.drop k).length = k := by simp only [List.length_drop]; omega
    rw [this]
  · rw [List.drop_eq_nil_of_le (by omega)]
    simp

/-- **Positional arguments = the final vpath** (dispatchers that only remove from the front).  The virtual
    path returned with the handler is exactly what was left of `iternames` when the chosen trail entry was
    appended, minus the hidden `index` token — and that is a suffix of the request's segments. -/
theorem C02F_vpath_is_rest {sem : DispSem} (hwf : WF sem) {tr : Name → Name} {app : App} {path : List Char}
    {r : FindResultF} {f : Found} (h : findHandlerF sem tr app path = .ok r) (hf : r.found = some f) :
    ∃ e rest, r.walked[f.idx]? = some e ∧ r.rests[f.idx]? = some rest ∧
      CandAt app.g e f.handler f.viaDefault ∧
      r.vpath = rest.dropLast ∧ ∃ k, r.vpath = (segments path).drop k := by
  obtain ⟨st, hrun, hw, hr, _, _, hv, _⟩ := findHandlerF_ok h
  obtain ⟨e, he, hseg, hc⟩ := ((C02F_most_specific h).1 f hf).1
  unfold runF at hrun
  obtain ⟨hi, _⟩ := inv_walk _ _ _ (inv_init sem tr app (fullpathOf (segments path))) hrun
  have hlt : f.idx < r.rests.length := by
    have := (List.getElem?_eq_some_iff.mp he).1
    rw [hr, ← hi.len, ← hw]; exact this
  let rest := r.rests[f.idx]
  have hrest : r.rests[f.idx]? = some rest := List.getElem?_eq_getElem hlt
  have hlen : e.segleft = rest.length := by
    have h1 : (r.walked.map (·.segleft))[f.idx]? = some e.segleft := by simp [he]
    have h2 : (r.rests.map (·.length))[f.idx]? = some rest.length := by simp [hrest]
    rw [hw] at h1
    rw [hr] at h2
    rw [hi.seg] at h1
    rw [h1] at h2; injection h2
  obtain ⟨k, hk⟩ := hi.suffix hwf rest (by rw [← hr]; exact List.mem_of_getElem? hrest)
  have hvp : r.vpath = rest.dropLast := by
    rw [(hv f hf).1, vpathOf, hseg, hlen]
    conv => rhs; rw [hk, drop_eq_drop_length_sub, ← hk]
  refine ⟨e, rest, he, hrest, hc, hvp, ?_⟩
  rw [hvp, hk, fullpathOf, drop_append_singleton_dropLast]
  exact ⟨k, rfl⟩

/-- The same at the level of `Dispatcher.__call__`: the handler that is installed is exposed and truthy, and
    it is called with the final vpath, every atom with `%2F` restored. -/
theorem C02F_args {sem : DispSem} (hwf : WF sem) {tr : Name → Name} {app : App} {path : List Char}
    {hd : NodeId} {args : List (List Char)} (h : dispatchF sem tr app path = .handler hd args) :
    ∃ r f e rest, findHandlerF sem tr app path = .ok r ∧ r.found = some f ∧ f.handler = hd ∧
      app.g.exposed hd = true ∧ (app.g.nodeD hd).truthy = true ∧
      r.walked[f.idx]? = some e ∧ r.rests[f.idx]? = some rest ∧ CandAt app.g e hd f.viaDefault ∧
      args = rest.dropLast.map restore2F ∧ ∃ k, rest.dropLast = (segments path).drop k := by
  unfold dispatchF dispatchOfFind at h
  cases hr : findHandlerF sem tr app path with
  | error e => rw [hr] at h; simp [Except.map] at h
  | ok r =>
    rw [hr] at h
    simp only [Except.map, FindResultF.toFindResult] at h
    cases hf : r.found with
    | none => rw [hf] at h; cases h
    | some f =>
      rw [hf] at h
      simp only at h
      split at h
      · rename_i ht
        injection h with h1 h2
        subst h1
        obtain ⟨e, rest, he, hrest, hc, hvp, k, hk⟩ := C02F_vpath_is_rest hwf hr hf
        exact ⟨r, f, e, rest, rfl, hf, rfl, C02F_exposed_only hr hf, ht, he, hrest, hc,
          by rw [← h2, hvp], k, by rw [← hvp, hk]⟩
      · cases h

/-! ### the full statement fails for dispatchers that rewrite the list -/

/-- "The virtual path is what was left of `iternames`" for **every** dispatcher function. -/
def C02F_vpath_is_rest_full : Prop :=
  ∀ (sem : DispSem) (tr : Name → Name) (app : App) (path : List Char) (r : FindResultF) (f : Found),
    findHandlerF sem tr app path = .ok r → r.found = some f →
    ∃ rest, r.rests[f.idx]? = some rest ∧ r.vpath = rest.dropLast

/-- Witness: root (0) has a `_cp_dispatch` (1) that answers `['X', 'y']` by rewriting the list to `['z']` and
    returning object 2, whose `default` (3) is exposed. -/
def rewriteGraph : Graph :=
  { nodes := [ { attrs := [(dispatchName, 1)] },
               { callable := true },
               { attrs := [(defaultName, 3)] },
               { callable := true, exposed := true } ] }

def rewriteSem : DispSem := fun _ vp =>
  if vp = ["X".toList, "y".toList] then .ok ⟨some 2, ["z".toList], []⟩ else .error .dispatchRaised

/-- `find_handler` slices `fullpath` by *count*: after a rewriting dispatcher the handler is called with the
    request's own last segments (`y`), not with what the dispatcher left (`z`). -/
def rewriteCheck : Bool :=
  match findHandlerF rewriteSem id { g := rewriteGraph } "/X/y".toList with
  | .ok r => decide (r.found = some ⟨3, true, 1, 2⟩) && decide (r.vpath = ["y".toList]) &&
      decide (r.rests[1]? = some ["z".toList, "index".toList])
  | .error _ => false

theorem C02F_vpath_is_rest_not_full : ¬ C02F_vpath_is_rest_full := by
  intro h
  have hfacts : rewriteCheck = true := by decide
  unfold rewriteCheck at hfacts
  cases hr : findHandlerF rewriteSem id { g := rewriteGraph } "/X/y".toList with
  | error e => rw [hr] at hfacts; cases hfacts
  | ok r =>
    rw [hr] at hfacts
    simp only [Bool.and_eq_true, decide_eq_true_eq] at hfacts
    obtain ⟨⟨hf, hv⟩, hrest⟩ := hfacts
    obtain ⟨rest, h1, h2⟩ := h _ _ _ _ r _ hr hf
    dsimp only at h1
    rw [hrest] at h1
    injection h1 with h1
    subst h1
    rw [hv] at h2
    revert h2
    decide

example : ¬ WF rewriteSem := by
  intro h
  obtain ⟨k, hk⟩ := h 0 ["X".toList, "y".toList] ⟨some 2, ["z".toList], []⟩ (by simp [rewriteSem])
  match k with
  | 0 => revert hk; decide
  | 1 => revert hk; decide
  | k + 2 => simp at hk

/-! ### the descriptor interpreter is well-formed; `popargs` -/

theorem runDisp_suffix {g : Graph} {d : Disp} {vp vp' : List Name} {t : Option NodeId}
    {ps : List (Name × Name)} (hadd : d.add = []) (h : runDisp g d vp = some (t, vp', ps)) :
    ∃ k, vp' = vp.drop k := by
  unfold runDisp at h
  split at h
  · cases h
  · rw [hadd] at h
    simp only [List.nil_append] at h
    split at h
    · injection h with h; injection h with h1 h2; injection h2 with h2 h3
      exact ⟨d.pop, h2.symm⟩
    · injection h with h; injection h with h1 h2; injection h2 with h2 h3
      exact ⟨d.pop, h2.symm⟩
    · split at h
      · rename_i hnil
        injection h with h; injection h with h1 h2; injection h2 with h2 h3
        exact ⟨d.pop, by rw [← h2, hnil]⟩
      · rename_i x r hcons
        injection h with h; injection h with h1 h2; injection h2 with h2 h3
        exact ⟨d.pop + 1, by rw [← h2, ← List.drop_drop, hcons]; rfl⟩
    · split at h
      · rename_i hnil
        injection h with h; injection h with h1 h2; injection h2 with h2 h3
        exact ⟨d.pop, by rw [← h2, hnil]⟩
      · injection h with h; injection h with h1 h2; injection h2 with h2 h3
        exact ⟨d.pop, h2.symm⟩

/-- Dispatcher descriptors that insert nothing (every `popargs` form, `pop k` / return anything) only remove
    from the front. -/
theorem semOf_wf {g : Graph} (hadd : ∀ i dd, (g.nodeD i).disp = some dd → dd.add = []) : WF (semOf g) := by
  intro d vp o h
  unfold semOf at h
  split at h
  · cases h
  · rename_i dd hdd
    split at h
    · cases h
    · rename_i t vp' ps hr
      injection h with h; subst h
      exact runDisp_suffix (hadd d dd hdd) hr

theorem popargsDisp_add (names : List Name) (h : Option (Bool × Option NodeId)) (self : Option NodeId) :
    (popargsDisp names h self).add = [] := by
  unfold popargsDisp; cases h <;> rfl

theorem zip_fst_snd {α β : Type} : ∀ (l₁ : List α) (l₂ : List β),
    (l₁.zip l₂).map Prod.fst = l₁.take (min l₁.length l₂.length) ∧
    (l₁.zip l₂).map Prod.snd = l₂.take (min l₁.length l₂.length) := by
  intro l₁
  induction l₁ with
  | nil => intro l₂; simp
  | cons a as ih =>
    intro l₂
    cases l₂ with
    | nil => simp
    | cons b bs =>
      obtain ⟨h1, h2⟩ := ih bs
      simp only [List.zip_cons_cons, List.map_cons, List.length_cons, Nat.succ_min_succ, List.take_succ_cons]
      exact ⟨by rw [h1], by rw [h2]⟩

/-- **`popargs` binds exactly the popped segments, in order.**  For `popargs(*names, handler=h)` called with
    `vpath`: with `n = min(len(names), len(vpath))` the bindings are `names[:n]` ↦ `vpath[:n]` pairwise in order;
    they go to `request.params` (all of them and nothing else) unless a callable handler receives them; the
    list is left as `vpath[n:]`, minus one more segment when there is no handler (resolved by `getattr` on
    `self`). -/
theorem C02_popargs_binds_popped (g : Graph) (names : List Name) (h : Option (Bool × Option NodeId))
    (self : Option NodeId) (vp : List Name) {t : Option NodeId} {vp' : List Name} {ps : List (Name × Name)}
    (hr : runDisp g (popargsDisp names h self) vp = some (t, vp', ps)) :
    let n := min names.length vp.length
    let bound := names.zip vp
    bound.map Prod.fst = names.take n ∧ bound.map Prod.snd = vp.take n ∧
    (ps = bound ∨ (ps = [] ∧ ∃ tgt, h = some (true, tgt))) ∧
    (vp' = vp.drop n ∨ (h = none ∧ ∃ x, vp.drop n = x :: vp' ∧ t = g.getattr self x)) := by
  intro n bound
  have hdrop : vp.drop names.length = vp.drop n := by
    by_cases hle : names.length ≤ vp.length
    · have : n = names.length := Nat.min_eq_left hle
      rw [this]
    · have : n = vp.length := Nat.min_eq_right (by omega)
      rw [this, List.drop_eq_nil_of_le (by omega), List.drop_length]
  refine ⟨(zip_fst_snd names vp).1, (zip_fst_snd names vp).2, ?_⟩
  cases h with
  | none =>
    simp only [popargsDisp, runDisp] at hr
    simp only [Bool.false_eq_true, if_false, if_true, List.nil_append] at hr
    rw [hdrop] at hr
    split at hr
    · rename_i hnil
      injection hr with hr; injection hr with h1 h2; injection h2 with h2 h3
      exact ⟨.inl h3.symm, .inl (by rw [← h2, hnil])⟩
    · rename_i x r hcons
      injection hr with hr; injection hr with h1 h2; injection h2 with h2 h3
      subst h2
      exact ⟨.inl h3.symm, .inr ⟨rfl, x, hcons, h1.symm⟩⟩
  | some hc =>
    obtain ⟨c, tgt⟩ := hc
    simp only [popargsDisp, runDisp] at hr
    simp only [Bool.false_eq_true, if_false, List.nil_append] at hr
    rw [hdrop] at hr
    injection hr with hr; injection hr with h1 h2; injection h2 with h2 h3
    refine ⟨?_, .inl h2.symm⟩
    cases c with
    | true =>
      simp at h3
      first | exact .inr ⟨h3, tgt, rfl⟩ | exact .inr ⟨h3.symm, tgt, rfl⟩
    | false =>
      simp at h3
      first | exact .inl h3 | exact .inl h3.symm

/-- **The compared model inherits the theorem.**  For a graph whose dispatcher descriptors insert nothing (all
    `popargs` forms, `pop k`), `Dispatcher.__call__` of `CpModel.Dispatch` calls an exposed, truthy handler with
    exactly the names the dispatchers and attribute steps left over, `%2F` restored. -/
theorem C02_args_final_vpath {tr : Name → Name} {app : App} {path : List Char} {hd : NodeId}
    {args : List (List Char)} (hadd : ∀ i dd, (app.g.nodeD i).disp = some dd → dd.add = [])
    (h : dispatchWith tr app path = .handler hd args) :
    ∃ r f e rest, findHandlerF (semOf app.g) tr app path = .ok r ∧ r.found = some f ∧ f.handler = hd ∧
      app.g.exposed hd = true ∧ (app.g.nodeD hd).truthy = true ∧
      r.walked[f.idx]? = some e ∧ r.rests[f.idx]? = some rest ∧ CandAt app.g e hd f.viaDefault ∧
      args = rest.dropLast.map restore2F ∧ ∃ k, rest.dropLast = (segments path).drop k := by
  rw [dispatch_refines] at h
  exact C02F_args (semOf_wf hadd) h

section Examples

/-- `/<year>/<month>/…`: the root's `_cp_dispatch` (1) is `popargs('year', 'month', handler=<object 2>)`;
    object 2 has an exposed `default` (3) and an exposed `index` (4). -/
def blogGraph : Graph :=
  { nodes := [ { attrs := [(dispatchName, 1)] },
               { callable := true,
                 disp := some (popargsDisp ["year".toList, "month".toList] (some (false, some 2)) (some 0)) },
               { attrs := [(defaultName, 3), (indexName, 4)] },
               { callable := true, exposed := true },
               { callable := true, exposed := true } ] }

def blogApp : App := { g := blogGraph }

example : ∀ i dd, (blogGraph.nodeD i).disp = some dd → dd.add = [] := by
  intro i dd h
  match i with
  | 0 => cases h
  | 1 => simp [blogGraph, Graph.nodeD] at h; subst h; rfl
  | 2 => cases h
  | 3 => cases h
  | 4 => cases h
  | n + 5 => simp [blogGraph, Graph.nodeD] at h

example : WF (semOf blogGraph) := by
  apply semOf_wf
  intro i dd h
  match i with
  | 0 => cases h
  | 1 => simp [blogGraph, Graph.nodeD] at h; subst h; rfl
  | 2 => cases h
  | 3 => cases h
  | 4 => cases h
  | n + 5 => simp [blogGraph, Graph.nodeD] at h

-- two segments consumed by one dispatcher call, the rest goes to `default`, `%2F` restored
example : dispatch blogApp "/2009/12/x%2Fy/z".toList = .handler 3 ["x/y".toList, "z".toList] := by decide
example : dispatch blogApp "/2009/12/".toList = .handler 4 [] := by decide
example : dispatch blogApp "/2009/12".toList = .handler 4 [] := by decide
example : paramsOf translate blogApp (segments "/2009/12/x".toList) =
    [("year".toList, "2009".toList), ("month".toList, "12".toList)] := by decide
-- fewer segments than names: only what is there is bound
example : paramsOf translate blogApp (segments "/2009".toList) = [("year".toList, "2009".toList)] := by decide
example : dispatchF (semOf blogGraph) translate blogApp "/2009/12/x".toList = .handler 3 ["x".toList] := by
  decide

end Examples

/-! ### dispatcher wrappers: the default dispatcher on a rewritten path -/

/-- `VirtualHost(next_dispatcher=Dispatcher(), **domains)` -/
def vhostDispatch (domains : List (List Char × List Char)) (domain : List Char) (tr : Name → Name) (app : App)
    (pathInfo : List Char) : Outcome :=
  dispatchWith tr app (vhostPath domains domain pathInfo)

/-- `XMLRPCDispatcher(next_dispatcher=Dispatcher())` -/
def xmlrpcDispatch (tr : Name → Name) (app : App) (pathInfo : List Char) : Outcome :=
  dispatchWith tr app (patchedPath pathInfo)

/-- Behind `VirtualHost` only exposed handlers are reachable, whatever the `Host` header and the prefix table,
    and the arguments are a restored suffix of the *rewritten* path's segments. -/
theorem C02_vhost_exposed_only {domains : List (List Char × List Char)} {domain : List Char}
    {tr : Name → Name} {app : App} {pathInfo : List Char} {hd : NodeId} {args : List (List Char)}
    (h : vhostDispatch domains domain tr app pathInfo = .handler hd args) :
    app.g.exposed hd = true ∧
    ∃ k, args = ((segments (vhostPath domains domain pathInfo)).drop k).map restore2F := by
  obtain ⟨r, f, hr, hf, hh, ha, he, _⟩ := C02_args_restored h
  obtain ⟨k, hk⟩ := C02_vpath_suffix hr
  exact ⟨he, k, by rw [ha, hk]⟩

theorem C02_xmlrpc_exposed_only {tr : Name → Name} {app : App} {pathInfo : List Char} {hd : NodeId}
    {args : List (List Char)} (h : xmlrpcDispatch tr app pathInfo = .handler hd args) :
    app.g.exposed hd = true ∧ ∃ k, args = ((segments (patchedPath pathInfo)).drop k).map restore2F := by
  obtain ⟨r, f, hr, hf, hh, ha, he, _⟩ := C02_args_restored h
  obtain ⟨k, hk⟩ := C02_vpath_suffix hr
  exact ⟨he, k, by rw [ha, hk]⟩

/-! ### the live `popargs`, probed on every run -/

def probeGraph : Graph :=
  { nodes := [ { attrs := [("kid".toList, 2)] }, {}, {}, {} ] }

def decName (n : List Nat) : Name := n.map Char.ofNat

/-- What the model says one call of `popargs(*names, handler kind)` bound to object 0 does:
    (list after, `request.params`, kwargs of a handler function, which object comes back). -/
def probeModel (names : List Name) (kind : Nat) (before : List Name) :
    Option (List Name × List (Name × Name) × List (Name × Name) × Nat) :=
  let h : Option (Bool × Option NodeId) :=
    match kind with
    | 0 => none
    | 1 => some (false, some 1)
    | _ => some (true, some 1)
  match runDisp probeGraph (popargsDisp names h (some 0)) before with
  | none => none
  | some (t, vp', ps) =>
    some (vp', ps, if kind = 2 then names.zip before else [],
          match t with
          | some 0 => 0
          | some 1 => 1
          | some 2 => 2
          | _ => 3)

def probeOk : Bool :=
  CpModel.Gen.C02.popargsRejectsUnknownKeyword &&
  CpModel.Gen.C02.popargsProbe.all fun row =>
    row.2.2.all fun c =>
      probeModel (row.1.map decName) row.2.1 (c.1.map decName) ==
        some (c.2.1.map decName, c.2.2.1.map (fun kv => (decName kv.1, decName kv.2)),
              c.2.2.2.1.map (fun kv => (decName kv.1, decName kv.2)), c.2.2.2.2)

/-- **The live `cherrypy.popargs` is the model's `popargsDisp`, call after call.**  The table is regenerated on
    every run by calling each decorated object several times in a row (a longer list first): every call — list
    after, `request.params`, handler kwargs, returned object — is what the model computes from *that call's*
    list alone, so nothing bound by one call survives into the next.  (Also: a keyword other than `handler=` is
    rejected.) -/
theorem C02_popargs_probe : probeOk = true := by decide +kernel

example : CpModel.Gen.C02.popargsProbe.length = 12 ∧
    CpModel.Gen.C02.popargsProbe.all (fun row => row.2.2.length == 7) = true := by decide

end CpProofs.C02Fn
