import CpProofs.C03Split
/-!
  C03, form body: every styled percent/plus encoding of every byte string is undone by the bytes
  `unquote_plus`; a body built from segments is split back into exactly its pairs; the charset loop
  of `process_urlencoded` is all-or-nothing.
-/
namespace CpProofs.C03
open CpModel.UrlEnc

/-! ### encoding styles for one byte of a form body -/

/-- How a client may write one byte: literally, as `+` (a space only), or as `%XY` with either
    case for each hex digit. -/
inductive BStyle where
  | lit
  | plus
  | pct (u1 u2 : Bool)

def encByte : UInt8 × BStyle → Bytes
  | (b, .lit) => [b]
  | (_, .plus) => [0x2B]
  | (b, .pct u1 u2) => [0x25, hexDigitB u1 (b.toNat / 16), hexDigitB u2 (b.toNat % 16)]

/-- A style is admissible when the five reserved bytes `% + & ; =` are not written literally and
    `+` stands for a space.  Everything else (controls, NUL, bytes ≥ 0x80 …) may be literal. -/
def BStyleOk : UInt8 × BStyle → Prop
  | (b, .lit) => b ≠ 0x25 ∧ b ≠ 0x2B ∧ b ≠ 0x26 ∧ b ≠ 0x3B ∧ b ≠ 0x3D
  | (b, .plus) => b = 0x20
  | (_, .pct _ _) => True

def encBytes (l : List (UInt8 × BStyle)) : Bytes := l.flatMap encByte

def plainBytes (l : List (UInt8 × BStyle)) : Bytes := l.map (·.1)

theorem encBytes_cons (x : UInt8 × BStyle) (l : List (UInt8 × BStyle)) :
    encBytes (x :: l) = encByte x ++ encBytes l := by
  simp [encBytes]

/-- **Byte-level round trip**: for every byte string and every admissible style, the bytes
    `unquote_plus` returns exactly the bytes that were encoded. -/
theorem body_unquote_styled (l : List (UInt8 × BStyle)) (h : ∀ x ∈ l, BStyleOk x) :
    unquotePlusBytes (encBytes l) = plainBytes l := by
  rw [unquotePlusBytes_eq]
  induction l with
  | nil => simp [encBytes, plainBytes, pctJoin_nil]
  | cons x l ih =>
    obtain ⟨b, st⟩ := x
    have hx := h (b, st) (by simp)
    have hl : ∀ y ∈ l, BStyleOk y := fun y hy => h y (by simp [hy])
    have ih := ih hl
    rw [encBytes_cons, List.map_append]
    cases st with
    | lit =>
      simp only [BStyleOk] at hx
      simp only [encByte, List.map_cons, List.map_nil, if_neg hx.2.1, List.cons_append, List.nil_append]
      rw [pctJoin_cons_ne _ _ _ hx.1, ih]
      simp [plainBytes]
    | plus =>
      simp only [BStyleOk] at hx
      subst hx
      simp only [encByte, List.map_cons, List.map_nil, if_true, List.cons_append, List.nil_append]
      rw [pctJoin_cons_ne _ _ _ (by decide), ih]
      simp [plainBytes]
    | pct u1 u2 =>
      have hn := nibble_lt b
      have s1 := hexDigitB_safe u1 _ hn.1
      have s2 := hexDigitB_safe u2 _ hn.2
      have e0 : ((0x25 : UInt8) = 0x2B) = False := by decide
      simp only [encByte, List.map_cons, List.map_nil, if_neg s1.2.1, if_neg s2.2.1, e0, if_false,
        List.cons_append, List.nil_append]
      rw [pctJoin_escape _ _ _ b _ s1.1 s2.1 (fixAtom_hex b u1 u2), ih]
      simp [plainBytes]

theorem encByte_safe (x : UInt8 × BStyle) (hx : BStyleOk x) :
    (0x26 : UInt8) ∉ encByte x ∧ (0x3B : UInt8) ∉ encByte x ∧ (0x3D : UInt8) ∉ encByte x := by
  obtain ⟨b, st⟩ := x
  cases st with
  | lit =>
    simp only [BStyleOk] at hx
    simp only [encByte, List.mem_singleton]
    exact ⟨fun e => hx.2.2.1 e.symm, fun e => hx.2.2.2.1 e.symm, fun e => hx.2.2.2.2 e.symm⟩
  | plus => simp [encByte]
  | pct u1 u2 =>
    have hn := nibble_lt b
    have s1 := hexDigitB_safe u1 _ hn.1
    have s2 := hexDigitB_safe u2 _ hn.2
    simp only [encByte, List.mem_cons, List.not_mem_nil, or_false, not_or]
    exact ⟨⟨by decide, fun e => s1.2.2.1 e.symm, fun e => s2.2.2.1 e.symm⟩,
           ⟨by decide, fun e => s1.2.2.2.1 e.symm, fun e => s2.2.2.2.1 e.symm⟩,
           ⟨by decide, fun e => s1.2.2.2.2.1 e.symm, fun e => s2.2.2.2.2.1 e.symm⟩⟩

theorem encBytes_safe (l : List (UInt8 × BStyle)) (h : ∀ x ∈ l, BStyleOk x) :
    (0x26 : UInt8) ∉ encBytes l ∧ (0x3B : UInt8) ∉ encBytes l ∧ (0x3D : UInt8) ∉ encBytes l := by
  induction l with
  | nil => simp [encBytes]
  | cons x l ih =>
    have hx := encByte_safe x (h x (by simp))
    have hl := ih (fun y hy => h y (by simp [hy]))
    rw [encBytes_cons]
    simp only [List.mem_append, not_or]
    exact ⟨⟨hx.1, hl.1⟩, ⟨hx.2.1, hl.2.1⟩, ⟨hx.2.2, hl.2.2⟩⟩

theorem encByte_ne_nil (x : UInt8 × BStyle) : encByte x ≠ [] := by
  obtain ⟨b, st⟩ := x
  cases st <;> simp [encByte]

theorem encBytes_ne_nil (l : List (UInt8 × BStyle)) (h : l ≠ []) : encBytes l ≠ [] := by
  match l, h with
  | x :: l, _ =>
    rw [encBytes_cons]
    intro e
    exact encByte_ne_nil x (List.append_eq_nil_iff.1 e).1

/-! ### a body made of segments -/

/-- One piece between separators: nothing at all (`a=1&&b=2`), or a key with a value; a blank value
    may be written without the `=`. -/
inductive BSeg where
  | empty
  | pair (ks vs : List (UInt8 × BStyle)) (withEq : Bool)

def BSeg.enc : BSeg → Bytes
  | .empty => []
  | .pair ks vs true => encBytes ks ++ 0x3D :: encBytes vs
  | .pair ks _ false => encBytes ks

def BSeg.Ok : BSeg → Prop
  | .empty => True
  | .pair ks vs withEq =>
    (∀ x ∈ ks, BStyleOk x) ∧ (∀ x ∈ vs, BStyleOk x) ∧ (withEq = false → vs = [] ∧ ks ≠ [])

/-- The (key, value) byte strings the segment carries. -/
def BSeg.plain : BSeg → Option (Bytes × Bytes)
  | .empty => none
  | .pair ks vs _ => some (plainBytes ks, plainBytes vs)

def BSeg.wirePair : BSeg → Option (Bytes × Bytes)
  | .empty => none
  | .pair ks vs _ => some (encBytes ks, encBytes vs)

/-- The body on the wire: segments joined by `&` (flag true) or `;` (flag false). -/
def bodyWire (first : BSeg) (rest : List (Bool × BSeg)) : Bytes :=
  joinSegs 0x26 0x3B first.enc (rest.map fun p => (p.1, p.2.enc))

theorem BSeg.enc_safe (s : BSeg) (h : s.Ok) : (0x26 : UInt8) ∉ s.enc ∧ (0x3B : UInt8) ∉ s.enc := by
  cases s with
  | empty => simp [BSeg.enc]
  | pair ks vs withEq =>
    have hk := encBytes_safe ks h.1
    have hv := encBytes_safe vs h.2.1
    cases withEq with
    | true =>
      simp only [BSeg.enc, List.mem_append, List.mem_cons, not_or]
      exact ⟨⟨hk.1, by decide, hv.1⟩, ⟨hk.2.1, by decide, hv.2.1⟩⟩
    | false => exact ⟨hk.1, hk.2.1⟩

theorem rawPairs_eq (qs : Bytes) :
    rawPairs qs = (pieces 0x26 0x3B qs).filterMap fun pair =>
      if pair.isEmpty then none
      else match partition1 0x3D pair with
        | (k, v?) => some (k, v?.getD []) := rfl

theorem BSeg.rawPair_enc (s : BSeg) (h : s.Ok) :
    (if s.enc.isEmpty then none
     else match partition1 0x3D s.enc with
       | (k, v?) => some (k, v?.getD [])) = s.wirePair := by
  cases s with
  | empty => simp [BSeg.enc, BSeg.wirePair]
  | pair ks vs withEq =>
    have hk := encBytes_safe ks h.1
    cases withEq with
    | true =>
      have hne : (encBytes ks ++ 0x3D :: encBytes vs).isEmpty = false := by
        cases encBytes ks <;> simp
      simp only [BSeg.enc, hne, partition1_append_sep 0x3D _ _ hk.2.2, BSeg.wirePair]
      simp
    | false =>
      have hv := h.2.2 rfl
      have hne : (encBytes ks).isEmpty = false := by
        have := encBytes_ne_nil ks hv.2
        cases hks : encBytes ks with
        | nil => exact absurd hks this
        | cons _ _ => rfl
      simp only [BSeg.enc, hne, partition1_of_not_mem 0x3D _ hk.2.2, BSeg.wirePair, hv.1]
      simp [encBytes]

theorem filterMap_congr' {α β : Type} {f g : α → Option β} {l : List α} (h : ∀ x ∈ l, f x = g x) :
    l.filterMap f = l.filterMap g := by
  induction l with
  | nil => rfl
  | cons x l ih =>
    have hx := h x (by simp)
    have hl := ih (fun y hy => h y (by simp [hy]))
    simp only [List.filterMap_cons, hx, hl]

/-- `process_urlencoded` splits a segmented body back into exactly its non-empty segments, with the
    key and value of each still in their encoded form. -/
theorem rawPairs_bodyWire (first : BSeg) (rest : List (Bool × BSeg))
    (hok : ∀ s ∈ first :: rest.map (·.2), s.Ok) :
    rawPairs (bodyWire first rest) = (first :: rest.map (·.2)).filterMap BSeg.wirePair := by
  have h0 := BSeg.enc_safe first (hok first (by simp))
  have hr : ∀ p ∈ rest.map (fun p => (p.1, p.2.enc)), (0x26 : UInt8) ∉ p.2 ∧ (0x3B : UInt8) ∉ p.2 := by
    intro p hp
    simp only [List.mem_map] at hp
    obtain ⟨q, hq, rfl⟩ := hp
    exact BSeg.enc_safe q.2 (hok q.2 (List.mem_cons_of_mem _ (List.mem_map.2 ⟨q, hq, rfl⟩)))
  rw [rawPairs_eq, bodyWire, pieces_joinSegs _ _ _ _ h0 hr]
  simp only [List.map_map]
  have : (first.enc :: List.map ((fun x => x.snd) ∘ fun p => (p.fst, p.snd.enc)) rest)
      = (first :: rest.map (·.2)).map BSeg.enc := by simp
  rw [this, List.filterMap_map]
  apply filterMap_congr'
  intro s hs
  exact BSeg.rawPair_enc s (hok s hs)

/-! ### one charset attempt, and the attempt loop -/

/-- Decode every key and value with one charset, or fail as a whole. -/
def decodeAll (dec : Bytes → Option Text) : List (Bytes × Bytes) → Option (List (Text × Text))
  | [] => some []
  | (k, v) :: rest =>
    match dec (unquotePlusBytes k), dec (unquotePlusBytes v), decodeAll dec rest with
    | some key, some value, some more => some ((key, value) :: more)
    | _, _, _ => none

theorem decodePairs_eq (dec : Bytes → Option Text) (l : List (Bytes × Bytes)) (d : Params) :
    decodePairs dec l d = (decodeAll dec l).map (addAll d) := by
  induction l generalizing d with
  | nil => simp [decodePairs, decodeAll, addAll]
  | cons kv rest ih =>
    obtain ⟨k, v⟩ := kv
    simp only [decodePairs, decodeAll]
    cases hk : dec (unquotePlusBytes k) with
    | none => simp
    | some key =>
      cases hv : dec (unquotePlusBytes v) with
      | none => simp
      | some value =>
        simp only [ih]
        cases decodeAll dec rest with
        | none => simp
        | some more => simp [addAll]

theorem decodeAll_eq_none (dec : Bytes → Option Text) (l : List (Bytes × Bytes)) :
    decodeAll dec l = none ↔
      ∃ kv ∈ l, dec (unquotePlusBytes kv.1) = none ∨ dec (unquotePlusBytes kv.2) = none := by
  induction l with
  | nil => simp [decodeAll]
  | cons kv rest ih =>
    obtain ⟨k, v⟩ := kv
    simp only [decodeAll, List.mem_cons, exists_eq_or_imp]
    cases hk : dec (unquotePlusBytes k) with
    | none => simp
    | some key =>
      cases hv : dec (unquotePlusBytes v) with
      | none => simp
      | some value =>
        cases hr : decodeAll dec rest with
        | none => simpa [hr] using ih
        | some more =>
          rw [hr] at ih
          simp only [reduceCtorEq, false_or, false_iff]
          simpa using ih

/-- Every key and value of `l`, in order, decodes under `dec` to the corresponding pair of `ps`. -/
def Decoded (dec : Bytes → Option Text) : List (Bytes × Bytes) → List (Text × Text) → Prop
  | [], [] => True
  | kv :: l, p :: ps =>
    dec (unquotePlusBytes kv.1) = some p.1 ∧ dec (unquotePlusBytes kv.2) = some p.2 ∧ Decoded dec l ps
  | _, _ => False

/-- A successful attempt decoded *every* key and value with that one charset, in order. -/
theorem decodeAll_eq_some (dec : Bytes → Option Text) (l : List (Bytes × Bytes)) (ps : List (Text × Text))
    (h : decodeAll dec l = some ps) : Decoded dec l ps := by
  induction l generalizing ps with
  | nil => simp [decodeAll] at h; subst h; trivial
  | cons kv rest ih =>
    obtain ⟨k, v⟩ := kv
    simp only [decodeAll] at h
    cases hk : dec (unquotePlusBytes k) with
    | none => simp [hk] at h
    | some key =>
      cases hv : dec (unquotePlusBytes v) with
      | none => simp [hk, hv] at h
      | some value =>
        cases hr : decodeAll dec rest with
        | none => simp [hk, hv, hr] at h
        | some more =>
          simp [hk, hv, hr] at h
          subst h
          exact ⟨hk, hv, ih more hr⟩

/-- `process_urlencoded` = the first charset that decodes everything, applied to everything. -/
theorem processUrlencoded_eq (decs : List (Bytes → Option Text)) (body : Bytes) :
    processUrlencoded decs body =
      (decs.findSome? fun dec => decodeAll dec (rawPairs body)).map (addAll []) := by
  induction decs with
  | nil => simp [processUrlencoded]
  | cons dec more ih =>
    simp only [processUrlencoded, decodePairs_eq, List.findSome?_cons]
    cases decodeAll dec (rawPairs body) with
    | none => simpa using ih
    | some ps => simp

end CpProofs.C03
