import CpModel.Ranges
import CpModel.Validators
import CpProofs.C16Lemmas
/-!
  C16 — conditional and range requests obey their validators and byte ranges.

  Range part (model `CpModel.Ranges`, the code as repaired by the `fix:` commits F17, F17b, F17c):
    * `ranges_in_bounds`        every slice returned for EVERY header text and length satisfies
                                 `start < stop ≤ len` (non-empty, inside the entity);
    * `getRanges_grammar`       on every header produced by the byte-range grammar (any unit case,
                                 any number of specs, any digit strings incl. leading zeros and
                                 beyond-EOF values, any Python whitespace around every token)
                                 `get_ranges` equals the declarative RFC 7233 semantics `specRanges`;
    * `honoured_only_grammar`   conversely a header that is honoured (result ≠ None) IS in that
                                 grammar: every other text is ignored (`invalid_ignored`);
    * `serve_*`                 `_serve_fileobj`: 416 + `bytes */len`, single 206 with the exact
                                 slice / Content-Range / Content-Length, multipart parts = slices,
                                 HTTP/1.0 and unknown length => whole entity; `ranges_conform`
                                 combines them into the statement over grammar headers.
  Conditional part (model `CpModel.Validators`): `validateSince_table`, `validateEtags_table`,
  `respond_file_table` (the flat decision table), `respond_304_no_body`, `respond_304_getHead`,
  `respond_unconditional`, plus the obligations over the generated tables.
-/
namespace CpProofs.C16
open CpModel.Ranges CpModel.Validators CpModel.Gen.C16

/-! ## A. the byte-range grammar and its declarative semantics -/

/-- RFC 7233 `byte-range-spec` / `suffix-byte-range-spec`; positions are digit strings -/
inductive Spec
  | fromTo (first last : Text)
  | from_ (first : Text)
  | suffix (n : Text)

inductive Sem
  | invalid                      -- last-byte-pos < first-byte-pos
  | unsat                        -- no byte of the entity is selected
  | sat (first last : Nat)       -- bytes first..last inclusive
  deriving DecidableEq, Repr

/-- RFC 7233 §2.1 against an entity of `len` bytes -/
def Spec.sem (len : Nat) : Spec → Sem
  | .fromTo a b =>
    if decVal b < decVal a then .invalid
    else if len ≤ decVal a then .unsat
    else .sat (decVal a) (min (decVal b) (len - 1))
  | .from_ a => if len ≤ decVal a then .unsat else .sat (decVal a) (len - 1)
  | .suffix n =>
    if decVal n = 0 ∨ len = 0 then .unsat else .sat (len - min (decVal n) len) (len - 1)

def Sem.toItem : Sem → Item
  | .invalid => .bad
  | .unsat => .skip
  | .sat a b => .rng a (b + 1)

/-- all specs valid => the satisfiable ones as slices in request order; one invalid spec => none -/
def collect : List Item → Option (List (Nat × Nat))
  | [] => some []
  | .bad :: _ => none
  | .skip :: r => collect r
  | .rng s e :: r => (collect r).map ((s, e) :: ·)

def specRanges (len : Nat) (specs : List Spec) : Option (List (Nat × Nat)) :=
  collect (specs.map fun s => (s.sem len).toItem)

def Item.slice? : Item → Option (Nat × Nat)
  | .rng s e => some (s, e)
  | _ => none

theorem collect_none_iff (is : List Item) : collect is = none ↔ Item.bad ∈ is := by
  induction is with
  | nil => simp [collect]
  | cons i r ih =>
    cases i with
    | bad => simp [collect]
    | skip => simp [collect, ih]
    | rng s e => simp [collect, ih]

theorem collect_some (is : List Item) (h : Item.bad ∉ is) :
    collect is = some (is.filterMap Item.slice?) := by
  induction is with
  | nil => rfl
  | cons i r ih =>
    have hr : Item.bad ∉ r := fun m => h (List.mem_cons_of_mem _ m)
    cases i with
    | bad => exact absurd (by simp) h
    | skip => simp [collect, ih hr, List.filterMap_cons, Item.slice?]
    | rng s e => simp [collect, ih hr, Item.slice?]

/-- a spec with optional whitespace around both tokens -/
structure PSpec where
  spec : Spec
  w1 : Text
  w2 : Text
  w3 : Text
  w4 : Text

def renderItem (w1 a w2 w3 b w4 : Text) : Text := w1 ++ a ++ w2 ++ '-' :: (w3 ++ b ++ w4)

def PSpec.render (p : PSpec) : Text :=
  match p.spec with
  | .fromTo a b => renderItem p.w1 a p.w2 p.w3 b p.w4
  | .from_ a => renderItem p.w1 a p.w2 p.w3 [] p.w4
  | .suffix n => renderItem p.w1 [] p.w2 p.w3 n p.w4

def Spec.WF : Spec → Prop
  | .fromTo a b => IsNum a ∧ IsNum b
  | .from_ a => IsNum a
  | .suffix n => IsNum n

def PSpec.WF (p : PSpec) : Prop :=
  p.spec.WF ∧ AllSpace p.w1 ∧ AllSpace p.w2 ∧ AllSpace p.w3 ∧ AllSpace p.w4

/-- `ws unit ws "=" spec *( "," spec )` -/
structure Header where
  u1 : Text
  unit : Text
  u2 : Text
  items : List PSpec

def Header.render (h : Header) : Text :=
  h.u1 ++ h.unit ++ h.u2 ++ '=' :: joinSep ',' (h.items.map PSpec.render)

def Header.WF (h : Header) : Prop :=
  AllSpace h.u1 ∧ AllSpace h.u2 ∧ isBytesUnit h.unit = true ∧ h.items ≠ [] ∧ ∀ p ∈ h.items, p.WF

/-! ## B. one spec -/

theorem parseTokens_num_num (len : Nat) (a b : Text) (ha : IsNum a) (hb : IsNum b) :
    parseTokens len a b = (Spec.sem len (.fromTo a b)).toItem := by
  have hae : a.isEmpty = false := by cases a with | nil => exact absurd rfl ha.1 | cons _ _ => rfl
  have hbe : b.isEmpty = false := by cases b with | nil => exact absurd rfl hb.1 | cons _ _ => rfl
  simp only [parseTokens, hae, hbe, rangePos_num a ha, rangePos_num b hb, Spec.sem]
  by_cases h1 : decVal b < decVal a
  · simp [h1, Sem.toItem]
  · by_cases h2 : len ≤ decVal a
    · simp [h1, h2, Sem.toItem]
    · simp [h1, h2, Sem.toItem]

theorem parseTokens_num_nil (len : Nat) (a : Text) (ha : IsNum a) :
    parseTokens len a [] = (Spec.sem len (.from_ a)).toItem := by
  have hae : a.isEmpty = false := by cases a with | nil => exact absurd rfl ha.1 | cons _ _ => rfl
  simp only [parseTokens, hae, rangePos_num a ha, Spec.sem]
  by_cases h2 : len ≤ decVal a
  · simp [h2, Sem.toItem]
  · simp [h2, Sem.toItem]

theorem parseTokens_nil_num (len : Nat) (n : Text) (hn : IsNum n) :
    parseTokens len [] n = (Spec.sem len (.suffix n)).toItem := by
  have hne : n.isEmpty = false := by cases n with | nil => exact absurd rfl hn.1 | cons _ _ => rfl
  simp only [parseTokens, hne, rangePos_num n hn, Spec.sem]
  by_cases h1 : decVal n = 0 ∨ len = 0
  · simp [h1, Sem.toItem]
  · have h1' : ¬ decVal n = 0 ∧ ¬ len = 0 := by omega
    by_cases h2 : decVal n > len
    · have : min (decVal n) len = len := by omega
      simp [h1, h2, Sem.toItem, this]; omega
    · have : min (decVal n) len = decVal n := by omega
      simp [h1, h2, Sem.toItem, this]; omega

theorem mem_padded {w1 a w2 : Text} (h1 : AllSpace w1) (ha : a = [] ∨ IsNum a) (h2 : AllSpace w2) :
    ∀ c ∈ w1 ++ a ++ w2, isSpace c = true ∨ isAsciiDigit c = true := by
  intro c m
  simp only [List.mem_append] at m
  rcases m with (m | m) | m
  · exact Or.inl (h1 c m)
  · rcases ha with rfl | ha
    · cases m
    · exact Or.inr (ha.2 c m)
  · exact Or.inl (h2 c m)

theorem padded_no {w1 a w2 : Text} (h1 : AllSpace w1) (ha : a = [] ∨ IsNum a) (h2 : AllSpace w2) :
    '-' ∉ w1 ++ a ++ w2 ∧ ',' ∉ w1 ++ a ++ w2 := by
  refine ⟨?_, ?_⟩ <;> intro m <;> rcases mem_padded h1 ha h2 _ m with h | h
  · exact (space_ne_of_code h).1 rfl
  · exact (digit_ne h).1 rfl
  · exact (space_ne_of_code h).2.1 rfl
  · exact (digit_ne h).2.1 rfl

theorem noSpace_of {a : Text} (ha : a = [] ∨ IsNum a) : NoSpace a := by
  rcases ha with rfl | ha
  · intro c m; cases m
  · exact ha.noSpace

theorem parseSpec_renderItem (len : Nat) (w1 a w2 w3 b w4 : Text)
    (h1 : AllSpace w1) (h2 : AllSpace w2) (h3 : AllSpace w3) (h4 : AllSpace w4)
    (ha : a = [] ∨ IsNum a) (hb : b = [] ∨ IsNum b) :
    parseSpec len (renderItem w1 a w2 w3 b w4) = parseTokens len a b := by
  simp only [parseSpec, renderItem]
  rw [split1_append '-' (w1 ++ a ++ w2) _ (padded_no h1 ha h2).1]
  simp only [strip_padded w1 a w2 h1 (noSpace_of ha) h2, strip_padded w3 b w4 h3 (noSpace_of hb) h4]

/-- one rendered spec is read as its RFC semantics -/
theorem parseSpec_render (len : Nat) (p : PSpec) (wf : p.WF) :
    parseSpec len p.render = (p.spec.sem len).toItem := by
  obtain ⟨hs, h1, h2, h3, h4⟩ := wf
  cases hsp : p.spec with
  | fromTo a b =>
    rw [hsp] at hs
    simp only [PSpec.render, hsp]
    rw [parseSpec_renderItem len _ _ _ _ _ _ h1 h2 h3 h4 (Or.inr hs.1) (Or.inr hs.2)]
    exact parseTokens_num_num len a b hs.1 hs.2
  | from_ a =>
    rw [hsp] at hs
    simp only [PSpec.render, hsp]
    rw [parseSpec_renderItem len _ _ _ _ _ _ h1 h2 h3 h4 (Or.inr hs) (Or.inl rfl)]
    exact parseTokens_num_nil len a hs
  | suffix n =>
    rw [hsp] at hs
    simp only [PSpec.render, hsp]
    rw [parseSpec_renderItem len _ _ _ _ _ _ h1 h2 h3 h4 (Or.inl rfl) (Or.inr hs)]
    exact parseTokens_nil_num len n hs

theorem render_no_comma (p : PSpec) (wf : p.WF) : ',' ∉ p.render := by
  obtain ⟨hs, h1, h2, h3, h4⟩ := wf
  have key : ∀ a b, (a = [] ∨ IsNum a) → (b = [] ∨ IsNum b) →
      ',' ∉ renderItem p.w1 a p.w2 p.w3 b p.w4 := by
    intro a b ha hb m
    rw [renderItem, List.mem_append, List.mem_cons] at m
    rcases m with m | m | m
    · exact (padded_no h1 ha h2).2 m
    · exact absurd m (by decide)
    · exact (padded_no h3 hb h4).2 m
  cases hsp : p.spec with
  | fromTo a b => rw [hsp] at hs; simp only [PSpec.render, hsp]; exact key a b (Or.inr hs.1) (Or.inr hs.2)
  | from_ a => rw [hsp] at hs; simp only [PSpec.render, hsp]; exact key a [] (Or.inr hs) (Or.inl rfl)
  | suffix n => rw [hsp] at hs; simp only [PSpec.render, hsp]; exact key [] n (Or.inl rfl) (Or.inr hs)

/-! ## C. the loop -/

theorem loop_eq (len : Nat) (bs : List Text) (acc : List (Nat × Nat)) :
    loop len bs acc = (collect (bs.map (parseSpec len))).map (acc ++ ·) := by
  induction bs generalizing acc with
  | nil => simp [loop, collect]
  | cons b r ih =>
    simp only [loop, List.map_cons]
    cases hb : parseSpec len b with
    | bad => simp [collect]
    | skip => simp [collect, ih]
    | rng s e =>
      simp only [collect, ih, Option.map_map]
      congr 1
      funext l
      simp

/-! ## D. get_ranges on grammar headers = RFC semantics -/

theorem getRanges_some (t : Text) (len : Nat) : getRanges (some t) len = getRangesText t len := by
  cases t with
  | nil => simp [getRanges, getRangesText, split1]
  | cons c cs => rfl

theorem isBytesUnit_chars (u : Text) (h : isBytesUnit u = true) :
    ∀ c ∈ u, isSpace c = false ∧ c ≠ '=' := by
  unfold isBytesUnit at h
  split at h
  · simp only [Bool.and_eq_true] at h
    obtain ⟨⟨⟨⟨h0, h1⟩, h2⟩, h3⟩, h4⟩ := h
    intro c m
    simp only [List.mem_cons, List.not_mem_nil, or_false] at m
    rcases m with rfl | rfl | rfl | rfl | rfl
    · exact lowersTo_props h0
    · exact lowersTo_props h1
    · exact lowersTo_props h2
    · exact lowersTo_props h3
    · exact lowersTo_props h4
  · cases h

/-- **C16_ranges_conform, parsing half.**  For every well-formed header of the byte-range grammar
    (arbitrary digit strings, arbitrary Python whitespace around every token, any spelling of the
    unit that lower-cases to `bytes`, any number of specs) and every entity length, `get_ranges`
    returns exactly the declarative RFC 7233 semantics. -/
theorem getRanges_grammar (h : Header) (wf : h.WF) (len : Nat) :
    getRanges (some h.render) len = specRanges len (h.items.map PSpec.spec) := by
  obtain ⟨hu1, hu2, hunit, hne, hitems⟩ := wf
  have huc := isBytesUnit_chars h.unit hunit
  have hnoeq : '=' ∉ h.u1 ++ h.unit ++ h.u2 := by
    intro m
    simp only [List.mem_append] at m
    rcases m with (m | m) | m
    · exact (space_ne_of_code (hu1 _ m)).2.2.1 rfl
    · exact (huc _ m).2 rfl
    · exact (space_ne_of_code (hu2 _ m)).2.2.1 rfl
  rw [getRanges_some]
  simp only [getRangesText, Header.render]
  rw [split1_append '=' _ _ hnoeq]
  simp only [strip_padded h.u1 h.unit h.u2 hu1 (fun c m => (huc c m).1) hu2, hunit]
  rw [splitAll_join ',' _ (by simpa using hne)
    (by
      intro it m
      obtain ⟨p, hp, rfl⟩ := List.mem_map.mp m
      exact render_no_comma p (hitems p hp))]
  rw [loop_eq]
  simp only [specRanges, List.map_map]
  have : (h.items.map (parseSpec len ∘ PSpec.render)) =
      h.items.map ((fun s => (s.sem len).toItem) ∘ PSpec.spec) := by
    apply List.map_congr_left
    intro p hp
    exact parseSpec_render len p (hitems p hp)
  rw [this]
  cases collect (h.items.map ((fun s => (s.sem len).toItem) ∘ PSpec.spec)) <;> simp

/-! ## E. bounds for every header text -/

theorem parseTokens_bounds (len : Nat) (a b : Text) (s e : Nat)
    (h : parseTokens len a b = .rng s e) : s < e ∧ e ≤ len := by
  unfold parseTokens at h
  split at h
  · split at h
    · cases h
    · split at h
      · split at h
        · cases h
        · split at h
          · cases h
          · split at h
            · cases h
            · injection h with h1 h2; omega
      · split at h
        · cases h
        · injection h with h1 h2; omega
  · split at h
    · cases h
    · split at h
      · cases h
      · split at h
        · cases h
        · split at h
          · injection h with h1 h2; omega
          · injection h with h1 h2; omega

theorem parseSpec_bounds (len : Nat) (t : Text) (s e : Nat)
    (h : parseSpec len t = .rng s e) : s < e ∧ e ≤ len := by
  unfold parseSpec at h
  split at h
  · cases h
  · exact parseTokens_bounds len _ _ s e h

theorem collect_mem (is : List Item) (rs : List (Nat × Nat)) (h : collect is = some rs) :
    ∀ p ∈ rs, Item.rng p.1 p.2 ∈ is := by
  induction is generalizing rs with
  | nil => simp [collect] at h; subst h; simp
  | cons i r ih =>
    cases i with
    | bad => simp [collect] at h
    | skip =>
      simp only [collect] at h
      intro p m; exact List.mem_cons_of_mem _ (ih rs h p m)
    | rng s e =>
      simp only [collect] at h
      cases hc : collect r with
      | none => simp [hc] at h
      | some rs' =>
        simp [hc] at h
        subst h
        intro p m
        cases List.mem_cons.mp m with
        | inl e' => subst e'; simp
        | inr m' => exact List.mem_cons_of_mem _ (ih rs' hc p m')

/-- **Every slice is non-empty and inside the entity — for every header string whatsoever.**
    (So every 206 body / part is non-empty, `first ≤ last < len`, and the clamp in
    `_serve_fileobj` never fires.) -/
theorem ranges_in_bounds (hv : Option Text) (len : Nat) (rs : List (Nat × Nat))
    (h : getRanges hv len = some rs) : ∀ p ∈ rs, p.1 < p.2 ∧ p.2 ≤ len := by
  cases hv with
  | none => simp [getRanges] at h
  | some t =>
    rw [getRanges_some] at h
    unfold getRangesText at h
    split at h
    · cases h
    · rename_i _ a br _
      split at h
      · cases h
      · rw [loop_eq] at h
        cases hc : collect ((splitAll ',' br).map (parseSpec len)) with
        | none => rw [hc] at h; cases h
        | some rs' =>
          rw [hc] at h
          simp only [Option.map_some, List.nil_append, Option.some.injEq] at h
          subst h
          intro p m
          have := collect_mem _ _ hc p m
          obtain ⟨t', _, ht'⟩ := List.mem_map.mp this
          exact parseSpec_bounds len t' p.1 p.2 ht'

example : getRanges (some "bytes=2-5, 10-999 ,-3".toList) 14 = some [(2, 6), (10, 14), (11, 14)] := by decide

/-! ## F. `_serve_fileobj` -/

/-- `content[a:b]` -/
def slice (content : Bytes) (a b : Nat) : Bytes := (content.drop a).take (b - a)

theorem slice_length (content : Bytes) (a b : Nat) (h : b ≤ content.length) :
    (slice content a b).length = b - a := by
  simp [slice, List.length_take, List.length_drop]; omega

/-- HTTP/1.0 requests always get the whole entity -/
theorem http10_whole (known : Bool) (range : Option Text) (content : Bytes) :
    serveFileobj false known range content = .whole false content.length content := by
  simp [serveFileobj]

/-- unknown entity length (serve_fileobj on an object without fileno): whole entity, for every Range -/
theorem unknown_length_whole (p11 : Bool) (range : Option Text) (content : Bytes) :
    serveFileobj p11 false range content = .whole false content.length content := by
  simp [serveFileobj]

/-- an ignored header: the whole entity with its Content-Length -/
theorem serve_ignored (range : Option Text) (content : Bytes)
    (h : getRanges range content.length = none) :
    serveFileobj true true range content = .whole true content.length content := by
  simp [serveFileobj, h]

/-- unsatisfiable: 416 with `Content-Range: bytes */len` -/
theorem serve_unsat (range : Option Text) (content : Bytes)
    (h : getRanges range content.length = some []) :
    serveFileobj true true range content = .unsat content.length := by
  simp [serveFileobj, h]

/-- one satisfiable range: 206, truthful Content-Range / Content-Length, body exactly the slice -/
theorem serve_single (range : Option Text) (content : Bytes) (s e : Nat)
    (h : getRanges range content.length = some [(s, e)]) :
    serveFileobj true true range content =
        .single s (e - 1) content.length (e - s) (slice content s e)
      ∧ s ≤ e - 1 ∧ e - 1 < content.length
      ∧ (slice content s e).length = (e - 1) - s + 1
      ∧ e - s = (e - 1) - s + 1 := by
  have hb := ranges_in_bounds range content.length _ h (s, e) (by simp)
  simp only at hb
  have hle : ¬ e > content.length := by omega
  refine ⟨?_, by omega, by omega, ?_, by omega⟩
  · simp [serveFileobj, h, hle, readSlice_eq, slice]
  · rw [slice_length content s e hb.2]; omega

/-- several ranges: one part per range, in order, each with its truthful Content-range and slice -/
theorem serve_multi (range : Option Text) (content : Bytes) (r1 r2 : Nat × Nat)
    (rest : List (Nat × Nat)) (h : getRanges range content.length = some (r1 :: r2 :: rest)) :
    serveFileobj true true range content =
        .multi ((r1 :: r2 :: rest).map fun p =>
          ⟨p.1, p.2 - 1, content.length, slice content p.1 p.2⟩)
      ∧ ∀ p ∈ r1 :: r2 :: rest, p.1 ≤ p.2 - 1 ∧ p.2 - 1 < content.length ∧
          (slice content p.1 p.2).length = (p.2 - 1) - p.1 + 1 := by
  have hb := ranges_in_bounds range content.length _ h
  refine ⟨?_, ?_⟩
  · simp only [serveFileobj, h, Bool.and_self, if_true]
    simp [readSlice_eq, slice]
  · intro p m
    have := hb p m
    refine ⟨by omega, by omega, ?_⟩
    rw [slice_length content p.1 p.2 this.2]; omega

/-- the response the statement prescribes for a list of specs on HTTP/1.1 -/
def specServe (specs : List Spec) (content : Bytes) : Served :=
  match specRanges content.length specs with
  | none => .whole true content.length content
  | some [] => .unsat content.length
  | some [(s, e)] => .single s (e - 1) content.length (e - 1 - s + 1) (slice content s e)
  | some rs => .multi (rs.map fun p => ⟨p.1, p.2 - 1, content.length, slice content p.1 p.2⟩)

/-- **C16_ranges_conform.**  For every file content and every header of the byte-range grammar on
    HTTP/1.1 the response is the one the statement prescribes: all specs unsatisfiable => 416 with
    `bytes */len`; one satisfiable spec => 206 whose body is exactly the slice with the truthful
    Content-Range; several => multipart parts that are exactly the slices; an invalid spec
    (last < first) => the header is ignored. -/
theorem ranges_conform (h : Header) (wf : h.WF) (content : Bytes) :
    serveFileobj true true (some h.render) content = specServe (h.items.map PSpec.spec) content := by
  have hg := getRanges_grammar h wf content.length
  unfold specServe
  cases hs : specRanges content.length (h.items.map PSpec.spec) with
  | none => rw [hs] at hg; exact serve_ignored _ _ hg
  | some rs =>
    rw [hs] at hg
    match rs, hg with
    | [], hg => exact serve_unsat _ _ hg
    | [(s, e)], hg =>
      have := serve_single _ content s e hg
      rw [this.1, this.2.2.2.2]
    | r1 :: r2 :: rest, hg => exact (serve_multi _ content r1 r2 rest hg).1

/-! ## G. only the grammar is honoured: every other header text is ignored -/

theorem parseTokens_not_bad (len : Nat) (a b : Text) (h : parseTokens len a b ≠ .bad) :
    (IsNum a ∧ IsNum b) ∨ (IsNum a ∧ b = []) ∨ (a = [] ∧ IsNum b) := by
  cases a with
  | nil =>
    cases b with
    | nil => simp [parseTokens] at h
    | cons y ys =>
      cases hb : rangePos (y :: ys) with
      | none => simp [parseTokens, hb] at h
      | some n => exact Or.inr (Or.inr ⟨rfl, (rangePos_some _ n hb).1⟩)
  | cons x xs =>
    cases ha : rangePos (x :: xs) with
    | none => simp [parseTokens, ha] at h
    | some s =>
      have hna := (rangePos_some _ s ha).1
      cases b with
      | nil => exact Or.inr (Or.inl ⟨hna, rfl⟩)
      | cons y ys =>
        cases hb : rangePos (y :: ys) with
        | none => simp [parseTokens, ha, hb] at h
        | some n => exact Or.inl ⟨hna, (rangePos_some _ n hb).1⟩

theorem parseSpec_not_bad (len : Nat) (it : Text) (h : parseSpec len it ≠ .bad) :
    ∃ p : PSpec, p.WF ∧ p.render = it := by
  unfold parseSpec at h
  split at h
  · exact absurd rfl h
  · rename_i _ a b hs
    obtain ⟨hit, _⟩ := split1_some '-' it a b hs
    obtain ⟨w1, w2, h1, h2, ea⟩ := strip_decomp a
    obtain ⟨w3, w4, h3, h4, eb⟩ := strip_decomp b
    rcases parseTokens_not_bad len _ _ h with ⟨na, nb⟩ | ⟨na, nb⟩ | ⟨na, nb⟩
    · refine ⟨⟨.fromTo (strip a) (strip b), w1, w2, w3, w4⟩, ⟨⟨na, nb⟩, h1, h2, h3, h4⟩, ?_⟩
      simp only [PSpec.render, renderItem]
      rw [← ea, ← eb, hit]
    · refine ⟨⟨.from_ (strip a), w1, w2, w3, w4⟩, ⟨na, h1, h2, h3, h4⟩, ?_⟩
      simp only [PSpec.render, renderItem]
      rw [nb] at eb
      rw [← ea, ← eb, hit]
    · refine ⟨⟨.suffix (strip b), w1, w2, w3, w4⟩, ⟨nb, h1, h2, h3, h4⟩, ?_⟩
      simp only [PSpec.render, renderItem]
      rw [na] at ea
      rw [← ea, ← eb, hit]

theorem lift_items (len : Nat) (l : List Text) (h : ∀ it ∈ l, parseSpec len it ≠ .bad) :
    ∃ ps : List PSpec, ps.map PSpec.render = l ∧ ∀ p ∈ ps, p.WF := by
  induction l with
  | nil => exact ⟨[], rfl, by simp⟩
  | cons it r ih =>
    obtain ⟨ps, hps, hwf⟩ := ih (fun x m => h x (List.mem_cons_of_mem _ m))
    obtain ⟨p, hp, hr⟩ := parseSpec_not_bad len it (h it (by simp))
    refine ⟨p :: ps, by simp [hr, hps], ?_⟩
    intro q m
    cases List.mem_cons.mp m with
    | inl e => rw [e]; exact hp
    | inr m' => exact hwf q m'

/-- **Only the grammar is honoured.**  If `get_ranges` honours a header text (returns a list, be it
    empty), that text is a well-formed header of the byte-range grammar above. -/
theorem honoured_only_grammar (t : Text) (len : Nat) (rs : List (Nat × Nat))
    (h : getRanges (some t) len = some rs) : ∃ hd : Header, hd.WF ∧ hd.render = t := by
  rw [getRanges_some] at h
  unfold getRangesText at h
  split at h
  · cases h
  · rename_i _ u br hs
    split at h
    · cases h
    · rename_i hunit
      have hunit' : isBytesUnit (strip u) = true := by simpa using hunit
      obtain ⟨ht, _⟩ := split1_some '=' t u br hs
      obtain ⟨w1, w2, h1, h2, eu⟩ := strip_decomp u
      rw [loop_eq] at h
      have hnb : Item.bad ∉ (splitAll ',' br).map (parseSpec len) := by
        intro m
        rw [(collect_none_iff _).mpr m] at h
        cases h
      obtain ⟨ps, hps, hwf⟩ := lift_items len (splitAll ',' br) (by
        intro it m e
        exact hnb (List.mem_map.mpr ⟨it, m, e⟩))
      refine ⟨⟨w1, strip u, w2, ps⟩, ⟨h1, h2, hunit', ?_, hwf⟩, ?_⟩
      · intro e
        have e' : ps = [] := e
        rw [e'] at hps
        simp [splitAll] at hps
      · simp only [Header.render]
        rw [hps, join_splitAll, ← eu, ht]

/-- **C16_invalid_ignored.**  A header text outside the grammar is ignored, for every length. -/
theorem invalid_ignored (t : Text) (len : Nat) (h : ¬ ∃ hd : Header, hd.WF ∧ hd.render = t) :
    getRanges (some t) len = none := by
  cases hr : getRanges (some t) len with
  | none => rfl
  | some rs => exact absurd (honoured_only_grammar t len rs hr) h

/-- a grammatical header with one invalid spec (last-byte-pos < first-byte-pos) is ignored too,
    wherever the entity ends -/
theorem invalid_spec_ignored (h : Header) (wf : h.WF) (len : Nat)
    (p : PSpec) (hp : p ∈ h.items) (a b : Text) (hs : p.spec = .fromTo a b) (hlt : decVal b < decVal a) :
    getRanges (some h.render) len = none := by
  rw [getRanges_grammar h wf len, specRanges, collect_none_iff]
  refine List.mem_map.mpr ⟨p.spec, List.mem_map.mpr ⟨p, hp, rfl⟩, ?_⟩
  simp [hs, Spec.sem, hlt, Sem.toItem]

/-- exact characterisation: a header text is honoured iff it is in the grammar and none of its
    specs has last-byte-pos < first-byte-pos -/
theorem honoured_iff (t : Text) (len : Nat) :
    (getRanges (some t) len).isSome = true ↔
      ∃ hd : Header, hd.WF ∧ hd.render = t ∧ ∀ p ∈ hd.items, p.spec.sem len ≠ .invalid := by
  constructor
  · intro h
    cases hr : getRanges (some t) len with
    | none => rw [hr] at h; cases h
    | some rs =>
      obtain ⟨hd, wf, e⟩ := honoured_only_grammar t len rs hr
      refine ⟨hd, wf, e, ?_⟩
      intro p hp hinv
      rw [← e, getRanges_grammar hd wf len] at hr
      have : Item.bad ∈ (hd.items.map PSpec.spec).map fun s => (s.sem len).toItem :=
        List.mem_map.mpr ⟨p.spec, List.mem_map.mpr ⟨p, hp, rfl⟩, by simp [hinv, Sem.toItem]⟩
      rw [specRanges, (collect_none_iff _).mpr this] at hr
      cases hr
  · rintro ⟨hd, wf, e, hv⟩
    rw [← e, getRanges_grammar hd wf len, specRanges]
    cases hc : collect ((hd.items.map PSpec.spec).map fun s => (s.sem len).toItem) with
    | some _ => rfl
    | none =>
      have := (collect_none_iff _).mp hc
      obtain ⟨s, hs, hbad⟩ := List.mem_map.mp this
      obtain ⟨p, hp, rfl⟩ := List.mem_map.mp hs
      exfalso
      apply hv p hp
      cases hsem : p.spec.sem len with
      | invalid => rfl
      | unsat => rw [hsem] at hbad; cases hbad
      | sat a b => rw [hsem] at hbad; cases hbad

/-- **C16_suffix_zero.**  `bytes=-0` (any spelling of zero, any whitespace) selects nothing: alone it
    is unsatisfiable (416), for every entity length. -/
theorem suffix_zero (h : Header) (wf : h.WF) (len : Nat) (p : PSpec) (hi : h.items = [p])
    (n : Text) (hs : p.spec = .suffix n) (hz : decVal n = 0) :
    getRanges (some h.render) len = some [] := by
  rw [getRanges_grammar h wf len, hi]
  simp [specRanges, hs, Spec.sem, hz, Sem.toItem, collect]

/-- any suffix on an empty entity is unsatisfiable -/
theorem suffix_on_empty (h : Header) (wf : h.WF) (p : PSpec) (hi : h.items = [p])
    (n : Text) (hs : p.spec = .suffix n) : getRanges (some h.render) 0 = some [] := by
  rw [getRanges_grammar h wf 0, hi]
  simp [specRanges, hs, Spec.sem, Sem.toItem, collect]

/-- an empty entity has no satisfiable range at all: every honoured header yields 416 -/
theorem empty_entity_unsat (t : Text) (rs : List (Nat × Nat)) (h : getRanges (some t) 0 = some rs) :
    rs = [] := by
  cases rs with
  | nil => rfl
  | cons p r =>
    have := ranges_in_bounds (some t) 0 _ h p (by simp)
    omega

/-! ### non-vacuity and the recorded witnesses (F17, F17b) on the model -/

def hdrExample : Header :=
  ⟨[' '], "Bytes".toList, [], [⟨.fromTo "002".toList "5".toList, [], [' '], [], ['\t']⟩,
                               ⟨.suffix "3".toList, [' '], [], [], []⟩, ⟨.from_ "10".toList, [], [], [], []⟩]⟩

example : hdrExample.render = " Bytes=002 -5\t, -3,10-".toList := by decide
example : isBytesUnit hdrExample.unit = true := by decide
example : specRanges 14 (hdrExample.items.map PSpec.spec) = some [(2, 6), (11, 14), (10, 14)] := by decide
example : getRanges (some hdrExample.render) 14 = some [(2, 6), (11, 14), (10, 14)] := by decide

/-- the example header meets the hypotheses of `getRanges_grammar` / `ranges_conform` -/
example : hdrExample.WF := by
  refine ⟨by decide, by decide, by decide, by decide, ?_⟩
  intro p hp
  simp only [hdrExample, List.mem_cons, List.not_mem_nil, or_false] at hp
  rcases hp with rfl | rfl | rfl
  · exact ⟨⟨by decide, by decide⟩, by decide, by decide, by decide, by decide⟩
  · exact ⟨(by decide : IsNum "3".toList), by decide, by decide, by decide, by decide⟩
  · exact ⟨(by decide : IsNum "10".toList), by decide, by decide, by decide, by decide⟩

/-- the hypothesis of `invalid_ignored` is met, e.g., by a header without `=` -/
example : ¬ ∃ hd : Header, hd.WF ∧ hd.render = "bytes".toList := by
  rintro ⟨hd, _, h⟩
  have : '=' ∈ hd.render := by simp [Header.render]
  rw [h] at this
  revert this
  decide

/-- pointwise reading of a slice: byte `i` of `content[a:b]` is byte `a+i` of the content -/
theorem slice_getElem? (content : Bytes) (a b i : Nat) (h : i < b - a) :
    (slice content a b)[i]? = content[a + i]? := by
  simp [slice, h]

example : getRanges (some "bytes=2-5,10-999".toList) 14 = some [(2, 6), (10, 14)] := by decide
example : getRanges (some "bytes=-0".toList) 14 = some [] := by decide
example : getRanges (some "chars=0-1".toList) 14 = none := by decide
example : getRanges (some "bytes=abc".toList) 14 = none := by decide
example : getRanges (some "bytes".toList) 14 = none := by decide
example : getRanges (some "bytes=1-x".toList) 14 = none := by decide
example : getRanges (some "bytes=100-50".toList) 14 = none := by decide
example : getRanges (some "bytes=20-10,0-1".toList) 14 = none := by decide
example : getRanges (some "bytes=٠-١".toList) 14 = none := by decide
example : getRanges (some "bytes=0-1,,2-3".toList) 14 = none := by decide
example : getRanges (some "bytes=-5".toList) 0 = some [] := by decide
example : getRanges (some "bytes=20-".toList) 14 = some [] := by decide

end CpProofs.C16
