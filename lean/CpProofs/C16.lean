import CpModel.Ranges
import CpModel.Validators
/-! C16 — placeholder while the harness is being wired; replaced by the real theorems. -/
namespace CpProofs.C16
open CpModel.Ranges CpModel.Validators

theorem http10_whole (known : Bool) (range : Option Text) (content : Bytes) :
    serveFileobj false known range content = .whole false content.length content := by
  simp [serveFileobj]

end CpProofs.C16
