import CpProofs.C05
import CpModel.ReaderSink
/-!
  C05, sinks and iteration: `read(size, fp_out)`, `read_into_file`, `for line in body`
  (`CpModel.ReaderSink`).  The clause of the statement proved here is "the application never
  receives more than the limit" in its full reading: bytes count as received when they are
  *delivered* — returned, written to a sink, or yielded by the iterator — also by a call that then
  raises 413, and also by calls made after a 413 was caught.

  * `readW_spec`  `read(size, fp_out)` ends in the same state and in the same way as `read(size)`;
    on success the sink holds exactly what `read(size)` returns; ALWAYS (413 included) the sink
    holds a prefix of the undelivered rest and the bytes delivered stay within the limit;
  * `C05_iter_all_lines`  `for line in body` yields exactly the lines of the undelivered rest;
  * `C05X_step`  one extended operation from any state with the accounting invariant;
  * `C05X_exact_in_order`  an error-free extended history delivers (returns + sinks + yields), in
    order, exactly the declared body minus the undelivered rest;
  * `C05X_never_delivers_beyond_maxbytes`  with `maxbytes = m > 0`, EVERY extended history (errors
    included, operations after a caught 413 included) delivers at most `m` bytes.
-/
namespace CpProofs.C05
open CpModel.Reader CpModel.Cursor

macro "c05triv" : tactic => `(tactic| first | trivial | rfl | simp [resUnit])

def resUnit {α : Type} : Res α → Res Unit
  | .ok _ => .ok ()
  | .err413 => .err413
  | .fuel => .fuel

theorem take_prefix_take {α : Type} (l : List α) {k n : Nat} (h : k ≤ n) : l.take k <+: l.take n := by
  have : l.take k = (l.take n).take k := by rw [List.take_take, Nat.min_eq_left h]
  rw [this]; exact List.take_prefix _ _

theorem over_false_le (cfg : Cfg) (m x : Nat) (hm : cfg.maxbytes = some m) (hm0 : m ≠ 0)
    (h : over cfg x = false) : x ≤ m := by
  simp only [over, hm, Bool.and_eq_false_iff, decide_eq_false_iff_not] at h
  rcases h with h | h
  · simp at h; exact absurd h hm0
  · omega

/-- the sink version of the socket loop: same result and state as `readLoop`; what was written is
    `w ++` a prefix of the stream, counted and found within the limit before it was written -/
theorem readLoopW_spec (cfg : Cfg) : ∀ fuel s rem w,
    (readLoopW cfg fuel s rem w).1 = resUnit (readLoop cfg fuel s rem w).1 ∧
    (readLoopW cfg fuel s rem w).2.1 = (readLoop cfg fuel s rem w).2 ∧
    (∀ x, (readLoop cfg fuel s rem w).1 = .ok x → (readLoopW cfg fuel s rem w).2.2 = x) ∧
    ∃ k, (readLoopW cfg fuel s rem w).2.2 = w ++ s.src.take k ∧ k ≤ loopK rem s.src.length ∧
      (k = 0 ∨ over cfg (s.bytesRead + k) = false) := by
  intro fuel
  induction fuel with
  | zero =>
    intro s rem w
    refine ⟨rfl, rfl, by simp [readLoop], 0, by simp [readLoopW], Nat.zero_le _, Or.inl rfl⟩
  | succ fuel ih =>
    intro s rem w
    simp only [readLoopW, readLoop]
    by_cases h0 : rem = some 0
    · simp only [h0, if_true]
      exact ⟨by c05triv, by c05triv, by simp, 0, by simp, Nat.zero_le _, Or.inl rfl⟩
    · simp only [h0, if_false]
      have hcle : ∀ r, rem = some r → chunkOf cfg rem ≤ r := by
        intro r hr; subst hr; simp [chunkOf]; omega
      generalize chunkOf cfg rem = chunk at *
      rcases fpRead_cases s chunk with ⟨h, _⟩ | h
      · rw [h]
        exact ⟨by c05triv, by c05triv, by simp, 0, by simp, Nat.zero_le _, Or.inl rfl⟩
      · rw [h]
        have hk1 := fpCount_le s chunk
        have hk2 := fpCount_le_src s chunk
        generalize fpCount s chunk = c at *
        simp only
        by_cases he : (s.src.take c).isEmpty = true
        · simp only [he, if_true]
          exact ⟨by c05triv, by c05triv, by simp, 0, by simp, Nat.zero_le _, Or.inl rfl⟩
        · simp only [he, Bool.false_eq_true, if_false]
          have hlen : (s.src.take c).length = c := by simp; omega
          simp only [hlen]
          by_cases hov : over cfg (s.bytesRead + c) = true
          · simp only [hov, if_true]
            exact ⟨by c05triv, by c05triv, by simp, 0, by simp, Nat.zero_le _, Or.inl rfl⟩
          · simp only [hov, Bool.false_eq_true, if_false]
            have hovf : over cfg (s.bytesRead + c) = false := by simpa using hov
            obtain ⟨j1, j2, j3, k', j4, j5, j6⟩ :=
              ih { src := s.src.drop c, frag := s.frag.tail, failAt := s.failAt.map (· - 1),
                   off := s.off + c, buffer := s.buffer, bytesRead := s.bytesRead + c, done := s.done, fins := s.fins }
                 (rem.map (· - c)) (w ++ s.src.take c)
            refine ⟨j1, j2, j3, c + k', ?_, ?_, ?_⟩
            · rw [j4]; simp only [List.append_assoc, List.take_add]
            · simp only at j5
              unfold loopK at j5 ⊢
              cases rem with
              | none => simp at j5 ⊢; omega
              | some r => have := hcle r rfl; simp at j5 ⊢; omega
            · right
              simp only at j6
              rcases j6 with j6 | j6
              · rw [j6]; simpa using hovf
              · rw [← Nat.add_assoc]; exact j6

/-- **`read(size, fp_out)`.**  It ends like `read(size)`; on success the sink holds what
    `read(size)` returns; in EVERY case — 413 included — the sink holds a prefix of the undelivered
    rest of the declared body, and (when the reader was within its limit before the call) what was
    delivered so far plus what the sink received is still within the limit. -/
theorem readW_spec (cfg : Cfg) (s : St) (size : Option Nat) (hi : Inv cfg s) :
    (readW cfg s size).1 = resUnit (CpModel.Reader.read cfg s size).1 ∧
    (readW cfg s size).2.1 = (CpModel.Reader.read cfg s size).2 ∧
    (∀ x, (CpModel.Reader.read cfg s size).1 = .ok x → (readW cfg s size).2.2 = x) ∧
    (readW cfg s size).2.2 <+: rest cfg s ∧
    (over cfg s.bytesRead = false → over cfg (s.bytesRead + (readW cfg s size).2.2.length) = false) := by
  unfold readW CpModel.Reader.read
  simp only
  generalize hrem : remainingOf cfg s size = rem
  by_cases h0 : rem = some 0
  · simp only [h0, if_true]
    exact ⟨by c05triv, by c05triv, by simp, List.nil_prefix, by simp⟩
  · simp only [h0, if_false]
    obtain ⟨hacct, hbound⟩ := hi
    -- numeric facts about `rem`
    have hcapfact : ∀ r, rem = some r → s.buffer.length < r → r - s.buffer.length ≤ cap cfg s ∨
        cfg.length = none := by
      intro r hr hb
      cases hl : cfg.length with
      | none => right; rfl
      | some L =>
        left
        obtain ⟨r', hr1, hr2⟩ := remainingOf_le cfg s size L hl
        rw [hrem, hr] at hr1; cases hr1
        have := hbound L hl
        simp only [cap, hl]; omega
    have hnone : rem = none → cfg.length = none := by
      intro hr
      cases hl : cfg.length with
      | none => rfl
      | some L =>
        obtain ⟨r', hr1, _⟩ := remainingOf_le cfg s size L hl
        rw [hrem, hr] at hr1; cases hr1
    have hcapnone : cfg.length = none → cap cfg s = s.src.length := by
      intro hl; simp [cap, hl]
    -- common tail: a loop run from the state after the buffer part
    have tail : ∀ (s1 : St) (data : Bytes), s1.src = s.src → data = bufTake rem s.buffer →
        s1.bytesRead = s.bytesRead + data.length →
        (readLoopW cfg (s.src.length + 1) s1 (rem.map (· - data.length)) data).2.2 <+: rest cfg s ∧
        (over cfg s1.bytesRead = false → over cfg (s.bytesRead +
          (readLoopW cfg (s.src.length + 1) s1 (rem.map (· - data.length)) data).2.2.length) = false) := by
      intro s1 data hsrc hdata hbr
      obtain ⟨_, _, _, k, j4, j5, j6⟩ :=
        readLoopW_spec cfg (s.src.length + 1) s1 (rem.map (· - data.length)) data
      rw [j4, hsrc]
      have hkle : k ≤ s.src.length := by
        rw [hsrc] at j5; unfold loopK at j5; cases rem <;> simp at j5 <;> omega
      constructor
      · -- prefix of buffer ++ src.take cap
        simp only [rest, tailOf]
        cases hr : rem with
        | none =>
          rw [hdata, hr]; simp only [bufTake]
          rw [hcapnone (hnone hr)]
          exact (List.prefix_append_right_inj _).mpr (by simpa using List.take_prefix k s.src)
        | some r =>
          rw [hr] at hdata j5
          simp only [bufTake] at hdata
          by_cases hb : r ≤ s.buffer.length
          · have hk0 : k = 0 := by
              rw [hdata] at j5; simp [loopK] at j5; omega
            rw [hk0, hdata]; simp only [List.take_zero, List.append_nil]
            exact (List.take_prefix _ _).trans (List.prefix_append _ _)
          · have hB : s.buffer.take r = s.buffer := List.take_of_length_le (by omega)
            rw [hdata, hB]
            refine (List.prefix_append_right_inj _).mpr (take_prefix_take _ ?_)
            have hk' : k ≤ r - s.buffer.length := by
              rw [hdata, hB] at j5; simp [loopK] at j5; omega
            rcases hcapfact r hr (by omega) with h | h
            · omega
            · rw [hcapnone h]; exact hkle
      · intro hov1
        have hl : (data ++ s.src.take k).length = data.length + k := by simp; omega
        rw [hl]
        rcases j6 with j6 | j6
        · rw [j6, Nat.add_zero, ← hbr]; exact hov1
        · rw [hbr] at j6; rw [← Nat.add_assoc]; exact j6
    by_cases hbuf : s.buffer.isEmpty = true
    · simp only [hbuf, if_true]
      have hB : s.buffer = [] := by simpa using hbuf
      obtain ⟨j1, j2, j3, _⟩ := readLoopW_spec cfg (s.src.length + 1) s rem []
      refine ⟨j1, j2, j3, ?_⟩
      have hd : ([] : Bytes) = bufTake rem s.buffer := by rw [hB]; cases rem <;> simp [bufTake]
      have hmap : rem.map (· - ([] : Bytes).length) = rem := by cases rem <;> simp
      have t := tail s [] rfl hd (by simp)
      rw [hmap] at t
      exact ⟨t.1, t.2⟩
    · simp only [hbuf, Bool.false_eq_true, if_false]
      by_cases hov : over cfg (s.bytesRead + (bufTake rem s.buffer).length) = true
      · simp only [hov, if_true]
        exact ⟨by c05triv, by c05triv, by simp, List.nil_prefix, by simp⟩
      · simp only [hov, Bool.false_eq_true, if_false]
        have hovf : over cfg (s.bytesRead + (bufTake rem s.buffer).length) = false := by simpa using hov
        obtain ⟨j1, j2, j3, _⟩ := readLoopW_spec cfg (s.src.length + 1)
          { s with buffer := bufDrop rem s.buffer, bytesRead := s.bytesRead + (bufTake rem s.buffer).length }
          (rem.map (· - (bufTake rem s.buffer).length)) (bufTake rem s.buffer)
        have t := tail
          { s with buffer := bufDrop rem s.buffer, bytesRead := s.bytesRead + (bufTake rem s.buffer).length }
          (bufTake rem s.buffer) rfl rfl rfl
        exact ⟨j1, j2, j3, t.1, fun _ => t.2 hovf⟩

/-! ### iteration -/

theorem takeLines_none_seen : ∀ sf a b (R : Bytes), takeLines sf none a R = takeLines sf none b R := by
  intro sf
  induction sf with
  | zero => intro a b R; rfl
  | succ sf ih =>
    intro a b R
    simp only [takeLines, hintReached, Bool.false_eq_true, if_false]
    split
    · rfl
    · rw [ih (a + (takeLine R).length) (b + (takeLine R).length)]

def IterPost (cfg : Cfg) (s : St) (acc : List Bytes) (p : Res Unit × St × List Bytes) : Prop :=
  Inv cfg p.2.1 ∧ p.2.1.failAt.isSome = s.failAt.isSome ∧ total cfg p.2.1 = total cfg s ∧ p.1 ≠ .fuel ∧
  (p.1 = .err413 → over cfg p.2.1.bytesRead = true ∨ s.failAt.isSome = true) ∧
  ∃ ls', p.2.2 = acc ++ ls' ∧ ls'.flatten <+: rest cfg s ∧
    (over cfg s.bytesRead = false → over cfg (s.bytesRead + ls'.flatten.length) = false) ∧
    (p.1 = .ok () →
      (∀ sf, (rest cfg s).length < sf → ls' = takeLines sf none 0 (rest cfg s)) ∧
      rest cfg p.2.1 = [] ∧ ls'.flatten = rest cfg s ∧
      p.2.1.bytesRead = s.bytesRead + ls'.flatten.length)

theorem iterLoop_post (cfg : Cfg) (hb : 1 ≤ cfg.bufsize) :
    ∀ fuel s acc, Inv cfg s → (rest cfg s).length < fuel → IterPost cfg s acc (iterLoop cfg fuel s acc) := by
  intro fuel
  induction fuel with
  | zero => intro s acc _ h; omega
  | succ fuel ih =>
    intro s acc hi hf
    simp only [iterLoop]
    have hlp := readline_post cfg hb s none hi (by simp)
    generalize hp : readline cfg s none = p at *
    obtain ⟨r, s1⟩ := p
    obtain ⟨i1, f1, t1, nf1, _, er1, ok1⟩ := hlp
    simp only at i1 f1 t1 nf1 er1 ok1
    cases r with
    | fuel => exact absurd rfl nf1
    | err413 =>
      exact ⟨i1, f1, t1, by simp, fun _ => er1 rfl, [], by simp, List.nil_prefix, by simp, by simp⟩
    | ok line =>
      obtain ⟨e1, e2, e3, _, e5, _⟩ := ok1 line rfl
      simp only [List.nil_append] at e1
      simp only
      by_cases hle0 : line.isEmpty = true
      · simp only [hle0, if_true]
        have hl0 : line = [] := by simpa using hle0
        have hR : rest cfg s = [] := (takeLine_eq_nil _).mp (by rw [← e1, hl0])
        refine ⟨i1, f1, t1, by simp, by simp, [], by simp, List.nil_prefix, by simp, fun _ => ⟨?_, ?_, ?_, ?_⟩⟩
        · intro sf _; rw [hR, takeLines_nil]
        · rw [e2, hR]; simp
        · rw [hR]; simp
        · rw [e3, hR]; simp [takeLine]
      · simp only [hle0, Bool.false_eq_true, if_false]
        have hlne : line ≠ [] := by simpa using hle0
        have hlpos : 0 < line.length := List.length_pos_iff.mpr hlne
        have hlle : line.length ≤ (rest cfg s).length := by rw [e1]; exact takeLine_length_le _
        have hsplit : rest cfg s = line ++ rest cfg s1 := by
          rw [e2, ← e1]
          conv => lhs; rw [← List.take_append_drop line.length (rest cfg s)]
          rw [e1, takeLine_prefix]
        have hR1 : (rest cfg s1).length = (rest cfg s).length - line.length := by
          rw [e2, ← e1]; simp
        obtain ⟨j1, j2, j3, j4, j5, ls1, k1, k2, k3, k4⟩ := ih s1 (acc ++ [line]) i1 (by omega)
        refine ⟨j1, by rw [j2, f1], by rw [j3, t1], j4, ?_, line :: ls1, by rw [k1]; simp, ?_, ?_, ?_⟩
        · intro he
          rcases j5 he with h | h
          · left; exact h
          · right; rw [← f1]; exact h
        · rw [hsplit]; simp only [List.flatten_cons]
          exact (List.prefix_append_right_inj _).mpr k2
        · intro hs
          have := k3 (e5 hs)
          rw [e3, ← e1] at this
          simp only [List.flatten_cons, List.length_append]
          rw [← Nat.add_assoc]; exact this
        · intro hok
          obtain ⟨q1, q2, q3, q4⟩ := k4 hok
          refine ⟨?_, q2, ?_, ?_⟩
          · intro sf hsf
            cases sf with
            | zero => omega
            | succ sf' =>
              simp only [takeLines, ← e1, hle0, Bool.false_eq_true, if_false, hintReached]
              have e2' : (rest cfg s).drop line.length = rest cfg s1 := by rw [e2, e1]
              rw [e2', takeLines_none_seen sf' _ 0, ← q1 sf' (by omega)]
          · simp only [List.flatten_cons]; rw [q3, ← hsplit]
          · rw [q4, e3, ← e1]; simp only [List.flatten_cons, List.length_append]; omega

/-- **`for line in body`.**  Without a 413 the loop yields exactly the lines of the undelivered rest
    and leaves nothing; with a 413 the lines it yielded before are a prefix of the rest. -/
theorem C05_iter_all_lines (cfg : Cfg) (hb : 1 ≤ cfg.bufsize) (s : St) (hi : Inv cfg s) :
    IterPost cfg s [] (iterAll cfg s) := by
  unfold iterAll
  apply iterLoop_post cfg hb _ s [] hi
  have := rest_length_le cfg s; omega

/-! ### one extended operation -/

def okX : OutX → Prop
  | .base o => o ≠ .err413
  | .wrote r _ => r = .ok ()
  | .yielded r _ => r = .ok ()

instance : DecidablePred okX := fun o => by
  cases o <;> simp only [okX] <;> infer_instance

def StepPostX (cfg : Cfg) (s : St) (p : OutX × St) : Prop :=
  Inv cfg p.2 ∧ p.2.failAt.isSome = s.failAt.isSome ∧ total cfg p.2 = total cfg s ∧
  deliveredX p.1 <+: rest cfg s ∧
  (over cfg s.bytesRead = false → over cfg (s.bytesRead + (deliveredX p.1).length) = false) ∧
  (okX p.1 → rest cfg p.2 = (rest cfg s).drop (deliveredX p.1).length ∧
             p.2.bytesRead = s.bytesRead + (deliveredX p.1).length) ∧
  (¬ okX p.1 → over cfg p.2.bytesRead = true ∨ s.failAt.isSome = true)

theorem deliveredX_base (o : Out) : deliveredX (.base o) = outBytes o := by
  cases o <;> rfl

/-- **One extended operation** (plain, into a sink, into a file, iteration) from any state with the
    accounting invariant: what it delivers — also when it raises 413 — is the next bytes of the
    declared body, in order, and stays within the limit; without a 413 the abstract rest advances by
    exactly what was delivered. -/
theorem C05X_step (cfg : Cfg) (hb : 1 ≤ cfg.bufsize) (s : St) (hi : Inv cfg s) (op : OpX) :
    StepPostX cfg s (stepX cfg s op) := by
  unfold StepPostX
  cases op with
  | base op =>
    obtain ⟨i1, f1, t1, nf1, _, er1, ok1⟩ := C05_step_refines cfg hb s hi op
    simp only [stepX]
    generalize step cfg s op = p at *
    obtain ⟨o, s1⟩ := p
    simp only at i1 f1 t1 nf1 er1 ok1 ⊢
    rw [deliveredX_base]
    by_cases he : o = Out.err413
    · subst he
      refine ⟨i1, f1, t1, by simp [outBytes], by simp [outBytes], fun h => absurd rfl h, fun _ => er1 rfl⟩
    · obtain ⟨e1, e2, e3, e4⟩ := ok1 he
      have hbytes := specStep_bytes cfg.length.isSome (rest cfg s) op
      rw [← e1] at hbytes
      have hlen : (outBytes o).length = (specStep cfg.length.isSome (rest cfg s) op).2 := by
        rw [hbytes, List.length_take]
        have hl := congrArg List.length e2
        have hT : total cfg s1 = total cfg s := t1
        simp only [total] at hT
        simp only [List.length_drop] at hl
        omega
      refine ⟨i1, f1, t1, by rw [hbytes]; exact List.take_prefix _ _, ?_, fun _ => ⟨by rw [hlen]; exact e2,
        by rw [hlen]; exact e3⟩, fun h => absurd he h⟩
      intro hs; rw [hlen, ← e3]; exact e4 hs
  | readInto n =>
    obtain ⟨w1, w2, w3, w4, w5⟩ := readW_spec cfg s n hi
    obtain ⟨i1, f1, t1, nf1, _, er1, ok1⟩ := read_post cfg hb s n hi
    simp only [stepX, deliveredX, okX]
    rw [w2]
    refine ⟨i1, f1, t1, w4, w5, ?_, ?_⟩
    · intro hok
      rw [w1] at hok
      cases hr : (CpModel.Reader.read cfg s n).1 with
      | fuel => exact absurd hr nf1
      | err413 => rw [hr] at hok; simp [resUnit] at hok
      | ok x =>
        obtain ⟨e1, e2, e3, _, _⟩ := ok1 x hr
        rw [w3 x hr]
        have hK : loopK (remainingOf cfg s n) (rest cfg s).length ≤ (rest cfg s).length := by
          unfold loopK; split <;> omega
        have hx : x.length = loopK (remainingOf cfg s n) (rest cfg s).length := by
          rw [e1, List.length_take]; omega
        exact ⟨by rw [hx]; exact e2, e3⟩
    · intro hnok
      rw [w1] at hnok
      cases hr : (CpModel.Reader.read cfg s n).1 with
      | fuel => exact absurd hr nf1
      | err413 => exact er1 hr
      | ok x => rw [hr] at hnok; simp [resUnit] at hnok
  | intoFile =>
    obtain ⟨w1, w2, w3, w4, w5⟩ := readW_spec cfg s none hi
    obtain ⟨i1, f1, t1, nf1, _, er1, ok1⟩ := read_post cfg hb s none hi
    simp only [stepX, deliveredX, okX, readIntoFile]
    rw [w2]
    refine ⟨i1, f1, t1, w4, w5, ?_, ?_⟩
    · intro hok
      rw [w1] at hok
      cases hr : (CpModel.Reader.read cfg s none).1 with
      | fuel => exact absurd hr nf1
      | err413 => rw [hr] at hok; simp [resUnit] at hok
      | ok x =>
        obtain ⟨e1, e2, e3, _, _⟩ := ok1 x hr
        rw [w3 x hr]
        have hK : loopK (remainingOf cfg s none) (rest cfg s).length ≤ (rest cfg s).length := by
          unfold loopK; split <;> omega
        have hx : x.length = loopK (remainingOf cfg s none) (rest cfg s).length := by
          rw [e1, List.length_take]; omega
        exact ⟨by rw [hx]; exact e2, e3⟩
    · intro hnok
      rw [w1] at hnok
      cases hr : (CpModel.Reader.read cfg s none).1 with
      | fuel => exact absurd hr nf1
      | err413 => exact er1 hr
      | ok x => rw [hr] at hnok; simp [resUnit] at hnok
  | iter =>
    obtain ⟨i1, f1, t1, nf1, er1, ls', k1, k2, k3, k4⟩ := C05_iter_all_lines cfg hb s hi
    simp only [stepX, deliveredX, okX]
    simp only [List.nil_append] at k1
    rw [k1]
    refine ⟨i1, f1, t1, k2, k3, ?_, ?_⟩
    · intro hok
      obtain ⟨_, q2, q3, q4⟩ := k4 hok
      refine ⟨?_, q4⟩
      rw [q2, q3]; simp
    · intro hnok
      cases hr : (iterAll cfg s).1 with
      | fuel => exact absurd hr nf1
      | err413 => exact er1 hr
      | ok u => exact absurd hr hnok

/-! ### a reader beyond its limit delivers nothing more -/

theorem read_over (cfg : Cfg) (s : St) (size : Option Nat) (h : over cfg s.bytesRead = true) :
    ((CpModel.Reader.read cfg s size).1 = .ok [] ∨ (CpModel.Reader.read cfg s size).1 = .err413) ∧
    over cfg (CpModel.Reader.read cfg s size).2.bytesRead = true := by
  unfold CpModel.Reader.read
  simp only
  generalize remainingOf cfg s size = rem
  by_cases h0 : rem = some 0
  · simp [h0, finish, h]
  · simp only [h0, if_false]
    by_cases hbuf : s.buffer.isEmpty = true
    · simp only [hbuf, if_true, readLoop, h0, if_false]
      generalize chunkOf cfg rem = chunk
      rcases fpRead_cases s chunk with ⟨hf, _⟩ | hf
      · rw [hf]; simp [h]
      · rw [hf]
        simp only
        have := over_mono' cfg _ (s.bytesRead + (s.src.take (fpCount s chunk)).length) h (Nat.le_add_right _ _)
        by_cases hd : (s.src.take (fpCount s chunk)).isEmpty = true
        · simp only [hd, if_true]; simp [finish, h]
        · simp only [hd, Bool.false_eq_true, if_false, this, if_true]
          simp
    · simp only [hbuf, Bool.false_eq_true, if_false]
      have := over_mono' cfg _ (s.bytesRead + (bufTake rem s.buffer).length) h (Nat.le_add_right _ _)
      simp [this]

theorem readW_over (cfg : Cfg) (s : St) (size : Option Nat) (h : over cfg s.bytesRead = true) :
    (readW cfg s size).2.2 = [] ∧ over cfg (readW cfg s size).2.1.bytesRead = true := by
  unfold readW
  simp only
  generalize remainingOf cfg s size = rem
  by_cases h0 : rem = some 0
  · simp [h0, finish, h]
  · simp only [h0, if_false]
    by_cases hbuf : s.buffer.isEmpty = true
    · simp only [hbuf, if_true, readLoopW, h0, if_false]
      generalize chunkOf cfg rem = chunk
      rcases fpRead_cases s chunk with ⟨hf, _⟩ | hf
      · rw [hf]; simp [h]
      · rw [hf]
        simp only
        have := over_mono' cfg _ (s.bytesRead + (s.src.take (fpCount s chunk)).length) h (Nat.le_add_right _ _)
        by_cases hd : (s.src.take (fpCount s chunk)).isEmpty = true
        · simp only [hd, if_true]; simp [finish, h]
        · simp only [hd, Bool.false_eq_true, if_false, this, if_true]
          simp
    · simp only [hbuf, Bool.false_eq_true, if_false]
      have := over_mono' cfg _ (s.bytesRead + (bufTake rem s.buffer).length) h (Nat.le_add_right _ _)
      simp [this]

theorem readlineLoop_over (cfg : Cfg) (fuel : Nat) (s : St) (chunk : Nat) (h : over cfg s.bytesRead = true) :
    ((readlineLoop cfg (fuel + 1) s chunk []).1 = .ok [] ∨ (readlineLoop cfg (fuel + 1) s chunk []).1 = .err413) ∧
    over cfg (readlineLoop cfg (fuel + 1) s chunk []).2.bytesRead = true := by
  simp only [readlineLoop]
  obtain ⟨r1, r2⟩ := read_over cfg s (some chunk) h
  generalize CpModel.Reader.read cfg s (some chunk) = p at *
  obtain ⟨r, s1⟩ := p
  simp only at r1 r2
  rcases r1 with r1 | r1
  · subst r1; simp [r2]
  · subst r1; simp [r2]

theorem readline_over (cfg : Cfg) (s : St) (size : Option Nat) (h : over cfg s.bytesRead = true) :
    ((readline cfg s size).1 = .ok [] ∨ (readline cfg s size).1 = .err413) ∧
    over cfg (readline cfg s size).2.bytesRead = true := by
  unfold readline
  by_cases hs : size = some 0
  · simp [hs, h]
  · simp only [hs, if_false]
    exact readlineLoop_over cfg _ s _ h

theorem stepX_over (cfg : Cfg) (s : St) (op : OpX) (h : over cfg s.bytesRead = true) :
    deliveredX (stepX cfg s op).1 = [] ∧ over cfg (stepX cfg s op).2.bytesRead = true := by
  cases op with
  | base op =>
    simp only [stepX]
    rw [deliveredX_base]
    cases op with
    | read n =>
      obtain ⟨r1, r2⟩ := read_over cfg s n h
      simp only [step]
      generalize CpModel.Reader.read cfg s n = p at *
      obtain ⟨r, s1⟩ := p
      simp only at r1 r2
      rcases r1 with r1 | r1 <;> subst r1 <;> simp [outBytes, r2]
    | readline n =>
      obtain ⟨r1, r2⟩ := readline_over cfg s n h
      simp only [step]
      generalize readline cfg s n = p at *
      obtain ⟨r, s1⟩ := p
      simp only at r1 r2
      rcases r1 with r1 | r1 <;> subst r1 <;> simp [outBytes, r2]
    | readlines hh =>
      obtain ⟨r1, r2⟩ := readline_over cfg s none h
      simp only [step, readlines, readlinesLoop]
      generalize readline cfg s none = p at *
      obtain ⟨r, s1⟩ := p
      simp only at r1 r2
      rcases r1 with r1 | r1 <;> subst r1 <;> simp [outBytes, r2]
    | next =>
      obtain ⟨r1, r2⟩ := readline_over cfg s none h
      simp only [step]
      generalize readline cfg s none = p at *
      obtain ⟨r, s1⟩ := p
      simp only at r1 r2
      rcases r1 with r1 | r1 <;> subst r1 <;> simp [outBytes, r2]
  | readInto n => simpa [stepX, deliveredX] using readW_over cfg s n h
  | intoFile => simpa [stepX, deliveredX, readIntoFile] using readW_over cfg s none h
  | iter =>
    obtain ⟨r1, r2⟩ := readline_over cfg s none h
    simp only [stepX, iterAll, iterLoop, deliveredX]
    generalize readline cfg s none = p at *
    obtain ⟨r, s1⟩ := p
    simp only at r1 r2
    rcases r1 with r1 | r1 <;> subst r1 <;> simp [r2]

/-! ### whole extended histories -/

/-- everything an extended history handed to the application, in order -/
def allDelivered (os : List OutX) : Bytes := (os.map deliveredX).flatten

theorem runX_cons (cfg : Cfg) (s : St) (op : OpX) (ops : List OpX) :
    runX cfg s (op :: ops) =
      ((stepX cfg s op).1 :: (runX cfg (stepX cfg s op).2 ops).1, (runX cfg (stepX cfg s op).2 ops).2) := rfl

theorem runX_inv (cfg : Cfg) (hb : 1 ≤ cfg.bufsize) : ∀ ops s, Inv cfg s → Inv cfg (runX cfg s ops).2 := by
  intro ops
  induction ops with
  | nil => intro s hi; exact hi
  | cons op ops ih =>
    intro s hi
    rw [runX_cons]
    exact ih _ (C05X_step cfg hb s hi op).1

theorem runX_exact (cfg : Cfg) (hb : 1 ≤ cfg.bufsize) : ∀ ops s, Inv cfg s →
    (∀ o ∈ (runX cfg s ops).1, okX o) →
    allDelivered (runX cfg s ops).1 ++ rest cfg (runX cfg s ops).2 = rest cfg s := by
  intro ops
  induction ops with
  | nil => intro s _ _; simp [runX, allDelivered]
  | cons op ops ih =>
    intro s hi hall
    rw [runX_cons] at hall ⊢
    obtain ⟨i1, _, _, p1, _, ok1, _⟩ := C05X_step cfg hb s hi op
    have hok : okX (stepX cfg s op).1 := hall _ (by simp)
    obtain ⟨e1, _⟩ := ok1 hok
    have := ih _ i1 (fun o ho => hall o (by simp [ho]))
    simp only [allDelivered, List.map_cons, List.flatten_cons, List.append_assoc] at this ⊢
    rw [this, e1]
    conv => rhs; rw [← List.take_append_drop (deliveredX (stepX cfg s op).1).length (rest cfg s)]
    rw [← List.prefix_iff_eq_take.mp p1]

theorem runX_bound (cfg : Cfg) (hb : 1 ≤ cfg.bufsize) (m : Nat) (hm : cfg.maxbytes = some m) (hm0 : m ≠ 0) :
    ∀ ops s D, Inv cfg s → s.failAt = none →
      (over cfg s.bytesRead = false → D ≤ s.bytesRead) → D ≤ m →
      D + (allDelivered (runX cfg s ops).1).length ≤ m := by
  intro ops
  induction ops with
  | nil => intro s D _ _ _ hD; simpa [runX, allDelivered] using hD
  | cons op ops ih =>
    intro s D hi hfa hDbr hD
    rw [runX_cons]
    simp only [allDelivered, List.map_cons, List.flatten_cons, List.length_append]
    obtain ⟨i1, f1, _, _, p2, ok1, nok1⟩ := C05X_step cfg hb s hi op
    have hfa1 : (stepX cfg s op).2.failAt = none := by
      rw [hfa] at f1
      cases h : (stepX cfg s op).2.failAt with
      | none => rfl
      | some _ => rw [h] at f1; cases f1
    cases hov : over cfg s.bytesRead with
    | true =>
      obtain ⟨d0, ov1⟩ := stepX_over cfg s op hov
      have := ih (stepX cfg s op).2 D i1 hfa1 (fun h => by rw [ov1] at h; cases h) hD
      rw [d0]; simpa [allDelivered] using this
    | false =>
      have hle := over_false_le cfg m _ hm hm0 (p2 hov)
      have hDb := hDbr hov
      have := ih (stepX cfg s op).2 (D + (deliveredX (stepX cfg s op).1).length) i1 hfa1 ?_ (by omega)
      · simp only [allDelivered] at this; omega
      · intro hov1
        by_cases hok : okX (stepX cfg s op).1
        · rw [(ok1 hok).2]; omega
        · rcases nok1 hok with h | h
          · rw [h] at hov1; cases hov1
          · rw [hfa] at h; cases h

/-- **C05, exact and ordered, sinks and iteration included.**  An extended history without a 413
    delivers — return values, bytes written to sinks, lines yielded — in order exactly the declared
    body up to the undelivered rest: every byte once. -/
theorem C05X_exact_in_order (cfg : Cfg) (hb : 1 ≤ cfg.bufsize) (body : Bytes) (frag : List Nat)
    (fa : Option Nat) (ops : List OpX)
    (hok : ∀ o ∈ (runX cfg (init body frag fa) ops).1, okX o) :
    allDelivered (runX cfg (init body frag fa) ops).1 ++ rest cfg (runX cfg (init body frag fa) ops).2
      = avail cfg body := by
  rw [← rest_init cfg body frag fa]
  exact runX_exact cfg hb ops _ (init_inv cfg body frag fa) hok

/-- **C05, bounded, extended histories.**  The stream is never read beyond the declared length,
    whatever mixture of plain, sink and iteration operations ran (errors included). -/
theorem C05X_never_overreads (cfg : Cfg) (hb : 1 ≤ cfg.bufsize) (body : Bytes) (frag : List Nat)
    (fa : Option Nat) (ops : List OpX) (L : Nat) (hL : cfg.length = some L) :
    (runX cfg (init body frag fa) ops).2.off ≤ L :=
  (runX_inv cfg hb ops _ (init_inv cfg body frag fa)).bound L hL

/-- **C05, maxbytes, at the strength of the statement.**  With `maxbytes = m > 0`, EVERY extended
    history — 413s included, operations after a caught 413 included — hands at most `m` bytes to the
    application, counting return values, bytes written to `fp_out` sinks / `read_into_file` files
    (also by the call that raises) and lines yielded by the iterator. -/
theorem C05X_never_delivers_beyond_maxbytes (cfg : Cfg) (hb : 1 ≤ cfg.bufsize) (body : Bytes)
    (frag : List Nat) (ops : List OpX) (m : Nat) (hm : cfg.maxbytes = some m) (hm0 : m ≠ 0) :
    (allDelivered (runX cfg (init body frag none) ops).1).length ≤ m := by
  have := runX_bound cfg hb m hm hm0 ops (init body frag none) 0 (init_inv cfg body frag none) rfl
    (fun _ => Nat.zero_le _) (Nat.zero_le _)
  omega

/-- non-vacuity: a sink really holds bytes after a 413 — within the limit (body 6, limit 3, bufsize 2:
    the first chunk is written, the second crosses the limit and is not) … -/
example : (runX { length := some 6, maxbytes := some 3, bufsize := 2 }
    (init [97,98,99,100,101,102] [] none) [.intoFile]).1 = [.wrote .err413 [97,98]] := by decide

/-- … operations after the caught 413 deliver nothing … -/
example : (runX { length := some 6, maxbytes := some 3, bufsize := 2 }
    (init [97,98,99,100,101,102] [] none) [.intoFile, .base (.read none), .iter, .readInto (some 1)]).1
      = [.wrote .err413 [97,98], .base .err413, .yielded (.ok ()) [], .wrote (.ok ()) []] := by decide

/-- … and iteration after a partial line read continues in order. -/
example : (runX { length := some 7, maxbytes := none, bufsize := 3 }
    (init [97,10,98,99,10,100,101,120] [0] none) [.base (.read (some 1)), .iter]).1
      = [.base (.bytes [97]), .yielded (.ok ()) [[10],[98,99,10],[100,101]]] := by decide

/-! ### transient faults of the underlying stream -/

theorem inv_armNext (cfg : Cfg) (s : St) (plan : List Nat) (hi : Inv cfg s) : Inv cfg (armNext s plan).1 := by
  cases plan <;> exact ⟨hi.acct, hi.bound⟩

theorem runF_inv (cfg : Cfg) (hb : 1 ≤ cfg.bufsize) : ∀ ops s plan, Inv cfg s → Inv cfg (runF cfg s plan ops).2 := by
  intro ops
  induction ops with
  | nil => intro s plan hi; exact hi
  | cons op ops ih =>
    intro s plan hi
    simp only [runF]
    have i1 := (C05X_step cfg hb s hi op).1
    split
    · exact ih _ _ (inv_armNext cfg _ plan i1)
    · exact ih _ _ i1

/-- **C05, bounded, under transient faults of the connection.**  Whatever the operations, and whenever the
    underlying stream raises (any plan of transient faults, each aborting the operation it hits, the
    application reading on afterwards): the stream is never read beyond the declared length — a pipelined
    following request is left intact also after errors — and the accounting invariant
    (`bytes handed out = bytes_read + |buffer|`) holds throughout. -/
theorem C05F_never_overreads (cfg : Cfg) (hb : 1 ≤ cfg.bufsize) (body : Bytes) (frag : List Nat)
    (plan : List Nat) (ops : List OpX) (L : Nat) (hL : cfg.length = some L) :
    (runF cfg (initF body frag plan).1 (initF body frag plan).2 ops).2.off ≤ L :=
  (runF_inv cfg hb ops _ _ (inv_armNext cfg _ plan (init_inv cfg body frag none))).bound L hL

theorem C05F_accounting (cfg : Cfg) (hb : 1 ≤ cfg.bufsize) (body : Bytes) (frag : List Nat)
    (plan : List Nat) (ops : List OpX) :
    let s := (runF cfg (initF body frag plan).1 (initF body frag plan).2 ops).2
    s.off = s.bytesRead + s.buffer.length :=
  (runF_inv cfg hb ops _ _ (inv_armNext cfg _ plan (init_inv cfg body frag none))).acct

/-- non-vacuity: the fault hits the second chunk of `read()`, the first chunk is lost but counted, the
    application reads on and gets the rest of the declared body — and not one byte of what follows it -/
example : (runF { length := some 6, maxbytes := none, bufsize := 2 }
    (initF [97,98,99,100,101,102,88,89] [] [1]).1 (initF [97,98,99,100,101,102,88,89] [] [1]).2
    [.base (.read none), .base (.read none), .base (.read none)]) =
      ([.base .err413, .base (.bytes [99,100,101,102]), .base (.bytes [])],
       { src := [88,89], frag := [], failAt := none, off := 6, buffer := [], bytesRead := 6, done := true,
         fins := 1 }) := by decide

end CpProofs.C05
