import CpModel.Auth
import CpModel.AuthPrims
import CpProofs.C19Lemmas
import CpProofs.C19B64
import CpProofs.C19Parse
/-!
  C19 — HTTP authentication admits exactly the right credentials.

  Theorems about `CpModel.Auth` (the transcription of `auth_basic.basic_auth` and `auth_digest.digest_auth`).
  Every theorem quantifies over *all* header strings (`Option (List Char)`), all configurations (realm, key,
  store, accept_charset), all request methods and clock values, and over **arbitrary** primitives
  `P : Prims` — the hash `H`, the base64 decoder, the accept_charset codec and NFC are arbitrary functions.
  "Only the right credentials pass" is therefore the *equality* of the submitted response with the RFC 2617
  request-digest recomputed from the stored HA1; collision resistance of MD5 is outside any proof.

  False on the unchanged tree (kept as `…_full`, refuted with a concrete witness, proved as `…_partial`):
  `digest_never_5xx_full` and `digest_complete_full` — `qop=auth-int` ends in `TypeError` (finding F21).
-/
namespace CpProofs.C19
open CpModel.Auth CpModel.Gen.C19

deriving instance DecidableEq for Except

/-! ## Basic -/

/-- the credentials test of `checkpassword_dict`: the user is in the store with exactly this, non-empty, password -/
theorem checkpasswordDict_iff (store : List (Str × Str)) (u p : Str) :
    checkpasswordDict store u p = true ↔ dictGet u store = some p ∧ p ≠ [] := by
  unfold checkpasswordDict
  cases h : dictGet u store with
  | none => simp
  | some q =>
    simp only [Bool.and_eq_true, ne_eq, beq_iff_eq, Option.some.injEq, decide_eq_true_eq]
    constructor
    · rintro ⟨h1, rfl⟩; exact ⟨rfl, h1⟩
    · rintro ⟨rfl, h1⟩; exact ⟨h1, rfl⟩

/-- **C19_basic_sound_complete.**  The handler runs with `login = u` exactly when the header is
    `<scheme> <params>` (cut at the first space) with `scheme.lower() == 'basic'`, `params` base64-decodes, and the
    bytes — decoded with the accepted charset, else ISO-8859-1, then NFC-normalised — read `u:p` (cut at the first
    colon, so `u` has no colon) where the store maps `u` to exactly `p` and `p` is not empty. -/
theorem basic_sound_complete (P : Prims) (cfg : BasicCfg) (hq : cfg.realm.contains '"' = false)
    (hdr : Option Str) (u : Str) :
    basicAuth P cfg hdr = .grant u ↔
      ∃ h scheme params bytes p,
        hdr = some h ∧ h = scheme ++ ' ' :: params ∧ ' ' ∉ scheme ∧ pyLower scheme = cs! "basic" ∧
        P.b64decode params = some bytes ∧
        P.nfc (tryDecode P bytes) = u ++ ':' :: p ∧ ':' ∉ u ∧
        dictGet u cfg.store = some p ∧ p ≠ [] := by
  unfold basicAuth
  simp only [hq, Bool.false_eq_true, if_false]
  constructor
  · intro h
    split at h
    · simp at h
    · rename_i hs
      split at h
      · simp at h
      · rename_i scheme params hsp
        split at h
        · rename_i hsch
          split at h
          · simp at h
          · rename_i bytes hb
            split at h
            · simp at h
            · rename_i un pw hup
              split at h
              · rename_i hck
                simp only [Outcome.grant.injEq] at h
                subst h
                obtain ⟨e1, e2⟩ := split1_some _ hsp
                obtain ⟨e3, e4⟩ := split1_some _ hup
                obtain ⟨e5, e6⟩ := (checkpasswordDict_iff _ _ _).mp hck
                exact ⟨hs, scheme, params, bytes, pw, rfl, e1, e2, hsch, hb, e3, e4, e5, e6⟩
              · simp at h
        · simp at h
  · rintro ⟨h, scheme, params, bytes, p, rfl, rfl, e2, hsch, hb, e3, e4, e5, e6⟩
    simp only [split1_of_append scheme params e2, hsch, if_true, hb, e3, split1_of_append u p e4,
      (checkpasswordDict_iff _ _ _).mpr ⟨e5, e6⟩]

example : basicAuth ⟨id, fun _ => some [97, 58, 98], fun _ => none, id⟩
    ⟨cs! "R", [(cs! "a", cs! "b")], cs! "utf-8"⟩ (some (cs! "Basic YTpi")) = .grant (cs! "a") := by decide

/-- Every rejection by `basic_auth` is a 401 carrying exactly `Basic realm="<realm>"[, charset="<CHARSET>"]`
    or a 400; nothing else can happen (the realm being free of double quotes, which `basic_auth` demands). -/
theorem basic_never_5xx (P : Prims) (cfg : BasicCfg) (hq : cfg.realm.contains '"' = false) (hdr : Option Str) :
    (∃ u, basicAuth P cfg hdr = .grant u) ∨ basicAuth P cfg hdr = .unauthorized (basicChallenge cfg) ∨
      basicAuth P cfg hdr = .badRequest := by
  unfold basicAuth
  simp only [hq, Bool.false_eq_true, if_false]
  repeat' split
  all_goals simp

/-- 400 exactly on the listed parse failures: no space in the header; or, for the Basic scheme, base64 payload
    that does not decode, or decoded text without a colon. -/
theorem basic_400_iff (P : Prims) (cfg : BasicCfg) (hq : cfg.realm.contains '"' = false) (hdr : Option Str) :
    basicAuth P cfg hdr = .badRequest ↔
      ∃ h, hdr = some h ∧
        (' ' ∉ h ∨
         ∃ scheme params, split1 ' ' h = some (scheme, params) ∧ pyLower scheme = cs! "basic" ∧
           (P.b64decode params = none ∨
            ∃ bytes, P.b64decode params = some bytes ∧ ':' ∉ P.nfc (tryDecode P bytes))) := by
  unfold basicAuth
  simp only [hq, Bool.false_eq_true, if_false]
  constructor
  · intro h
    split at h
    · simp at h
    · rename_i hs
      refine ⟨hs, rfl, ?_⟩
      split at h
      · rename_i hn; exact Or.inl ((split1_none _).mp hn)
      · rename_i scheme params hsp
        right
        split at h
        · rename_i hsch
          refine ⟨scheme, params, hsp, hsch, ?_⟩
          split at h
          · rename_i hb; exact Or.inl hb
          · rename_i bytes hb
            right
            refine ⟨bytes, hb, ?_⟩
            split at h
            · rename_i hn; exact (split1_none _).mp hn
            · split at h <;> simp at h
        · simp at h
  · rintro ⟨h, rfl, hcase⟩
    rcases hcase with hn | ⟨scheme, params, hsp, hsch, hcase⟩
    · simp [(split1_none _).mpr hn]
    · simp only [hsp, hsch, if_true]
      rcases hcase with hb | ⟨bytes, hb, hn⟩
      · simp [hb]
      · simp [hb, (split1_none _).mpr hn]

/-- no header, or a scheme other than Basic followed by a space: 401 with the Basic challenge -/
theorem basic_other_scheme_401 (P : Prims) (cfg : BasicCfg) (hq : cfg.realm.contains '"' = false) :
    basicAuth P cfg none = .unauthorized (basicChallenge cfg) ∧
    ∀ scheme params, ' ' ∉ scheme → pyLower scheme ≠ cs! "basic" →
      basicAuth P cfg (some (scheme ++ ' ' :: params)) = .unauthorized (basicChallenge cfg) := by
  unfold basicAuth
  simp only [hq, Bool.false_eq_true, if_false, true_and]
  intro scheme params h1 h2
  simp [split1_of_append scheme params h1, h2]

/-- an empty stored password never authenticates (`p and p == password`) -/
theorem basic_empty_password_never (P : Prims) (cfg : BasicCfg) (hdr : Option Str) (u : Str)
    (he : dictGet u cfg.store = some []) : basicAuth P cfg hdr ≠ .grant u := by
  intro h
  by_cases hq : cfg.realm.contains '"' = false
  · obtain ⟨_, _, _, _, p, _, _, _, _, _, _, _, e5, e6⟩ := (basic_sound_complete P cfg hq hdr u).mp h
    rw [he] at e5
    exact e6 (Option.some.inj e5).symm
  · unfold basicAuth at h
    simp only [Bool.not_eq_false] at hq
    rw [if_pos hq] at h
    simp at h

/-- **An RFC 7617 client against the concrete base64 decoder.**  For every user id without a colon, every password,
    every hash, every codec pair with `decode (encode s) = s` on the credentials and every NFC function fixing them:
    the header `Basic base64(encode(user:password))` is let through with `login = user` when the store maps the user to
    exactly this non-empty password, and answered with the Basic challenge otherwise — nothing else can happen. -/
theorem basic_rfc7617_client (H : Str → Str) (nfc : Str → Str) (decode : Bytes → Option Str) (encode : Str → Bytes)
    (cfg : BasicCfg) (hq : cfg.realm.contains '"' = false) (u p : Str) (hu : ':' ∉ u)
    (hcodec : decode (encode (u ++ ':' :: p)) = some (u ++ ':' :: p))
    (hnfc : nfc (u ++ ':' :: p) = u ++ ':' :: p) :
    basicAuth ⟨H, CpModel.AuthPrims.b64decode, decode, nfc⟩ cfg
        (some (cs! "Basic " ++ CpModel.AuthPrims.b64encode (encode (u ++ ':' :: p)))) =
      if dictGet u cfg.store = some p ∧ p ≠ [] then .grant u else .unauthorized (basicChallenge cfg) := by
  have hsp : split1 ' ' (cs! "Basic " ++ CpModel.AuthPrims.b64encode (encode (u ++ ':' :: p))) =
      some (cs! "Basic", CpModel.AuthPrims.b64encode (encode (u ++ ':' :: p))) :=
    split1_of_append (cs! "Basic") _ (by decide)
  have hl : pyLower (cs! "Basic") = cs! "basic" := by decide
  unfold basicAuth
  simp only [hq, Bool.false_eq_true, if_false, hsp, hl, if_true, b64decode_encode, tryDecode, hcodec, hnfc,
    split1_of_append u p hu]
  by_cases hc : dictGet u cfg.store = some p ∧ p ≠ []
  · rw [if_pos hc, if_pos ((checkpasswordDict_iff _ _ _).mpr hc)]
  · rw [if_neg hc, if_neg (fun h => hc ((checkpasswordDict_iff _ _ _).mp h))]

/-- the driver's UTF-8 codec (core Lean's validating decoder) inverts its encoder on every text -/
theorem fromUTF8_toByteArray (str : String) : String.fromUTF8? str.toByteArray = some str := by
  unfold String.fromUTF8?
  have h : str.toByteArray.IsValidUTF8 := str.isValidUTF8
  simp [h, String.fromUTF8]

theorem utf8_roundtrip (s : Str) : CpModel.AuthPrims.utf8Decode (CpModel.AuthPrims.utf8Encode s) = some s := by
  unfold CpModel.AuthPrims.utf8Decode CpModel.AuthPrims.utf8Encode
  have h0 : ByteArray.mk (String.ofList s).toUTF8.data.toList.toArray = (String.ofList s).toByteArray := by
    simp
  rw [h0, fromUTF8_toByteArray]
  simp

/-- **RFC 7617 client over UTF-8, concrete base64 and concrete UTF-8**: only NFC is left abstract -/
theorem basic_rfc7617_client_utf8 (H : Str → Str) (nfc : Str → Str) (cfg : BasicCfg)
    (hq : cfg.realm.contains '"' = false) (u p : Str) (hu : ':' ∉ u)
    (hnfc : nfc (u ++ ':' :: p) = u ++ ':' :: p) :
    basicAuth ⟨H, CpModel.AuthPrims.b64decode, CpModel.AuthPrims.utf8Decode, nfc⟩ cfg
        (some (cs! "Basic " ++ CpModel.AuthPrims.b64encode (CpModel.AuthPrims.utf8Encode (u ++ ':' :: p)))) =
      if dictGet u cfg.store = some p ∧ p ≠ [] then .grant u else .unauthorized (basicChallenge cfg) :=
  basic_rfc7617_client H nfc _ _ cfg hq u p hu (utf8_roundtrip _) hnfc

/-! ## Digest -/

/-- `':'.join(parts)` -/
def joinColon : List Str → Str
  | [] => []
  | [x] => x
  | x :: y :: rest => x ++ ':' :: joinColon (y :: rest)

/-- RFC 2617 3.2.2.1–3.2.2.3, written independently of the model's `requestDigest`:
    request-digest = KD(H(A1), nonce [":" nc ":" cnonce ":" qop] ":" H(A2)) with A2 = method ":" uri and, for
    MD5-sess, H(A1) = H(HA1 ":" nonce ":" cnonce). -/
def rfcDigest (P : Prims) (a : Auth) (method ha1 : Str) : Str :=
  let nonce := fmtOpt a.nonce
  let hA2 := P.H (joinColon [method, fmtOpt a.uri])
  let hA1 := if a.algorithm = cs! "MD5-SESS" then P.H (joinColon [ha1, nonce, fmtOpt a.cnonce]) else ha1
  match a.qop with
  | none => P.H (joinColon [hA1, nonce, hA2])
  | some q => P.H (joinColon [hA1, nonce, fmtOpt a.nc, fmtOpt a.cnonce, q, hA2])

/-- for a validated header whose qop is not auth-int the code computes exactly the RFC request-digest -/
theorem requestDigest_eq_rfc (P : Prims) (a : Auth) (v : Valid a) (hq : a.qop ≠ some (cs! "auth-int"))
    (method ha1 : Str) : requestDigest P a method ha1 = .ok (rfcDigest P a method ha1) := by
  unfold requestDigest ha2 rfcDigest
  rcases v.qop with ⟨hn, _, _⟩ | ⟨hq2 | hq2, _, _⟩
  · simp [hn, truthy, joinColon, colon]
  · simp [hq2, truthy, joinColon, colon, fmtOpt]
  · exact absurd hq2 hq

/-- for qop=auth-int the code raises `TypeError` (F21) -/
theorem requestDigest_authint (P : Prims) (a : Auth) (hq : a.qop = some (cs! "auth-int")) (method ha1 : Str) :
    requestDigest P a method ha1 = .error .typeError := by
  unfold requestDigest ha2
  simp [hq]

/-- the two challenges differ (so the stale flag can be read off the outcome) -/
theorem challenge_stale_ne (P : Prims) (cfg : DigestCfg) (now : Int) :
    digestChallenge P cfg now true ≠ digestChallenge P cfg now false := by
  unfold digestChallenge
  intro h
  have := congrArg List.length h
  simp at this
  omega

/-- everything `digest_auth` checks before it lets a request through -/
structure Accepts (P : Prims) (cfg : DigestCfg) (method : Str) (now : Int) (h : Str) (a : Auth) (u : Str) : Prop where
  /-- the header parses and passes the constructor's checks -/
  parsed : parseAuth P h = .ok a
  valid : Valid a
  user : a.username = some u
  /-- the qop is one the tool can compute -/
  qop : a.qop = none ∨ a.qop = some (cs! "auth")
  /-- the nonce is `ts:H(ts:realm:key)` for the **server's** realm and key … -/
  nonce : ∃ ts t, ':' ∉ ts ∧ a.nonce = some (synthesizeNonce P cfg.realm cfg.key ts) ∧
    /- … with a timestamp that has not expired -/
    pyInt ts = some t ∧ t + 600 > now
  /-- the store knows the user, and the response is the RFC 2617 request-digest recomputed from the **stored**
      HA1, the **request's** method and the header's uri / nonce / nc / cnonce / qop / algorithm -/
  digest : ∃ ha1, getHa1 P cfg u = some ha1 ∧ a.response = some (rfcDigest P a method ha1)

theorem fmtOpt_of_truthy {o : Option Str} (h : truthy o = true) : o = some (fmtOpt o) := by
  obtain ⟨s, rfl, _⟩ := (truthy_iff o).mp h
  rfl

theorem parseAuth_valid (P : Prims) (h : Str) (a : Auth) (hp : parseAuth P h = .ok a) : Valid a := by
  unfold parseAuth at hp
  split at hp
  · simp at hp
  · split at hp
    · simp at hp
    · split at hp
      · simp at hp
      · split at hp
        · simp at hp
        · obtain ⟨rfl, v⟩ := (validateFields_ok_iff _ _).mp hp
          exact v

theorem synthesizeNonce_split (P : Prims) (s key ts : Str) (h : ':' ∉ ts) :
    split1 ':' (synthesizeNonce P s key ts) = some (ts, P.H (colon ts (colon s key))) := by
  unfold synthesizeNonce colon
  exact split1_of_append _ _ h

/-- **C19_digest_sound** and **C19_digest_complete** in one statement: the handler runs with `login = u`
    *exactly* when the header parses, names `u`, carries a nonce this server's `synthesize_nonce` produces for its
    own realm and key with an unexpired timestamp, and its `response` equals the RFC 2617 request-digest recomputed
    from the HA1 the store holds for `u`, the request's method and the header's fields (qop absent or `auth`,
    algorithm MD5 or MD5-sess).  `H` is arbitrary. -/
theorem digest_grant_iff (P : Prims) (cfg : DigestCfg) (method : Str) (now : Int) (hdr : Option Str) (u : Str) :
    digestAuth P cfg method now hdr = .grant u ↔
      ∃ h a, hdr = some h ∧ Accepts P cfg method now h a u := by
  constructor
  · intro hg
    cases hdr with
    | none =>
      simp [digestAuth, digestMatches, beforeSpace, pyLower, respond401] at hg
    | some h =>
      simp only [digestAuth, Option.getD_some] at hg
      split at hg
      · simp [respond401] at hg
      · split at hg
        · split at hg <;> simp at hg
        · rename_i a hp
          have v := parseAuth_valid P h a hp
          have hn := fmtOpt_of_truthy v.nonce
          have hu := fmtOpt_of_truthy v.username
          have hr := fmtOpt_of_truthy v.response
          split at hg
          · simp [respond401] at hg
          · rename_i hvn
            have hvn := Decidable.not_not.mp hvn
            obtain ⟨ts, hts, hnonce⟩ := (validateNonce_iff P _ _ _).mp hvn
            split at hg
            · simp [respond401] at hg
            · rename_i ha1v hget
              by_cases hq : a.qop = some (cs! "auth-int")
              · rw [requestDigest_authint P a hq] at hg
                simp at hg
              · rw [requestDigest_eq_rfc P a v hq] at hg
                simp only at hg
                split at hg
                · simp [respond401] at hg
                · rename_i hdig
                  have hdig := Decidable.not_not.mp hdig
                  split at hg
                  · simp [respond401] at hg
                  · rename_i hst
                    simp only [Bool.not_eq_true] at hst
                    obtain ⟨ts', rest, t, hs1, hs2, hs3⟩ := (isNonceStale_false_iff _ _ _).mp hst
                    simp only [Outcome.grant.injEq] at hg
                    rw [hnonce, synthesizeNonce_split P _ _ ts hts] at hs1
                    simp only [Option.some.injEq, Prod.mk.injEq] at hs1
                    obtain ⟨rfl, _⟩ := hs1
                    refine ⟨h, a, rfl, ⟨hp, v, by rw [hu, hg], ?_, ⟨ts, t, hts, by rw [hn, hnonce], hs2, by simpa using hs3⟩,
                      ⟨ha1v, by rw [← hg]; exact hget, by rw [hr, ← hdig]⟩⟩⟩
                    rcases v.qop with ⟨h1, _, _⟩ | ⟨h1 | h1, _, _⟩
                    · exact Or.inl h1
                    · exact Or.inr h1
                    · exact absurd h1 hq
  · rintro ⟨h, a, rfl, acc⟩
    obtain ⟨ts, t, hts, hnonce, hint, hfresh⟩ := acc.nonce
    obtain ⟨ha1, hget, hresp⟩ := acc.digest
    have hm : digestMatches h = true := by
      have hp := acc.parsed
      unfold parseAuth at hp
      split at hp
      · simp at hp
      · rename_i hm; exact Decidable.not_not.mp hm
    have hq : a.qop ≠ some (cs! "auth-int") := by
      rcases acc.qop with h1 | h1 <;> rw [h1] <;> decide
    have hvn : validateNonce P (fmtOpt a.nonce) cfg.realm cfg.key = true :=
      (validateNonce_iff P _ _ _).mpr ⟨ts, hts, by rw [hnonce]; rfl⟩
    have hst : isNonceStale (fmtOpt a.nonce) 600 now = false :=
      (isNonceStale_false_iff _ _ _).mpr ⟨ts, _, t, by rw [hnonce]; exact synthesizeNonce_split P _ _ ts hts, hint,
        by simpa using hfresh⟩
    have hfu : fmtOpt a.username = u := by rw [acc.user]; rfl
    have hfr : fmtOpt a.response = rfcDigest P a method ha1 := by rw [hresp]; rfl
    simp only [digestAuth, Option.getD_some, hm, not_true_eq_false, if_false, acc.parsed, hvn, hfu, hfr,
      hget, requestDigest_eq_rfc P a acc.valid hq, ne_eq, not_true_eq_false, hst, Bool.false_eq_true]

/-- **C19_digest_sound** (the "only if" half, spelled out): a granted request proves all of `Accepts`. -/
theorem digest_sound (P : Prims) (cfg : DigestCfg) (method : Str) (now : Int) (hdr : Option Str) (u : Str)
    (hg : digestAuth P cfg method now hdr = .grant u) :
    ∃ h a ha1 ts t, hdr = some h ∧ parseAuth P h = .ok a ∧ a.username = some u ∧
      getHa1 P cfg u = some ha1 ∧
      a.nonce = some (ts ++ ':' :: P.H (joinColon [ts, cfg.realm, cfg.key])) ∧ ':' ∉ ts ∧
      pyInt ts = some t ∧ t + 600 > now ∧
      a.response = some (rfcDigest P a method ha1) ∧
      (a.qop = none ∨ a.qop = some (cs! "auth")) ∧
      (a.algorithm = cs! "MD5" ∨ a.algorithm = cs! "MD5-SESS") := by
  obtain ⟨h, a, rfl, acc⟩ := (digest_grant_iff P cfg method now hdr u).mp hg
  obtain ⟨ts, t, hts, hnonce, hint, hfresh⟩ := acc.nonce
  obtain ⟨ha1, hget, hresp⟩ := acc.digest
  exact ⟨h, a, ha1, ts, t, rfl, acc.parsed, acc.user, hget, hnonce, hts, hint, hfresh, hresp, acc.qop, acc.valid.alg⟩

/-- **C19_digest_complete**: qop absent or `auth`, MD5 or MD5-sess — a parsed header with a genuine fresh nonce and
    the RFC response for the stored HA1 is let through with `login = username`. -/
theorem digest_complete (P : Prims) (cfg : DigestCfg) (method : Str) (now : Int) (h : Str) (a : Auth)
    (u ha1 ts : Str) (t : Int)
    (hp : parseAuth P h = .ok a) (hu : a.username = some u)
    (hq : a.qop = none ∨ a.qop = some (cs! "auth"))
    (hget : getHa1 P cfg u = some ha1)
    (hnonce : a.nonce = some (synthesizeNonce P cfg.realm cfg.key ts)) (hts : ':' ∉ ts)
    (hint : pyInt ts = some t) (hfresh : t + 600 > now)
    (hresp : a.response = some (rfcDigest P a method ha1)) :
    digestAuth P cfg method now (some h) = .grant u :=
  (digest_grant_iff P cfg method now (some h) u).mpr
    ⟨h, a, rfl, ⟨hp, parseAuth_valid P h a hp, hu, hq, ⟨ts, t, hts, hnonce, hint, hfresh⟩, ⟨ha1, hget, hresp⟩⟩⟩

/-! ### rejections -/

theorem parseKeqvList_error (l : List Str) (e : Exc) (h : parseKeqvList l = .error e) :
    e = .valueError ∨ e = .indexError := by
  induction l with
  | nil => simp [parseKeqvList] at h
  | cons x xs ih =>
    simp only [parseKeqvList] at h
    split at h
    · rename_i x' hx
      simp only [Except.error.injEq] at h
      subst h
      unfold parseKeqv1 at hx
      split at hx
      · simp only [Except.error.injEq] at hx; exact Or.inl hx.symm
      · split at hx
        · simp only [Except.error.injEq] at hx; exact Or.inr hx.symm
        · split at hx <;> simp at hx
    · split at h
      · rename_i x' hx
        simp only [Except.error.injEq] at h
        subst h
        exact ih hx
      · simp at h

/-- the header parser fails only with `ValueError` or `IndexError` — both are answered with 400 -/
theorem parseAuth_error (P : Prims) (h : Str) (e : Exc) (hp : parseAuth P h = .error e) : handled400 e = true := by
  have key : e = .valueError ∨ e = .indexError := by
    unfold parseAuth at hp
    split at hp
    · simp only [Except.error.injEq] at hp; exact Or.inl hp.symm
    · split at hp
      · simp only [Except.error.injEq] at hp; exact Or.inl hp.symm
      · split at hp
        · simp only [Except.error.injEq] at hp; exact Or.inl hp.symm
        · split at hp
          · rename_i x hx
            simp only [Except.error.injEq] at hp
            subst hp
            exact parseKeqvList_error _ _ hx
          · left
            unfold validateFields at hp
            repeat' split at hp
            all_goals simp_all
  rcases key with rfl | rfl <;> rfl

/-- 400 exactly when the scheme is Digest and the header does not parse / fails the constructor's checks -/
theorem digest_400_iff (P : Prims) (cfg : DigestCfg) (method : Str) (now : Int) (hdr : Option Str) :
    digestAuth P cfg method now hdr = .badRequest ↔
      ∃ h e, hdr = some h ∧ digestMatches h = true ∧ parseAuth P h = .error e := by
  constructor
  · intro hg
    cases hdr with
    | none => simp [digestAuth, digestMatches, beforeSpace, pyLower, respond401] at hg
    | some h =>
      simp only [digestAuth, Option.getD_some] at hg
      split at hg
      · simp [respond401] at hg
      · rename_i hm
        split at hg
        · rename_i e he; exact ⟨h, e, rfl, Decidable.not_not.mp hm, he⟩
        · exfalso
          revert hg
          simp only [respond401]
          repeat' split
          all_goals simp
  · rintro ⟨h, e, rfl, hm, he⟩
    simp [digestAuth, hm, he, parseAuth_error P h e he]

/-- no header, or a scheme other than Digest: 401 with a fresh, non-stale challenge -/
theorem digest_other_scheme_401 (P : Prims) (cfg : DigestCfg) (method : Str) (now : Int) :
    digestAuth P cfg method now none = respond401 P cfg now false ∧
    ∀ h, digestMatches h = false → digestAuth P cfg method now (some h) = respond401 P cfg now false := by
  constructor
  · simp [digestAuth, digestMatches, beforeSpace, pyLower]
  · intro h hm
    simp [digestAuth, hm]

/-- **C19_stale.**  The answer is the 401 challenge *with* `stale="true"` exactly when the header parses, its nonce
    is genuine (validates against the server's realm and key), the user is known, the response equals the RFC
    request-digest for the stored HA1 — and the nonce's timestamp has expired (or is not an integer). -/
theorem digest_stale_iff (P : Prims) (cfg : DigestCfg) (method : Str) (now : Int) (hdr : Option Str) :
    digestAuth P cfg method now hdr = respond401 P cfg now true ↔
      ∃ h a ha1, hdr = some h ∧ parseAuth P h = .ok a ∧ a.qop ≠ some (cs! "auth-int") ∧
        validateNonce P (fmtOpt a.nonce) cfg.realm cfg.key = true ∧
        getHa1 P cfg (fmtOpt a.username) = some ha1 ∧
        fmtOpt a.response = rfcDigest P a method ha1 ∧
        isNonceStale (fmtOpt a.nonce) 600 now = true := by
  have hne : respond401 P cfg now false ≠ respond401 P cfg now true := by
    simp only [respond401, ne_eq, Outcome.unauthorized.injEq]
    exact fun h => challenge_stale_ne P cfg now h.symm
  constructor
  · intro hg
    cases hdr with
    | none =>
      rw [(digest_other_scheme_401 P cfg method now).1] at hg
      exact absurd hg hne
    | some h =>
      simp only [digestAuth, Option.getD_some] at hg
      split at hg
      · exact absurd hg hne
      · split at hg
        · split at hg <;> simp [respond401] at hg
        · rename_i a hp
          have v := parseAuth_valid P h a hp
          split at hg
          · exact absurd hg hne
          · rename_i hvn
            split at hg
            · exact absurd hg hne
            · rename_i ha1 hget
              by_cases hq : a.qop = some (cs! "auth-int")
              · rw [requestDigest_authint P a hq] at hg
                simp [respond401] at hg
              · rw [requestDigest_eq_rfc P a v hq] at hg
                simp only at hg
                split at hg
                · exact absurd hg hne
                · rename_i hdig
                  split at hg
                  · rename_i hst
                    exact ⟨h, a, ha1, rfl, hp, hq, Decidable.not_not.mp hvn, hget,
                      (Decidable.not_not.mp hdig).symm, hst⟩
                  · simp [respond401] at hg
  · rintro ⟨h, a, ha1, rfl, hp, hq, hvn, hget, hdig, hst⟩
    have hm : digestMatches h = true := by
      unfold parseAuth at hp
      split at hp
      · simp at hp
      · rename_i hm; exact Decidable.not_not.mp hm
    simp only [digestAuth, Option.getD_some, hm, not_true_eq_false, if_false, hp, hvn, hget,
      requestDigest_eq_rfc P a (parseAuth_valid P h a hp) hq, hdig, ne_eq, hst, if_true]

/-- a forged or foreign nonce (one that does not validate against this server's realm and key) is never
    answered with `stale="true"`, whatever its timestamp says -/
theorem digest_forged_nonce_never_stale (P : Prims) (cfg : DigestCfg) (method : Str) (now : Int) (h : Str) (a : Auth)
    (hp : parseAuth P h = .ok a) (hv : validateNonce P (fmtOpt a.nonce) cfg.realm cfg.key = false) :
    digestAuth P cfg method now (some h) = respond401 P cfg now false := by
  have hm : digestMatches h = true := by
    unfold parseAuth at hp
    split at hp
    · simp at hp
    · rename_i hm; exact Decidable.not_not.mp hm
  simp [digestAuth, hm, hp, hv]

/-- … and so is a wrong digest or an unknown user, even over a genuine expired nonce -/
theorem digest_wrong_response_401 (P : Prims) (cfg : DigestCfg) (method : Str) (now : Int) (h : Str) (a : Auth)
    (hp : parseAuth P h = .ok a) (hq : a.qop ≠ some (cs! "auth-int"))
    (hw : ∀ ha1, getHa1 P cfg (fmtOpt a.username) = some ha1 → fmtOpt a.response ≠ rfcDigest P a method ha1) :
    digestAuth P cfg method now (some h) = respond401 P cfg now false := by
  have hm : digestMatches h = true := by
    unfold parseAuth at hp
    split at hp
    · simp at hp
    · rename_i hm; exact Decidable.not_not.mp hm
  simp only [digestAuth, Option.getD_some, hm, not_true_eq_false, if_false, hp]
  split
  · rfl
  · split
    · rfl
    · rename_i ha1 hget
      rw [requestDigest_eq_rfc P a (parseAuth_valid P h a hp) hq]
      simp only
      rw [if_pos (fun e => hw ha1 hget e.symm)]

/-! ### an RFC 2617 client, from the header text -/

/-- the constructor applied to a wire header that decodes to `Digest f₁, f₂, …` — each field `k="escaped value"`
    (arbitrary value: quotes, backslashes, commas, any code point) or `k=token` — sees exactly those fields -/
theorem parseAuth_serialised (P : Prims) (hw : Str) (fs : List Fld) (hk : ∀ f ∈ fs, f.Good)
    (hm : digestMatches hw = true) (hd : tryDecodeHeader P hw = some (cs! "Digest " ++ serialise fs)) :
    parseAuth P hw = validateFields (fieldsOf (fs.map Fld.pair)) := by
  have hsp : split1 ' ' (cs! "Digest " ++ serialise fs) = some (cs! "Digest", serialise fs) :=
    split1_of_append (cs! "Digest") _ (by decide)
  unfold parseAuth
  simp only [hm, not_true_eq_false, if_false, hd, hsp, parse_serialise fs hk]

/-- **An RFC 2617 client, end to end.**  The client writes its fields in any order as `name="escaped value"`; the
    bytes reach the tool as `hw` and decode (accepted charset, else ISO-8859-1) to that text.  If the fields pass the
    constructor's checks, name user `u`, use qop absent/`auth`, carry a nonce the server synthesises for its realm and
    key with an unexpired timestamp, and the response is the RFC digest for the **stored** HA1 and the request's
    method, the handler runs with `login = u`. -/
theorem digest_rfc2617_client (P : Prims) (cfg : DigestCfg) (method : Str) (now : Int) (hw : Str)
    (fs : List Fld) (u ha1 ts : Str) (t : Int)
    (hk : ∀ f ∈ fs, f.Good) (hm : digestMatches hw = true)
    (hd : tryDecodeHeader P hw = some (cs! "Digest " ++ serialise fs))
    (hv : Valid (fieldsOf (fs.map Fld.pair))) (hu : (fieldsOf (fs.map Fld.pair)).username = some u)
    (hq : (fieldsOf (fs.map Fld.pair)).qop = none ∨ (fieldsOf (fs.map Fld.pair)).qop = some (cs! "auth"))
    (hget : getHa1 P cfg u = some ha1)
    (hnonce : (fieldsOf (fs.map Fld.pair)).nonce = some (synthesizeNonce P cfg.realm cfg.key ts)) (hts : ':' ∉ ts)
    (hint : pyInt ts = some t) (hfresh : t + 600 > now)
    (hresp : (fieldsOf (fs.map Fld.pair)).response = some (rfcDigest P (fieldsOf (fs.map Fld.pair)) method ha1)) :
    digestAuth P cfg method now (some hw) = .grant u :=
  digest_complete P cfg method now hw (fieldsOf (fs.map Fld.pair)) u ha1 ts t
    (by rw [parseAuth_serialised P hw fs hk hm hd]; exact (validateFields_ok_iff _ _).mpr ⟨rfl, hv⟩)
    hu hq hget hnonce hts hint hfresh hresp

/-- … and with any other response (or an unknown user) the same client gets the plain 401 challenge -/
theorem digest_rfc2617_client_wrong (P : Prims) (cfg : DigestCfg) (method : Str) (now : Int) (hw : Str)
    (fs : List Fld) (hk : ∀ f ∈ fs, f.Good) (hm : digestMatches hw = true)
    (hd : tryDecodeHeader P hw = some (cs! "Digest " ++ serialise fs))
    (hv : Valid (fieldsOf (fs.map Fld.pair))) (hq : (fieldsOf (fs.map Fld.pair)).qop ≠ some (cs! "auth-int"))
    (hw' : ∀ ha1, getHa1 P cfg (fmtOpt (fieldsOf (fs.map Fld.pair)).username) = some ha1 →
      fmtOpt (fieldsOf (fs.map Fld.pair)).response ≠ rfcDigest P (fieldsOf (fs.map Fld.pair)) method ha1) :
    digestAuth P cfg method now (some hw) = respond401 P cfg now false :=
  digest_wrong_response_401 P cfg method now hw (fieldsOf (fs.map Fld.pair))
    (by rw [parseAuth_serialised P hw fs hk hm hd]; exact (validateFields_ok_iff _ _).mpr ⟨rfl, hv⟩) hq hw'

/-- non-vacuity: a field list with awkward values survives serialise → parse -/
example : parseKeqvList (parseHttpList (serialise
    [.quoted (cs! "username") (cs! "bo\"b, \\x"), .quoted (cs! "realm") (cs! "a,b=c"), .quoted (cs! "uri") [],
     .token (cs! "qop") (cs! "auth"), .token (cs! "nc") (cs! "00000001")])) =
    .ok [(cs! "username", cs! "bo\"b, \\x"), (cs! "realm", cs! "a,b=c"), (cs! "uri", []), (cs! "qop", cs! "auth"),
      (cs! "nc", cs! "00000001")] := by
  decide +kernel

/-! ### the wire: ISO-8859-1 configuration -/

theorem latin1_roundtrip : ∀ (h : Str), (∀ c ∈ h, c.toNat < 256) → (latin1Encode h).map latin1Decode = some h
  | [], _ => rfl
  | c :: cs, hl => by
    have hc : c.toNat < 256 := hl c (by simp)
    have ih := latin1_roundtrip cs (fun d hd => hl d (List.mem_cons_of_mem _ hd))
    simp only [latin1Encode, hc, if_true]
    cases he : latin1Encode cs with
    | none => simp [he] at ih
    | some b =>
      simp only [he, Option.map_some, Option.some.injEq] at ih
      simp only [Option.map_some, latin1Decode, List.map_cons, Option.some.injEq, List.cons.injEq]
      refine ⟨?_, ih⟩
      have : (UInt8.ofNat c.toNat).toNat = c.toNat := by
        rw [UInt8.toNat_ofNat']
        exact Nat.mod_eq_of_lt hc
      rw [this]
      exact Char.ofNat_toNat c

/-- with `accept_charset` ISO-8859-1 (or any codec that reads these bytes as Latin-1) a header of Latin-1 characters
    reaches the parser unchanged -/
theorem tryDecodeHeader_latin1 (P : Prims) (h : Str) (hl : ∀ c ∈ h, c.toNat < 256)
    (hP : ∀ b, P.decode b = none ∨ P.decode b = some (latin1Decode b)) : tryDecodeHeader P h = some h := by
  have hr := latin1_roundtrip h hl
  unfold tryDecodeHeader tryDecode
  cases he : latin1Encode h with
  | none => simp [he] at hr
  | some b =>
    simp only [he, Option.map_some, Option.some.injEq] at hr
    rcases hP b with h1 | h1 <;> simp [h1, hr]

theorem digestMatches_prefix (x : Str) : digestMatches (cs! "Digest " ++ x) = true := by
  simp [digestMatches, beforeSpace, List.takeWhile, pyLower, lowerChar]

/-- **RFC 2617 client over an ISO-8859-1 wire, no hypothesis left about the header text**: the header is literally
    `Digest ` followed by the serialised fields (all characters ≤ U+00FF). -/
theorem digest_rfc2617_client_latin1 (P : Prims) (cfg : DigestCfg) (method : Str) (now : Int)
    (fs : List Fld) (u ha1 ts : Str) (t : Int)
    (hk : ∀ f ∈ fs, f.Good) (hl : ∀ c ∈ serialise fs, c.toNat < 256)
    (hP : ∀ b, P.decode b = none ∨ P.decode b = some (latin1Decode b))
    (hv : Valid (fieldsOf (fs.map Fld.pair))) (hu : (fieldsOf (fs.map Fld.pair)).username = some u)
    (hq : (fieldsOf (fs.map Fld.pair)).qop = none ∨ (fieldsOf (fs.map Fld.pair)).qop = some (cs! "auth"))
    (hget : getHa1 P cfg u = some ha1)
    (hnonce : (fieldsOf (fs.map Fld.pair)).nonce = some (synthesizeNonce P cfg.realm cfg.key ts)) (hts : ':' ∉ ts)
    (hint : pyInt ts = some t) (hfresh : t + 600 > now)
    (hresp : (fieldsOf (fs.map Fld.pair)).response = some (rfcDigest P (fieldsOf (fs.map Fld.pair)) method ha1)) :
    digestAuth P cfg method now (some (cs! "Digest " ++ serialise fs)) = .grant u := by
  have hl' : ∀ c ∈ cs! "Digest " ++ serialise fs, c.toNat < 256 := by
    intro c hc
    rcases List.mem_append.mp hc with h | h
    · have hall : ∀ d ∈ cs! "Digest ", d.toNat < 256 := by decide
      exact hall c h
    · exact hl c h
  exact digest_rfc2617_client P cfg method now _ fs u ha1 ts t hk (digestMatches_prefix _)
    (tryDecodeHeader_latin1 P _ hl' hP) hv hu hq hget hnonce hts hint hfresh hresp

/-! ### the wire: UTF-8 configuration (the default), concrete codec -/

theorem char_ofNat_toNat_lt (n : Nat) (h : n < 256) : (Char.ofNat n).toNat = n := by
  have hv : n.isValidChar := by left; omega
  simp [Char.ofNat, hv, Char.ofNatAux, Char.toNat]

/-- the WSGI server's Latin-1 view of the header bytes loses nothing -/
theorem latin1_enc_dec : ∀ b : Bytes, latin1Encode (latin1Decode b) = some b
  | [] => rfl
  | x :: xs => by
    have hx : x.toNat < 256 := x.toNat_lt
    have ih := latin1_enc_dec xs
    unfold latin1Decode at ih
    simp only [latin1Decode, List.map_cons, latin1Encode, char_ofNat_toNat_lt _ hx, hx, if_true, ih,
      Option.map_some, UInt8.ofNat_toNat]

theorem utf8Encode_append (a b : Str) :
    CpModel.AuthPrims.utf8Encode (a ++ b) = CpModel.AuthPrims.utf8Encode a ++ CpModel.AuthPrims.utf8Encode b := by
  unfold CpModel.AuthPrims.utf8Encode
  simp [String.toUTF8, List.utf8Encode]

/-- a client that writes the header text in UTF-8: the tool reads back exactly that text -/
theorem tryDecodeHeader_utf8 (H : Str → Str) (b64 : Str → Option Bytes) (nfc : Str → Str) (text : Str) :
    tryDecodeHeader ⟨H, b64, CpModel.AuthPrims.utf8Decode, nfc⟩
      (latin1Decode (CpModel.AuthPrims.utf8Encode text)) = some text := by
  unfold tryDecodeHeader tryDecode
  simp only [latin1_enc_dec, utf8_roundtrip]

theorem digestMatches_utf8_wire (rest : Str) :
    digestMatches (latin1Decode (CpModel.AuthPrims.utf8Encode (cs! "Digest " ++ rest))) = true := by
  have h1 : CpModel.AuthPrims.utf8Encode (cs! "Digest ") = [68, 105, 103, 101, 115, 116, 32] := by decide +kernel
  have h2 : latin1Decode ([68, 105, 103, 101, 115, 116, 32] ++ CpModel.AuthPrims.utf8Encode rest) =
      cs! "Digest " ++ latin1Decode (CpModel.AuthPrims.utf8Encode rest) := by
    simp only [latin1Decode, List.map_append]
    rfl
  rw [utf8Encode_append, h1, h2]
  exact digestMatches_prefix _

/-- **RFC 2617 client over the default UTF-8 wire, concrete codec, no hypothesis left about the header**: the bytes
    are the UTF-8 encoding of `Digest ` followed by the serialised fields (any code points), seen by the tool through
    the WSGI server's Latin-1 decoding.  `H`, base64 and NFC stay arbitrary. -/
theorem digest_rfc2617_client_utf8 (H : Str → Str) (b64 : Str → Option Bytes) (nfc : Str → Str)
    (cfg : DigestCfg) (method : Str) (now : Int) (fs : List Fld) (u ha1 ts : Str) (t : Int)
    (hk : ∀ f ∈ fs, f.Good)
    (hv : Valid (fieldsOf (fs.map Fld.pair))) (hu : (fieldsOf (fs.map Fld.pair)).username = some u)
    (hq : (fieldsOf (fs.map Fld.pair)).qop = none ∨ (fieldsOf (fs.map Fld.pair)).qop = some (cs! "auth"))
    (hget : getHa1 ⟨H, b64, CpModel.AuthPrims.utf8Decode, nfc⟩ cfg u = some ha1)
    (hnonce : (fieldsOf (fs.map Fld.pair)).nonce =
      some (synthesizeNonce ⟨H, b64, CpModel.AuthPrims.utf8Decode, nfc⟩ cfg.realm cfg.key ts))
    (hts : ':' ∉ ts) (hint : pyInt ts = some t) (hfresh : t + 600 > now)
    (hresp : (fieldsOf (fs.map Fld.pair)).response =
      some (rfcDigest ⟨H, b64, CpModel.AuthPrims.utf8Decode, nfc⟩ (fieldsOf (fs.map Fld.pair)) method ha1)) :
    digestAuth ⟨H, b64, CpModel.AuthPrims.utf8Decode, nfc⟩ cfg method now
      (some (latin1Decode (CpModel.AuthPrims.utf8Encode (cs! "Digest " ++ serialise fs)))) = .grant u :=
  digest_rfc2617_client _ cfg method now _ fs u ha1 ts t hk (digestMatches_utf8_wire _)
    (tryDecodeHeader_utf8 H b64 nfc _) hv hu hq hget hnonce hts hint hfresh hresp

/-! ### 5xx -/

/-- an exception escapes `digest_auth` exactly in the F21 situation: `qop=auth-int` on a header that parses, with a
    genuine nonce and a known user — and then it is the `TypeError` of hashing the `RequestBody` object -/
theorem digest_error_iff (P : Prims) (cfg : DigestCfg) (method : Str) (now : Int) (hdr : Option Str) (e : Exc) :
    digestAuth P cfg method now hdr = .error e ↔
      e = .typeError ∧ ∃ h a ha1, hdr = some h ∧ parseAuth P h = .ok a ∧ a.qop = some (cs! "auth-int") ∧
        validateNonce P (fmtOpt a.nonce) cfg.realm cfg.key = true ∧
        getHa1 P cfg (fmtOpt a.username) = some ha1 := by
  constructor
  · intro hg
    cases hdr with
    | none => simp [digestAuth, digestMatches, beforeSpace, pyLower, respond401] at hg
    | some h =>
      simp only [digestAuth, Option.getD_some] at hg
      split at hg
      · simp [respond401] at hg
      · split at hg
        · rename_i x hx
          rw [if_pos (parseAuth_error P h x hx)] at hg
          simp at hg
        · rename_i a hp
          have v := parseAuth_valid P h a hp
          split at hg
          · simp [respond401] at hg
          · rename_i hvn
            split at hg
            · simp [respond401] at hg
            · rename_i ha1 hget
              by_cases hq : a.qop = some (cs! "auth-int")
              · rw [requestDigest_authint P a hq] at hg
                simp only [Outcome.error.injEq] at hg
                exact ⟨hg.symm, h, a, ha1, rfl, hp, hq, Decidable.not_not.mp hvn, hget⟩
              · rw [requestDigest_eq_rfc P a v hq] at hg
                simp only at hg
                repeat' split at hg
                all_goals simp [respond401] at hg
  · rintro ⟨rfl, h, a, ha1, rfl, hp, hq, hvn, hget⟩
    have hm : digestMatches h = true := by
      unfold parseAuth at hp
      split at hp
      · simp at hp
      · rename_i hm; exact Decidable.not_not.mp hm
    simp [digestAuth, hm, hp, hvn, hget, requestDigest_authint P a hq]

/-- the statement "never 5xx" at full strength … -/
def digest_never_5xx_full : Prop :=
  ∀ (P : Prims) (cfg : DigestCfg) (method : Str) (now : Int) (hdr : Option Str) (e : Exc),
    digestAuth P cfg method now hdr ≠ .error e

/-- the F21 witness: identity "hash", realm `R`, key `K`, user `u`; nonce `1:1:R:K` is genuine for that hash -/
def f21P : Prims := ⟨id, fun _ => none, fun _ => none, id⟩
def f21Cfg : DigestCfg := ⟨cs! "R", cs! "K", .plain [(cs! "u", cs! "p")], cs! "utf-8"⟩
def f21Hdr : Str :=
  cs! "Digest username=\"u\", realm=\"R\", nonce=\"1:1:R:K\", uri=\"/\", response=\"x\", qop=auth-int, nc=1, cnonce=\"c\""

/-- … is false on the unchanged tree (F21): `qop=auth-int` → `TypeError` → 500 -/
theorem digest_never_5xx_full_false : ¬ digest_never_5xx_full := by
  intro h
  exact h f21P f21Cfg (cs! "POST") 5 (some f21Hdr) .typeError (by decide +kernel)

/-- … and true for every header whose qop is not auth-int -/
theorem digest_never_5xx_partial (P : Prims) (cfg : DigestCfg) (method : Str) (now : Int) (hdr : Option Str)
    (hq : ∀ h a, hdr = some h → parseAuth P h = .ok a → a.qop ≠ some (cs! "auth-int")) (e : Exc) :
    digestAuth P cfg method now hdr ≠ .error e := by
  intro hg
  obtain ⟨_, h, a, _, rfl, hp, hqa, _, _⟩ := (digest_error_iff P cfg method now hdr e).mp hg
  exact hq h a rfl hp hqa

/-- completeness at full strength: *every* qop of RFC 2617, auth-int included -/
def digest_complete_full : Prop :=
  ∀ (P : Prims) (cfg : DigestCfg) (method : Str) (now : Int) (h : Str) (a : Auth) (u ha1 ts : Str) (t : Int),
    parseAuth P h = .ok a → a.username = some u → getHa1 P cfg u = some ha1 →
    a.nonce = some (synthesizeNonce P cfg.realm cfg.key ts) → ':' ∉ ts → pyInt ts = some t → t + 600 > now →
    ∃ login, digestAuth P cfg method now (some h) = .grant login ∨
      (∀ ha1, getHa1 P cfg u = some ha1 → a.response ≠ some (rfcDigest P a method ha1)) ∧
        digestAuth P cfg method now (some h) = respond401 P cfg now false

/-- false on the unchanged tree: for auth-int neither happens, the request dies with `TypeError` (F21) -/
theorem digest_complete_full_false : ¬ digest_complete_full := by
  intro h
  obtain ⟨login, hl⟩ := h f21P f21Cfg (cs! "POST") 5 f21Hdr
    { realm := some (cs! "R"), username := some (cs! "u"), nonce := some (cs! "1:1:R:K"), uri := some (cs! "/"),
      response := some (cs! "x"), algorithm := cs! "MD5", cnonce := some (cs! "c"), qop := some (cs! "auth-int"),
      nc := some (cs! "1") }
    (cs! "u") (cs! "u:R:p") (cs! "1") 1 (by decide +kernel) rfl (by decide +kernel) (by decide +kernel) (by decide +kernel) (by decide +kernel) (by decide +kernel)
  have he : digestAuth f21P f21Cfg (cs! "POST") 5 (some f21Hdr) = .error .typeError := by decide +kernel
  rw [he] at hl
  rcases hl with hl | ⟨_, hl⟩
  · simp at hl
  · simp [respond401] at hl

/-! ### the repaired behaviours, as theorems about the model -/

/-- `algorithm=MD5-sess` (any case) is recognised, and selects the session variant of H(A1) -/
theorem md5_sess_recognised :
    (validAlgorithms.map pyUpper).contains (pyUpper (cs! "MD5-sess")) = true ∧
    (validAlgorithms.map pyUpper).contains (pyUpper (cs! "md5")) = true ∧
    pyUpper (cs! "MD5-sess") = cs! "MD5-SESS" := by decide +kernel

/-- after the constructor's checks `HA2` can no longer hit its `Unrecognized value for qop!` branch
    (an empty `qop=""` is rejected with 400 up front) -/
theorem ha2_no_valueError (P : Prims) (a : Auth) (v : Valid a) (method : Str) : ha2 P a method ≠ .error .valueError := by
  unfold ha2
  rcases v.qop with ⟨h, _, _⟩ | ⟨h | h, _, _⟩ <;> simp [h]

set_option maxRecDepth 4000 in
/-- a header with `qop=""` is answered with 400 -/
example : digestAuth f21P f21Cfg (cs! "GET") 5
    (some (cs! "Digest username=\"u\", realm=\"R\", nonce=\"1:1:R:K\", uri=\"/\", response=\"x\", qop=\"\"")) = .badRequest := by
  decide

/-- a parameter with an empty unquoted value (`IndexError` in `parse_keqv_list`) is answered with 400 -/
example : digestAuth f21P f21Cfg (cs! "GET") 5 (some (cs! "Digest a=")) = .badRequest := by decide +kernel

/-! ### non-vacuity: a header that meets every hypothesis of `digest_complete` / `Accepts` -/

def okHdr : Str :=
  cs! "Digest username=\"u\", realm=\"R\", nonce=\"1:1:R:K\", uri=\"/\", response=\"u:R:p:1:1:R:K:1:c:auth:GET:/\", qop=auth, nc=1, cnonce=\"c\""

example : digestAuth f21P f21Cfg (cs! "GET") 5 (some okHdr) = .grant (cs! "u") := by decide +kernel
/-- the same header 600 s later: stale -/
example : digestAuth f21P f21Cfg (cs! "GET") 601 (some okHdr) = respond401 f21P f21Cfg 601 true := by decide +kernel
/-- the same header sent with another method: plain 401 -/
example : digestAuth f21P f21Cfg (cs! "POST") 5 (some okHdr) = respond401 f21P f21Cfg 5 false := by decide +kernel

/-! ### non-vacuity of the client theorems: a concrete field list meeting every hypothesis -/

def okFs : List Fld :=
  [.quoted (cs! "username") (cs! "u"), .quoted (cs! "realm") (cs! "R"), .quoted (cs! "nonce") (cs! "1:1:R:K"),
   .quoted (cs! "uri") (cs! "/"), .quoted (cs! "response") (cs! "u:R:p:1:1:R:K:1:c:auth:GET:/"),
   .token (cs! "qop") (cs! "auth"), .token (cs! "nc") (cs! "1"), .quoted (cs! "cnonce") (cs! "c")]

theorem goodKey_of (k : Str) (h1 : k ≠ []) (h2 : ∀ c ∈ k, c ≠ ',' ∧ c ≠ '"' ∧ c ≠ '=' ∧ isSpace c = false) :
    GoodKey k := ⟨h1, h2⟩

theorem okFs_good : ∀ f ∈ okFs, f.Good := by
  intro f hf
  simp only [okFs, List.mem_cons, List.not_mem_nil, or_false] at hf
  rcases hf with rfl | rfl | rfl | rfl | rfl | rfl | rfl | rfl
  · exact goodKey_of _ (by decide) (by decide)
  · exact goodKey_of _ (by decide) (by decide)
  · exact goodKey_of _ (by decide) (by decide)
  · exact goodKey_of _ (by decide) (by decide)
  · exact goodKey_of _ (by decide) (by decide)
  · exact ⟨goodKey_of _ (by decide) (by decide), ⟨by decide, by decide⟩⟩
  · exact ⟨goodKey_of _ (by decide) (by decide), ⟨by decide, by decide⟩⟩
  · exact goodKey_of _ (by decide) (by decide)

theorem okFs_valid : Valid (fieldsOf (okFs.map Fld.pair)) :=
  ⟨Or.inl (by decide), by decide, by decide, by decide, by decide, by decide,
    Or.inr ⟨Or.inl (by decide), by decide, by decide⟩⟩

/-- every hypothesis of `digest_rfc2617_client_latin1` is met by `okFs` (identity hash, plain store `u ↦ p`) -/
example : digestAuth f21P f21Cfg (cs! "GET") 5 (some (cs! "Digest " ++ serialise okFs)) = .grant (cs! "u") :=
  digest_rfc2617_client_latin1 f21P f21Cfg (cs! "GET") 5 okFs (cs! "u") (cs! "u:R:p") (cs! "1") 1
    okFs_good (by decide +kernel) (fun _ => Or.inl rfl) okFs_valid (by decide) (Or.inr (by decide)) (by decide)
    (by decide) (by decide) (by decide) (by decide) (by decide +kernel)

/-- … and `Accepts` is inhabited -/
example : ∃ a, Accepts f21P f21Cfg (cs! "GET") 5 okHdr a (cs! "u") := by
  obtain ⟨h, a, he, acc⟩ := (digest_grant_iff f21P f21Cfg (cs! "GET") 5 (some okHdr) (cs! "u")).mp (by decide +kernel)
  cases he
  exact ⟨a, acc⟩

/-- hypotheses of `basic_rfc7617_client_utf8`: user `rené`, password `p:w`, identity NFC -/
example : basicAuth ⟨id, CpModel.AuthPrims.b64decode, CpModel.AuthPrims.utf8Decode, id⟩
    ⟨cs! "R", [(cs! "rené", cs! "p:w")], cs! "utf-8"⟩
    (some (cs! "Basic " ++ CpModel.AuthPrims.b64encode (CpModel.AuthPrims.utf8Encode (cs! "rené" ++ ':' :: cs! "p:w")))) =
    .grant (cs! "rené") := by
  rw [basic_rfc7617_client_utf8 id id _ (by decide) (cs! "rené") (cs! "p:w") (by decide) rfl]
  decide

/-! ### tool registration (generated from the live `cherrypy.tools`) -/

/-- both tools are hooked at `before_handler` (any priority there runs before the page handler; the priority itself,
    1 in the unchanged tree, is recorded in the generated table but is not needed by the property) and call the
    anchored functions -/
theorem tools_hooked :
    toolBasic.1 = cs! "before_handler" ∧ toolDigest.1 = cs! "before_handler" ∧ toolCallables = (true, true) := by
  decide

end CpProofs.C19
