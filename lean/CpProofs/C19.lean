import CpModel.Auth
import CpModel.AuthPrims
namespace CpProofs.C19
open CpModel.Auth
end CpProofs.C19
