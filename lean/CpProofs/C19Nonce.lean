import CpProofs.C19
import CpProofs.C19Wire
/-!
  C19 — "a nonce this server issued … and that has not expired", closed up.

  `digest_complete` takes the nonce's timestamp text `ts` with `pyInt ts = some t` as a hypothesis.  For the nonces
  the server actually hands out, `ts` is `'%s' % int(time.time())`; here `int()` (as transcribed: strip, sign,
  digits/underscores, digit limit) is shown to read that text back, so:

  * `pyInt_showInt` — `int('%s' % n) = n` for every integer whose decimal text is within
    `sys.get_int_max_str_digits()`;
  * `issued_nonce_valid_fresh` — the nonce of the challenge issued at second `t` validates for this realm and key and
    is not stale at any `now < t + 600` (and is stale from `t + 600` on);
  * `digest_complete_issued` — an RFC 2617 client answering **that challenge** within the ten minutes is admitted
    (no hypothesis left about the timestamp text).
-/
namespace CpProofs.C19
open CpModel.Auth CpModel.AuthPrims CpModel.Gen.C19

/-! ### digits -/

theorem digit_toNat (c : Char) (h : c.isDigit = true) : 48 ≤ c.toNat ∧ c.toNat ≤ 57 := by
  simp only [Char.isDigit, Bool.and_eq_true, decide_eq_true_eq] at h
  have h1 : ('0' : Char).val.toNat ≤ c.val.toNat := UInt32.le_iff_toNat_le.mp h.1
  have h2 : c.val.toNat ≤ ('9' : Char).val.toNat := UInt32.le_iff_toNat_le.mp h.2
  exact ⟨h1, h2⟩

theorem digit_le (c : Char) (h : c.isDigit = true) : '0' ≤ c ∧ c ≤ '9' := by
  simp only [Char.isDigit, Bool.and_eq_true, decide_eq_true_eq] at h
  exact ⟨Char.le_def.mpr h.1, Char.le_def.mpr h.2⟩

theorem digitVal_digit (c : Char) (h : c.isDigit = true) : digitVal? c = some (c.toNat - 48) := by
  unfold digitVal?
  rw [if_pos (digit_le c h)]

theorem space_table_digits : ∀ k : Fin 10, pySpace.contains (48 + k.val) = false := by decide

theorem digit_not_space (c : Char) (h : c.isDigit = true) : isSpace c = false := by
  obtain ⟨h1, h2⟩ := digit_toNat c h
  have := space_table_digits ⟨c.toNat - 48, by omega⟩
  simp only at this
  unfold isSpace
  rw [← this]
  congr 1
  omega

theorem digit_ne (c : Char) (h : c.isDigit = true) : c ≠ '_' ∧ c ≠ '-' ∧ c ≠ '+' ∧ c ≠ ':' := by
  refine ⟨?_, ?_, ?_, ?_⟩ <;> (rintro rfl; exact absurd h (by decide))

/-- `parseDigits` on a run of ASCII digits is the positional value -/
theorem parseDigits_digits : ∀ (cs : Str) (acc n : Nat), (∀ c ∈ cs, c.isDigit = true) →
    parseDigits cs acc n true = some (Nat.ofDigitChars 10 cs acc, n + cs.length)
  | [], acc, n, _ => by simp [parseDigits]
  | c :: cs, acc, n, h => by
    have hc := h c (by simp)
    have ih := parseDigits_digits cs (acc * 10 + (c.toNat - 48)) (n + 1)
      (fun d hd => h d (List.mem_cons_of_mem _ hd))
    simp only [parseDigits, (digit_ne c hc).1, if_false, digitVal_digit c hc, ih, Nat.ofDigitChars_cons,
      List.length_cons]
    have e1 : 10 * acc + (c.toNat - '0'.toNat) = acc * 10 + (c.toNat - 48) := by
      have : ('0' : Char).toNat = 48 := rfl
      rw [this, Nat.mul_comm]
    rw [e1]
    congr 2
    omega

theorem parseDigits_digits_start (c : Char) (cs : Str) (h : ∀ d ∈ c :: cs, d.isDigit = true) :
    parseDigits (c :: cs) 0 0 false = some (Nat.ofDigitChars 10 (c :: cs) 0, (c :: cs).length) := by
  have hc := h c (by simp)
  have ih := parseDigits_digits cs (0 * 10 + (c.toNat - 48)) (0 + 1) (fun d hd => h d (List.mem_cons_of_mem _ hd))
  simp only [parseDigits, (digit_ne c hc).1, if_false, digitVal_digit c hc, ih, Nat.ofDigitChars_cons,
    List.length_cons]
  have : ('0' : Char).toNat = 48 := rfl
  rw [this]
  simp only [Nat.zero_mul, Nat.mul_zero, Nat.zero_add]
  congr 2
  omega

theorem toDigits_isDigit (m : Nat) : ∀ c ∈ Nat.toDigits 10 m, c.isDigit = true :=
  fun _ hc => Nat.isDigit_of_mem_toDigits (by decide) (by decide) hc

/-- `strip()` leaves a digit run alone -/
theorem strip_digits (s : Str) (hne : s ≠ []) (h : ∀ c ∈ s, c.isDigit = true) : pyStrip s = s := by
  cases hs : s with
  | nil => exact absurd hs hne
  | cons c cs =>
    have hrne : s.reverse ≠ [] := by simpa using hne
    cases hr : s.reverse with
    | nil => exact absurd hr hrne
    | cons d rs =>
      have hd : d ∈ s := by
        have : d ∈ s.reverse := by rw [hr]; simp
        simpa using this
      rw [← hs]
      exact strip_id s c cs d rs hs (digit_not_space c (h c (by rw [hs]; simp))) hr (digit_not_space d (h d hd))

theorem splitSign_digit (c : Char) (cs : Str) (h : c.isDigit = true) : splitSign (c :: cs) = (false, c :: cs) := by
  unfold splitSign
  split
  · rename_i r heq
    simp only [List.cons.injEq] at heq
    exact absurd heq.1 (digit_ne c h).2.1
  · rename_i r heq
    simp only [List.cons.injEq] at heq
    exact absurd heq.1 (digit_ne c h).2.2.1
  · rfl

theorem pyInt_nat (m : Nat) (hlen : (Nat.toDigits 10 m).length ≤ maxStrDigits) :
    pyInt (Nat.toDigits 10 m) = some (m : Int) := by
  have hd := toDigits_isDigit m
  have hne : Nat.toDigits 10 m ≠ [] := Nat.toDigits_ne_nil
  unfold pyInt
  rw [strip_digits _ hne hd]
  cases hs : Nat.toDigits 10 m with
  | nil => exact absurd hs hne
  | cons c cs =>
    have hc : c.isDigit = true := hd c (by rw [hs]; simp)
    have hall : ∀ d ∈ c :: cs, d.isDigit = true := by rw [← hs]; exact hd
    have hval : Nat.ofDigitChars 10 (c :: cs) 0 = m := by rw [← hs]; exact Nat.ofDigitChars_ten_toDigits
    have hl : (c :: cs).length ≤ maxStrDigits := by rw [← hs]; exact hlen
    simp only [splitSign_digit c cs hc, parseDigits_digits_start c cs hall, hval]
    rw [if_neg (by omega)]
    simp

theorem pyInt_neg (m : Nat) (hlen : (Nat.toDigits 10 m).length ≤ maxStrDigits) :
    pyInt ('-' :: Nat.toDigits 10 m) = some (-(m : Int)) := by
  have hd := toDigits_isDigit m
  have hne : Nat.toDigits 10 m ≠ [] := Nat.toDigits_ne_nil
  have hstrip : pyStrip ('-' :: Nat.toDigits 10 m) = '-' :: Nat.toDigits 10 m := by
    have hrne : (Nat.toDigits 10 m).reverse ≠ [] := by simp [hne]
    cases hr : (Nat.toDigits 10 m).reverse with
    | nil => exact absurd hr hrne
    | cons d rs =>
      have hdm : d ∈ Nat.toDigits 10 m := by
        have : d ∈ (Nat.toDigits 10 m).reverse := by rw [hr]; simp
        simpa using this
      exact strip_id _ '-' _ d (rs ++ ['-']) rfl (by decide) (by simp [hr]) (digit_not_space d (hd d hdm))
  unfold pyInt
  rw [hstrip]
  have hsp : splitSign ('-' :: Nat.toDigits 10 m) = (true, Nat.toDigits 10 m) := rfl
  rw [hsp]
  cases hs : Nat.toDigits 10 m with
  | nil => exact absurd hs hne
  | cons c cs =>
    have hall : ∀ d ∈ c :: cs, d.isDigit = true := by rw [← hs]; exact hd
    have hval : Nat.ofDigitChars 10 (c :: cs) 0 = m := by rw [← hs]; exact Nat.ofDigitChars_ten_toDigits
    have hl : (c :: cs).length ≤ maxStrDigits := by rw [← hs]; exact hlen
    simp only [parseDigits_digits_start c cs hall, hval]
    rw [if_neg (by omega)]
    simp

theorem showInt_ofNat (m : Nat) : showInt (Int.ofNat m) = Nat.toDigits 10 m := by
  unfold showInt
  have : toString (Int.ofNat m) = Nat.repr m := rfl
  rw [this, Nat.toList_repr]

theorem showInt_negSucc (m : Nat) : showInt (Int.negSucc m) = '-' :: Nat.toDigits 10 (m + 1) := by
  unfold showInt
  have : toString (Int.negSucc m) = "-" ++ Nat.repr (m + 1) := rfl
  rw [this, String.toList_append, Nat.toList_repr]
  rfl

/-- **`int('%s' % n) = n`**: the transcribed `int()` reads back the text Python writes for an integer (within the
    digit limit `sys.get_int_max_str_digits()`, i.e. for every timestamp below 10^4300) -/
theorem pyInt_showInt (n : Int) (hlen : (showInt n).length ≤ maxStrDigits) : pyInt (showInt n) = some n := by
  cases n with
  | ofNat m =>
    rw [showInt_ofNat] at hlen ⊢
    exact pyInt_nat m hlen
  | negSucc m =>
    rw [showInt_negSucc] at hlen ⊢
    rw [pyInt_neg (m + 1) (by simp only [List.length_cons] at hlen; omega)]
    rfl

theorem showInt_no_colon (n : Int) : ':' ∉ showInt n := by
  intro h
  cases n with
  | ofNat m =>
    rw [showInt_ofNat] at h
    exact (digit_ne ':' (toDigits_isDigit m ':' h)).2.2.2 rfl
  | negSucc m =>
    rw [showInt_negSucc] at h
    rcases List.mem_cons.mp h with h | h
    · exact absurd h (by decide)
    · exact (digit_ne ':' (toDigits_isDigit _ ':' h)).2.2.2 rfl

/-! ### the nonce of a challenge -/

/-- The nonce the server puts into the challenge it issues at second `t` validates against its realm and key, is
    fresh at every `now` with `now < t + 600` and stale from `t + 600` on. -/
theorem issued_nonce_valid_fresh (P : Prims) (cfg : DigestCfg) (t now : Int)
    (hlen : (showInt t).length ≤ maxStrDigits) :
    validateNonce P (synthesizeNonce P cfg.realm cfg.key (showInt t)) cfg.realm cfg.key = true ∧
    (isNonceStale (synthesizeNonce P cfg.realm cfg.key (showInt t)) 600 now = false ↔ now < t + 600) := by
  have hc := showInt_no_colon t
  refine ⟨(validateNonce_iff P _ _ _).mpr ⟨showInt t, hc, rfl⟩, ?_⟩
  rw [isNonceStale_false_iff]
  constructor
  · rintro ⟨ts, rest, t', h1, h2, h3⟩
    rw [synthesizeNonce_split P _ _ _ hc] at h1
    simp only [Option.some.injEq, Prod.mk.injEq] at h1
    rw [← h1.1, pyInt_showInt t hlen] at h2
    simp only [Option.some.injEq] at h2
    subst h2
    simpa using h3
  · intro h
    exact ⟨showInt t, _, t, synthesizeNonce_split P _ _ _ hc, pyInt_showInt t hlen, by simpa using h⟩

/-- **Answering the server's own challenge.**  A header that parses, names a user of the store, uses qop absent or
    `auth`, carries the nonce of the challenge this server issued at second `t` and the RFC 2617 response for the stored
    HA1 is admitted at every second `now < t + 600`; from `t + 600` on it gets the challenge with `stale="true"`. -/
theorem digest_complete_issued (P : Prims) (cfg : DigestCfg) (method : Str) (t now : Int) (h : Str) (a : Auth)
    (u ha1 : Str) (hlen : (showInt t).length ≤ maxStrDigits)
    (hp : parseAuth P h = .ok a) (hu : a.username = some u)
    (hq : a.qop = none ∨ a.qop = some (cs! "auth"))
    (hget : getHa1 P cfg u = some ha1)
    (hnonce : a.nonce = some (synthesizeNonce P cfg.realm cfg.key (showInt t)))
    (hresp : a.response = some (rfcDigest P a method ha1)) :
    (now < t + 600 → digestAuth P cfg method now (some h) = .grant u) ∧
    (t + 600 ≤ now → digestAuth P cfg method now (some h) = respond401 P cfg now true) := by
  constructor
  · intro hf
    exact digest_complete P cfg method now h a u ha1 (showInt t) t hp hu hq hget hnonce (showInt_no_colon t)
      (pyInt_showInt t hlen) (by omega) hresp
  · intro hs
    have hv := (issued_nonce_valid_fresh P cfg t now hlen)
    have hqa : a.qop ≠ some (cs! "auth-int") := by
      rcases hq with h1 | h1 <;> rw [h1] <;> decide
    have hfn : fmtOpt a.nonce = synthesizeNonce P cfg.realm cfg.key (showInt t) := by rw [hnonce]; rfl
    have hst : isNonceStale (synthesizeNonce P cfg.realm cfg.key (showInt t)) 600 now = true := by
      cases hb : isNonceStale (synthesizeNonce P cfg.realm cfg.key (showInt t)) 600 now with
      | true => rfl
      | false => exact absurd (hv.2.mp hb) (by omega)
    exact (digest_stale_iff P cfg method now (some h)).mpr
      ⟨h, a, ha1, rfl, hp, hqa, by rw [hfn]; exact hv.1, by rw [hu]; exact hget, by rw [hresp]; rfl,
        by rw [hfn]; exact hst⟩

/-- non-vacuity: the digit limit holds for every timestamp a clock can show -/
example : (showInt 1700000000).length ≤ maxStrDigits := by decide
example : pyInt (showInt (-42)) = some (-42) := pyInt_showInt _ (by decide)

end CpProofs.C19
