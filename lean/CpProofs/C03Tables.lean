import CpModel.UrlEnc
import CpModel.UrlEncReq
import CpModel.Gen.C03Tables
/-!
  C03: the finite facts regenerated from the live cherrypy modules on every run
  (`harness/c03.py: tables`) against the hand-written model.  A source edit that changes one of
  them changes `CpModel/Gen/C03Tables.lean` and breaks a proof here.
-/
namespace CpProofs.C03
open CpModel.UrlEnc CpModel.Gen.C03

/-- `imageMap?` is the hand translation of exactly this regular expression (used with `fullmatch`). -/
theorem tables_imagemap_pattern :
    imageMapPattern = "[0-9]{1,18},[0-9]{1,18}" ∧ maxCoordDigits = 18 := ⟨rfl, rfl⟩

/-- Defaults the model builds in: `attempt_charsets = ['utf-8']`, query strings are UTF-8, bodies are
    processed for POST / PUT / PATCH. -/
theorem tables_defaults :
    defaultAttemptCharsets = ["utf-8"] ∧ attemptCharsets none none = [Charset.utf8] ∧
    queryStringEncoding = "utf8" ∧ methodsWithBodies = ["POST", "PUT", "PATCH"] := ⟨rfl, rfl, rfl, rfl⟩

def procName : Proc → String
  | .urlencoded => "process_urlencoded"
  | .formData => "process_multipart_form_data"
  | .oldMultipart => "_old_process_multipart"
  | .partsOnly => "process_multipart"
  | .unread => "default_proc"

/-- The processor table the model selects from is the one a live `RequestBody` carries; a multipart part
    tries US-ASCII then UTF-8; without a Content-Type header the media type is `''`. -/
theorem tables_processors :
    (defaultProcessors.map fun kp => (String.ofList kp.1, procName kp.2)) = requestBodyProcessors ∧
    partAttemptCharsets = ["us-ascii", "utf-8"] ∧ partAttempts none = [Charset.ascii, Charset.utf8] ∧
    defaultContentType = "" := by decide

/-- The model's bytes `unquote_plus` agrees with the real one on every `%X`. -/
theorem tables_body_pct1 :
    (List.range 256).map (fun b => (unquotePlusBytes [0x25, UInt8.ofNat b]).map UInt8.toNat) = bodyPct1 := by
  decide +kernel

/-- … and on every `%XY` with hex digits of either case (the well-formed escapes). -/
theorem tables_body_pct_hex :
    bodyPctHex.all (fun e =>
      (unquotePlusBytes [0x25, UInt8.ofNat e.1, UInt8.ofNat e.2.1]).map UInt8.toNat == e.2.2) = true := by
  decide +kernel

end CpProofs.C03
