import CpProofs.C03Split
/-!
  C03: UTF-16 as a form-body charset with a round-trip law (`utf-16-le`, and `utf-16` as CPython
  writes it: byte-order mark `FF FE` followed by little-endian units), so that `C03_body_roundtrip`
  covers it.  UTF-16 is not ASCII-compatible, hence no query-string instance.
-/
namespace CpProofs.C03
open CpModel.UrlEnc

/-- The UTF-16 code units of one character. -/
def utf16Char (c : Char) : List Nat :=
  if c.toNat < 0x10000 then [c.toNat]
  else [0xD800 + (c.toNat - 0x10000) / 1024, 0xDC00 + (c.toNat - 0x10000) % 1024]

def unitsLE (us : List Nat) : Bytes := us.flatMap fun u => [UInt8.ofNat (u % 256), UInt8.ofNat (u / 256)]

/-- `str.encode('utf-16-le')` -/
def utf16leEnc (s : Text) : Bytes := unitsLE (s.flatMap utf16Char)

/-- `str.encode('utf-16')` on a little-endian host: BOM + little-endian units. -/
def utf16Enc (s : Text) : Bytes := 0xFF :: 0xFE :: utf16leEnc s

theorem char_range (c : Char) : c.toNat < 0xD800 ∨ (0xDFFF < c.toNat ∧ c.toNat < 0x110000) := by
  have := c.valid
  simp only [UInt32.isValidChar, Nat.isValidChar] at this
  have e : c.toNat = c.val.toNat := rfl
  omega

theorem codeUnits_unitsLE (us : List Nat) (h : ∀ u ∈ us, u < 65536) :
    codeUnits false (unitsLE us) = some us := by
  induction us with
  | nil => rfl
  | cons u us ih =>
    have hu := h u (by simp)
    have ih := ih (fun v hv => h v (by simp [hv]))
    simp only [unitsLE, List.flatMap_cons, List.cons_append, List.nil_append] at ih ⊢
    simp only [codeUnits, ih, Option.map_some, Bool.false_eq_true, if_false, UInt8.toNat_ofNat']
    congr 2
    omega

theorem decodeUnits_cons_plain (u : Nat) (l : List Nat) (h1 : isHiSurr u = false) (h2 : isLoSurr u = false) :
    decodeUnits (u :: l) = (decodeUnits l).map (Char.ofNat u :: ·) := by
  cases l with
  | nil => simp [decodeUnits, h1, h2]
  | cons w rest => simp [decodeUnits, h1, h2]

theorem decodeUnits_chars (s : Text) : decodeUnits (s.flatMap utf16Char) = some s := by
  induction s with
  | nil => rfl
  | cons c s ih =>
    have hr := char_range c
    have hc := Char.ofNat_toNat c
    simp only [List.flatMap_cons]
    by_cases h : c.toNat < 0x10000
    · have hu : utf16Char c = [c.toNat] := by simp [utf16Char, h]
      rw [hu]
      simp only [List.cons_append, List.nil_append]
      have h1 : isHiSurr c.toNat = false := by simp [isHiSurr]; omega
      have h2 : isLoSurr c.toNat = false := by simp [isLoSurr]; omega
      rw [decodeUnits_cons_plain _ _ h1 h2, ih]
      simp [hc]
    · have hu : utf16Char c = [0xD800 + (c.toNat - 0x10000) / 1024, 0xDC00 + (c.toNat - 0x10000) % 1024] := by
        simp [utf16Char, h]
      rw [hu]
      simp only [List.cons_append, List.nil_append]
      have h1 : isHiSurr (0xD800 + (c.toNat - 0x10000) / 1024) = true := by simp [isHiSurr]; omega
      have h2 : isLoSurr (0xDC00 + (c.toNat - 0x10000) % 1024) = true := by simp [isLoSurr]; omega
      have e3 : 0x10000 + (0xD800 + (c.toNat - 0x10000) / 1024 - 0xD800) * 1024
          + (0xDC00 + (c.toNat - 0x10000) % 1024 - 0xDC00) = c.toNat := by omega
      simp only [decodeUnits, h1, h2, if_true, ih, Option.map_some, e3, hc]

theorem utf16Char_lt (c : Char) : ∀ u ∈ utf16Char c, u < 65536 := by
  have hr := char_range c
  intro u hu
  by_cases h : c.toNat < 0x10000
  · have e : utf16Char c = [c.toNat] := by simp [utf16Char, h]
    rw [e, List.mem_singleton] at hu
    omega
  · have e : utf16Char c = [0xD800 + (c.toNat - 0x10000) / 1024, 0xDC00 + (c.toNat - 0x10000) % 1024] := by
      simp [utf16Char, h]
    have b1 : (c.toNat - 0x10000) / 1024 < 1024 := by omega
    have b2 : (c.toNat - 0x10000) % 1024 < 1024 := Nat.mod_lt _ (by decide)
    rw [e] at hu
    simp only [List.mem_cons, List.not_mem_nil, or_false] at hu
    rcases hu with hu | hu
    · rw [hu]; omega
    · rw [hu]; omega

theorem utf16le_rt (s : Text) : utf16Units false (utf16leEnc s) = some s := by
  unfold utf16Units utf16leEnc
  rw [codeUnits_unitsLE]
  · simp [decodeUnits_chars]
  · intro u hu
    simp only [List.mem_flatMap] at hu
    obtain ⟨c, _, hc⟩ := hu
    exact utf16Char_lt c u hc

/-- `utf-16-le`: every text is representable. -/
def utf16leCodec : Codec where
  enc := utf16leEnc
  dec := decode .utf16le
  ok := fun _ => True
  rt := fun s _ => utf16le_rt s

/-- `utf-16` with the byte-order mark CPython's encoder writes. -/
def utf16Codec : Codec where
  enc := utf16Enc
  dec := decode .utf16
  ok := fun _ => True
  rt := fun s _ => by
    show utf16Dec (0xFF :: 0xFE :: utf16leEnc s) = some s
    simp only [utf16Dec]
    exact utf16le_rt s

example : utf16Enc "a€".toList = [0xFF, 0xFE, 0x61, 0x00, 0xAC, 0x20] ∧
    utf16leEnc [Char.ofNat 0x1F600] = [0x3D, 0xD8, 0x00, 0xDE] := by decide

end CpProofs.C03
