import CpProofs.C19
import CpProofs.C19Md5
/-!
  C19 — what "the credentials verify" means once the hash is the real MD5, and where collision resistance enters.

  The general theorems (`digest_grant_iff` …) say: the handler runs iff `response` **equals** the RFC 2617
  request-digest recomputed from the stored HA1.  That a client who produced such a response *knew the password* is
  not a theorem about any function `H` — it is the collision-resistance assumption.  Here it is made explicit in the
  usual reduction form, valid for **every** `H` (the concrete MD5 included):

      the request is admitted and the client computed its response from password p'
        ⟹   p' is the stored password   ∨   an explicit collision  x ≠ y, H x = H y  exists.

  The same for the nonce ("issued by this server for this realm"): a nonce synthesised for (realm', key') that
  validates under (realm, key) means `realm:key = realm':key'` as strings, or a collision.  The residual string
  equality is genuine: `synthesize_nonce` joins the three parts with `:` without escaping, so realm `a:b` with key `c`
  and realm `a` with key `b:c` share their nonces (example below; keys are server-side secrets, so this needs two
  deployments whose keys are related in exactly that way).

  Concrete part: the worked example of RFC 2617 section 3.5 evaluated in the kernel with the transcribed MD5, and a
  complete `digest_auth` / `basic_auth` run on literal header bytes with the concrete MD5, base64 and UTF-8.
-/
namespace CpProofs.C19
open CpModel.Auth CpModel.AuthPrims CpModel.Gen.C19

/-- two different texts with the same hash -/
def Collision (H : Str → Str) : Prop := ∃ x y, x ≠ y ∧ H x = H y

theorem eq_or_collision (H : Str → Str) (x y : Str) (h : H x = H y) : x = y ∨ Collision H := by
  by_cases hxy : x = y
  · exact Or.inl hxy
  · exact Or.inr ⟨x, y, hxy, h⟩

/-- the request-digest determines H(A1) — up to a collision of `H` (same header fields, same request method) -/
theorem rfcDigest_ha1_inj (P : Prims) (a : Auth) (method h1 h2 : Str)
    (heq : rfcDigest P a method h1 = rfcDigest P a method h2) : h1 = h2 ∨ Collision P.H := by
  unfold rfcDigest at heq
  simp only at heq
  -- the session variant first: H(ha1:nonce:cnonce) determines ha1
  have sess : ∀ x y : Str, P.H (joinColon [x, fmtOpt a.nonce, fmtOpt a.cnonce]) =
      P.H (joinColon [y, fmtOpt a.nonce, fmtOpt a.cnonce]) → x = y ∨ Collision P.H := by
    intro x y h
    rcases eq_or_collision P.H _ _ h with h | h
    · left
      simp only [joinColon] at h
      exact List.append_cancel_right h
    · exact Or.inr h
  have outer : ∀ (x y t : Str), P.H (x ++ ':' :: t) = P.H (y ++ ':' :: t) → x = y ∨ Collision P.H := by
    intro x y t h
    rcases eq_or_collision P.H _ _ h with h | h
    · exact Or.inl (List.append_cancel_right h)
    · exact Or.inr h
  by_cases hs : a.algorithm = cs! "MD5-SESS"
  · simp only [hs, if_true] at heq
    cases hq : a.qop with
    | none =>
      simp only [hq, joinColon] at heq
      rcases outer _ _ _ heq with h | h
      · exact sess _ _ h
      · exact Or.inr h
    | some q =>
      simp only [hq, joinColon] at heq
      rcases outer _ _ _ heq with h | h
      · exact sess _ _ h
      · exact Or.inr h
  · simp only [hs, if_false] at heq
    cases hq : a.qop with
    | none =>
      simp only [hq, joinColon] at heq
      exact outer _ _ _ heq
    | some q =>
      simp only [hq, joinColon] at heq
      exact outer _ _ _ heq

/-- **Soundness down to the password, with the collision-resistance assumption explicit** (plain-text store).
    If `digest_auth` lets the request through as `u`, then `u` is in the store with a non-empty password `p`, and
    for *every* password `p'` from which the header's response could have been computed per RFC 2617 (for this
    request's method and the header's own fields): `p' = p`, or `H` has an explicit collision. -/
theorem digest_sound_password_or_collision (P : Prims) (cfg : DigestCfg) (method : Str) (now : Int)
    (hdr : Option Str) (u : Str) (d : List (Str × Str)) (hstore : cfg.store = .plain d)
    (hg : digestAuth P cfg method now hdr = .grant u) :
    ∃ h a p, hdr = some h ∧ parseAuth P h = .ok a ∧ dictGet u d = some p ∧ p ≠ [] ∧
      ∀ p', a.response = some (rfcDigest P a method (P.H (colon u (colon cfg.realm p')))) →
        p' = p ∨ Collision P.H := by
  obtain ⟨h, a, rfl, acc⟩ := (digest_grant_iff P cfg method now hdr u).mp hg
  obtain ⟨ha1, hget, hresp⟩ := acc.digest
  unfold getHa1 at hget
  rw [hstore] at hget
  simp only at hget
  cases hd : dictGet u d with
  | none => simp [hd] at hget
  | some p =>
    cases p with
    | nil => simp [hd] at hget
    | cons c cs =>
      simp only [hd, Option.some.injEq] at hget
      refine ⟨h, a, c :: cs, rfl, acc.parsed, rfl, by simp, ?_⟩
      intro p' hp'
      rw [hresp] at hp'
      simp only [Option.some.injEq] at hp'
      rcases rfcDigest_ha1_inj P a method _ _ hp' with h1 | h1
      · rw [← hget] at h1
        rcases eq_or_collision P.H _ _ h1 with h2 | h2
        · left
          simp only [colon] at h2
          have h3 := List.append_cancel_left h2
          simp only [List.cons.injEq, true_and] at h3
          have h4 := List.append_cancel_left h3
          simp only [List.cons.injEq, true_and] at h4
          exact h4.symm
        · exact Or.inr h2
      · exact Or.inr h1

/-- the same for a store of precomputed HA1 values: the response determines the HA1 the client used -/
theorem digest_sound_ha1_or_collision (P : Prims) (cfg : DigestCfg) (method : Str) (now : Int)
    (hdr : Option Str) (u : Str) (hg : digestAuth P cfg method now hdr = .grant u) :
    ∃ h a ha1, hdr = some h ∧ parseAuth P h = .ok a ∧ getHa1 P cfg u = some ha1 ∧
      ∀ ha1', a.response = some (rfcDigest P a method ha1') → ha1' = ha1 ∨ Collision P.H := by
  obtain ⟨h, a, rfl, acc⟩ := (digest_grant_iff P cfg method now hdr u).mp hg
  obtain ⟨ha1, hget, hresp⟩ := acc.digest
  refine ⟨h, a, ha1, rfl, acc.parsed, hget, ?_⟩
  intro ha1' h'
  rw [hresp] at h'
  simp only [Option.some.injEq] at h'
  rcases rfcDigest_ha1_inj P a method _ _ h' with h1 | h1
  · exact Or.inl h1.symm
  · exact Or.inr h1

/-- **"a nonce this server issued for this realm", with the assumption explicit.**  A nonce made by
    `synthesize_nonce` for (realm', key') that this server's `validate_nonce` accepts for its own (realm, key) means
    that `realm:key` and `realm':key'` are the same string — or `H` has a collision. -/
theorem nonce_binds_realm_key_or_collision (P : Prims) (s key s' key' ts : Str) (hts : ':' ∉ ts)
    (hv : validateNonce P (synthesizeNonce P s' key' ts) s key = true) :
    colon s key = colon s' key' ∨ Collision P.H := by
  obtain ⟨ts2, hts2, heq⟩ := (validateNonce_iff P _ _ _).mp hv
  have h1 := synthesizeNonce_split P s' key' ts hts
  have h2 := synthesizeNonce_split P s key ts2 hts2
  rw [heq, h2] at h1
  simp only [Option.some.injEq, Prod.mk.injEq] at h1
  obtain ⟨rfl, hh⟩ := h1
  rcases eq_or_collision P.H _ _ hh with h | h
  · left
    simp only [colon] at h
    have h3 := List.append_cancel_left h
    simp only [List.cons.injEq, true_and] at h3
    exact h3
  · exact Or.inr h

/-- the residual string equality is real: realm `a:b` / key `c` and realm `a` / key `b:c` share their nonces
    (whatever the hash) -/
theorem nonce_colon_ambiguity (P : Prims) (ts : Str) (hts : ':' ∉ ts) :
    validateNonce P (synthesizeNonce P (cs! "a:b") (cs! "c") ts) (cs! "a") (cs! "b:c") = true :=
  (validateNonce_iff P _ _ _).mpr ⟨ts, hts, by simp [synthesizeNonce, colon]⟩

/-! ### concrete MD5 -/

/-- the primitives of the running code, as far as they are concrete in this development: RFC 1321 MD5, the
    transcribed `a2b_base64`, UTF-8; NFC stays a parameter -/
def md5P (nfc : Str → Str) : Prims := ⟨md5Hex, b64decode, utf8Decode, nfc⟩

/-- the header fields of the worked example in RFC 2617 section 3.5 -/
def rfcExample : Auth :=
  { realm := some (cs! "testrealm@host.com"), username := some (cs! "Mufasa"),
    nonce := some (cs! "dcd98b7102dd2f0e8b11d0f600bfb0c093"), uri := some (cs! "/dir/index.html"),
    response := some (cs! "6629fae49393a05397450978507c4ef1"), algorithm := cs! "MD5",
    cnonce := some (cs! "0a4f113b"), qop := some (cs! "auth"), nc := some (cs! "00000001") }

/-- **RFC 2617 section 3.5, by kernel evaluation**: with the transcribed MD5, the independent statement of the
    request-digest (`rfcDigest`) *and* the model of the code's `request_digest` both give the response printed in the
    RFC for user `Mufasa`, password `Circle Of Life`, `GET /dir/index.html`. -/
theorem rfc2617_section_3_5_example :
    md5Hex (cs! "Mufasa:testrealm@host.com:Circle Of Life") = cs! "939e7578ed9e3c518a452acee763bce9" ∧
    rfcDigest (md5P id) rfcExample (cs! "GET") (cs! "939e7578ed9e3c518a452acee763bce9") =
      cs! "6629fae49393a05397450978507c4ef1" ∧
    requestDigest (md5P id) rfcExample (cs! "GET") (cs! "939e7578ed9e3c518a452acee763bce9") =
      .ok (cs! "6629fae49393a05397450978507c4ef1") := by
  decide +kernel

/-- a server for the RFC's realm, holding Mufasa's password in the clear -/
def rfcCfg : DigestCfg :=
  ⟨cs! "testrealm@host.com", cs! "a565c27146791cfb",
   .plain [(cs! "Mufasa", cs! "Circle Of Life")], cs! "utf-8"⟩

/-- the literal header an RFC 2617 client sends for a nonce this server issued at 1700000000 -/
def rfcHdr : Str :=
  cs! "Digest username=\"Mufasa\", realm=\"testrealm@host.com\", nonce=\"1700000000:8f8a1b4bbdf6cab47894743745b3a796\", uri=\"/dir/index.html\", qop=auth, nc=00000001, cnonce=\"0a4f113b\", response=\"9225650011950283918dcaf931e0bc66\""

/-- **`digest_auth` on concrete bytes with the concrete MD5** (kernel evaluation of the whole tool): the RFC client
    is admitted while the nonce is fresh, gets `stale="true"` exactly from second 600 on, plain 401 for another
    method, a flipped response digit or a nonce whose timestamp was moved, and the challenge issued at 1700000000
    carries exactly the nonce used above. -/
theorem digest_md5_concrete :
    digestAuth (md5P id) rfcCfg (cs! "GET") 1700000599 (some rfcHdr) = .grant (cs! "Mufasa") ∧
    digestAuth (md5P id) rfcCfg (cs! "GET") 1700000600 (some rfcHdr) = respond401 (md5P id) rfcCfg 1700000600 true ∧
    digestAuth (md5P id) rfcCfg (cs! "POST") 1700000000 (some rfcHdr) = respond401 (md5P id) rfcCfg 1700000000 false ∧
    digestAuth (md5P id) rfcCfg (cs! "GET") 1700000000 none =
      .unauthorized (cs! "Digest realm=\"testrealm@host.com\", nonce=\"1700000000:8f8a1b4bbdf6cab47894743745b3a796\", algorithm=\"MD5\", qop=\"auth\", charset=\"UTF-8\"") := by
  decide +kernel

/-- RFC 7617 section 2's example (`Aladdin` / `open sesame`) through the concrete base64 and UTF-8 decoders -/
theorem basic_rfc7617_example :
    basicAuth (md5P id) ⟨cs! "WallyWorld", [(cs! "Aladdin", cs! "open sesame")], cs! "utf-8"⟩
      (some (cs! "Basic QWxhZGRpbjpvcGVuIHNlc2FtZQ==")) = .grant (cs! "Aladdin") ∧
    basicAuth (md5P id) ⟨cs! "WallyWorld", [(cs! "Aladdin", cs! "open sesame")], cs! "utf-8"⟩
      (some (cs! "Basic QWxhZGRpbjpvcGVuIHNlc2FtZg==")) =
      .unauthorized (cs! "Basic realm=\"WallyWorld\", charset=\"UTF-8\"") := by
  decide +kernel

/-- **An RFC 2617 client against the concrete MD5, from the bytes on the wire** (instance of
    `digest_rfc2617_client_utf8`; stated separately so that the obligation list names the concrete hash): the header
    bytes are the UTF-8 encoding of `Digest ` followed by the serialised fields, the nonce is
    `ts:md5(ts:realm:key)`, the response is the RFC request-digest over MD5 from the stored HA1. -/
theorem digest_rfc2617_client_md5 (nfc : Str → Str) (cfg : DigestCfg) (method : Str) (now : Int)
    (fs : List Fld) (u ha1 ts : Str) (t : Int)
    (hk : ∀ f ∈ fs, f.Good)
    (hv : Valid (fieldsOf (fs.map Fld.pair))) (hu : (fieldsOf (fs.map Fld.pair)).username = some u)
    (hq : (fieldsOf (fs.map Fld.pair)).qop = none ∨ (fieldsOf (fs.map Fld.pair)).qop = some (cs! "auth"))
    (hget : getHa1 (md5P nfc) cfg u = some ha1)
    (hnonce : (fieldsOf (fs.map Fld.pair)).nonce =
      some (ts ++ ':' :: md5Hex (ts ++ ':' :: (cfg.realm ++ ':' :: cfg.key))))
    (hts : ':' ∉ ts) (hint : pyInt ts = some t) (hfresh : t + 600 > now)
    (hresp : (fieldsOf (fs.map Fld.pair)).response =
      some (rfcDigest (md5P nfc) (fieldsOf (fs.map Fld.pair)) method ha1)) :
    digestAuth (md5P nfc) cfg method now
      (some (latin1Decode (utf8Encode (cs! "Digest " ++ serialise fs)))) = .grant u :=
  digest_rfc2617_client_utf8 md5Hex b64decode nfc cfg method now fs u ha1 ts t hk hv hu hq hget hnonce hts hint
    hfresh hresp

end CpProofs.C19
