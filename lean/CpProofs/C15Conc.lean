import CpModel.CacheConc
import CpProofs.C15Lemmas
/-!
  C15 under interleaving — invariants of `CpModel.CacheConc` (any number of request threads and the
  expiry thread, one shared-state access per step, every schedule).

  `HeapInv`  : every stored value (in a slot of any AntiStampedeCache, published or orphaned, or in the
               `.result` of any Event) is the output of a logged handler run for that resource and
               that variant key, and was storable; an Event that is set has its result.
  `ThreadOk` : what the locals of a thread parked in front of each access are known to satisfy.
  `Ext`      : how the heaps evolve (objects keep their identity, ghost owner, uri, selecting headers;
               a set Event stays set; a result, once there, stays there; the log grows).
-/
namespace CpProofs.C15Conc
open CpModel.Cache CpModel.CacheConc CpModel CpProofs.C15

/-! ### definitions -/

/-- the run allowed its response to be stored -/
def StorableRun (cfg : Cfg) (x : Run) : Prop :=
  teeAct x.r x.p = .put ∧ x.p.size < cfg.maxobjSize ∧ x.r.method ∉ cfg.invalid

/-- `v`, found under key `k` of the AntiStampedeCache `uc`, is the output of a logged handler run for
    `uc`'s resource whose request had exactly these selecting header values -/
def GoodV (cfg : Cfg) (log : List Run) (uc : UC) (k : List Str) (v : Variant) : Prop :=
  ∃ x ∈ log, x.gen = v.gen ∧ x.t = v.created ∧ x.r.uri = uc.uri ∧ k = uc.sel.map (hget x.r) ∧ StorableRun cfg x

theorem GoodV.congr {cfg : Cfg} {log log' : List Run} {uc uc' : UC} {k : List Str} {v : Variant}
    (h : GoodV cfg log uc k v) (hl : ∀ x ∈ log, x ∈ log') (hu : uc'.uri = uc.uri) (hs : uc'.sel = uc.sel) :
    GoodV cfg log' uc' k v := by
  obtain ⟨x, hx, a, b, c, d, e⟩ := h
  exact ⟨x, hl x hx, a, b, by rw [hu]; exact c, by rw [hs]; exact d, e⟩

structure HeapInv (cfg : Cfg) (s : St) : Prop where
  store : ∀ (u : Str) (i : Nat), aget s.store u = some i → ∃ uc : UC, s.ucs[i]? = some uc ∧ uc.uri = u
  vals : ∀ (i : Nat) (uc : UC) (k : List Str) (v : Variant), s.ucs[i]? = some uc → aget uc.slots k = some (.val v) → GoodV cfg s.log uc k v
  evsl : ∀ (i : Nat) (uc : UC) (k : List Str) (e : Nat), s.ucs[i]? = some uc → aget uc.slots k = some (.ev e) →
    ∃ eo : EvObj, s.evs[e]? = some eo ∧ eo.uc = i ∧ eo.key = k
  evr : ∀ (e : Nat) (eo : EvObj), s.evs[e]? = some eo → (eo.isSet = true → eo.result.isSome = true) ∧
    ∀ v, eo.result = some v → ∃ uc : UC, s.ucs[eo.uc]? = some uc ∧ GoodV cfg s.log uc eo.key v
  sels : ∀ (i : Nat) (uc : UC), s.ucs[i]? = some uc → ∃ x ∈ s.log, x.r.uri = uc.uri ∧ uc.sel = sortDesc x.p.vary
  gens : ∀ x ∈ s.log, x.gen < s.nextGen

structure Ext (s s' : St) : Prop where
  ucs : ∀ (i : Nat) (uc : UC), s.ucs[i]? = some uc → ∃ uc' : UC, s'.ucs[i]? = some uc' ∧ uc'.uri = uc.uri ∧ uc'.sel = uc.sel
  evs : ∀ (e : Nat) (eo : EvObj), s.evs[e]? = some eo → ∃ eo' : EvObj, s'.evs[e]? = some eo' ∧ eo'.uc = eo.uc ∧ eo'.key = eo.key ∧
    (eo.isSet = true → eo'.isSet = true) ∧ (eo.result.isSome = true → eo'.result.isSome = true)
  log : ∀ x ∈ s.log, x ∈ s'.log

theorem Ext.refl (s : St) : Ext s s :=
  ⟨fun _ uc h => ⟨uc, h, rfl, rfl⟩, fun _ eo h => ⟨eo, h, rfl, rfl, id, id⟩, fun _ h => h⟩

theorem Ext.trans {a b c : St} (h1 : Ext a b) (h2 : Ext b c) : Ext a c := by
  refine ⟨?_, ?_, fun x hx => h2.log x (h1.log x hx)⟩
  · intro i uc h
    obtain ⟨u1, g1, a1, b1⟩ := h1.ucs i uc h
    obtain ⟨u2, g2, a2, b2⟩ := h2.ucs i u1 g1
    exact ⟨u2, g2, a2.trans a1, b2.trans b1⟩
  · intro e eo h
    obtain ⟨e1, g1, a1, b1, c1, d1⟩ := h1.evs e eo h
    obtain ⟨e2, g2, a2, b2, c2, d2⟩ := h2.evs e e1 g1
    exact ⟨e2, g2, a2.trans a1, b2.trans b1, fun x => c2 (c1 x), fun x => d2 (d1 x)⟩

/-- only fields the invariants do not mention differ -/
theorem Ext.of_eq {s s' : St} (h1 : s'.ucs = s.ucs) (h2 : s'.evs = s.evs) (h3 : s'.log = s.log) : Ext s s' := by
  refine ⟨?_, ?_, ?_⟩
  · intro i uc h; exact ⟨uc, by rw [h1]; exact h, rfl, rfl⟩
  · intro e eo h; exact ⟨eo, by rw [h2]; exact h, rfl, rfl, id, id⟩
  · intro x hx; rw [h3]; exact hx

theorem HeapInv.of_eq {cfg : Cfg} {s s' : St} (h : HeapInv cfg s) (h0 : s'.store = s.store) (h1 : s'.ucs = s.ucs)
    (h2 : s'.evs = s.evs) (h3 : s'.log = s.log) (h4 : s'.nextGen = s.nextGen) : HeapInv cfg s' := by
  refine ⟨?_, ?_, ?_, ?_, ?_, ?_⟩
  · rw [h0, h1]; exact h.store
  · rw [h1, h3]; exact h.vals
  · rw [h1, h2]; exact h.evsl
  · rw [h1, h2, h3]; exact h.evr
  · rw [h1, h3]; exact h.sels
  · rw [h3, h4]; exact h.gens

/-! ### what a parked thread knows -/

def NI (cfg : Cfg) (th : Thread) : Prop := th.r.method ∉ cfg.invalid

def UcOk (s : St) (th : Thread) (i : Nat) : Prop := ∃ uc : UC, s.ucs[i]? = some uc ∧ uc.uri = th.r.uri

def EvOk (s : St) (th : Thread) (i e : Nat) : Prop :=
  ∃ (uc : UC) (eo : EvObj), s.ucs[i]? = some uc ∧ uc.uri = th.r.uri ∧ s.evs[e]? = some eo ∧ eo.uc = i ∧
    eo.key = uc.sel.map (hget th.r)

/-- the thread's own handler run is logged and its response may be stored -/
def LR (cfg : Cfg) (s : St) (th : Thread) (v : Variant) : Prop :=
  (⟨v.gen, th.r, th.p, th.t0⟩ : Run) ∈ s.log ∧ v.created = th.t0 ∧ teeAct th.r th.p = .put ∧ NI cfg th

/-- what is known about a response served from the cache -/
def HitOk (cfg : Cfg) (s : St) (th : Thread) (v : Variant) (a : Int) : Prop :=
  ∃ x ∈ s.log, ∃ sel, x.gen = v.gen ∧ x.t = v.created ∧ x.r.uri = th.r.uri ∧
    (∀ h ∈ sel, hget th.r h = hget x.r h) ∧
    (∃ y ∈ s.log, y.r.uri = th.r.uri ∧ sel = sortDesc y.p.vary) ∧ StorableRun cfg x ∧
    a = ageOf th.t0 v.created ∧
    ∃ m, scanCC (sortDesc th.r.cc) = .proceed m ∧ a ≤ (effMaxAge cfg m : Int)

def ThreadOk (cfg : Cfg) (s : St) (th : Thread) : Prop :=
  match th.pc with
  | .start => True
  | .inval => True
  | .sGet => NI cfg th
  | .uGet i => NI cfg th ∧ UcOk s th i
  | .uSetEv i => NI cfg th ∧ UcOk s th i
  | .eWait i e => NI cfg th ∧ EvOk s th i e
  | .eRes i e => NI cfg th ∧ EvOk s th i e ∧
      (th.timedOut = false → ∃ eo : EvObj, s.evs[e]? = some eo ∧ eo.isSet = true)
  | .eRes2 e => NI cfg th ∧ (∃ i, EvOk s th i e) ∧ ∃ eo : EvObj, s.evs[e]? = some eo ∧ eo.result.isSome = true
  | .handler c => c = true → NI cfg th
  | .tPop _ => True
  | .pGet v => LR cfg s th v
  | .pNew v => LR cfg s th v
  | .pLen v i => LR cfg s th v ∧ UcOk s th i
  | .pCur v i => LR cfg s th v ∧ UcOk s th i
  | .pSetdef v i _ => LR cfg s th v ∧ UcOk s th i ∧ th.p.size < cfg.maxobjSize
  | .pApp v i _ _ => LR cfg s th v ∧ UcOk s th i ∧ th.p.size < cfg.maxobjSize
  | .pUGet v i _ => LR cfg s th v ∧ UcOk s th i ∧ th.p.size < cfg.maxobjSize
  | .pUSet v i _ ex => LR cfg s th v ∧ UcOk s th i ∧ th.p.size < cfg.maxobjSize ∧ ∀ e, ex = some e → EvOk s th i e
  | .pERes v i _ e => LR cfg s th v ∧ th.p.size < cfg.maxobjSize ∧ EvOk s th i e
  | .pESet _ _ e => ∃ eo : EvObj, s.evs[e]? = some eo ∧ eo.result.isSome = true
  | .pCurW _ _ => True
  | .done (.hit v a) => HitOk cfg s th v a
  | .done _ => True

theorem UcOk.ext {s s' : St} {th : Thread} {i : Nat} (h : UcOk s th i) (hx : Ext s s') : UcOk s' th i := by
  obtain ⟨uc, g, u⟩ := h
  obtain ⟨uc', g', u', _⟩ := hx.ucs i uc g
  exact ⟨uc', g', u'.trans u⟩

theorem EvOk.ext {s s' : St} {th : Thread} {i e : Nat} (h : EvOk s th i e) (hx : Ext s s') : EvOk s' th i e := by
  obtain ⟨uc, eo, g, u, ge, a, b⟩ := h
  obtain ⟨uc', g', u', sl'⟩ := hx.ucs i uc g
  obtain ⟨eo', ge', a', b', _, _⟩ := hx.evs e eo ge
  exact ⟨uc', eo', g', u'.trans u, ge', a'.trans a, by rw [b', sl']; exact b⟩

theorem LR.ext {cfg : Cfg} {s s' : St} {th : Thread} {v : Variant} (h : LR cfg s th v) (hx : Ext s s') :
    LR cfg s' th v := ⟨hx.log _ h.1, h.2⟩

theorem HitOk.ext {cfg : Cfg} {s s' : St} {th : Thread} {v : Variant} {a : Int} (h : HitOk cfg s th v a)
    (hx : Ext s s') : HitOk cfg s' th v a := by
  obtain ⟨x, hxl, sel, a1, a2, a3, a4, ⟨y, hy, b1, b2⟩, rest⟩ := h
  exact ⟨x, hx.log x hxl, sel, a1, a2, a3, a4, ⟨y, hx.log y hy, b1, b2⟩, rest⟩

/-- other threads' steps never invalidate what a parked thread knows -/
theorem ThreadOk.ext {cfg : Cfg} {s s' : St} {th : Thread} (h : ThreadOk cfg s th) (hx : Ext s s') :
    ThreadOk cfg s' th := by
  have evset : ∀ e : Nat, (∃ eo : EvObj, s.evs[e]? = some eo ∧ eo.isSet = true) →
      ∃ eo : EvObj, s'.evs[e]? = some eo ∧ eo.isSet = true := by
    intro e ⟨eo, g, hs⟩
    obtain ⟨eo', g', _, _, c, _⟩ := hx.evs e eo g
    exact ⟨eo', g', c hs⟩
  have evres : ∀ e : Nat, (∃ eo : EvObj, s.evs[e]? = some eo ∧ eo.result.isSome = true) →
      ∃ eo : EvObj, s'.evs[e]? = some eo ∧ eo.result.isSome = true := by
    intro e ⟨eo, g, hs⟩
    obtain ⟨eo', g', _, _, _, d⟩ := hx.evs e eo g
    exact ⟨eo', g', d hs⟩
  unfold ThreadOk at h ⊢
  cases hpc : th.pc <;> rw [hpc] at h <;> simp only [] at h ⊢
  case sGet => exact h
  case handler => exact h
  case uGet i => exact ⟨h.1, h.2.ext hx⟩
  case uSetEv i => exact ⟨h.1, h.2.ext hx⟩
  case eWait i e => exact ⟨h.1, h.2.ext hx⟩
  case eRes i e => exact ⟨h.1, h.2.1.ext hx, fun ht => evset e (h.2.2 ht)⟩
  case eRes2 e =>
    obtain ⟨a, ⟨i, b⟩, c⟩ := h
    exact ⟨a, ⟨i, b.ext hx⟩, evres e c⟩
  case pGet v => exact h.ext hx
  case pNew v => exact h.ext hx
  case pLen v i => exact ⟨h.1.ext hx, h.2.ext hx⟩
  case pCur v i => exact ⟨h.1.ext hx, h.2.ext hx⟩
  case pSetdef v i t => exact ⟨h.1.ext hx, h.2.1.ext hx, h.2.2⟩
  case pApp v i t b => exact ⟨h.1.ext hx, h.2.1.ext hx, h.2.2⟩
  case pUGet v i t => exact ⟨h.1.ext hx, h.2.1.ext hx, h.2.2⟩
  case pUSet v i t ex => exact ⟨h.1.ext hx, h.2.1.ext hx, h.2.2.1, fun e he => (h.2.2.2 e he).ext hx⟩
  case pERes v i t e => exact ⟨h.1.ext hx, h.2.1, h.2.2.ext hx⟩
  case pESet v t e => exact evres e h
  case done o =>
    cases o with
    | hit v a => exact h.ext hx
    | miss g c => trivial
    | bad400 => trivial

/-! ### heap updates -/

variable {cfg : Cfg}

/-- the slots of one AntiStampedeCache are replaced -/
theorem setSlots_ok {s : St} (h : HeapInv cfg s) {i : Nat} {uc : UC} (hi : s.ucs[i]? = some uc)
    (sl : List (List Str × CSlot))
    (hv : ∀ k v, aget sl k = some (.val v) → GoodV cfg s.log uc k v)
    (he : ∀ k e, aget sl k = some (.ev e) → ∃ eo : EvObj, s.evs[e]? = some eo ∧ eo.uc = i ∧ eo.key = k) :
    HeapInv cfg (setSlots s i uc sl) ∧ Ext s (setSlots s i uc sl) := by
  have hlt : i < s.ucs.length := by
    rcases Nat.lt_or_ge i s.ucs.length with h1 | h1
    · exact h1
    · rw [List.getElem?_eq_none h1] at hi; cases hi
  have cases' : ∀ (i' : Nat) (uc' : UC), (setSlots s i uc sl).ucs[i']? = some uc' →
      (i' = i ∧ uc' = { uc with slots := sl }) ∨ (i' ≠ i ∧ s.ucs[i']? = some uc') := by
    intro i' uc' h1
    simp only [setSlots, List.getElem?_set] at h1
    by_cases hii : i = i'
    · subst hii; simp [hlt] at h1; exact Or.inl ⟨rfl, h1.symm⟩
    · simp [hii] at h1; exact Or.inr ⟨fun x => hii x.symm, h1⟩
  have hx : Ext s (setSlots s i uc sl) := by
    refine ⟨?_, fun e eo g => ⟨eo, g, rfl, rfl, id, id⟩, fun x hx => hx⟩
    intro i' uc' g
    by_cases hii : i' = i
    · subst hii
      rw [hi] at g; cases g
      exact ⟨{ uc with slots := sl }, by simp [setSlots, hlt], rfl, rfl⟩
    · exact ⟨uc', by simp only [setSlots]; rw [List.getElem?_set_ne (fun x => hii x.symm)]; exact g, rfl, rfl⟩
  refine ⟨⟨?_, ?_, ?_, ?_, ?_, h.gens⟩, hx⟩
  · intro u j g
    obtain ⟨uc0, g0, u0⟩ := h.store u j g
    obtain ⟨uc1, g1, u1, _⟩ := hx.ucs j uc0 g0
    exact ⟨uc1, g1, u1.trans u0⟩
  · intro i' uc' k v g1 g2
    rcases cases' i' uc' g1 with ⟨_, rfl⟩ | ⟨_, g⟩
    · exact (hv k v g2).congr (fun _ hx => hx) rfl rfl
    · exact h.vals i' uc' k v g g2
  · intro i' uc' k e g1 g2
    rcases cases' i' uc' g1 with ⟨rfl, rfl⟩ | ⟨_, g⟩
    · exact he k e g2
    · exact h.evsl i' uc' k e g g2
  · intro e eo g
    refine ⟨(h.evr e eo g).1, ?_⟩
    intro v hv'
    obtain ⟨uc0, g0, gv⟩ := (h.evr e eo g).2 v hv'
    obtain ⟨uc1, g1, u1, s1⟩ := hx.ucs _ uc0 g0
    exact ⟨uc1, g1, gv.congr (fun _ hx => hx) u1 s1⟩
  · intro i' uc' g1
    rcases cases' i' uc' g1 with ⟨rfl, rfl⟩ | ⟨_, g⟩
    · exact h.sels i' uc hi
    · exact h.sels i' uc' g

/-- a fresh Event (no result, not set) is allocated for slot `k` of AntiStampedeCache `i` -/
theorem appendEv_ok {s : St} (h : HeapInv cfg s) (i : Nat) (k : List Str) :
    HeapInv cfg { s with evs := s.evs ++ [⟨i, k, none, false⟩] } ∧
    Ext s { s with evs := s.evs ++ [⟨i, k, none, false⟩] } := by
  have hx : Ext s { s with evs := s.evs ++ [⟨i, k, none, false⟩] } := by
    refine ⟨fun i uc g => ⟨uc, g, rfl, rfl⟩, ?_, fun x hx => hx⟩
    intro e eo g
    exact ⟨eo, by simp only; grind, rfl, rfl, id, id⟩
  refine ⟨⟨h.store, h.vals, ?_, ?_, h.sels, h.gens⟩, hx⟩
  · intro i' uc k' e g1 g2
    obtain ⟨eo, g, a, b⟩ := h.evsl i' uc k' e g1 g2
    exact ⟨eo, by simp only; grind, a, b⟩
  · intro e eo g
    simp only at g
    have : s.evs[e]? = some eo ∨ eo = ⟨i, k, none, false⟩ := by grind
    rcases this with g' | rfl
    · exact h.evr e eo g'
    · exact ⟨by simp, by simp⟩

/-- an Event's `.result` / flag is written -/
theorem setEv_ok {s : St} (h : HeapInv cfg s) {e : Nat} {eo eo' : EvObj} (he : s.evs[e]? = some eo)
    (h1 : eo'.uc = eo.uc) (h2 : eo'.key = eo.key) (h3 : eo.isSet = true → eo'.isSet = true)
    (h4 : eo.result.isSome = true → eo'.result.isSome = true)
    (h5 : eo'.isSet = true → eo'.result.isSome = true)
    (h6 : ∀ v, eo'.result = some v → ∃ uc : UC, s.ucs[eo.uc]? = some uc ∧ GoodV cfg s.log uc eo.key v) :
    HeapInv cfg { s with evs := s.evs.set e eo' } ∧ Ext s { s with evs := s.evs.set e eo' } := by
  have hlt : e < s.evs.length := by
    rcases Nat.lt_or_ge e s.evs.length with h1 | h1
    · exact h1
    · rw [List.getElem?_eq_none h1] at he; cases he
  have hx : Ext s { s with evs := s.evs.set e eo' } := by
    refine ⟨fun i uc g => ⟨uc, g, rfl, rfl⟩, ?_, fun x hx => hx⟩
    intro e1 eo1 g
    by_cases hee : e1 = e
    · subst hee
      rw [he] at g; cases g
      exact ⟨eo', by simp [hlt], h1, h2, h3, h4⟩
    · exact ⟨eo1, by simp only; rw [List.getElem?_set_ne (fun x => hee x.symm)]; exact g, rfl, rfl, id, id⟩
  refine ⟨⟨h.store, h.vals, ?_, ?_, h.sels, h.gens⟩, hx⟩
  · intro i uc k e1 g1 g2
    obtain ⟨eo1, g, a, b⟩ := h.evsl i uc k e1 g1 g2
    obtain ⟨eo2, g', a', b', _, _⟩ := hx.evs e1 eo1 g
    exact ⟨eo2, g', a'.trans a, b'.trans b⟩
  · intro e1 eo1 g
    simp only [List.getElem?_set] at g
    by_cases hee : e = e1
    · subst hee
      simp [hlt] at g; subst g
      exact ⟨h5, fun v hv => by rw [h1, h2]; exact h6 v hv⟩
    · simp [hee] at g
      exact h.evr e1 eo1 g

/-- the handler ran: one more logged run, the next generation number -/
theorem log_ok {s : St} (h : HeapInv cfg s) (r : Req) (p : Plan) (t : Nat) :
    HeapInv cfg { s with nextGen := s.nextGen + 1, log := s.log ++ [⟨s.nextGen, r, p, t⟩] } ∧
    Ext s { s with nextGen := s.nextGen + 1, log := s.log ++ [⟨s.nextGen, r, p, t⟩] } := by
  have hl : ∀ x ∈ s.log, x ∈ s.log ++ [(⟨s.nextGen, r, p, t⟩ : Run)] := fun x hx => List.mem_append_left _ hx
  refine ⟨⟨h.store, ?_, h.evsl, ?_, ?_, ?_⟩, ⟨fun i uc g => ⟨uc, g, rfl, rfl⟩, fun e eo g => ⟨eo, g, rfl, rfl, id, id⟩, hl⟩⟩
  · intro i uc k v g1 g2
    exact (h.vals i uc k v g1 g2).congr hl rfl rfl
  · intro e eo g
    refine ⟨(h.evr e eo g).1, fun v hv => ?_⟩
    obtain ⟨uc, g0, gv⟩ := (h.evr e eo g).2 v hv
    exact ⟨uc, g0, gv.congr hl rfl rfl⟩
  · intro i uc g
    obtain ⟨x, hx, a, b⟩ := h.sels i uc g
    exact ⟨x, hl x hx, a, b⟩
  · intro x hx
    simp only at hx ⊢
    rcases List.mem_append.mp hx with hx | hx
    · exact Nat.lt_succ_of_lt (h.gens x hx)
    · simp at hx; subst hx; exact Nat.lt_succ_self _

/-- the store dict changes (pop / setitem of a valid reference) -/
theorem store_ok {s : St} (h : HeapInv cfg s) (st : List (Str × Nat))
    (hst : ∀ u i, aget st u = some i → aget s.store u = some i ∨ ∃ uc : UC, s.ucs[i]? = some uc ∧ uc.uri = u) :
    HeapInv cfg { s with store := st } ∧ Ext s { s with store := st } := by
  refine ⟨⟨?_, h.vals, h.evsl, h.evr, h.sels, h.gens⟩, Ext.of_eq rfl rfl rfl⟩
  intro u i g
  rcases hst u i g with g' | g'
  · exact h.store u i g'
  · exact g'

/-- a new, empty AntiStampedeCache is allocated -/
theorem appendUc_ok {s : St} (h : HeapInv cfg s) (u : Str) (sel : List Str)
    (hs : ∃ x ∈ s.log, x.r.uri = u ∧ sel = sortDesc x.p.vary) :
    HeapInv cfg { s with ucs := s.ucs ++ [⟨u, sel, []⟩] } ∧ Ext s { s with ucs := s.ucs ++ [⟨u, sel, []⟩] } := by
  have hx : Ext s { s with ucs := s.ucs ++ [⟨u, sel, []⟩] } := by
    refine ⟨?_, fun e eo g => ⟨eo, g, rfl, rfl, id, id⟩, fun x hx => hx⟩
    intro i uc g
    exact ⟨uc, by simp only; grind, rfl, rfl⟩
  have cases' : ∀ (i : Nat) (uc : UC), (s.ucs ++ [(⟨u, sel, []⟩ : UC)])[i]? = some uc →
      s.ucs[i]? = some uc ∨ uc = ⟨u, sel, []⟩ := by
    intro i uc g; grind
  refine ⟨⟨?_, ?_, ?_, ?_, ?_, h.gens⟩, hx⟩
  · intro u' i g
    obtain ⟨uc, g0, a⟩ := h.store u' i g
    obtain ⟨uc1, g1, a1, _⟩ := hx.ucs i uc g0
    exact ⟨uc1, g1, a1.trans a⟩
  · intro i uc k v g1 g2
    rcases cases' i uc g1 with g | rfl
    · exact h.vals i uc k v g g2
    · simp [aget] at g2
  · intro i uc k e g1 g2
    rcases cases' i uc g1 with g | rfl
    · exact h.evsl i uc k e g g2
    · simp [aget] at g2
  · intro e eo g
    refine ⟨(h.evr e eo g).1, fun v hv => ?_⟩
    obtain ⟨uc, g0, gv⟩ := (h.evr e eo g).2 v hv
    obtain ⟨uc1, g1, a1, b1⟩ := hx.ucs _ uc g0
    exact ⟨uc1, g1, gv.congr (fun _ hx => hx) a1 b1⟩
  · intro i uc g1
    rcases cases' i uc g1 with g | rfl
    · exact h.sels i uc g
    · exact hs

/-! ### one step of a request thread -/

theorem decideHit_serve {cfg : Cfg} {r : Req} {t0 : Nat} {v : Variant} {a : Int}
    (h : decideHit cfg r t0 v = .serve a) :
    a = ageOf t0 v.created ∧ ∃ m, scanCC (sortDesc r.cc) = .proceed m ∧ a ≤ (effMaxAge cfg m : Int) := by
  unfold decideHit at h
  split at h
  · cases h
  · cases h
  · rename_i m hm
    split at h
    · cases h
    · rename_i hle
      cases h
      exact ⟨rfl, m, hm, Int.not_lt.mp hle⟩

/-- the thread obtained `v` from slot `k` of an AntiStampedeCache of its own resource, under its own key -/
theorem afterValue_ok (c : CCfg) {s : St} (h : HeapInv c.base s) {th : Thread} (hni : NI c.base th) {i : Nat} {uc : UC}
    (hi : s.ucs[i]? = some uc) (hu : uc.uri = th.r.uri) {v : Variant}
    (hg : GoodV c.base s.log uc (uc.sel.map (hget th.r)) v) :
    ThreadOk c.base s { th with pc := afterValue c th v } := by
  unfold afterValue
  cases hd : decideHit c.base th.r th.t0 v with
  | bad => simp only [ThreadOk]
  | handler => simp only [ThreadOk]; exact fun _ => hni
  | serve a =>
    simp only [ThreadOk]
    obtain ⟨x, hx, g1, g2, g3, g4, g5⟩ := hg
    obtain ⟨ha, m, hm, hle⟩ := decideHit_serve hd
    exact ⟨x, hx, uc.sel, g1, g2, g3.trans hu, List.map_inj_left.mp g4,
      (by obtain ⟨y, hy, a1, a2⟩ := h.sels i uc hi; exact ⟨y, hy, a1.trans hu, a2⟩), g5, ha, m, hm, hle⟩

theorem thrCore_ok (c : CCfg) {s : St} {th : Thread} (h : HeapInv c.base s) (ht : ThreadOk c.base s th) :
    HeapInv c.base (thrCore c s th).1 ∧ Ext s (thrCore c s th).1 ∧
      ThreadOk c.base (thrCore c s th).1 (thrCore c s th).2 := by
  obtain ⟨r, p, t0, to, pc⟩ := th
  cases pc with
  | start =>
    simp only [thrCore]
    split
    · exact ⟨h, Ext.refl s, trivial⟩
    · rename_i hm
      split
      · exact ⟨h, Ext.refl s, fun _ => hm⟩
      · exact ⟨h, Ext.refl s, hm⟩
  | inval =>
    simp only [thrCore]
    have := store_ok h (adel s.store r.uri) (by
      intro u i g
      rw [aget_adel] at g
      split at g
      · cases g
      · exact Or.inl g)
    exact ⟨this.1, this.2, by simp [ThreadOk]⟩
  | sGet =>
    simp only [thrCore]
    simp only [ThreadOk] at ht
    split
    · exact ⟨h, Ext.refl s, fun _ => ht⟩
    · rename_i i hi
      obtain ⟨uc, g, u⟩ := h.store _ _ hi
      exact ⟨h, Ext.refl s, ht, uc, g, u⟩
  | uGet i =>
    simp only [thrCore]
    simp only [ThreadOk] at ht
    obtain ⟨hni, uc, hi, hu⟩ := ht
    rw [hi]
    simp only
    split
    · rename_i v hv
      exact ⟨h, Ext.refl s, afterValue_ok c h hni hi hu (h.vals i uc _ v hi hv)⟩
    · rename_i e hv
      obtain ⟨eo, g, a, b⟩ := h.evsl i uc _ e hi hv
      split
      · exact ⟨h, Ext.refl s, hni, uc, eo, hi, hu, g, a, b⟩
      · exact ⟨h, Ext.refl s, fun _ => hni⟩
    · exact ⟨h, Ext.refl s, hni, uc, hi, hu⟩
  | uSetEv i =>
    simp only [thrCore]
    simp only [ThreadOk] at ht
    obtain ⟨hni, uc, hi, hu⟩ := ht
    rw [hi]
    simp only
    obtain ⟨h1, x1⟩ := appendEv_ok h i (uc.sel.map (hget r))
    have hi1 : ({ s with evs := s.evs ++ [⟨i, uc.sel.map (hget r), none, false⟩] } : St).ucs[i]? = some uc := hi
    obtain ⟨h2, x2⟩ := setSlots_ok h1 hi1 (aset uc.slots (uc.sel.map (hget r)) (.ev s.evs.length))
      (by
        intro k v g
        rw [aget_aset] at g
        split at g
        · cases g
        · exact h.vals i uc k v hi g)
      (by
        intro k e g
        rw [aget_aset] at g
        split at g
        · rename_i hk
          cases g
          exact ⟨⟨i, uc.sel.map (hget r), none, false⟩, by simp, rfl, hk⟩
        · obtain ⟨eo, g', a, b⟩ := h.evsl i uc k e hi g
          exact ⟨eo, by simp only; grind, a, b⟩)
    exact ⟨h2, x1.trans x2, fun _ => hni⟩
  | eWait i e =>
    simp only [thrCore]
    simp only [ThreadOk] at ht
    obtain ⟨hni, uc, eo, hi, hu, he, a, b⟩ := ht
    rw [he]
    simp only
    refine ⟨h, Ext.refl s, hni, ⟨uc, eo, hi, hu, he, a, b⟩, ?_⟩
    intro hto
    exact ⟨eo, he, by cases hs : eo.isSet <;> simp_all⟩
  | eRes i e =>
    simp only [thrCore]
    simp only [ThreadOk] at ht
    obtain ⟨hni, ⟨uc, eo, hi, hu, he, a, b⟩, hset⟩ := ht
    rw [he]
    simp only
    split
    · rename_i v hv
      exact ⟨h, Ext.refl s, hni, ⟨i, uc, eo, hi, hu, he, a, b⟩, eo, he, by rw [hv]; rfl⟩
    · exact ⟨h, Ext.refl s, hni, uc, hi, hu⟩
  | eRes2 e =>
    simp only [thrCore]
    simp only [ThreadOk] at ht
    obtain ⟨hni, ⟨i, uc, eo, hi, hu, he, a, b⟩, _⟩ := ht
    rw [he]
    simp only
    split
    · rename_i v hv
      obtain ⟨uc', g', gv⟩ := (h.evr e eo he).2 v hv
      rw [a, hi] at g'
      cases g'
      rw [b] at gv
      exact ⟨h, Ext.refl s, afterValue_ok c h hni hi hu gv⟩
    · exact ⟨h, Ext.refl s, fun _ => hni⟩
  | handler cb =>
    simp only [thrCore]
    simp only [ThreadOk] at ht
    obtain ⟨h1, x1⟩ := log_ok h r p t0
    cases cb with
    | false => exact ⟨h1, x1, trivial⟩
    | true =>
      simp only [if_true]
      cases hta : teeAct r p with
      | nothing => exact ⟨h1, x1, trivial⟩
      | delete => exact ⟨h1, x1, trivial⟩
      | put => exact ⟨h1, x1, by simp, rfl, hta, ht rfl⟩
  | tPop g =>
    simp only [thrCore]
    have := store_ok h (adel s.store r.uri) (by
      intro u i g
      rw [aget_adel] at g
      split at g
      · cases g
      · exact Or.inl g)
    exact ⟨this.1, this.2, by simp [ThreadOk]⟩
  | pGet v =>
    simp only [thrCore]
    simp only [ThreadOk] at ht
    split
    · rename_i i hi
      obtain ⟨uc, g, u⟩ := h.store _ _ hi
      exact ⟨h, Ext.refl s, ht, uc, g, u⟩
    · exact ⟨h, Ext.refl s, ht⟩
  | pNew v =>
    simp only [thrCore]
    simp only [ThreadOk] at ht
    obtain ⟨h1, x1⟩ := appendUc_ok h r.uri (sortDesc p.vary) ⟨_, ht.1, rfl, rfl⟩
    have hnew : ({ s with ucs := s.ucs ++ [⟨r.uri, sortDesc p.vary, []⟩] } : St).ucs[s.ucs.length]? =
        some ⟨r.uri, sortDesc p.vary, []⟩ := by simp
    obtain ⟨h2, x2⟩ := store_ok h1 (aset s.store r.uri s.ucs.length) (by
      intro u i g
      rw [aget_aset] at g
      split at g
      · rename_i hu
        cases g
        exact Or.inr ⟨_, hnew, hu⟩
      · exact Or.inl g)
    exact ⟨h2, x1.trans x2, ht.ext (x1.trans x2), ⟨r.uri, sortDesc p.vary, []⟩, hnew, rfl⟩
  | pLen v i =>
    simp only [thrCore]
    simp only [ThreadOk] at ht
    split
    · exact ⟨h, Ext.refl s, ht⟩
    · exact ⟨h, Ext.refl s, trivial⟩
  | pCur v i =>
    simp only [thrCore]
    simp only [ThreadOk] at ht
    split
    · rename_i hsz
      exact ⟨h, Ext.refl s, ht.1, ht.2, hsz.1⟩
    · exact ⟨h, Ext.refl s, trivial⟩
  | pSetdef v i total =>
    simp only [thrCore]
    simp only [ThreadOk] at ht
    split
    · exact ⟨h, Ext.refl s, ht⟩
    · exact ⟨h.of_eq rfl rfl rfl rfl rfl, Ext.of_eq rfl rfl rfl, ht.1.ext (Ext.of_eq rfl rfl rfl), ht.2.1.ext (Ext.of_eq rfl rfl rfl), ht.2.2⟩
  | pApp v i total b =>
    simp only [thrCore]
    simp only [ThreadOk] at ht
    obtain ⟨hlr, ⟨uc, hi, hu⟩, hsz⟩ := ht
    rw [hi]
    simp only
    exact ⟨h.of_eq rfl rfl rfl rfl rfl, Ext.of_eq rfl rfl rfl, hlr.ext (Ext.of_eq rfl rfl rfl), ⟨uc, hi, hu⟩, hsz⟩
  | pUGet v i total =>
    simp only [thrCore]
    simp only [ThreadOk] at ht
    obtain ⟨hlr, ⟨uc, hi, hu⟩, hsz⟩ := ht
    rw [hi]
    simp only
    split
    · rename_i e hv
      obtain ⟨eo, g, a, b⟩ := h.evsl i uc _ e hi hv
      refine ⟨h, Ext.refl s, hlr, ⟨uc, hi, hu⟩, hsz, ?_⟩
      intro e' he'
      cases he'
      exact ⟨uc, eo, hi, hu, g, a, b⟩
    · refine ⟨h, Ext.refl s, hlr, ⟨uc, hi, hu⟩, hsz, ?_⟩
      intro e' he'
      cases he'
  | pUSet v i total ex =>
    simp only [thrCore]
    simp only [ThreadOk] at ht
    obtain ⟨hlr, ⟨uc, hi, hu⟩, hsz, hex⟩ := ht
    rw [hi]
    simp only
    have hgood : GoodV c.base s.log uc (uc.sel.map (hget r)) v :=
      ⟨_, hlr.1, rfl, hlr.2.1.symm, hu.symm, rfl, hlr.2.2.1, hsz, hlr.2.2.2⟩
    obtain ⟨h2, x2⟩ := setSlots_ok h hi (aset uc.slots (uc.sel.map (hget r)) (.val v))
      (by
        intro k v' g
        rw [aget_aset] at g
        split at g
        · rename_i hk
          cases g
          rw [← hk]
          exact hgood
        · exact h.vals i uc k v' hi g)
      (by
        intro k e g
        rw [aget_aset] at g
        split at g
        · cases g
        · exact h.evsl i uc k e hi g)
    cases ex with
    | none => exact ⟨h2, x2, trivial⟩
    | some e => exact ⟨h2, x2, hlr.ext x2, hsz, (hex e rfl).ext x2⟩
  | pERes v i total e =>
    simp only [thrCore]
    simp only [ThreadOk] at ht
    obtain ⟨hlr, hsz, uc, eo, hi, hu, he, a, b⟩ := ht
    rw [he]
    simp only
    have hgood : GoodV c.base s.log uc (uc.sel.map (hget r)) v :=
      ⟨_, hlr.1, rfl, hlr.2.1.symm, hu.symm, rfl, hlr.2.2.1, hsz, hlr.2.2.2⟩
    obtain ⟨h2, x2⟩ := setEv_ok (eo' := { eo with result := some v }) h he rfl rfl id (fun _ => rfl) (fun _ => rfl)
      (by
        intro v' hv'
        cases hv'
        rw [a, b]
        exact ⟨uc, hi, hgood⟩)
    exact ⟨h2, x2, { eo with result := some v }, by simp only; grind, rfl⟩
  | pESet v total e =>
    simp only [thrCore]
    simp only [ThreadOk] at ht
    obtain ⟨eo, he, hres⟩ := ht
    rw [he]
    simp only
    obtain ⟨h2, x2⟩ := setEv_ok (eo' := { eo with isSet := true }) h he rfl rfl (fun _ => rfl) id (fun _ => hres)
      (fun v' hv' => (h.evr e eo he).2 v' hv')
    exact ⟨h2, x2, trivial⟩
  | pCurW v total =>
    simp only [thrCore]
    exact ⟨h.of_eq rfl rfl rfl rfl rfl, Ext.of_eq rfl rfl rfl, trivial⟩
  | done o =>
    simp only [thrCore]
    exact ⟨h, Ext.refl s, ht⟩

theorem thrCore_thr (c : CCfg) (s : St) (th : Thread) : (thrCore c s th).1.thr = s.thr := by
  obtain ⟨r, p, t0, to, pc⟩ := th
  cases pc <;> simp only [thrCore] <;> (repeat' split) <;> rfl

/-! ### one step of the expiry thread -/

theorem xpStep_ok {s : St} (h : HeapInv cfg s) : HeapInv cfg (xpStep s) ∧ Ext s (xpStep s) := by
  unfold xpStep
  split
  · exact ⟨h.of_eq rfl rfl rfl rfl rfl, Ext.of_eq rfl rfl rfl⟩
  · split <;> exact ⟨h.of_eq rfl rfl rfl rfl rfl, Ext.of_eq rfl rfl rfl⟩
  · split <;> exact ⟨h.of_eq rfl rfl rfl rfl rfl, Ext.of_eq rfl rfl rfl⟩
  · rename_i c e i hxp
    split
    · exact ⟨h.of_eq rfl rfl rfl rfl rfl, Ext.of_eq rfl rfl rfl⟩
    · rename_i uc hi
      split
      · exact ⟨h.of_eq rfl rfl rfl rfl rfl, Ext.of_eq rfl rfl rfl⟩
      · obtain ⟨h2, x2⟩ := setSlots_ok h hi (adel uc.slots e.key)
          (by
            intro k v g
            rw [aget_adel] at g
            split at g
            · cases g
            · exact h.vals i uc k v hi g)
          (by
            intro k e' g
            rw [aget_adel] at g
            split at g
            · cases g
            · exact h.evsl i uc k e' hi g)
        exact ⟨h2.of_eq rfl rfl rfl rfl rfl, x2.trans (Ext.of_eq rfl rfl rfl)⟩
  · exact ⟨h.of_eq rfl rfl rfl rfl rfl, Ext.of_eq rfl rfl rfl⟩
  · exact ⟨h.of_eq rfl rfl rfl rfl rfl, Ext.of_eq rfl rfl rfl⟩
  · exact ⟨h.of_eq rfl rfl rfl rfl rfl, Ext.of_eq rfl rfl rfl⟩

theorem xpStep_thr (s : St) : (xpStep s).thr = s.thr := by
  unfold xpStep
  (repeat' split) <;> rfl

/-! ### every schedule -/

structure CInv (c : CCfg) (s : St) : Prop where
  heap : HeapInv c.base s
  thr : ∀ (j : Nat) (th : Thread), s.thr[j]? = some th → ThreadOk c.base s th

theorem CInv.init (c : CCfg) : CInv c {} where
  heap := by
    refine ⟨?_, ?_, ?_, ?_, ?_, ?_⟩ <;> intros <;> simp_all [aget]
  thr := by intro j th h; simp at h

theorem step_inv {c : CCfg} {s : St} (h : CInv c s) (a : Act) : CInv c (step c s a) ∧ Ext s (step c s a) := by
  cases a with
  | spawn r p =>
    simp only [CacheConc.step]
    have hx : Ext s { s with thr := s.thr ++ [⟨r, p, 0, false, .start⟩] } := Ext.of_eq rfl rfl rfl
    refine ⟨⟨h.heap.of_eq rfl rfl rfl rfl rfl, ?_⟩, hx⟩
    intro j th g
    simp only at g
    have : s.thr[j]? = some th ∨ th = ⟨r, p, 0, false, .start⟩ := by grind
    rcases this with g' | rfl
    · exact (h.thr j th g').ext hx
    · simp [ThreadOk]
  | thr j to =>
    simp only [CacheConc.step]
    split
    · exact ⟨h, Ext.refl s⟩
    · rename_i th hj
      split
      · obtain ⟨h1, x1, t1⟩ := thrCore_ok c h.heap (h.thr j th hj)
        have hx : Ext (thrCore c s th).1 (thrStep c s j th) := Ext.of_eq rfl rfl rfl
        refine ⟨⟨h1.of_eq rfl rfl rfl rfl rfl, ?_⟩, x1.trans hx⟩
        intro j' th' g
        simp only [thrStep, setThr, thrCore_thr] at g
        have : (j' = j ∧ th' = (thrCore c s th).2) ∨ s.thr[j']? = some th' := by grind
        rcases this with ⟨_, rfl⟩ | g'
        · exact t1.ext hx
        · exact (h.thr j' th' g').ext (x1.trans hx)
      · exact ⟨h, Ext.refl s⟩
  | xp =>
    simp only [CacheConc.step]
    obtain ⟨h1, x1⟩ := xpStep_ok h.heap
    refine ⟨⟨h1, ?_⟩, x1⟩
    intro j th g
    rw [xpStep_thr] at g
    exact (h.thr j th g).ext x1
  | tick n =>
    simp only [CacheConc.step]
    have hx : Ext s { s with now := s.now + n } := Ext.of_eq rfl rfl rfl
    exact ⟨⟨h.heap.of_eq rfl rfl rfl rfl rfl, fun j th g => (h.thr j th g).ext hx⟩, hx⟩

theorem run_inv {c : CCfg} (acts : List Act) {s : St} (h : CInv c s) : CInv c (run c s acts) ∧ Ext s (run c s acts) := by
  induction acts generalizing s with
  | nil => exact ⟨h, Ext.refl s⟩
  | cons a as ih =>
    obtain ⟨h1, x1⟩ := step_inv h a
    obtain ⟨h2, x2⟩ := ih h1
    exact ⟨h2, x1.trans x2⟩

/-! ### generation numbers: the log is strictly increasing -/

theorem thrCore_log (c : CCfg) (s : St) (th : Thread) :
    ((thrCore c s th).1.log = s.log ∧ (thrCore c s th).1.nextGen = s.nextGen) ∨
    ((thrCore c s th).1.log = s.log ++ [⟨s.nextGen, th.r, th.p, th.t0⟩] ∧ (thrCore c s th).1.nextGen = s.nextGen + 1) := by
  obtain ⟨r, p, t0, to, pc⟩ := th
  cases pc <;> simp only [thrCore] <;> (repeat' split) <;> first | exact Or.inl ⟨rfl, rfl⟩ | exact Or.inr ⟨rfl, rfl⟩ | exact Or.inl ⟨trivial, trivial⟩

def LogSorted (s : St) : Prop := s.log.Pairwise (fun a b => a.gen < b.gen) ∧ ∀ x ∈ s.log, x.gen < s.nextGen

theorem xpStep_log (s : St) : (xpStep s).log = s.log ∧ (xpStep s).nextGen = s.nextGen := by
  unfold xpStep
  (repeat' split) <;> exact ⟨rfl, rfl⟩

theorem step_logSorted {c : CCfg} {s : St} (h : LogSorted s) (a : Act) : LogSorted (CacheConc.step c s a) := by
  cases a with
  | spawn r p => exact h
  | tick n => exact h
  | xp =>
    simp only [CacheConc.step, LogSorted]
    rw [(xpStep_log s).1, (xpStep_log s).2]
    exact h
  | thr j to =>
    simp only [CacheConc.step]
    split
    · exact h
    · rename_i th hj
      split
      · simp only [LogSorted, thrStep, setThr]
        rcases thrCore_log c s th with ⟨a, b⟩ | ⟨a, b⟩
        · rw [a, b]; exact h
        · rw [a, b]
          refine ⟨List.pairwise_append.mpr ⟨h.1, by simp, ?_⟩, ?_⟩
          · intro x hx y hy
            simp at hy; subst hy
            exact h.2 x hx
          · intro x hx
            rcases List.mem_append.mp hx with hx | hx
            · exact Nat.lt_succ_of_lt (h.2 x hx)
            · simp at hx; subst hx; exact Nat.lt_succ_self _
      · exact h

theorem run_logSorted {c : CCfg} (acts : List Act) {s : St} (h : LogSorted s) : LogSorted (run c s acts) := by
  induction acts generalizing s with
  | nil => exact h
  | cons a as ih => exact ih (step_logSorted h a)

/-! ### cursize under every schedule -/

/-- the only bound on `cursize` that survives interleaving -/
def CurB (cfg : Cfg) (n : Int) : Prop := n ≤ 0 ∨ n < cfg.maxsize

/-- the `total_size` a thread inside `put` carries -/
def pcTotal : Pc → Option Int
  | .pSetdef _ _ t | .pApp _ _ t _ | .pUGet _ _ t | .pUSet _ _ t _ | .pERes _ _ t _ | .pESet _ t _ | .pCurW _ t => some t
  | _ => none

structure CurInv (cfg : Cfg) (s : St) : Prop where
  cur : CurB cfg s.cursize
  thr : ∀ (j : Nat) (th : Thread), s.thr[j]? = some th → ∀ t, pcTotal th.pc = some t → t < cfg.maxsize
  xp : ∀ c n, s.xp = .curW c n → CurB cfg n

theorem afterValue_total (c : CCfg) (th : Thread) (v : Variant) : pcTotal (afterValue c th v) = none := by
  unfold afterValue
  split <;> rfl

theorem thrCore_xp (c : CCfg) (s : St) (th : Thread) : (thrCore c s th).1.xp = s.xp := by
  obtain ⟨r, p, t0, to, pc⟩ := th
  cases pc <;> simp only [thrCore] <;> (repeat' split) <;> rfl

theorem thrCore_cursize (c : CCfg) (s : St) (th : Thread) :
    (thrCore c s th).1.cursize = s.cursize ∨ pcTotal th.pc = some (thrCore c s th).1.cursize := by
  obtain ⟨r, p, t0, to, pc⟩ := th
  cases pc
  case pCurW v t => exact Or.inr rfl
  all_goals (simp only [thrCore]; (repeat' split) <;> first | exact Or.inl rfl | exact Or.inl trivial)

theorem thrCore_total (c : CCfg) (s : St) (th : Thread) :
    ∀ t, pcTotal (thrCore c s th).2.pc = some t → pcTotal th.pc = some t ∨ t < c.base.maxsize := by
  obtain ⟨r, p, t0, to, pc⟩ := th
  cases pc
  case pCur v i =>
    simp only [thrCore]
    split
    · rename_i hsz
      intro t h
      simp only [pcTotal] at h
      cases h
      exact Or.inr hsz.2
    · intro t h; simp [pcTotal] at h
  all_goals (simp only [thrCore]; (repeat' split) <;> (try simp only [afterValue_total]) <;> simp [pcTotal])

theorem thrCore_cur (c : CCfg) {s : St} {th : Thread} (hc : CurB c.base s.cursize)
    (ht : ∀ t, pcTotal th.pc = some t → t < c.base.maxsize) :
    CurB c.base (thrCore c s th).1.cursize ∧ (∀ t, pcTotal (thrCore c s th).2.pc = some t → t < c.base.maxsize) ∧
      (thrCore c s th).1.xp = s.xp := by
  refine ⟨?_, ?_, thrCore_xp c s th⟩
  · rcases thrCore_cursize c s th with h | h
    · rw [h]; exact hc
    · exact Or.inr (ht _ h)
  · intro t h
    rcases thrCore_total c s th t h with h' | h'
    · exact ht t h'
    · exact h'

theorem xpStep_cur {cfg : Cfg} {s : St} (hc : CurB cfg s.cursize) (hx : ∀ c n, s.xp = .curW c n → CurB cfg n) :
    CurB cfg (xpStep s).cursize ∧ ∀ c n, (xpStep s).xp = .curW c n → CurB cfg n := by
  have adv : ∀ nowX l c n, xAdvance nowX l = .curW c n → False := by
    intro nowX l
    induction l with
    | nil => intro c n h; simp [xAdvance] at h
    | cons x xs ih =>
      intro c n h
      obtain ⟨d, b⟩ := x
      simp only [xAdvance] at h
      split at h
      · cases h
      · exact ih c n h
  unfold xpStep
  split
  · exact ⟨hc, fun c n h => (adv _ _ c n h).elim⟩
  · split <;> exact ⟨hc, fun c n h => by cases h⟩
  · split <;> exact ⟨hc, fun c n h => by cases h⟩
  · (repeat' split) <;> exact ⟨hc, fun c n h => by cases h⟩
  · rename_i c e
    refine ⟨hc, fun c' n h => ?_⟩
    cases h
    rcases hc with h1 | h1
    · exact Or.inl (by omega)
    · exact Or.inr (by omega)
  · rename_i c n hxp
    exact ⟨hx c n hxp, fun c' n' h => by cases h⟩
  · exact ⟨hc, fun c n h => (adv _ _ c n h).elim⟩

theorem step_curInv {c : CCfg} {s : St} (h : CurInv c.base s) (a : Act) : CurInv c.base (CacheConc.step c s a) := by
  cases a with
  | spawn r p =>
    refine ⟨h.cur, ?_, h.xp⟩
    intro j th g
    simp only [CacheConc.step] at g
    have : s.thr[j]? = some th ∨ th = ⟨r, p, 0, false, .start⟩ := by grind
    rcases this with g' | rfl
    · exact h.thr j th g'
    · simp [pcTotal]
  | tick n => exact ⟨h.cur, h.thr, h.xp⟩
  | xp =>
    simp only [CacheConc.step]
    obtain ⟨a, b⟩ := xpStep_cur h.cur h.xp
    refine ⟨a, ?_, b⟩
    intro j th g
    rw [xpStep_thr] at g
    exact h.thr j th g
  | thr j to =>
    simp only [CacheConc.step]
    split
    · exact h
    · rename_i th hj
      split
      · obtain ⟨a, b, d⟩ := thrCore_cur c h.cur (h.thr j th hj)
        refine ⟨a, ?_, ?_⟩
        · intro j' th' g
          simp only [thrStep, setThr, thrCore_thr] at g
          have : (j' = j ∧ th' = (thrCore c s th).2) ∨ s.thr[j']? = some th' := by grind
          rcases this with ⟨_, rfl⟩ | g'
          · exact b
          · exact h.thr j' th' g'
        · intro c' n hx
          simp only [thrStep, setThr] at hx
          rw [d] at hx
          exact h.xp c' n hx
      · exact h

theorem run_curInv {c : CCfg} (acts : List Act) {s : St} (h : CurInv c.base s) : CurInv c.base (run c s acts) := by
  induction acts generalizing s with
  | nil => exact h
  | cons a as ih => exact ih (step_curInv h a)

/-! ### the theorems: every configuration, any number of threads, every schedule -/

/-- **Genuine under interleaving.**  Whatever the schedule, a response served from the cache (read from a
    slot or handed over through an Event's `.result`) is the output of a logged handler run `x` for the same
    store key, whose request agrees with the served request on every selecting header of the resource
    (`sel` = the sorted Vary list of a logged response of that resource), and which was storable. -/
theorem C15_conc_hit_genuine_selecting (c : CCfg) (acts : List Act) (j : Nat) (th : Thread) (v : Variant) (a : Int)
    (hj : (run c {} acts).thr[j]? = some th) (hp : th.pc = .done (.hit v a)) :
    ∃ x ∈ (run c {} acts).log, ∃ sel, x.gen = v.gen ∧ x.t = v.created ∧ x.r.uri = th.r.uri ∧
      (∀ h ∈ sel, hget th.r h = hget x.r h) ∧
      (∃ y ∈ (run c {} acts).log, y.r.uri = th.r.uri ∧ sel = sortDesc y.p.vary) ∧ StorableRun c.base x := by
  have h := ((run_inv acts (CInv.init c)).1.thr j th hj)
  unfold ThreadOk at h
  rw [hp] at h
  obtain ⟨x, hx, sel, a1, a2, a3, a4, a5, a6, _⟩ := h
  exact ⟨x, hx, sel, a1, a2, a3, a4, a5, a6⟩

/-- a resource's logged responses always name the same Vary list (the documented assumption of MemoryCache) -/
def VaryStableLog (log : List Run) : Prop :=
  ∀ x ∈ log, ∀ y ∈ log, x.r.uri = y.r.uri → sortDesc x.p.vary = sortDesc y.p.vary

/-- under that assumption: agreement on every header named in THAT response's Vary -/
theorem C15_conc_hit_genuine (c : CCfg) (acts : List Act) (hs : VaryStableLog (run c {} acts).log)
    (j : Nat) (th : Thread) (v : Variant) (a : Int)
    (hj : (run c {} acts).thr[j]? = some th) (hp : th.pc = .done (.hit v a)) :
    ∃ x ∈ (run c {} acts).log, x.gen = v.gen ∧ x.t = v.created ∧ x.r.uri = th.r.uri ∧
      (∀ h ∈ x.p.vary, hget th.r h = hget x.r h) ∧ StorableRun c.base x := by
  obtain ⟨x, hx, sel, a1, a2, a3, a4, ⟨y, hy, b1, b2⟩, a6⟩ := C15_conc_hit_genuine_selecting c acts j th v a hj hp
  refine ⟨x, hx, a1, a2, a3, ?_, a6⟩
  intro h hh
  apply a4
  rw [b2, ← hs x hx y hy (a3.trans b1.symm)]
  exact (mem_sortDesc h x.p.vary).mpr hh

/-- **Fresh, and the Age header.**  `Age` is `int(response.time - create_time)` of the two requests (truncation
    toward zero), never more than `delay`, never more than a request `max-age`. -/
theorem C15_conc_fresh_age (c : CCfg) (acts : List Act) (j : Nat) (th : Thread) (v : Variant) (a : Int)
    (hj : (run c {} acts).thr[j]? = some th) (hp : th.pc = .done (.hit v a)) :
    a = ageOf th.t0 v.created ∧ a ≤ (c.base.delay : Int) ∧
      ∀ n, scanCC (sortDesc th.r.cc) = .proceed (some n) → a ≤ (n : Int) := by
  have h := ((run_inv acts (CInv.init c)).1.thr j th hj)
  unfold ThreadOk at h
  rw [hp] at h
  obtain ⟨x, hx, sel, _, _, _, _, _, _, ha, m, hm, hle⟩ := h
  refine ⟨ha, ?_, ?_⟩
  · cases m with
    | none => simpa [effMaxAge] using hle
    | some n => simp only [effMaxAge] at hle; omega
  · intro n hn
    rw [hm] at hn
    cases hn
    simp only [effMaxAge] at hle
    omega

/-- **No two handler runs share a generation number**: the log is strictly increasing. -/
theorem C15_conc_generation_unique (c : CCfg) (acts : List Act) :
    (run c {} acts).log.Pairwise (fun a b => a.gen < b.gen) :=
  (run_logSorted acts (s := {}) ⟨by simp, by simp⟩).1

/-- **No half-stored variant.**  In every reachable state an Event that is set carries its result, and every
    result / every slot value is a complete logged handler output for that resource and key. -/
theorem C15_conc_no_half_stored (c : CCfg) (acts : List Act) (e : Nat) (eo : EvObj)
    (he : (run c {} acts).evs[e]? = some eo) :
    (eo.isSet = true → eo.result.isSome = true) ∧
    ∀ v, eo.result = some v → ∃ uc : UC, (run c {} acts).ucs[eo.uc]? = some uc ∧
      GoodV c.base (run c {} acts).log uc eo.key v :=
  (run_inv acts (CInv.init c)).1.heap.evr e eo he

theorem C15_conc_stored_objects (c : CCfg) (acts : List Act) (i : Nat) (uc : UC) (k : List Str) (v : Variant)
    (hi : (run c {} acts).ucs[i]? = some uc) (hk : aget uc.slots k = some (.val v)) :
    GoodV c.base (run c {} acts).log uc k v :=
  (run_inv acts (CInv.init c)).1.heap.vals i uc k v hi hk

/-- **A waiter that wakes up receives the stored value.**  A thread whose `Event.wait` returned because the
    event was set (not because of the timeout) finds a result: a genuine response for its own resource and
    variant key; its next step goes on to read it (`eRes2`), it is NOT told to produce. -/
theorem C15_conc_woken_gets_value (c : CCfg) (acts : List Act) (j : Nat) (th : Thread) (i e : Nat)
    (hj : (run c {} acts).thr[j]? = some th) (hp : th.pc = .eRes i e) (hto : th.timedOut = false) :
    (∃ (eo : EvObj) (v : Variant) (uc : UC), (run c {} acts).evs[e]? = some eo ∧ eo.isSet = true ∧ eo.result = some v ∧
      (run c {} acts).ucs[i]? = some uc ∧ uc.uri = th.r.uri ∧
      GoodV c.base (run c {} acts).log uc (uc.sel.map (hget th.r)) v) ∧
    (thrCore c (run c {} acts) th).2.pc = .eRes2 e := by
  have hI := (run_inv acts (CInv.init c)).1
  have h := hI.thr j th hj
  unfold ThreadOk at h
  rw [hp] at h
  obtain ⟨_, ⟨uc, eo, hi, hu, he, a, b⟩, hset⟩ := h
  obtain ⟨eo', he', hs⟩ := hset hto
  rw [he] at he'; cases he'
  have hres := (hI.heap.evr e eo he).1 hs
  cases hr : eo.result with
  | none => rw [hr] at hres; cases hres
  | some v =>
    obtain ⟨uc', g', gv⟩ := (hI.heap.evr e eo he).2 v hr
    rw [a, hi] at g'; cases g'
    rw [b] at gv
    refine ⟨⟨eo, v, uc, he, hs, hr, hi, hu, gv⟩, ?_⟩
    obtain ⟨r, p, t0, to, pc⟩ := th
    simp only at hp
    subst hp
    simp only [thrCore, he, hr]

/-- the second read (`return value.result`) hands a genuine value on to the tool -/
theorem C15_conc_woken_value_served (c : CCfg) (acts : List Act) (j : Nat) (th : Thread) (e : Nat)
    (hj : (run c {} acts).thr[j]? = some th) (hp : th.pc = .eRes2 e) :
    ∃ (v : Variant) (i : Nat) (uc : UC), (run c {} acts).ucs[i]? = some uc ∧ uc.uri = th.r.uri ∧
      GoodV c.base (run c {} acts).log uc (uc.sel.map (hget th.r)) v ∧
      (thrCore c (run c {} acts) th).2.pc = afterValue c th v := by
  have hI := (run_inv acts (CInv.init c)).1
  have h := hI.thr j th hj
  unfold ThreadOk at h
  rw [hp] at h
  obtain ⟨_, ⟨i, uc, eo, hi, hu, he, a, b⟩, eo', he', hsome⟩ := h
  rw [he] at he'; cases he'
  cases hr : eo.result with
  | none => rw [hr] at hsome; cases hsome
  | some v =>
    obtain ⟨uc', g', gv⟩ := (hI.heap.evr e eo he).2 v hr
    rw [a, hi] at g'; cases g'
    rw [b] at gv
    refine ⟨v, i, uc, hi, hu, gv, ?_⟩
    obtain ⟨r, p, t0, to, pc⟩ := th
    simp only at hp
    subst hp
    simp only [thrCore, he, hr]

/-- **A waiter becomes the producer only through a timeout.** -/
theorem C15_conc_waiter_produces_only_after_timeout (c : CCfg) (acts : List Act) (j : Nat) (th : Thread) (i e : Nat)
    (hj : (run c {} acts).thr[j]? = some th) (hp : th.pc = .eRes i e)
    (hnext : (thrCore c (run c {} acts) th).2.pc = .uSetEv i) : th.timedOut = true := by
  cases hto : th.timedOut with
  | true => rfl
  | false =>
    have := (C15_conc_woken_gets_value c acts j th i e hj hp hto).2
    rw [this] at hnext
    cases hnext

/-- **cursize under every schedule**: never `maxsize` or more (unless it is not positive at all). -/
theorem C15_conc_cursize_upper (c : CCfg) (acts : List Act) :
    (run c {} acts).cursize ≤ 0 ∨ (run c {} acts).cursize < c.base.maxsize :=
  (run_curInv acts (s := {}) ⟨Or.inl (by decide), by intro j th h; simp at h, by intro c n h; cases h⟩).cur

/-- **The sweep never adds or resurrects anything**: a step of the expiry thread leaves every
    AntiStampedeCache with a subset of its slots, and `store`, the Events and the log untouched. -/
theorem C15_conc_sweep_never_adds (s : St) :
    (xpStep s).store = s.store ∧ (xpStep s).evs = s.evs ∧ (xpStep s).log = s.log ∧
    ∀ (i : Nat) (uc' : UC), (xpStep s).ucs[i]? = some uc' →
      ∃ uc : UC, s.ucs[i]? = some uc ∧ uc'.uri = uc.uri ∧ uc'.sel = uc.sel ∧
        ∀ k sv, aget uc'.slots k = some sv → aget uc.slots k = some sv := by
  have same : ∀ s' : St, s'.ucs = s.ucs → ∀ (i : Nat) (uc' : UC), s'.ucs[i]? = some uc' →
      ∃ uc : UC, s.ucs[i]? = some uc ∧ uc'.uri = uc.uri ∧ uc'.sel = uc.sel ∧
        ∀ k sv, aget uc'.slots k = some sv → aget uc.slots k = some sv := by
    intro s' hs i uc' g
    exact ⟨uc', by rw [← hs]; exact g, rfl, rfl, fun _ _ h => h⟩
  unfold xpStep
  split
  · exact ⟨rfl, rfl, rfl, same _ rfl⟩
  · split <;> exact ⟨rfl, rfl, rfl, same _ rfl⟩
  · split <;> exact ⟨rfl, rfl, rfl, same _ rfl⟩
  · rename_i c e i hxp
    split
    · exact ⟨rfl, rfl, rfl, same _ rfl⟩
    · rename_i uc hi
      split
      · exact ⟨rfl, rfl, rfl, same _ rfl⟩
      · refine ⟨rfl, rfl, rfl, ?_⟩
        intro i' uc' g
        simp only [setSlots, List.getElem?_set] at g
        by_cases hii : i = i'
        · subst hii
          have hlt : i < s.ucs.length := by
            rcases Nat.lt_or_ge i s.ucs.length with h1 | h1
            · exact h1
            · rw [List.getElem?_eq_none h1] at hi; cases hi
          simp [hlt] at g
          subst g
          refine ⟨uc, hi, rfl, rfl, ?_⟩
          intro k sv hk
          simp only at hk
          rw [aget_adel] at hk
          split at hk
          · cases hk
          · exact hk
        · simp [hii] at g
          exact ⟨uc', g, rfl, rfl, fun _ _ h => h⟩
  · exact ⟨rfl, rfl, rfl, same _ rfl⟩
  · exact ⟨rfl, rfl, rfl, same _ rfl⟩
  · exact ⟨rfl, rfl, rfl, same _ rfl⟩

/-- **Only a `put` makes a deleted resource reappear**: once `store` has no entry for `u`, it has none after
    any act that is not the `store[uri] = AntiStampedeCache()` of a request for `u` (which only a request
    that ran its handler executes). -/
theorem C15_conc_deleted_stays_deleted (c : CCfg) (s : St) (u : Str) (a : Act) (h : aget s.store u = none)
    (hput : ∀ j to th v, a = .thr j to → s.thr[j]? = some th → th.pc = .pNew v → th.r.uri ≠ u) :
    aget (CacheConc.step c s a).store u = none := by
  cases a with
  | spawn r p => exact h
  | tick n => exact h
  | xp =>
    simp only [CacheConc.step]
    rw [(C15_conc_sweep_never_adds s).1]
    exact h
  | thr j to =>
    simp only [CacheConc.step]
    split
    · exact h
    · rename_i th hj
      split
      · simp only [thrStep, setThr]
        obtain ⟨r, p, t0, tout, pc⟩ := th
        cases pc
        case pNew v =>
          simp only [thrCore]
          rw [aget_aset]
          have := hput j to _ _ rfl hj rfl
          simp only at this
          rw [if_neg this]
          exact h
        case inval =>
          simp only [thrCore]
          rw [aget_adel]
          split
          · rfl
          · exact h
        case tPop g =>
          simp only [thrCore]
          rw [aget_adel]
          split
          · rfl
          · exact h
        all_goals (simp only [thrCore]; (repeat' split) <;> exact h)
      · exact h

/-! ### what does NOT hold under interleaving: witnesses (each is replayed on the real threads by the harness,
    `corpus/C15/conc-*.json`) -/

def wCfg : CCfg := { base := { delay := 1, maxobjects := 1000, maxobjSize := 100000, maxsize := 10000000 }, waits := true }
def hXA : Str := ['X', '-', 'A']
def wGet (path : Str) (a : Char) : Req :=
  { method := ['G', 'E', 'T'], uri := path, hdrs := [(hXA, [a])], pragma := [], cc := [] }
def wPost (path : Str) : Req := { method := ['P', 'O', 'S', 'T'], uri := path, hdrs := [], pragma := [], cc := [] }
def wPlan : Plan := { vary := [hXA], size := 12, noStore := false, pragmaNoCache := false }
def pA : Str := ['/', 'a']
def pB : Str := ['/', 'b']
def steps (j n : Nat) : List Act := List.replicate n (.thr j false)
def xsteps (n : Nat) : List Act := List.replicate n .xp

/-- **Two producers without any timeout.**  `wait` reads the slot (`uGet`) and places its Event (`uSetEv`) in
    two accesses: two threads that both read the empty slot before either wrote are BOTH told to produce.
    (Thread 0 only creates the resource; threads 1 and 2 ask for the same, other, variant.) -/
def twoProducers : List Act :=
  [.spawn (wGet pA 'p') wPlan] ++ steps 0 12 ++ [.spawn (wGet pA 'q') wPlan, .spawn (wGet pA 'q') wPlan] ++
    steps 1 3 ++ steps 2 3 ++ steps 1 1 ++ steps 2 1

theorem C15_conc_two_producers_witness :
    (run wCfg {} twoProducers).thr.map (fun t => (t.pc, t.timedOut)) =
      [(.done (.miss 1 true), false), (.handler true, false), (.handler true, false)] := by decide

/-- the statement "at most one thread is told to produce per slot unless a timeout elapsed" is false -/
def C15_conc_single_producer_full : Prop :=
  ∀ (c : CCfg) (acts : List Act) (j k : Nat) (tj tk : Thread), c.waits = true → j ≠ k →
    (run c {} acts).thr[j]? = some tj → (run c {} acts).thr[k]? = some tk →
    tj.pc = .handler true → tk.pc = .handler true → tj.r = tk.r →
    aget (run c {} acts).store tj.r.uri ≠ none → tj.timedOut = true ∨ tk.timedOut = true

theorem C15_conc_single_producer_full_false : ¬ C15_conc_single_producer_full := by
  intro h
  have := h wCfg twoProducers 1 2 ⟨wGet pA 'q', wPlan, 0, false, .handler true⟩ ⟨wGet pA 'q', wPlan, 0, false, .handler true⟩
    rfl (by decide) (by decide) (by decide) rfl rfl rfl (by decide)
  revert this
  decide

/-- **cursize can go negative**: two puts read `cursize = 0` before either writes, both write 12; the sweep
    then gives back 12 twice.  (Sequentially `0 ≤ cursize` is an invariant: `C15_size_bounds`.) -/
def lostUpdate : List Act :=
  [.spawn (wGet pA 'p') wPlan, .spawn (wGet pB 'p') wPlan] ++ steps 0 7 ++ steps 1 7 ++ steps 0 5 ++ steps 1 5 ++
    [.tick 4] ++ xsteps 13

theorem C15_conc_cursize_negative_witness :
    (run wCfg {} (lostUpdate.take 26)).cursize = 12 ∧ countVals (run wCfg {} (lostUpdate.take 26)) = 2 ∧
    (run wCfg {} lostUpdate).cursize = -12 ∧ countVals (run wCfg {} lostUpdate) = 0 := by decide

/-- **A put racing the sweep can leave a response that is never swept**: `put` obtained the bucket
    (`setdefault`), the sweep found the bucket due and empty and deleted its key, `put` appended to the orphan. -/
def orphanBucket : List Act :=
  [.spawn (wGet pA 'p') wPlan] ++ steps 0 8 ++ [.tick 4] ++ xsteps 3 ++ steps 0 4 ++ [.tick 100] ++ xsteps 1

theorem C15_conc_orphan_bucket_witness :
    (run wCfg {} orphanBucket).exps = [] ∧ countVals (run wCfg {} orphanBucket) = 1 ∧
    (run wCfg {} orphanBucket).cursize = 12 ∧ (run wCfg {} orphanBucket).thr.map (·.pc) = [.done (.miss 1 true)] := by
  decide

/-- **An invalidating request does not stop a miss that is in flight**: the GET of thread 0 ran its handler
    (generation 1) before the POST of thread 1 began; its `put` runs after the POST's `delete`; thread 2's GET,
    begun after the POST had finished, is served generation 1.  (No statement of C15 about sequential
    histories is contradicted: thread 0's request overlaps the POST.) -/
def invalRace : List Act :=
  [.spawn (wGet pA 'p') wPlan] ++ steps 0 3 ++ [.spawn (wPost pA) wPlan] ++ steps 1 3 ++ steps 0 9 ++
    [.spawn (wGet pA 'p') wPlan] ++ steps 2 3

theorem C15_conc_invalidate_race_witness :
    (run wCfg {} invalRace).thr.map (·.pc) =
      [.done (.miss 1 true), .done (.miss 2 false), .done (.hit ⟨1, 0⟩ 0)] := by decide

/-- **Age can be negative**: the reader's `response.time` (taken when its request began) precedes the
    producer's. -/
def negativeAge : List Act :=
  [.spawn (wGet pA 'p') wPlan] ++ steps 0 1 ++ [.tick 8, .spawn (wGet pA 'p') wPlan] ++ steps 1 12 ++ steps 0 2

theorem C15_conc_negative_age_witness :
    (run wCfg {} negativeAge).thr.map (·.pc) = [.done (.hit ⟨1, 8⟩ (-2)), .done (.miss 1 true)] := by decide

/-- **A waiter that times out at the wrong moment overwrites a just stored response** with its own
    placeholder (`__setitem__` stores before it sets the Event): nothing wrong is ever served, the response
    is produced once more, `cursize` counts three objects for two. -/
def timeoutOverwrite : List Act :=
  [.spawn (wGet pA 'p') wPlan] ++ steps 0 12 ++ [.spawn (wGet pA 'q') wPlan, .spawn (wGet pA 'q') wPlan] ++
    steps 1 4 ++ steps 2 3 ++ steps 1 8 ++ [.thr 2 true] ++ steps 2 2 ++ steps 1 3 ++ steps 2 11

set_option maxRecDepth 4000 in
theorem C15_conc_timeout_overwrite_witness :
    (run wCfg {} timeoutOverwrite).thr.map (·.pc) =
      [.done (.miss 1 true), .done (.miss 2 true), .done (.miss 3 true)] ∧
    (run wCfg {} timeoutOverwrite).cursize = 36 ∧ countVals (run wCfg {} timeoutOverwrite) = 2 := by decide

/-! non-vacuity: a schedule in which a waiter really is woken and served the producer's value -/
def wokenServed : List Act :=
  [.spawn (wGet pA 'p') wPlan] ++ steps 0 12 ++ [.spawn (wGet pA 'q') wPlan, .spawn (wGet pA 'q') wPlan] ++
    steps 1 4 ++ steps 2 3 ++ steps 1 11 ++ steps 2 3

example : (run wCfg {} (wokenServed.take 34)).thr.map (fun t => (t.pc, t.timedOut)) =
    [(.done (.miss 1 true), false), (.done (.miss 2 true), false), (.eRes 0 0, false)] := by decide
example : (run wCfg {} wokenServed).thr.map (·.pc) =
    [.done (.miss 1 true), .done (.miss 2 true), .done (.hit ⟨2, 0⟩ 0)] := by decide
example : VaryStableLog (run wCfg {} wokenServed).log := by
  intro x hx y hy _
  have : ∀ z ∈ (run wCfg {} wokenServed).log, z.p = wPlan := by decide
  rw [this x hx, this y hy]

end CpProofs.C15Conc
