import CpModel.Dispatch
/-!
  C02 — only exposed handlers are reachable, and the most specific one is chosen.

  Theorems are about `CpModel.Dispatch` (the transcription of `Dispatcher.find_handler`,
  `Dispatcher.__call__`, `MethodDispatcher.__call__`).  They quantify over *all* object graphs,
  application configs, translation functions (in particular the generated table) and paths.
-/
namespace CpProofs.C02
open CpModel.Dispatch

/-! ### candidates, declaratively -/

/-- `h` is a candidate offered by trail entry `e`: the exposed `default` attribute of the entry's
    object (`viaDefault`, the mark is the method's own) or the exposed object itself. -/
def CandAt (g : Graph) (e : Entry) (h : NodeId) (viaDefault : Bool) : Prop :=
  ∃ c, e.node = some c ∧
    ((viaDefault = true ∧ g.getattr (some c) defaultName = some h ∧ g.exposed h = true) ∨
     (viaDefault = false ∧ h = c ∧ g.exposed c = true))

/-- `f` is a candidate of the trail: entry `f.idx` offers `f.handler`. -/
def Cand (g : Graph) (trail : List Entry) (f : Found) : Prop :=
  ∃ e, trail[f.idx]? = some e ∧ f.segleft = e.segleft ∧ CandAt g e f.handler f.viaDefault

/-- `f'` is no more specific than `f`: shallower, or at the same trail index with `default` first. -/
def NoBetter (f' f : Found) : Prop :=
  f'.idx < f.idx ∨ (f'.idx = f.idx ∧ (f.viaDefault = true ∨ f'.viaDefault = false))

/-! ### the reverse scan -/

theorem scan_exposed (g : Graph) : ∀ (rt : List Entry) (f : Found), scan g rt = some f →
    g.exposed f.handler = true := by
  intro rt
  induction rt with
  | nil => intro f h; simp [scan] at h
  | cons e before ih =>
    intro f h
    simp only [scan] at h
    split at h
    · exact ih f h
    · rename_i c hc
      split at h
      · rename_i d hd
        injection h with h; subst h
        split at hd
        · split at hd
          · injection hd with hd; subst hd; assumption
          · cases hd
        · cases hd
      · split at h
        · injection h with h; subst h; assumption
        · exact ih f h

/-- What `scan` returns is a candidate of the (un-reversed) trail, and every candidate is no better. -/
theorem scan_spec (g : Graph) : ∀ (rt : List Entry),
    (∀ f, scan g rt = some f → Cand g rt.reverse f ∧ ∀ f', Cand g rt.reverse f' → NoBetter f' f) ∧
    (scan g rt = none → ∀ f', ¬ Cand g rt.reverse f') := by
  intro rt
  induction rt with
  | nil =>
    refine ⟨by intro f h; simp [scan] at h, ?_⟩
    intro _ f' ⟨e, he, _⟩
    simp at he
  | cons e before ih =>
    obtain ⟨ih1, ih2⟩ := ih
    -- indices: the head of the reversed trail sits at index `before.length`
    have hidx : (e :: before).reverse[before.length]? = some e := by
      simp
    have hlt : ∀ (i : Nat) (x : Entry), (e :: before).reverse[i]? = some x →
        i < before.length ∧ before.reverse[i]? = some x ∨ i = before.length ∧ x = e := by
      intro i x hx
      simp only [List.reverse_cons] at hx
      by_cases hi : i < before.length
      · left
        refine ⟨hi, ?_⟩
        rw [List.getElem?_append_left (by simpa using hi)] at hx
        exact hx
      · right
        rw [List.getElem?_append_right (by simpa using Nat.le_of_not_lt hi)] at hx
        simp only [List.length_reverse] at hx
        by_cases h0 : i - before.length = 0
        · have : i = before.length := by omega
          subst this
          simp at hx
          exact ⟨rfl, hx.symm⟩
        · obtain ⟨k, hk⟩ := Nat.exists_eq_succ_of_ne_zero h0
          rw [hk] at hx
          simp at hx
    -- candidates of the shorter trail are candidates of the longer one
    have lift : ∀ f', Cand g before.reverse f' → Cand g (e :: before).reverse f' := by
      intro f' ⟨x, hx, hs, hc⟩
      refine ⟨x, ?_, hs, hc⟩
      simp only [List.reverse_cons]
      have : f'.idx < before.reverse.length := by
        have := List.getElem?_eq_some_iff.mp hx
        exact this.1
      rw [List.getElem?_append_left this]
      exact hx
    -- a candidate of the longer trail is one of the shorter trail or sits at the head entry
    have split_cand : ∀ f', Cand g (e :: before).reverse f' →
        (f'.idx < before.length ∧ Cand g before.reverse f') ∨
        (f'.idx = before.length ∧ f'.segleft = e.segleft ∧ CandAt g e f'.handler f'.viaDefault) := by
      intro f' ⟨x, hx, hs, hc⟩
      rcases hlt _ _ hx with ⟨hi, hx'⟩ | ⟨hi, hxe⟩
      · exact .inl ⟨hi, x, hx', hs, hc⟩
      · subst hxe; exact .inr ⟨hi, hs, hc⟩
    constructor
    · intro f h
      simp only [scan] at h
      split at h
      · -- entry's object is None: no candidate here
        rename_i hnone
        obtain ⟨hc, hb⟩ := ih1 f h
        refine ⟨lift f hc, ?_⟩
        intro f' hf'
        rcases split_cand f' hf' with ⟨_, hc'⟩ | ⟨_, _, c, hcn, _⟩
        · exact hb f' hc'
        · rw [hnone] at hcn; cases hcn
      · rename_i c hc
        split at h
        · -- exposed default
          rename_i d hd
          injection h with h; subst h
          have hdd : g.getattr (some c) defaultName = some d ∧ g.exposed d = true := by
            split at hd
            · rename_i d' hd'
              split at hd
              · injection hd with hd; subst hd; exact ⟨hd', by assumption⟩
              · cases hd
            · cases hd
          refine ⟨⟨e, hidx, rfl, c, hc, .inl ⟨rfl, hdd.1, hdd.2⟩⟩, ?_⟩
          intro f' hf'
          rcases split_cand f' hf' with ⟨hi, _⟩ | ⟨hi, _, _⟩
          · exact .inl hi
          · exact .inr ⟨hi, .inl rfl⟩
        · rename_i hd
          have hnodef : ∀ d, g.getattr (some c) defaultName = some d → g.exposed d = false := by
            intro d hdd
            rw [hdd] at hd
            simp only at hd
            split at hd
            · cases hd
            · rename_i hne; simpa using hne
          split at h
          · -- the object itself is exposed
            rename_i hexp
            injection h with h; subst h
            refine ⟨⟨e, hidx, rfl, c, hc, .inr ⟨rfl, rfl, hexp⟩⟩, ?_⟩
            intro f' hf'
            rcases split_cand f' hf' with ⟨hi, _⟩ | ⟨hi, _, c', hc', hcase⟩
            · exact .inl hi
            · rw [hc] at hc'; injection hc' with hc'; subst hc'
              rcases hcase with ⟨_, hga, hex⟩ | ⟨hv, _, _⟩
              · rw [hnodef _ hga] at hex; cases hex
              · exact .inr ⟨hi, .inr hv⟩
          · rename_i hexp
            obtain ⟨hcb, hb⟩ := ih1 f h
            refine ⟨lift f hcb, ?_⟩
            intro f' hf'
            rcases split_cand f' hf' with ⟨_, hc'⟩ | ⟨_, _, c', hc', hcase⟩
            · exact hb f' hc'
            · rw [hc] at hc'; injection hc' with hc'; subst hc'
              rcases hcase with ⟨_, hga, hex⟩ | ⟨_, _, hex⟩
              · rw [hnodef _ hga] at hex; cases hex
              · rw [hex] at hexp; exact absurd rfl hexp
    · intro h f' hf'
      simp only [scan] at h
      split at h
      · rename_i hnone
        rcases split_cand f' hf' with ⟨_, hc'⟩ | ⟨_, _, c, hcn, _⟩
        · exact ih2 h f' hc'
        · rw [hnone] at hcn; cases hcn
      · rename_i c hc
        split at h
        · cases h
        · rename_i hd
          have hnodef : ∀ d, g.getattr (some c) defaultName = some d → g.exposed d = false := by
            intro d hdd
            rw [hdd] at hd
            simp only at hd
            split at hd
            · cases hd
            · rename_i hne; simpa using hne
          split at h
          · cases h
          · rename_i hexp
            rcases split_cand f' hf' with ⟨_, hc'⟩ | ⟨_, _, c', hc', hcase⟩
            · exact ih2 h f' hc'
            · rw [hc] at hc'; injection hc' with hc'; subst hc'
              rcases hcase with ⟨_, hga, hex⟩ | ⟨_, _, hex⟩
              · rw [hnodef _ hga] at hex; cases hex
              · rw [hex] at hexp; exact absurd rfl hexp


/-! ### an independently written resolver (forward, functional) -/

/-- The candidates a trail entry offers, in the order of preference. -/
def candidatesOf (g : Graph) (e : Entry) (i : Nat) : List Found :=
  match e.node with
  | none => []
  | some c =>
    (match g.getattr (some c) defaultName with
      | some d => if g.exposed d then [⟨d, true, i, e.segleft⟩] else []
      | none => []) ++
    (if g.exposed c then [⟨c, false, i, e.segleft⟩] else [])

/-- One step of the forward pass: remember the preferred candidate of the latest entry that has one. -/
def specStep (g : Graph) (acc : Nat × Option Found) (e : Entry) : Nat × Option Found :=
  (acc.1 + 1, match (candidatesOf g e acc.1).head? with
              | some f => some f
              | none => acc.2)

/-- Declarative resolver: walk the trail root → leaf, keep the last entry's preferred candidate. -/
def specResolve (g : Graph) (trail : List Entry) : Option Found :=
  (trail.foldl (specStep g) (0, none)).2

/-- The forward pass, written as a recursion on the reversed trail. -/
def specRev (g : Graph) : List Entry → Nat × Option Found
  | [] => (0, none)
  | e :: before => specStep g (specRev g before) e

theorem specRev_eq_foldr (g : Graph) (rt : List Entry) :
    specRev g rt = rt.foldr (fun e acc => specStep g acc e) (0, none) := by
  induction rt with
  | nil => rfl
  | cons e before ih => rw [specRev, ih, List.foldr]

theorem specRev_fst (g : Graph) (rt : List Entry) : (specRev g rt).1 = rt.length := by
  induction rt with
  | nil => rfl
  | cons e before ih => rw [specRev, specStep, ih, List.length_cons]

theorem scan_eq_specRev (g : Graph) (rt : List Entry) : scan g rt = (specRev g rt).2 := by
  induction rt with
  | nil => rfl
  | cons e before ih =>
    rw [specRev, specStep, specRev_fst, scan, candidatesOf]
    cases hn : e.node with
    | none => simp [ih]
    | some c =>
      simp only
      cases hd : g.getattr (some c) defaultName with
      | none =>
        simp only
        by_cases hx : g.exposed c = true
        · simp [hx]
        · simp [hx, ih]
      | some d =>
        simp only
        by_cases hdx : g.exposed d = true
        · simp [hdx]
        · by_cases hx : g.exposed c = true
          · simp [hdx, hx]
          · simp [hdx, hx, ih]

/-- The reverse scan of `find_handler` computes exactly the declarative resolver. -/
theorem scan_eq_specResolve (g : Graph) (trail : List Entry) :
    scan g trail.reverse = specResolve g trail := by
  rw [scan_eq_specRev, specRev_eq_foldr, specResolve, List.foldr_reverse]


/-! ### the walk -/

/-- One iteration appends exactly one trail entry and strictly shortens `iternames`. -/
theorem walkStep_ok {tr : Name → Name} {app : App} {fp : List Name} {st st' : WalkSt} {name : Name}
    {rest : List Name} (h : walkStep tr app fp st name rest = .ok st') :
    st'.iter.length ≤ rest.length ∧
    ∃ e, st'.trail = st.trail ++ [e] ∧ e.name = name ∧ e.node = st'.node ∧
      e.segleft = st'.iter.length := by
  unfold walkStep at h
  split at h
  · cases h
  · rename_i sub iter1 hres
    dsimp only at h
    split at h
    · cases h
    · rename_i hle
      injection h with h; subst h
      dsimp only
      refine ⟨?_, _, rfl, rfl, rfl, rfl⟩
      split
      · rename_i heq; simp only [List.length_drop]; omega
      · omega

theorem resolve_err {tr : Name → Name} {g : Graph} {node : Option NodeId} {name : Name}
    {rest : List Name} {e : Err} (h : resolve tr g node name rest = .error e) :
    e = .unknownDispatch ∨ e = .dispatchRaised := by
  unfold resolve at h
  split at h
  · cases h
  · split at h
    · cases h
    · dsimp only at h
      split at h
      · split at h
        · injection h with h; exact .inl h.symm
        · split at h
          · injection h with h; exact .inr h.symm
          · cases h
      · cases h

theorem walk_ne_outOfFuel (tr : Name → Name) (app : App) (fp : List Name) :
    ∀ (fuel : Nat) (st : WalkSt), st.iter.length ≤ fuel → walk tr app fp fuel st ≠ .error .outOfFuel := by
  intro fuel
  induction fuel with
  | zero =>
    intro st hle
    have : st.iter = [] := List.eq_nil_of_length_eq_zero (by omega)
    simp [walk, this]
  | succ n ih =>
    intro st hle
    unfold walk
    split
    · simp
    · rename_i name rest hit
      split
      · rename_i e he
        intro hc
        injection hc with hc; subst hc
        -- walkStep itself never reports outOfFuel
        unfold walkStep at he
        split at he
        · rename_i e' hres
          injection he with he; subst he
          rcases resolve_err hres with h | h <;> cases h
        · dsimp only at he
          split at he <;> cases he
      · rename_i st' hst
        have := (walkStep_ok hst).1
        apply ih
        rw [hit] at hle
        simp only [List.length_cons] at hle
        omega

/-- The fuel `len(fullpath)` given to the loop is always enough: the model artefact `outOfFuel` is
    unreachable, for every graph, config, translation and path. -/
theorem walk_no_outOfFuel (tr : Name → Name) (app : App) (path : List Char) :
    findHandlerWith tr app path ≠ .error .outOfFuel := by
  unfold findHandlerWith trailOf
  dsimp only
  have := walk_ne_outOfFuel tr app (fullpathOf (segments path)) (fullpathOf (segments path)).length
    { node := some app.g.root, iter := fullpathOf (segments path),
      trail := [rootEntry app (fullpathOf (segments path)).length] } (Nat.le_refl _)
  split
  · rename_i e he
    split at he
    · rename_i e' hw
      injection he with he; subst he
      intro hc; injection hc with hc; subst hc
      exact this hw
    · cases he
  · split <;> simp


/-! ### `find_handler` as a whole -/

theorem findHandler_ok {tr : Name → Name} {app : App} {path : List Char} {r : FindResult}
    (h : findHandlerWith tr app path = .ok r) :
    ∃ trail, trailOf tr app (segments path) = .ok trail ∧
      r.found = scan app.g trail.reverse ∧
      (∀ f, r.found = some f →
        r.vpath = vpathOf (fullpathOf (segments path)) f.segleft ∧
        r.trail = insertDefault app.g trail f) ∧
      (r.found = none → r.vpath = [] ∧ r.trail = trail) := by
  unfold findHandlerWith at h
  dsimp only at h
  split at h
  · cases h
  · rename_i trail htr
    refine ⟨trail, htr, ?_⟩
    split at h
    · rename_i hs
      injection h with h; subst h
      simp [hs]
    · rename_i f hs
      injection h with h; subst h
      refine ⟨hs.symm, ?_, by simp⟩
      intro f' hf'
      injection hf' with hf'; subst hf'
      exact ⟨rfl, rfl⟩

/-- **C02, exposed only.**  Whatever `find_handler` returns carries a true `exposed` mark — for every
    object graph, every application config, every translation table and every path. -/
theorem C02_exposed_only {tr : Name → Name} {app : App} {path : List Char} {r : FindResult} {f : Found}
    (h : findHandlerWith tr app path = .ok r) (hf : r.found = some f) :
    app.g.exposed f.handler = true := by
  obtain ⟨trail, _, hscan, _⟩ := findHandler_ok h
  rw [hf] at hscan
  exact scan_exposed _ _ _ hscan.symm

/-- **C02, most specific.**  The returned handler is a candidate of the object trail, no candidate is
    more specific (deeper trail index; `default` first at the same index); `None` is returned exactly
    when the trail offers no candidate at all. -/
theorem C02_most_specific {tr : Name → Name} {app : App} {path : List Char} {r : FindResult}
    (h : findHandlerWith tr app path = .ok r) :
    ∃ trail, trailOf tr app (segments path) = .ok trail ∧
      (∀ f, r.found = some f → Cand app.g trail f ∧ ∀ f', Cand app.g trail f' → NoBetter f' f) ∧
      (r.found = none → ∀ f', ¬ Cand app.g trail f') := by
  obtain ⟨trail, htr, hscan, _⟩ := findHandler_ok h
  refine ⟨trail, htr, ?_, ?_⟩
  · intro f hf
    have := (scan_spec app.g trail.reverse).1 f (by rw [← hscan, hf])
    simpa using this
  · intro hn
    have := (scan_spec app.g trail.reverse).2 (by rw [← hscan, hn])
    simpa using this

theorem C02_handler_is_candidate {tr : Name → Name} {app : App} {path : List Char} {r : FindResult}
    {f : Found} (h : findHandlerWith tr app path = .ok r) (hf : r.found = some f) :
    ∃ trail, trailOf tr app (segments path) = .ok trail ∧ Cand app.g trail f := by
  obtain ⟨trail, htr, h1, _⟩ := C02_most_specific h
  exact ⟨trail, htr, (h1 f hf).1⟩

/-- For the `default` branch the mark that counts is the method's own: the handler is the `default`
    attribute of a trail object and *it* is exposed (nothing is asked of the object). -/
theorem C02_exposed_only_default_own_mark {tr : Name → Name} {app : App} {path : List Char}
    {r : FindResult} {f : Found}
    (h : findHandlerWith tr app path = .ok r) (hf : r.found = some f) (hd : f.viaDefault = true) :
    ∃ trail e c, trailOf tr app (segments path) = .ok trail ∧ trail[f.idx]? = some e ∧
      e.node = some c ∧ app.g.getattr (some c) defaultName = some f.handler ∧
      app.g.exposed f.handler = true := by
  obtain ⟨trail, htr, e, he, _, c, hc, hcase⟩ := C02_handler_is_candidate h hf
  refine ⟨trail, e, c, htr, he, hc, ?_⟩
  rcases hcase with ⟨_, hga, hex⟩ | ⟨hv, _, _⟩
  · exact ⟨hga, hex⟩
  · rw [hd] at hv; cases hv

/-- `find_handler` is the independently written forward resolver applied to the object trail. -/
theorem C02_most_specific_fun {tr : Name → Name} {app : App} {path : List Char} {r : FindResult}
    (h : findHandlerWith tr app path = .ok r) :
    ∃ trail, trailOf tr app (segments path) = .ok trail ∧ r.found = specResolve app.g trail := by
  obtain ⟨trail, htr, hscan, _⟩ := findHandler_ok h
  exact ⟨trail, htr, by rw [hscan, scan_eq_specResolve]⟩

/-- 404 (`None, []`) exactly when no trail entry offers an exposed candidate. -/
theorem C02_not_found_iff {tr : Name → Name} {app : App} {path : List Char} {r : FindResult}
    (h : findHandlerWith tr app path = .ok r) :
    r.found = none ↔
      ∃ trail, trailOf tr app (segments path) = .ok trail ∧ ∀ f', ¬ Cand app.g trail f' := by
  obtain ⟨trail, htr, h1, h2⟩ := C02_most_specific h
  constructor
  · intro hn; exact ⟨trail, htr, h2 hn⟩
  · intro ⟨trail', htr', hno⟩
    rw [htr] at htr'; injection htr' with htr'; subst htr'
    cases hf : r.found with
    | none => rfl
    | some f => exact absurd (h1 f hf).1 (hno f)

/-! ### virtual path -/

theorem drop_append_singleton_dropLast {α : Type} (x : α) : ∀ (l : List α) (a : Nat),
    ((l ++ [x]).drop a).dropLast = l.drop a := by
  intro l
  induction l with
  | nil => intro a; cases a <;> simp
  | cons y ys ih =>
    intro a
    cases a with
    | zero =>
      simp only [List.drop_zero]
      exact List.dropLast_concat
    | succ n => simpa using ih n

/-- **C02, vpath (general).**  Whatever dispatchers did, the virtual path is a suffix of the request's
    segments: order preserved, nothing invented or duplicated. -/
theorem C02_vpath_suffix {tr : Name → Name} {app : App} {path : List Char} {r : FindResult}
    (h : findHandlerWith tr app path = .ok r) : ∃ k, r.vpath = (segments path).drop k := by
  obtain ⟨trail, _, _, h3, h4⟩ := findHandler_ok h
  cases hf : r.found with
  | none => exact ⟨(segments path).length, by simp [(h4 hf).1]⟩
  | some f =>
    refine ⟨(fullpathOf (segments path)).length - f.segleft, ?_⟩
    rw [(h3 f hf).1, vpathOf, fullpathOf, drop_append_singleton_dropLast]

/-- **C02, arguments.**  `Dispatcher.__call__` installs a handler only for an exposed, truthy result of
    `find_handler`, with exactly the virtual path, every atom with `%2F` restored to `/`. -/
theorem C02_args_restored {tr : Name → Name} {app : App} {path : List Char} {hd : NodeId}
    {args : List (List Char)} (h : dispatchWith tr app path = .handler hd args) :
    ∃ r f, findHandlerWith tr app path = .ok r ∧ r.found = some f ∧ f.handler = hd ∧
      args = r.vpath.map restore2F ∧ app.g.exposed hd = true ∧ (app.g.nodeD hd).truthy = true := by
  unfold dispatchWith at h
  split at h
  · cases h
  · rename_i r hr
    split at h
    · cases h
    · rename_i f hf
      split at h
      · rename_i ht
        injection h with h1 h2
        subst h1
        exact ⟨r, f, hr, hf, rfl, h2.symm, C02_exposed_only hr hf, ht⟩
      · cases h

theorem restore2F_example :
    restore2F "a%2Fb%2F%2fc".toList = "a/b/%2fc".toList := by decide


/-! ### the trail without `_cp_dispatch`: the attribute chain of the translated segments -/

/-- No object of the graph (nor `None`) has a `_cp_dispatch` attribute. -/
def NoDispatch (g : Graph) : Prop := ∀ o, g.getattr o dispatchName = none

/-- The objects met by resolving the names one after the other (`None` stays in the chain: the code
    keeps calling `getattr(None, …)`). -/
def chain (tr : Name → Name) (g : Graph) : Option NodeId → List Name → List (Option NodeId)
  | _, [] => []
  | o, n :: r => g.getattr o (tr n) :: chain tr g (g.getattr o (tr n)) r

/-- `[n-1, …, 1, 0]` -/
def countdown : Nat → List Nat
  | 0 => []
  | n + 1 => n :: countdown n

theorem countdown_get : ∀ (n i v : Nat), (countdown n)[i]? = some v → v + i + 1 = n := by
  intro n
  induction n with
  | zero => intro i v h; simp [countdown] at h
  | succ n ih =>
    intro i v h
    cases i with
    | zero => simp [countdown] at h; omega
    | succ j =>
      simp only [countdown, List.getElem?_cons_succ] at h
      have := ih j v h
      omega

theorem resolve_nodisp {tr : Name → Name} {g : Graph} (hnd : NoDispatch g) (node : Option NodeId)
    (name : Name) (rest : List Name) :
    resolve tr g node name rest = .ok (g.getattr node (tr name), rest, []) := by
  unfold resolve
  cases h : g.getattr node (tr name) with
  | some s => rfl
  | none => simp only [hnd node]

theorem walkStep_nodisp {tr : Name → Name} {app : App} (hnd : NoDispatch app.g) (fp : List Name)
    (st : WalkSt) (name : Name) (rest : List Name) :
    ∃ conf, walkStep tr app fp st name rest =
      .ok { node := app.g.getattr st.node (tr name), iter := rest,
            trail := st.trail ++ [⟨name, app.g.getattr st.node (tr name), conf, rest.length⟩],
            params := st.params } := by
  unfold walkStep
  rw [resolve_nodisp hnd]
  dsimp only
  have h1 : ¬ rest.length > rest.length + 1 := by omega
  have h2 : ¬ rest.length = rest.length + 1 := by omega
  simp only [h1, h2, if_false, List.append_nil]
  exact ⟨_, rfl⟩

theorem walk_nodisp {tr : Name → Name} {app : App} (hnd : NoDispatch app.g) (fp : List Name) :
    ∀ (fuel : Nat) (st : WalkSt), st.iter.length ≤ fuel →
      ∃ st', walk tr app fp fuel st = .ok st' ∧
        st'.trail.map (·.node) = st.trail.map (·.node) ++ chain tr app.g st.node st.iter ∧
        st'.trail.map (·.name) = st.trail.map (·.name) ++ st.iter ∧
        st'.trail.map (·.segleft) = st.trail.map (·.segleft) ++ countdown st.iter.length ∧
        st'.params = st.params := by
  intro fuel
  induction fuel with
  | zero =>
    intro st hle
    have : st.iter = [] := List.eq_nil_of_length_eq_zero (by omega)
    exact ⟨st, by simp [walk, this], by simp [this, chain], by simp [this], by simp [this, countdown], rfl⟩
  | succ n ih =>
    intro st hle
    unfold walk
    split
    · rename_i hit
      exact ⟨st, rfl, by simp [hit, chain], by simp [hit], by simp [hit, countdown], rfl⟩
    · rename_i name rest hit
      obtain ⟨conf, hstep⟩ := walkStep_nodisp hnd fp st name rest
      rw [hstep]
      dsimp only
      rw [hit] at hle
      obtain ⟨st', hw, h1, h2, h3, h4⟩ := ih
        { node := app.g.getattr st.node (tr name), iter := rest,
          trail := st.trail ++ [⟨name, app.g.getattr st.node (tr name), conf, rest.length⟩],
          params := st.params }
        (by simp only [List.length_cons] at hle; dsimp only; omega)
      refine ⟨st', hw, ?_, ?_, ?_, h4⟩
      · rw [h1, hit]; simp [chain]
      · rw [h2, hit]; simp
      · rw [h3, hit]; simp [countdown]

/-- **C02, trail.**  Without `_cp_dispatch` anywhere, the object trail is the root followed by the
    attribute chain of the translated names of `segments ++ ["index"]`, and `segleft` counts down from
    `len(fullpath)` to 0 — for every graph, config, translation and segment list. -/
theorem C02_trail_spec {tr : Name → Name} {app : App} (hnd : NoDispatch app.g) (segs : List Name) :
    ∃ trail, trailOf tr app segs = .ok trail ∧
      trail.map (·.node) = some app.g.root :: chain tr app.g (some app.g.root) (fullpathOf segs) ∧
      trail.map (·.name) = rootName :: fullpathOf segs ∧
      trail.map (·.segleft) = countdown (segs.length + 2) := by
  unfold trailOf
  dsimp only
  obtain ⟨st', hw, h1, h2, h3, _⟩ := walk_nodisp (tr := tr) hnd (fullpathOf segs) (fullpathOf segs).length
    { node := some app.g.root, iter := fullpathOf segs,
      trail := [rootEntry app (fullpathOf segs).length] } (Nat.le_refl _)
  rw [hw]
  refine ⟨st'.trail, rfl, ?_, ?_, ?_⟩
  · simpa [rootEntry] using h1
  · simpa [rootEntry] using h2
  · rw [h3]; simp [rootEntry, fullpathOf, countdown]

/-- Without `_cp_dispatch` nothing reaches `request.params` from the path: the handler's keyword
    arguments come from the query string / body only. -/
theorem C02_no_params_without_dispatch {tr : Name → Name} {app : App} (hnd : NoDispatch app.g)
    (segs : List Name) : paramsOf tr app segs = [] := by
  unfold paramsOf
  dsimp only
  obtain ⟨st', hw, _, _, _, h4⟩ := walk_nodisp (tr := tr) hnd (fullpathOf segs) (fullpathOf segs).length
    { node := some app.g.root, iter := fullpathOf segs,
      trail := [rootEntry app (fullpathOf segs).length] } (Nat.le_refl _)
  rw [hw]
  exact h4

/-- **C02, vpath.**  Without dispatchers: the handler found at trail index `i` belongs to the object
    reached through the first `i` names, and the virtual path is exactly the remaining segments:
    `segments = matched ++ vpath`, order preserved, nothing dropped or duplicated. -/
theorem C02_vpath {tr : Name → Name} {app : App} (hnd : NoDispatch app.g) {path : List Char}
    {r : FindResult} {f : Found}
    (h : findHandlerWith tr app path = .ok r) (hf : r.found = some f) :
    r.vpath = (segments path).drop f.idx ∧
    segments path = (segments path).take f.idx ++ r.vpath ∧
    ∃ c, (some app.g.root :: chain tr app.g (some app.g.root) (fullpathOf (segments path)))[f.idx]?
          = some (some c) ∧
      ((f.viaDefault = true ∧ app.g.getattr (some c) defaultName = some f.handler) ∨
       (f.viaDefault = false ∧ f.handler = c)) := by
  obtain ⟨trail, htr, _, h3, _⟩ := findHandler_ok h
  obtain ⟨trail', htr', hn, _, hs⟩ := C02_trail_spec (tr := tr) hnd (segments path)
  rw [htr] at htr'; injection htr' with htr'; subst htr'
  obtain ⟨trail2, htr2, hc⟩ := C02_handler_is_candidate h hf
  rw [htr] at htr2; injection htr2 with htr2; subst htr2
  obtain ⟨e, he, hseg, c, hcn, hcase⟩ := hc
  have hsl : (trail.map (·.segleft))[f.idx]? = some e.segleft := by simp [he]
  rw [hs] at hsl
  have hcd := countdown_get _ _ _ hsl
  have hv : r.vpath = (segments path).drop f.idx := by
    rw [(h3 f hf).1, vpathOf, hseg, fullpathOf, drop_append_singleton_dropLast]
    congr 1
    simp only [List.length_append, List.length_singleton]
    omega
  refine ⟨hv, by rw [hv, List.take_append_drop], c, ?_, ?_⟩
  · rw [← hn]; simp [he, hcn]
  · rcases hcase with ⟨a, b, _⟩ | ⟨a, b, _⟩
    · exact .inl ⟨a, b⟩
    · exact .inr ⟨a, b⟩


/-! ### the method dispatcher -/

/-- The verb lookup of `MethodDispatcher.__call__`: attribute `METHOD`; `HEAD` falls back to `GET`. -/
def verbOf (g : Graph) (res : NodeId) (meth : Name) : Option NodeId :=
  match g.getattr (some res) meth with
  | some x => some x
  | none => if meth = headName then g.getattr (some res) getName else none

/-- **C02, method dispatcher.**  The resource is what `find_handler` returns (hence exposed); no
    resource → 404 and no `Allow`; otherwise `Allow` is set, the called function is attribute `METHOD`
    of the resource (`GET` for a `HEAD` without own method) with the restored virtual path, and the
    answer is 405 exactly when that attribute is missing (or falsy). -/
theorem C02_method {tr : Name → Name} {app : App} {path : List Char} {r : FindResult} (meth : Name)
    (h : findHandlerWith tr app path = .ok r) :
    (r.found = none →
      (methodDispatchWith tr app path meth).outcome = .notFound ∧
      (methodDispatchWith tr app path meth).allow = none) ∧
    (∀ f, r.found = some f → (app.g.nodeD f.handler).truthy = true →
      app.g.exposed f.handler = true ∧
      (methodDispatchWith tr app path meth).allow = some (allowOf app.g f.handler) ∧
      (∀ fn, verbOf app.g f.handler meth = some fn → (app.g.nodeD fn).truthy = true →
        (methodDispatchWith tr app path meth).outcome = .handler fn (r.vpath.map restore2F)) ∧
      (∀ fn, verbOf app.g f.handler meth = some fn → (app.g.nodeD fn).truthy = false →
        (methodDispatchWith tr app path meth).outcome = .notAllowed) ∧
      (verbOf app.g f.handler meth = none →
        (methodDispatchWith tr app path meth).outcome = .notAllowed)) := by
  constructor
  · intro hn
    unfold methodDispatchWith
    simp only [h, hn]
    trivial
  · intro f hf ht
    refine ⟨C02_exposed_only h hf, ?_⟩
    unfold methodDispatchWith
    simp only [h, hf, ht, Bool.not_true, Bool.false_eq_true, if_false]
    unfold verbOf
    cases hv : app.g.getattr (some f.handler) meth with
    | some x =>
      dsimp only
      refine ⟨?_, ?_, ?_, ?_⟩
      · split <;> rfl
      · intro fn hfn hft; injection hfn with hfn; subst hfn; simp [hft]
      · intro fn hfn hft; injection hfn with hfn; subst hfn; simp [hft]
      · intro hc; cases hc
    | none =>
      dsimp only
      cases hg : (if meth = headName then app.g.getattr (some f.handler) getName else none) with
      | none =>
        refine ⟨rfl, ?_, ?_, ?_⟩
        · intro fn hfn; cases hfn
        · intro fn hfn; cases hfn
        · intro _; rfl
      | some y =>
        dsimp only
        refine ⟨?_, ?_, ?_, ?_⟩
        · split <;> rfl
        · intro fn hfn hft; injection hfn with hfn; subst hfn; simp [hft]
        · intro fn hfn hft; injection hfn with hfn; subst hfn; simp [hft]
        · intro hc; cases hc

theorem nameLe_total : ∀ a b : List Char, nameLe a b = false → nameLe b a = true := by
  intro a
  induction a with
  | nil => intro b h; simp [nameLe] at h
  | cons x xs ih =>
    intro b h
    cases b with
    | nil => simp [nameLe]
    | cons y ys =>
      simp only [nameLe] at h ⊢
      split at h
      · cases h
      · split at h
        · rename_i h2; simp [h2]
        · rename_i h1 h2; simp only [h1, h2, if_false]; exact ih ys h

/-- adjacent-sorted with respect to code-point order -/
def SortedNames : List Name → Prop
  | [] => True
  | [_] => True
  | a :: b :: rest => nameLe a b = true ∧ SortedNames (b :: rest)

theorem insertName_perm (x : Name) (l : List Name) : (insertName x l).Perm (x :: l) := by
  induction l with
  | nil => exact List.Perm.refl _
  | cons y ys ih =>
    simp only [insertName]
    split
    · exact List.Perm.refl _
    · exact (List.Perm.cons y ih).trans (List.Perm.swap x y ys)

theorem sortNames_perm (l : List Name) : (sortNames l).Perm l := by
  induction l with
  | nil => exact List.Perm.refl _
  | cons x xs ih => exact (insertName_perm x _).trans (List.Perm.cons x ih)

theorem insertName_sorted (x : Name) (l : List Name) (h : SortedNames l) :
    SortedNames (insertName x l) := by
  induction l with
  | nil => simp [insertName, SortedNames]
  | cons y ys ih =>
    simp only [insertName]
    split
    · exact ⟨by assumption, h⟩
    · rename_i hnle
      have hyx : nameLe y x = true := nameLe_total x y (by simpa using hnle)
      cases ys with
      | nil => simp [insertName, SortedNames, hyx]
      | cons z zs =>
        have hs : SortedNames (z :: zs) := h.2
        have := ih hs
        simp only [insertName] at this ⊢
        split
        · exact ⟨hyx, by assumption, hs⟩
        · rename_i h2
          simp only [h2] at this
          exact ⟨h.1, this⟩

theorem sortNames_sorted (l : List Name) : SortedNames (sortNames l) := by
  induction l with
  | nil => trivial
  | cons x xs ih => exact insertName_sorted x _ ih

/-- **C02, Allow.**  The `Allow` list is the resource's upper-case attribute names, plus `HEAD` when
    `GET` is there and `HEAD` is not, in sorted order (each name exactly as often as `dir()` gives it). -/
theorem C02_method_allow (g : Graph) (res : NodeId) :
    (allowOf g res).Perm
      ((g.nodeD res).upper ++
        (if (g.nodeD res).upper.contains getName && !(g.nodeD res).upper.contains headName
         then [headName] else [])) ∧
    SortedNames (allowOf g res) := by
  unfold allowOf
  dsimp only
  constructor
  · split
    · exact sortNames_perm _
    · simpa using sortNames_perm _
  · exact sortNames_sorted _

/-! ### the generated translate table -/

/-- Python's `string.punctuation` -/
def punctuation : List Char := "!\"#$%&'()*+,-./:;<=>?@[\\]^_`{|}~".toList

/-- **C02, table.**  The table regenerated from the live `Dispatcher().translate` maps exactly
    `string.punctuation` to `"_"` and nothing else (a source edit changes this obligation). -/
theorem C02_translate_table :
    CpModel.Gen.C02.translateTable = punctuation.map (fun c => (c.toNat, [95])) := by decide

theorem table_values : ∀ p ∈ CpModel.Gen.C02.translateTable, p.2 = [95] := by decide

/-- A translated name contains no punctuation character other than `_`, so the attribute looked up on
    the object is never reached "through" a dot, a dash or a slash — for every name. -/
theorem C02_translated_identifier_safe (n : Name) (c : Char) (hc : c ∈ translate n) :
    c = '_' ∨ c ∉ punctuation := by
  unfold translate translateWith at hc
  rw [List.mem_flatMap] at hc
  obtain ⟨a, _, hca⟩ := hc
  split at hca
  · rename_i k r hfind
    have hmem := List.mem_of_find?_eq_some hfind
    have := table_values _ hmem
    simp only at this
    subst this
    simp at hca
    left; exact hca
  · rename_i hfind
    simp only [List.mem_singleton] at hca
    subst hca
    right
    intro hp
    have hnone := List.find?_eq_none.mp hfind
    rw [C02_translate_table] at hnone
    apply hnone (c.toNat, [95])
    · exact List.mem_map.mpr ⟨c, hp, rfl⟩
    · simp

/-! ### non-vacuity: concrete graphs evaluated by the kernel -/

section Examples

/-- `class Root: index (exposed), default (NOT exposed), secret (NOT exposed), a_b = Sub()`;
    `class Sub: default (exposed)`. ids: 0 Root, 1 Root.index, 2 Root.default, 3 Root.secret, 4 Sub,
    5 Sub.default -/
def exGraph : Graph :=
  { nodes := [
      { attrs := [("index".toList, 1), ("default".toList, 2), ("secret".toList, 3), ("a_b".toList, 4)] },
      { callable := true, exposed := true },
      { callable := true },
      { callable := true },
      { attrs := [("default".toList, 5)] },
      { callable := true, exposed := true } ] }

def exApp : App := { g := exGraph }

example : NoDispatch exGraph := by
  intro o
  cases o with
  | none => rfl
  | some i =>
    unfold Graph.getattr Graph.nodeD exGraph
    match i with
    | 0 | 1 | 2 | 3 | 4 | 5 => decide
    | n + 6 => simp [lookup]

example : dispatch exApp "/".toList = .handler 1 [] := by decide
-- an unexposed method is not reachable, and the unexposed `default` does not catch it either
example : dispatch exApp "/secret".toList = .notFound := by decide
-- name translation, deepest default, %2F restored, order kept
example : dispatch exApp "/a.b/x%2Fy/z".toList = .handler 5 ["x/y".toList, "z".toList] := by decide
example : dispatch exApp "/a-b/".toList = .handler 5 [] := by decide

end Examples

end CpProofs.C02
