import CpProofs.C06Pipeline
/-!
  C06 — round 2: the stages before the page handler, HTTP/1.0, nested iterators of any depth.
-/
namespace CpProofs.C06
open CpModel CpModel.Finalize

/-! ### nested iterators -/

/-- `tools.flatten` is recursive: whatever the depth of a nested iterator, what comes out is its leaves in
    iteration order (the model's nested chunk *is* that list) … -/
theorem flatten_nested_leaves (ls : List Leaf) (cs : List Chunk) :
    flattenChunks (.nested ls :: cs) = ls.map Leaf.toChunk ++ flattenChunks cs := rfl

/-- … and without `flatten` a nested iterator is a non-bytes item at the WSGI boundary, whatever it holds -/
theorem deliver_nested (ls : List Leaf) (cs : List Chunk) : deliver (.nested ls :: cs) = ([], .nonBytes) := rfl

def Leaf.isBytes : Leaf → Bool
  | .bytes _ => true
  | _ => false

theorem allBytes_append (a b : List Chunk) : allBytes (a ++ b) = (allBytes a && allBytes b) := by
  induction a with
  | nil => simp [allBytes]
  | cons c a ih =>
    cases c with
    | bytes x => simp [allBytes, ih]
    | text t => simp [allBytes]
    | nested n => simp [allBytes]
    | raise => simp [allBytes]

theorem leaves_allBytes (ls : List Leaf) (h : ls.all Leaf.isBytes = true) : allBytes (ls.map Leaf.toChunk) = true := by
  induction ls with
  | nil => rfl
  | cons l ls ih =>
    cases l with
    | bytes b =>
      simp only [List.all_cons, Bool.and_eq_true] at h
      simp [Leaf.toChunk, allBytes, ih h.2]
    | text t => simp [Leaf.isBytes] at h
    | raise => simp [Leaf.isBytes] at h

/-- a body whose nested iterators hold only bytes leaves is clean bytes once flattened -/
theorem flatten_bytes_leaves (ls : List Leaf) (cs : List Chunk) (h : ls.all Leaf.isBytes = true)
    (hc : allBytes (flattenChunks cs) = true) :
    allBytes (flattenChunks (.nested ls :: cs)) = true := by
  rw [flatten_nested_leaves, allBytes_append, leaves_allBytes ls h, hc]; rfl

/-! ### HTTP/1.0, the stages before the handler -/

/-- "HTTP/1.0 didn't have Range/Accept-Ranges headers, or the 206 code": the Range header of an HTTP/1.0
    request has no effect on what `serve_file` produces -/
theorem http10_ignores_ranges (pg : Pages) (rq : Req) (b : Bytes) (r : Resp) (h : rq.http10 = true) :
    serveFile pg rq b r = serveFile pg { rq with ranges := none } b r := by
  simp only [serveFile, h, if_true]
  rfl

/-- a redirect without a status is a 303 for HTTP/1.1 and a 302 for HTTP/1.0; an explicit status is kept -/
theorem redirectCode_spec (rq : Req) (c : Nat) :
    redirectCode rq c = if c = 0 then (if rq.http10 then 302 else 303) else c := rfl

/-- `tools.accept` / `tools.json_in` refuse before anything else happens: the page handler does not run, the cache
    is neither consulted nor written, no tee is attached -/
theorem early_refusal_skips_handler (pg : Pages) (rq : Req) (p : Plan) (cache : Option Cache) (e : Exn)
    (h : earlyExn rq p.t = some e) :
    beforeAndHandler pg rq p cache = (⟨freshResp rq p.t, cache⟩, some e, false, false) ∧
    handlerRuns pg rq p cache = false := by
  simp [beforeAndHandler, handlerRuns, h]

/-- the static tool answers GET / HEAD itself: when it returns, the page handler (and the encode wrapper around
    it) is skipped; for other methods it declines and the response is untouched -/
theorem static_tool_skips_handler (pg : Pages) (rq : Req) (p : Plan) (r : Resp) (b : Bytes)
    (hb : p.t.staticTool = some b) :
    (rq.safe = true → (staticToolStage pg rq p r).2.1 = none → (staticToolStage pg rq p r).2.2 = false) ∧
    (rq.safe = false → staticToolStage pg rq p r = (r, none, true)) := by
  unfold staticToolStage
  simp only [hb]
  refine ⟨fun hs => ?_, fun hs => by simp [hs]⟩
  simp only [hs, if_true]
  split
  · intro h; cases h
  · intro _; rfl

/-- `tools.trailing_slash` answers an index resource requested without its slash with a 301, whatever body a tool
    before it may have produced -/
theorem missing_slash_redirects (pg : Pages) (rq : Req) (p : Plan) (r : Resp)
    (hs : p.t.noSlashTool = false) (hn : rq.noSlash = true)
    (h : (staticToolStage pg rq p (jsonOutStage p r)).2.1 = none) :
    (beforeHandlerTools pg rq p r).2.1 = some (.redirect 301) := by
  unfold beforeHandlerTools
  generalize staticToolStage pg rq p (jsonOutStage p r) = st at h ⊢
  obtain ⟨r', e, todo⟩ := st
  simp only at h
  subst h
  simp [hs, hn]

end CpProofs.C06
