import CpModel.HttpDate
import CpProofs.C16Cond
/-!
  C16 — If-Modified-Since / If-Unmodified-Since over HTTP dates.

  `validate_since` compares the header TEXT with `HTTPDate(mtime)` for equality.  `httpDate_injective`:
  the rendering of a timestamp (years 1970 … 9999) determines the timestamp, so for a client that sends back
  an IMF-fixdate, the string comparison is the comparison of the two instants for equality:

  * `ims_dates`  If-Modified-Since: "not modified" ⇔ the two timestamps are equal — neither an earlier nor a
                 later date matches (the statement's equality reading);
  * `ius_dates`  If-Unmodified-Since: 412 ⇔ the two timestamps differ.

  Proof: the 29 characters give back day, month, year, hour, minute, second (fixed layout, decimal digits,
  month names pairwise different); (year, month, day) give back the day number because the civil-from-days
  arithmetic is injective: within a 400-year era the year-of-era formula is monotone in the day and right on
  the first and last day of each of the 400 years (`years_ok`, kernel-checked), the month/day split is right
  for each of the 366 days of a year (`doys_ok`), and across eras it is arithmetic.
-/
namespace CpProofs.C16
open CpModel.Ranges CpModel.Validators CpModel.HttpDate

/-! ### one 400-year era -/

/-- the numerator of the year-of-era formula -/
def g (n : Nat) : Nat := n - n / 1460 + n / 36524 - n / 146096

/-- first day-of-era of year-of-era `y` (years start on 1 March); `start 400` is the length of the era -/
def start (y : Nat) : Nat := 365 * y + y / 4 - y / 100 + y / 400

theorem start_lt400 (y : Nat) (h : y < 400) : 365 * y + y / 4 - y / 100 = start y := by
  unfold start
  omega

theorem g_mono_step (n : Nat) (h : n + 1 < 146097) : g n ≤ g (n + 1) := by
  unfold g
  omega

theorem g_mono (a b : Nat) (hab : a ≤ b) (hb : b < 146097) : g a ≤ g b := by
  induction b with
  | zero =>
    have : a = 0 := by omega
    subst this
    exact Nat.le_refl _
  | succ n ih =>
    by_cases e : a = n + 1
    · subst e; exact Nat.le_refl _
    · exact Nat.le_trans (ih (by omega) (by omega)) (g_mono_step n hb)

/-- per year-of-era: the formula is right on the first and on the last day of the year, and a year has
    365 or 366 days -/
def yearCheck (y : Nat) : Bool :=
  Nat.beq (g (start y) / 365) y && Nat.beq (g (start (y + 1) - 1) / 365) y &&
    Nat.ble (start (y + 1)) (start y + 366) && Nat.ble (start y + 365) (start (y + 1))

def allYears : Nat → Bool
  | 0 => true
  | n + 1 => yearCheck n && allYears n

theorem allYears_spec (n : Nat) (h : allYears n = true) : ∀ k, k < n → yearCheck k = true := by
  induction n with
  | zero => intro k hk; omega
  | succ n ih =>
    simp only [allYears, Bool.and_eq_true] at h
    intro k hk
    by_cases e : k = n
    · subst e; exact h.1
    · exact ih h.2 k (by omega)

theorem years_ok : allYears 400 = true := by decide +kernel

theorem year_facts (y : Nat) (h : y < 400) :
    g (start y) / 365 = y ∧ g (start (y + 1) - 1) / 365 = y ∧ start (y + 1) ≤ start y + 366 ∧
      start y + 365 ≤ start (y + 1) := by
  have := allYears_spec 400 years_ok y h
  simp only [yearCheck, Bool.and_eq_true, Nat.ble_eq] at this
  obtain ⟨⟨⟨h1, h2⟩, h3⟩, h4⟩ := this
  exact ⟨Nat.eq_of_beq_eq_true h1, Nat.eq_of_beq_eq_true h2, h3, h4⟩

theorem locate (y : Nat) : ∀ doe, doe < start y → ∃ y0, y0 < y ∧ start y0 ≤ doe ∧ doe < start (y0 + 1) := by
  induction y with
  | zero => intro doe h; simp [start] at h
  | succ y ih =>
    intro doe h
    by_cases hlt : doe < start y
    · obtain ⟨y0, h1, h2, h3⟩ := ih doe hlt
      exact ⟨y0, by omega, h2, h3⟩
    · exact ⟨y, by omega, by omega, h⟩

/-- the year-of-era formula finds the year that contains the day -/
theorem yoe_spec (doe : Nat) (h : doe < 146097) :
    g doe / 365 < 400 ∧ start (g doe / 365) ≤ doe ∧ doe < start (g doe / 365) + 366 := by
  have h400 : start 400 = 146097 := by decide
  obtain ⟨y0, hy0, hlo, hhi⟩ := locate 400 doe (by omega)
  have hf := year_facts y0 hy0
  have hend : start (y0 + 1) ≤ 146097 := by
    unfold start
    omega
  have h1 : g (start y0) ≤ g doe := g_mono _ _ hlo h
  have h2 : g doe ≤ g (start (y0 + 1) - 1) := g_mono _ _ (by omega) (by omega)
  have e : g doe / 365 = y0 := by
    have a1 := Nat.div_le_div_right (c := 365) h1
    have a2 := Nat.div_le_div_right (c := 365) h2
    omega
  rw [e]
  exact ⟨hy0, hlo, by omega⟩

/-- day-of-year (from 1 March) → month and day, exhaustively -/
def doyCheck (doy : Nat) : Bool :=
  Nat.ble ((5 * doy + 2) / 153) 11 && Nat.ble ((153 * ((5 * doy + 2) / 153) + 2) / 5) doy &&
    Nat.ble (doy - (153 * ((5 * doy + 2) / 153) + 2) / 5 + 1) 31

def allDoys : Nat → Bool
  | 0 => true
  | n + 1 => doyCheck n && allDoys n

theorem allDoys_spec (n : Nat) (h : allDoys n = true) : ∀ k, k < n → doyCheck k = true := by
  induction n with
  | zero => intro k hk; omega
  | succ n ih =>
    simp only [allDoys, Bool.and_eq_true] at h
    intro k hk
    by_cases e : k = n
    · subst e; exact h.1
    · exact ih h.2 k (by omega)

theorem doys_ok : allDoys 366 = true := by decide +kernel

theorem doy_facts (doy : Nat) (h : doy < 366) :
    (5 * doy + 2) / 153 ≤ 11 ∧ (153 * ((5 * doy + 2) / 153) + 2) / 5 ≤ doy ∧
      doy - (153 * ((5 * doy + 2) / 153) + 2) / 5 + 1 ≤ 31 := by
  have := allDoys_spec 366 doys_ok doy h
  simp only [doyCheck, Bool.and_eq_true, Nat.ble_eq] at this
  exact ⟨this.1.1, this.1.2, this.2⟩

/-- the day-of-era is a function of (yoe, m, d) -/
def doeOf (yoe m d : Nat) : Nat :=
  start yoe + (153 * (if m > 2 then m - 3 else m + 9) + 2) / 5 + d - 1

/-- **within an era the civil date determines the day**, and its components are in range -/
theorem civilOfDoe_inv (doe : Nat) (h : doe < 146097) :
    doeOf (civilOfDoe doe).1 (civilOfDoe doe).2.1 (civilOfDoe doe).2.2 = doe ∧ (civilOfDoe doe).1 < 400 ∧
      1 ≤ (civilOfDoe doe).2.1 ∧ (civilOfDoe doe).2.1 ≤ 12 ∧ 1 ≤ (civilOfDoe doe).2.2 ∧ (civilOfDoe doe).2.2 ≤ 31 := by
  obtain ⟨hy, hlo, hhi⟩ := yoe_spec doe h
  have hg : (doe - doe / 1460 + doe / 36524 - doe / 146096) / 365 = g doe / 365 := rfl
  simp only [civilOfDoe, hg]
  generalize g doe / 365 = yoe at hy hlo hhi
  rw [start_lt400 yoe hy]
  have hd := doy_facts (doe - start yoe) (by omega)
  generalize hdoy : doe - start yoe = doy at hd
  generalize hmp : (5 * doy + 2) / 153 = mp at hd
  obtain ⟨h1, h2, h3⟩ := hd
  unfold doeOf
  by_cases hlt : mp < 10
  · have e : (if mp + 3 > 2 then mp + 3 - 3 else mp + 3 + 9) = mp := by
      have : mp + 3 > 2 := by omega
      simp [this]
    simp only [hlt, if_true, e]
    refine ⟨by omega, hy, by omega, by omega, by omega, h3⟩
  · have e : (if mp - 9 > 2 then mp - 9 - 3 else mp - 9 + 9) = mp := by
      have : ¬ mp - 9 > 2 := by omega
      simp only [this, if_false]
      omega
    simp only [hlt, if_false, e]
    refine ⟨by omega, hy, by omega, by omega, by omega, h3⟩

/-! ### all eras -/

theorem civil_injective (a b : Nat) (h : civil a = civil b) : a = b := by
  have ha := civilOfDoe_inv ((a + 719468) % 146097) (Nat.mod_lt _ (by decide))
  have hb := civilOfDoe_inv ((b + 719468) % 146097) (Nat.mod_lt _ (by decide))
  simp only [civil, Prod.mk.injEq] at h
  obtain ⟨hy, hm, hd⟩ := h
  rw [hm] at hy
  have hyoe : (civilOfDoe ((a + 719468) % 146097)).1 = (civilOfDoe ((b + 719468) % 146097)).1 ∧
      (a + 719468) / 146097 = (b + 719468) / 146097 := by
    have h1 := ha.2.1
    have h2 := hb.2.1
    omega
  have hdoe : (a + 719468) % 146097 = (b + 719468) % 146097 := by
    rw [← ha.1, ← hb.1, hyoe.1, hm, hd]
  have := Nat.div_add_mod (a + 719468) 146097
  have := Nat.div_add_mod (b + 719468) 146097
  omega

/-- the civil date stays within four-digit years and valid months / days -/
theorem civil_ranges (n : Nat) (h : n < 2932897) :
    (civil n).1 < 10000 ∧ 1 ≤ (civil n).2.1 ∧ (civil n).2.1 ≤ 12 ∧ 1 ≤ (civil n).2.2 ∧ (civil n).2.2 ≤ 31 := by
  have ha := civilOfDoe_inv ((n + 719468) % 146097) (Nat.mod_lt _ (by decide))
  simp only [civil]
  refine ⟨?_, ha.2.2.1, ha.2.2.2.1, ha.2.2.2.2.1, ha.2.2.2.2.2⟩
  have h1 := ha.2.1
  have hinv := ha.1
  have := Nat.div_add_mod (n + 719468) 146097
  generalize (civilOfDoe ((n + 719468) % 146097)).1 = y at h1 hinv ⊢
  generalize (civilOfDoe ((n + 719468) % 146097)).2.1 = m at hinv ha ⊢
  generalize (civilOfDoe ((n + 719468) % 146097)).2.2 = d at hinv ha ⊢
  have hd1 := ha.2.2.2.2.1
  by_cases hm : m ≤ 2
  · -- January / February belong to the next civil year: in the last era the bound on `n` keeps the
    -- day-of-era below 1 January 10000
    have hng : ¬ m > 2 := by omega
    simp only [doeOf, hng, if_false, ← start_lt400 y h1] at hinv
    simp only [hm, if_true]
    have hm1 := ha.2.2.1
    omega
  · simp only [hm, if_false]
    omega

/-! ### the text determines the fields -/

theorem dg_injective : ∀ a, a < 10 → ∀ b, b < 10 → dg a = dg b → a = b := by decide +kernel

theorem monChars_injective : ∀ a, a < 12 → ∀ b, b < 12 → monChars (a + 1) = monChars (b + 1) → a = b := by
  decide +kernel

theorem two_digits {a b : Nat} (ha : a < 100) (hb : b < 100) (h1 : dg (a / 10) = dg (b / 10))
    (h2 : dg (a % 10) = dg (b % 10)) : a = b := by
  have e1 := dg_injective _ (by omega) _ (by omega) h1
  have e2 := dg_injective _ (by omega) _ (by omega) h2
  omega

theorem four_digits {a b : Nat} (ha : a < 10000) (hb : b < 10000) (h1 : dg (a / 1000) = dg (b / 1000))
    (h2 : dg (a / 100 % 10) = dg (b / 100 % 10)) (h3 : dg (a / 10 % 10) = dg (b / 10 % 10))
    (h4 : dg (a % 10) = dg (b % 10)) : a = b := by
  have e1 := dg_injective _ (by omega) _ (by omega) h1
  have e2 := dg_injective _ (by omega) _ (by omega) h2
  have e3 := dg_injective _ (by omega) _ (by omega) h3
  have e4 := dg_injective _ (by omega) _ (by omega) h4
  omega

/-- the rendered text gives back the fields (all but the redundant weekday), for fields in range -/
theorem renderFields_inj (f g : Fields) (h : renderFields f = renderFields g)
    (hf : f.y < 10000 ∧ 1 ≤ f.m ∧ f.m ≤ 12 ∧ f.d < 100 ∧ f.hh < 100 ∧ f.mm < 100 ∧ f.ss < 100)
    (hg : g.y < 10000 ∧ 1 ≤ g.m ∧ g.m ≤ 12 ∧ g.d < 100 ∧ g.hh < 100 ∧ g.mm < 100 ∧ g.ss < 100) :
    f.y = g.y ∧ f.m = g.m ∧ f.d = g.d ∧ f.hh = g.hh ∧ f.mm = g.mm ∧ f.ss = g.ss := by
  simp only [renderFields, List.cons.injEq, and_true, true_and] at h
  obtain ⟨_, _, _, hd1, hd2, hp1, hp2, hp3, hy1, hy2, hy3, hy4, hh1, hh2, hm1, hm2, hs1, hs2⟩ := h
  obtain ⟨fy, fm1, fm2, fd, fh, fmi, fs⟩ := hf
  obtain ⟨gy, gm1, gm2, gd, gh', gmi, gs⟩ := hg
  refine ⟨four_digits fy gy hy1 hy2 hy3 hy4, ?_, two_digits fd gd hd1 hd2, two_digits fh gh' hh1 hh2,
    two_digits fmi gmi hm1 hm2, two_digits fs gs hs1 hs2⟩
  have := monChars_injective (f.m - 1) (by omega) (g.m - 1) (by omega)
  have e1 : f.m - 1 + 1 = f.m := by omega
  have e2 : g.m - 1 + 1 = g.m := by omega
  rw [e1, e2] at this
  have := this (Prod.ext hp1 (Prod.ext hp2 hp3))
  omega

theorem fields_eq (t : Nat) :
    (fields t).y = (civil (t / 86400)).1 ∧ (fields t).m = (civil (t / 86400)).2.1 ∧
    (fields t).d = (civil (t / 86400)).2.2 ∧ (fields t).hh = t % 86400 / 3600 ∧
    (fields t).mm = t % 86400 % 3600 / 60 ∧ (fields t).ss = t % 86400 % 60 :=
  ⟨rfl, rfl, rfl, rfl, rfl, rfl⟩

theorem fields_ranges (t : Nat) (ht : t < 253402300800) :
    (fields t).y < 10000 ∧ 1 ≤ (fields t).m ∧ (fields t).m ≤ 12 ∧ (fields t).d < 100 ∧ (fields t).hh < 100 ∧
      (fields t).mm < 100 ∧ (fields t).ss < 100 := by
  have rt := civil_ranges (t / 86400) (by omega)
  obtain ⟨e1, e2, e3, e4, e5, e6⟩ := fields_eq t
  rw [e1, e2, e3, e4, e5, e6]
  refine ⟨rt.1, rt.2.1, rt.2.2.1, by omega, by omega, by omega, by omega⟩

/-- **the HTTP date of a timestamp determines the timestamp** (years 1970 … 9999) -/
theorem httpDate_injective (t u : Nat) (ht : t < 253402300800) (hu : u < 253402300800)
    (h : httpDate t = httpDate u) : t = u := by
  have hinj := renderFields_inj (fields t) (fields u) h (fields_ranges t ht) (fields_ranges u hu)
  obtain ⟨a1, a2, a3, a4, a5, a6⟩ := fields_eq t
  obtain ⟨b1, b2, b3, b4, b5, b6⟩ := fields_eq u
  rw [a1, a2, a3, a4, a5, a6, b1, b2, b3, b4, b5, b6] at hinj
  obtain ⟨ey, em, ed, eh, emi, es⟩ := hinj
  have edays : t / 86400 = u / 86400 := civil_injective _ _ (Prod.ext ey (Prod.ext em ed))
  omega

/-! ### the validators over dates -/

theorem httpDate_ne_nil (t : Nat) : httpDate t ≠ [] := by
  have : ∀ f, renderFields f ≠ [] := fun f => List.cons_ne_nil _ _
  exact this _

theorem truthy_some_ne_nil (s : Text) (h : s ≠ []) : truthy (some s) = true := by
  cases s with
  | nil => exact absurd rfl h
  | cons c cs => rfl

/-- If-Modified-Since on texts: "not modified" ⇔ the texts are equal -/
theorem validateSince_ims_text (lm ims : Text) (hl : lm ≠ []) (hi : ims ≠ []) (st : Nat)
    (h2 : is2xx st = true) (gh : Bool) :
    validateSince (some lm) st gh none (some ims) = if ims = lm then nmVerdict gh else .pass := by
  rw [validateSince_table _ _ h2]
  have e1 : sinceFails (some lm) none = false := by simp [sinceFails, truthy]
  simp only [e1, Bool.false_eq_true, if_false, sinceHolds, truthy_some_ne_nil _ hl, truthy_some_ne_nil _ hi,
    Bool.true_and]
  by_cases e : ims = lm
  · subst e; simp
  · have : ¬ (some ims = some lm) := fun h => e (Option.some.inj h)
    simp [e]

/-- If-Unmodified-Since on texts: 412 ⇔ the texts differ -/
theorem validateSince_ius_text (lm ius : Text) (hl : lm ≠ []) (hi : ius ≠ []) (st : Nat)
    (h2 : is2xx st = true) (gh : Bool) :
    validateSince (some lm) st gh (some ius) none = if ius = lm then .pass else .precondFailed := by
  rw [validateSince_table _ _ h2]
  have e1 : sinceHolds (some lm) none = false := by simp [sinceHolds, truthy]
  simp only [e1, sinceFails, truthy_some_ne_nil _ hl, truthy_some_ne_nil _ hi, Bool.true_and]
  by_cases e : ius = lm
  · subst e; simp
  · simp [e]

/-- **If-Modified-Since over dates**: for a resource last modified at `mtime` and a client that sends the
    date of instant `t`, the answer is "not modified" exactly when `t = mtime` (2xx response) -/
theorem ims_dates (mtime t : Nat) (hm : mtime < 253402300800) (ht : t < 253402300800) (st : Nat)
    (h2 : is2xx st = true) (gh : Bool) :
    validateSince (some (httpDate mtime)) st gh none (some (httpDate t)) =
      if t = mtime then nmVerdict gh else .pass := by
  rw [validateSince_ims_text _ _ (httpDate_ne_nil _) (httpDate_ne_nil _) _ h2]
  by_cases e : t = mtime
  · rw [if_pos e, if_pos (by rw [e])]
  · rw [if_neg e, if_neg (fun h => e (httpDate_injective t mtime ht hm h))]

/-- **If-Unmodified-Since over dates**: 412 exactly when `t ≠ mtime` -/
theorem ius_dates (mtime t : Nat) (hm : mtime < 253402300800) (ht : t < 253402300800) (st : Nat)
    (h2 : is2xx st = true) (gh : Bool) :
    validateSince (some (httpDate mtime)) st gh (some (httpDate t)) none =
      if t = mtime then .pass else .precondFailed := by
  rw [validateSince_ius_text _ _ (httpDate_ne_nil _) (httpDate_ne_nil _) _ h2]
  by_cases e : t = mtime
  · rw [if_pos e, if_pos (by rw [e])]
  · rw [if_neg e, if_neg (fun h => e (httpDate_injective t mtime ht hm h))]

/-! ### non-vacuity -/

example : httpDate 1000000000 = "Sun, 09 Sep 2001 01:46:40 GMT".toList := by decide
example : httpDate 0 = "Thu, 01 Jan 1970 00:00:00 GMT".toList := by decide
example : httpDate 951782400 = "Tue, 29 Feb 2000 00:00:00 GMT".toList := by decide
example : httpDate 253402300799 = "Fri, 31 Dec 9999 23:59:59 GMT".toList := by decide
example : validateSince (some (httpDate 1000000000)) 200 true none (some (httpDate 1000000001)) = .pass := by
  rw [ims_dates _ _ (by decide) (by decide) _ (by decide)]; decide

end CpProofs.C16
