import CpModel.PathContain
/-!
  C11 — static serving and file sessions never touch files outside their root.
-/
namespace CpProofs.C11
open CpModel.PathContain

/-- The pre-repair string-prefix test lets a sibling directory through (F10). -/
theorem strPrefix_static_counterexample :
    containedCheckStrPrefix (normpath "/t/root".toList)
        (normpath (join "/t/root".toList "../root-evil/secret.txt".toList)) = true ∧
      ¬ (components (normpath "/t/root".toList) <+:
          components (normpath (join "/t/root".toList "../root-evil/secret.txt".toList))) := by
  decide

end CpProofs.C11
