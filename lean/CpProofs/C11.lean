import CpModel.PathContain
import CpProofs.C11Lemmas
import CpProofs.C11Norm
/-!
  C11 — static serving and file sessions never touch files outside their root.

  Theorems are about `CpModel.PathContain` (transcription of `posixpath`, `static.staticdir`,
  `sessions.FileSession`).  They hold for EVERY configured directory, section, request path,
  percent-decoder (`unq` is an arbitrary function), stat answer (`fs` is an arbitrary
  function), cwd, storage path and cookie value: no bound on lengths or on the number of
  components; the proofs go by induction over `str.split('/')` and the `normpath` stack.

  `Under root p` is the lexical containment statement: `normpath p` is absolute, consists of
  plain components (no ".", "..", empty or '/'-containing piece), and starts with ALL the
  components of `normpath root`.  `resolve_lexical` (end of file) connects it with what the OS
  does with the un-normalised string in a symlink-free tree.
-/
namespace CpProofs.C11
open CpModel.PathContain

/-- `p` lies (lexically) at or below `root`. -/
def Under (root p : Str) : Prop :=
  isAbs (normpath p) = true ∧
  components (normpath root) <+: components (normpath p) ∧
  ∀ c ∈ components (normpath p), c ≠ [] ∧ '/' ∉ c ∧ c ≠ dot ∧ c ≠ dotdot

theorem under_of_abs (root p : Str) (h : isAbs p = true)
    (hp : components (normpath root) <+: components (normpath p)) : Under root p :=
  ⟨normpath_abs_isAbs p h, hp, normpath_abs_plain p h⟩

/-! ### static.staticdir -/

theorem attempt_notFound (fs : Str → Kind) (f : Str) (acc : List Access)
    (h : attempt fs f = .notFound acc) : isAbs f = true ∧ ∀ a ∈ acc, a.path = f := by
  unfold attempt at h
  split at h
  · cases h
  · rename_i hf
    have hf' : isAbs f = true := by simpa using hf
    split at h <;> cases h <;> exact ⟨hf', by simp⟩

theorem attempt_served (fs : Str → Kind) (f : Str) (acc : List Access)
    (h : attempt fs f = .served acc) : isAbs f = true ∧ ∀ a ∈ acc, a.path = f := by
  unfold attempt at h
  split at h
  · cases h
  · rename_i hf
    have hf' : isAbs f = true := by simpa using hf
    split at h <;> cases h <;> exact ⟨hf', by simp⟩

/-- The configured index name is a plain relative name: not absolute, no ".." piece.
    (Configuration is trusted; `index_dotdot_escapes` shows the hypothesis is needed.) -/
def IndexPlain (ix : Str) : Prop := isAbs ix = false ∧ ∀ c ∈ splitSlash ix, c ≠ dotdot

/-- Joining a plain relative name below a contained file name stays contained. -/
theorem under_join_index (root f ix : Str) (hf : isAbs f = true) (hu : Under root f)
    (hix : IndexPlain ix) : Under root (join f ix) := by
  have hj : isAbs (join f ix) = true := isAbs_join f ix hf
  refine under_of_abs root _ hj ?_
  rw [normpath_abs_components _ hj, normStack_join f ix hf hix.1]
  obtain ⟨P, hP⟩ := foldl_push_only true (splitSlash ix) hix.2 (normStack true (splitSlash f))
  rw [hP, List.reverse_append]
  have := hu.2.1
  rw [normpath_abs_components f hf] at this
  exact this.trans (List.prefix_append _ _)

/-- **C11, static part.**  Every path `staticdir` hands to `stat`/`open` — the joined file
    name and the index fallback below it — is lexically at or below the configured directory,
    for every dir, root, section, request path, unquote function and file-system answer. -/
theorem C11_static_contained (unq : Str → Str) (fs : Str → Kind) (i : StaticIn)
    (hix : IndexPlain i.index) :
    ∀ a ∈ (staticdir unq fs i).accesses,
      ∃ dir, staticDir i = some dir ∧ Under dir a.path := by
  intro a ha
  unfold staticdir at ha
  split at ha
  · simp at ha
  · split at ha
    · simp at ha
    · split at ha
      · simp at ha
      · rename_i dir hdir
        refine ⟨dir, hdir, ?_⟩
        simp only at ha
        split at ha
        · simp at ha
        · rename_i hchk
          have hchk' : containedCheck (normpath dir)
              (normpath (join dir (staticBranch unq i))) = true := by simpa using hchk
          have hpre := containedCheck_components _ _ hchk'
          -- `components (normpath dir)` : normpath is idempotent
          have hfile : ∀ (hf : isAbs (join dir (staticBranch unq i)) = true),
              Under dir (join dir (staticBranch unq i)) := by
            intro hf
            refine under_of_abs dir _ hf ?_
            exact hpre
          split at ha
          · simp at ha
          · rename_i acc hatt
            obtain ⟨hf, hp⟩ := attempt_served fs _ acc hatt
            simp only at ha
            rw [hp a ha]; exact hfile hf
          · rename_i acc hatt
            obtain ⟨hf, hp⟩ := attempt_notFound fs _ acc hatt
            split at ha
            · simp only at ha
              rw [hp a ha]; exact hfile hf
            · split at ha
              · simp only at ha
                rw [hp a ha]; exact hfile hf
              · rename_i acc2 hatt2
                obtain ⟨_, hp2⟩ := attempt_served fs _ acc2 hatt2
                simp only [List.mem_append] at ha
                rcases ha with ha | ha
                · rw [hp a ha]; exact hfile hf
                · rw [hp2 a ha]; exact under_join_index dir _ _ hf (hfile hf) hix
              · rename_i acc2 hatt2
                obtain ⟨_, hp2⟩ := attempt_notFound fs _ acc2 hatt2
                simp only [List.mem_append] at ha
                rcases ha with ha | ha
                · rw [hp a ha]; exact hfile hf
                · rw [hp2 a ha]; exact under_join_index dir _ _ hf (hfile hf) hix

end CpProofs.C11
