import CpModel.PathContain
import CpProofs.C11Lemmas
import CpProofs.C11Norm
/-!
  C11 — static serving and file sessions never touch files outside their root.

  Theorems are about `CpModel.PathContain` (transcription of `posixpath`, `static.staticdir`,
  `sessions.FileSession`).  They hold for EVERY configured directory, section, request path,
  percent-decoder (`unq` is an arbitrary function), stat answer (`fs` is an arbitrary
  function), cwd, storage path and cookie value: no bound on lengths or on the number of
  components; the proofs go by induction over `str.split('/')` and the `normpath` stack.

  `Under root p` is the lexical containment statement: `normpath p` is absolute, consists of
  plain components (no ".", "..", empty or '/'-containing piece), and starts with ALL the
  components of `normpath root`.  `resolve_lexical` (end of file) connects it with what the OS
  does with the un-normalised string in a symlink-free tree.
-/
namespace CpProofs.C11
open CpModel.PathContain

/-- `p` lies (lexically) at or below `root`. -/
def Under (root p : Str) : Prop :=
  isAbs (normpath p) = true ∧
  components (normpath root) <+: components (normpath p) ∧
  ∀ c ∈ components (normpath p), c ≠ [] ∧ '/' ∉ c ∧ c ≠ dot ∧ c ≠ dotdot

theorem under_of_abs (root p : Str) (h : isAbs p = true)
    (hp : components (normpath root) <+: components (normpath p)) : Under root p :=
  ⟨normpath_abs_isAbs p h, hp, normpath_abs_plain p h⟩

/-! ### static.staticdir -/

theorem attempt_notFound (fs : Str → Kind) (f : Str) (acc : List Access)
    (h : attempt fs f = .notFound acc) : isAbs f = true ∧ ∀ a ∈ acc, a.path = f := by
  unfold attempt at h
  split at h
  · cases h
  · rename_i hf
    have hf' : isAbs f = true := by simpa using hf
    split at h <;> cases h <;> exact ⟨hf', by simp⟩

theorem attempt_served (fs : Str → Kind) (f : Str) (acc : List Access)
    (h : attempt fs f = .served acc) : isAbs f = true ∧ ∀ a ∈ acc, a.path = f := by
  unfold attempt at h
  split at h
  · cases h
  · rename_i hf
    have hf' : isAbs f = true := by simpa using hf
    split at h <;> cases h <;> exact ⟨hf', by simp⟩

/-- The configured index name is a plain relative name: not absolute, no ".." piece.
    (Configuration is trusted; `index_dotdot_escapes` shows the hypothesis is needed.) -/
def IndexPlain (ix : Str) : Prop := isAbs ix = false ∧ ∀ c ∈ splitSlash ix, c ≠ dotdot

/-- Joining a plain relative name below a contained file name stays contained. -/
theorem under_join_index (root f ix : Str) (hf : isAbs f = true) (hu : Under root f)
    (hix : IndexPlain ix) : Under root (join f ix) := by
  have hj : isAbs (join f ix) = true := isAbs_join f ix hf
  refine under_of_abs root _ hj ?_
  rw [normpath_abs_components _ hj, normStack_join f ix hf hix.1]
  obtain ⟨P, hP⟩ := foldl_push_only true (splitSlash ix) hix.2 (normStack true (splitSlash f))
  rw [hP, List.reverse_append]
  have := hu.2.1
  rw [normpath_abs_components f hf] at this
  exact this.trans (List.prefix_append _ _)

theorem serveChecked_paths (fs : Str → Kind) (f ix : Str) :
    ∀ a ∈ (serveChecked fs f ix).accesses, isAbs f = true ∧ (a.path = f ∨ a.path = join f ix) := by
  intro a ha
  unfold serveChecked at ha
  cases h1 : attempt fs f with
  | valueError => simp [h1] at ha
  | served acc =>
    obtain ⟨hf, hp⟩ := attempt_served fs f acc h1
    simp only [h1] at ha
    exact ⟨hf, .inl (hp a ha)⟩
  | notFound acc =>
    obtain ⟨hf, hp⟩ := attempt_notFound fs f acc h1
    simp only [h1] at ha
    by_cases hix : ix = []
    · simp only [hix, if_true] at ha
      exact ⟨hf, .inl (hp a ha)⟩
    · simp only [hix, if_false] at ha
      cases h2 : attempt fs (join f ix) with
      | valueError => simp only [h2] at ha; exact ⟨hf, .inl (hp a ha)⟩
      | served acc2 =>
        obtain ⟨_, hp2⟩ := attempt_served fs _ acc2 h2
        simp only [h2, List.mem_append] at ha
        rcases ha with ha | ha
        · exact ⟨hf, .inl (hp a ha)⟩
        · exact ⟨hf, .inr (hp2 a ha)⟩
      | notFound acc2 =>
        obtain ⟨_, hp2⟩ := attempt_notFound fs _ acc2 h2
        simp only [h2, List.mem_append] at ha
        rcases ha with ha | ha
        · exact ⟨hf, .inl (hp a ha)⟩
        · exact ⟨hf, .inr (hp2 a ha)⟩

theorem serveChecked_outcome (fs : Str → Kind) (f ix : Str) :
    (serveChecked fs f ix).outcome ≠ .forbidden ∧ (serveChecked fs f ix).outcome ≠ .passThrough := by
  unfold serveChecked
  cases attempt fs f with
  | valueError => simp
  | served acc => simp
  | notFound acc =>
    by_cases hix : ix = []
    · simp [hix]
    · simp only [hix, if_false]
      cases attempt fs (join f ix) <;> simp

/-! what `staticdir` hands to the OS since the F32 repair: `staticTarget filename` -/

theorem normpath_ne_nil (p : Str) : normpath p ≠ [] := by
  unfold normpath
  split
  · simp [dot]
  · dsimp only
    split
    · simp [dot]
    · assumption

theorem isAbs_snoc (a : Str) (c : Char) (ha : a ≠ []) : isAbs (a ++ [c]) = isAbs a := by
  cases a with
  | nil => exact absurd rfl ha
  | cons x xs => rfl

theorem isAbs_staticTarget (f : Str) : isAbs (staticTarget f) = isAbs f := by
  unfold staticTarget
  split
  · rw [isAbs_snoc _ _ (normpath_ne_nil f), normpath_isAbs]
  · exact normpath_isAbs f

/-- A trailing separator does not change the components of the normal form. -/
theorem components_normpath_snoc_slash (p : Str) (hp : isAbs p = true) :
    components (normpath (p ++ ['/'])) = components (normpath p) := by
  have hp' : isAbs (p ++ ['/']) = true := isAbs_append p _ hp
  rw [normpath_abs_components _ hp', normpath_abs_components p hp]
  have : splitSlash (p ++ ['/']) = splitSlash p ++ [[]] := by
    have := splitSlash_append_sep p []
    simpa [splitSlash] using this
  rw [this]
  simp [normStack, List.foldl_append, normStep]

theorem under_normpath (root p : Str) (hu : Under root p) : Under root (normpath p) := by
  unfold Under at hu ⊢
  rw [normpath_idem]; exact hu

/-- The name handed to the OS is lexically where the tested name is. -/
theorem under_staticTarget (root f : Str) (hf : isAbs f = true) (hu : Under root f) :
    Under root (staticTarget f) := by
  unfold staticTarget
  split
  · have habs : isAbs (normpath f) = true := normpath_abs_isAbs f hf
    refine under_of_abs root _ (isAbs_append _ _ habs) ?_
    rw [components_normpath_snoc_slash _ habs, normpath_idem]
    exact hu.2.1
  · exact under_normpath root f hu

/-- **C11, static part.**  Every path `staticdir` hands to `stat`/`open` — the joined file
    name and the index fallback below it — is lexically at or below the configured directory,
    for every dir, root, section, request path, unquote function and file-system answer. -/
theorem C11_static_contained (unq : Str → Str) (fs : Str → Kind) (i : StaticIn)
    (hix : IndexPlain i.index) :
    ∀ a ∈ (staticdir unq fs i).accesses,
      ∃ dir, staticDir i = some dir ∧ Under dir a.path := by
  intro a ha
  unfold staticdir at ha
  by_cases hm : i.method ≠ strGET ∧ i.method ≠ strHEAD
  · simp [hm] at ha
  · simp only [hm, if_false] at ha
    by_cases hmo : i.matchOk = false
    · simp [hmo] at ha
    · simp only [hmo] at ha
      cases hd : staticDir i with
      | none => simp [hd] at ha
      | some dir =>
        refine ⟨dir, rfl, ?_⟩
        simp only [hd] at ha
        by_cases hchk : containedCheck (normpath dir) (normpath (join dir (staticBranch unq i))) = false
        · simp [hchk] at ha
        · simp only [hchk] at ha
          have hchk' : containedCheck (normpath dir)
              (normpath (join dir (staticBranch unq i))) = true := by simpa using hchk
          obtain ⟨ht, hp⟩ := serveChecked_paths fs _ _ a ha
          have hf : isAbs (join dir (staticBranch unq i)) = true := by
            rw [← isAbs_staticTarget]; exact ht
          have hraw : Under dir (join dir (staticBranch unq i)) :=
            under_of_abs dir _ hf (containedCheck_components _ _ hchk')
          have hfile : Under dir (staticTarget (join dir (staticBranch unq i))) :=
            under_staticTarget dir _ hf hraw
          rcases hp with hp | hp
          · rw [hp]; exact hfile
          · rw [hp]; exact under_join_index dir _ _ ht hfile hix

/-- **C11, refusals.**  A request `staticdir` refuses (403), cannot serve for lack of an
    absolute directory (ValueError) or passes on (method / match) touches nothing at all. -/
theorem C11_refused_untouched (unq : Str → Str) (fs : Str → Kind) (i : StaticIn)
    (h : (staticdir unq fs i).outcome = .forbidden ∨ (staticdir unq fs i).outcome = .passThrough ∨
      staticDir i = none) :
    (staticdir unq fs i).accesses = [] := by
  unfold staticdir at h ⊢
  by_cases hm : i.method ≠ strGET ∧ i.method ≠ strHEAD
  · simp [hm]
  · simp only [hm, if_false] at h ⊢
    by_cases hmo : i.matchOk = false
    · simp [hmo]
    · simp only [hmo] at h ⊢
      cases hd : staticDir i with
      | none => simp
      | some dir =>
        simp only [hd] at h ⊢
        by_cases hchk : containedCheck (normpath dir) (normpath (join dir (staticBranch unq i))) = false
        · simp [hchk]
        · exfalso
          simp only [hchk] at h
          have := serveChecked_outcome fs (staticTarget (join dir (staticBranch unq i))) i.index
          rcases h with h | h | h
          · exact this.1 h
          · exact this.2 h
          · cases h

/-- The refusal is exact: a request is refused precisely when the test fails. -/
theorem static_forbidden_iff (unq : Str → Str) (fs : Str → Kind) (i : StaticIn) (dir : Str)
    (hm : i.method = strGET ∨ i.method = strHEAD) (hmo : i.matchOk = true)
    (hd : staticDir i = some dir) :
    (staticdir unq fs i).outcome = .forbidden ↔
      containedCheck (normpath dir) (normpath (join dir (staticBranch unq i))) = false := by
  have hm' : ¬ (i.method ≠ strGET ∧ i.method ≠ strHEAD) := by
    rintro ⟨h1, h2⟩; rcases hm with h | h <;> contradiction
  unfold staticdir
  simp only [hm', if_false, hmo, hd]
  by_cases hchk : containedCheck (normpath dir) (normpath (join dir (staticBranch unq i))) = false
  · simp [hchk]
  · simp only [hchk]
    constructor
    · intro h; exact absurd h (serveChecked_outcome fs _ _).1
    · intro h; cases h

/-! non-vacuity and necessity of the hypotheses -/

/-- A concrete request that is served (so the containment theorem is not vacuous). -/
example :
    let i : StaticIn := ⟨strGET, true, "/static".toList, "/t/root".toList, [], "index.html".toList,
      "/static/sub/%2e%2e/f.txt".toList⟩
    staticdir unquote (fun _ => .file) i =
      ⟨.served "/t/root/f.txt".toList,
       [⟨.stat, "/t/root/f.txt".toList⟩, ⟨.openR, "/t/root/f.txt".toList⟩]⟩ := by
  decide

example : IndexPlain "index.html".toList := ⟨by decide, by decide⟩

/-- Without `IndexPlain` the index fallback can leave the root: the operator's `index`
    setting is part of the trusted configuration. -/
theorem index_dotdot_escapes :
    let i : StaticIn := ⟨strGET, true, "/static".toList, "/t/root".toList, [], "../x".toList,
      "/static/".toList⟩
    ∃ a ∈ (staticdir unquote (fun _ => .dir) i).accesses,
      ¬ (components (normpath "/t/root".toList) <+: components (normpath a.path)) := by
  refine ⟨⟨.stat, "/t/root/../x".toList⟩, by decide, by decide⟩

/-- The pre-repair string-prefix test lets a sibling directory through (F10): a regression to
    it breaks containment. -/
theorem strPrefix_static_counterexample :
    containedCheckStrPrefix (normpath "/t/root".toList)
        (normpath (join "/t/root".toList "../root-evil/secret.txt".toList)) = true ∧
      containedCheck (normpath "/t/root".toList)
        (normpath (join "/t/root".toList "../root-evil/secret.txt".toList)) = false ∧
      ¬ (components (normpath "/t/root".toList) <+:
          components (normpath (join "/t/root".toList "../root-evil/secret.txt".toList))) := by
  decide

/-! ### sessions.FileSession -/

/-- `storage_path = abspath(...)` is the normal form of an absolute path. -/
theorem sessionRoot_eq (cwd storage : Str) (hcwd : isAbs cwd = true) :
    ∃ X, isAbs X = true ∧ sessionRoot cwd storage = normpath X := by
  unfold sessionRoot abspath
  by_cases h : isAbs storage = true
  · exact ⟨storage, h, by simp [h]⟩
  · exact ⟨join cwd storage, isAbs_join cwd storage hcwd, by simp [h]⟩

/-- The repaired `_get_file_path` test: the normalised file name extends the storage path's
    components, and strictly so unless the storage path is the file-system root. -/
theorem sessionCheck_components (cwd X id : Str) (hX : isAbs X = true)
    (h : sessionCheck cwd (normpath X) id = true) :
    components (normpath X) <+: components (normpath (sessionFileRaw (normpath X) id)) ∧
      (components (normpath X) = [] ∨
        components (normpath (sessionFileRaw (normpath X) id)) ≠ components (normpath X)) := by
  have hsp : isAbs (normpath X) = true := normpath_abs_isAbs X hX
  have hf : isAbs (sessionFileRaw (normpath X) id) = true := isAbs_join _ _ hsp
  simp only [sessionCheck, sessionFile, abspath, hf, if_true, startsWith] at h
  obtain ⟨t, ht⟩ := List.isPrefixOf_iff_prefix.1 h
  by_cases he : endsSlash (normpath X) = true
  · have := normpath_abs_endsSlash X hX he
    rw [this]
    exact ⟨List.nil_prefix, .inl rfl⟩
  · have hne : normpath X ≠ [] := by intro e; simp [e, isAbs] at hsp
    have hj : join (normpath X) [] = normpath X ++ ['/'] := by
      simp [join, isAbs, he, hne]
    rw [hj, List.append_assoc, List.singleton_append] at ht
    rw [← ht, components_append_sep]
    refine ⟨List.prefix_append _ _, ?_⟩
    by_cases hct : components t = []
    · left
      have hall := components_eq_nil t hct
      have hes : endsSlash (normpath (sessionFileRaw (normpath X) id)) = true := by
        rw [← ht]; exact endsSlash_append_slashes _ _ hall
      have hnil := normpath_abs_endsSlash _ hf hes
      rw [← ht, components_append_sep, hct, List.append_nil] at hnil
      exact hnil
    · right
      intro e
      exact hct (List.append_right_eq_self.1 e)

theorem normStep_cases (abs : Bool) (S : List Str) (c : Str) :
    normStep abs S c = S ∨ (∃ x, normStep abs S c = x :: S) ∨ (∃ t, S = t :: normStep abs S c) := by
  unfold normStep
  split
  · exact .inl rfl
  · split
    · exact .inr (.inl ⟨c, rfl⟩)
    · split
      · split
        · exact .inl rfl
        · exact .inr (.inl ⟨dotdot, rfl⟩)
      · rename_i t rest
        split
        · exact .inr (.inl ⟨dotdot, rfl⟩)
        · exact .inr (.inr ⟨t, rfl⟩)

/-- `path + '.lock'` stays below every root the path is strictly below. -/
theorem lock_prefix (R : List Str) (f : Str) (hf : isAbs f = true)
    (hpre : R <+: components (normpath f))
    (hstrict : R = [] ∨ components (normpath f) ≠ R) :
    R <+: components (normpath (f ++ lockSuffix)) := by
  have hfl : isAbs (f ++ lockSuffix) = true := isAbs_append f _ hf
  rw [normpath_abs_components _ hfl]
  rw [normpath_abs_components f hf] at hpre hstrict
  obtain ⟨init, last, h1, h2⟩ := splitSlash_append_noslash f lockSuffix (by decide)
  rw [h2]
  rw [h1] at hpre hstrict
  simp only [normStack, List.foldl_append, List.foldl_cons, List.foldl_nil] at hpre hstrict ⊢
  generalize init.foldl (normStep true) [] = S at hpre hstrict ⊢
  have hpush : normStep true S (last ++ lockSuffix) = (last ++ lockSuffix) :: S := by
    have h5 : (last ++ lockSuffix).length ≥ 3 := by simp [lockSuffix]
    have n1 : last ++ lockSuffix ≠ [] := by intro e; rw [e] at h5; simp at h5
    have n2 : last ++ lockSuffix ≠ dot := by intro e; rw [e] at h5; simp [dot] at h5
    have n3 : last ++ lockSuffix ≠ dotdot := by intro e; rw [e] at h5; simp [dotdot] at h5
    simp [normStep, n1, n2, n3]
  rw [hpush, List.reverse_cons]
  rcases normStep_cases true S last with e | ⟨x, e⟩ | ⟨t, e⟩
  · rw [e] at hpre
    exact hpre.trans (List.prefix_append _ _)
  · rw [e, List.reverse_cons] at hpre hstrict
    rcases List.prefix_concat_iff.1 hpre with h | h
    · exfalso
      rcases hstrict with h0 | h0
      · rw [h0] at h; simp at h
      · exact h0 h.symm
    · exact h.trans (List.prefix_append _ _)
  · have : S.reverse = (normStep true S last).reverse ++ [t] := by
      conv => lhs; rw [e]
      simp
    rw [this]
    exact (hpre.trans (List.prefix_append _ _)).trans (List.prefix_append _ _)

/-- **C11, session part.**  Whatever one of the five `FileSession` methods is given as
    session id, the path it reads, writes, locks, tests or deletes is lexically below the
    storage directory (or the method raises 400 and does nothing). -/
theorem C11_session_contained (cwd storage id : Str) (hcwd : isAbs cwd = true) (op : SessOp)
    (acc : List Access) (h : sessOp op cwd (sessionRoot cwd storage) id = some acc) :
    ∀ a ∈ acc, Under (sessionRoot cwd storage) a.path := by
  obtain ⟨X, hX, hsp⟩ := sessionRoot_eq cwd storage hcwd
  rw [hsp] at h ⊢
  have habs : isAbs (normpath X) = true := normpath_abs_isAbs X hX
  have hraw : isAbs (sessionFileRaw (normpath X) id) = true := isAbs_join _ _ habs
  -- the name handed to the OS is the normal form of the joined name
  have hF : sessionFile cwd (normpath X) id = normpath (sessionFileRaw (normpath X) id) := by
    simp [sessionFile, abspath, hraw]
  have hf : isAbs (sessionFile cwd (normpath X) id) = true := by
    rw [hF]; exact normpath_abs_isAbs _ hraw
  unfold sessOp getFilePath at h
  by_cases hchk : sessionCheck cwd (normpath X) id = true
  · obtain ⟨hpre, hstrict⟩ := sessionCheck_components cwd X id hX hchk
    have hidem : normpath (normpath X) = normpath X := normpath_idem X
    have hFn : normpath (sessionFile cwd (normpath X) id) = normpath (sessionFileRaw (normpath X) id) := by
      rw [hF, normpath_idem]
    have hfile : Under (normpath X) (sessionFile cwd (normpath X) id) :=
      under_of_abs _ _ hf (by rw [hidem, hFn]; exact hpre)
    have hlock : Under (normpath X) (sessionFile cwd (normpath X) id ++ lockSuffix) :=
      under_of_abs _ _ (isAbs_append _ _ hf)
        (by rw [hidem]; exact lock_prefix _ _ hf (by rw [hFn]; exact hpre) (by rw [hFn]; exact hstrict))
    simp only [hchk, if_true, Option.some.injEq] at h
    intro a ha
    rw [← h] at ha
    cases op with
    | exists_ =>
      simp only at ha
      split at ha
      · simp at ha
      · simp only [List.mem_singleton] at ha; rw [ha]; exact hfile
    | load => simp only [List.mem_singleton] at ha; rw [ha]; exact hfile
    | save => simp only [List.mem_singleton] at ha; rw [ha]; exact hfile
    | delete => simp only [List.mem_singleton] at ha; rw [ha]; exact hfile
    | acquireLock => simp only [List.mem_singleton] at ha; rw [ha]; exact hlock
  · simp [hchk] at h

/-- A refused session id (400) means no access at all: `sessOp` yields nothing exactly when
    the test fails. -/
theorem C11_session_refused_untouched (cwd sp id : Str) (op : SessOp) :
    sessOp op cwd sp id = none ↔ sessionCheck cwd sp id = false := by
  unfold sessOp getFilePath
  by_cases h : sessionCheck cwd sp id = true
  · simp [h]
  · simp [h]

example : sessOp .acquireLock "/".toList (sessionRoot "/".toList "/t/sess".toList) "abc".toList =
    some [⟨.lock, "/t/sess/session-abc.lock".toList⟩] := by decide

/-- The pre-repair string-prefix test accepts a sibling of the storage directory (F11). -/
theorem strPrefix_session_counterexample :
    sessionCheckStrPrefix "/".toList "/t/sess".toList "/../../sess-evil/victim".toList = true ∧
      sessionCheck "/".toList "/t/sess".toList "/../../sess-evil/victim".toList = false ∧
      ¬ (components "/t/sess".toList <+:
          components (normpath (sessionFileRaw "/t/sess".toList "/../../sess-evil/victim".toList))) := by
  decide

/-! ### clean_up and the per-request flow -/

theorem regular_of_prefix (fname : Str) (hpre : startsWith fname sessionPrefix = true) :
    fname ≠ [] ∧ fname ≠ dot ∧ fname ≠ dotdot ∧ isAbs fname = false := by
  obtain ⟨t, rfl⟩ := List.isPrefixOf_iff_prefix.1 hpre
  refine ⟨by simp [sessionPrefix], by simp [sessionPrefix, dot], by simp [sessionPrefix, dotdot],
    by simp [sessionPrefix, isAbs]⟩

/-- A directory entry named `session-…` joined onto the storage path is one component below it. -/
theorem cleanup_entry (sp fname : Str) (hsp : isAbs sp = true) (hns : '/' ∉ fname)
    (hpre : startsWith fname sessionPrefix = true) :
    components (normpath (join sp fname)) = components (normpath sp) ++ [fname] := by
  obtain ⟨h1, h2, h3, h4⟩ := regular_of_prefix fname hpre
  have hj : isAbs (join sp fname) = true := isAbs_join sp fname hsp
  rw [normpath_abs_components _ hj, normStack_join sp fname hsp h4, splitSlash_noslash fname hns,
    normpath_abs_components sp hsp]
  simp [normStep, h1, h2, h3]

/-- **C11, clean_up.**  The sweep lists the storage directory and locks / loads / unlinks only
    paths one component below it (directory entries contain no '/'). -/
theorem C11_cleanup_contained (cwd storage : Str) (hcwd : isAbs cwd = true)
    (listing : List (Str × Stored)) (hl : ∀ e ∈ listing, '/' ∉ e.1) :
    ∀ a ∈ cleanUp (sessionRoot cwd storage) listing, Under (sessionRoot cwd storage) a.path := by
  obtain ⟨X, hX, hsp⟩ := sessionRoot_eq cwd storage hcwd
  rw [hsp]
  have habs : isAbs (normpath X) = true := normpath_abs_isAbs X hX
  intro a ha
  unfold cleanUp at ha
  rcases List.mem_cons.1 ha with rfl | ha
  · exact under_of_abs _ _ habs (List.prefix_refl _)
  · obtain ⟨e, he, hae⟩ := List.mem_flatMap.1 ha
    obtain ⟨fname, stt⟩ := e
    simp only at hae
    split at hae
    · rename_i hc
      have hent := cleanup_entry (normpath X) fname habs (hl _ he) hc.1
      have hj : isAbs (join (normpath X) fname) = true := isAbs_join _ _ habs
      have hpath : Under (normpath X) (join (normpath X) fname) :=
        under_of_abs _ _ hj (by rw [hent]; exact List.prefix_append _ _)
      have hlock : Under (normpath X) (join (normpath X) fname ++ lockSuffix) := by
        refine under_of_abs _ _ (isAbs_append _ _ hj) ?_
        refine lock_prefix _ _ hj (by rw [hent]; exact List.prefix_append _ _) (.inr ?_)
        rw [hent]; intro e'
        have := List.append_right_eq_self.1 e'
        simp at this
      simp only [List.mem_append, List.mem_cons, List.not_mem_nil, or_false] at hae
      rcases hae with (rfl | rfl) | hae
      · exact hlock
      · exact hpath
      · split at hae
        · simp only [List.mem_singleton] at hae; rw [hae]; exact hpath
        · simp at hae
    · simp at hae

theorem afterInit_contained (cwd storage id gen2 : Str) (hcwd : isAbs cwd = true) (act : Action)
    (acc : List Access) (h : afterInit cwd (sessionRoot cwd storage) id gen2 act = some acc) :
    ∀ a ∈ acc, Under (sessionRoot cwd storage) a.path := by
  have key := fun op i r (hr : sessOp op cwd (sessionRoot cwd storage) i = some r) =>
    C11_session_contained cwd storage i hcwd op r hr
  unfold afterInit at h
  simp only [bind, Option.bind_eq_some_iff] at h
  obtain ⟨lk, hlk, h⟩ := h
  cases act with
  | none =>
    simp only [pure, Option.some.injEq] at h
    subst h; exact key _ _ _ hlk
  | read =>
    simp only [pure, Option.bind_eq_some_iff, Option.some.injEq] at h
    obtain ⟨l, hl', s', hs', rfl⟩ := h
    intro a ha
    simp only [List.mem_append] at ha
    rcases ha with (ha | ha) | ha
    · exact key _ _ _ hlk a ha
    · exact key _ _ _ hl' a ha
    · exact key _ _ _ hs' a ha
  | write =>
    simp only [pure, Option.bind_eq_some_iff, Option.some.injEq] at h
    obtain ⟨l, hl', s', hs', rfl⟩ := h
    intro a ha
    simp only [List.mem_append] at ha
    rcases ha with (ha | ha) | ha
    · exact key _ _ _ hlk a ha
    · exact key _ _ _ hl' a ha
    · exact key _ _ _ hs' a ha
  | delete =>
    simp only [pure, Option.bind_eq_some_iff, Option.some.injEq] at h
    obtain ⟨d, hd', rfl⟩ := h
    intro a ha
    simp only [List.mem_append] at ha
    rcases ha with ha | ha
    · exact key _ _ _ hlk a ha
    · exact key _ _ _ hd' a ha
  | regenerate =>
    simp only [pure, Option.bind_eq_some_iff, Option.some.injEq] at h
    obtain ⟨d, hd', e, he', k, hk', rfl⟩ := h
    intro a ha
    simp only [List.mem_append] at ha
    rcases ha with ((ha | ha) | ha) | ha
    · exact key _ _ _ hlk a ha
    · exact key _ _ _ hd' a ha
    · exact key _ _ _ he' a ha
    · exact key _ _ _ hk' a ha

/-- **C11, whole request.**  Everything one request does through the session tool — the
    existence test on the cookie's id, the fresh ids, the implicit lock, load, save, delete,
    regenerate — stays below the storage directory, for every cookie value; the generated ids
    need no assumption because they go through the same test. -/
theorem C11_session_request_contained (cwd storage : Str) (hcwd : isAbs cwd = true)
    (cookie : Option Str) (present : Bool) (gen1 gen2 : Str) (act : Action) (acc : List Access)
    (h : sessionRequest cwd storage cookie present gen1 gen2 act = some acc) :
    ∀ a ∈ acc, Under (sessionRoot cwd storage) a.path := by
  have key := fun op i r (hr : sessOp op cwd (sessionRoot cwd storage) i = some r) =>
    C11_session_contained cwd storage i hcwd op r hr
  have keyA := fun i r (hr : afterInit cwd (sessionRoot cwd storage) i gen2 act = some r) =>
    afterInit_contained cwd storage i gen2 hcwd act r hr
  unfold sessionRequest at h
  cases cookie with
  | none =>
    simp only [bind, pure, Option.bind_eq_some_iff, Option.some.injEq] at h
    obtain ⟨e, he, r, hr, rfl⟩ := h
    intro a ha
    simp only [List.mem_append] at ha
    rcases ha with ha | ha
    · exact key _ _ _ he a ha
    · exact keyA _ _ hr a ha
  | some id =>
    simp only [bind, Option.bind_eq_some_iff] at h
    obtain ⟨e, he, h⟩ := h
    split at h
    · simp only [pure, Option.bind_eq_some_iff, Option.some.injEq] at h
      obtain ⟨r, hr, rfl⟩ := h
      intro a ha
      simp only [List.mem_append] at ha
      rcases ha with ha | ha
      · exact key _ _ _ he a ha
      · exact keyA _ _ hr a ha
    · simp only [pure, Option.bind_eq_some_iff, Option.some.injEq] at h
      obtain ⟨e1, he1, r, hr, rfl⟩ := h
      intro a ha
      simp only [List.mem_append] at ha
      rcases ha with (ha | ha) | ha
      · exact key _ _ _ he a ha
      · exact key _ _ _ he1 a ha
      · exact keyA _ _ hr a ha

example : sessionRequest "/".toList "/t/sess".toList (some "abc".toList) true [] "0f".toList .write =
    some [⟨.stat, "/t/sess/session-abc".toList⟩, ⟨.lock, "/t/sess/session-abc.lock".toList⟩,
      ⟨.openR, "/t/sess/session-abc".toList⟩, ⟨.openW, "/t/sess/session-abc".toList⟩] := by decide

/-! ### lexical containment is physical containment (symlink-free trees)

  The code hands the UN-normalised string to the OS.  `resolve` walks it the way the kernel
  does (".." = parent of the directory reached so far).  Whenever that walk arrives at an
  existing directory or file, it arrives exactly at the components of `normpath p`; so a path
  that is `Under root` can only ever reach objects inside `root`. -/

theorem normStep_regular (st : List Str) (c : Str) (h1 : ¬ (c = [] ∨ c = dot)) (h2 : c ≠ dotdot) :
    normStep true st c = c :: st := by
  simp [normStep, h1, h2]

theorem normStep_dotdot (st : List Str) (h : ∀ c ∈ st, c ≠ dotdot) :
    normStep true st dotdot = st.tail := by
  cases st with
  | nil => simp [normStep, dotdot, dot]
  | cons t rest =>
    have ht : t ≠ dotdot := h t (by simp)
    simp only [dotdot] at ht
    simp [normStep, dotdot, dot, ht]

theorem resolveFrom_lexical (t : Tree) (comps : List Str) :
    ∀ (cur : List Str) (q : List Str), (∀ c ∈ cur, c ≠ dotdot) →
      (resolveFrom t cur comps = .dir q ∨ resolveFrom t cur comps = .file q) →
      q = (comps.foldl (normStep true) cur).reverse := by
  induction comps with
  | nil =>
    intro cur q _ h
    simp only [resolveFrom] at h
    rcases h with h | h
    · cases h; rfl
    · cases h
  | cons c rest ih =>
    intro cur q hcur h
    simp only [List.foldl_cons]
    unfold resolveFrom at h
    by_cases h1 : c = [] ∨ c = dot
    · simp only [h1, if_true] at h
      have : normStep true cur c = cur := by simp [normStep, h1]
      rw [this]; exact ih cur q hcur h
    · simp only [h1, if_false] at h
      by_cases h2 : c = dotdot
      · simp only [h2, if_true] at h
        rw [h2, normStep_dotdot cur hcur]
        exact ih cur.tail q (fun x hx => hcur x (List.mem_of_mem_tail hx)) h
      · simp only [h2, if_false] at h
        rw [normStep_regular cur c h1 h2]
        have hn : ∀ x ∈ c :: cur, x ≠ dotdot := by
          intro x hx
          rcases List.mem_cons.1 hx with rfl | hx
          · exact h2
          · exact hcur x hx
        by_cases hd : t.dirs.contains (c :: cur).reverse = true
        · simp only [hd, if_true] at h
          exact ih (c :: cur) q hn h
        · simp only [hd] at h
          by_cases hf : t.files.contains (c :: cur).reverse = true ∧ rest = []
          · simp only [hf, and_self, if_true] at h
            rcases h with h | h
            · simp at h
            · obtain ⟨_, hr⟩ := hf
              subst hr
              cases h; rfl
          · simp only [hf, if_false] at h
            rcases h with h | h <;> simp at h

/-- What `stat`/`open` reach for an absolute path, when they reach anything, is the object
    named by the components of `normpath p`. -/
theorem resolve_lexical (t : Tree) (p : Str) (q : List Str) (hp : isAbs p = true)
    (h : resolve t p = .dir q ∨ resolve t p = .file q) :
    q = components (normpath p) := by
  rw [normpath_abs_components p hp]
  exact resolveFrom_lexical t (splitSlash p) [] q (by simp) h

/-- **C11, physical form.**  In a symlink-free tree, a path the model hands to the OS that is
    lexically under `root` reaches, if it reaches any existing object, an object whose location
    starts with all the components of `root`. -/
theorem C11_physical_contained (t : Tree) (root p : Str) (q : List Str) (hp : isAbs p = true)
    (hu : Under root p) (h : resolve t p = .dir q ∨ resolve t p = .file q) :
    components (normpath root) <+: q := by
  rw [resolve_lexical t p q hp h]; exact hu.2.1

/-- When the walk fails, it fails at the lexical normal form of the path cut after the failing
    piece; in particular a failure at the LAST piece (the file `open(..., 'wb')` would create,
    the lock file) is located at `components (normpath p)`. -/
theorem resolveFrom_enoent (t : Tree) (comps : List Str) :
    ∀ (cur : List Str) (q : List Str), (∀ c ∈ cur, c ≠ dotdot) →
      resolveFrom t cur comps = .enoent q →
      ∃ pre c post, comps = pre ++ c :: post ∧
        q = ((pre ++ [c]).foldl (normStep true) cur).reverse := by
  induction comps with
  | nil => intro cur q _ h; simp [resolveFrom] at h
  | cons c rest ih =>
    intro cur q hcur h
    unfold resolveFrom at h
    by_cases h1 : c = [] ∨ c = dot
    · simp only [h1, if_true] at h
      obtain ⟨pre, c', post, e, hq⟩ := ih cur q hcur h
      refine ⟨c :: pre, c', post, by simp [e], ?_⟩
      have : normStep true cur c = cur := by simp [normStep, h1]
      simp only [List.cons_append, List.foldl_cons, this]
      exact hq
    · simp only [h1, if_false] at h
      by_cases h2 : c = dotdot
      · simp only [h2, if_true] at h
        obtain ⟨pre, c', post, e, hq⟩ :=
          ih cur.tail q (fun x hx => hcur x (List.mem_of_mem_tail hx)) h
        refine ⟨c :: pre, c', post, by simp [e], ?_⟩
        simp only [List.cons_append, List.foldl_cons, h2, normStep_dotdot cur hcur]
        exact hq
      · simp only [h2, if_false] at h
        have hn : ∀ x ∈ c :: cur, x ≠ dotdot := by
          intro x hx
          rcases List.mem_cons.1 hx with rfl | hx
          · exact h2
          · exact hcur x hx
        by_cases hd : t.dirs.contains (c :: cur).reverse = true
        · simp only [hd, if_true] at h
          obtain ⟨pre, c', post, e, hq⟩ := ih (c :: cur) q hn h
          refine ⟨c :: pre, c', post, by simp [e], ?_⟩
          simp only [List.cons_append, List.foldl_cons, normStep_regular cur c h1 h2]
          exact hq
        · simp only [hd] at h
          by_cases hf : t.files.contains (c :: cur).reverse = true ∧ rest = []
          · simp only [hf, and_self, if_true] at h
            simp at h
          · simp only [hf, if_false] at h
            refine ⟨[], c, rest, rfl, ?_⟩
            simp only [List.nil_append, List.foldl_cons, List.foldl_nil,
              normStep_regular cur c h1 h2]
            cases h; rfl

theorem resolve_create (t : Tree) (p : Str) (q : List Str) (hp : isAbs p = true)
    (h : resolve t p = .enoent q) :
    ∃ pre c post, splitSlash p = pre ++ c :: post ∧
      q = (normStack true (pre ++ [c])).reverse ∧ (post = [] → q = components (normpath p)) := by
  obtain ⟨pre, c, post, e, hq⟩ := resolveFrom_enoent t (splitSlash p) [] q (by simp) h
  refine ⟨pre, c, post, e, hq, ?_⟩
  intro hpost
  rw [normpath_abs_components p hp, e, hpost]
  exact hq

example : resolve ⟨[["t"].map String.toList, ["t", "root"].map String.toList],
      [["t", "root", "f.txt"].map String.toList]⟩ "/t/root/../root/./f.txt".toList =
    .file (["t", "root", "f.txt"].map String.toList) := by decide

end CpProofs.C11
