import CpModel.ParseTok
import CpModel.Gen.C07Tables
/-!
  C07 (round 2) — theorems about header-value tokenising, the Digest Authorization outcome classes and the
  response header encoding outcome (`CpModel.ParseTok`).
-/
namespace CpProofs.C07
open CpModel.Parse CpModel.Gen.C07

deriving instance DecidableEq for Except

/-! ### header elements -/

/-- whatever the field name and value: `header_elements` returns, or raises `HTTPError(400)` -/
theorem headerElements_ok_or_400 (name value : Text) :
    (∃ els, headerElements name value = .ok els) ∨ headerElements name value = .error (.http 400) := by
  unfold headerElements
  simp only
  split
  · right; rfl
  · left; exact ⟨_, rfl⟩

/-- fields that are not `Accept*` / `TE` never raise while being tokenised -/
theorem headerElements_nonAccept_total (name value : Text) (h : isAcceptName name = false) :
    headerElements name value = .ok (rawElements name value) := by
  simp [headerElements, h]

/-- exactly when it raises: an `Accept*` field with at least two elements one of which has a q-value that
    `float()` rejects (a single element is not compared by `sorted()`; its q-value is evaluated later, by the
    tool that asks for it) -/
theorem headerElements_400_iff (name value : Text) :
    headerElements name value = .error (.http 400) ↔
      (isAcceptName name = true ∧ (rawElements name value).length ≥ 2 ∧
        (rawElements name value).any (fun e => !e.qOk) = true) := by
  unfold headerElements
  simp only
  split
  · rename_i h
    simp only [Bool.and_eq_true, decide_eq_true_eq] at h
    exact ⟨fun _ => ⟨h.1.1, h.1.2, h.2⟩, fun _ => rfl⟩
  · rename_i h
    constructor
    · intro h'; cases h'
    · intro ⟨h1, h2, h3⟩
      exact absurd (by simp [h1, h2, h3]) h

/-- an empty or absent header has no elements -/
theorem headerElements_empty (name : Text) : headerElements name [] = .ok [] := by
  simp [headerElements, rawElements]

/-- through every site that runs before the response is finalized: below 500 -/
theorem C07_headerElements (s : Site) (hs : stage s = .early) (name value : Text) :
    statusOf s (headerElements name value) < 500 := by
  rcases headerElements_ok_or_400 name value with ⟨els, h⟩ | h
  · rw [h]; simp [statusOf]
  · rw [h]; simp [statusOf, httpStatus, hs]

def C07_headerElements_full : Prop :=
  ∀ (s : Site) (name value : Text), statusOf s (headerElements name value) < 500

/-- false on the unchanged tree (K1): two `Accept-Encoding` elements, one with `q=x`, tokenised from the
    `before_finalize` hook of `tools.gzip` -/
theorem C07_headerElements_full_false : ¬ C07_headerElements_full := by
  intro h
  have := h .qvalueGzip "Accept-Encoding".toList "gzip;q=x,identity".toList
  revert this
  decide

example : headerElements "Accept".toList "text/html;q=x".toList
    = .ok [⟨"text/html".toList, [(['q'], .elem ['x'] [])]⟩] := by decide
example : headerElements "Accept".toList "a;q=x,b".toList = .error (.http 400) := by decide
example : (headerElements "Cache-Control".toList "max-age=x, a;q=x".toList).isOk = true := by decide
example : headerSplit "a,\"b,c\",d".toList = ["a".toList, "\"b,c\"".toList, "d".toList] := by decide
example : parseHeader "form-data; name=\"a;b\"; x=1".toList
    = ("form-data".toList, [("name".toList, "a;b".toList), ("x".toList, "1".toList)]) := by decide

/-- the evaluation of one element's q-value: a float, or `HTTPError(400)` (`qvalue` of `ParseSites`) -/
theorem acceptQvalue_ok_or_400 (e : HElem) :
    qvalue e.qText = .ok () ∨ qvalue e.qText = .error (.http 400) := by
  unfold qvalue
  split
  · left; rfl
  · right; rfl

/-! ### Digest Authorization -/

theorem digestInit_raises_only_ValueError (algs qops : List Text) (p : DigestParams) (r : Raised)
    (h : digestInit algs qops p = .error r) : r = .py .ValueError := by
  unfold digestInit at h
  simp only at h
  split at h
  · cases h; rfl
  · split at h
    · cases h; rfl
    · split at h
      · split at h
        · cases h; rfl
        · split at h
          · cases h; rfl
          · cases h
      · split at h
        · cases h; rfl
        · cases h

/-- the statuses `digest_auth` can produce -/
theorem digestAuth_status_cases (algs qops : List Text) (sc dc hp : Bool) (tok : Except Exc DigestParams)
    (env : DigestEnv) :
    digestAuth algs qops sc dc hp tok env = 200 ∨ digestAuth algs qops sc dc hp tok env = 401 ∨
    digestAuth algs qops sc dc hp tok env = 500 ∨
    (∃ e, digestAuth algs qops sc dc hp tok env = catchHand .digestKeqv e) := by
  unfold digestAuth
  split
  · right; left; rfl
  · simp only
    split
    · right; right; right; exact ⟨_, rfl⟩
    · rename_i c h
      -- `init` never is an `HTTPError`
      exfalso
      split at h
      · cases h
      · split at h
        · cases h
        · split at h
          · cases h
          · split at h
            · cases h
            · rename_i r hr
              have := digestInit_raises_only_ValueError _ _ _ _ hr
              subst this
              cases h
    · split
      · right; left; rfl
      · split
        · right; left; rfl
        · split
          · right; right; left; rfl
          · split
            · right; left; rfl
            · split
              · right; left; rfl
              · left; rfl

def tokInContract : Except Exc DigestParams → Bool
  | .ok _ => true
  | .error e => (contract .digestKeqv).contains e

def qopAuthInt : Except Exc DigestParams → Bool
  | .ok p => p.qop = some authIntText
  | .error _ => false

def C07_digest_full : Prop :=
  ∀ (sc dc hp : Bool) (tok : Except Exc DigestParams) (env : DigestEnv),
    tokInContract tok = true → digestAuth digestAlgsUpper digestQops sc dc hp tok env < 500

/-- false on the unchanged tree (F21): a well-formed `qop=auth-int` header with a genuine nonce and a known user -/
theorem C07_digest_full_false : ¬ C07_digest_full := by
  intro h
  have := h true true true
    (.ok ⟨some ['r'], some ['u'], some ['n'], some ['/'], some ['x'], none, some ['c'], some "auth-int".toList, some ['1']⟩)
    ⟨true, true, false, false⟩ rfl
  revert this
  decide

/-- what does hold: whatever the header (scheme, decodability, tokenizer outcome within its contract, every
    combination of fields) and whatever the server knows about nonce, user, digest and age, the answer is
    200, 400 or 401 - unless the header says `qop=auth-int` -/
theorem C07_digest_partial (sc dc hp : Bool) (tok : Except Exc DigestParams) (env : DigestEnv)
    (ht : tokInContract tok = true) (hq : qopAuthInt tok = false) :
    digestAuth digestAlgsUpper digestQops sc dc hp tok env = 200 ∨
    digestAuth digestAlgsUpper digestQops sc dc hp tok env = 400 ∨
    digestAuth digestAlgsUpper digestQops sc dc hp tok env = 401 := by
  unfold digestAuth
  split
  · right; right; rfl
  · simp only
    split
    · rename_i e h
      -- which class can `init` carry?
      have he : e = .UnicodeEncodeError ∨ e = .ValueError ∨ e ∈ contract .digestKeqv := by
        split at h
        · cases h; left; rfl
        · split at h
          · cases h; right; left; rfl
          · split at h
            · rename_i e' _
              cases h
              right; right
              simpa [tokInContract] using ht
            · split at h
              · cases h
              · rename_i r hr
                have := digestInit_raises_only_ValueError _ _ _ _ hr
                subst this
                cases h; right; left; rfl
      right; left
      rcases he with he | he | he
      · subst he; decide
      · subst he; decide
      · have : ∀ e ∈ contract .digestKeqv, catchHand .digestKeqv e = 400 := by decide
        exact this e he
    · rename_i c h
      exfalso
      split at h
      · cases h
      · split at h
        · cases h
        · split at h
          · cases h
          · split at h
            · cases h
            · rename_i r hr
              have := digestInit_raises_only_ValueError _ _ _ _ hr
              subst this
              cases h
    · rename_i p h
      -- `init = ok p` only when `tok = ok p`
      have hp' : tok = .ok p := by
        split at h
        · cases h
        · split at h
          · cases h
          · split at h
            · cases h
            · split at h
              · cases h; rfl
              · cases h
      have hq' : ¬ (p.qop = some authIntText) := by
        subst hp'
        intro hh
        have : qopAuthInt (.ok p) = true := by
          simp only [qopAuthInt]; exact decide_eq_true hh
        rw [this] at hq
        cases hq
      cases h1 : env.nonceValid <;> cases h2 : env.userKnown <;> cases h3 : env.digestMatches <;>
        cases h4 : env.stale <;> simp [hq']

theorem C07_digest_partial_lt (sc dc hp : Bool) (tok : Except Exc DigestParams) (env : DigestEnv)
    (ht : tokInContract tok = true) (hq : qopAuthInt tok = false) :
    digestAuth digestAlgsUpper digestQops sc dc hp tok env < 500 := by
  rcases C07_digest_partial sc dc hp tok env ht hq with h | h | h <;> rw [h] <;> decide

-- non-vacuity: a header that authenticates, one that is refused, one that is malformed
example : digestAuth digestAlgsUpper digestQops true true true
    (.ok ⟨some ['r'], some ['u'], some ['n'], some ['/'], some ['x'], none, some ['c'], some "auth".toList, some ['1']⟩)
    ⟨true, true, true, false⟩ = 200 := by decide
example : digestAuth digestAlgsUpper digestQops true true true
    (.ok ⟨some ['r'], some ['u'], some ['n'], some ['/'], some ['x'], some "md5-sess".toList, none, none, none⟩)
    ⟨true, true, false, false⟩ = 401 := by decide
example : digestAuth digestAlgsUpper digestQops true true true (.error .IndexError) ⟨true, true, true, false⟩ = 400 := by
  decide
example : digestAuth digestAlgsUpper digestQops true false true (.error .IndexError) ⟨true, true, true, false⟩ = 400 := by
  decide

/-! ### response header values -/

/-- the model's claim "never raises, whatever the request's protocol" equals what was measured on the live
    `HeaderMap` for every class of value and both protocols -/
theorem respEncode_agrees_table :
    ∀ row ∈ respEncodeTable, row.2.2 = true := by decide

theorem respEncodeTable_covers :
    ∀ p ∈ [true, false], ∀ c ∈ allRespCls, (respEncodeTable.any fun row => row.1 = p ∧ row.2.1 = c) = true := by
  decide

/-- `HeaderMap.encode_header_item` (the C12 model, over C12's measured tables) never raises, for any text
    and either protocol: a response header that reflects request data beyond ISO-8859-1 is RFC 2047 encoded,
    also for an HTTP/1.0 client -/
theorem C07_respEncode_total (p11 : Bool) (s : Text) : ∃ b, respEncode p11 s = .ok b := by
  have henc : ∃ b, CpModel.HeaderEnc.encode s = .ok b := by
    unfold CpModel.HeaderEnc.encode
    split
    · exact ⟨_, rfl⟩
    · split
      · exact ⟨_, rfl⟩
      · rename_i h2
        exact absurd (by decide) h2
  obtain ⟨b, hb⟩ := henc
  refine ⟨CpModel.HeaderEnc.deleteCtl b, ?_⟩
  simp only [respEncode, CpModel.HeaderEnc.encodeHeaderItem, hb, Except.map]

/-- nothing the encoder emits can end a header line or start a new one -/
theorem C07_respEncode_no_ctl (p11 : Bool) (s : Text) (b : List UInt8) (h : respEncode p11 s = .ok b) :
    ∀ x ∈ b, x ≠ 13 ∧ x ≠ 10 ∧ x ≠ 0 := by
  unfold respEncode at h
  split at h
  · rename_i b' hb
    cases h
    unfold CpModel.HeaderEnc.encodeHeaderItem at hb
    cases he : CpModel.HeaderEnc.encode s with
    | error e => rw [he] at hb; cases hb
    | ok raw =>
      rw [he] at hb
      simp only [Except.map] at hb
      cases hb
      intro x hx
      simp only [CpModel.HeaderEnc.deleteCtl, List.mem_filter] at hx
      have hx2 := hx.2
      refine ⟨?_, ?_, ?_⟩ <;> (intro hxe; subst hxe; revert hx2; decide)
  · cases h

/-! ### page handler call: every way Python can refuse the call is classified as 404 / 400 -/

theorem extra_split (s : Sig) (kw : List (Text × Bool)) (h : (kw.map (·.1)).any (isExtra s) = true) :
    kw.any (fun k => !k.2 && isExtra s k.1) = true ∨ kw.any (fun k => k.2 && isExtra s k.1) = true := by
  induction kw with
  | nil => simp at h
  | cons k rest ih =>
    simp only [List.map_cons, List.any_cons, Bool.or_eq_true] at h ⊢
    rcases h with h | h
    · cases k.2 <;> simp [h]
    · rcases ih h with h' | h'
      · left; right; exact h'
      · right; right; exact h'

def C07_dispatch_full (fx : Bool) : Prop :=
  ∀ (s : Sig) (c : Call), bindFails s c = true → testCallableSpec fx s c ≠ .reraise

/-- false for the code without the repair (K6): a request parameter named like the bound first parameter, handler
    with `**kwargs` -/
theorem C07_dispatch_full_false : ¬ C07_dispatch_full false := by
  intro h
  have := h ⟨"self".toList, [], 0, true, true⟩ ⟨0, [("self".toList, false)]⟩ (by decide)
  revert this
  decide

/-- whichever way the code is (`fx`): when no request parameter is named like the bound parameter, every refused
    call (too many path atoms, a parameter supplied twice, an unexpected parameter, a missing parameter) is
    answered with 404 or 400 - whatever the signature and whatever the request; with the repair (`fx = true`) the
    side condition is not needed -/
theorem C07_dispatch_partial (fx : Bool) (s : Sig) (c : Call) (hb : fx = true ∨ c.keys.contains s.bound = false)
    (hf : bindFails s c = true) :
    testCallableSpec fx s c = .http 404 ∨ testCallableSpec fx s c = .http 400 := by
  unfold testCallableSpec
  split
  · left; rfl
  · rename_i hm
    split
    · left; rfl
    · rename_i hv
      split
      · split
        · left; rfl
        · right; rfl
      · rename_i hfx
        split
        · split
          · left; rfl
          · right; rfl
        · rename_i hmul
          split
          · rename_i hx
            simp only [Bool.and_eq_true, Bool.not_eq_true'] at hx
            rcases extra_split s c.kwargs (by simpa [Call.keys] using hx.2) with h1 | h1
            · simp [h1]
            · by_cases h0 : c.kwargs.any (fun k => !k.2 && isExtra s k.1) = true
              · simp [h0]
              · simp [h0, h1]
          · rename_i hx
            -- then nothing refuses the call: contradiction with `hf`
            exfalso
            unfold bindFails at hf
            simp only [Bool.or_eq_true] at hf
            rcases hf with (((hf | hf) | hf) | hf) | hf
            · apply hv
              simp only [Bool.and_eq_true] at hf ⊢
              exact ⟨hf.2, hf.1⟩
            · rcases hb with hb | hb
              · apply hfx; rw [hb, hf]; rfl
              · rw [hb] at hf; cases hf
            · exact hmul hf
            · exact hx hf
            · exact hm hf

/-- with the repair the full statement holds -/
theorem C07_dispatch_full_fixed : C07_dispatch_full true := by
  intro s c hf
  rcases C07_dispatch_partial true s c (Or.inl rfl) hf with h | h <;> rw [h] <;> simp

/-- the statement about the code as measured on this run: if it classifies the bound-parameter collision
    (`boundArgClassified`, regenerated from the live `test_callable_spec`), every refused call is a 404 / 400 -/
theorem C07_dispatch_live (h : boundArgClassified = true) : C07_dispatch_full boundArgClassified := by
  rw [h]; exact C07_dispatch_full_fixed

theorem C07_dispatch_partial_status (fx : Bool) (s : Sig) (c : Call)
    (hb : fx = true ∨ c.keys.contains s.bound = false) : dispatchStatus fx s c < 500 := by
  unfold dispatchStatus
  split
  · rename_i hf
    rcases C07_dispatch_partial fx s c hb hf with h | h <;> rw [h] <;> decide
  · decide

-- non-vacuity: a refused call that is classified, a call that binds, the K6 witness before and after the repair
example : bindFails ⟨"self".toList, ["a".toList, "b".toList], 1, false, false⟩ ⟨0, [("zz".toList, false)]⟩ = true := by decide
example : dispatchStatus false ⟨"self".toList, ["a".toList, "b".toList], 1, false, false⟩ ⟨1, [("zz".toList, true)]⟩ = 400 := by
  decide
example : dispatchStatus false ⟨"self".toList, ["a".toList, "b".toList], 1, false, false⟩ ⟨1, [("b".toList, true)]⟩ = 200 := by
  decide
example : dispatchStatus false ⟨"self".toList, [], 0, true, true⟩ ⟨0, [("self".toList, false)]⟩ = 500 := by decide
example : dispatchStatus true ⟨"self".toList, [], 0, true, true⟩ ⟨0, [("self".toList, false)]⟩ = 404 := by decide
example : dispatchStatus true ⟨"self".toList, [], 0, true, true⟩ ⟨0, [("self".toList, true)]⟩ = 400 := by decide

/-! ### Basic Authorization -/

/-- whatever the header and whatever `checkpassword` says: 200, 400 or 401, as long as `b64decode` stays within
    its contract -/
theorem C07_basic (v : BasicView) (hb : ∀ e, v.b64 = some e → e ∈ contract .basicB64) :
    basicAuth v = 200 ∨ basicAuth v = 400 ∨ basicAuth v = 401 := by
  have hc : ∀ e ∈ contract .basicB64, catchHand .basicB64 e = 400 := by decide
  unfold basicAuth
  split
  · right; right; rfl
  · split
    · right; left; decide
    · split
      · right; right; rfl
      · split
        · right; left; decide
        · split
          · rename_i e he
            right; left; exact hc e (hb e he)
          · split
            · right; left; decide
            · split
              · left; rfl
              · right; right; rfl

example : basicAuth ⟨true, true, true, true, none, true, true⟩ = 200 := by decide
example : basicAuth ⟨true, true, true, true, some .BinasciiError, true, true⟩ = 400 := by decide
example : basicAuth ⟨true, true, false, true, none, true, true⟩ = 401 := by decide

/-! ### size limit, Host rule -/

/-- the entity is read to its end, or the request is refused with 413 - exactly when more than `maxbytes` bytes
    were read -/
theorem sizedRead_ok_or_413 (m : Nat) (d : Option Nat) (a : Nat) :
    (∃ n, sizedRead m d a = .ok n) ∨ sizedRead m d a = .error (.http 413) := by
  cases d <;> simp only [sizedRead] <;> split
  · right; rfl
  · left; exact ⟨_, rfl⟩
  · right; rfl
  · left; exact ⟨_, rfl⟩

theorem sizedRead_413_iff (m : Nat) (d : Option Nat) (a : Nat) :
    sizedRead m d a = .error (.http 413) ↔
      (m ≠ 0 ∧ (match d with | some l => min l a | none => a) > m) := by
  cases d <;> simp only [sizedRead] <;> split
  · rename_i h; exact ⟨fun _ => h, fun _ => rfl⟩
  · rename_i h; exact ⟨fun h' => (by cases h'), fun h' => absurd h' h⟩
  · rename_i h; exact ⟨fun _ => h, fun _ => rfl⟩
  · rename_i h; exact ⟨fun h' => (by cases h'), fun h' => absurd h' h⟩

theorem C07_sizedRead (m : Nat) (d : Option Nat) (a : Nat) : statusOf .rfileRead (sizedRead m d a) < 500 := by
  rcases sizedRead_ok_or_413 m d a with ⟨n, h⟩ | h <;> rw [h]
  · simp [statusOf]
  · decide

theorem C07_hostRule (p h : Bool) : statusOf .cookieLoad (hostRule p h) < 500 := by
  cases p <;> cases h <;> decide

example : sizedRead 1000 (some 1001) 1001 = .error (.http 413) := by decide
example : sizedRead 1000 (some 1000) 5000 = .ok 1000 := by decide
example : sizedRead 0 none 100000 = .ok 100000 := by decide

/-! ### trailer lines of a chunked request body -/

theorem trailerLoop_raises (fx : Bool) (lines : List (List UInt8)) (hk : Bool) (hne : ∀ l ∈ lines, l ≠ [])
    (r : Raised) (h : trailerLoop fx lines hk = .error r) :
    (fx = true ∧ r = .http 400) ∨ (fx = false ∧ (r = .py .ValueError ∨ r = .py .UnboundLocalError)) := by
  induction lines generalizing hk with
  | nil => simp [trailerLoop] at h
  | cons line rest ih =>
    have hrest : ∀ l ∈ rest, l ≠ [] := fun l hl => hne l (List.mem_cons_of_mem _ hl)
    unfold trailerLoop at h
    split at h
    · exact absurd rfl (hne [] (by simp))
    · split at h
      · split at h
        · exact ih _ hrest h
        · split at h
          · rename_i hfx; cases h; left; exact ⟨hfx, rfl⟩
          · rename_i hfx; cases h; right; exact ⟨by simpa using hfx, Or.inr rfl⟩
      · split at h
        · exact ih _ hrest h
        · split at h
          · rename_i hfx; cases h; left; exact ⟨hfx, rfl⟩
          · rename_i hfx; cases h; right; exact ⟨by simpa using hfx, Or.inl rfl⟩

/-- what `finish` can raise over the lines cheroot hands it (none is empty) -/
theorem trailerFinish_raises (fx : Bool) (lines : List (List UInt8)) (hne : ∀ l ∈ lines, l ≠ []) (r : Raised)
    (h : trailerFinish fx lines = .error r) :
    (fx = true ∧ r = .http 400) ∨ (fx = false ∧ (r = .py .ValueError ∨ r = .py .UnboundLocalError)) :=
  trailerLoop_raises fx lines false hne r h

/-- with the repair: accepted or 400 -/
theorem trailerFinish_fixed_ok_or_400 (lines : List (List UInt8)) (hne : ∀ l ∈ lines, l ≠ []) :
    trailerFinish true lines = .ok () ∨ trailerFinish true lines = .error (.http 400) := by
  cases h : trailerFinish true lines with
  | ok u => left; rfl
  | error r =>
    rcases trailerFinish_raises true lines hne r h with ⟨_, hr⟩ | ⟨hf, _⟩
    · right; rw [hr]
    · cases hf

def C07_trailers_full (fx : Bool) : Prop :=
  ∀ lines : List (List UInt8), (∀ l ∈ lines, l ≠ []) → statusOf .rfileRead (trailerFinish fx lines) < 500

/-- false for the code without the repair (K10): a trailer line without a colon -/
theorem C07_trailers_full_false : ¬ C07_trailers_full false := by
  intro h
  have := h [[120, 13, 10]] (by decide)
  revert this
  decide

theorem C07_trailers_fixed : C07_trailers_full true := by
  intro lines hne
  rcases trailerFinish_fixed_ok_or_400 lines hne with h | h <;> rw [h] <;> decide

/-- about the code as measured on this run -/
theorem C07_trailers_live (h : trailerErrorsAre400 = true) : C07_trailers_full trailerErrorsAre400 := by
  rw [h]; exact C07_trailers_fixed

example : trailerFinish false [[32, 120, 13, 10]] = .error (.py .UnboundLocalError) := by decide
example : trailerFinish false [[88, 58, 32, 118, 13, 10], [32, 120, 13, 10]] = .ok () := by decide
example : trailerFinish true [[32, 120, 13, 10]] = .error (.http 400) := by decide

end CpProofs.C07
