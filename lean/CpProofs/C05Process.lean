import CpModel.ReaderProcess
import CpProofs.C05Sink
/-!
  C05, around the reader (`CpModel.ReaderProcess`): who gets a bounded reader, with which length and
  limit, which processor runs, and what `finish()` does to the trailer of a chunked body.

  * `C05_process_skipped_iff`, `C05_process_411_iff`, `C05_process_wrapped`  the three outcomes of
    `_do_respond` + `RequestBody.process`, exactly;
  * `C05_length_absent`, `C05_length_chunked`, `C05_length_decimal`, `C05_length_junk`  the declared length;
  * `lookupProc_exact / _major / _default`, `C05_table_*`  processor lookup; facts about the table
    regenerated from the live `RequestBody` (a source edit of the table changes these obligations);
  * `C05_config_most_specific`, `C05_effective_maxbytes`, `C05_configured_limit_enforced`  the per-path
    `request.body.maxbytes` reaches the reader, and with it the delivery bound of `C05Sink`;
  * `trailerLoop_wellformed`, `C05_trailer_key_titled`, `C05_trailer_comma_join`, `C05_trailer_last_wins`,
    `C05_trailer_413`  the trailer parser of `finish()`;
  * `C05_trailer_once_intact`  (repaired code) however often `finish()` runs, a well-formed trailer is
    consumed once and the bytes behind it — the next request — stay on the connection;
  * `C05_trailer_reread_false`  the unrepaired code (`once = false`) violates that: witness (finding F27).
-/
namespace CpProofs.C05
open CpModel.Reader CpModel.ReaderProcess CpModel.Multipart
open CpModel

/-! ### the decision -/

/-- **Body not processed** exactly when `process_request_body` is off or the method is not one of
    `methods_with_bodies`; then nothing wraps or reads the stream. -/
theorem C05_process_skipped_iff (tbl : List (Text × Text)) (st : Settings) (r : ReqIn) :
    decision tbl st r = .skipped ↔ (st.processRequestBody = false ∨ r.method ∉ st.methodsWithBodies) := by
  unfold decision
  by_cases h1 : st.processRequestBody = true <;> by_cases h2 : r.method ∈ st.methodsWithBodies
  all_goals simp [h1, h2]
  all_goals try (split <;> simp)
  all_goals try trivial

/-- **411** exactly for a request whose body would be processed and that declares neither a
    Content-Length nor a Transfer-Encoding. -/
theorem C05_process_411_iff (tbl : List (Text × Text)) (st : Settings) (r : ReqIn) :
    decision tbl st r = .err411 ↔
      (st.processRequestBody = true ∧ r.method ∈ st.methodsWithBodies ∧ r.clen = none ∧ r.te = none) := by
  unfold decision
  by_cases h1 : st.processRequestBody = true <;> by_cases h2 : r.method ∈ st.methodsWithBodies
  all_goals simp [h1, h2]
  all_goals try (cases hc : r.clen <;> cases ht : r.te <;> simp)

/-- **Otherwise the stream is wrapped** in a reader bounded by the declared length (or the configured
    override), limited by the configured `maxbytes`, with the configured buffer size. -/
theorem C05_process_wrapped (tbl : List (Text × Text)) (st : Settings) (r : ReqIn)
    (h1 : st.processRequestBody = true) (h2 : r.method ∈ st.methodsWithBodies)
    (h3 : r.clen ≠ none ∨ r.te ≠ none) :
    decision tbl st r =
      .wrapped (match st.lengthOverride with | some l => l | none => entityLength r.clen r.te)
        st.maxbytes st.bufsize r.trailer
        (lookupProc tbl (r.ctype.getD Gen.C05.requestBodyDefaultContentType)).1
        (lookupProc tbl (r.ctype.getD Gen.C05.requestBodyDefaultContentType)).2 := by
  unfold decision
  have : (r.clen.isNone && r.te.isNone) = false := by
    rcases h3 with h | h
    · cases hc : r.clen with
      | none => exact absurd hc h
      | some _ => simp
    · cases ht : r.te with
      | none => exact absurd ht h
      | some _ => simp
  simp [h1, h2, this]
  all_goals try rfl

theorem cfgOf_fields (d : Decision) (cfg : Cfg) (h : cfgOf d = some cfg) :
    ∃ len mb bs tr key fn, d = .wrapped len mb bs tr key fn ∧ cfg.maxbytes = mb ∧ cfg.bufsize = bs := by
  cases d with
  | skipped => simp [cfgOf] at h
  | err411 => simp [cfgOf] at h
  | wrapped len mb bs tr key fn =>
    refine ⟨len, mb, bs, tr, key, fn, rfl, ?_⟩
    cases len with
    | none => simp [cfgOf] at h; subst h; exact ⟨rfl, rfl⟩
    | some i => cases i with
      | ofNat n => simp [cfgOf] at h; subst h; exact ⟨rfl, rfl⟩
      | negSucc n => simp [cfgOf] at h

/-! ### the declared length -/

theorem C05_length_absent (te : Option Text) : entityLength none te = none := rfl

/-- a Transfer-Encoding that mentions `chunked` makes any Content-Length irrelevant -/
theorem C05_length_chunked (c te : Text) (h : isInfix CHUNKED te = true) :
    entityLength (some c) (some te) = none := by
  simp [entityLength, h]

def digitChar (d : Nat) : Char := Char.ofNat (48 + d)

theorem digitVal_digitChar (d : Nat) (h : d < 10) : digitVal? (digitChar d) = some d := by
  have : d = 0 ∨ d = 1 ∨ d = 2 ∨ d = 3 ∨ d = 4 ∨ d = 5 ∨ d = 6 ∨ d = 7 ∨ d = 8 ∨ d = 9 := by omega
  rcases this with h | h | h | h | h | h | h | h | h | h <;> subst h <;> decide

theorem digitChar_not_space (d : Nat) (h : d < 10) : isPySpace (digitChar d) = false ∧
    digitChar d ≠ '-' ∧ digitChar d ≠ '+' := by
  have : d = 0 ∨ d = 1 ∨ d = 2 ∨ d = 3 ∨ d = 4 ∨ d = 5 ∨ d = 6 ∨ d = 7 ∨ d = 8 ∨ d = 9 := by omega
  rcases this with h | h | h | h | h | h | h | h | h | h <;> subst h <;> decide

theorem digitsVal_digits : ∀ (ds : List Nat) (acc : Nat) (prev : Bool), (∀ d ∈ ds, d < 10) →
    (ds ≠ [] ∨ prev = true) →
    digitsVal acc prev (ds.map digitChar) = some (ds.foldl (fun a d => 10 * a + d) acc) := by
  intro ds
  induction ds with
  | nil => intro acc prev _ h; rcases h with h | h; exact absurd rfl h; simp [digitsVal, h]
  | cons d ds ih =>
    intro acc prev hd _
    simp only [List.map_cons, digitsVal, digitVal_digitChar d (hd d (by simp)), List.foldl_cons]
    exact ih _ true (fun x hx => hd x (by simp [hx])) (Or.inr rfl)

theorem lstripT_nonspace (c : Char) (cs : Text) (h : isPySpace c = false) : lstripT (c :: cs) = c :: cs := by
  simp [lstripT, h]

theorem stripT_digits (ds : List Nat) (hd : ∀ d ∈ ds, d < 10) : stripT (ds.map digitChar) = ds.map digitChar := by
  unfold stripT
  cases ds with
  | nil => rfl
  | cons d ds =>
    rw [List.map_cons, lstripT_nonspace _ _ (digitChar_not_space d (hd d (by simp))).1]
    rw [← List.map_cons]
    cases hr : (List.map digitChar (d :: ds)).reverse with
    | nil => simp at hr
    | cons c cs =>
      have hc : c ∈ List.map digitChar (d :: ds) := by
        rw [← List.mem_reverse, hr]; simp
      obtain ⟨x, hx, rfl⟩ := List.mem_map.mp hc
      rw [lstripT_nonspace _ _ (digitChar_not_space x (hd x hx)).1, ← hr, List.reverse_reverse]

/-- **A plain decimal Content-Length is the declared length** (no chunked Transfer-Encoding). -/
theorem C05_length_decimal (ds : List Nat) (hne : ds ≠ []) (hd : ∀ d ∈ ds, d < 10) (te : Option Text)
    (hte : isInfix CHUNKED (te.getD []) = false) :
    entityLength (some (ds.map digitChar)) te = some (Int.ofNat (ds.foldl (fun a d => 10 * a + d) 0)) := by
  simp only [entityLength, hte, Bool.false_eq_true, if_false, pyInt, stripT_digits ds hd]
  cases ds with
  | nil => exact absurd rfl hne
  | cons d ds =>
    obtain ⟨_, h1, h2⟩ := digitChar_not_space d (hd d (by simp))
    simp only [List.map_cons, h1, h2, if_false]
    rw [← List.map_cons, digitsVal_digits (d :: ds) 0 false hd (Or.inl (by simp))]
    rfl

/-- a value that is not a number leaves the length undeclared (the body then extends to the end of the
    stream: only Content-Lengths `int()` accepts bound the reader) -/
theorem C05_length_junk : entityLength (some ['7', ';']) none = none ∧ entityLength (some []) none = none ∧
    entityLength (some ['0', 'x', '7']) none = none ∧ entityLength (some ['-', '1']) none = some (-1) ∧
    entityLength (some ['7', '_', '0']) none = some 70 ∧ entityLength (some ['+', '7']) none = some 7 := by
  decide

/-! ### processor lookup -/

theorem lookupProc_exact (tbl : List (Text × Text)) (ct f : Text) (h : tblGet tbl ct = some f) :
    lookupProc tbl ct = (some ct, f) := by simp [lookupProc, h]

theorem lookupProc_major (tbl : List (Text × Text)) (ct f : Text) (h : tblGet tbl ct = none)
    (h2 : tblGet tbl (topType ct) = some f) : lookupProc tbl ct = (some (topType ct), f) := by
  simp [lookupProc, h, h2]

theorem lookupProc_default (tbl : List (Text × Text)) (ct : Text) (h : tblGet tbl ct = none)
    (h2 : tblGet tbl (topType ct) = none) : lookupProc tbl ct = (none, DEFAULT_PROC) := by
  simp [lookupProc, h, h2]

def T_FORMDATA : Text := ['m', 'u', 'l', 't', 'i', 'p', 'a', 'r', 't', '/', 'f', 'o', 'r', 'm', '-', 'd', 'a', 't', 'a']
def T_URLENC : Text := ['a', 'p', 'p', 'l', 'i', 'c', 'a', 't', 'i', 'o', 'n', '/', 'x', '-', 'w', 'w', 'w', '-', 'f', 'o', 'r', 'm', '-', 'u', 'r', 'l', 'e', 'n', 'c', 'o', 'd', 'e', 'd']
def T_MULTIPART : Text := ['m', 'u', 'l', 't', 'i', 'p', 'a', 'r', 't']

/-- the live table: form data and urlencoded bodies go to their own processors, … -/
theorem C05_table_formdata :
    (lookupProc Gen.C05.requestBodyProcessors T_FORMDATA).2 = ['p', 'r', 'o', 'c', 'e', 's', 's', '_', 'm', 'u', 'l', 't', 'i', 'p', 'a', 'r', 't', '_', 'f', 'o', 'r', 'm', '_', 'd', 'a', 't', 'a'] := by decide

theorem C05_table_urlencoded :
    (lookupProc Gen.C05.requestBodyProcessors T_URLENC).2 = ['p', 'r', 'o', 'c', 'e', 's', 's', '_', 'u', 'r', 'l', 'e', 'n', 'c', 'o', 'd', 'e', 'd'] := by decide

/-- … a missing or empty Content-Type is not parsed at all (`default_proc`: the stream is left alone) … -/
theorem C05_table_no_content_type :
    lookupProc Gen.C05.requestBodyProcessors Gen.C05.requestBodyDefaultContentType = (none, DEFAULT_PROC) := by decide

/-- … and every other `multipart/<sub>` falls through to the entry of the major type. -/
theorem C05_table_multipart_any (sub : Text) (h : sub ≠ ['f', 'o', 'r', 'm', '-', 'd', 'a', 't', 'a']) :
    lookupProc Gen.C05.requestBodyProcessors (['m', 'u', 'l', 't', 'i', 'p', 'a', 'r', 't', '/'] ++ sub) =
      (some T_MULTIPART, ['_', 'o', 'l', 'd', '_', 'p', 'r', 'o', 'c', 'e', 's', 's', '_', 'm', 'u', 'l', 't', 'i', 'p', 'a', 'r', 't']) := by
  have htop : topType (['m', 'u', 'l', 't', 'i', 'p', 'a', 'r', 't', '/'] ++ sub) = T_MULTIPART := by
    simp [topType, T_MULTIPART]
  have hne : tblGet Gen.C05.requestBodyProcessors (['m', 'u', 'l', 't', 'i', 'p', 'a', 'r', 't', '/'] ++ sub) = none := by
    simp only [Gen.C05.requestBodyProcessors, tblGet]
    have e1 : ¬ (['a', 'p', 'p', 'l', 'i', 'c', 'a', 't', 'i', 'o', 'n', '/', 'x', '-', 'w', 'w', 'w', '-', 'f', 'o', 'r', 'm', '-', 'u', 'r', 'l', 'e', 'n', 'c', 'o', 'd', 'e', 'd'] = ['m', 'u', 'l', 't', 'i', 'p', 'a', 'r', 't', '/'] ++ sub) := by
      intro he; have := congrArg List.head? he; simp at this
    have e2 : ¬ (['m', 'u', 'l', 't', 'i', 'p', 'a', 'r', 't', '/', 'f', 'o', 'r', 'm', '-', 'd', 'a', 't', 'a'] = ['m', 'u', 'l', 't', 'i', 'p', 'a', 'r', 't', '/'] ++ sub) := by
      intro he
      have : ['m', 'u', 'l', 't', 'i', 'p', 'a', 'r', 't', '/'] ++ ['f', 'o', 'r', 'm', '-', 'd', 'a', 't', 'a'] = ['m', 'u', 'l', 't', 'i', 'p', 'a', 'r', 't', '/'] ++ sub := by
        rw [← he]; decide
      exact h (List.append_cancel_left this).symm
    have e3 : ¬ (['m', 'u', 'l', 't', 'i', 'p', 'a', 'r', 't'] = ['m', 'u', 'l', 't', 'i', 'p', 'a', 'r', 't', '/'] ++ sub) := by
      intro he; have := congrArg List.length he; first | (simp at this; done) | (simp at this; omega)
    simp_all [String.toList]
  rw [lookupProc_major _ _ ['_', 'o', 'l', 'd', '_', 'p', 'r', 'o', 'c', 'e', 's', 's', '_', 'm', 'u', 'l', 't', 'i', 'p', 'a', 'r', 't'] hne]
  · rw [htop]
  · rw [htop]; decide

/-! ### the `request` namespace: per-path configuration -/

theorem dictGet_dictSet_same (d : List (Text × CfgVal)) (k : Text) (v : CfgVal) :
    dictGet (dictSet d k v) k = some v := by
  induction d with
  | nil => simp [dictSet, dictGet]
  | cons kv t ih =>
    obtain ⟨k', v'⟩ := kv
    by_cases h : k' = k
    · simp [dictSet, dictGet, h]
    · simp [dictSet, dictGet, h, ih]

theorem dictGet_dictSet_other (d : List (Text × CfgVal)) (k k' : Text) (v : CfgVal) (h : k' ≠ k) :
    dictGet (dictSet d k v) k' = dictGet d k' := by
  induction d with
  | nil => simp [dictSet, dictGet, Ne.symm h]
  | cons kv t ih =>
    obtain ⟨k2, v2⟩ := kv
    by_cases h2 : k2 = k
    · subst h2; simp [dictSet, dictGet, Ne.symm h]
    · by_cases h3 : k2 = k'
      · subst h3; simp [dictSet, dictGet, h2]
      · simp [dictSet, dictGet, h2, h3, ih]

theorem mergeLevels_snoc (ls : List (List (Text × CfgVal))) (lvl : List (Text × CfgVal)) :
    mergeLevels (ls ++ [lvl]) = lvl.foldl (fun d kv => dictSet d kv.1 kv.2) (mergeLevels ls) := by
  simp [mergeLevels, List.foldl_append]

/-- **The most specific level wins**: an entry of the last (deepest path) level overrides whatever the
    levels before it said, and leaves every other key as it was. -/
theorem C05_config_most_specific (ls : List (List (Text × CfgVal))) (k : Text) (v : CfgVal) :
    dictGet (mergeLevels (ls ++ [[(k, v)]])) k = some v ∧
    ∀ k', k' ≠ k → dictGet (mergeLevels (ls ++ [[(k, v)]])) k' = dictGet (mergeLevels ls) k' := by
  rw [mergeLevels_snoc]
  exact ⟨dictGet_dictSet_same _ _ _, fun k' h => dictGet_dictSet_other _ _ _ _ h⟩

def keysOf (d : List (Text × CfgVal)) : List Text := d.map (·.1)

theorem keysOf_dictSet (d : List (Text × CfgVal)) (k : Text) (v : CfgVal) :
    keysOf (dictSet d k v) = if k ∈ keysOf d then keysOf d else keysOf d ++ [k] := by
  induction d with
  | nil => rfl
  | cons kv t ih =>
    obtain ⟨k', v'⟩ := kv
    by_cases h : k' = k
    · subst h; simp [dictSet, keysOf]
    · have h' : ¬ k = k' := fun e => h e.symm
      have e1 : keysOf (dictSet ((k', v') :: t) k v) = k' :: keysOf (dictSet t k v) := by
        simp [dictSet, h, keysOf]
      have e2 : keysOf ((k', v') :: t) = k' :: keysOf t := rfl
      rw [e1, e2, ih]
      by_cases hm : k ∈ keysOf t
      · simp [hm]
      · simp [hm, h']

theorem nodup_dictSet (d : List (Text × CfgVal)) (k : Text) (v : CfgVal) (h : (keysOf d).Nodup) :
    (keysOf (dictSet d k v)).Nodup := by
  rw [keysOf_dictSet]
  split
  · exact h
  · rename_i hk
    refine List.nodup_append.mpr ⟨h, by simp, ?_⟩
    intro a ha b hb e
    simp only [List.mem_singleton] at hb
    subst hb; subst e
    exact hk ha

theorem nodup_mergeLevels (ls : List (List (Text × CfgVal))) : (keysOf (mergeLevels ls)).Nodup := by
  unfold mergeLevels
  suffices ∀ (ls : List (List (Text × CfgVal))) d, (keysOf d).Nodup →
      (keysOf (ls.foldl (fun d lvl => lvl.foldl (fun d kv => dictSet d kv.1 kv.2) d) d)).Nodup from
    this ls [] (by simp [keysOf])
  intro ls
  induction ls with
  | nil => intro d h; exact h
  | cons lvl ls ih =>
    intro d h
    simp only [List.foldl_cons]
    apply ih
    clear ih
    induction lvl generalizing d with
    | nil => exact h
    | cons kv t iht => simp only [List.foldl_cons]; exact iht _ (nodup_dictSet d kv.1 kv.2 h)

theorem dictGet_none_of_not_mem (d : List (Text × CfgVal)) (k : Text) (h : k ∉ keysOf d) : dictGet d k = none := by
  induction d with
  | nil => rfl
  | cons kv t ih =>
    obtain ⟨k', v'⟩ := kv
    simp only [keysOf, List.map_cons, List.mem_cons, not_or] at h
    simp only [dictGet]
    rw [if_neg (fun e => h.1 e.symm)]
    exact ih h.2

/-- what the namespace loop makes of the `maxbytes` attribute -/
def maxbytesOf (e : Option CfgVal) (dflt : Option Nat) : Option Nat :=
  match e with
  | some (.nat n) => some n
  | some .none_ => none
  | _ => dflt

theorem keys_distinct : K_PRB ≠ K_MAXBYTES ∧ K_MWB ≠ K_MAXBYTES ∧ K_BUFSIZE ≠ K_MAXBYTES ∧ K_LENGTH ≠ K_MAXBYTES := by
  decide

theorem nsKey_maxbytes : nsKey K_MAXBYTES = .maxbytes := by decide

theorem nsKey_not_maxbytes (k : Text) (h : k ≠ K_MAXBYTES) : nsKey k ≠ .maxbytes := by
  unfold nsKey
  repeat' split
  all_goals first | (simp; done) | contradiction

theorem applyKey_other_maxbytes (st : Settings) (key : NsKey) (v : CfgVal) (h : key ≠ .maxbytes) :
    (applyKey st key v).maxbytes = st.maxbytes := by
  cases key <;> cases v <;> first | rfl | exact absurd rfl h

theorem applyNs_other_maxbytes (st : Settings) (k : Text) (v : CfgVal) (h : k ≠ K_MAXBYTES) :
    (applyNs st k v).maxbytes = st.maxbytes :=
  applyKey_other_maxbytes st _ v (nsKey_not_maxbytes k h)

theorem foldl_applyNs_maxbytes (d : List (Text × CfgVal)) (h : (keysOf d).Nodup) (st : Settings) :
    (d.foldl (fun st kv => applyNs st kv.1 kv.2) st).maxbytes = maxbytesOf (dictGet d K_MAXBYTES) st.maxbytes := by
  induction d generalizing st with
  | nil => rfl
  | cons kv t ih =>
    obtain ⟨k, v⟩ := kv
    simp only [keysOf, List.map_cons, List.nodup_cons] at h
    simp only [List.foldl_cons, dictGet]
    rw [ih h.2]
    by_cases hk : k = K_MAXBYTES
    · subst hk
      rw [dictGet_none_of_not_mem t _ h.1]
      simp only [if_true, maxbytesOf, applyNs, nsKey_maxbytes]
      cases v <;> rfl
    · rw [if_neg hk, applyNs_other_maxbytes _ _ _ hk]

/-- **Config wiring.**  The reader's limit is the `request.body.maxbytes` entry of the merged per-path
    configuration (class default when no level sets it). -/
theorem C05_effective_maxbytes (levels : List (List (Text × CfgVal))) :
    (effective levels).maxbytes = maxbytesOf (dictGet (mergeLevels levels) K_MAXBYTES) Gen.C05.defaultMaxbytes := by
  unfold effective
  rw [foldl_applyNs_maxbytes _ (nodup_mergeLevels levels)]
  rfl

/-- **The configured limit is enforced.**  If the most specific level of the configuration sets
    `request.body.maxbytes = m > 0` and the request's body is processed, then whatever the application
    does with `request.body` — any history of plain, sink and iteration operations, 413s caught or not —
    it is handed at most `m` bytes. -/
theorem C05_configured_limit_enforced (tbl : List (Text × Text)) (ls : List (List (Text × CfgVal))) (m : Nat)
    (hm0 : m ≠ 0) (r : ReqIn) (cfg : Cfg)
    (hd : cfgOf (decision tbl (effective (ls ++ [[(K_MAXBYTES, .nat m)]])) r) = some cfg)
    (hb : 1 ≤ cfg.bufsize) (body : Bytes) (frag : List Nat) (ops : List OpX) :
    (allDelivered (runX cfg (init body frag none) ops).1).length ≤ m := by
  obtain ⟨len, mb, bs, tr, key, fn, hdec, hmb, _⟩ := cfgOf_fields _ _ hd
  have hmax : (effective (ls ++ [[(K_MAXBYTES, .nat m)]])).maxbytes = some m := by
    rw [C05_effective_maxbytes, (C05_config_most_specific ls K_MAXBYTES (.nat m)).1]; rfl
  have : mb = some m := by
    unfold decision at hdec
    split at hdec
    · cases hdec
    · split at hdec
      · cases hdec
      · simp only [Decision.wrapped.injEq] at hdec
        rw [← hdec.2.1, hmax]
  exact C05X_never_delivers_beyond_maxbytes cfg hb body frag ops m (by rw [hmb, this]) hm0

/-- `CPWSGIServer`: an unset / zero `server.max_request_body_size` means "no server-wide limit" -/
theorem C05_server_limit : serverLimit none = 0 ∧ serverLimit (some 0) = 0 ∧
    serverLimit Gen.C05.serverMaxRequestBodySize = Gen.C05.serverMaxRequestBodySize.getD 0 := by
  simp [serverLimit]

/-- **Each server enforces its own limit.**  Changing the limits of any OTHER adapter — the global
    `cherrypy.server` included — does not change what the wsgi server of adapter `i` is given. -/
theorem C05_server_limit_own (as bs : List Adapter) (i : Nat) (h : as[i]? = bs[i]?) :
    wsgiLimits as i = wsgiLimits bs i := by
  simp [wsgiLimits, h]

/-- a configured limit `m > 0` on the receiving server refuses exactly the bodies longer than `m`;
    `None` / 0 / never configured-to-0 means no limit -/
theorem C05_server_refuses_iff (a : Adapter) (m n : Nat) (hm : m ≠ 0) (hb : a.body = some (some m)) :
    serverRefuses (serverLimit (adapterBody a)) n = true ↔ n > m := by
  simp [serverRefuses, serverLimit, adapterBody, hb, hm]

theorem C05_server_no_limit (a : Adapter) (n : Nat) (hb : a.body = some none ∨ a.body = some (some 0)) :
    serverRefuses (serverLimit (adapterBody a)) n = false := by
  rcases hb with hb | hb <;> simp [serverRefuses, serverLimit, adapterBody, hb]

/-! ### `finish()` and the trailer -/

/-- the loop body folded over a block of trailer lines -/
def trailerFold (csh : List Bytes) : List Bytes → Option Bytes → Tr → Except TErr (Option Bytes × Tr)
  | [], k, tr => .ok (k, tr)
  | l :: ls, k, tr =>
    match trailerStep csh l k tr with
    | .error e => .error e
    | .ok (k', tr') => trailerFold csh ls k' tr'

/-- **A well-formed trailer**: CRLF-terminated lines the loop body accepts, then the blank line.  The loop
    consumes exactly the block and its blank line, parses every line, and leaves what follows. -/
theorem trailerLoop_wellformed (csh : List Bytes) (ms : Bool) : ∀ (block next : List Bytes) k tr k' tr',
    (∀ l ∈ block, endsWith l CRLF = true ∧ l ≠ CRLF) → trailerFold csh block k tr = .ok (k', tr') →
    trailerLoop csh ms (block ++ CRLF :: next) none k tr = (none, tr', next, none) := by
  intro block
  induction block with
  | nil =>
    intro next k tr k' tr' _ hf
    simp only [trailerFold, Except.ok.injEq, Prod.mk.injEq] at hf
    simp [trailerLoop, hf.2]
  | cons l ls ih =>
    intro next k tr k' tr' hw hf
    obtain ⟨h1, h2⟩ := hw l (by simp)
    simp only [trailerFold] at hf
    simp only [List.cons_append, trailerLoop, h1, h2]
    cases hs : trailerStep csh l k tr with
    | error e => rw [hs] at hf; cases hf
    | ok r =>
      obtain ⟨k1, tr1⟩ := r
      rw [hs] at hf
      simp only [Option.map_none, Bool.not_true, Bool.false_eq_true, if_false]
      exact ih next k1 tr1 k' tr' (fun x hx => hw x (by simp [hx])) hf

theorem finishN_read_once (csh : List Bytes) (t : TState) (h : t.read = true) : ∀ n, finishN csh true n t = (none, t) := by
  intro n
  induction n with
  | zero => rfl
  | succ n ih => simp [finishN, finishT, h, ih]

/-- **(Repaired code) the trailer is consumed once, the next request never.**  With a `Trailer` header and a
    well-formed trailer behind the body, any number `n ≥ 1` of `finish()` calls parses the trailer and
    leaves exactly the bytes behind its blank line on the connection. -/
theorem C05_trailer_once_intact (csh : List Bytes) (block next : List Bytes) (k' : Option Bytes) (tr' : Tr)
    (hw : ∀ l ∈ block, endsWith l CRLF = true ∧ l ≠ CRLF) (hf : trailerFold csh block none [] = .ok (k', tr'))
    (ms : Bool) (n : Nat) (hn : 1 ≤ n) :
    finishN csh true n { hasTrailers := true, hasMethod := true, read := false, trailers := none,
                         tail := block ++ CRLF :: next, failAt := none, maxSize := ms }
      = (none, { hasTrailers := true, hasMethod := true, read := true, trailers := some tr', tail := next,
                 failAt := none, maxSize := ms }) := by
  cases n with
  | zero => omega
  | succ n =>
    simp only [finishN, finishT, Bool.and_self, Bool.and_false, Bool.not_false, if_true,
      trailerLoop_wellformed csh ms block next none [] k' tr' hw hf]
    exact finishN_read_once csh _ rfl n

/-- without a `Trailer` header (or a stream that has no trailer) `finish()` never touches the connection -/
theorem C05_no_trailer_untouched (csh : List Bytes) (once : Bool) (t : TState)
    (h : t.hasTrailers = false ∨ t.hasMethod = false) : ∀ n, finishN csh once n t = (none, t) := by
  intro n
  induction n with
  | zero => rfl
  | succ n ih =>
    have : finishT csh once t = (none, t) := by
      unfold finishT; rcases h with h | h <;> simp [h]
    simp [finishN, this, ih]

/-- the statement "the request behind a well-formed trailer stays on the connection", for the code with
    (`once = true`) and without (`once = false`) the guard -/
def C05_trailer_intact_full (once : Bool) : Prop :=
  ∀ (csh : List Bytes) (block next : List Bytes) (k' : Option Bytes) (tr' : Tr) (ms : Bool) (n : Nat),
    (∀ l ∈ block, endsWith l CRLF = true ∧ l ≠ CRLF) → trailerFold csh block none [] = .ok (k', tr') → 1 ≤ n →
    (finishN csh once n { hasTrailers := true, hasMethod := true, read := false, trailers := none,
                          tail := block ++ CRLF :: next, failAt := none, maxSize := ms }).2.tail = next

theorem C05_trailer_intact_once : C05_trailer_intact_full true := by
  intro csh block next k' tr' ms n hw hf hn
  rw [C05_trailer_once_intact csh block next k' tr' hw hf ms n hn]

def X_T_1 : Bytes := [88, 45, 84, 58, 32, 49, 13, 10]                       -- `X-T: 1\r\n`
def GET_NEXT : Bytes := [71, 69, 84, 32, 47, 110, 32, 72, 84, 84, 80, 47, 49, 46, 49, 13, 10]  -- `GET /n HTTP/1.1\r\n`
def HOST_X : Bytes := [72, 111, 115, 116, 58, 32, 120, 13, 10]              -- `Host: x\r\n`

/-- **F27.**  The code that re-reads the trailer on every `finish()` violates the statement: the second call
    takes the request line of the next request for a trailer line — consumed, "Illegal header line", and the
    trailers parsed before are gone. -/
theorem C05_trailer_reread_false : ¬ C05_trailer_intact_full false := by
  intro h
  have := h [] [X_T_1] [GET_NEXT, HOST_X, CRLF] (some [88, 45, 84]) [([88, 45, 84], [49])] false 2
    (by decide) (by rfl) (by decide)
  revert this
  decide

/-- what exactly happens in the witness -/
theorem C05_trailer_reread_witness :
    finishN [] false 2 { hasTrailers := true, hasMethod := true, read := false, trailers := none,
                         tail := [X_T_1, CRLF, GET_NEXT, HOST_X, CRLF], failAt := none, maxSize := false }
      = (some .malformed, { hasTrailers := true, hasMethod := true, read := true, trailers := some [],
                            tail := [HOST_X, CRLF], failAt := none, maxSize := false }) := by decide

/-- `MaxSizeExceeded` while a trailer line is fetched is answered with 413 (any other failure of the
    stream propagates as it is) -/
theorem C05_trailer_413 (csh : List Bytes) (l : Bytes) (rest : List Bytes) (k : Option Bytes) (tr : Tr) :
    trailerLoop csh true (l :: rest) (some 0) k tr = (some .err413, tr, rest, none) ∧
    trailerLoop csh false (l :: rest) (some 0) k tr = (some .other, tr, rest, none) := by
  simp [trailerLoop]

/-- repeated trailer fields: joined with `', '` in wire order when the name is one of cheroot's
    comma-separated headers, otherwise the last one wins -/
theorem C05_trailer_comma_join (csh : List Bytes) (k v1 v2 : Bytes) (hk : csh.contains k = true) (hv : v1 ≠ []) :
    trStore csh (trStore csh [] k v1) k v2 = [(k, v1 ++ [44, 32] ++ v2)] := by
  have : v1.isEmpty = false := by cases v1 <;> simp_all
  have hk' : k ∈ csh := by simpa using hk
  simp [trStore, hk', trGet, trSet, this]

theorem C05_trailer_last_wins (csh : List Bytes) (k v1 v2 : Bytes) (hk : csh.contains k = false) :
    trStore csh (trStore csh [] k v1) k v2 = [(k, v2)] := by
  have hk' : k ∉ csh := by simpa using hk
  simp [trStore, hk', trSet]

/-- field names are title-cased (`k.strip().title()`), values stripped; continuation lines extend the
    current field; the live `comma_separated_headers` table decides about joining -/
theorem C05_trailer_examples :
    -- `x-checkSUM :  ab \r\n`, then ` cd\r\n`  →  {X-Checksum: cd}   (a continuation REPLACES a non-list value)
    trailerFold Gen.C05.commaSeparatedHeaders
      [[120,45,99,104,101,99,107,83,85,77,32,58,32,32,97,98,32,13,10], [32,99,100,13,10]] none []
      = .ok (some [88,45,67,104,101,99,107,115,117,109], [([88,45,67,104,101,99,107,115,117,109], [99,100])]) ∧
    -- `accept: a\r\n`, `ACCEPT: b\r\n`  →  {Accept: a, b}
    trailerFold Gen.C05.commaSeparatedHeaders
      [[97,99,99,101,112,116,58,32,97,13,10], [65,67,67,69,80,84,58,32,98,13,10]] none []
      = .ok (some [65,99,99,101,112,116], [([65,99,99,101,112,116], [97,44,32,98])]) ∧
    -- a line without a colon / a continuation line first: malformed
    trailerFold Gen.C05.commaSeparatedHeaders [[120,13,10]] none [] = .error .malformed ∧
    trailerFold Gen.C05.commaSeparatedHeaders [[32,120,58,49,13,10]] none [] = .error .malformed :=
  ⟨rfl, rfl, rfl, rfl⟩

/-! ### histories over a chunked body with a trailer -/

theorem finishN_from_fresh (csh : List Bytes) (block next : List Bytes) (k' : Option Bytes) (tr' : Tr)
    (hw : ∀ l ∈ block, endsWith l CRLF = true ∧ l ≠ CRLF) (hf : trailerFold csh block none [] = .ok (k', tr'))
    (ms : Bool) (n : Nat) :
    let t0 : TState := { hasTrailers := true, hasMethod := true, read := false, trailers := none,
                         tail := block ++ CRLF :: next, failAt := none, maxSize := ms }
    let t1 : TState := { hasTrailers := true, hasMethod := true, read := true, trailers := some tr', tail := next,
                         failAt := none, maxSize := ms }
    finishN csh true n t0 = (none, if n = 0 then t0 else t1) := by
  intro t0 t1
  cases n with
  | zero => rfl
  | succ n =>
    simp only [Nat.add_one_ne_zero, if_false]
    exact C05_trailer_once_intact csh block next k' tr' hw hf ms (n + 1) (by omega)

/-- **(Repaired code) a pipelined request behind a chunked body with a trailer is left intact by every
    history.**  Whatever operations run (plain, sink, iteration; no limit configured), no operation is
    aborted by the trailer, and the connection holds afterwards either the untouched trailer (no `finish()`
    yet) or exactly the bytes behind the trailer's blank line. -/
theorem C05_history_trailer_intact (cfg : Cfg) (csh : List Bytes) (block next : List Bytes) (k' : Option Bytes)
    (tr' : Tr) (hw : ∀ l ∈ block, endsWith l CRLF = true ∧ l ≠ CRLF)
    (hf : trailerFold csh block none [] = .ok (k', tr')) (ms : Bool) (ops : List OpX) (s : St) :
    let t0 : TState := { hasTrailers := true, hasMethod := true, read := false, trailers := none,
                         tail := block ++ CRLF :: next, failAt := none, maxSize := ms }
    let t1 : TState := { hasTrailers := true, hasMethod := true, read := true, trailers := some tr', tail := next,
                         failAt := none, maxSize := ms }
    ((runT cfg csh true s t0 ops).2.2 = t0 ∨ (runT cfg csh true s t0 ops).2.2 = t1) ∧
    (∀ o ∈ (runT cfg csh true s t0 ops).1, ∀ e, o ≠ OutT.trailerErr e) := by
  intro t0 t1
  -- generalise over the trailer state: fresh or read
  suffices ∀ ops s (t : TState), (t = t0 ∨ t = t1) →
      ((runT cfg csh true s t ops).2.2 = t0 ∨ (runT cfg csh true s t ops).2.2 = t1) ∧
      (∀ o ∈ (runT cfg csh true s t ops).1, ∀ e, o ≠ OutT.trailerErr e) from this ops s t0 (Or.inl rfl)
  intro ops
  induction ops with
  | nil => intro s t ht; simp [runT, ht]
  | cons op ops ih =>
    intro s t ht
    simp only [runT]
    generalize hn : (stepX cfg s op).2.fins - s.fins = n
    have hfin : ∃ t', (t' = t0 ∨ t' = t1) ∧ finishN csh true n t = (none, t') := by
      rcases ht with ht | ht
      · subst ht
        have := finishN_from_fresh csh block next k' tr' hw hf ms n
        simp only at this
        by_cases hn0 : n = 0
        · exact ⟨t0, Or.inl rfl, by rw [this, if_pos hn0]⟩
        · exact ⟨t1, Or.inr rfl, by rw [this, if_neg hn0]⟩
      · subst ht
        exact ⟨t1, Or.inr rfl, finishN_read_once csh t1 rfl n⟩
    obtain ⟨t', ht', hfn⟩ := hfin
    rw [hfn]
    simp only
    obtain ⟨h1, h2⟩ := ih (stepX cfg s op).2 t' ht'
    refine ⟨h1, ?_⟩
    intro o ho e
    simp only [List.mem_cons] at ho
    rcases ho with ho | ho
    · subst ho; simp
    · exact h2 o ho e

end CpProofs.C05
