import CpModel.Monitor
/-
  C20, part M: the monitor's `frequency` re-configured at run time (`engine.<plugin>.frequency = 0`).

  In the model `frequency` is a parameter (`Params.freqPos`).  These theorems say where it matters: ONLY in the
  first test of `Monitor.start()` (`cpc = st2`, `if self.frequency > 0`).  Every other line of `start`, every line
  of `stop()` / `graceful()` / `cancel()` and every line of the worker is the same function of the state whatever
  the frequency is - so a run in which the frequency is changed between (or during) calls is, step by step, a run
  of the model in which each step is taken under the frequency of that moment, and everything proved for one step
  under an arbitrary parameter (the invariants of `CpProofs.C20Monitor`) carries over: in particular `stop()`
  cancels and forgets the worker it finds, whatever `frequency` has become meanwhile.  (Seed C20-12 makes `stop()`
  read the frequency; the harness drives `f0` / `f1` pseudo-calls against the real threads, oracle only.)
-/
namespace CpProofs.C20Freq
open CpModel.Monitor

/-- the same protocol and daemon flag with another frequency -/
def withFreq (p : Params) (f : Bool) : Params := { p with freqPos := f }

/-- every controller line except the first test of `Monitor.start()` ignores the frequency -/
theorem stepCtl_ignores_frequency (p : Params) (f : Bool) (c : Cfg) (h : c.cpc ≠ .st2) :
    stepCtl (withFreq p f) c = stepCtl p c := by
  unfold stepCtl
  cases hc : c.cpc <;> simp_all [withFreq] <;> (first | rfl | (split <;> rfl))

/-- the worker never reads the frequency (it sleeps `self.interval`, copied when the task was made) -/
theorem stepW_ignores_frequency (p : Params) (f : Bool) (c : Cfg) (i : Nat) (boom : Bool) :
    stepW (withFreq p f) c i boom = stepW p c i boom := by
  unfold stepW
  simp [withFreq]

/-- a scheduled step of the controller or of any worker, anywhere but at `start()`'s first test -/
theorem step_ignores_frequency (p : Params) (f : Bool) (c : Cfg) (t : Tid) (ht : t ≠ .ctl2)
    (h : c.cpc ≠ .st2) : step (withFreq p f) c t = step p c t := by
  unfold step
  cases t with
  | ctl => simp [stepCtl_ignores_frequency p f c h]
  | ctl2 => exact absurd rfl ht
  | w i => simp [stepW_ignores_frequency]
  | wx i => simp [stepW_ignores_frequency]

/-- the pcs of `Monitor.stop()` and `BackgroundTask.cancel()` -/
def inStop : CPc → Bool
  | .sp2 | .sp3a | .sp4 | .sp3b | .sp6 | .sp7 | .sp8 | .cn2 | .sp9 | .sp10 | .sp11 | .sp11w | .sp12 | .sp13 => true
  | _ => false

/-- **`stop()` does not consult the frequency**: each of its lines is the same state transformer under
    `frequency > 0` and under `frequency = 0`. -/
theorem C20_stop_ignores_frequency (p : Params) (c : Cfg) (h : inStop c.cpc = true) :
    stepCtl (withFreq p false) c = stepCtl (withFreq p true) c := by
  have hne : c.cpc ≠ .st2 := by
    intro he
    rw [he] at h
    simp [inStop] at h
  rw [stepCtl_ignores_frequency p false c hne, stepCtl_ignores_frequency p true c hne]

/-- ... while `start()`'s first test does: with `frequency = 0` it returns at once, with `frequency > 0` it goes
    on (so the frequency in effect when `start()` / `graceful()` runs decides whether a worker is left). -/
theorem C20_start_consults_frequency :
    ∃ (p : Params) (c : Cfg), c.cpc = .st2 ∧
      (stepCtl (withFreq p false) c).cpc ≠ (stepCtl (withFreq p true) c).cpc := by
  refine ⟨{ mode := .fixed }, init [.start], ?_, ?_⟩ <;> decide

end CpProofs.C20Freq
