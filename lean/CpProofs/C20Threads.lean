import CpModel.ThreadMgr
/-!
  C20, part T: `start_thread` / `stop_thread` are delivered exactly once per registration of a
  serving thread.  Conservation law, for every request thread `t`, in every reachable state of
  every schedule, for any number of request threads with arbitrary acquire/release scripts and any
  number of `stop()` calls:

      nstop t + [t holds a popped, unpublished entry] + [the stopper holds t's popped entry]
            + [t is registered]  =  nstart t + [t has inserted itself and not yet published]
-/
namespace CpProofs.C20T
open CpModel.ThreadMgr

def b2n (p : Bool) : Nat := if p then 1 else 0

/-- what the conservation law needs to know about a request thread -/
def holdOf (r : RThread) : Bool := (r.pc = .r4 || r.pc = .r5) && r.i.isSome
def pendOf (r : RThread) : Bool := r.pc = .a12 && r.i.isSome

def holdS (c : Cfg) (t : Nat) : Bool :=
  (c.spc = .f6 || c.spc = .f7) && c.key = t && c.si.isSome

/-- the conservation law for thread `t` -/
def Bal (c : Cfg) (t : Nat) : Prop :=
  (c.rs t).nstop + b2n (holdOf (c.rs t)) + b2n (holdS c t) + b2n (c.d t).isSome =
    (c.rs t).nstart + b2n (pendOf (c.rs t))

/-- the stopper is idle or runs the `fixed` source -/
def SOk (c : Cfg) : Prop :=
  c.spc = .f2 ∨ c.spc = .f5 ∨ c.spc = .f6 ∨ c.spc = .f7 ∨ c.spc = .fr ∨ c.spc = .done

structure Inv (c : Cfg) : Prop where
  bal : ∀ t, Bal c t
  /-- between its membership test and its insertion a thread is not registered
      (only the thread itself inserts its ident) -/
  unreg : ∀ t, ((c.rs t).pc = .a10 ∨ (c.rs t).pc = .a11) → c.d t = none
  a11 : ∀ t, (c.rs t).pc = .a11 → (c.rs t).i.isSome = true
  sok : SOk c
  si : (c.spc = .f2 ∨ c.spc = .f5 ∨ c.spc = .fr ∨ c.spc = .done) → c.si = none

@[simp] theorem b2n_true : b2n true = 1 := rfl
@[simp] theorem b2n_false : b2n false = 0 := rfl
@[simp] theorem holdOf_nstop (r : RThread) (n : Nat) : holdOf { r with nstop := n } = holdOf r := rfl
@[simp] theorem pendOf_nstop (r : RThread) (n : Nat) : pendOf { r with nstop := n } = pendOf r := rfl

/-! frame facts -/
@[simp] theorem setR_rs (c : Cfg) (t : Nat) (r : RThread) (u : Nat) :
    (setR c t r).rs u = if u = t then r else c.rs u := rfl
@[simp] theorem setR_d (c : Cfg) (t : Nat) (r : RThread) : (setR c t r).d = c.d := rfl
@[simp] theorem setR_spc (c : Cfg) (t : Nat) (r : RThread) : (setR c t r).spc = c.spc := rfl
@[simp] theorem setR_key (c : Cfg) (t : Nat) (r : RThread) : (setR c t r).key = c.key := rfl
@[simp] theorem setR_si (c : Cfg) (t : Nat) (r : RThread) : (setR c t r).si = c.si := rfl
@[simp] theorem holdS_setR (c : Cfg) (t : Nat) (r : RThread) (u : Nat) :
    holdS (setR c t r) u = holdS c u := rfl
@[simp] theorem retR_rs (c : Cfg) (t : Nat) (r : RThread) (u : Nat) :
    (retR c t r).rs u =
      if u = t then { r with ops := r.ops.tail, pc := initOps r.ops.tail, i := none } else c.rs u := rfl
@[simp] theorem retR_d (c : Cfg) (t : Nat) (r : RThread) : (retR c t r).d = c.d := rfl
@[simp] theorem retR_spc (c : Cfg) (t : Nat) (r : RThread) : (retR c t r).spc = c.spc := rfl
@[simp] theorem retR_si (c : Cfg) (t : Nat) (r : RThread) : (retR c t r).si = c.si := rfl
@[simp] theorem holdS_retR (c : Cfg) (t : Nat) (r : RThread) (u : Nat) :
    holdS (retR c t r) u = holdS c u := rfl
@[simp] theorem remove_rs (c : Cfg) (k : Nat) : (remove c k).rs = c.rs := rfl
@[simp] theorem remove_d (c : Cfg) (k u : Nat) : (remove c k).d u = if u = k then none else c.d u := rfl
@[simp] theorem remove_spc (c : Cfg) (k : Nat) : (remove c k).spc = c.spc := rfl
@[simp] theorem remove_si (c : Cfg) (k : Nat) : (remove c k).si = c.si := rfl
@[simp] theorem remove_key (c : Cfg) (k : Nat) : (remove c k).key = c.key := rfl
@[simp] theorem holdS_remove (c : Cfg) (k u : Nat) : holdS (remove c k) u = holdS c u := rfl
@[simp] theorem insert_rs (c : Cfg) (k v : Nat) : (CpModel.ThreadMgr.insert c k v).rs = c.rs := by
  unfold CpModel.ThreadMgr.insert; split <;> rfl
@[simp] theorem insert_d (c : Cfg) (k v u : Nat) :
    (CpModel.ThreadMgr.insert c k v).d u = if u = k then some v else c.d u := by
  unfold CpModel.ThreadMgr.insert; split <;> rfl
@[simp] theorem insert_spc (c : Cfg) (k v : Nat) : (CpModel.ThreadMgr.insert c k v).spc = c.spc := by
  unfold CpModel.ThreadMgr.insert; split <;> rfl
@[simp] theorem insert_si (c : Cfg) (k v : Nat) : (CpModel.ThreadMgr.insert c k v).si = c.si := by
  unfold CpModel.ThreadMgr.insert; split <;> rfl
@[simp] theorem holdS_insert (c : Cfg) (k v u : Nat) : holdS (CpModel.ThreadMgr.insert c k v) u = holdS c u := by
  unfold CpModel.ThreadMgr.insert; split <;> rfl

@[simp] theorem addJ_rs (c : Cfg) (e : Ev) : (addJ c e).rs = c.rs := rfl
@[simp] theorem addJ_d (c : Cfg) (e : Ev) : (addJ c e).d = c.d := rfl
@[simp] theorem addJ_spc (c : Cfg) (e : Ev) : (addJ c e).spc = c.spc := rfl
@[simp] theorem addJ_si (c : Cfg) (e : Ev) : (addJ c e).si = c.si := rfl
@[simp] theorem holdS_addJ (c : Cfg) (e : Ev) (u : Nat) : holdS (addJ c e) u = holdS c u := rfl

theorem initOps_cases (ops : List ROp) : initOps ops = .done ∨ initOps ops = .a6 ∨ initOps ops = .r2 := by
  unfold initOps; split <;> simp

theorem bal_frame {c c' : Cfg} {u : Nat} (h1 : c'.rs u = c.rs u) (h2 : c'.d u = c.d u)
    (h3 : holdS c' u = holdS c u) : Bal c' u ↔ Bal c u := by
  simp only [Bal, h1, h2, h3]

theorem inv_stepR {c : Cfg} (t : Nat) (h : Inv c) : Inv (stepR c t) := by
  obtain ⟨bal, unreg, a11, sok, si⟩ := h
  have balt := bal t
  have unregt := unreg t
  have a11t := a11 t
  unfold stepR
  simp only []
  split
  all_goals (try split)
  all_goals
    refine ⟨?_, ?_, ?_, ?_, ?_⟩
    · intro u
      by_cases hu : u = t
      · subst hu
        simp only [Bal] at balt ⊢
        try simp only [setR_rs, retR_rs, setR_d, retR_d, insert_d, remove_d, remove_rs, insert_rs,
          holdS_setR, holdS_retR, holdS_insert, holdS_remove, holdS_addJ, addJ_rs, addJ_d, if_true] at balt ⊢
        generalize holdS c u = hS at *
        rcases initOps_cases (c.rs u).ops.tail with ho | ho | ho <;>
        cases hi : (c.rs u).i <;> cases hd : c.d u <;> cases hS <;>
        simp_all [holdOf, pendOf, b2n] <;> omega
      · refine (bal_frame ?_ ?_ ?_).mpr (bal u) <;> simp [hu]
    · intro u
      have := unreg u
      by_cases hu : u = t
      · subst hu
        rcases initOps_cases (c.rs u).ops.tail with ho | ho | ho <;> simp_all
      · simp_all
    · intro u
      have := a11 u
      by_cases hu : u = t
      · subst hu
        rcases initOps_cases (c.rs u).ops.tail with ho | ho | ho <;> simp_all
      · simp_all
    · simpa [SOk] using sok
    · simpa using si

theorem inv_retS {c : Cfg} (h : Inv c) (hs : c.spc = .fr) : Inv (retS .fixed c) := by
  obtain ⟨bal, unreg, a11, sok, si⟩ := h
  have hsi := si (Or.inr (Or.inr (Or.inl hs)))
  unfold retS enterS
  split <;>
  · refine ⟨?_, unreg, a11, ?_, ?_⟩
    · intro u; have := bal u; simp_all [Bal, holdS]
    · simp [SOk]
    · simp [hsi]

theorem inv_stepS {c : Cfg} (h : Inv c) : Inv (stepS .fixed c) := by
  have h0 := h
  obtain ⟨bal, unreg, a11, sok, si⟩ := h
  unfold stepS
  rcases sok with hs | hs | hs | hs | hs | hs <;> simp only [hs]
  · -- f2
    have hsi := si (Or.inl hs)
    by_cases hsn : c.snapOn = true <;> simp only [hsn, if_true, if_false, Bool.false_eq_true]
    all_goals split
    all_goals
      exact ⟨fun u => by have := bal u; simp_all [Bal, holdS], unreg, a11, by simp [SOk],
          by simp [hsi]⟩
  · -- f5
    have hsi := si (Or.inr (Or.inl hs))
    refine ⟨?_, ?_, ?_, ?_, ?_⟩
    · intro u
      have := bal u
      by_cases hu : u = c.key
      · subst hu; cases hd : c.d c.key <;> simp_all [Bal, holdS] <;> omega
      · have hu' : ¬ c.key = u := fun h => hu h.symm
        simp_all [Bal, holdS]
    · intro u hu
      have := unreg u hu
      simp only [remove_d]; split <;> simp_all
    · exact a11
    · simp [SOk]
    · simp
  · -- f6
    split
    · refine ⟨?_, unreg, a11, ?_, ?_⟩
      · intro u; have := bal u; simp_all [Bal, holdS]
      · simp [SOk]
      · simp
    · refine ⟨?_, unreg, a11, ?_, ?_⟩
      · intro u; have := bal u; simp_all [Bal, holdS]
      · simp [SOk]
      · simp_all
  · -- f7
    split
    · refine ⟨?_, ?_, ?_, ?_, ?_⟩
      · intro u
        have := bal u
        by_cases hu : u = c.key
        · subst hu; simp_all [Bal, holdS] <;> omega
        · have hu' : ¬ c.key = u := fun h => hu h.symm
          simp_all [Bal, holdS]
      · intro u; have := unreg u; simp only [setR_rs, setR_d]; split <;> simp_all
      · intro u; have := a11 u; simp only [setR_rs]; split <;> simp_all
      · simp [SOk]
      · simp
    · refine ⟨?_, unreg, a11, ?_, ?_⟩
      · intro u; have := bal u; simp_all [Bal, holdS]
      · simp [SOk]
      · simp_all
  · -- fr
    exact inv_retS h0 hs
  · exact h0

inductive Reach (m : Mode) (scripts : List (List ROp)) (nstops : Nat) : Cfg → Prop where
  | init : Reach m scripts nstops (init m scripts nstops)
  | step {c : Cfg} (t : Tid) : Reach m scripts nstops c → Reach m scripts nstops (step m c t)

theorem reach_run (m : Mode) (scripts : List (List ROp)) (nstops : Nat) (sched : List Tid) :
    Reach m scripts nstops (run m (init m scripts nstops) sched) := by
  suffices ∀ c, Reach m scripts nstops c → Reach m scripts nstops (run m c sched) from this _ .init
  induction sched with
  | nil => intro c h; exact h
  | cons t ts ih => intro c h; exact ih _ (.step t h)

/-- the repaired `stop()`, or no `stop()` at all -/
def Quiet (m : Mode) (c : Cfg) : Prop := m = .fixed ∨ c.spc = .done

theorem stepR_spc (c : Cfg) (t : Nat) : (stepR c t).spc = c.spc := by
  unfold stepR
  simp only []
  split <;> (try split) <;> simp

theorem mkR_facts (o : Option (List ROp)) :
    (mkR o).i = none ∧ (mkR o).nstart = 0 ∧ (mkR o).nstop = 0 ∧
      ((mkR o).pc = .done ∨ (mkR o).pc = .a6 ∨ (mkR o).pc = .r2) := by
  cases o with
  | none => simp [mkR]
  | some ops => exact ⟨rfl, rfl, rfl, initOps_cases ops⟩

theorem inv_init (m : Mode) (scripts : List (List ROp)) (nstops : Nat)
    (h : m = .fixed ∨ nstops = 0) : Inv (init m scripts nstops) ∧ Quiet m (init m scripts nstops) := by
  have key : ∀ (sp : SPc) (n : Nat), (sp = .f2 ∨ sp = .done) →
      Inv { rs := fun j => mkR scripts[j]?, nr := scripts.length, spc := sp, scalls := n } := by
    intro sp n hsp
    refine ⟨?_, ?_, ?_, ?_, ?_⟩
    · intro t
      obtain ⟨h1, h2, h3, h4⟩ := mkR_facts scripts[t]?
      simp only [Bal, holdS, holdOf, pendOf, h1, h2, h3]
      rcases hsp with hsp | hsp <;> simp [hsp]
    · intro t
      obtain ⟨_, _, _, h4⟩ := mkR_facts scripts[t]?
      simp only []
      intro hh
      rcases h4 with h4 | h4 | h4 <;> simp [h4] at hh
    · intro t
      obtain ⟨_, _, _, h4⟩ := mkR_facts scripts[t]?
      simp only []
      intro hh
      rcases h4 with h4 | h4 | h4 <;> simp [h4] at hh
    · rcases hsp with hsp | hsp <;> simp [SOk, hsp]
    · simp
  unfold init
  simp only []
  cases nstops with
  | zero => exact ⟨key .done 0 (Or.inr rfl), Or.inr rfl⟩
  | succ n =>
    rcases h with h | h
    · subst h
      exact ⟨key .f2 n (Or.inl rfl), Or.inl rfl⟩
    · omega

theorem inv_step {m : Mode} {c : Cfg} (t : Tid) (h : Inv c) (hq : Quiet m c) :
    Inv (step m c t) ∧ Quiet m (step m c t) := by
  unfold step
  split
  · rename_i hen
    cases t with
    | s =>
      rcases hq with hq | hq
      · subst hq; exact ⟨inv_stepS h, Or.inl rfl⟩
      · simp [enabled, hq] at hen
    | r i =>
      refine ⟨inv_stepR i h, ?_⟩
      rcases hq with hq | hq
      · exact Or.inl hq
      · exact Or.inr (by simp only [stepR_spc]; exact hq)
  · exact ⟨h, hq⟩

theorem inv_of_reach {m : Mode} {scripts : List (List ROp)} {nstops : Nat} {c : Cfg}
    (hm : m = .fixed ∨ nstops = 0) (h : Reach m scripts nstops c) : Inv c ∧ Quiet m c := by
  induction h with
  | init => exact inv_init m scripts nstops hm
  | step t _ ih => exact inv_step t ih.1 ih.2

/-! ### theorems -/

/-- full statement: the conservation law holds in every reachable state and `stop()` never dies -/
def C20_thread_notifications_full (m : Mode) : Prop :=
  ∀ (scripts : List (List ROp)) (nstops : Nat) (c : Cfg), Reach m scripts nstops c →
    (∀ t, Bal c t) ∧ c.spc ≠ .rterr

/-- the repaired `ThreadManager.stop()`: every schedule, any number of request threads, any scripts,
    any number of concurrent `stop()` calls -/
theorem C20_thread_notifications : C20_thread_notifications_full .fixed := by
  intro scripts nstops c h
  have hi := (inv_of_reach (Or.inl rfl) h).1
  refine ⟨hi.bal, ?_⟩
  have := hi.sok
  simp only [SOk] at this
  intro hr
  simp [hr] at this

/-- at quiescence: exactly one `stop_thread` per `start_thread`, except for the registration a
    thread still holds -/
theorem C20_thread_notifications_quiescent (scripts : List (List ROp)) (nstops : Nat) (c : Cfg)
    (h : Reach .fixed scripts nstops c) (hs : c.spc = .done) (t : Nat) (ht : (c.rs t).pc = .done) :
    (c.rs t).nstart = (c.rs t).nstop + b2n (c.d t).isSome := by
  have := (C20_thread_notifications scripts nstops c h).1 t
  simp only [Bal, holdS, holdOf, pendOf, hs, ht] at this
  simp at this
  omega

/-- the code as it was: correct as long as no `stop()` runs concurrently -/
theorem C20_thread_notifications_partial (scripts : List (List ROp)) (c : Cfg)
    (h : Reach .asIs scripts 0 c) : (∀ t, Bal c t) ∧ c.spc ≠ .rterr := by
  obtain ⟨hi, hq⟩ := inv_of_reach (Or.inr rfl) h
  refine ⟨hi.bal, ?_⟩
  rcases hq with hq | hq
  · cases hq
  · simp [hq]

/-- one request thread (acquire, release) against one `stop()`:
    `stop_thread` is published twice and `stop()` dies with RuntimeError -/
def doubleStopSched : List Tid :=
  List.replicate 5 (.r 0) ++ List.replicate 2 .s ++ List.replicate 4 (.r 0) ++ [.s]

theorem double_stop_witness :
    let c := run .asIs (init .asIs [[.acq, .rel]] 1) doubleStopSched
    (c.rs 0).nstart = 1 ∧ (c.rs 0).nstop = 2 ∧ c.spc = .rterr ∧ (c.rs 0).pc = .done := by
  decide +kernel

theorem C20_thread_notifications_asIs_false : ¬ C20_thread_notifications_full .asIs := by
  intro h
  have := (h [[.acq, .rel]] 1 _ (reach_run .asIs _ _ doubleStopSched)).2
  exact this (by decide +kernel)

/-! non-vacuity -/
example : ∃ c, Reach .fixed [[.acq, .rel], [.acq]] 1 c ∧ (c.rs 0).nstop = 1 ∧ c.spc = .done ∧
    (c.rs 0).pc = .done :=
  ⟨_, reach_run .fixed _ _ (List.replicate 5 (.r 0) ++ List.replicate 5 (.r 1) ++
      List.replicate 12 .s ++ List.replicate 4 (.r 0)), by decide +kernel, by decide +kernel,
    by decide +kernel⟩

end CpProofs.C20T
