import CpModel.SessionLock
import CpProofs.C13Inv
import CpProofs.C13NoSweep
import CpProofs.C13Req
import CpProofs.C13File
import CpProofs.C13N
/-!
  C13 — session access is mutually exclusive and the lock is always released.

  Part (a): `RamSession` (threads) over `CpModel.SessionLock`.  All statements quantify over ANY
  number of request threads (`Nat`-indexed), ANY schedule of request / sweeper / clock steps and
  every initial cache / lock-table state.

  * `Variant.orig`   = `acquire_lock` as in the unrepaired tree (`setdefault(...).acquire()`):
      `C13_mutex_no_sweep` holds, `C13_mutex_full .orig` is FALSE (finding F20, witness by
      `decide`), with the further manifestations `C13_release_error_orig`,
      `C13_blocked_forever_orig`, `C13_lost_update_orig`.
  * `Variant.recheck` = the repaired protocol (proposed fix): `C13_mutex_full_recheck`,
      `C13_no_lost_update`, `C13_no_release_error`, `C13_released_ram`, `C13_no_deadlock`.

  Part (b): `FileSession` relative to the FileLock contract — `C13_file_mutex` (CpProofs/C13File.lean).
  Part (c): request level — `C13_released_at_end` (CpProofs/C13Req.lean), with the local instance of
  C09's "fail-safe hooks always run" (`close_runHooks`) and `sortByPrio_perm`.
-/
namespace CpProofs.C13
open CpModel.SessionLock

/-- At most one request thread is between lock acquisition and release. -/
def MutexAt (s : St) : Prop :=
  ∀ i j, inCS (s.thr i).pc = true → inCS (s.thr j).pc = true → i = j

/-- The property at full strength for protocol variant `v`: every schedule of any number of
    request threads, the sweeper and the clock, from every initial cache / lock-table state. -/
def C13_mutex_full (v : Variant) : Prop :=
  ∀ (c : Option (Nat × Nat)) (tbl : Bool) (sched : List Actor), MutexAt (run v (init c tbl) sched)

/-! ### the unrepaired protocol -/

/-- Without sweeper steps the unrepaired protocol (and the repaired one) is mutually exclusive,
    for any number of threads and any schedule. -/
theorem C13_mutex_no_sweep (v : Variant) (c : Option (Nat × Nat)) (tbl : Bool) (sched : List Actor)
    (hs : NoSweep sched) : MutexAt (run v (init c tbl) sched) := by
  have h := invNS_run v _ sched hs (invNS_init c tbl 0)
  intro i j hi hj
  have a1 := h.k1 i (holds_afterSetdef _ (inCS_holds _ hi))
  have a2 := h.k1 j (holds_afterSetdef _ (inCS_holds _ hj))
  have b1 := h.k2 i (inCS_holds _ hi)
  have b2 := h.k2 j (inCS_holds _ hj)
  rw [a1] at a2
  injection a2 with a2
  rw [a2, b2] at b1
  injection b1 with b1
  injection b1 with b1
  exact b1.symm

/-- non-vacuity: a schedule without sweeper steps in which two threads contend -/
example : NoSweep [.req 0, .req 1, .req 0, .req 1, .req 0, .req 1, .tick 3] ∧
    inCS ((run .orig (init (some (5, 100)) false)
      [.req 0, .req 1, .req 0, .req 1, .req 0, .req 1, .tick 3]).thr 0).pc = true := by
  constructor
  · unfold NoSweep; decide
  · decide

/-- F20: the schedule `T0.init; T1.init; T0.setdefault; S.copy; S.del; S.get; S.tryAcquire; S.pop;
    S.release; T0.acquire; T1.setdefault; T1.acquire` on an expired session. -/
def f20Witness : List Actor :=
  [.req 0, .req 1, .req 0, .sweep, .sweep, .sweep, .sweep, .sweep, .sweep, .req 0, .req 1, .req 1]

theorem C13_mutex_full_orig_false : ¬ C13_mutex_full .orig := by
  intro h
  have := h (some (5, 0)) false f20Witness 0 1 (by decide) (by decide)
  exact absurd this (by decide)

/-- ... continuing the witness: both read-modify-writes go through and one update is lost. -/
theorem C13_lost_update_orig :
    (run .orig (init (some (5, 0)) false)
      (f20Witness ++ [.req 0, .req 1, .req 0, .req 1])).lost = true := by decide

/-- ... and thread 0's `release_lock` ends in RuntimeError (it releases thread 1's lock object),
    leaving its own lock object owned for ever. -/
theorem C13_release_error_orig :
    let s := run .orig (init (some (5, 0)) false)
      (f20Witness ++ [.req 0, .req 0, .req 0, .req 0, .req 0])
    (s.thr 0).pc = .crashed ∧ (s.heap 0).owner = some (.req 0) := by decide

/-- Second manifestation: both threads looked the SAME lock object up, the sweep discards it,
    thread 0 acquires the orphan and its `release_lock` raises KeyError; thread 1 is then blocked on
    a lock object whose owner has terminated. -/
theorem C13_blocked_forever_orig :
    let s := run .orig (init (some (5, 0)) false)
      [.req 0, .req 1, .req 0, .req 1, .sweep, .sweep, .sweep, .sweep, .sweep, .sweep,
       .req 0, .req 0, .req 0, .req 0, .req 0]
    (s.thr 0).pc = .crashed ∧ (s.thr 1).pc = .acq ∧ enabled s (.req 1) = false ∧
    (s.heap (s.thr 1).my).owner = some (.req 0) := by decide

/-! ### the repaired protocol -/

theorem mutex_of_inv {s : St} (h : Inv s) : MutexAt s := by
  intro i j hi hj
  have a1 := h.i2 i hi
  have a2 := h.i2 j hj
  have b1 := h.i1 i (inCS_holds _ hi)
  have b2 := h.i1 j (inCS_holds _ hj)
  rw [a1] at a2
  injection a2 with a2
  rw [a2, b2] at b1
  injection b1 with b1
  injection b1 with b1
  injection b1 with b1
  exact b1.symm

theorem reachable_inv (c : Option (Nat × Nat)) (tbl : Bool) (sched : List Actor) :
    Inv (run .recheck (init c tbl) sched) :=
  inv_run _ sched (inv_init c tbl 0)

/-- Mutual exclusion at full strength for the repaired protocol. -/
theorem C13_mutex_full_recheck : C13_mutex_full .recheck :=
  fun c tbl sched => mutex_of_inv (reachable_inv c tbl sched)

/-- No handler write is ever based on a read that another write has overtaken. -/
theorem C13_no_lost_update (c : Option (Nat × Nat)) (tbl : Bool) (sched : List Actor) :
    (run .recheck (init c tbl) sched).lost = false :=
  (reachable_inv c tbl sched).l1

/-- `release_lock` never fails (no KeyError, no RuntimeError) and `clean_up` never raises. -/
theorem C13_no_release_error (c : Option (Nat × Nat)) (tbl : Bool) (sched : List Actor) :
    (∀ i, ((run .recheck (init c tbl) sched).thr i).pc ≠ .crashed) ∧
    (run .recheck (init c tbl) sched).sw.pc ≠ .crashed :=
  ⟨(reachable_inv c tbl sched).c1, (reachable_inv c tbl sched).c2⟩

/-- The lock is released: a lock object is owned by request `i` only while `i` is between its
    acquisition and its release; a request that is finished (or has not acquired yet) owns none. -/
theorem C13_released_ram (c : Option (Nat × Nat)) (tbl : Bool) (sched : List Actor) (l i : Nat)
    (hfin : holds ((run .recheck (init c tbl) sched).thr i).pc = false) :
    ((run .recheck (init c tbl) sched).heap l).owner ≠ some (.req i) := by
  intro h
  have := ((reachable_inv c tbl sched).i4 l i h).1
  rw [hfin] at this
  cases this

/-- A request blocked in `acquire` waits for an actor that is itself not blocked: either another
    request inside its locked region (whose every step is enabled) or the sweeper between its
    non-blocking acquire and its release.  So no reachable state is a deadlock. -/
theorem C13_no_deadlock (c : Option (Nat × Nat)) (tbl : Bool) (sched : List Actor) (i : Nat) :
    let s := run .recheck (init c tbl) sched
    (s.thr i).pc = .acq → enabled s (.req i) = false →
    (∃ j, holds (s.thr j).pc = true ∧ enabled s (.req j) = true) ∨
    (s.sw.pc = .pop ∨ s.sw.pc = .rel) := by
  intro s hpc hen
  have hinv : Inv s := reachable_inv c tbl sched
  simp only [enabled, hpc] at hen
  cases htry : tryAcquire s (s.thr i).my (.req i) with
  | some s' => simp [htry] at hen
  | none =>
    obtain ⟨h1, h2⟩ := tryAcquire_none htry
    cases ho : (s.heap (s.thr i).my).owner with
    | none => exact absurd ho h1
    | some a =>
      cases a with
      | req j =>
        left
        have hj := (hinv.i4 _ j ho).1
        refine ⟨j, hj, ?_⟩
        simp only [enabled]
        cases hp : (s.thr j).pc <;> simp_all [holds]
      | sweep => right; exact (hinv.s4 _ ho).1
      | tick d =>
        exfalso
        exact hinv.s7 _ d ho


/-! ### request level: non-vacuity of the hypotheses of `C13_released_at_end` -/
section
open CpModel.SessionReq

/-- a plan meeting all hypotheses: implicit locking, the handler touches the session, regenerates
    the id and dies with an unexpected exception, an on_end_request user hook that runs before
    `close` raises as well — the lock is held while the error page is sent and released at the end -/
def samplePlan : Plan :=
  { mode := .implicit, file := false, acts := [.touch, .regen], out := .exc, stream := false,
    gen := false, genTouch := false, genRaise := false, consume := .full, saveFails := false,
    oerOut := .ok, brb := [], bh := [], bf := [⟨10, false, .user, .ok⟩],
    eer := [⟨10, false, .user, .exc⟩] }

example : wellBehavedRun samplePlan = true ∧ wellBehaved samplePlan = true ∧
    (runRequest samplePlan).journal = [('H', true, 1), ('B', true, 1), ('E', false, 0)] := by decide

example : UserOnly samplePlan.eer ∧ UserOnly samplePlan.bf := by
  constructor <;> (intro h hm; simp [samplePlan] at hm; subst hm; rfl)

/-- streamed and abandoned: the deferred `session.save` releases at on_end_request -/
example :
    (runRequest { samplePlan with out := .ok, stream := true, gen := true, genTouch := true,
                                  consume := .abandon }).journal
      = [('H', true, 1), ('B', true, 1), ('E', false, 0)] := by decide

/-- the handler's well-behavedness is really needed: a second `acquire_lock` while holding the
    (re-entrant) RAM lock leaves it held once after the single release -/
example :
    (runRequest { samplePlan with acts := [.acquire], out := .ok }).held 0 = 1 := by decide

/-- a FILE session cannot take a second lock on its own path: with `lock_timeout` the redundant
    `acquire_lock()` ends in LockTimeout, the handler dies, and `close` releases the one lock -/
example :
    (runRequest { samplePlan with file := true, acts := [.touch, .acquire], out := .ok }).journal
      = [('H', true, 1), ('B', true, 1), ('E', false, 0)] := by decide

/-- explicit mode, the handler never releases: `sessions.save` does -/
example :
    (runRequest { samplePlan with mode := .explicit, acts := [.acquire, .touch], out := .ok, bf := [], eer := [] }).journal
      = [('H', false, 0), ('B', false, 0), ('E', false, 0)] := by decide

/-- explicit mode, release without acquire: `release_lock` raises, nothing is held at any time -/
example :
    (runRequest { samplePlan with mode := .explicit, acts := [.release], out := .ok }).journal
      = [('H', false, 0), ('B', false, 0), ('E', false, 0)] := by decide

end

end CpProofs.C13
