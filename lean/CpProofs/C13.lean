import CpModel.SessionLock
/-!
  C13 — session access is mutually exclusive and the lock is always released.
  (work in progress: witnesses first)
-/
namespace CpProofs.C13
open CpModel.SessionLock

/-- At most one request thread is between lock acquisition and release. -/
def MutexAt (s : St) : Prop :=
  ∀ i j, inCS (s.thr i).pc = true → inCS (s.thr j).pc = true → i = j

/-- The property at full strength for protocol variant `v`: every schedule of any number of
    request threads, the sweeper and the clock, from every initial cache / lock-table state. -/
def C13_mutex_full (v : Variant) : Prop :=
  ∀ (c : Option (Nat × Nat)) (tbl : Bool) (sched : List Actor), MutexAt (run v (init c tbl) sched)

/-- F20: the schedule `T0.init; T1.init; T0.setdefault; S.copy; S.del; S.get; S.tryAcquire; S.pop;
    S.release; T0.acquire; T1.setdefault; T1.acquire` on an expired session. -/
def f20Witness : List Actor :=
  [.req 0, .req 1, .req 0, .sweep, .sweep, .sweep, .sweep, .sweep, .sweep, .req 0, .req 1, .req 1]

theorem C13_mutex_full_orig_false : ¬ C13_mutex_full .orig := by
  intro h
  have := h (some (5, 0)) false f20Witness 0 1 (by decide) (by decide)
  exact absurd this (by decide)

end CpProofs.C13
