import CpProofs.C03
import CpModel.UrlEncReq
/-!
  C03, outside the round trip: what the two percent-decoders do with EVERY input (malformed escapes
  included), stated as the equations of a left-to-right scan and proved for the transcribed
  split-and-join code; what `recode_path_qs` does with raw query bytes that are not UTF-8; the order in
  which `attempt_charsets` are consulted (a declared-but-wrong charset that can read the bytes wins);
  UTF-16-BE (explicit, or `utf-16` with a big-endian byte-order mark) as a body charset with a
  round-trip law.

  The statement of C03 is silent on malformed escapes; these theorems say exactly what the code
  guarantees there:
   * query string (urllib, text): a `%` that is not followed by two hex digits stays, literally, and so
     does what follows (`%` → `%`, `%G1` → `%G1`, `%4` → `%4`);
   * form body (`_cpreqbody.unquote_plus`, bytes): the `%` is DROPPED and what follows stays (`%` → ``,
     `%G1` → `G1`), and everything CPython's `int(x, 16)` accepts in the (at most two) bytes up to the
     next `%` is decoded (`%4` → `\x04`, `% 4`, `%+4`, `%4 `, `%-0`).
-/
namespace CpProofs.C03
open CpModel.UrlEnc

/-- ASCII literal as bytes (for the examples). -/
def asc (s : String) : Bytes := s.toList.map charByte

/-! ## the `%`-split skeleton as a scan -/

theorem splitOn'_fst_eq_takeWhile {α : Type} [DecidableEq α] (sep : α) (l : List α) :
    (splitOn' sep l).1 = l.takeWhile (· ≠ sep) := by
  induction l with
  | nil => rfl
  | cons c l ih =>
    rw [splitOn'_cons]
    by_cases h : c = sep
    · simp [h]
    · simp [h, ih]

/-- A `%` starts an item: the item is everything up to the next `%`. -/
theorem pctJoin_pct (fix : Bytes → Bytes) (x : Bytes) :
    pctJoin fix (0x25 :: x) = fix (splitOn' 0x25 x).1 ++ (splitOn' 0x25 x).2.flatMap fix := by
  simp [pctJoin, splitOn'_cons]

/-- Dropping `k` bytes inside the first item does not touch the later items. -/
theorem splitOn'_drop (x : Bytes) (k : Nat) (hk : k ≤ (splitOn' 0x25 x).1.length) :
    splitOn' 0x25 (x.drop k) = ((splitOn' 0x25 x).1.drop k, (splitOn' 0x25 x).2) := by
  induction k generalizing x with
  | zero => simp
  | succ k ih =>
    cases x with
    | nil => simp [splitOn'_nil]
    | cons c x =>
      rw [splitOn'_cons] at hk ⊢
      by_cases h : c = 0x25
      · simp [h] at hk
      · simp only [h, if_false, List.length_cons, Nat.add_le_add_iff_right] at hk
        simp only [h, if_false, List.drop_succ_cons]
        exact ih x hk

/-- The shape both decoders' loop bodies have: look at `item[:2]`; decoded → that byte and `item[2:]`,
    otherwise `keep` and the item unchanged. -/
def escFix (f : Bytes → Option UInt8) (keep : Bytes) (item : Bytes) : Bytes :=
  match f (item.take 2) with
  | some b => b :: item.drop 2
  | none => keep ++ item

theorem fixAtom_eq_escFix : fixAtom = escFix pctByte? [] := by
  funext item
  simp only [fixAtom, escFix, List.nil_append]
  cases pctByte? (List.take 2 item) <;> rfl

/-- `_hextobyte[item[:2]]` -/
def hexPair? : Bytes → Option UInt8
  | [a, b] =>
    match hexVal? a, hexVal? b with
    | some x, some y => some (UInt8.ofNat (x * 16 + y))
    | _, _ => none
  | _ => none

theorem fixItemT_eq_escFix : fixItemT = escFix hexPair? [0x25] := by
  funext item
  match item with
  | [] => rfl
  | [a] => rfl
  | a :: b :: rest =>
    simp only [fixItemT, escFix, List.take_succ_cons, List.take_zero, hexPair?, List.drop_succ_cons,
      List.drop_zero]
    cases hexVal? a <;> cases hexVal? b <;> rfl

/-- **The scan equation at a `%`**, for both decoders: with `two` = the (at most two) bytes between this
    `%` and the next one, a decodable `two` yields its byte and the scan goes on behind it; otherwise
    `keep` is emitted and the scan goes on right behind the `%`. -/
theorem pctJoin_escFix_pct (f : Bytes → Option UInt8) (keep : Bytes) (x : Bytes) :
    pctJoin (escFix f keep) (0x25 :: x) =
      match f ((x.takeWhile (· ≠ 0x25)).take 2) with
      | some b => b :: pctJoin (escFix f keep) (x.drop ((x.takeWhile (· ≠ 0x25)).take 2).length)
      | none => keep ++ pctJoin (escFix f keep) x := by
  rw [pctJoin_pct, ← splitOn'_fst_eq_takeWhile]
  generalize hH : (splitOn' 0x25 x).1 = H
  cases hf : f (H.take 2) with
  | none =>
    simp only [escFix, hf, pctJoin, hH, List.append_assoc]
  | some b =>
    have hk : (H.take 2).length ≤ (splitOn' 0x25 x).1.length := by
      rw [hH, List.length_take]; omega
    simp only [escFix, hf, pctJoin, splitOn'_drop x _ hk, hH, List.cons_append]
    congr 2
    rw [List.length_take]
    by_cases h2 : 2 ≤ H.length
    · rw [Nat.min_eq_left h2]
    · have : H.length ≤ 2 := by omega
      rw [Nat.min_eq_right this, List.drop_length, List.drop_eq_nil_of_le this]

/-! ## query string: urllib's `_unquote_impl`, exactly -/

/-- Do the next two bytes form a well-formed escape body (two hex digits)? -/
def startsEsc : Bytes → Bool
  | a :: b :: _ => (hexVal? a).isSome && (hexVal? b).isSome
  | _ => false

theorem hexVal_ne_pct {a : UInt8} (h : (hexVal? a).isSome) : a ≠ 0x25 := by
  intro e
  subst e
  simp [hexVal?] at h

theorem unquoteImpl_nil : unquoteImpl [] = [] := by
  rw [unquoteImpl_eq, pctJoin_nil]

theorem unquoteImpl_cons_ne (c : UInt8) (x : Bytes) (h : c ≠ 0x25) :
    unquoteImpl (c :: x) = c :: unquoteImpl x := by
  rw [unquoteImpl_eq, unquoteImpl_eq, pctJoin_cons_ne _ _ _ h]

/-- A well-formed escape is its byte (either hex case, per digit). -/
theorem unquoteImpl_escape (a b : UInt8) (x : Bytes) (va vb : Nat)
    (ha : hexVal? a = some va) (hb : hexVal? b = some vb) :
    unquoteImpl (0x25 :: a :: b :: x) = UInt8.ofNat (va * 16 + vb) :: unquoteImpl x := by
  rw [unquoteImpl_eq, unquoteImpl_eq]
  apply pctJoin_escape
  · exact hexVal_ne_pct (by simp [ha])
  · exact hexVal_ne_pct (by simp [hb])
  · intro r
    simp [fixItemT, ha, hb]

theorem take2_takeWhile_of_startsEsc (x : Bytes) :
    hexPair? ((x.takeWhile (· ≠ 0x25)).take 2) = none ↔ startsEsc x = false := by
  match x with
  | [] => simp [hexPair?, startsEsc]
  | [a] =>
    by_cases h : a = 0x25 <;> simp [List.takeWhile, h, hexPair?, startsEsc]
  | a :: b :: rest =>
    by_cases h1 : a = 0x25
    · subst h1
      simp [List.takeWhile, hexPair?, startsEsc, hexVal?]
    · by_cases h2 : b = 0x25
      · subst h2
        simp [List.takeWhile, h1, hexPair?, startsEsc, hexVal?]
      · simp only [List.takeWhile, ne_eq, h1, not_false_eq_true, decide_true, h2, List.take_succ_cons,
          List.take_zero, hexPair?, startsEsc]
        cases hexVal? a <;> cases hexVal? b <;> simp

/-- **A malformed `%` in the query string stays, literally** (and the scan goes on right behind it, so
    `%%41` is `%A`). -/
theorem unquoteImpl_malformed (x : Bytes) (h : startsEsc x = false) :
    unquoteImpl (0x25 :: x) = 0x25 :: unquoteImpl x := by
  rw [unquoteImpl_eq, unquoteImpl_eq, fixItemT_eq_escFix, pctJoin_escFix_pct]
  have := (take2_takeWhile_of_startsEsc x).2 h
  rw [this]
  rfl

/-- No well-formed escape anywhere. -/
def noEscape : Bytes → Bool
  | [] => true
  | c :: x => !(c = 0x25 && startsEsc x) && noEscape x

/-- … then urllib's decoder is the identity: `%`, `%G1`, `%4`, `100%` all arrive as written. -/
theorem unquoteImpl_of_noEscape (s : Bytes) (h : noEscape s = true) : unquoteImpl s = s := by
  induction s with
  | nil => exact unquoteImpl_nil
  | cons c x ih =>
    simp only [noEscape, Bool.and_eq_true, Bool.not_eq_eq_eq_not, Bool.not_true, Bool.and_eq_false_imp,
      decide_eq_true_eq] at h
    by_cases hc : c = 0x25
    · subst hc
      rw [unquoteImpl_malformed x (h.1 rfl), ih h.2]
    · rw [unquoteImpl_cons_ne c x hc, ih h.2]

example : unquoteImpl (asc "%") = (asc "%") ∧
    unquoteImpl (asc "%G1") = (asc "%G1") ∧
    unquoteImpl (asc "%4") = (asc "%4") ∧
    unquoteImpl (asc "%%41") = (asc "%A") ∧
    unquoteImpl (asc "100%") = (asc "100%") := by decide

/-! ## form body: `_cpreqbody.unquote_plus`, exactly -/

/-- The body decoder after its `+` → space pass. -/
def bodyUnq (bs : Bytes) : Bytes := pctJoin fixAtom bs

theorem unquotePlusBytes_bodyUnq (bs : Bytes) :
    unquotePlusBytes bs = bodyUnq (bs.map fun b => if b = 0x2B then 0x20 else b) :=
  unquotePlusBytes_eq bs

theorem bodyUnq_nil : bodyUnq [] = [] := pctJoin_nil _

theorem bodyUnq_cons_ne (c : UInt8) (x : Bytes) (h : c ≠ 0x25) : bodyUnq (c :: x) = c :: bodyUnq x :=
  pctJoin_cons_ne _ _ _ h

/-- **The body decoder at a `%`**: `two` = the at most two bytes before the next `%`; if `int(two, 16)`
    yields a byte, that byte replaces `%` and `two`; otherwise **the `%` is dropped** and the scan
    continues with what followed it. -/
theorem bodyUnq_pct (x : Bytes) :
    bodyUnq (0x25 :: x) =
      match pctByte? ((x.takeWhile (· ≠ 0x25)).take 2) with
      | some b => b :: bodyUnq (x.drop ((x.takeWhile (· ≠ 0x25)).take 2).length)
      | none => bodyUnq x := by
  unfold bodyUnq
  rw [fixAtom_eq_escFix, pctJoin_escFix_pct]
  cases pctByte? ((x.takeWhile (· ≠ 0x25)).take 2) <;> simp

/-- Well-formed escapes decode (either hex case per digit) — the instance the round trip uses. -/
theorem bodyUnq_escape (a b : UInt8) (x : Bytes) (va vb : Nat)
    (ha : hexVal? a = some va) (hb : hexVal? b = some vb) :
    bodyUnq (0x25 :: a :: b :: x) = UInt8.ofNat (va * 16 + vb) :: bodyUnq x := by
  rw [bodyUnq_pct]
  have na := hexVal_ne_pct (a := a) (by simp [ha])
  have nb := hexVal_ne_pct (a := b) (by simp [hb])
  simp [List.takeWhile, na, nb, pctByte?, ha, hb]

example : unquotePlusBytes (asc "%") = [] ∧
    unquotePlusBytes (asc "%G1") = (asc "G1") ∧
    unquotePlusBytes (asc "%4") = [4] ∧
    unquotePlusBytes (asc "a=100%") = (asc "a=100") ∧
    unquotePlusBytes (asc "%+4x") = [4, 0x78] ∧          -- `+` became a space first: int(' 4', 16)
    unquotePlusBytes (asc "%-0") = [0] ∧
    unquotePlusBytes (asc "%%41") = (asc "A") := by decide

/-- The two decoders differ on malformed input: the same wire text `a=100%` reaches the handler as `100%`
    from the query string and as `100` from a form body. -/
example : unquoteImpl (asc "100%") ≠ unquotePlusBytes (asc "100%") := by decide

/-! ## raw query bytes, `request.uri_encoding` -/

/-- A query string that is not valid UTF-8 is passed on as the Latin-1 text the WSGI server made of it
    (no 404 at this point). -/
theorem recodeQS_fallback (raw : Bytes) (h : utf8Dec raw = none) : recodeQS raw = latin1Dec raw := by
  simp [recodeQS, h]

/-- With the default `uri_encoding` and a path that is UTF-8 (ASCII, say), `recode_path_qs` is `recodeQS`. -/
theorem recodePathQs_utf8 (path qs : Bytes) (h : (utf8Dec path).isSome) :
    recodePathQs .utf8 path qs = recodeQS qs := by
  unfold recodePathQs recodeQS
  simp only [decode]
  cases hp : utf8Dec path with
  | none => simp [hp] at h
  | some t => cases utf8Dec qs <;> rfl

/-- `uri_encoding = latin-1`: nothing is transcoded. -/
theorem recodePathQs_latin1 (path qs : Bytes) : recodePathQs .latin1 path qs = latin1Dec qs := by
  simp [recodePathQs, decode]

/-- Path and query are transcoded in ONE `try`: a path that does not decode drags the query string back
    to Latin-1 even when the query string alone would decode. -/
theorem recodePathQs_path_fails (enc : Charset) (path qs : Bytes) (h : decode enc path = none) :
    recodePathQs enc path qs = latin1Dec qs := by
  simp [recodePathQs, h]

theorem mem_of_mem_splitOn' {α : Type} [DecidableEq α] (sep : α) (s : List α) (c : α) :
    (c ∈ (splitOn' sep s).1 → c ∈ s) ∧ (∀ p ∈ (splitOn' sep s).2, c ∈ p → c ∈ s) := by
  induction s with
  | nil => simp [splitOn'_nil]
  | cons x s ih =>
    rw [splitOn'_cons]
    by_cases h : x = sep
    · simp only [h, if_true, List.not_mem_nil, false_imp_iff, List.mem_cons, forall_eq_or_imp, true_and]
      exact ⟨fun hc => Or.inr (ih.1 hc), fun p hp hc => Or.inr (ih.2 p hp hc)⟩
    · simp only [h, if_false, List.mem_cons]
      refine ⟨?_, fun p hp hc => Or.inr (ih.2 p hp hc)⟩
      rintro (rfl | hc)
      · exact Or.inl rfl
      · exact Or.inr (ih.1 hc)

theorem mem_of_mem_splitOn {α : Type} [DecidableEq α] (sep : α) (s p : List α) (c : α)
    (hp : p ∈ splitOn sep s) (hc : c ∈ p) : c ∈ s := by
  rw [splitOn_eq, List.mem_cons] at hp
  rcases hp with rfl | hp
  · exact (mem_of_mem_splitOn' sep s c).1 hc
  · exact (mem_of_mem_splitOn' sep s c).2 p hp hc

theorem mem_of_mem_pairStrings (t p : Text) (c : Char) (hp : p ∈ pairStrings t) (hc : c ∈ p) : c ∈ t := by
  simp only [pairStrings, List.mem_flatMap] at hp
  obtain ⟨q, hq, hpq⟩ := hp
  exact mem_of_mem_splitOn '&' t q c hq (mem_of_mem_splitOn ';' q p c hpq hc)

theorem mem_of_mem_partition1 {α : Type} [DecidableEq α] (sep : α) (s : List α) (c : α) :
    (c ∈ (partition1 sep s).1 → c ∈ s) ∧ (∀ v, (partition1 sep s).2 = some v → c ∈ v → c ∈ s) := by
  induction s with
  | nil => simp [partition1]
  | cons x s ih =>
    simp only [partition1]
    by_cases h : x = sep
    · simp only [h, if_true, List.not_mem_nil, false_imp_iff, Option.some.injEq, List.mem_cons, true_and]
      rintro v rfl hc
      exact Or.inr hc
    · simp only [h, if_false, List.mem_cons]
      refine ⟨?_, fun v hv hc => Or.inr (ih.2 v hv hc)⟩
      rintro (rfl | hc)
      · exact Or.inl rfl
      · exact Or.inr (ih.1 hc)

def plusSp (s : Text) : Text := s.map fun c => if c = '+' then ' ' else c

/-- Text without `%` is only `+`-translated by `unquote_plus`, whatever the encoding. -/
theorem unquotePlusText_of_no_pct (dec : Bytes → Option Text) (s : Text) (h : '%' ∉ s) :
    unquotePlusText dec s = some (plusSp s) := by
  unfold unquotePlusText unquoteText plusSp
  have : (s.map fun c => if c = '+' then ' ' else c).contains '%' = false := by
    simp only [List.contains_eq_mem, List.mem_map, decide_eq_false_iff_not, not_exists, not_and]
    intro c hc
    by_cases hp : c = '+'
    · simp [hp]
    · simp only [hp, if_false]
      intro e
      exact h (e ▸ hc)
  simp only [this, Bool.false_eq_true, if_false]

/-- The pairs of a query text without escapes: the non-empty pieces, split at the first `=`. -/
def plainPairs (l : List Text) : List (Text × Text) :=
  l.filterMap fun nv =>
    if nv.isEmpty then none
    else some (plusSp (partition1 '=' nv).1, plusSp ((partition1 '=' nv).2.getD []))

theorem decodeQ_of_no_pct (dec : Bytes → Option Text) (l : List Text) (h : ∀ p ∈ l, '%' ∉ p) :
    decodeQ dec l = some (plainPairs l) := by
  induction l with
  | nil => rfl
  | cons nv rest ih =>
    have hr := ih (fun p hp => h p (by simp [hp]))
    have hnv := h nv (by simp)
    simp only [decodeQ, plainPairs, List.filterMap_cons]
    by_cases he : nv.isEmpty = true
    · simp only [he, if_true]
      exact hr
    · simp only [he, Bool.false_eq_true, if_false]
      have h1 : '%' ∉ (partition1 '=' nv).1 := fun hc => hnv ((mem_of_mem_partition1 '=' nv '%').1 hc)
      have h2 : '%' ∉ (partition1 '=' nv).2.getD [] := by
        cases hv : (partition1 '=' nv).2 with
        | none => simp
        | some v => exact fun hc => hnv ((mem_of_mem_partition1 '=' nv '%').2 v hv hc)
      rw [unquotePlusText_of_no_pct dec _ h1, unquotePlusText_of_no_pct dec _ h2, hr]
      rfl

/-- **Raw query bytes never cause a 404 by themselves.**  A query string without `%` — whatever its
    bytes, UTF-8 or not, and whatever `query_string_encoding` — is accepted: it is re-read as UTF-8 when
    valid, as Latin-1 otherwise (`recodeQS`), split into its pairs and handed over; only `+` is
    translated.  (A 404 needs an escape: `parseQsPairs_eq_none`.) -/
theorem C03_query_without_escape_accepted (dec : Bytes → Option Text) (raw : Bytes)
    (hp : '%' ∉ recodeQS raw) (hnot : imageMap? (recodeQS raw) = none) :
    parseQueryString dec (recodeQS raw) = some (addAll [] (plainPairs (pairStrings (recodeQS raw)))) := by
  unfold parseQueryString
  rw [hnot]
  simp only []
  rw [parseQsPairs_eq, decodeQ_of_no_pct dec _ (fun p hpm hc => hp (mem_of_mem_pairStrings _ p '%' hpm hc))]
  rfl

/-- `k=<E9>` (one raw Latin-1 byte): not UTF-8, so the handler receives the Latin-1 reading `é`, also when
    `query_string_encoding` is UTF-8 or ASCII. -/
example : handle { qs := [0x6B, 0x3D, 0xE9], qsEnc := .ascii, body := none }
    = .handler [(['k'], .one (.str [Char.ofNat 0xE9]))] := by decide +kernel

/-! ## `attempt_charsets`: order of the attempts -/

theorem attemptCharsets_spec (declared : Option Charset) (configured : Option (List Charset)) :
    attemptCharsets declared configured =
      match configured, declared with
      | some l, _ => l
      | none, some d => if d = .utf8 then [.utf8] else [d, .utf8]
      | none, none => [.utf8] := by
  cases configured with
  | some l => rfl
  | none =>
    cases declared with
    | none => rfl
    | some d => cases d <;> rfl

/-- **Declared-but-wrong.**  The declared charset is asked first; when it can read every key and value
    — rightly or not — its reading is what the handler receives, and no fallback is consulted. -/
theorem C03_first_attempt_wins (d : Charset) (more : List Charset) (body : Bytes) (ps : List (Text × Text))
    (h : decodeAll (decode d) (rawPairs body) = some ps) :
    processUrlencoded ((d :: more).map decode) body = some (addAll [] ps) := by
  rw [processUrlencoded_eq]
  simp [h]

theorem decodeAll_latin1 (l : List (Bytes × Bytes)) : decodeAll (decode .latin1) l ≠ none := by
  induction l with
  | nil => simp [decodeAll]
  | cons kv rest ih =>
    obtain ⟨k, v⟩ := kv
    cases hr : decodeAll (decode .latin1) rest with
    | none => exact absurd hr ih
    | some more =>
      simp only [decodeAll, hr]
      simp [decode]

/-- Latin-1 reads everything: once it is among the attempts no body is refused — a UTF-8 body declared as
    `iso-8859-1` arrives as mojibake, not as an error. -/
theorem C03_latin1_never_refused (pre post : List Charset) (body : Bytes) :
    processUrlencoded ((pre ++ .latin1 :: post).map decode) body ≠ none := by
  rw [Ne, C03_all_or_nothing_refused]
  intro h
  obtain ⟨kv, hkv, hd⟩ := h (decode .latin1) (by simp)
  have := decodeAll_latin1 (rawPairs body)
  rw [Ne, decodeAll_eq_none] at this
  exact this ⟨kv, hkv, hd⟩

example : processUrlencoded ([Charset.latin1, .utf8].map decode) [0x6B, 0x3D, 0xC3, 0xA9]
    = some [(['k'], .one (.str [Char.ofNat 0xC3, Char.ofNat 0xA9]))] := by decide

/-! ## UTF-16, big-endian -/

def unitsBE (us : List Nat) : Bytes := us.flatMap fun u => [UInt8.ofNat (u / 256), UInt8.ofNat (u % 256)]

/-- `str.encode('utf-16-be')` -/
def utf16beEnc (s : Text) : Bytes := unitsBE (s.flatMap utf16Char)

theorem codeUnits_unitsBE (us : List Nat) (h : ∀ u ∈ us, u < 65536) :
    codeUnits true (unitsBE us) = some us := by
  induction us with
  | nil => rfl
  | cons u us ih =>
    have hu := h u (by simp)
    have ih := ih (fun v hv => h v (by simp [hv]))
    simp only [unitsBE, List.flatMap_cons, List.cons_append, List.nil_append] at ih ⊢
    simp only [codeUnits, ih, Option.map_some, if_true, UInt8.toNat_ofNat']
    congr 2
    omega

theorem utf16be_rt (s : Text) : utf16Units true (utf16beEnc s) = some s := by
  unfold utf16Units utf16beEnc
  rw [codeUnits_unitsBE]
  · simp [decodeUnits_chars]
  · intro u hu
    simp only [List.mem_flatMap] at hu
    obtain ⟨c, _, hc⟩ := hu
    exact utf16Char_lt c u hc

/-- `utf-16-be`: every text is representable. -/
def utf16beCodec : Codec where
  enc := utf16beEnc
  dec := decode .utf16be
  ok := fun _ => True
  rt := fun s _ => utf16be_rt s

/-- `utf-16` read from a big-endian writer: byte-order mark `FE FF`, then big-endian units. -/
def utf16BomBeCodec : Codec where
  enc := fun s => 0xFE :: 0xFF :: utf16beEnc s
  dec := decode .utf16
  ok := fun _ => True
  rt := fun s _ => by
    show utf16Dec (0xFE :: 0xFF :: utf16beEnc s) = some s
    simp only [utf16Dec]
    exact utf16be_rt s

example : utf16beEnc "a€".toList = [0x00, 0x61, 0x20, 0xAC] ∧
    utf16beEnc [Char.ofNat 0x1F600] = [0xD8, 0x3D, 0xDE, 0x00] := by decide

/-- `C03_body_roundtrip` instantiated: a UTF-16-BE body behind any failing attempts round-trips. -/
example : decode .utf16be = utf16beCodec.dec ∧ decode .utf16 = utf16BomBeCodec.dec := ⟨rfl, rfl⟩

end CpProofs.C03
