import CpProofs.C04Lemmas
/-!
  C04, names: the Content-Disposition / Content-Type extraction (`header_elements`, cgi-style
  `parse_header`, quote stripping in `Entity.__init__`) returns the declared name, filename and content
  type for the header shapes the generator writes, for all names / filenames free of `"`, `\`, `;`, `,`.
-/
namespace CpProofs.C04
open CpModel.Reader CpModel.Cursor CpModel.Multipart

/-- bytes that need no quoting care: no `"`, `\`, `;`, `,` -/
def Plain (n : Bytes) : Prop := ∀ b ∈ n, b ≠ 34 ∧ b ≠ 92 ∧ b ≠ 59 ∧ b ≠ 44

instance (n : Bytes) : Decidable (Plain n) := by unfold Plain; exact inferInstance

theorem Plain.tail {b : UInt8} {n : Bytes} (h : Plain (b :: n)) : Plain n := fun x hx => h x (by simp [hx])
theorem Plain.head {b : UInt8} {n : Bytes} (h : Plain (b :: n)) : b ≠ 34 ∧ b ≠ 92 ∧ b ≠ 59 ∧ b ≠ 44 := h b (by simp)

theorem splitCommas_none (v : Bytes) (h : ∀ b ∈ v, b ≠ 44) : splitCommas v = [v] := by
  induction v with
  | nil => rfl
  | cons b bs ih =>
    have hb : b ≠ 44 := h b (by simp)
    simp only [splitCommas, hb, decide_false, Bool.false_and, Bool.false_eq_true, if_false,
      ih (fun x hx => h x (by simp [hx]))]

theorem firstElement_single (v : Bytes) (hne : v ≠ []) (h : ∀ b ∈ v, b ≠ 44) :
    firstElement v = some (parseHeader v) := by
  unfold firstElement
  have : v.isEmpty = false := by cases v <;> simp_all
  simp [this, splitCommas_none v h]

/-- walking over a stretch without `;` just accumulates -/
theorem splitParams_walk (x : Bytes) (hx : ∀ b ∈ x, b ≠ 59) :
    ∀ (fuel : Nat) (rest cur : Bytes),
      splitParams (x.length + fuel) (x ++ rest) cur = splitParams fuel rest (x.reverse ++ cur) := by
  induction x with
  | nil => intro fuel rest cur; simp
  | cons b bs ih =>
    intro fuel rest cur
    have hb : b ≠ 59 := hx b (by simp)
    have hf : (b :: bs).length + fuel = (bs.length + fuel) + 1 := by simp; omega
    rw [hf]
    simp only [List.cons_append, splitParams, hb, decide_false, Bool.false_and, Bool.false_eq_true, if_false]
    rw [ih (fun y hy => hx y (by simp [hy]))]
    simp

theorem quoteBalance_plain (n : Bytes) (hn : Plain n) : ∀ (rest : Bytes) (q e : Nat),
    quoteBalance (n ++ rest) q e = quoteBalance rest q e := by
  induction n with
  | nil => intro rest q e; rfl
  | cons a t ih =>
    intro rest q e
    obtain ⟨h34, h92, _, _⟩ := hn.head
    cases hrest : t ++ rest with
    | nil =>
      have ht : t = [] := by cases t <;> simp_all
      have hr : rest = [] := by cases t <;> simp_all
      subst ht; subst hr
      simp [quoteBalance, h34]
    | cons c u =>
      have : (a :: t) ++ rest = a :: c :: u := by simp [hrest]
      rw [this]
      simp only [quoteBalance, h34, h92, if_false, decide_false, Bool.false_and, Bool.false_eq_true]
      rw [← hrest]
      exact ih hn.tail rest q e


/-! `form-data; name="n"` and `form-data; name="n"; filename="f"` -/

def FD : Bytes := [102,111,114,109,45,100,97,116,97]                 -- form-data
def NAMEQ : Bytes := [32,110,97,109,101,61,34]                         -- ␠name="
def FNAMEQ : Bytes := [32,102,105,108,101,110,97,109,101,61,34]       -- ␠filename="
def Q : Bytes := [34]

theorem plain_no59 {n : Bytes} (hn : Plain n) : ∀ b ∈ n, b ≠ 59 := fun b hb => (hn b hb).2.2.1

theorem unbalanced_quoted (pre : Bytes) (n : Bytes) (hn : Plain n)
    (hpre : ∀ rest q e, quoteBalance (pre ++ rest) q e = quoteBalance rest (q + 1) e) :
    unbalanced (pre ++ n ++ Q) = false := by
  unfold unbalanced
  rw [List.append_assoc, hpre, quoteBalance_plain n hn]
  simp [Q, quoteBalance]

theorem qb_NAMEQ : ∀ rest q e, quoteBalance (NAMEQ ++ rest) q e = quoteBalance rest (q + 1) e := by
  intro rest q e
  cases rest with
  | nil => simp [NAMEQ, quoteBalance]
  | cons c u => simp [NAMEQ, quoteBalance]

theorem qb_FNAMEQ : ∀ rest q e, quoteBalance (FNAMEQ ++ rest) q e = quoteBalance rest (q + 1) e := by
  intro rest q e
  cases rest with
  | nil => simp [FNAMEQ, quoteBalance]
  | cons c u => simp [FNAMEQ, quoteBalance]

/-- a piece `pre ++ n ++ "` (pre without `;`) -/
theorem piece_no59 (pre n : Bytes) (hpre : ∀ b ∈ pre, b ≠ 59) (hn : Plain n) :
    ∀ b ∈ pre ++ n ++ Q, b ≠ 59 := by
  intro b hb
  simp only [List.mem_append, Q, List.mem_singleton] at hb
  rcases hb with (hb | hb) | hb
  · exact hpre b hb
  · exact plain_no59 hn b hb
  · subst hb; decide

theorem splitParams_two (p1 p2 : Bytes) (h1 : ∀ b ∈ p1, b ≠ 59) (h2 : ∀ b ∈ p2, b ≠ 59)
    (hne : p1 ≠ []) (hb1 : unbalanced p1 = false) :
    splitParams ((p1 ++ 59 :: p2).length + 1) (p1 ++ 59 :: p2) [] = [p1, p2] := by
  have hf : (p1 ++ 59 :: p2).length + 1 = p1.length + ((p2.length + 1) + 1) := by simp; omega
  rw [hf, splitParams_walk p1 h1]
  have hne' : (p1.reverse ++ []).isEmpty = false := by cases p1 <;> simp_all
  simp only [splitParams, List.append_nil] at hne' ⊢
  simp only [hne', List.reverse_reverse, hb1, Bool.not_false, Bool.and_self, decide_true, if_true]
  have hf2 : p2.length + 1 = p2.length + 1 := rfl
  have := splitParams_walk p2 h2 1 [] []
  simp only [List.append_nil] at this
  rw [this]
  simp [splitParams]

theorem splitParams_three (p1 p2 p3 : Bytes) (h1 : ∀ b ∈ p1, b ≠ 59) (h2 : ∀ b ∈ p2, b ≠ 59)
    (h3 : ∀ b ∈ p3, b ≠ 59) (hne1 : p1 ≠ []) (hne2 : p2 ≠ []) (hb1 : unbalanced p1 = false)
    (hb2 : unbalanced p2 = false) :
    splitParams ((p1 ++ 59 :: (p2 ++ 59 :: p3)).length + 1) (p1 ++ 59 :: (p2 ++ 59 :: p3)) [] = [p1, p2, p3] := by
  have hf : (p1 ++ 59 :: (p2 ++ 59 :: p3)).length + 1 = p1.length + (((p2 ++ 59 :: p3).length + 1) + 1) := by
    simp; omega
  rw [hf, splitParams_walk p1 h1]
  have hne' : (p1.reverse).isEmpty = false := by cases p1 <;> simp_all
  simp only [splitParams, List.append_nil]
  simp only [hne', List.reverse_reverse, hb1, Bool.not_false, Bool.and_self, decide_true, if_true]
  rw [splitParams_two p2 p3 h2 h3 hne2 hb2]

theorem lstrip_sp (c : UInt8) (x : Bytes) (hc : isWs c = false) : lstrip (32 :: c :: x) = c :: x := by
  have h32 : isWs 32 = true := by decide
  simp only [lstrip, h32, if_true, hc, Bool.false_eq_true, if_false]

theorem strip_piece (c z : UInt8) (x : Bytes) (hc : isWs c = false) (hz : isWs z = false) :
    strip (32 :: c :: x ++ [z]) = c :: x ++ [z] := by
  unfold strip
  have : (32 : UInt8) :: c :: x ++ [z] = 32 :: c :: (x ++ [z]) := by simp
  rw [this, lstrip_sp c _ hc]
  have h2 := rstrip_ws_suffix (c :: x) z [] hz (by simp)
  simpa using h2

theorem strip_id (c z : UInt8) (x : Bytes) (hc : isWs c = false) (hz : isWs z = false) :
    strip (c :: x ++ [z]) = c :: x ++ [z] := by
  unfold strip
  have : c :: x ++ [z] = c :: (x ++ [z]) := by simp
  rw [this, lstrip_nonws c _ hc]
  have h2 := rstrip_ws_suffix (c :: x) z [] hz (by simp)
  simpa using h2

theorem unescape1_plain (n : Bytes) (hn : Plain n) : unescape1 n = n := by
  induction n with
  | nil => rfl
  | cons b t ih =>
    have hb := hn.head.2.1
    cases t with
    | nil => simp [unescape1]
    | cons c u =>
      have := ih hn.tail
      simp only [unescape1, hb, decide_false, Bool.false_and, Bool.false_eq_true, if_false]
      rw [this]

theorem unescape2_plain (n : Bytes) (hn : Plain n) : unescape2 n = n := by
  induction n with
  | nil => rfl
  | cons b t ih =>
    have hb := hn.head.2.1
    cases t with
    | nil => simp [unescape2]
    | cons c u =>
      have := ih hn.tail
      simp only [unescape2, hb, decide_false, Bool.false_and, Bool.false_eq_true, if_false]
      rw [this]

theorem unquote_quoted (n : Bytes) (hn : Plain n) : unquote (strip (34 :: n ++ [34])) = n := by
  rw [strip_id 34 34 n (by decide) (by decide)]
  unfold unquote
  have h1 : (34 :: n ++ [34] : Bytes).length ≥ 2 := by simp
  have h2 : (34 :: n ++ [34] : Bytes).head? = some 34 := rfl
  have h3 : (34 :: n ++ [34] : Bytes).getLast? = some 34 := by
    have : (34 :: n ++ [34] : Bytes) = (34 :: n) ++ [34] := by simp
    rw [this, List.getLast?_append]; simp
  have h4 : ((34 :: n ++ [34] : Bytes).drop 1).take ((34 :: n ++ [34] : Bytes).length - 2) = n := by
    simp
  simp only [h1, h2, h3, decide_true, Bool.and_self, if_true, h4,
    unescape1_plain n hn, unescape2_plain n hn]

theorem stripQuotes_plain (n : Bytes) (hn : Plain n) : stripQuotes n = n := by
  unfold stripQuotes
  cases n with
  | nil => simp
  | cons b t =>
    have hb := hn.head.1
    rw [if_neg]
    intro h
    simp only [List.head?_cons, Bool.and_eq_true, decide_eq_true_eq, Option.some.injEq] at h
    exact hb h.1.1

/-- the two Content-Disposition values the generator writes -/
def cdName (n : Bytes) : Bytes := FD ++ 59 :: (NAMEQ ++ n ++ Q)
def cdNameFile (n f : Bytes) : Bytes := FD ++ 59 :: ((NAMEQ ++ n ++ Q) ++ 59 :: (FNAMEQ ++ f ++ Q))

theorem parseHeader_cdName (n : Bytes) (hn : Plain n) :
    parseHeader (cdName n) = (FD, [(K_NAME, n)]) := by
  unfold parseHeader cdName
  rw [splitParams_two FD (NAMEQ ++ n ++ Q) (by decide) (piece_no59 NAMEQ n (by decide) hn) (by decide) (by decide)]
  have hs1 : strip FD = FD := by decide
  have hs2 : strip (NAMEQ ++ n ++ Q) = [110,97,109,101,61,34] ++ n ++ [34] := by
    have := strip_piece 110 34 ([97,109,101,61,34] ++ n) (by decide) (by decide)
    simpa [NAMEQ, Q] using this
  simp only [List.map_cons, List.map_nil, hs1, hs2]
  have hfe : findEq ([110,97,109,101,61,34] ++ n ++ [34]) = some ([110,97,109,101], 34 :: n ++ [34]) := by
    simp [findEq]
  have hk : lower (strip [110,97,109,101]) = K_NAME := by decide
  simp only [List.filterMap_cons, List.filterMap_nil, hfe, hk, unquote_quoted n hn]

theorem parseHeader_cdNameFile (n f : Bytes) (hn : Plain n) (hf : Plain f) :
    parseHeader (cdNameFile n f) = (FD, [(K_NAME, n), (K_FILENAME, f)]) := by
  unfold parseHeader cdNameFile
  rw [splitParams_three FD (NAMEQ ++ n ++ Q) (FNAMEQ ++ f ++ Q) (by decide)
    (piece_no59 NAMEQ n (by decide) hn) (piece_no59 FNAMEQ f (by decide) hf) (by decide)
    (by simp [NAMEQ]) (by decide) (unbalanced_quoted NAMEQ n hn qb_NAMEQ)]
  have hs1 : strip FD = FD := by decide
  have hs2 : strip (NAMEQ ++ n ++ Q) = [110,97,109,101,61,34] ++ n ++ [34] := by
    have := strip_piece 110 34 ([97,109,101,61,34] ++ n) (by decide) (by decide)
    simpa [NAMEQ, Q] using this
  have hs3 : strip (FNAMEQ ++ f ++ Q) = [102,105,108,101,110,97,109,101,61,34] ++ f ++ [34] := by
    have := strip_piece 102 34 ([105,108,101,110,97,109,101,61,34] ++ f) (by decide) (by decide)
    simpa [FNAMEQ, Q] using this
  simp only [List.map_cons, List.map_nil, hs1, hs2, hs3]
  have hfe : findEq ([110,97,109,101,61,34] ++ n ++ [34]) = some ([110,97,109,101], 34 :: n ++ [34]) := by
    simp [findEq]
  have hfe2 : findEq ([102,105,108,101,110,97,109,101,61,34] ++ f ++ [34]) =
      some ([102,105,108,101,110,97,109,101], 34 :: f ++ [34]) := by
    simp [findEq]
  have hk : lower (strip [110,97,109,101]) = K_NAME := by decide
  have hk2 : lower (strip [102,105,108,101,110,97,109,101]) = K_FILENAME := by decide
  simp only [List.filterMap_cons, List.filterMap_nil, hfe, hfe2, hk, hk2, unquote_quoted n hn, unquote_quoted f hf]

theorem strip_nows (l : Bytes) (h : ∀ b ∈ l, isWs b = false) : strip l = l := by
  cases l with
  | nil => rfl
  | cons c t =>
    have hc := h c (by simp)
    rcases List.eq_nil_or_concat t with rfl | ⟨x, z, rfl⟩
    · simp [strip, rstrip, lstrip, hc]
    · have hz := h z (by simp)
      have := strip_id c z x hc hz
      simpa using this

/-- a content type as the generator writes it: non-empty, no `;`, no `,`, no blanks -/
structure TokenLike (ct : Bytes) : Prop where
  ne : ct ≠ []
  ok : ∀ b ∈ ct, b ≠ 59 ∧ b ≠ 44 ∧ isWs b = false

theorem parseHeader_token (ct : Bytes) (h : TokenLike ct) : parseHeader ct = (ct, []) := by
  unfold parseHeader
  have hw := splitParams_walk ct (fun b hb => (h.ok b hb).1) 1 [] []
  simp only [List.append_nil] at hw
  rw [hw]
  simp [splitParams, strip_nows ct (fun b hb => (h.ok b hb).2.2)]

theorem cdName_nocomma (n : Bytes) (hn : Plain n) : ∀ b ∈ cdName n, b ≠ 44 := by
  intro b hb
  simp only [cdName, List.mem_append, List.mem_cons] at hb
  rcases hb with hb | rfl | (hb | hb) | hb
  · revert b; decide
  · decide
  · revert b; decide
  · exact (hn b hb).2.2.2
  · revert b; decide

theorem cdNameFile_nocomma (n f : Bytes) (hn : Plain n) (hf : Plain f) : ∀ b ∈ cdNameFile n f, b ≠ 44 := by
  intro b hb
  simp only [cdNameFile, List.mem_append, List.mem_cons] at hb
  rcases hb with hb | rfl | ((hb | hb) | hb) | rfl | (hb | hb) | hb
  · revert b; decide
  · decide
  · revert b; decide
  · exact (hn b hb).2.2.2
  · revert b; decide
  · decide
  · revert b; decide
  · exact (hf b hb).2.2.2
  · revert b; decide

/-- **C04, names (plain field).**  A part whose Content-Disposition is `form-data; name="n"` (n free of
    `"`, `\`, `;`, `,`) and which has no Content-Type is delivered under the name `n`, as a plain field of
    type text/plain. -/
theorem C04_names_field (n : Bytes) (hn : Plain n) :
    partInfo [(K_CD, cdName n)] = { name := some n, filename := none, ctype := TEXT_PLAIN } := by
  have h1 : hdrGet [(K_CD, cdName n)] K_CT = none := by
    have : (lower K_CD = lower K_CT) = False := by decide
    simp [hdrGet, this]
  have h2 : hdrGet [(K_CD, cdName n)] K_CD = some (cdName n) := by simp [hdrGet]
  have h3 : firstElement (cdName n) = some (FD, [(K_NAME, n)]) := by
    rw [firstElement_single _ (by simp [cdName, FD]) (cdName_nocomma n hn), parseHeader_cdName n hn]
  have h4 : paramGet [(K_NAME, n)] K_NAME = some n := by simp [paramGet]
  have h5 : paramGet [(K_NAME, n)] K_FILENAME = none := by
    have : (K_NAME = K_FILENAME) = False := by decide
    simp [paramGet, this]
  simp only [partInfo, h1, h2, Option.bind_none, Option.bind_some, h3, h4, h5, Option.map_some, Option.map_none,
    stripQuotes_plain n hn]

/-- **C04, names (file upload).**  `form-data; name="n"; filename="f"` with a token-like Content-Type:
    delivered under `n`, with the declared filename and content type. -/
theorem C04_names_file (n f ct : Bytes) (hn : Plain n) (hf : Plain f) (hct : TokenLike ct) :
    partInfo [(K_CD, cdNameFile n f), (K_CT, ct)] = { name := some n, filename := some f, ctype := ct } := by
  have hne : (lower K_CD = lower K_CT) = False := by decide
  have h1 : hdrGet [(K_CD, cdNameFile n f), (K_CT, ct)] K_CT = some ct := by simp [hdrGet, hne]
  have h2 : hdrGet [(K_CD, cdNameFile n f), (K_CT, ct)] K_CD = some (cdNameFile n f) := by simp [hdrGet]
  have h3 : firstElement (cdNameFile n f) = some (FD, [(K_NAME, n), (K_FILENAME, f)]) := by
    rw [firstElement_single _ (by simp [cdNameFile, FD]) (cdNameFile_nocomma n f hn hf),
      parseHeader_cdNameFile n f hn hf]
  have h3' : firstElement ct = some (ct, []) := by
    rw [firstElement_single _ hct.ne (fun b hb => (hct.ok b hb).2.1), parseHeader_token ct hct]
  have hnf : (K_NAME = K_FILENAME) = False := by decide
  have hfn : (K_FILENAME = K_NAME) = False := by decide
  have h4 : paramGet [(K_NAME, n), (K_FILENAME, f)] K_NAME = some n := by simp [paramGet, hfn]
  have h5 : paramGet [(K_NAME, n), (K_FILENAME, f)] K_FILENAME = some f := by simp [paramGet]
  simp only [partInfo, h1, h2, Option.bind_some, h3, h3', h4, h5, Option.map_some,
    stripQuotes_plain n hn, stripQuotes_plain f hf]

/-- non-vacuity: names with blanks, `=`, upper case and non-ASCII bytes are `Plain` -/
example : Plain [120, 32, 121, 61, 85, 195, 169] := by decide
example : TokenLike [105, 109, 97, 103, 101, 47, 112, 110, 103] := ⟨by decide, by decide⟩
end CpProofs.C04
