import CpProofs.C03Body
import CpProofs.C03Query
import CpProofs.C03Utf16
/-!
  C03 — query-string and form parameters reach the handler exactly as sent.

  The theorems are about `CpModel.UrlEnc` (the transcription of `_parse_qs`, `parse_query_string`,
  urllib's `unquote_plus`, `_cpreqbody.unquote_plus`, `process_urlencoded`, `RequestBody.process`
  and the glue in `Request._do_respond`).  They quantify over

   * every list of (key, value) texts — any length, any characters, empty keys/values, repeats;
   * every *encoding style*: per character (query) / per byte (body) literal, `+` for a space, or
     `%XY` with an independent upper/lower choice for every hex digit — subject only to the five
     reserved characters `% + & ; =` not being written literally;
   * every mix of `&` and `;` separators, with any number of empty segments (`a=1&&;b=2`, leading
     and trailing separators), and a blank value written with or without its `=`;
   * every charset codec with a round-trip law (`Codec`; instances UTF-8 from core Lean's verified
     codec, Latin-1 on code points ≤ 255, US-ASCII on ≤ 127, and for bodies UTF-16-LE and UTF-16 with
     byte-order mark), any position of that charset in `attempt_charsets`
     as long as the earlier attempts fail;
   * every split of the pairs between query string and body.

  What the handler must see is specified independently of the code by `valuesOf` (the values sent
  for a key, in wire order) and `shape` (none / scalar / list).
-/
namespace CpProofs.C03
open CpModel.UrlEnc

/-! ## codec instances -/

theorem utf8Enc_ascii (c : Char) (h : isAscii c = true) : utf8Enc [c] = [charByte c] := by
  have h1 : c.toNat < 128 := by simpa [isAscii] using h
  have h2 : c.val.toNat ≤ 127 := by
    have : c.toNat = c.val.toNat := rfl
    omega
  have hs : c.utf8Size = 1 := by
    unfold Char.utf8Size
    have : c.val ≤ 127 := by
      rw [UInt32.le_iff_toNat_le]; exact h2
    simp [this]
  unfold utf8Enc
  simp only [List.flatMap_cons, List.flatMap_nil, List.append_nil]
  rw [String.utf8EncodeChar_eq_singleton hs]
  rfl

/-- UTF-8 as a query-string charset. -/
def utf8Ascii : AsciiCodec where
  toCodec := utf8Codec
  enc_nil := rfl
  enc_append := fun a b => by simp [utf8Codec, utf8Enc]
  enc_ascii := utf8Enc_ascii

/-- Latin-1 as a query-string charset (`request.query_string_encoding = 'latin-1'`). -/
def latin1Ascii : AsciiCodec where
  toCodec := latin1Codec
  enc_nil := rfl
  enc_append := fun a b => by simp [latin1Codec, latin1Enc]
  enc_ascii := fun c _ => rfl

theorem ascii_rt (s : Text) (h : ∀ c ∈ s, c.toNat < 128) : asciiDec (latin1Enc s) = some s := by
  unfold asciiDec
  have hall : (latin1Enc s).all (· < 0x80) = true := by
    simp only [latin1Enc, List.all_map, List.all_eq_true]
    intro c hc
    have := h c hc
    simp only [Function.comp, decide_eq_true_eq, UInt8.lt_iff_toNat_lt, UInt8.toNat_ofNat']
    show c.toNat % 256 < 128
    omega
  rw [if_pos hall, latin1_rt s (fun c hc => by have := h c hc; omega)]

/-- US-ASCII on code points ≤ 127 (as body or query charset). -/
def asciiAscii : AsciiCodec where
  enc := latin1Enc
  dec := decode .ascii
  ok := fun c => c.toNat < 128
  rt := fun s h => by simp [decode, ascii_rt s h]
  enc_nil := rfl
  enc_append := fun a b => by simp [latin1Enc]
  enc_ascii := fun c _ => rfl

/-- `recode_path_qs`: a query string the client wrote as UTF-8 arrives as the text it encodes. -/
theorem recodeQS_utf8 (t : Text) : recodeQS (utf8Enc t) = t := by
  simp [recodeQS, utf8_rt]

/-! ## a query string made of segments -/

/-- One piece between separators: nothing, or a key with a value; a blank value may be written
    without the `=`. -/
inductive QSeg where
  | empty
  | pair (ks vs : List (Char × CStyle)) (withEq : Bool)

def QSeg.enc (C : Codec) : QSeg → Text
  | .empty => []
  | .pair ks vs true => encText C ks ++ '=' :: encText C vs
  | .pair ks _ false => encText C ks

def QSeg.Ok (C : AsciiCodec) : QSeg → Prop
  | .empty => True
  | .pair ks vs withEq =>
    (∀ x ∈ ks, CStyleOk x ∧ C.ok x.1) ∧ (∀ x ∈ vs, CStyleOk x ∧ C.ok x.1) ∧
    (withEq = false → vs = [] ∧ ks ≠ [])

/-- The (key, value) texts the segment carries. -/
def QSeg.plain : QSeg → Option (Text × Text)
  | .empty => none
  | .pair ks vs _ => some (plainText ks, plainText vs)

/-- The query string as text: segments joined by `&` (flag true) or `;` (flag false). -/
def queryWire (C : Codec) (first : QSeg) (rest : List (Bool × QSeg)) : Text :=
  joinSegs '&' ';' (first.enc C) (rest.map fun p => (p.1, p.2.enc C))

/-- The pairs a list of segments carries, in wire order. -/
def qPairs (segs : List QSeg) : List (Text × Text) := segs.filterMap QSeg.plain

theorem QSeg.enc_safe (C : AsciiCodec) (s : QSeg) (h : s.Ok C) :
    '&' ∉ s.enc C.toCodec ∧ ';' ∉ s.enc C.toCodec := by
  cases s with
  | empty => simp [QSeg.enc]
  | pair ks vs withEq =>
    have hk := encText_safe C.toCodec ks (fun x hx => (h.1 x hx).1)
    have hv := encText_safe C.toCodec vs (fun x hx => (h.2.1 x hx).1)
    cases withEq with
    | true =>
      simp only [QSeg.enc, List.mem_append, List.mem_cons, not_or]
      exact ⟨⟨hk.1, by decide, hv.1⟩, ⟨hk.2.1, by decide, hv.2.1⟩⟩
    | false => exact ⟨hk.1, hk.2.1⟩

theorem pairStrings_queryWire (C : AsciiCodec) (first : QSeg) (rest : List (Bool × QSeg))
    (hok : ∀ s ∈ first :: rest.map (·.2), s.Ok C) :
    pairStrings (queryWire C.toCodec first rest) = (first :: rest.map (·.2)).map (QSeg.enc C.toCodec) := by
  have h0 := QSeg.enc_safe C first (hok first (by simp))
  have hr : ∀ p ∈ rest.map (fun p => (p.1, p.2.enc C.toCodec)), '&' ∉ p.2 ∧ ';' ∉ p.2 := by
    intro p hp
    simp only [List.mem_map] at hp
    obtain ⟨q, hq, rfl⟩ := hp
    exact QSeg.enc_safe C q.2 (hok q.2 (List.mem_cons_of_mem _ (List.mem_map.2 ⟨q, hq, rfl⟩)))
  have : pairStrings (queryWire C.toCodec first rest) = pieces '&' ';' (queryWire C.toCodec first rest) := rfl
  rw [this, queryWire, pieces_joinSegs _ _ _ _ h0 hr]
  simp

/-- The loop of `_parse_qs` over the segments: empty ones are skipped, every other one adds exactly
    its (key, value), decoded. -/
theorem parseQsPairs_segs (C : AsciiCodec) (segs : List QSeg) (hok : ∀ s ∈ segs, s.Ok C) (d : Params) :
    parseQsPairs C.dec (segs.map (QSeg.enc C.toCodec)) d = some (addAll d (qPairs segs)) := by
  induction segs generalizing d with
  | nil => simp [parseQsPairs, addAll, qPairs]
  | cons s segs ih =>
    have hs := hok s (by simp)
    have ih := fun d => ih (fun t ht => hok t (by simp [ht])) d
    cases s with
    | empty =>
      have hq : qPairs (QSeg.empty :: segs) = qPairs segs := rfl
      simpa [parseQsPairs, QSeg.enc, hq] using ih d
    | pair ks vs withEq =>
      have hk := encText_safe C.toCodec ks (fun x hx => (hs.1 x hx).1)
      have uk := query_unquote_styled C ks hs.1
      have uv := query_unquote_styled C vs hs.2.1
      have hq : qPairs (QSeg.pair ks vs withEq :: segs) = (plainText ks, plainText vs) :: qPairs segs := rfl
      cases withEq with
      | true =>
        have hne : (encText C.toCodec ks ++ '=' :: encText C.toCodec vs).isEmpty = false := by
          cases encText C.toCodec ks <;> simp
        simp only [List.map_cons, QSeg.enc, parseQsPairs, hne, Bool.false_eq_true, if_false,
          partition1_append_sep '=' _ _ hk.2.2, Option.getD_some, uk, uv, ih, hq]
        simp [addAll]
      | false =>
        have hv := hs.2.2 rfl
        have hne : (encText C.toCodec ks).isEmpty = false := by
          have := encText_ne_nil C ks (fun x hx => (hs.1 x hx).2) hv.2
          cases hks : encText C.toCodec ks with
          | nil => exact absurd hks this
          | cons _ _ => rfl
        have uv0 : unquotePlusText C.dec [] = some [] := by
          have := query_unquote_styled C [] (by simp)
          simpa [encText, plainText] using this
        rw [hq]
        simp only [List.map_cons, QSeg.enc, parseQsPairs, hne, Bool.false_eq_true, if_false,
          partition1_of_not_mem '=' _ hk.2.2, Option.getD_none, uk, uv0, ih, hv.1]
        simp [addAll, plainText]

/-! ## image map -/

theorem partition1_some {α : Type} [DecidableEq α] (sep : α) (s a b : List α)
    (h : partition1 sep s = (a, some b)) : s = a ++ sep :: b ∧ sep ∉ a := by
  induction s generalizing a with
  | nil => simp [partition1] at h
  | cons c s ih =>
    simp only [partition1] at h
    by_cases hc : c = sep
    · subst hc
      simp only [if_true, Prod.mk.injEq, Option.some.injEq] at h
      obtain ⟨rfl, rfl⟩ := h
      simp
    · simp only [hc, if_false, Prod.mk.injEq] at h
      obtain ⟨rfl, h2⟩ := h
      have := ih (partition1 sep s).1 (by rw [← h2])
      constructor
      · simp only [List.cons_append, List.cons.injEq, true_and]
        exact this.1
      · simp only [List.mem_cons, not_or]
        exact ⟨fun e => hc e.symm, this.2⟩

def Digits (s : Text) : Prop := s ≠ [] ∧ (∀ c ∈ s, isDigit c = true) ∧ s.length ≤ maxCoordDigits

/-- **Only an exact `N,M`** (1–18 ASCII digits each) takes the image-map branch. -/
theorem imageMap_iff (s a b : Text) :
    imageMap? s = some (a, b) ↔ s = a ++ ',' :: b ∧ Digits a ∧ Digits b := by
  unfold imageMap?
  constructor
  · intro h
    cases hp : partition1 ',' s with
    | mk a' ob =>
      rw [hp] at h
      cases ob with
      | none => simp at h
      | some b' =>
        simp only at h
        split at h
        · rename_i hc
          simp only [Option.some.injEq, Prod.mk.injEq] at h
          obtain ⟨rfl, rfl⟩ := h
          have := partition1_some ',' s a' b' hp
          refine ⟨this.1, ⟨?_, ?_, hc.2.2.1⟩, ⟨?_, ?_, hc.2.2.2.2.2⟩⟩
          · intro e; simp [e] at hc
          · simpa using hc.2.1
          · intro e; simp [e] at hc
          · simpa using hc.2.2.2.2.1
        · simp at h
  · rintro ⟨rfl, ha, hb⟩
    have hnot : ',' ∉ a := by
      intro hm
      have := ha.2.1 ',' hm
      simp [isDigit] at this
    rw [partition1_append_sep ',' a b hnot]
    have h1 : a.isEmpty = false := by
      cases a with
      | nil => exact absurd rfl ha.1
      | cons _ _ => rfl
    have h2 : b.isEmpty = false := by
      cases b with
      | nil => exact absurd rfl hb.1
      | cons _ _ => rfl
    have h3 : a.all isDigit = true := by simpa using ha.2.1
    have h4 : b.all isDigit = true := by simpa using hb.2.1
    simp [h1, h2, h3, h4, ha.2.2, hb.2.2]

/-- A query string consisting solely of `N,M` is read as coordinates `x`, `y` (ints), by design. -/
theorem C03_imagemap (dec : Bytes → Option Text) (a b : Text) (ha : Digits a) (hb : Digits b) :
    parseQueryString dec (a ++ ',' :: b) =
      some [(['x'], .one (.int (decNat a))), (['y'], .one (.int (decNat b)))] := by
  unfold parseQueryString
  rw [(imageMap_iff _ a b).2 ⟨rfl, ha, hb⟩]

/-- Anything else — in particular `1,2x` or `1,2=v`, which a prefix match would accept — is parsed
    as ordinary parameters. -/
theorem C03_imagemap_only_exact (dec : Bytes → Option Text) (s : Text)
    (h : ¬ ∃ a b, s = a ++ ',' :: b ∧ Digits a ∧ Digits b) :
    parseQueryString dec s = parseQsPairs dec (pairStrings s) [] := by
  unfold parseQueryString
  cases hm : imageMap? s with
  | none => rfl
  | some ab =>
    obtain ⟨a, b⟩ := ab
    exact absurd ⟨a, b, (imageMap_iff s a b).1 hm⟩ h

theorem decNat_snoc (s : Text) (c : Char) : decNat (s ++ [c]) = decNat s * 10 + (c.toNat - '0'.toNat) := by
  simp [decNat, List.foldl_append]

example : imageMap? "1,2x".toList = none ∧ imageMap? "1,2=v".toList = none ∧
    imageMap? "12,345".toList = some ("12".toList, "345".toList) ∧ decNat "345".toList = 345 := by decide

theorem not_imageMap_of_mem (s : Text) (c : Char) (hc : c ∈ s) (hd : isDigit c = false) (hcomma : c ≠ ',') :
    imageMap? s = none := by
  cases hm : imageMap? s with
  | none => rfl
  | some ab =>
    obtain ⟨a, b⟩ := ab
    obtain ⟨rfl, ha, hb⟩ := (imageMap_iff s a b).1 hm
    simp only [List.mem_append, List.mem_cons] at hc
    rcases hc with h | h | h
    · rw [ha.2.1 c h] at hd; cases hd
    · exact absurd h hcomma
    · rw [hb.2.1 c h] at hd; cases hd

/-! ## C03: the query string -/

/-- **C03_qs_roundtrip.** For every list of segments (every multimap, every admissible style, every
    separator mix, blanks with or without `=`) whose wire form is not exactly `N,M`:
    `parse_query_string` succeeds and every key carries exactly the values sent for it, in wire
    order — a scalar for one value, a list for several, blanks kept, nothing else present. -/
theorem C03_qs_roundtrip (C : AsciiCodec) (first : QSeg) (rest : List (Bool × QSeg))
    (hok : ∀ s ∈ first :: rest.map (·.2), s.Ok C)
    (hnot : imageMap? (queryWire C.toCodec first rest) = none) :
    parseQueryString C.dec (queryWire C.toCodec first rest)
        = some (addAll [] (qPairs (first :: rest.map (·.2)))) ∧
    ∀ key, lookup (addAll [] (qPairs (first :: rest.map (·.2)))) key
        = shape (valuesOf key (qPairs (first :: rest.map (·.2)))) := by
  constructor
  · unfold parseQueryString
    rw [hnot]
    simp only
    rw [pairStrings_queryWire C first rest hok, parseQsPairs_segs C _ hok]
  · intro key
    have := lookup_addAll [] WS_nil (qPairs (first :: rest.map (·.2))) key
    simpa [lookup, atomsOpt] using this

/-- The image-map exclusion is not needed as soon as one `=` is written (or any character that is
    neither a digit nor a comma occurs). -/
theorem not_imageMap_of_withEq (C : AsciiCodec) (first : QSeg) (rest : List (Bool × QSeg))
    (h : ∃ ks vs, QSeg.pair ks vs true ∈ first :: rest.map (·.2)) :
    imageMap? (queryWire C.toCodec first rest) = none := by
  apply not_imageMap_of_mem _ '=' _ (by decide) (by decide)
  obtain ⟨ks, vs, hm⟩ := h
  simp only [queryWire, joinSegs, List.mem_append, List.mem_flatMap, List.mem_map]
  simp only [List.mem_cons, List.mem_map] at hm
  rcases hm with rfl | ⟨p, hp, hpe⟩
  · left; simp [QSeg.enc]
  · right
    refine ⟨(p.1, p.2.enc C.toCodec), ⟨p, hp, rfl⟩, ?_⟩
    rw [List.mem_cons]
    right
    show '=' ∈ p.2.enc C.toCodec
    rw [hpe]
    simp [QSeg.enc]

/-- non-vacuity: `a=%C3%a9+x;b` (mixed hex case, `+`, `;`, blank without `=`) in UTF-8. -/
example :
    let first := QSeg.pair [('a', .lit)] [('é', .pct fun i => i == 0), (' ', .plus), ('x', .lit)] true
    let rest := [(false, QSeg.pair [('b', .lit)] [] false)]
    (∀ s ∈ first :: rest.map (·.2), s.Ok utf8Ascii) ∧
    queryWire utf8Codec first rest = "a=%C3%a9+x;b".toList := by
  refine ⟨?_, by decide⟩
  intro s hs
  simp only [List.map_cons, List.map_nil, List.mem_cons, List.not_mem_nil, or_false] at hs
  rcases hs with rfl | rfl <;>
    simp [QSeg.Ok, CStyleOk, utf8Ascii, utf8Codec]

/-- **Query all-or-nothing**: `_parse_qs` fails (→ 404) exactly when some key or value of some
    non-empty piece does not decode; otherwise every piece was decoded. -/
theorem parseQsPairs_eq_none (dec : Bytes → Option Text) (l : List Text) (d : Params) :
    parseQsPairs dec l d = none ↔
      ∃ nv ∈ l, nv ≠ [] ∧ (unquotePlusText dec (partition1 '=' nv).1 = none ∨
                          unquotePlusText dec ((partition1 '=' nv).2.getD []) = none) := by
  induction l generalizing d with
  | nil => simp [parseQsPairs]
  | cons nv rest ih =>
    simp only [parseQsPairs, List.mem_cons, exists_eq_or_imp]
    by_cases he : nv = []
    · subst he
      simp [ih]
    · have : nv.isEmpty = false := by
        cases nv with
        | nil => exact absurd rfl he
        | cons _ _ => rfl
      simp only [this, Bool.false_eq_true, if_false, ne_eq, he, not_false_eq_true, true_and]
      cases hn : unquotePlusText dec (partition1 '=' nv).1 with
      | none => simp
      | some name =>
        cases hv : unquotePlusText dec ((partition1 '=' nv).2.getD []) with
        | none => simp
        | some value => simp [ih]

/-! ## C03: the form body -/

/-- Decode already-unquoted key/value bytes with one charset. -/
def decodePlain (dec : Bytes → Option Text) : List (Bytes × Bytes) → Option (List (Text × Text))
  | [] => some []
  | (k, v) :: rest =>
    match dec k, dec v, decodePlain dec rest with
    | some key, some value, some more => some ((key, value) :: more)
    | _, _, _ => none

theorem decodeAll_wirePairs (dec : Bytes → Option Text) (segs : List BSeg) (hok : ∀ s ∈ segs, s.Ok) :
    decodeAll dec (segs.filterMap BSeg.wirePair) = decodePlain dec (segs.filterMap BSeg.plain) := by
  induction segs with
  | nil => rfl
  | cons s segs ih =>
    have hs := hok s (by simp)
    have ih := ih (fun t ht => hok t (by simp [ht]))
    cases s with
    | empty => exact ih
    | pair ks vs withEq =>
      have e1 : (BSeg.pair ks vs withEq :: segs).filterMap BSeg.wirePair
          = (encBytes ks, encBytes vs) :: segs.filterMap BSeg.wirePair := rfl
      have e2 : (BSeg.pair ks vs withEq :: segs).filterMap BSeg.plain
          = (plainBytes ks, plainBytes vs) :: segs.filterMap BSeg.plain := rfl
      rw [e1, e2]
      simp only [decodeAll, decodePlain, body_unquote_styled ks hs.1, body_unquote_styled vs hs.2.1, ih]
      cases dec (plainBytes ks) <;> cases dec (plainBytes vs) <;>
        cases decodePlain dec (segs.filterMap BSeg.plain) <;> rfl

theorem decodePlain_enc (C : Codec) (pairs : List (Text × Text))
    (hdom : ∀ kv ∈ pairs, (∀ c ∈ kv.1, C.ok c) ∧ (∀ c ∈ kv.2, C.ok c)) :
    decodePlain C.dec (pairs.map fun kv => (C.enc kv.1, C.enc kv.2)) = some pairs := by
  induction pairs with
  | nil => rfl
  | cons kv pairs ih =>
    have h := hdom kv (by simp)
    have ih := ih (fun p hp => hdom p (by simp [hp]))
    simp only [List.map_cons, decodePlain, C.rt _ h.1, C.rt _ h.2, ih]

theorem findSome?_append_of_none {α β : Type} (f : α → Option β) (pre : List α) (rest : List α)
    (h : ∀ x ∈ pre, f x = none) : (pre ++ rest).findSome? f = rest.findSome? f := by
  induction pre with
  | nil => rfl
  | cons x pre ih =>
    simp only [List.cons_append, List.findSome?_cons, h x (by simp)]
    exact ih (fun y hy => h y (by simp [hy]))

/-- **C03_body_roundtrip.** For every codec with a round-trip law, every list of pairs the codec
    can represent, every admissible byte-level style and separator mix: when the charset is the
    first of `attempt_charsets` that decodes the whole body (in particular when it is declared, i.e.
    first), `process_urlencoded` yields exactly the values sent per key, in wire order. -/
theorem C03_body_roundtrip (C : Codec) (first : BSeg) (rest : List (Bool × BSeg))
    (pairs : List (Text × Text))
    (hok : ∀ s ∈ first :: rest.map (·.2), s.Ok)
    (hplain : (first :: rest.map (·.2)).filterMap BSeg.plain = pairs.map fun kv => (C.enc kv.1, C.enc kv.2))
    (hdom : ∀ kv ∈ pairs, (∀ c ∈ kv.1, C.ok c) ∧ (∀ c ∈ kv.2, C.ok c))
    (pre post : List (Bytes → Option Text))
    (hpre : ∀ d ∈ pre, decodeAll d (rawPairs (bodyWire first rest)) = none) :
    processUrlencoded (pre ++ C.dec :: post) (bodyWire first rest) = some (addAll [] pairs) ∧
    ∀ key, lookup (addAll [] pairs) key = shape (valuesOf key pairs) := by
  constructor
  · rw [processUrlencoded_eq, findSome?_append_of_none _ _ _ hpre, List.findSome?_cons,
      rawPairs_bodyWire first rest hok, decodeAll_wirePairs _ _ hok, hplain, decodePlain_enc C pairs hdom]
    rfl
  · intro key
    have := lookup_addAll [] WS_nil pairs key
    simpa [lookup, atomsOpt] using this

/-- non-vacuity: body `k=%e9+` declared Latin-1 (earlier attempt: none), and the same with an ASCII
    attempt in front that fails on the byte 0xE9. -/
example :
    let first := BSeg.pair [(0x6B, .lit)] [(0xE9, .pct false false), (0x20, .plus)] true
    (∀ s ∈ first :: ([] : List (Bool × BSeg)).map (·.2), s.Ok) ∧
    bodyWire first [] = "k=%e9+".toList.map charByte ∧
    [first].filterMap BSeg.plain = [("k".toList, "é ".toList)].map (fun kv => (latin1Codec.enc kv.1, latin1Codec.enc kv.2)) ∧
    decodeAll (decode .ascii) (rawPairs (bodyWire first [])) = none := by
  refine ⟨?_, by decide, by decide, by decide⟩
  intro s hs
  simp only [List.map_nil, List.mem_cons, List.not_mem_nil, or_false] at hs
  subst hs
  simp [BSeg.Ok, BStyleOk]

/-- **C03_all_or_nothing (refusal).** `process_urlencoded` refuses (400) exactly when *every*
    attempted charset fails on at least one key or value. -/
theorem C03_all_or_nothing_refused (decs : List (Bytes → Option Text)) (body : Bytes) :
    processUrlencoded decs body = none ↔
      ∀ dec ∈ decs, ∃ kv ∈ rawPairs body,
        dec (unquotePlusBytes kv.1) = none ∨ dec (unquotePlusBytes kv.2) = none := by
  rw [processUrlencoded_eq]
  simp only [Option.map_eq_none_iff, List.findSome?_eq_none_iff, decodeAll_eq_none]

/-- **C03_all_or_nothing (acceptance).** When it accepts, one single charset — the first whose
    attempt succeeds — decoded every key and every value; no parameter set mixes charsets or is
    partially decoded. -/
theorem C03_all_or_nothing_accepted (decs : List (Bytes → Option Text)) (body : Bytes) (p : Params)
    (h : processUrlencoded decs body = some p) :
    ∃ pre dec post ps, decs = pre ++ dec :: post ∧
      (∀ d ∈ pre, decodeAll d (rawPairs body) = none) ∧
      Decoded dec (rawPairs body) ps ∧ p = addAll [] ps := by
  induction decs with
  | nil => simp [processUrlencoded] at h
  | cons dec more ih =>
    simp only [processUrlencoded, decodePairs_eq] at h
    cases hd : decodeAll dec (rawPairs body) with
    | some ps =>
      rw [hd] at h
      simp only [Option.map_some, Option.some.injEq] at h
      exact ⟨[], dec, more, ps, rfl, by simp, decodeAll_eq_some _ _ _ hd, h.symm⟩
    | none =>
      rw [hd] at h
      simp only [Option.map_none] at h
      obtain ⟨pre, dec', post, ps, e, hpre, hdec, hp⟩ := ih h
      refine ⟨dec :: pre, dec', post, ps, by simp [e], ?_, hdec, hp⟩
      intro d hdm
      simp only [List.mem_cons] at hdm
      rcases hdm with rfl | hdm
      · exact hd
      · exact hpre d hdm

/-! ## C03: merge, and the whole request -/

/-- **C03_merge.** Query parameters `qp` and body parameters `bp` (both as the parse loops build
    them) are merged flat: per key the query-string values, then the body values, each group in wire
    order; one value overall stays a scalar.  (`['1', ['2', '3']]`, finding F3, cannot occur.) -/
theorem C03_merge (qp bp : List (Text × Text)) (key : Text) :
    lookup (mergeBody (addAll [] qp) (addAll [] bp)) key = shape (valuesOf key (qp ++ bp)) := by
  rw [lookup_mergeBody _ _ (WS_addAll [] WS_nil qp) (WS_addAll [] WS_nil bp)
    (nodup_keys_addAll [] (by simp [keys]) bp),
    lookup_addAll [] WS_nil, lookup_addAll [] WS_nil, valuesOf_append]
  simp only [lookup, atomsOpt_none, List.nil_append, atomsOpt_shape]

example : mergeBody (addAll [] [("a".toList, "1".toList)]) (addAll [] [("a".toList, "2".toList), ("a".toList, "3".toList)])
    = [("a".toList, .many [.str "1".toList, .str "2".toList, .str "3".toList])] := by decide

/-- The merge keeps image-map coordinates in front of body values of the same name. -/
theorem C03_merge_imagemap (x y : Nat) (bp : List (Text × Text)) (key : Text) :
    lookup (mergeBody [(['x'], .one (.int x)), (['y'], .one (.int y))] (addAll [] bp)) key =
      shape ((if key = ['x'] then [Atom.int x] else if key = ['y'] then [Atom.int y] else []) ++ valuesOf key bp) := by
  have hws : WS [(['x'], .one (.int x)), (['y'], .one (.int y))] := by
    intro k v h
    simp only [lookup] at h
    split at h
    · cases h; rfl
    · split at h
      · cases h; rfl
      · cases h
  rw [lookup_mergeBody _ _ hws (WS_addAll [] WS_nil bp) (nodup_keys_addAll [] (by simp [keys]) bp),
    lookup_addAll [] WS_nil]
  have e0 : lookup ([] : Params) key = none := rfl
  rw [e0]
  simp only [atomsOpt_none, List.nil_append, atomsOpt_shape]
  congr 2
  by_cases h1 : key = ['x']
  · subst h1; rfl
  · have h1' : ¬ ['x'] = key := fun e => h1 e.symm
    by_cases h2 : key = ['y']
    · subst h2; rfl
    · have h2' : ¬ ['y'] = key := fun e => h2 e.symm
      simp [lookup, h1, h2, h1', h2', atomsOpt_none]

/-- **The handler sees a parameter set only as a whole.**  Whatever the request: the response is
    404 exactly when the query string does not decode, 400 exactly when the query string decodes
    and no attempted charset decodes the whole body, and in every other case the handler is called
    with the complete query parameters merged with the completely decoded body parameters.  No
    other status arises from parameter decoding. -/
theorem C03_handle_cases (r : Req) :
    (parseQueryString (decode r.qsEnc) (recodeQS r.qs) = none ∧ handle r = .status 404) ∨
    (∃ qp, parseQueryString (decode r.qsEnc) (recodeQS r.qs) = some qp ∧
      ((r.body = none ∧ handle r = .handler qp) ∨
       (∃ att bytes, r.body = some (att, bytes) ∧
          ((processUrlencoded (att.map decode) bytes = none ∧ handle r = .status 400) ∨
           (∃ bp, processUrlencoded (att.map decode) bytes = some bp ∧
              handle r = .handler (mergeBody qp bp)))))) := by
  unfold handle
  cases hq : parseQueryString (decode r.qsEnc) (recodeQS r.qs) with
  | none => left; exact ⟨rfl, rfl⟩
  | some qp =>
    right
    refine ⟨qp, rfl, ?_⟩
    cases hb : r.body with
    | none => left; exact ⟨rfl, rfl⟩
    | some ab =>
      obtain ⟨att, bytes⟩ := ab
      right
      refine ⟨att, bytes, rfl, ?_⟩
      cases hp : processUrlencoded (att.map decode) bytes with
      | none => left; exact ⟨rfl, by simp [hp]⟩
      | some bp => right; exact ⟨bp, rfl, by simp [hp]⟩

/-- Parameter decoding refuses only with 404 (query string) or 400 (body) — never a 500 — and a
    refusal means the handler was not called at all (`Outcome` has no third case). -/
theorem C03_status_only_404_400 (r : Req) (c : Nat) (h : handle r = .status c) : c = 404 ∨ c = 400 := by
  rcases C03_handle_cases r with ⟨_, h1⟩ | ⟨qp, _, ⟨_, h1⟩ | ⟨att, bytes, _, ⟨_, h1⟩ | ⟨bp, _, h1⟩⟩⟩
  · rw [h1] at h; cases h; exact Or.inl rfl
  · rw [h1] at h; cases h
  · rw [h1] at h; cases h; exact Or.inr rfl
  · rw [h1] at h; cases h

/-- **C03_request_roundtrip.** The whole path: a client writes query pairs in charset `qe`
    (`request.query_string_encoding`, ASCII-compatible, raw non-ASCII characters as UTF-8) and body
    pairs in charset `cb`, the first attempted body charset; any styles, separators and split.
    Then the handler is called, and for every key it receives exactly the query-string values
    followed by the body values, in wire order — scalar for one, list for several. -/
theorem C03_request_roundtrip (Cq : AsciiCodec) (Cb : Codec) (qe cb : Charset) (more : List Charset)
    (hqe : decode qe = Cq.dec) (hcb : decode cb = Cb.dec)
    (qfirst : QSeg) (qrest : List (Bool × QSeg))
    (bfirst : BSeg) (brest : List (Bool × BSeg)) (bpairs : List (Text × Text))
    (hqok : ∀ s ∈ qfirst :: qrest.map (·.2), s.Ok Cq)
    (hnot : imageMap? (queryWire Cq.toCodec qfirst qrest) = none)
    (hbok : ∀ s ∈ bfirst :: brest.map (·.2), s.Ok)
    (hplain : (bfirst :: brest.map (·.2)).filterMap BSeg.plain = bpairs.map fun kv => (Cb.enc kv.1, Cb.enc kv.2))
    (hdom : ∀ kv ∈ bpairs, (∀ c ∈ kv.1, Cb.ok c) ∧ (∀ c ∈ kv.2, Cb.ok c)) :
    ∃ kw, handle { qs := utf8Enc (queryWire Cq.toCodec qfirst qrest), qsEnc := qe,
                   body := some (cb :: more, bodyWire bfirst brest) } = .handler kw ∧
      ∀ key, lookup kw key = shape (valuesOf key (qPairs (qfirst :: qrest.map (·.2)) ++ bpairs)) := by
  have hq := (C03_qs_roundtrip Cq qfirst qrest hqok hnot).1
  have hb := (C03_body_roundtrip Cb bfirst brest bpairs hbok hplain hdom [] (more.map decode) (by simp)).1
  refine ⟨mergeBody (addAll [] (qPairs (qfirst :: qrest.map (·.2)))) (addAll [] bpairs), ?_, ?_⟩
  · unfold handle
    simp only [recodeQS_utf8, hqe, hq, List.map_cons, hcb]
    simp only [List.nil_append] at hb
    rw [hb]
  · intro key
    exact C03_merge _ _ key

/-- The same without a body (GET): the handler receives exactly the query parameters. -/
theorem C03_request_roundtrip_query_only (Cq : AsciiCodec) (qe : Charset) (hqe : decode qe = Cq.dec)
    (qfirst : QSeg) (qrest : List (Bool × QSeg))
    (hqok : ∀ s ∈ qfirst :: qrest.map (·.2), s.Ok Cq)
    (hnot : imageMap? (queryWire Cq.toCodec qfirst qrest) = none) :
    ∃ kw, handle { qs := utf8Enc (queryWire Cq.toCodec qfirst qrest), qsEnc := qe, body := none }
        = .handler kw ∧
      ∀ key, lookup kw key = shape (valuesOf key (qPairs (qfirst :: qrest.map (·.2)))) := by
  have hq := C03_qs_roundtrip Cq qfirst qrest hqok hnot
  refine ⟨_, ?_, hq.2⟩
  unfold handle
  simp only [recodeQS_utf8, hqe, hq.1]


/-! ## every accepted request, well-formed or not -/

/-- Decode every non-empty piece of a query string, or fail as a whole. -/
def decodeQ (dec : Bytes → Option Text) : List Text → Option (List (Text × Text))
  | [] => some []
  | nv :: rest =>
    if nv.isEmpty then decodeQ dec rest
    else
      match unquotePlusText dec (partition1 '=' nv).1,
            unquotePlusText dec ((partition1 '=' nv).2.getD []), decodeQ dec rest with
      | some n, some v, some more => some ((n, v) :: more)
      | _, _, _ => none

theorem parseQsPairs_eq (dec : Bytes → Option Text) (l : List Text) (d : Params) :
    parseQsPairs dec l d = (decodeQ dec l).map (addAll d) := by
  induction l generalizing d with
  | nil => simp [parseQsPairs, decodeQ, addAll]
  | cons nv rest ih =>
    simp only [parseQsPairs, decodeQ]
    by_cases he : nv.isEmpty = true
    · simp only [he, if_true, ih]
    · simp only [he, Bool.false_eq_true, if_false]
      cases hp : partition1 '=' nv with
      | mk n v? =>
        simp only
        cases hn : unquotePlusText dec n with
        | none => simp
        | some name =>
          cases hv : unquotePlusText dec (v?.getD []) with
          | none => simp
          | some value =>
            simp only [ih]
            cases decodeQ dec rest with
            | none => simp
            | some more => simp [addAll]

theorem nodup_keys_mergeOne (rp : Params) (k : Text) (v : Val) (h : (keys rp).Nodup) :
    (keys (mergeOne rp k v)).Nodup := by
  unfold mergeOne
  split <;> exact nodup_keys_assign _ _ _ h

theorem nodup_keys_mergeBody (rp body : Params) (h : (keys rp).Nodup) : (keys (mergeBody rp body)).Nodup := by
  induction body generalizing rp with
  | nil => exact h
  | cons e rest ih => exact ih _ (nodup_keys_mergeOne rp _ _ h)

/-- **Every request whose handler is called** (well-formed escapes or not, any bytes, any charsets):
    unless the query is an image map, there are a list `qp` — the complete in-order decoding of the
    non-empty query pieces — and a list `bp` — the complete in-order decoding of the body pairs under
    one single attempted charset (empty without a body) — such that the keyword arguments are a proper
    dict in which every key carries exactly `valuesOf key (qp ++ bp)`: query values, then body
    values, wire order, scalar for one, flat list for several, nothing else. -/
theorem C03_handler_sees_exactly (r : Req) (kw : Params) (h : handle r = .handler kw)
    (hnot : imageMap? (recodeQS r.qs) = none) :
    ∃ qp bp,
      decodeQ (decode r.qsEnc) (pairStrings (recodeQS r.qs)) = some qp ∧
      ((r.body = none ∧ bp = []) ∨
       (∃ att bytes dec, r.body = some (att, bytes) ∧ dec ∈ att.map decode ∧ Decoded dec (rawPairs bytes) bp)) ∧
      (keys kw).Nodup ∧
      ∀ key, lookup kw key = shape (valuesOf key (qp ++ bp)) := by
  have hq0 : parseQueryString (decode r.qsEnc) (recodeQS r.qs)
      = (decodeQ (decode r.qsEnc) (pairStrings (recodeQS r.qs))).map (addAll []) := by
    unfold parseQueryString
    rw [hnot]
    exact parseQsPairs_eq _ _ _
  rcases C03_handle_cases r with ⟨_, h1⟩ | ⟨qparams, hq, ⟨hb, h1⟩ | ⟨att, bytes, hb, ⟨_, h1⟩ | ⟨bparams, hp, h1⟩⟩⟩
  · rw [h1] at h; cases h
  · rw [h1] at h
    cases h
    rw [hq0] at hq
    cases hd : decodeQ (decode r.qsEnc) (pairStrings (recodeQS r.qs)) with
    | none => rw [hd] at hq; cases hq
    | some qp =>
      rw [hd] at hq
      simp only [Option.map_some, Option.some.injEq] at hq
      subst hq
      refine ⟨qp, [], rfl, Or.inl ⟨hb, rfl⟩, nodup_keys_addAll [] (by simp [keys]) qp, ?_⟩
      intro key
      have := lookup_addAll [] WS_nil qp key
      simpa [lookup, atomsOpt] using this
  · rw [h1] at h; cases h
  · rw [h1] at h
    cases h
    rw [hq0] at hq
    cases hd : decodeQ (decode r.qsEnc) (pairStrings (recodeQS r.qs)) with
    | none => rw [hd] at hq; cases hq
    | some qp =>
      rw [hd] at hq
      simp only [Option.map_some, Option.some.injEq] at hq
      subst hq
      obtain ⟨pre, dec, post, bp, hatt, _, hdec, hbp⟩ := C03_all_or_nothing_accepted _ _ _ hp
      subst hbp
      refine ⟨qp, bp, rfl, Or.inr ⟨att, bytes, dec, hb, by rw [hatt]; simp, hdec⟩,
        nodup_keys_mergeBody _ _ (nodup_keys_addAll [] (by simp [keys]) qp), ?_⟩
      intro key
      exact C03_merge qp bp key

/-- `decode` instances the two theorems above apply to. -/
example : decode .utf8 = utf8Ascii.dec ∧ decode .latin1 = latin1Ascii.dec ∧ decode .ascii = asciiAscii.dec ∧
    decode .utf8 = utf8Codec.dec ∧ decode .latin1 = latin1Codec.dec ∧
    decode .utf16 = utf16Codec.dec ∧ decode .utf16le = utf16leCodec.dec := ⟨rfl, rfl, rfl, rfl, rfl, rfl, rfl⟩

/-- `attempt_charsets`: a declared charset is tried first, UTF-8 remains as the fallback. -/
theorem attemptCharsets_declared (d : Charset) :
    (attemptCharsets (some d) none).head? = some d ∧ Charset.utf8 ∈ attemptCharsets (some d) none := by
  cases d <;> simp [attemptCharsets]

end CpProofs.C03
