import CpProofs.C03Lemmas
/-!
  C03 — query-string and form parameters reach the handler exactly as sent.
-/
namespace CpProofs.C03
open CpModel.UrlEnc

end CpProofs.C03
