import CpModel.UrlEnc
/-!
  C03 — query-string and form parameters reach the handler exactly as sent.
  (first step: dictionary lemmas; the round-trip theorems follow)
-/
namespace CpProofs.C03
open CpModel.UrlEnc

theorem lookup_assign (d : Params) (k k' : Text) (v : Val) :
    lookup (assign d k v) k' = if k = k' then some v else lookup d k' := by
  induction d with
  | nil => simp [assign, lookup]
  | cons e rest ih =>
    obtain ⟨k0, v0⟩ := e
    simp only [assign]
    by_cases h : k0 = k
    · subst h
      simp only [if_true, lookup]
      split <;> simp_all
    · simp only [h, if_false, lookup, ih]
      by_cases h2 : k0 = k'
      · subst h2
        have : ¬ k = k0 := fun e => h e.symm
        simp [this]
      · simp [h2]

end CpProofs.C03
