import CpModel.WsgiBoundary
/-!
  C01 — theorems over the WSGI-boundary model (`CpModel/WsgiBoundary.lean`): every plan (any body shape,
  any item sequence, any misbehaviour of the iterator's `__next__` / `close()` / `finally`, any tampering with
  status / header types, any number of `next` and `close()` calls by the server), no size bound.
-/
namespace CpProofs.C01Boundary
open CpModel.Hooks CpModel.WsgiBoundary CpModel.Gen.C01 CpModel.Gen.Pipeline

/-! ### the iterator protocol: `next` never touches the `close()` counter or the kind -/

/-- what `next` leaves alone -/
def Keeps (s s' : It) : Prop := s'.closeCalls = s.closeCalls ∧ s'.kind = s.kind

theorem closeInput_keeps (fc : CloseK) (s : It) : Keeps s (closeInput fc s).2 := by
  cases fc <;> exact ⟨rfl, rfl⟩

theorem nextList_keeps (s : It) : Keeps s (nextList s).2 := by
  unfold nextList; split <;> exact ⟨rfl, rfl⟩

theorem nextGen_keeps (fin : Bool) (s : It) : Keeps s (nextGen fin s).2 := by
  unfold nextGen
  split
  · exact ⟨rfl, rfl⟩
  · split <;> exact ⟨rfl, rfl⟩

theorem nextObj_keeps (s : It) : Keeps s (nextObj s).2 := by
  unfold nextObj
  split
  · split <;> exact ⟨rfl, rfl⟩
  · exact ⟨rfl, rfl⟩
  · exact ⟨rfl, rfl⟩

theorem nextFile_keeps (fc : CloseK) (s : It) : Keeps s (nextFile fc s).2 := by
  unfold nextFile
  split
  · split
    · exact ⟨rfl, rfl⟩
    · exact closeInput_keeps _ _
  · exact ⟨rfl, rfl⟩
  · exact closeInput_keeps fc { s with rest := _ }
  · exact ⟨rfl, rfl⟩

theorem next_keeps (s : It) : Keeps s s.next.2 := by
  unfold It.next
  split
  · exact nextList_keeps s
  · exact nextGen_keeps _ s
  · exact nextObj_keeps s.bump
  · exact nextFile_keeps _ s.bump

theorem drain_keeps : ∀ (n : Nat) (s : It) (acc : List Item), Keeps s (drain n s acc).2.2 := by
  intro n
  induction n with
  | zero => intro s acc; exact ⟨rfl, rfl⟩
  | succ n ih =>
    intro s acc
    unfold drain
    have hk := next_keeps s
    split
    · rename_i i s' heq
      have h1 : s' = s.next.2 := by rw [heq]
      have := ih s' (i :: acc)
      subst h1
      exact ⟨this.1.trans hk.1, this.2.trans hk.2⟩
    · rename_i s' heq
      have h1 : s' = s.next.2 := by rw [heq]
      subst h1; exact hk
    · rename_i s' heq
      have h1 : s' = s.next.2 := by rw [heq]
      subst h1; exact hk

/-! ### the request phase -/

theorem bodySet_iter_close0 (b : BodySpec) (bd : Body) (i : It) (h : bodySet b = some bd)
    (hi : bd.iter = some i) : i.closeCalls = 0 := by
  unfold bodySet at h
  split at h
  · cases h
  · split at h <;> (injection h with h; subst h; simp [Body.iter] at hi; try (subst hi; rfl))

theorem drainAll_close (i : It) : (drainAll i).2.2.ctr.close = i.closeCalls :=
  (drain_keeps _ i []).1

theorem valid_bounds (c : Nat) (h : inRanges validStatusRanges c = true) : 100 ≤ c ∧ c ≤ 599 := by
  simp [inRanges, validStatusRanges] at h
  omega

/-- facts about what `Request.run` leaves behind -/
structure ReqOk (r : Req) : Prop where
  code : 100 ≤ r.code ∧ r.code ≤ 599
  ctr : r.ctr.close = 0
  ent : ∀ b i, r.ent = .page b → b.iter = some i → i.closeCalls = 0

theorem errorResp_ok (c : Ctr) (h : c.close = 0) : ReqOk (errorResp c) :=
  ⟨by simp [errorResp], h, by intro b i hb; simp [errorResp] at hb⟩

theorem requestCore_ok (p : Plan) : ReqOk (requestCore p) := by
  unfold requestCore
  split
  · exact errorResp_ok {} rfl
  · rename_i b hb
    simp only
    split
    · exact ⟨by simp, rfl, by intro b i h; simp at h⟩
    · rename_i hv
      have hv' : inRanges validStatusRanges (statusCode p.status) = true := by simpa using hv
      have hc := valid_bounds _ hv'
      split
      · split
        · exact errorResp_ok {} rfl
        · rename_i i hi
          have h0 := bodySet_iter_close0 _ _ _ hb hi
          have hd := drainAll_close i
          split
          · exact errorResp_ok _ (by rw [hd, h0])
          · refine ⟨hc, by simp only; rw [hd, h0], ?_⟩
            intro b' i' h hi'
            simp at h; subst h
            simp [Body.iter] at hi'; subst hi'; rfl
      · split
        · refine ⟨hc, rfl, ?_⟩
          intro b' i h hi
          simp at h; subst h
          exact bodySet_iter_close0 _ _ _ hb hi
        · split
          · refine ⟨hc, rfl, ?_⟩
            intro b' i h hi
            simp at h; subst h
            exact bodySet_iter_close0 _ _ _ hb hi
          · split
            · exact errorResp_ok {} rfl
            · rename_i i hi
              have h0 := bodySet_iter_close0 _ _ _ hb hi
              have hd := drainAll_close i
              split
              · exact errorResp_ok _ (by rw [hd, h0])
              · refine ⟨hc, by simp only; rw [hd, h0], ?_⟩
                intro b' i' h hi'
                simp at h; subst h
                simp [Body.iter] at hi'; subst hi'; rfl

theorem request_ok (p : Plan) : ReqOk (request p) := by
  have h := requestCore_ok p
  unfold request
  simp only
  split
  · refine ⟨h.code, h.ctr, ?_⟩
    intro b i hb hi
    simp at hb; subst hb
    simp [Body.iter] at hi; subst hi; rfl
  · exact h

/-! ### the server phase: invariants of `next` / `close()` -/

/-- `close()` calls the probe iterator behind `AppResponse.iter_response` has seen -/
def itClose (s : Srv) : Nat :=
  match s.it with
  | some i => i.closeCalls
  | none => 0

structure Inv (s : Srv) : Prop where
  esc : s.escaped = false
  ctr : s.ctr.close = 0
  live : s.live = true → itClose s = 0 ∧ s.released = 0 ∧ s.closeLogged = 0
  closeLe : itClose s ≤ 1
  logLe : s.closeLogged ≤ 1
  dead : s.live = false → s.released = 1
  itNone : s.it = none → s.live = false

theorem appCall_inv (p : Plan) : Inv (appCall p) := by
  have hr := request_ok p
  unfold appCall
  simp only
  split
  · rename_i i _ hbody
    refine ⟨rfl, hr.ctr, ?_, ?_, by simp, by simp, by simp⟩
    · intro _
      refine ⟨?_, rfl, rfl⟩
      simp only [itClose]
      split at hbody
      · injection hbody with h; subst h; rfl
      · rename_i b hb; exact hr.ent b i hb hbody
    · simp only [itClose]
      split at hbody
      · injection hbody with h; subst h; simp
      · rename_i b hb; rw [hr.ent b i hb hbody]; omega
  · exact ⟨rfl, hr.ctr, by simp, by simp [itClose], by simp, by simp, by simp⟩

theorem srvNext_inv (chk : Bool) (s : Srv) (h : Inv s) : Inv (srvNext chk s).1 := by
  unfold srvNext
  split
  · exact ⟨h.esc, h.ctr, h.live, h.closeLe, h.logLe, h.dead, h.itNone⟩
  · exact h
  · split
    · exact ⟨h.esc, h.ctr, h.live, h.closeLe, h.logLe, h.dead, h.itNone⟩
    · split
      · exact h
      · rename_i i hi
        have hk := (next_keeps i).1
        have hc : itClose s = i.closeCalls := by simp [itClose, hi]
        have mk : ∀ s' : Srv, s'.it = some i.next.2 → s'.escaped = s.escaped → s'.ctr = s.ctr → s'.live = s.live →
            s'.released = s.released → s'.closeLogged = s.closeLogged → Inv s' := by
          intro s' h1 h2 h3 h4 h5 h6
          have hc' : itClose s' = itClose s := by simp [itClose, h1, hi, hk]
          exact ⟨h2 ▸ h.esc, h3 ▸ h.ctr, by rw [h4, hc', h5, h6]; exact h.live, hc' ▸ h.closeLe, h6 ▸ h.logLe,
                 by rw [h4, h5]; exact h.dead, by intro hn; rw [h1] at hn; cases hn⟩
        simp only
        split
        · rename_i x i' heq
          have e : i' = i.next.2 := by rw [heq]
          subst e
          split <;> exact mk _ rfl rfl rfl rfl rfl rfl
        · rename_i i' heq
          have e : i' = i.next.2 := by rw [heq]
          subst e
          exact mk _ rfl rfl rfl rfl rfl rfl
        · rename_i i' heq
          have e : i' = i.next.2 := by rw [heq]
          subst e
          exact mk _ rfl rfl rfl rfl rfl rfl

theorem srvReadN_inv (chk : Bool) : ∀ (n : Nat) (s : Srv), Inv s → Inv (srvReadN chk n s) := by
  intro n
  induction n with
  | zero => intro s h; exact h
  | succ n ih =>
    intro s h
    unfold srvReadN
    have := srvNext_inv chk s h
    simp only
    split
    · exact this
    · exact ih _ this

theorem srvRead_inv (chk : Bool) (r : Option Nat) (s : Srv) (h : Inv s) : Inv (srvRead chk r s) := by
  unfold srvRead; split <;> exact srvReadN_inv chk _ _ h

theorem close_closeCalls_le (i : It) : i.close.2.closeCalls ≤ i.closeCalls + 1 := by
  unfold It.close
  split
  · split <;> simp
  · simp
  · simp

/-- after a `close()` the request is released, exactly once -/
theorem srvClose_inv (stream : Bool) (s : Srv) (h : Inv s) :
    Inv (srvClose stream s) ∧ (srvClose stream s).live = false := by
  unfold srvClose
  split
  · rename_i hn; exact ⟨h, h.itNone hn⟩
  · rename_i i hi
    have hc : itClose s = i.closeCalls := by simp [itClose, hi]
    simp only
    have hrel : (if s.live = true then s.released + 1 else s.released) = 1 := by
      cases hl : s.live
      · simp [h.dead hl]
      · simp [(h.live hl).2.1]
    split
    · rename_i hcl
      have hlive : s.live = true := by
        cases hl : s.live
        · simp [hl] at hcl
        · rfl
      have h0 := h.live hlive
      refine ⟨⟨h.esc, h.ctr, by simp, ?_, ?_, by intro _; exact hrel, by simp⟩, rfl⟩
      · simp only [itClose, guardedClose]
        have := close_closeCalls_le i
        rw [← hc, h0.1] at this
        exact this
      · simp only [guardedClose]
        rw [h0.2.2]
        split <;> simp
    · refine ⟨⟨h.esc, h.ctr, by simp, ?_, h.logLe, by intro _; exact hrel, by simp⟩, rfl⟩
      have := h.closeLe
      simp only [itClose] at this ⊢
      exact this

theorem srvCloses_inv (stream : Bool) : ∀ (n : Nat) (s : Srv), Inv s → Inv (srvCloses stream n s) := by
  intro n
  induction n with
  | zero => intro s h; exact h
  | succ n ih => intro s h; exact ih _ (srvClose_inv stream s h).1

theorem srvCloses_dead (stream : Bool) : ∀ (n : Nat) (s : Srv), Inv s → s.live = false →
    (srvCloses stream n s).live = false := by
  intro n
  induction n with
  | zero => intro s _ h; exact h
  | succ n ih => intro s h _; exact ih _ (srvClose_inv stream s h).1 (srvClose_inv stream s h).2

theorem conv_inv (chk : Bool) (p : Plan) : Inv (convWith chk p) :=
  srvCloses_inv _ _ _ (srvRead_inv chk _ _ (appCall_inv p))

/-- **Nothing escapes** `app()`, `next` or `close()` — whatever the body iterator's `__next__`, `close()` or
    `finally` block, the file object's `read()` / `close()` do, and however often the server calls `close()`. -/
theorem C01B_no_escape (chk : Bool) (p : Plan) : (convWith chk p).escaped = false := (conv_inv chk p).esc

theorem counters_close (s : Srv) (h : Inv s) : s.counters.close = itClose s := by
  unfold Srv.counters itClose
  split
  · rename_i i hi; simp [h.ctr, hi]
  · rename_i hi; simp [h.ctr, hi]

/-- the body iterator's own `close()` is called **at most once**, however often the server calls `close()` -/
theorem C01B_iter_closed_at_most_once (chk : Bool) (p : Plan) : (convWith chk p).counters.close ≤ 1 := by
  rw [counters_close _ (conv_inv chk p)]; exact (conv_inv chk p).closeLe

/-- at most one failure of the iterator's `close()` is logged (and dropped) -/
theorem C01B_close_failure_logged_at_most_once (chk : Bool) (p : Plan) : (convWith chk p).closeLogged ≤ 1 :=
  (conv_inv chk p).logLe

/-- the request is released (`on_end_request`) **at most once** … -/
theorem C01B_released_at_most_once (chk : Bool) (p : Plan) : (convWith chk p).released ≤ 1 := by
  have h := conv_inv chk p
  cases hl : (convWith chk p).live
  · rw [h.dead hl]; omega
  · rw [(h.live hl).2.1]; omega

/-- … and **exactly once** as soon as the server calls `close()` at all -/
theorem C01B_released_when_closed (chk : Bool) (p : Plan) (hc : 1 ≤ p.closes) : (convWith chk p).released = 1 := by
  have h := conv_inv chk p
  apply h.dead
  unfold convWith
  match hp : p.closes, hc with
  | n + 1, _ =>
    unfold srvCloses
    have h1 := srvRead_inv chk p.reads _ (appCall_inv p)
    exact srvCloses_dead _ _ _ (srvClose_inv _ _ h1).1 (srvClose_inv _ _ h1).2

/-! ### when the iterator's `close()` is (not) called -/

/-- what `next` by the server leaves alone -/
theorem srvNext_same (chk : Bool) (s : Srv) :
    itClose (srvNext chk s).1 = itClose s ∧ (srvNext chk s).1.closeLogged = s.closeLogged ∧
    (srvNext chk s).1.live = s.live ∧
    (∀ i, s.it = some i → ∃ i', (srvNext chk s).1.it = some i' ∧ i'.kind = i.kind) := by
  unfold srvNext
  split
  · exact ⟨rfl, rfl, rfl, fun i hi => ⟨i, hi, rfl⟩⟩
  · exact ⟨rfl, rfl, rfl, fun i hi => ⟨i, hi, rfl⟩⟩
  · split
    · exact ⟨rfl, rfl, rfl, fun i hi => ⟨i, hi, rfl⟩⟩
    · split
      · rename_i hn; exact ⟨rfl, rfl, rfl, fun i hi => by rw [hn] at hi; cases hi⟩
      · rename_i i hi
        have hk := next_keeps i
        have mk : ∀ s' : Srv, s'.it = some i.next.2 → s'.live = s.live → s'.closeLogged = s.closeLogged →
            itClose s' = itClose s ∧ s'.closeLogged = s.closeLogged ∧ s'.live = s.live ∧
            (∀ j, s.it = some j → ∃ i', s'.it = some i' ∧ i'.kind = j.kind) := by
          intro s' h1 h2 h3
          refine ⟨by simp [itClose, h1, hi, hk.1], h3, h2, ?_⟩
          intro j hj
          rw [hi] at hj; injection hj with hj; subst hj
          exact ⟨_, h1, hk.2⟩
        simp only
        split
        · rename_i x i' heq
          have e : i' = i.next.2 := by rw [heq]
          subst e
          split <;> exact mk _ rfl rfl rfl
        · rename_i i' heq
          have e : i' = i.next.2 := by rw [heq]
          subst e
          exact mk _ rfl rfl rfl
        · rename_i i' heq
          have e : i' = i.next.2 := by rw [heq]
          subst e
          exact mk _ rfl rfl rfl

theorem srvReadN_same (chk : Bool) : ∀ (n : Nat) (s : Srv),
    itClose (srvReadN chk n s) = itClose s ∧ (srvReadN chk n s).closeLogged = s.closeLogged ∧
    (srvReadN chk n s).live = s.live ∧
    (∀ i, s.it = some i → ∃ i', (srvReadN chk n s).it = some i' ∧ i'.kind = i.kind) := by
  intro n
  induction n with
  | zero => intro s; exact ⟨rfl, rfl, rfl, fun i hi => ⟨i, hi, rfl⟩⟩
  | succ n ih =>
    intro s
    unfold srvReadN
    have h1 := srvNext_same chk s
    simp only
    split
    · exact h1
    · have h2 := ih (srvNext chk s).1
      refine ⟨h2.1.trans h1.1, h2.2.1.trans h1.2.1, h2.2.2.1.trans h1.2.2.1, ?_⟩
      intro i hi
      obtain ⟨i1, e1, k1⟩ := h1.2.2.2 i hi
      obtain ⟨i2, e2, k2⟩ := h2.2.2.2 i1 e1
      exact ⟨i2, e2, k2.trans k1⟩

theorem srvRead_same (chk : Bool) (r : Option Nat) (s : Srv) :
    itClose (srvRead chk r s) = itClose s ∧ (srvRead chk r s).closeLogged = s.closeLogged ∧
    (srvRead chk r s).live = s.live ∧
    (∀ i, s.it = some i → ∃ i', (srvRead chk r s).it = some i' ∧ i'.kind = i.kind) := by
  unfold srvRead; split <;> exact srvReadN_same chk _ _

theorem srvClose_nostream (s : Srv) : itClose (srvClose false s) = itClose s ∧
    (srvClose false s).closeLogged = s.closeLogged := by
  unfold srvClose
  split
  · exact ⟨rfl, rfl⟩
  · rename_i i hi
    simp [itClose, hi]

theorem srvCloses_nostream : ∀ (n : Nat) (s : Srv), itClose (srvCloses false n s) = itClose s ∧
    (srvCloses false n s).closeLogged = s.closeLogged := by
  intro n
  induction n with
  | zero => intro s; exact ⟨rfl, rfl⟩
  | succ n ih =>
    intro s
    unfold srvCloses
    have h1 := srvClose_nostream s
    have h2 := ih (srvClose false s)
    exact ⟨h2.1.trans h1.1, h2.2.trans h1.2⟩

theorem appCall_cases (p : Plan) :
    (appCall p).live = true ∨ ((appCall p).it = none ∧ (appCall p).closeLogged = 0) := by
  unfold appCall
  simp only
  split
  · exact Or.inl rfl
  · exact Or.inr ⟨rfl, rfl⟩

theorem appCall_fresh (p : Plan) : itClose (appCall p) = 0 ∧ (appCall p).closeLogged = 0 := by
  have h := appCall_inv p
  rcases appCall_cases p with hl | ⟨hn, hlog⟩
  · exact ⟨(h.live hl).1, (h.live hl).2.2⟩
  · exact ⟨by simp [itClose, hn], hlog⟩

/-- without `response.stream` the iterator's `close()` is **never** called (and nothing is logged) -/
theorem C01B_no_iter_close_unless_streaming (chk : Bool) (p : Plan) (hs : p.stream = false) :
    (convWith chk p).counters.close = 0 ∧ (convWith chk p).closeLogged = 0 := by
  rw [counters_close _ (conv_inv chk p)]
  unfold convWith
  rw [hs]
  have h1 := srvCloses_nostream p.closes (srvRead chk p.reads (appCall p))
  have h2 := srvRead_same chk p.reads (appCall p)
  have h3 := appCall_fresh p
  exact ⟨h1.1.trans (h2.1.trans h3.1), h1.2.trans (h2.2.1.trans h3.2)⟩

/-- a server that never calls `close()` (an abandoned iterable) never causes the iterator's `close()` -/
theorem C01B_no_iter_close_without_close (chk : Bool) (p : Plan) (hc : p.closes = 0) :
    (convWith chk p).counters.close = 0 ∧ (convWith chk p).closeLogged = 0 := by
  rw [counters_close _ (conv_inv chk p)]
  unfold convWith
  rw [hc]
  unfold srvCloses
  have h2 := srvRead_same chk p.reads (appCall p)
  have h3 := appCall_fresh p
  exact ⟨h2.1.trans h3.1, h2.2.1.trans h3.2⟩

theorem srvClose_dead_same (stream : Bool) (s : Srv) (hl : s.live = false) :
    itClose (srvClose stream s) = itClose s ∧ (srvClose stream s).closeLogged = s.closeLogged ∧
    (srvClose stream s).live = false := by
  unfold srvClose
  split
  · exact ⟨rfl, rfl, hl⟩
  · rename_i i hi
    simp [itClose, hi, hl]

theorem srvCloses_dead_same (stream : Bool) : ∀ (n : Nat) (s : Srv), s.live = false →
    itClose (srvCloses stream n s) = itClose s ∧ (srvCloses stream n s).closeLogged = s.closeLogged := by
  intro n
  induction n with
  | zero => intro s _; exact ⟨rfl, rfl⟩
  | succ n ih =>
    intro s hl
    unfold srvCloses
    have h1 := srvClose_dead_same stream s hl
    have h2 := ih _ h1.2.2
    exact ⟨h2.1.trans h1.1, h2.2.trans h1.2.1⟩

/-- a plan whose streamed body is the probe iterator object with a callable `close()` -/
def StreamsCloseable (p : Plan) (c : CloseK) : Prop :=
  p.stream = true ∧ p.head = false ∧ p.body.shape = .iter ∧ p.body.close = c ∧ (c = .ok ∨ c = .raises) ∧
  inRanges validStatusRanges (statusCode p.status) = true ∧
  noBodyFor true (statusCode p.status) = false ∧ p.tamperS = .keep ∧ p.tamperH = .none

theorem keep_not_rejected : StatusT.keep.rejected = false := by decide
theorem hdrNone_not_rejected : HdrT.none.rejected = false := by decide
theorem iterator_not_refused : bodyKindsRefused.contains 6 = false := by decide

theorem appCall_streams (p : Plan) (c : CloseK) (h : StreamsCloseable p c) :
    (appCall p).live = true ∧ ∃ i, (appCall p).it = some i ∧ i.kind = .obj c := by
  obtain ⟨hs, hh, hsh, hc, _, hv, hnb, hts, hth⟩ := h
  have hk : p.body.setKind = 6 := by simp [BodySpec.setKind, hsh]
  have hb : bodySet p.body = some (.it { kind := .obj c, rest := p.body.items, endRaises := p.body.endRaises }) := by
    unfold bodySet
    rw [hk, iterator_not_refused]
    simp [hsh, hc]
  have hr : request p = { code := statusCode p.status, ent := .page (.it { kind := .obj c, rest := p.body.items, endRaises := p.body.endRaises }), tampered := true } := by
    unfold request requestCore
    rw [hs] at *
    simp [hb, hv, hh, hnb]
  have h1 : p.tamperS.rejected = false := by rw [hts]; exact keep_not_rejected
  have h2 : p.tamperH.rejected = false := by rw [hth]; exact hdrNone_not_rejected
  unfold appCall
  simp only [hr, h1, h2, Bool.or_self, Bool.and_false, Body.iter]
  refine ⟨?_, _, rfl, rfl⟩
  trivial

theorem conv_streams_close (chk : Bool) (p : Plan) (c : CloseK) (h : StreamsCloseable p c) (hc : 1 ≤ p.closes) :
    itClose (convWith chk p) = 1 ∧ (convWith chk p).closeLogged = (if c = .raises then 1 else 0) := by
  have ha := appCall_streams p c h
  have hf := appCall_fresh p
  have hr := srvRead_same chk p.reads (appCall p)
  obtain ⟨i0, hi0, hk0⟩ := ha.2
  obtain ⟨i1, hi1, hk1⟩ := hr.2.2.2 i0 hi0
  have hlive : (srvRead chk p.reads (appCall p)).live = true := hr.2.2.1.trans ha.1
  have hcl0 : i1.closeCalls = 0 := by
    have := hr.1.trans hf.1
    simpa [itClose, hi1] using this
  have hlog0 : (srvRead chk p.reads (appCall p)).closeLogged = 0 := hr.2.1.trans hf.2
  have hkind : i1.kind = .obj c := hk1.trans hk0
  have hclosable : i1.closable = true := by
    unfold It.closable; rw [hkind]; rcases h.2.2.2.2.1 with rfl | rfl <;> rfl
  have hstep : itClose (srvClose p.stream (srvRead chk p.reads (appCall p))) = 1 ∧
      (srvClose p.stream (srvRead chk p.reads (appCall p))).closeLogged = (if c = .raises then 1 else 0) ∧
      (srvClose p.stream (srvRead chk p.reads (appCall p))).live = false := by
    unfold srvClose
    simp only [hi1, hlive, h.1, hclosable, Bool.and_self, if_true, guardedClose]
    unfold It.close
    simp only [hkind, itClose, hcl0, hlog0]
    rcases h.2.2.2.2.1 with rfl | rfl <;> simp
  unfold convWith
  match hp : p.closes, hc with
  | n + 1, _ =>
    unfold srvCloses
    have hd := srvCloses_dead_same p.stream n _ hstep.2.2
    exact ⟨hd.1.trans hstep.1, hd.2.trans hstep.2.1⟩

/-- **the streamed iterator's `close()` is called exactly once** when the server closes the iterable (before
    iteration, mid-stream, after exhaustion, twice, …), and when it raises the failure is logged and dropped -/
theorem C01B_streamed_iter_closed_once (chk : Bool) (p : Plan) (c : CloseK) (h : StreamsCloseable p c)
    (hc : 1 ≤ p.closes) :
    (convWith chk p).counters.close = 1 ∧ (convWith chk p).closeLogged = (if c = .raises then 1 else 0) ∧
    (convWith chk p).escaped = false := by
  rw [counters_close _ (conv_inv chk p)]
  exact ⟨(conv_streams_close chk p c h hc).1, (conv_streams_close chk p c h hc).2, C01B_no_escape chk p⟩

example : StreamsCloseable { stream := true, body := { shape := .iter, items := [.bytes, .bytes], close := .raises } } .raises := by
  refine ⟨rfl, rfl, rfl, rfl, Or.inr rfl, by decide, by decide, rfl, rfl⟩

/-! ### `start_response`: exactly once, a second time only by the trapper with `exc_info` -/

def LegalCode (c : Nat) : Prop := 100 ≤ c ∧ c ≤ 599

/-- the calls of `start_response` so far, related to the trapper's state -/
def StartsOk (s : Srv) : Prop :=
  (s.trapper = none ∧ ∃ c, LegalCode c ∧ s.starts = [(c, false)]) ∨
  (s.trapper ≠ none ∧ ((∃ c, LegalCode c ∧ s.starts = [(c, false), (500, true)]) ∨ s.starts = [(500, true)]))

theorem appCall_starts (p : Plan) : StartsOk (appCall p) := by
  have hr := request_ok p
  unfold appCall
  simp only
  split
  · exact Or.inl ⟨rfl, _, hr.code, rfl⟩
  · exact Or.inr ⟨by simp, Or.inr rfl⟩

theorem srvNext_starts (chk : Bool) (s : Srv) (h : StartsOk s) : StartsOk (srvNext chk s).1 := by
  unfold srvNext
  split
  · rename_i ht
    rcases h with ⟨h1, _⟩ | ⟨_, h2⟩
    · rw [ht] at h1; cases h1
    · exact Or.inr ⟨by simp, h2⟩
  · exact h
  · rename_i ht
    rcases h with ⟨_, c, hc, hs⟩ | ⟨h1, _⟩
    · split
      · exact Or.inl ⟨ht, c, hc, hs⟩
      · split
        · exact Or.inl ⟨ht, c, hc, hs⟩
        · simp only
          have trapped : ∀ s' : Srv, s'.trapper = some false → s'.starts = s.starts ++ [(500, true)] → StartsOk s' := by
            intro s' h1 h2
            exact Or.inr ⟨by rw [h1]; simp, Or.inl ⟨c, hc, by rw [h2, hs]; rfl⟩⟩
          have plain : ∀ s' : Srv, s'.trapper = s.trapper → s'.starts = s.starts → StartsOk s' := by
            intro s' h1 h2
            exact Or.inl ⟨h1.trans ht, c, hc, h2.trans hs⟩
          split
          · split
            · exact plain _ rfl rfl
            · exact trapped _ rfl rfl
          · exact plain _ rfl rfl
          · exact trapped _ rfl rfl
    · exact absurd ht h1

theorem srvReadN_starts (chk : Bool) : ∀ (n : Nat) (s : Srv), StartsOk s → StartsOk (srvReadN chk n s) := by
  intro n
  induction n with
  | zero => intro s h; exact h
  | succ n ih =>
    intro s h
    unfold srvReadN
    have := srvNext_starts chk s h
    simp only
    split
    · exact this
    · exact ih _ this

theorem srvClose_starts (stream : Bool) (s : Srv) :
    (srvClose stream s).starts = s.starts ∧ (srvClose stream s).trapper = s.trapper ∧ (srvClose stream s).out = s.out := by
  unfold srvClose
  split
  · exact ⟨rfl, rfl, rfl⟩
  · simp only; split <;> exact ⟨rfl, rfl, rfl⟩

theorem srvCloses_starts (stream : Bool) : ∀ (n : Nat) (s : Srv),
    (srvCloses stream n s).starts = s.starts ∧ (srvCloses stream n s).trapper = s.trapper ∧
    (srvCloses stream n s).out = s.out := by
  intro n
  induction n with
  | zero => intro s; exact ⟨rfl, rfl, rfl⟩
  | succ n ih =>
    intro s
    unfold srvCloses
    have h1 := srvClose_starts stream s
    have h2 := ih (srvClose stream s)
    exact ⟨h2.1.trans h1.1, h2.2.1.trans h1.2.1, h2.2.2.trans h1.2.2⟩

/-- **`start_response` is called exactly once without `exc_info`, with a status in 100..599 — or once more (or
    only) by the trapper, with `exc_info` and 500** -/
theorem C01B_started_once_legal (chk : Bool) (p : Plan) :
    (∃ c, LegalCode c ∧ (convWith chk p).starts = [(c, false)]) ∨
    (∃ c, LegalCode c ∧ (convWith chk p).starts = [(c, false), (500, true)]) ∨
    (convWith chk p).starts = [(500, true)] := by
  have h : StartsOk (srvRead chk p.reads (appCall p)) := by
    unfold srvRead; split <;> exact srvReadN_starts chk _ _ (appCall_starts p)
  have e := (srvCloses_starts p.stream p.closes (srvRead chk p.reads (appCall p))).1
  unfold convWith
  rw [e]
  rcases h with ⟨_, c, hc, hs⟩ | ⟨_, h2⟩
  · exact Or.inl ⟨c, hc, hs⟩
  · exact Or.inr h2

/-! ### the type checks of `AppResponse.__init__` -/

/-- every status that is not a byte string is refused (generated table: a source edit that drops the
    check changes `statusKindsRejected` and this obligation) … -/
theorem status_not_bytes_rejected : ∀ t : StatusT, t ≠ .keep → t.rejected = true := by
  intro t ht; cases t <;> first | exact absurd rfl ht | decide

/-- … and so is every header item that is not a pair of byte strings; pairs of byte strings pass -/
theorem header_not_bytes_rejected : ∀ t : HdrT, t.wellTyped = false → t.rejected = true := by
  intro t ht; cases t <;> first | (simp [HdrT.wellTyped] at ht; done) | decide

theorem header_bytes_accepted : ∀ t : HdrT, t.wellTyped = true → t.rejected = false := by
  intro t ht; cases t <;> first | (simp [HdrT.wellTyped] at ht; done) | decide

/-- **A non-bytes status or header item that survives until `AppResponse.__init__` never reaches the
    server**: the only `start_response` call is the trapper's `500` with `exc_info`, whatever the server does
    afterwards. -/
theorem C01B_illtyped_is_trapped_500 (chk : Bool) (p : Plan) (ht : (request p).tampered = true)
    (hb : p.tamperS ≠ .keep ∨ p.tamperH.wellTyped = false) :
    (convWith chk p).starts = [(500, true)] ∧ (convWith chk p).escaped = false := by
  refine ⟨?_, C01B_no_escape chk p⟩
  have hbad : (p.tamperS.rejected || p.tamperH.rejected) = true := by
    rcases hb with h | h
    · simp [status_not_bytes_rejected _ h]
    · simp [header_not_bytes_rejected _ h]
  have ha : (appCall p).starts = [(500, true)] ∧ (appCall p).trapper = some true := by
    unfold appCall
    simp only [ht, hbad, Bool.and_self]
    constructor <;> trivial
  have hkeep : ∀ (n : Nat) (s : Srv), s.starts = [(500, true)] → s.trapper ≠ none →
      (srvReadN chk n s).starts = [(500, true)] := by
    intro n
    induction n with
    | zero => intro s h _; exact h
    | succ n ih =>
      intro s h1 h2
      unfold srvReadN
      have hn : (srvNext chk s).1.starts = [(500, true)] ∧ (srvNext chk s).1.trapper ≠ none := by
        unfold srvNext
        split
        · exact ⟨h1, by simp⟩
        · rename_i he; exact ⟨h1, by rw [he]; simp⟩
        · rename_i he; exact absurd he h2
      simp only
      split
      · exact hn.1
      · exact ih _ hn.1 hn.2
  have e := (srvCloses_starts p.stream p.closes (srvRead chk p.reads (appCall p))).1
  unfold convWith
  rw [e]
  unfold srvRead
  split <;> exact hkeep _ _ ha.1 (by rw [ha.2]; simp)

example : (request { stream := true, tamperH := .strVal }).tampered = true := by decide

/-! ### `ResponseBody.__set__` -/

/-- a `str`, an empty `str` and a list containing a `str` are refused (generated table) -/
theorem str_bodies_refused : bodyKindsRefused.contains 1 = true ∧ bodyKindsRefused.contains 8 = true ∧
    bodyKindsRefused.contains 4 = true := by decide

def ReturnsStr (b : BodySpec) : Prop :=
  b.shape = .str ∨ b.shape = .str0 ∨ (b.shape = .list ∧ b.items.any (· == .str) = true)

/-- **A handler that returns text is answered with a 500 error page** (`ValueError` in
    `ResponseBody.__set__` → `handle_error`), streaming or not, whatever the method; the tampering hook's edits
    are overwritten by `handle_error`'s `finalize`. -/
theorem C01B_str_body_is_500 (p : Plan) (h : ReturnsStr p.body) :
    (appCall p).starts = [(500, false)] ∧ (request p).tampered = false := by
  have hb : bodySet p.body = none := by
    unfold bodySet
    have : bodyKindsRefused.contains p.body.setKind = true := by
      rcases h with h | h | ⟨h, ha⟩
      · simp only [BodySpec.setKind, h]; exact str_bodies_refused.1
      · simp only [BodySpec.setKind, h]; exact str_bodies_refused.2.1
      · simp only [BodySpec.setKind, h, ha, if_true]; exact str_bodies_refused.2.2
    rw [this]; rfl
  have hc : requestCore p = errorResp {} := by unfold requestCore; simp [hb]
  have hr : (request p).code = 500 ∧ (request p).tampered = false ∧
      ((request p).ent = .errorPage ∨ (request p).ent = .page (.seq [])) := by
    unfold request
    simp only [hc]
    split
    · exact ⟨rfl, rfl, Or.inr rfl⟩
    · exact ⟨rfl, rfl, Or.inl rfl⟩
  refine ⟨?_, hr.2.1⟩
  unfold appCall
  simp only [hr.2.1, Bool.false_and]
  rcases hr.2.2 with he | he
  · simp [he, hr.1]
  · simp [he, hr.1, Body.iter]

example : ReturnsStr { shape := .list, items := [.bytes, .str] } := Or.inr (Or.inr ⟨rfl, by decide⟩)

/-! ### an iterable of byte strings -/

/-- what `next` does to the items still to come, and what it can yield -/
def Sub (s s' : It) : Prop := ∀ y ∈ s'.rest, y ∈ s.rest
def YieldOk (s : It) (r : NextRes) : Prop := ∀ x, r = .yield x → x ∈ s.rest ∧ x ≠ .raise

theorem closeInput_sub (fc : CloseK) (s : It) : Sub s (closeInput fc s).2 ∧ YieldOk s (closeInput fc s).1 := by
  cases fc <;> exact ⟨fun y h => h, fun x h => by simp [closeInput] at h⟩

theorem tail_sub {s s' : It} {i : Item} {r : List Item} (h : s.rest = i :: r) (h' : s'.rest = r) : Sub s s' := by
  intro y hy; rw [h]; rw [h'] at hy; exact List.mem_cons_of_mem _ hy

theorem nextList_sub (s : It) : Sub s (nextList s).2 ∧ YieldOk s (nextList s).1 := by
  unfold nextList
  split
  · exact ⟨fun y h => h, fun x h => by cases h⟩
  · rename_i r hr; exact ⟨tail_sub hr rfl, fun x h => by cases h⟩
  · rename_i i r hne hr
    refine ⟨tail_sub hr rfl, ?_⟩
    intro x hx; injection hx with hx; subst hx
    exact ⟨by rw [hr]; exact List.mem_cons_self, fun e => hne e⟩

theorem nextGen_sub (fin : Bool) (s : It) : Sub s (nextGen fin s).2 ∧ YieldOk s (nextGen fin s).1 := by
  unfold nextGen
  split
  · exact ⟨fun y h => h, fun x h => by cases h⟩
  · split
    · exact ⟨fun y h => h, fun x h => by split at h <;> cases h⟩
    · rename_i r hr; exact ⟨tail_sub hr rfl, fun x h => by cases h⟩
    · rename_i i r hne hr
      refine ⟨tail_sub hr rfl, ?_⟩
      intro x hx; injection hx with hx; subst hx
      exact ⟨by rw [hr]; exact List.mem_cons_self, fun e => hne e⟩

theorem nextObj_sub (s : It) : Sub s (nextObj s).2 ∧ YieldOk s (nextObj s).1 := by
  unfold nextObj
  split
  · split
    · exact ⟨fun y h => h, fun x h => by cases h⟩
    · exact ⟨fun y h => h, fun x h => by cases h⟩
  · rename_i r hr; exact ⟨tail_sub hr rfl, fun x h => by cases h⟩
  · rename_i i r hne hr
    refine ⟨tail_sub hr rfl, ?_⟩
    intro x hx; injection hx with hx; subst hx
    exact ⟨by rw [hr]; exact List.mem_cons_self, fun e => hne e⟩

theorem nextFile_sub (fc : CloseK) (s : It) : Sub s (nextFile fc s).2 ∧ YieldOk s (nextFile fc s).1 := by
  unfold nextFile
  split
  · split
    · exact ⟨fun y h => h, fun x h => by cases h⟩
    · exact closeInput_sub fc s
  · rename_i r hr; exact ⟨tail_sub hr rfl, fun x h => by cases h⟩
  · rename_i r hr
    have h := closeInput_sub fc { s with rest := r }
    refine ⟨fun y hy => ?_, fun x hx => ?_⟩
    · rw [hr]; exact List.mem_cons_of_mem _ (h.1 y hy)
    · cases fc <;> cases hx
  · rename_i i r hne1 hne2 hr
    refine ⟨tail_sub hr rfl, ?_⟩
    intro x hx; injection hx with hx; subst hx
    exact ⟨by rw [hr]; exact List.mem_cons_self, fun e => hne1 e⟩

theorem next_sub (s : It) : Sub s s.next.2 ∧ YieldOk s s.next.1 := by
  unfold It.next
  split
  · exact nextList_sub s
  · exact nextGen_sub _ s
  · exact nextObj_sub s.bump
  · exact nextFile_sub _ s.bump

/-- all items still to come are byte strings (or failures) -/
def RestOk (i : It) : Prop := ∀ y ∈ i.rest, y.isBytes = true ∨ y = .raise

def ChunkInv (chk : Bool) (s : Srv) : Prop :=
  (∀ c ∈ s.out, c.isBytes = true) ∧ (chk = true ∨ ∀ i, s.it = some i → RestOk i)

theorem srvNext_chunks (chk : Bool) (s : Srv) (h : ChunkInv chk s) : ChunkInv chk (srvNext chk s).1 := by
  have app1 : ∀ (c : Chunk), c.isBytes = true → ∀ c' ∈ s.out ++ [c], c'.isBytes = true := by
    intro c hc c' hc'
    rw [List.mem_append] at hc'
    rcases hc' with h1 | h1
    · exact h.1 c' h1
    · rw [List.mem_singleton] at h1; rw [h1]; exact hc
  unfold srvNext
  split
  · exact ⟨app1 .bare rfl, h.2⟩
  · exact h
  · split
    · exact ⟨app1 .errorPage rfl, h.2⟩
    · split
      · exact h
      · rename_i i hi
        have hs := next_sub i
        have rest' : chk = true ∨ ∀ j, some i.next.2 = some j → RestOk j := by
          rcases h.2 with h2 | h2
          · exact Or.inl h2
          · refine Or.inr ?_
            intro j hj; injection hj with hj; subst hj
            intro y hy; exact h2 i hi y (hs.1 y hy)
        simp only
        split
        · rename_i x i' heq
          have e : i' = i.next.2 := by rw [heq]
          have ex : i.next.1 = .yield x := by rw [heq]
          subst e
          split
          · rename_i hx
            refine ⟨app1 (.item x) ?_, rest'⟩
            simp only [Chunk.isBytes]
            cases hb : x.isBytes
            · -- not bytes: then the check is off and the item came from an all-bytes rest
              have hchk : chk = false := by
                cases chk
                · rfl
                · simp [hb] at hx
              rcases h.2 with h2 | h2
              · rw [hchk] at h2; cases h2
              · have hm := hs.2 x ex
                rcases h2 i hi x hm.1 with h3 | h3
                · rw [hb] at h3; cases h3
                · exact absurd h3 hm.2
            · rfl
          · exact ⟨app1 .bare rfl, rest'⟩
        · rename_i i' heq
          have e : i' = i.next.2 := by rw [heq]
          subst e
          exact ⟨h.1, rest'⟩
        · rename_i i' heq
          have e : i' = i.next.2 := by rw [heq]
          subst e
          exact ⟨app1 .bare rfl, rest'⟩

theorem srvReadN_chunks (chk : Bool) : ∀ (n : Nat) (s : Srv), ChunkInv chk s → ChunkInv chk (srvReadN chk n s) := by
  intro n
  induction n with
  | zero => intro s h; exact h
  | succ n ih =>
    intro s h
    unfold srvReadN
    have := srvNext_chunks chk s h
    simp only
    split
    · exact this
    · exact ih _ this

theorem appCall_out (p : Plan) : (appCall p).out = [] := by
  unfold appCall; simp only; split <;> rfl

theorem conv_out (chk : Bool) (p : Plan) (h : ChunkInv chk (appCall p)) :
    ∀ c ∈ (convWith chk p).out, c.isBytes = true := by
  have h1 : ChunkInv chk (srvRead chk p.reads (appCall p)) := by
    unfold srvRead; split <;> exact srvReadN_chunks chk _ _ h
  have e := (srvCloses_starts p.stream p.closes (srvRead chk p.reads (appCall p))).2.2
  unfold convWith
  rw [e]
  exact h1.1

/-- the statement's clause, over the model with / without a type check in `__next__` -/
def C01B_chunks_bytes_full (chk : Bool) : Prop :=
  ∀ p : Plan, ∀ c ∈ (convWith chk p).out, c.isBytes = true

/-- **with the check every chunk is a byte string**, whatever the iterator yields -/
theorem C01B_chunks_bytes_checked : C01B_chunks_bytes_full true := by
  intro p
  exact conv_out true p ⟨(by rw [appCall_out]; intro c hc; cases hc), Or.inl rfl⟩

/-- finding F3: a streamed generator yielding `b'…'` then a `str` -/
def witnessF3 : Plan := { stream := true, body := { shape := .gen, items := [.bytes, .str], close := .ok } }

theorem C01B_F3_witness : (convWith false witnessF3).out = [.item .bytes, .item .str] ∧
    (convWith false witnessF3).starts = [(200, false)] ∧
    (convWith true witnessF3).out = [.item .bytes, .bare] ∧
    (convWith true witnessF3).starts = [(200, false), (500, true)] := by decide

/-- **without the check the clause is false** (the unchanged code: finding F3) -/
theorem C01B_chunks_bytes_unchecked_false : ¬ C01B_chunks_bytes_full false := by
  intro h
  have := h witnessF3 (.item .str) (by rw [C01B_F3_witness.1]; simp)
  simp [Chunk.isBytes, Item.isBytes] at this

/-- the clause holds for the running code exactly when `__next__` checks (probed on every run) -/
theorem C01B_chunks_bytes_iff_checked :
    (∀ p : Plan, ∀ c ∈ (conv p).out, c.isBytes = true) ↔ chunkTypeChecked = true := by
  unfold conv
  generalize chunkTypeChecked = chk
  cases chk
  · exact ⟨fun h => absurd h C01B_chunks_bytes_unchecked_false, fun h => by cases h⟩
  · exact ⟨fun _ => rfl, fun _ => C01B_chunks_bytes_checked⟩

/-- what the unchecked code needs: the body was put together before the response started (not streamed, no
    explicit `Content-Length`), or the iterator only ever produces byte strings (or fails) -/
def PlainItems (p : Plan) : Prop :=
  (p.stream = false ∧ p.cl = false) ∨ ∀ x ∈ p.body.items, x.isBytes = true ∨ x = .raise

def Body.Plain : Body → Prop
  | .seq items => ∀ y ∈ items, y.isBytes = true ∨ y = .raise
  | .it i => RestOk i
  | .nonIter => True

theorem iter_plain (b : Body) (i : It) (h : Body.Plain b) (hi : b.iter = some i) : RestOk i := by
  cases b with
  | seq items => simp [Body.iter] at hi; subst hi; exact h
  | it j => simp [Body.iter] at hi; subst hi; exact h
  | nonIter => simp [Body.iter] at hi

theorem bodySet_plain (b : BodySpec) (bd : Body) (hp : ∀ x ∈ b.items, x.isBytes = true ∨ x = .raise)
    (h : bodySet b = some bd) : Body.Plain bd := by
  unfold bodySet at h
  split at h
  · cases h
  · rename_i hnot
    split at h
    all_goals (injection h with h; subst h)
    · intro y hy; simp at hy; subst hy; exact Or.inl rfl
    · intro y hy; cases hy
    · intro y hy; cases hy
    · intro y hy; cases hy
    · rename_i hsh
      exfalso; apply hnot
      simp only [BodySpec.setKind, hsh]; exact str_bodies_refused.1
    · exact hp
    · exact hp
    · trivial
    · exact hp
    · exact hp
    · exact hp

theorem drain_items_bytes (l : List Item) (h : l.any (fun x => !x.isBytes) = false) :
    ∀ y ∈ l, y.isBytes = true ∨ y = .raise := by
  intro y hy
  have := List.any_eq_false.1 h y hy
  simp at this
  exact Or.inl this

theorem requestCore_plain (p : Plan) (h : PlainItems p) :
    ∀ b, (requestCore p).ent = .page b → Body.Plain b := by
  unfold requestCore
  split
  · intro b hb; simp [errorResp] at hb
  · rename_i bd hbd
    simp only
    split
    · intro b hb; simp at hb
    · split
      · split
        · intro b hb; simp [errorResp] at hb
        · split
          · intro b hb; simp [errorResp] at hb
          · intro b hb; simp at hb; subst hb; intro y hy; cases hy
      · split
        · rename_i hs
          intro b hb; simp at hb; subst hb
          rcases h with ⟨h1, _⟩ | h2
          · rw [h1] at hs; cases hs
          · exact bodySet_plain _ _ h2 hbd
        · split
          · rename_i hcl
            intro b hb; simp at hb; subst hb
            rcases h with ⟨_, h1⟩ | h2
            · rw [h1] at hcl; cases hcl
            · exact bodySet_plain _ _ h2 hbd
          · split
            · intro b hb; simp [errorResp] at hb
            · split
              · intro b hb; simp [errorResp] at hb
              · rename_i i hi hany
                intro b hb; simp at hb; subst hb
                have : (drainAll i).2.1.any (fun x => !x.isBytes) = false := by
                  cases hh : (drainAll i).2.1.any (fun x => !x.isBytes)
                  · rfl
                  · rw [hh] at hany; simp at hany
                exact drain_items_bytes _ this

/-- **what holds for the unchanged code**: under `PlainItems` every chunk is a byte string even without a
    check in `__next__` -/
theorem C01B_chunks_bytes_partial (p : Plan) (h : PlainItems p) :
    ∀ c ∈ (convWith false p).out, c.isBytes = true := by
  apply conv_out false p
  refine ⟨(by rw [appCall_out]; intro c hc; cases hc), Or.inr ?_⟩
  intro i hi
  have hcore := requestCore_plain p h
  have hreq : ∀ b, (request p).ent = .page b → Body.Plain b := by
    unfold request
    simp only
    split
    · intro b hb; simp at hb; subst hb; intro y hy; cases hy
    · exact hcore
  unfold appCall at hi
  simp only at hi
  split at hi
  · rename_i i' _ hbody
    injection hi with hi
    subst hi
    split at hbody
    · injection hbody with hb; subst hb; intro y hy; cases hy
    · rename_i b hb
      exact iter_plain b _ (hreq b hb) hbody
  · cases hi

example : PlainItems { stream := true, body := { shape := .gen, items := [.bytes, .raise, .empty] } } :=
  Or.inr (by decide)
example : ¬ PlainItems witnessF3 := by
  intro h
  rcases h with ⟨h, _⟩ | h
  · cases h
  · have := h .str (by simp [witnessF3]); simp [Item.isBytes] at this

/-! ### reading "to the end" ends by `StopIteration`, not by the model's fuel -/

def YieldShrinks (s : It) (r : NextRes × It) : Prop := ∀ x, r.1 = .yield x → r.2.rest.length < s.rest.length

theorem closeInput_noyield (fc : CloseK) (s t : It) : YieldShrinks t (closeInput fc s) := by
  intro x hx; cases fc <;> cases hx

theorem nextList_shrinks (s : It) : YieldShrinks s (nextList s) := by
  unfold nextList
  split
  · intro x hx; cases hx
  · intro x hx; cases hx
  · rename_i i r _ hr; intro x _; simp [hr]

theorem nextGen_shrinks (fin : Bool) (s : It) : YieldShrinks s (nextGen fin s) := by
  unfold nextGen
  split
  · intro x hx; cases hx
  · split
    · intro x hx; simp only at hx; split at hx <;> cases hx
    · intro x hx; cases hx
    · rename_i i r _ hr; intro x _; simp [hr]

theorem nextObj_shrinks (s : It) : YieldShrinks s (nextObj s) := by
  unfold nextObj
  split
  · split <;> (intro x hx; cases hx)
  · intro x hx; cases hx
  · rename_i i r _ hr; intro x _; simp [hr]

theorem nextFile_shrinks (fc : CloseK) (s : It) : YieldShrinks s (nextFile fc s) := by
  unfold nextFile
  split
  · split
    · intro x hx; cases hx
    · exact closeInput_noyield fc s s
  · intro x hx; cases hx
  · exact closeInput_noyield fc _ s
  · rename_i i r _ _ hr; intro x _; simp [hr]

theorem next_shrinks (s : It) : YieldShrinks s s.next := by
  unfold It.next
  split
  · exact nextList_shrinks s
  · exact nextGen_shrinks _ s
  · exact nextObj_shrinks s.bump
  · exact nextFile_shrinks _ s.bump

/-- an upper bound for the number of further `next()` calls that do not end in `StopIteration` -/
def bound (s : Srv) : Nat :=
  match s.trapper with
  | some true => 1
  | some false => 0
  | none => (if s.pendingPage then 1 else 0) + (match s.it with | some i => i.rest.length + 1 | none => 0)

theorem srvNext_bound (chk : Bool) (s : Srv) : (srvNext chk s).2 = true ∨ bound (srvNext chk s).1 < bound s := by
  unfold srvNext
  split
  · rename_i ht; right; simp [bound, ht]
  · left; rfl
  · rename_i ht
    split
    · rename_i hp
      right
      simp only [bound, ht, hp, if_true]
      simp
    · rename_i hp
      split
      · left; rfl
      · rename_i i hi
        have hs := next_shrinks i
        simp only
        split
        · rename_i x i' heq
          have e : i' = i.next.2 := by rw [heq]
          have ex : i.next.1 = .yield x := by rw [heq]
          subst e
          have hlt := hs x ex
          split
          · right; simp only [bound, ht, hp, hi]; simp; omega
          · right; simp only [bound, ht, hi]; omega
        · left; rfl
        · right; simp only [bound, ht, hi]; omega

theorem srvReadN_stable (chk : Bool) : ∀ (n : Nat) (s : Srv), bound s + 1 ≤ n →
    srvReadN chk (n + 1) s = srvReadN chk n s := by
  intro n
  induction n with
  | zero => intro s h; omega
  | succ n ih =>
    intro s h
    rw [srvReadN.eq_def chk (n + 1 + 1), srvReadN.eq_def chk (n + 1)]
    simp only
    rcases srvNext_bound chk s with hstop | hlt
    · simp [hstop]
    · cases hst : (srvNext chk s).2
      · simp only [Bool.false_eq_true, if_false]
        exact ih _ (by omega)
      · simp

theorem fuelOf_enough (s : Srv) : bound s + 1 ≤ fuelOf s := by
  unfold bound fuelOf
  cases s.trapper with
  | some b => cases b <;> simp <;> omega
  | none =>
    cases s.it with
    | none => simp; split <;> omega
    | some i => simp; split <;> omega

/-- **reading to the end (`reads = None`) is independent of the model's fuel**: any larger amount gives the same
    conversation — the iteration ends by `StopIteration` -/
theorem C01B_read_fuel_irrelevant (chk : Bool) (s : Srv) : ∀ d, srvReadN chk (fuelOf s + d) s = srvRead chk none s := by
  intro d
  unfold srvRead
  induction d with
  | zero => rfl
  | succ d ih =>
    rw [← ih]
    exact srvReadN_stable chk (fuelOf s + d) s (by have := fuelOf_enough s; omega)

end CpProofs.C01Boundary
