import CpProofs.C06Pipeline
import CpProofs.C06Round2
/-!
  C06 — response framing is self-consistent for every handler and tool mix.

  Statement (properties.jsonl): every non-streamed response carries a Content-Length equal to the
  bytes delivered, except 1xx/204/205/304 which carry neither; HEAD = the GET's status,
  Content-Type and Content-Length with zero body bytes; a streamed response never carries a
  Content-Length that disagrees with the bytes it produces.

  The theorems are about `CpModel.Finalize` (the transcription of finalize, the built-in tools, the
  error / redirect responses, `respond`, HEAD removal and the WSGI iteration).  They quantify over
  every page text / gzip function (`Pages`), every request, every plan (handler shape, status
  action, own headers, tool subset) and every cache content that earlier requests can have built.
  The only hypothesis is `HandlerOk`: the *handler* does not set a Content-Length that is wrong for
  its own value (the property is about the framework).  Without it the streamed part is false on
  the unchanged code (`C06_stream_full_false`, finding C06-F1).
-/
namespace CpProofs.C06
open CpModel CpModel.Finalize

/-! ### the tables regenerated from the live code say what the statement says -/

theorem legalCodes_eq : Gen.C06.legalCodes = List.range' 100 500 := by decide +kernel

theorem noBodyCodes_eq : Gen.C06.noBodyCodes = List.range' 100 100 ++ [204, 205, 304] := by decide +kernel

/-- the statuses `finalize` accepts are exactly 100..599 -/
theorem legal_table_spec (c : Nat) : legal c = true ↔ 100 ≤ c ∧ c ≤ 599 := by
  simp only [legal, legalCodes_eq, List.contains_iff_mem, List.mem_range'_1]
  omega

/-- `Response.finalize` strips body and Content-Length exactly for 1xx, 204, 205, 304. -/
theorem noBody_table_spec (c : Nat) :
    noBody c = true ↔ (100 ≤ c ∧ c < 200) ∨ c = 204 ∨ c = 205 ∨ c = 304 := by
  simp only [noBody, noBodyCodes_eq, List.contains_iff_mem, List.mem_append, List.mem_range'_1,
    List.mem_cons, List.not_mem_nil, or_false]
  first | done | omega

/-- every status for which set_response pads the page is an error status that keeps its body -/
theorem ie_table_spec : ∀ kv ∈ Gen.C06.ieSizes, 400 ≤ kv.1 ∧ kv.1 ≤ 599 ∧ noBody kv.1 = false ∧ 0 < kv.2 := by
  decide +kernel

/-- every status HTTPRedirect knows is a 3xx; the only one without a body that `finalize` also
    strips is 304 -/
theorem redirect_table_spec : ∀ kv ∈ Gen.C06.redirKinds,
    300 ≤ kv.1 ∧ kv.1 ≤ 399 ∧ kv.2 ≤ 2 ∧ (kv.2 = 1 ↔ noBody kv.1 = true) := by
  decide +kernel

/-! ### what is observed at the WSGI boundary -/

/-- The statement, for one observed response to a request with method `m`: a bodiless status carries neither
    body bytes nor Content-Length (streamed or not); any other non-streamed response has a Content-Length equal
    to the bytes delivered (none for HEAD); a streamed one never a Content-Length that disagrees. -/
def ObsFramed (m : Method) (o : Obs) : Prop :=
  (noBody o.code = true → o.cl = none ∧ o.delivered = []) ∧
  (o.stream = false → noBody o.code = false → ∃ n, o.cl = some (.nat n) ∧ o.ending = .clean ∧
      (m ≠ .head → o.delivered.length = n) ∧ (m = .head → o.delivered = [])) ∧
  (o.stream = true →
    (m = .head → o.delivered = []) ∧
    (∀ n, o.cl = some (.nat n) → m ≠ .head → o.ending = .clean ∧ o.delivered.length = n))

theorem deliver_nil : deliver [] = ([], End.clean) := rfl

/-- a clean end stays clean whatever `AppResponse.__next__` does with non-bytes items -/
@[simp] theorem endOf_clean : endOf .clean = .clean := by
  unfold endOf; split <;> simp_all

/-- what `serve` observes when it does not replace the response by the bare 500 -/
theorem obsFramed_of (m : Method) (r : Resp) (cached : Bool) (d : Bytes) (e : End) (hf : Framed r)
    (hd : deliver (if m = .head then [] else r.body.chunks) = (d, e)) :
    ObsFramed m ⟨codeOf r, r.hdrs .contentLength, r.hdrs .contentType, (r.hdrs .contentEncoding).isSome, d, endOf e,
                 r.stream, cached, r.src, r.gz⟩ := by
  obtain ⟨hcl, hnb, hfr⟩ := hf
  by_cases hm : m = .head
  · simp only [hm, if_true, deliver_nil] at hd
    cases hd
    refine ⟨fun h => ⟨(hnb h).1, rfl⟩, fun hs h => ?_, fun _ => ⟨fun _ => rfl, fun n _ h => absurd hm h⟩⟩
    obtain ⟨n, hn⟩ := hfr hs h
    exact ⟨n, hn, endOf_clean, fun h => absurd hm h, fun _ => rfl⟩
  · simp only [hm, if_false] at hd
    rcases CLok_cases hcl with h0 | h0 | ⟨n, h0, hb, hl⟩
    · refine ⟨fun h => ?_, fun hs h => ?_, fun _ => ⟨fun h => absurd h hm, fun n hn _ => ?_⟩⟩
      · have := (hnb h).2
        rw [this, deliver_nil] at hd
        cases hd
        exact ⟨h0, rfl⟩
      · obtain ⟨n, hn⟩ := hfr hs h
        rw [h0] at hn; cases hn
      · simp only at hn; rw [h0] at hn; cases hn
    · refine ⟨fun h => ?_, fun hs h => ?_, fun _ => ⟨fun h => absurd h hm, fun n hn _ => ?_⟩⟩
      · have := (hnb h).1
        rw [h0] at this; cases this
      · obtain ⟨n, hn⟩ := hfr hs h
        rw [h0] at hn; cases hn
      · simp only at hn; rw [h0] at hn; cases hn
    · rw [deliver_allBytes _ hb] at hd
      cases hd
      refine ⟨fun h => ?_, fun _ _ => ⟨n, h0, endOf_clean, fun _ => hl, fun h => absurd h hm⟩,
              fun _ => ⟨fun h => absurd h hm, fun n' hn _ => ?_⟩⟩
      · have := (hnb h).1
        rw [h0] at this; cases this
      · simp only at hn
        rw [h0] at hn
        cases hn
        exact ⟨endOf_clean, hl⟩

theorem noBody_500' : noBody 500 = false := by decide

/-- the bare 500 the exception trapper answers with is framed by construction -/
theorem bareObs_framed (m : Method) (pg : Pages) (stream cached : Bool) (hm : m ≠ .head) :
    ObsFramed m ⟨500, some (.nat pg.bare.length), some (.ctype .textPlain none), false, pg.bare, .clean, stream,
                 cached, .bare, false⟩ := by
  refine ⟨fun h => ?_, fun _ _ => ⟨pg.bare.length, rfl, rfl, fun _ => rfl, fun h => absurd h hm⟩,
          fun _ => ⟨fun h => absurd h hm, fun n hn _ => ?_⟩⟩
  · simp only [noBody_500'] at h; cases h
  · simp only at hn
    cases hn
    exact ⟨rfl, rfl⟩

/-- Framing of whatever `serve` observes, from the framing of the finalized response. -/
theorem serve_framed (pg : Pages) (rq : Req) (p : Plan) (cache : Option Cache)
    (hok : HandlerOk p) (hc : CacheOk cache) :
    ObsFramed rq.method (serve pg rq p cache).1 ∧ CacheOk (serve pg rq p cache).2 := by
  have hr := respond_ok pg rq p cache hok hc
  unfold serve
  generalize respond pg rq p cache = rs at hr
  obtain ⟨s, cached⟩ := rs
  obtain ⟨hf, hcache⟩ := hr
  simp only at hf hcache ⊢
  generalize hd : deliver (if rq.method = Method.head then [] else s.r.body.chunks) = de
  obtain ⟨d, e⟩ := de
  simp only
  split
  · -- replaced by the bare 500 (only possible when something was to be iterated: not for HEAD)
    rename_i hbare
    have hm : rq.method ≠ .head := by
      intro hm
      simp only [hm, if_true, deliver_nil] at hd
      cases hd
      simp at hbare
    exact ⟨bareObs_framed rq.method pg s.r.stream cached hm, hcache⟩
  · refine ⟨obsFramed_of rq.method s.r cached d e hf hd, ?_⟩
    split
    · split
      · rename_i hne _ c' htee
        have hm : ¬ rq.method = .head := hne.1
        simp only [hm, if_false] at htee
        exact teeDone_ok s.cache rq s.r _ c' hcache hf.1 htee
      · exact hcache
    · exact hcache


/-- **C06, bodiless statuses**: a 1xx / 204 / 205 / 304 response carries neither body bytes nor a Content-Length —
    for every response, streamed or not, whoever chose the status (handler, hook, conditional request). -/
theorem C06_nobody_all (pg : Pages) (rq : Req) (p : Plan) (cache : Option Cache)
    (hok : HandlerOk p) (hc : CacheOk cache) :
    let o := (serve pg rq p cache).1
    noBody o.code = true → o.cl = none ∧ o.delivered = [] :=
  (serve_framed pg rq p cache hok hc).1.1

/-- **C06, non-streamed part**: Content-Length present and equal to the delivered bytes; 1xx / 204 /
    205 / 304 carry neither; HEAD delivers nothing. -/
theorem C06_nonstream (pg : Pages) (rq : Req) (p : Plan) (cache : Option Cache)
    (hok : HandlerOk p) (hc : CacheOk cache) (hs : (serve pg rq p cache).1.stream = false) :
    let o := (serve pg rq p cache).1
    (noBody o.code = true → o.cl = none ∧ o.delivered = []) ∧
    (noBody o.code = false → ∃ n, o.cl = some (.nat n) ∧ o.ending = .clean ∧
      (rq.method ≠ .head → o.delivered.length = n) ∧ (rq.method = .head → o.delivered = [])) :=
  ⟨(serve_framed pg rq p cache hok hc).1.1, (serve_framed pg rq p cache hok hc).1.2.1 hs⟩

/-- **C06, streamed part** (partial: needs `HandlerOk`, see `C06_stream_full_false`): a streamed
    response's Content-Length, when there is one, is exactly what the body produces, and the
    production ends cleanly. -/
theorem C06_stream_partial (pg : Pages) (rq : Req) (p : Plan) (cache : Option Cache)
    (hok : HandlerOk p) (hc : CacheOk cache) (hs : (serve pg rq p cache).1.stream = true) :
    let o := (serve pg rq p cache).1
    (rq.method = .head → o.delivered = []) ∧
    (∀ n, o.cl = some (.nat n) → rq.method ≠ .head → o.ending = .clean ∧ o.delivered.length = n) :=
  (serve_framed pg rq p cache hok hc).1.2.2 hs

/-- The cache built by any request history only holds entries whose stored Content-Length equals the
    stored body (this is what makes the theorems above hold for *later* requests too). -/
theorem C06_cache_consistent (pg : Pages) (rq : Req) (p : Plan) (cache : Option Cache)
    (hok : HandlerOk p) (hc : CacheOk cache) : CacheOk (serve pg rq p cache).2 :=
  (serve_framed pg rq p cache hok hc).2

/-- the statement for a whole request history against one application, starting from any
    consistent cache (in particular the empty one) -/
def AllFramed : List Req → List Obs → Prop
  | [], [] => True
  | rq :: rqs, o :: os => ObsFramed rq.method o ∧ AllFramed rqs os
  | _, _ => False

/-- Histories: the handler may return a different value on every invocation (`Handler.later`), requests
    carry a logical time and cache directives (max-age, no-cache, Pragma, no-store), so a stored copy can be
    hit, ignored as too old, bypassed or replaced at any point; the cache content and the invocation
    count are part of the induction. -/
theorem C06_history (pg : Pages) (p : Plan) (hok : ∀ g, HandlerOk (planAt p g)) :
    ∀ (rqs : List Req) (cache : Option Cache) (gen : Nat), CacheOk cache →
      AllFramed rqs (serveAll pg p rqs cache gen) := by
  intro rqs
  induction rqs with
  | nil => intro _ _ _; trivial
  | cons rq rest ih =>
    intro cache gen hc
    have h := serve_framed pg rq (planAt p gen) cache (hok gen) hc
    simp only [serveAll]
    exact ⟨h.1, ih _ _ h.2⟩

theorem C06_history_from_empty (pg : Pages) (p : Plan) (hok : ∀ g, HandlerOk (planAt p g)) (rqs : List Req) :
    AllFramed rqs (serveAll pg p rqs none 0) :=
  C06_history pg p hok rqs none 0 CacheOk_none

theorem planAt_t (p : Plan) (g : Nat) : (planAt p g).t = p.t := by cases g <;> rfl
theorem planAt_setCL (p : Plan) (g : Nat) : (planAt p g).h.setCL = p.h.setCL := by cases g <;> rfl

/-- an application that never sets a Content-Length itself (neither the handler nor `tools.response_headers`)
    and whose XML-RPC texts, if any, are declared with their encoded length meets the hypothesis on every
    invocation -/
theorem handlerOk_of_no_own_length (p : Plan) (h : p.h.setCL = none) (hrh : p.t.rhCL = none)
    (hx : ∀ g t, (planAt p g).h.shape = .xmlrpcV t → XmlOk t)
    (he : ∀ t, p.t.errResp = .xmlrpc t → XmlOk t) : ∀ g, HandlerOk (planAt p g) := by
  intro g
  refine ⟨fun n hn => ?_, fun t ht => .inl (hx g t ht), fun t ht => he t (by rw [planAt_t] at ht; exact ht)⟩
  simp [ownCL, planAt_t, planAt_setCL, h, hrh] at hn

/-- every ASCII text is declared with its encoded length, whichever way `_set_response` counts -/
theorem xmlOk_of_same_length (t : List Char) (h : t.length = (encodeText .utf8 t).length) : XmlOk t := by
  unfold XmlOk xmlLen
  split
  · exact h
  · rfl

/-! ### HEAD -/

/-- the same request as a GET -/
def asGet (rq : Req) : Req := { rq with method := .get }

/-- Nothing before the HEAD removal looks at the difference between GET and HEAD: the finalized
    response, the cache state and the hit flag are *identical*. -/
theorem etagsStep_head (rq : Req) (r : Resp) (hm : rq.method = .head) :
    etagsStep rq r = etagsStep (asGet rq) r := by
  have hs : rq.safe = (asGet rq).safe := by simp only [Req.safe, asGet, hm]; decide
  simp only [etagsStep, etagsCond, hs]
  rfl

theorem applyStep_head (pg : Pages) (rq : Req) (cached : Bool) (hm : rq.method = .head) (st : Step) (r : Resp) :
    applyStep pg rq cached st r = applyStep pg (asGet rq) cached st r := by
  cases st with
  | etags => exact etagsStep_head rq r hm
  | expires _ => rfl
  | flatten => rfl
  | gzip => rfl
  | tee => rfl
  | probe _ _ => rfl
  | sessions => rfl
  | autovary => rfl

theorem runFailsafe_head (pg : Pages) (rq : Req) (cached : Bool) (hm : rq.method = .head) :
    ∀ (steps : List Step) (r : Resp) (e : Exn),
      runFailsafe pg rq cached steps r e = runFailsafe pg (asGet rq) cached steps r e := by
  intro steps
  induction steps with
  | nil => intro r e; rfl
  | cons st rest ih =>
    intro r e
    simp only [runFailsafe, applyStep_head pg rq cached hm st r, ih]

theorem runSteps_head (pg : Pages) (rq : Req) (cached : Bool) (hm : rq.method = .head) :
    ∀ (steps : List Step) (r : Resp), runSteps pg rq cached steps r = runSteps pg (asGet rq) cached steps r := by
  intro steps
  induction steps with
  | nil => intro r; rfl
  | cons st rest ih =>
    intro r
    simp only [runSteps, applyStep_head pg rq cached hm st r, ih, runFailsafe_head pg rq cached hm]

theorem finalize_head (rq : Req) (s : St) : finalize rq s = finalize (asGet rq) s := rfl

theorem hooksAndFinalize_head (pg : Pages) (rq : Req) (cached : Bool) (hooks : List Step) (s : St)
    (hm : rq.method = .head) :
    hooksAndFinalize pg rq cached hooks s = hooksAndFinalize pg (asGet rq) cached hooks s := by
  simp only [hooksAndFinalize, runSteps_head pg rq cached hm, finalize_head rq]

theorem handleError_head (pg : Pages) (rq : Req) (fails : Bool) (er : ErrResp) (s : St) :
    handleError pg rq fails er s = handleError pg (asGet rq) fails er s := rfl

theorem safe_head (rq : Req) (hm : rq.method = .head) : rq.safe = (asGet rq).safe := by
  simp only [Req.safe, asGet, hm]; decide

theorem validateSince_head (rq : Req) (r : Resp) (hm : rq.method = .head) :
    validateSince rq r = validateSince (asGet rq) r := by
  simp only [validateSince, safe_head rq hm]
  rfl

theorem serveFile_head (pg : Pages) (rq : Req) (b : Bytes) (r : Resp) (hm : rq.method = .head) :
    serveFile pg rq b r = serveFile pg (asGet rq) b r := by
  simp only [serveFile, validateSince_head rq _ hm]
  rfl

theorem handlerStage_head (pg : Pages) (rq : Req) (p : Plan) (r : Resp) (hm : rq.method = .head) :
    handlerStage pg rq p r = handlerStage pg (asGet rq) p r := by
  simp only [handlerStage, handlerStatic, serveFile_head pg rq _ _ hm]
  rfl

theorem beforeHandlerTools_head (pg : Pages) (rq : Req) (p : Plan) (r : Resp) (hm : rq.method = .head) :
    beforeHandlerTools pg rq p r = beforeHandlerTools pg (asGet rq) p r := by
  simp only [beforeHandlerTools, staticToolStage, serveFile_head pg rq _ _ hm, safe_head rq hm]
  rfl

theorem earlyExn_head (rq : Req) (t : Tools) (hm : rq.method = .head) : earlyExn rq t = earlyExn (asGet rq) t := by
  simp only [earlyExn, asGet, hm]
  rfl

theorem beforeAndHandler_head (pg : Pages) (rq : Req) (p : Plan) (cache : Option Cache) (hm : rq.method = .head) :
    beforeAndHandler pg rq p cache = beforeAndHandler pg (asGet rq) p cache := by
  have h1 : ¬ rq.method = .post := by rw [hm]; decide
  have h2 : ¬ (asGet rq).method = .post := by simp [asGet]
  have h3 : ∀ c : Cache, c.find rq = c.find (asGet rq) := fun _ => rfl
  have h4 : ∀ ent, cacheDecision rq ent = cacheDecision (asGet rq) ent := fun _ => rfl
  have h5 : (asGet rq).cc = rq.cc := rfl
  have h6 : ∀ todo r, runHandler pg rq p todo r = runHandler pg (asGet rq) p todo r := by
    intro todo r
    simp only [runHandler, handlerStage_head pg rq p r hm]
  have h7 : ∀ r, validateSince rq r = validateSince (asGet rq) r := fun r => validateSince_head rq r hm
  have h8 : freshResp rq p.t = freshResp (asGet rq) p.t := rfl
  simp only [beforeAndHandler, h1, h2, if_false, h3, h4, h5, h6, h7, h8, earlyExn_head rq p.t hm,
    beforeHandlerTools_head pg rq p _ hm]

theorem recover_head (pg : Pages) (rq : Req) (fails : Bool) (er : ErrResp) (cached : Bool) (hooks : List Step)
    (first : St × Option Exn) (hm : rq.method = .head) :
    recover pg rq fails er cached hooks first = recover pg (asGet rq) fails er cached hooks first := by
  simp only [recover, handleError_head pg rq fails er, hooksAndFinalize_head pg rq cached hooks _ hm]

/-- Nothing before the HEAD removal looks at the difference between GET and HEAD: the finalized
    response, the cache state and the hit flag are *identical*. -/
theorem respond_head_eq_get (pg : Pages) (rq : Req) (p : Plan) (cache : Option Cache)
    (hm : rq.method = .head) : respond pg rq p cache = respond pg (asGet rq) p cache := by
  have hfp : firstPass pg rq p cache = firstPass pg (asGet rq) p cache := by
    simp only [firstPass, beforeAndHandler_head pg rq p cache hm]
    generalize beforeAndHandler pg (asGet rq) p cache = bh
    obtain ⟨s, e, cached, teeOn⟩ := bh
    cases e with
    | some e => rfl
    | none => simp only [hooksAndFinalize_head pg rq cached _ s hm]
  simp only [respond, hfp]
  generalize firstPass pg (asGet rq) p cache = fp
  obtain ⟨first, cached, hooks⟩ := fp
  simp only [recover_head pg rq p.t.errFails p.t.errResp cached hooks first hm]

/-- **C06, HEAD part**: HEAD answers with the status, Content-Type and Content-Length the
    corresponding GET commits to, and delivers zero bytes.  (`first` = what the GET's application
    passes to its first `start_response`; for a non-streamed response that is also what the client
    receives, see `C06_head_nonstream`.) -/
theorem C06_head (pg : Pages) (rq : Req) (p : Plan) (cache : Option Cache) (hm : rq.method = .head) :
    let o := (serve pg rq p cache).1
    let g := (respond pg (asGet rq) p cache).1.r
    o.delivered = [] ∧ o.code = codeOf g ∧ o.cl = g.hdrs .contentLength ∧ o.ctype = g.hdrs .contentType := by
  have h := respond_head_eq_get pg rq p cache hm
  simp only [serve, hm, if_true, deliver_nil, endOf_clean]
  rw [← h]
  simp [codeOf]

/-- for a non-streamed response the GET twin really delivers those headers (its body cannot fail
    while being iterated) -/
theorem C06_head_nonstream (pg : Pages) (rq : Req) (p : Plan) (cache : Option Cache)
    (hm : rq.method = .head) (hok : HandlerOk p) (hc : CacheOk cache)
    (hs : (serve pg (asGet rq) p cache).1.stream = false) :
    let o := (serve pg rq p cache).1
    let g := (serve pg (asGet rq) p cache).1
    o.delivered = [] ∧ o.code = g.code ∧ o.cl = g.cl ∧ o.ctype = g.ctype := by
  have hh := C06_head pg rq p cache hm
  have hg := respond_ok pg (asGet rq) p cache hok hc
  simp only at hh ⊢
  refine ⟨hh.1, ?_⟩
  rw [hh.2.1, hh.2.2.1, hh.2.2.2]
  -- the GET side: not replaced by the bare 500, because a framed buffered body is clean bytes
  have hstream : (respond pg (asGet rq) p cache).1.r.stream = false := by
    have : (serve pg (asGet rq) p cache).1.stream = (respond pg (asGet rq) p cache).1.r.stream := by
      simp only [serve]
      generalize respond pg (asGet rq) p cache = rs
      obtain ⟨s0, c0⟩ := rs
      simp only
      generalize deliver (if (asGet rq).method = Method.head then [] else s0.r.body.chunks) = de
      obtain ⟨d0, e0⟩ := de
      simp only
      split <;> rfl
    rw [← this]; exact hs
  obtain ⟨hcl, hnbf, hfr⟩ := hg.1
  have hfr := hfr hstream
  have hclean : ∃ d, deliver (respond pg (asGet rq) p cache).1.r.body.chunks = (d, .clean) := by
    by_cases hnb : noBody (codeOf (respond pg (asGet rq) p cache).1.r) = true
    · rw [(hnbf hnb).2]; exact ⟨[], rfl⟩
    · obtain ⟨n, hn⟩ := hfr (by simpa using hnb)
      rcases CLok_cases hcl with h0 | h0 | ⟨n', h0, hb, _⟩
      · rw [h0] at hn; cases hn
      · rw [h0] at hn; cases hn
      · exact ⟨_, deliver_allBytes _ hb⟩
  obtain ⟨d, hd⟩ := hclean
  have hget : (asGet rq).method ≠ .head := by simp [asGet]
  simp only [serve, hget, if_false, hd, endOf_clean]
  simp [codeOf]

/-! ### what is false on the unchanged code -/

/-- stand-in page texts for the concrete witnesses -/
def pg0 : Pages :=
  { tmpl := fun _ => List.replicate 600 84, custom := none, redir := fun _ => [82], partHead := fun _ _ => [80],
    partTail := [81], bare := [66], z := fun b => 90 :: b, zHead := [90] }

/-- The streamed statement *without* the precondition on the application. -/
def C06_stream_full : Prop :=
  ∀ (pg : Pages) (rq : Req) (p : Plan),
    let o := (serve pg rq p none).1
    o.stream = true → ∀ n, o.cl = some (.nat n) → rq.method ≠ .head → o.delivered.length = n

/-- It is false whatever the framework does: a handler that streams three bytes and declares five. -/
theorem C06_stream_full_false : ¬ C06_stream_full := by
  intro h
  have := h pg0 {} { h := { shape := .bytesV [1, 2, 3], setCL := some 5 }, t := { stream := true } }
    (by decide) 5 (by decide) (by decide)
  revert this
  decide

/-- finding C06-F1 — the handler returns the text 'é', sets Content-Length: 2 (right for UTF-8) and streams;
    the client asked for ISO-8859-1: one byte.  The streaming branch of tools.encode keeps that header on the
    unchanged code and deletes it once repaired (the flag is read from the live code): the response disagrees
    with itself exactly as long as the header is kept. -/
def witnessPlan : Plan :=
  { h := { shape := .strV ['é'], setCL := some 2 }, t := { encode := true, stream := true } }
def witnessReq : Req := { charsets := [.latin1], dfltOnly := false }

theorem F1_witness_iff :
    (let o := (serve pg0 witnessReq witnessPlan none).1
     o.stream = true ∧ o.cl = some (.nat 2) ∧ o.delivered.length = 1) ↔ Gen.C06.encodeStreamKeepsCL = true := by
  decide

/-- ... and that witness is exactly what `HandlerOk` excludes as long as the header is kept -/
example (hk : Gen.C06.encodeStreamKeepsCL = true) : ¬ HandlerOk witnessPlan := by
  intro h
  rcases h.1 2 rfl with ⟨h1, _⟩ | ⟨_, _, h2⟩
  · revert h1; decide
  · have := (h2 hk).1; revert this; decide

/-- once `encode_stream` deletes the header, a text handler with its own length under tools.encode meets
    `HandlerOk` also when it streams -/
theorem handlerOk_witness_of_repaired (hk : Gen.C06.encodeStreamKeepsCL = false) : HandlerOk witnessPlan := by
  refine ⟨fun n _ => .inr ⟨rfl, rfl, fun h => ?_⟩, ⟨fun t ht => (by cases ht), fun t ht => (by cases ht)⟩⟩
  rw [hk] at h; cases h

/-! ### non-bytes body items at the WSGI boundary -/

/-- once `AppResponse.__next__` refuses them, no response ever hands a non-bytes item to the server: the iteration
    ends cleanly or as a failure of the body iterator -/
theorem endOf_never_nonBytes (h : Gen.C06.nextRefusesNonBytes = true) (e : End) : endOf e ≠ .nonBytes := by
  unfold endOf
  cases e <;> simp [h]

/-- a streamed handler (tools.encode off) whose first item is a str: answered with the framed bare 500 exactly when
    `__next__` refuses the item (otherwise the str reaches the server) -/
theorem nonbytes_first_item_iff :
    (let o := (serve pg0 {} { h := { shape := .genV [.text ['a']] }, t := { stream := true } } none).1
     o.code = 500 ∧ o.src = .bare ∧ o.ending = .clean ∧ o.cl = some (.nat 1) ∧ o.delivered.length = 1) ↔
    Gen.C06.nextRefusesNonBytes = true := by
  decide

/-! ### XML-RPC (finding C06-F2) -/

/-- on the unchanged code (`len(text)`: characters) the declared length is wrong for some text … -/
theorem xmlrpc_length_false_of_chars (h : Gen.C06.xmlrpcCountsChars = true) : ¬ ∀ t, XmlOk t := by
  intro hall
  have := hall ['é']
  unfold XmlOk xmlLen at this
  rw [if_pos h] at this
  revert this
  decide

/-- … and right for every text once the bytes are counted -/
theorem xmlOk_of_repaired (h : Gen.C06.xmlrpcCountsChars = false) (t : List Char) : XmlOk t := by
  unfold XmlOk xmlLen
  simp [h]

/-- the XML-RPC fault answering an exception whose text is 'é' (tools.xmlrpc's on_error, reached through
    handle_error, where no encode tool runs): one byte too few is declared exactly as long as characters are
    counted -/
theorem F2_witness_iff :
    (let p : Plan := { h := { shape := .xmlrpcV ['o', 'k'], st := .raiseExc }, t := { errResp := .xmlrpc ['é'] } }
     let o := (serve pg0 { method := .post } p none).1
     o.code = 200 ∧ o.stream = false ∧ o.cl = some (.nat 1) ∧ o.delivered.length = 2) ↔
    Gen.C06.xmlrpcCountsChars = true := by
  decide

/-- an XML-RPC application whose texts are ASCII (or any application once the bytes are counted) meets the
    hypothesis, so all the framing theorems apply to it -/
theorem handlerOk_xmlrpc (t ft : List Char) (tl : Tools) (ht : XmlOk t) (hft : XmlOk ft)
    (hrh : tl.rhCL = none) (he : tl.errResp = .xmlrpc ft) :
    HandlerOk { h := { shape := .xmlrpcV t }, t := tl } := by
  refine ⟨fun n hn => ?_, ⟨fun t' ht' => ?_, fun t' ht' => ?_⟩⟩
  · simp [ownCL, hrh] at hn
  · cases ht'; exact .inl ht
  · rw [he] at ht'; cases ht'; exact hft

/-- The stale / fresh header flow in `caching.get`: a stored copy that is too old for the request's
    `max-age` is ignored *together with its headers* — the regenerated (longer) body goes out with its own
    Content-Length, is stored with it, and a later HEAD hit reports that length. -/
theorem stale_copy_ignored_with_its_headers :
    let p : Plan := { h := { shape := .bytesV [1, 2, 3], later := [.bytesV [1, 2, 3, 4, 5]], ct := .octet },
                      t := { caching := true } }
    let obs := serveAll pg0 p [{ now := 0 }, { now := 20, cc := .maxAge 10 }, { now := 21, method := .head }] none 0
    obs.map (fun o => (o.cached, o.cl, o.delivered.length)) =
      [(false, some (.nat 3), 3), (false, some (.nat 5), 5), (true, some (.nat 5), 0)] := by
  decide

/-- The bodiless statuses are stripped for streamed responses too (`finalize` tests them before it looks at
    `stream`): a handler that picks 204 and streams a body has that body discarded. -/
theorem stream_204_stripped :
    let o := (serve pg0 {} { h := { shape := .bytesV [1, 2, 3], st := .set 204 }, t := { stream := true } } none).1
    o.code = 204 ∧ o.stream = true ∧ o.cl = none ∧ o.delivered = [] := by
  decide

/-- the last-resort branch is reachable (error_response itself raises) and is framed like any other
    response: `bare_error` carries its own exact Content-Length -/
theorem bare_error_framed :
    let o := (serve pg0 {} { h := { shape := .bytesV [1, 2, 3], st := .raiseExc, setCL := some 3 },
                             t := { errFails := true } } none).1
    o.code = 500 ∧ o.src = .bare ∧ o.cl = some (.nat 1) ∧ o.delivered.length = 1 := by
  decide

/-- `Content-Length: None` (serve_fileobj without a length) is computed by a buffered finalize and
    removed by a streaming one -/
theorem none_length_resolved :
    (serve pg0 {} { h := { shape := .fileObjV [1, 2, 3] } } none).1.cl = some (.nat 3) ∧
    (serve pg0 {} { h := { shape := .fileObjV [1, 2, 3] }, t := { stream := true } } none).1.cl = none := by
  decide

/-! ### non-vacuity -/

/-- a handler that sets its own (right) Content-Length meets `HandlerOk` … -/
example : HandlerOk { h := { shape := .genV [.bytes [1, 2], .bytes [3]], setCL := some 3 },
                      t := { gzip := true, etags := true, caching := true } } := by
  refine ⟨fun n hn => ?_, ⟨fun t ht => (by cases ht), fun t ht => (by cases ht)⟩⟩
  cases hn
  left; decide

/-- … so does a text handler with its own length under the non-streaming encode tool … -/
example : HandlerOk { h := { shape := .strV ['é'], setCL := some 1 }, t := { encode := true } } := by
  refine ⟨fun n hn => ?_, ⟨fun t ht => (by cases ht), fun t ht => (by cases ht)⟩⟩
  right
  exact ⟨rfl, rfl, fun _ => ⟨rfl, rfl⟩⟩

/-- … and the cache such a plan builds is non-empty and consistent (`CacheOk` is not vacuous) -/
example : ∃ c, (serve pg0 {} { h := { shape := .bytesV [1, 2, 3] }, t := { caching := true } } none).2 = some c ∧
    c.variants.length = 1 := by
  refine ⟨_, rfl, ?_⟩
  decide

end CpProofs.C06
