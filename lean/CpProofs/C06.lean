import CpModel.Finalize
/-!
  C06 — response framing is self-consistent for every handler and tool mix.
-/
namespace CpProofs.C06
open CpModel CpModel.Finalize

/-! ### the tables regenerated from the live code say what the statement says -/

theorem legalCodes_eq : Gen.C06.legalCodes = List.range' 100 500 := by decide +kernel

theorem noBodyCodes_eq : Gen.C06.noBodyCodes = List.range' 100 100 ++ [204, 205, 304] := by decide +kernel

/-- the statuses `finalize` accepts are exactly 100..599 -/
theorem legal_table_spec (c : Nat) : legal c = true ↔ 100 ≤ c ∧ c ≤ 599 := by
  simp only [legal, legalCodes_eq, List.contains_iff_mem, List.mem_range'_1]
  omega

/-- `Response.finalize` strips body and Content-Length exactly for 1xx, 204, 205, 304. -/
theorem noBody_table_spec (c : Nat) :
    noBody c = true ↔ (100 ≤ c ∧ c < 200) ∨ c = 204 ∨ c = 205 ∨ c = 304 := by
  simp only [noBody, noBodyCodes_eq, List.contains_iff_mem, List.mem_append, List.mem_range'_1,
    List.mem_cons, List.not_mem_nil, or_false]
  try omega

end CpProofs.C06
