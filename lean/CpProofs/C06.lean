import CpProofs.C06Pipeline
/-!
  C06 — response framing is self-consistent for every handler and tool mix.

  Statement (properties.jsonl): every non-streamed response carries a Content-Length equal to the
  bytes delivered, except 1xx/204/205/304 which carry neither; HEAD = the GET's status,
  Content-Type and Content-Length with zero body bytes; a streamed response never carries a
  Content-Length that disagrees with the bytes it produces.

  The theorems are about `CpModel.Finalize` (the transcription of finalize, the built-in tools, the
  error / redirect responses, `respond`, HEAD removal and the WSGI iteration).  They quantify over
  every page text / gzip function (`Pages`), every request, every plan (handler shape, status
  action, own headers, tool subset) and every cache content that earlier requests can have built.
  The only hypothesis is `HandlerOk`: the *handler* does not set a Content-Length that is wrong for
  its own value (the property is about the framework).  Without it the streamed part is false on
  the unchanged code (`C06_stream_full_false`, finding C06-F1).
-/
namespace CpProofs.C06
open CpModel CpModel.Finalize

/-! ### the tables regenerated from the live code say what the statement says -/

theorem legalCodes_eq : Gen.C06.legalCodes = List.range' 100 500 := by decide +kernel

theorem noBodyCodes_eq : Gen.C06.noBodyCodes = List.range' 100 100 ++ [204, 205, 304] := by decide +kernel

/-- the statuses `finalize` accepts are exactly 100..599 -/
theorem legal_table_spec (c : Nat) : legal c = true ↔ 100 ≤ c ∧ c ≤ 599 := by
  simp only [legal, legalCodes_eq, List.contains_iff_mem, List.mem_range'_1]
  omega

/-- `Response.finalize` strips body and Content-Length exactly for 1xx, 204, 205, 304. -/
theorem noBody_table_spec (c : Nat) :
    noBody c = true ↔ (100 ≤ c ∧ c < 200) ∨ c = 204 ∨ c = 205 ∨ c = 304 := by
  simp only [noBody, noBodyCodes_eq, List.contains_iff_mem, List.mem_append, List.mem_range'_1,
    List.mem_cons, List.not_mem_nil, or_false]
  first | done | omega

/-- every status for which set_response pads the page is an error status that keeps its body -/
theorem ie_table_spec : ∀ kv ∈ Gen.C06.ieSizes, 400 ≤ kv.1 ∧ kv.1 ≤ 599 ∧ noBody kv.1 = false ∧ 0 < kv.2 := by
  decide +kernel

/-- every status HTTPRedirect knows is a 3xx; the only one without a body that `finalize` also
    strips is 304 -/
theorem redirect_table_spec : ∀ kv ∈ Gen.C06.redirKinds,
    300 ≤ kv.1 ∧ kv.1 ≤ 399 ∧ kv.2 ≤ 2 ∧ (kv.2 = 1 ↔ noBody kv.1 = true) := by
  decide +kernel

/-! ### what is observed at the WSGI boundary -/

/-- The statement, for one observed response to a request with method `m`. -/
def ObsFramed (m : Method) (o : Obs) : Prop :=
  (o.stream = false →
    (noBody o.code = true → o.cl = none ∧ o.delivered = []) ∧
    (noBody o.code = false → ∃ n, o.cl = some (.nat n) ∧ o.ending = .clean ∧
      (m ≠ .head → o.delivered.length = n) ∧ (m = .head → o.delivered = []))) ∧
  (o.stream = true →
    (m = .head → o.delivered = []) ∧
    (∀ n, o.cl = some (.nat n) → m ≠ .head → o.ending = .clean ∧ o.delivered.length = n))

theorem deliver_nil : deliver [] = ([], End.clean) := rfl

/-- Framing of whatever `serve` observes, from the framing of the finalized response. -/
theorem serve_framed (pg : Pages) (rq : Req) (p : Plan) (cache : Option Cache)
    (hok : HandlerOk p) (hc : CacheOk cache) :
    ObsFramed rq.method (serve pg rq p cache).1 ∧ CacheOk (serve pg rq p cache).2 := by
  have hr := respond_ok pg rq p cache hok hc
  unfold serve
  generalize respond pg rq p cache = rs at hr
  obtain ⟨s, cached⟩ := rs
  obtain ⟨⟨hcl, hfr⟩, hcache⟩ := hr
  simp only at hcl hfr hcache ⊢
  by_cases hm : rq.method = .head
  · -- HEAD: nothing is iterated
    simp only [hm, if_true, deliver_nil]
    simp only [reduceCtorEq, false_and, if_false, ne_eq, not_true_eq_false]
    refine ⟨⟨?_, ?_⟩, hcache⟩
    · intro hs
      have := hfr hs
      refine ⟨fun hnb => ?_, fun hnb => ?_⟩
      · have hnb' : noBody (codeOf s.r) = true := hnb
        rw [if_pos hnb'] at this
        exact ⟨this.1, rfl⟩
      · have hnb' : ¬ noBody (codeOf s.r) = true := by rw [show noBody (codeOf s.r) = false from hnb]; simp
        rw [if_neg hnb'] at this
        obtain ⟨n, hn⟩ := this
        exact ⟨n, hn, rfl, fun h => absurd rfl h, fun _ => rfl⟩
    · intro _
      exact ⟨fun _ => rfl, fun n _ h => absurd rfl h⟩
  · simp only [hm, if_false]
    rcases CLok_cases hcl with h0 | h0 | ⟨n, h0, hb, hl⟩
    · -- no Content-Length
      have hnostream : s.r.stream = false → noBody (codeOf s.r) = true ∧ s.r.body.chunks = [] := by
        intro hs
        have := hfr hs
        by_cases hnb : noBody (codeOf s.r) = true
        · rw [if_pos hnb] at this; exact ⟨hnb, this.2⟩
        · rw [if_neg hnb] at this; obtain ⟨n, hn⟩ := this; rw [h0] at hn; cases hn
      generalize hd : deliver s.r.body.chunks = de
      obtain ⟨d, e⟩ := de
      simp only
      split
      · -- replaced by the bare 500
        rename_i hbare
        refine ⟨⟨?_, ?_⟩, hcache⟩
        · intro hs
          have ⟨_, hch⟩ := hnostream hs
          rw [hch, deliver_nil] at hd
          cases hd
          simp at hbare
        · intro _
          refine ⟨fun h => absurd h hm, fun n hn _ => ?_⟩
          simp only at hn
          cases hn
          exact ⟨rfl, rfl⟩
      · refine ⟨⟨?_, ?_⟩, ?_⟩
        · intro hs
          have ⟨hnb, hch⟩ := hnostream hs
          rw [hch, deliver_nil] at hd
          cases hd
          refine ⟨fun _ => ⟨h0, rfl⟩, fun hnb' => ?_⟩
          have : noBody (codeOf s.r) = false := hnb'
          rw [hnb] at this; cases this
        · intro _
          refine ⟨fun h => absurd h hm, fun n hn _ => ?_⟩
          simp only at hn
          rw [h0] at hn; cases hn
        · split
          · split
            · rename_i c' htee
              exact teeDone_ok s.cache rq s.r _ c' hcache hcl htee
            · exact hcache
          · exact hcache
    · -- Content-Length: None cannot survive finalize of a buffered response; harmless when streaming
      have hnostream : s.r.stream = false → noBody (codeOf s.r) = true ∧ s.r.body.chunks = [] := by
        intro hs
        have := hfr hs
        by_cases hnb : noBody (codeOf s.r) = true
        · rw [if_pos hnb] at this; rw [h0] at this; cases this.1
        · rw [if_neg hnb] at this; obtain ⟨n, hn⟩ := this; rw [h0] at hn; cases hn
      generalize hd : deliver s.r.body.chunks = de
      obtain ⟨d, e⟩ := de
      simp only
      have hcontra : s.r.stream = false → False := by
        intro hs
        have := hfr hs
        by_cases hnb : noBody (codeOf s.r) = true
        · rw [if_pos hnb] at this; rw [h0] at this; cases this.1
        · rw [if_neg hnb] at this; obtain ⟨n, hn⟩ := this; rw [h0] at hn; cases hn
      split
      · refine ⟨⟨fun hs => (hcontra hs).elim, ?_⟩, hcache⟩
        intro _
        refine ⟨fun h => absurd h hm, fun n hn _ => ?_⟩
        simp only at hn
        cases hn
        exact ⟨rfl, rfl⟩
      · refine ⟨⟨fun hs => (hcontra hs).elim, ?_⟩, ?_⟩
        · intro _
          refine ⟨fun h => absurd h hm, fun n hn _ => ?_⟩
          simp only at hn
          rw [h0] at hn; cases hn
        · split
          · split
            · rename_i c' htee
              exact teeDone_ok s.cache rq s.r _ c' hcache hcl htee
            · exact hcache
          · exact hcache
    · -- a numeric Content-Length: the body is clean bytes of exactly that length
      rw [deliver_allBytes _ hb]
      simp only [reduceCtorEq, false_and, if_false]
      refine ⟨⟨?_, ?_⟩, ?_⟩
      · intro hs
        have := hfr hs
        refine ⟨fun hnb => ?_, fun _ => ⟨n, h0, rfl, fun _ => hl, fun h => absurd h hm⟩⟩
        have hnb' : noBody (codeOf s.r) = true := hnb
        rw [if_pos hnb'] at this
        rw [h0] at this; cases this.1
      · intro _
        refine ⟨fun h => absurd h hm, fun n' hn _ => ?_⟩
        simp only at hn
        rw [h0] at hn
        cases hn
        exact ⟨rfl, hl⟩
      · split
        · split
          · rename_i c' htee
            exact teeDone_ok s.cache rq s.r _ c' hcache hcl htee
          · exact hcache
        · exact hcache


/-- **C06, non-streamed part**: Content-Length present and equal to the delivered bytes; 1xx / 204 /
    205 / 304 carry neither; HEAD delivers nothing. -/
theorem C06_nonstream (pg : Pages) (rq : Req) (p : Plan) (cache : Option Cache)
    (hok : HandlerOk p) (hc : CacheOk cache) (hs : (serve pg rq p cache).1.stream = false) :
    let o := (serve pg rq p cache).1
    (noBody o.code = true → o.cl = none ∧ o.delivered = []) ∧
    (noBody o.code = false → ∃ n, o.cl = some (.nat n) ∧ o.ending = .clean ∧
      (rq.method ≠ .head → o.delivered.length = n) ∧ (rq.method = .head → o.delivered = [])) :=
  (serve_framed pg rq p cache hok hc).1.1 hs

/-- **C06, streamed part** (partial: needs `HandlerOk`, see `C06_stream_full_false`): a streamed
    response's Content-Length, when there is one, is exactly what the body produces, and the
    production ends cleanly. -/
theorem C06_stream_partial (pg : Pages) (rq : Req) (p : Plan) (cache : Option Cache)
    (hok : HandlerOk p) (hc : CacheOk cache) (hs : (serve pg rq p cache).1.stream = true) :
    let o := (serve pg rq p cache).1
    (rq.method = .head → o.delivered = []) ∧
    (∀ n, o.cl = some (.nat n) → rq.method ≠ .head → o.ending = .clean ∧ o.delivered.length = n) :=
  (serve_framed pg rq p cache hok hc).1.2 hs

/-- The cache built by any request history only holds entries whose stored Content-Length equals the
    stored body (this is what makes the theorems above hold for *later* requests too). -/
theorem C06_cache_consistent (pg : Pages) (rq : Req) (p : Plan) (cache : Option Cache)
    (hok : HandlerOk p) (hc : CacheOk cache) : CacheOk (serve pg rq p cache).2 :=
  (serve_framed pg rq p cache hok hc).2

/-- the statement for a whole request history against one application, starting from any
    consistent cache (in particular the empty one) -/
def AllFramed : List Req → List Obs → Prop
  | [], [] => True
  | rq :: rqs, o :: os => ObsFramed rq.method o ∧ AllFramed rqs os
  | _, _ => False

/-- Histories: the handler may return a different value on every invocation (`Handler.later`), requests
    carry a logical time and cache directives (max-age, no-cache, Pragma, no-store), so a stored copy can be
    hit, ignored as too old, bypassed or replaced at any point; the cache content and the invocation
    count are part of the induction. -/
theorem C06_history (pg : Pages) (p : Plan) (hok : ∀ g, HandlerOk (planAt p g)) :
    ∀ (rqs : List Req) (cache : Option Cache) (gen : Nat), CacheOk cache →
      AllFramed rqs (serveAll pg p rqs cache gen) := by
  intro rqs
  induction rqs with
  | nil => intro _ _ _; trivial
  | cons rq rest ih =>
    intro cache gen hc
    have h := serve_framed pg rq (planAt p gen) cache (hok gen) hc
    simp only [serveAll]
    exact ⟨h.1, ih _ _ h.2⟩

theorem C06_history_from_empty (pg : Pages) (p : Plan) (hok : ∀ g, HandlerOk (planAt p g)) (rqs : List Req) :
    AllFramed rqs (serveAll pg p rqs none 0) :=
  C06_history pg p hok rqs none 0 CacheOk_none

/-- a handler that never sets its own Content-Length meets the hypothesis on every invocation -/
theorem handlerOk_of_no_own_length (p : Plan) (h : p.h.setCL = none) : ∀ g, HandlerOk (planAt p g) := by
  intro g n hn
  cases g with
  | zero => simp [planAt, h] at hn
  | succ g => simp [planAt, h] at hn

/-! ### HEAD -/

/-- the same request as a GET -/
def asGet (rq : Req) : Req := { rq with method := .get }

/-- Nothing before the HEAD removal looks at the difference between GET and HEAD: the finalized
    response, the cache state and the hit flag are *identical*. -/
theorem etagsStep_head (rq : Req) (r : Resp) (hm : rq.method = .head) :
    etagsStep rq r = etagsStep (asGet rq) r := by
  have hs : rq.safe = (asGet rq).safe := by simp only [Req.safe, asGet, hm]; decide
  simp only [etagsStep, etagsCond, hs]
  rfl

theorem runSteps_head (pg : Pages) (rq : Req) (cached : Bool) (hm : rq.method = .head) :
    ∀ (steps : List Step) (r : Resp), runSteps pg rq cached steps r = runSteps pg (asGet rq) cached steps r := by
  intro steps
  induction steps with
  | nil => intro r; rfl
  | cons st rest ih =>
    intro r
    have h1 : applyStep pg rq cached st r = applyStep pg (asGet rq) cached st r := by
      cases st with
      | etags => exact etagsStep_head rq r hm
      | expires => rfl
      | flatten => rfl
      | gzip => rfl
      | tee => rfl
      | probe _ _ => rfl
    simp only [runSteps, h1, ih]

theorem finalize_head (rq : Req) (s : St) : finalize rq s = finalize (asGet rq) s := rfl

theorem hooksAndFinalize_head (pg : Pages) (rq : Req) (cached : Bool) (hooks : List Step) (s : St)
    (hm : rq.method = .head) :
    hooksAndFinalize pg rq cached hooks s = hooksAndFinalize pg (asGet rq) cached hooks s := by
  simp only [hooksAndFinalize, runSteps_head pg rq cached hm, finalize_head rq]

theorem handleError_head (pg : Pages) (rq : Req) (fails : Bool) (s : St) :
    handleError pg rq fails s = handleError pg (asGet rq) fails s := rfl

theorem handlerStage_head (pg : Pages) (rq : Req) (p : Plan) (r : Resp) :
    handlerStage pg rq p r = handlerStage pg (asGet rq) p r := rfl

theorem beforeAndHandler_head (pg : Pages) (rq : Req) (p : Plan) (cache : Option Cache) (hm : rq.method = .head) :
    beforeAndHandler pg rq p cache = beforeAndHandler pg (asGet rq) p cache := by
  have h1 : ¬ rq.method = .post := by rw [hm]; decide
  have h2 : ¬ (asGet rq).method = .post := by simp [asGet]
  have h3 : ∀ c : Cache, c.find rq = c.find (asGet rq) := fun _ => rfl
  have h4 : ∀ ent, cacheDecision rq ent = cacheDecision (asGet rq) ent := fun _ => rfl
  have h5 : (asGet rq).cc = rq.cc := rfl
  simp only [beforeAndHandler, h1, h2, if_false, handlerStage_head pg rq p, h3, h4, h5]

theorem recover_head (pg : Pages) (rq : Req) (fails cached : Bool) (hooks : List Step) (first : St × Option Exn)
    (hm : rq.method = .head) :
    recover pg rq fails cached hooks first = recover pg (asGet rq) fails cached hooks first := by
  simp only [recover, handleError_head pg rq fails, hooksAndFinalize_head pg rq cached hooks _ hm]

/-- Nothing before the HEAD removal looks at the difference between GET and HEAD: the finalized
    response, the cache state and the hit flag are *identical*. -/
theorem respond_head_eq_get (pg : Pages) (rq : Req) (p : Plan) (cache : Option Cache)
    (hm : rq.method = .head) : respond pg rq p cache = respond pg (asGet rq) p cache := by
  have hfp : firstPass pg rq p cache = firstPass pg (asGet rq) p cache := by
    simp only [firstPass, beforeAndHandler_head pg rq p cache hm]
    generalize beforeAndHandler pg (asGet rq) p cache = bh
    obtain ⟨s, e, cached, teeOn⟩ := bh
    cases e with
    | some e => rfl
    | none => simp only [hooksAndFinalize_head pg rq cached _ s hm]
  simp only [respond, hfp]
  generalize firstPass pg (asGet rq) p cache = fp
  obtain ⟨first, cached, hooks⟩ := fp
  simp only [recover_head pg rq p.t.errFails cached hooks first hm]

/-- **C06, HEAD part**: HEAD answers with the status, Content-Type and Content-Length the
    corresponding GET commits to, and delivers zero bytes.  (`first` = what the GET's application
    passes to its first `start_response`; for a non-streamed response that is also what the client
    receives, see `C06_head_nonstream`.) -/
theorem C06_head (pg : Pages) (rq : Req) (p : Plan) (cache : Option Cache) (hm : rq.method = .head) :
    let o := (serve pg rq p cache).1
    let g := (respond pg (asGet rq) p cache).1.r
    o.delivered = [] ∧ o.code = codeOf g ∧ o.cl = g.hdrs .contentLength ∧ o.ctype = g.hdrs .contentType := by
  have h := respond_head_eq_get pg rq p cache hm
  simp only [serve, hm, if_true, deliver_nil]
  rw [← h]
  simp [codeOf]

/-- for a non-streamed response the GET twin really delivers those headers (its body cannot fail
    while being iterated) -/
theorem C06_head_nonstream (pg : Pages) (rq : Req) (p : Plan) (cache : Option Cache)
    (hm : rq.method = .head) (hok : HandlerOk p) (hc : CacheOk cache)
    (hs : (serve pg (asGet rq) p cache).1.stream = false) :
    let o := (serve pg rq p cache).1
    let g := (serve pg (asGet rq) p cache).1
    o.delivered = [] ∧ o.code = g.code ∧ o.cl = g.cl ∧ o.ctype = g.ctype := by
  have hh := C06_head pg rq p cache hm
  have hg := respond_ok pg (asGet rq) p cache hok hc
  simp only at hh ⊢
  refine ⟨hh.1, ?_⟩
  rw [hh.2.1, hh.2.2.1, hh.2.2.2]
  -- the GET side: not replaced by the bare 500, because a framed buffered body is clean bytes
  have hstream : (respond pg (asGet rq) p cache).1.r.stream = false := by
    have : (serve pg (asGet rq) p cache).1.stream = (respond pg (asGet rq) p cache).1.r.stream := by
      simp only [serve]
      generalize respond pg (asGet rq) p cache = rs
      obtain ⟨s0, c0⟩ := rs
      simp only
      generalize deliver (if (asGet rq).method = Method.head then [] else s0.r.body.chunks) = de
      obtain ⟨d0, e0⟩ := de
      simp only
      split <;> rfl
    rw [← this]; exact hs
  obtain ⟨hcl, hfr⟩ := hg.1
  have hfr := hfr hstream
  have hclean : ∃ d, deliver (respond pg (asGet rq) p cache).1.r.body.chunks = (d, .clean) := by
    by_cases hnb : noBody (codeOf (respond pg (asGet rq) p cache).1.r) = true
    · rw [if_pos hnb] at hfr; rw [hfr.2]; exact ⟨[], rfl⟩
    · rw [if_neg hnb] at hfr
      obtain ⟨n, hn⟩ := hfr
      rcases CLok_cases hcl with h0 | h0 | ⟨n', h0, hb, _⟩
      · rw [h0] at hn; cases hn
      · rw [h0] at hn; cases hn
      · exact ⟨_, deliver_allBytes _ hb⟩
  obtain ⟨d, hd⟩ := hclean
  have hget : (asGet rq).method ≠ .head := by simp [asGet]
  simp only [serve, hget, if_false, hd]
  simp [codeOf]

/-! ### what is false on the unchanged code -/

/-- stand-in page texts for the concrete witnesses -/
def pg0 : Pages :=
  { tmpl := fun _ => List.replicate 600 84, custom := none, redir := fun _ => [82], partHead := fun _ _ => [80],
    partTail := [81], bare := [66], z := fun b => 90 :: b, zHead := [90] }

/-- The streamed statement *without* the precondition on the handler. -/
def C06_stream_full : Prop :=
  ∀ (pg : Pages) (rq : Req) (p : Plan),
    let o := (serve pg rq p none).1
    o.stream = true → ∀ n, o.cl = some (.nat n) → rq.method ≠ .head → o.delivered.length = n

/-- witness: the handler returns the text 'é', sets Content-Length: 2 (right for UTF-8) and streams;
    tools.encode (streaming branch) keeps that header; the client asked for ISO-8859-1: one byte. -/
def witnessPlan : Plan :=
  { h := { shape := .strV ['é'], setCL := some 2 }, t := { encode := true, stream := true } }
def witnessReq : Req := { charsets := [.latin1], dfltOnly := false }

theorem C06_stream_full_false : ¬ C06_stream_full := by
  intro h
  have := h pg0 witnessReq witnessPlan (by decide) 2 (by decide) (by decide)
  revert this
  decide

/-- ... and that witness is exactly what `HandlerOk` excludes -/
example : ¬ HandlerOk witnessPlan := by
  intro h
  rcases h 2 rfl with ⟨h1, _⟩ | ⟨_, h2, _⟩
  · revert h1; decide
  · revert h2; decide

/-- The stale / fresh header flow in `caching.get`: a stored copy that is too old for the request's
    `max-age` is ignored *together with its headers* — the regenerated (longer) body goes out with its own
    Content-Length, is stored with it, and a later HEAD hit reports that length. -/
theorem stale_copy_ignored_with_its_headers :
    let p : Plan := { h := { shape := .bytesV [1, 2, 3], later := [.bytesV [1, 2, 3, 4, 5]], ct := .octet },
                      t := { caching := true } }
    let obs := serveAll pg0 p [{ now := 0 }, { now := 20, cc := .maxAge 10 }, { now := 21, method := .head }] none 0
    obs.map (fun o => (o.cached, o.cl, o.delivered.length)) =
      [(false, some (.nat 3), 3), (false, some (.nat 5), 5), (true, some (.nat 5), 0)] := by
  decide

/-- The no-body rule is claimed for non-streamed responses only (as in the statement): `finalize`
    tests `stream` first, so a streamed 204 keeps the body its handler produced. -/
theorem stream_204_keeps_body :
    let o := (serve pg0 {} { h := { shape := .bytesV [1, 2, 3], st := .set 204 }, t := { stream := true } } none).1
    o.code = 204 ∧ o.stream = true ∧ o.cl = none ∧ o.delivered.length = 3 := by
  decide

/-- the last-resort branch is reachable (error_response itself raises) and is framed like any other
    response: `bare_error` carries its own exact Content-Length -/
theorem bare_error_framed :
    let o := (serve pg0 {} { h := { shape := .bytesV [1, 2, 3], st := .raiseExc, setCL := some 3 },
                             t := { errFails := true } } none).1
    o.code = 500 ∧ o.src = .bare ∧ o.cl = some (.nat 1) ∧ o.delivered.length = 1 := by
  decide

/-- `Content-Length: None` (serve_fileobj without a length) is computed by a buffered finalize and
    removed by a streaming one -/
theorem none_length_resolved :
    (serve pg0 {} { h := { shape := .fileObjV [1, 2, 3] } } none).1.cl = some (.nat 3) ∧
    (serve pg0 {} { h := { shape := .fileObjV [1, 2, 3] }, t := { stream := true } } none).1.cl = none := by
  decide

/-! ### non-vacuity -/

/-- a handler that sets its own (right) Content-Length meets `HandlerOk` … -/
example : HandlerOk { h := { shape := .genV [.bytes [1, 2], .bytes [3]], setCL := some 3 },
                      t := { gzip := true, etags := true, caching := true } } := by
  intro n hn
  cases hn
  left; decide

/-- … so does a text handler with its own length under the non-streaming encode tool … -/
example : HandlerOk { h := { shape := .strV ['é'], setCL := some 1 }, t := { encode := true } } := by
  intro n hn
  right; decide

/-- … and the cache such a plan builds is non-empty and consistent (`CacheOk` is not vacuous) -/
example : ∃ c, (serve pg0 {} { h := { shape := .bytesV [1, 2, 3] }, t := { caching := true } } none).2 = some c ∧
    c.variants.length = 1 := by
  refine ⟨_, rfl, ?_⟩
  decide

end CpProofs.C06
