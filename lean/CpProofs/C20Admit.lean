import CpModel.C20Admit
/-!
  C20: soundness of the subset construction of `CpModel/C20Admit.lean`.

  `admits_sound`  — an admitted implementation trace is a sampling of a genuine model run
                    (`Follows`): by construction of `follow`, whatever `prune` drops.
  `follows_inv`   — every property that is preserved by model steps (an inductive invariant, e.g.
                    reachability) holds at every sample point of an admitted trace, and the
                    observations at the sample points are exactly the observed ones.
-/
namespace CpProofs.C20Admit
open CpModel.C20Admit

variable {σ τ ο : Type}

theorem mem_chain {step : σ → τ → σ} {en : σ → τ → Bool} {t : τ} :
    ∀ (fuel : Nat) (c x : σ), x ∈ chain step en t fuel c → ∃ n, x = iter step t n c := by
  intro fuel
  induction fuel with
  | zero =>
    intro c x hx
    simp only [chain, List.mem_singleton] at hx
    exact ⟨0, by simp [hx, iter]⟩
  | succ k ih =>
    intro c x hx
    unfold chain at hx
    split at hx
    · rcases List.mem_cons.mp hx with h | h
      · exact ⟨0, by simp [h, iter]⟩
      · obtain ⟨n, hn⟩ := ih _ _ h
        exact ⟨n + 1, by simp [hn, iter]⟩
    · simp only [List.mem_singleton] at hx
      exact ⟨0, by simp [hx, iter]⟩

theorem mem_chainTo [DecidableEq ο] {step : σ → τ → σ} {en : σ → τ → Bool} {obs : σ → ο} {t : τ} {o : ο} :
    ∀ (fuel : Nat) (seen : Bool) (c x : σ), x ∈ chainTo step en obs t o fuel seen c →
      ∃ n, x = iter step t n c ∧ obs x = o := by
  intro fuel
  induction fuel with
  | zero =>
    intro seen c x hx
    unfold chainTo at hx
    by_cases hh : obs c = o <;> simp [hh] at hx
    exact ⟨0, by simp [hx, iter], by simp [hx, hh]⟩
  | succ k ih =>
    intro seen c x hx
    unfold chainTo at hx
    by_cases hh : obs c = o
    · simp only [hh, decide_true, Bool.not_true, Bool.and_false, Bool.false_eq_true, if_false,
        if_true, Bool.or_true] at hx
      rcases List.mem_cons.mp hx with h | h
      · exact ⟨0, by simp [h, iter], by simp [h, hh]⟩
      · split at h
        · obtain ⟨n, hn, ho⟩ := ih _ _ _ h
          exact ⟨n + 1, by simp [hn, iter], ho⟩
        · simp at h
    · simp only [hh, decide_false, Bool.not_false, Bool.and_true, Bool.or_false] at hx
      split at hx
      · simp at hx
      · simp only [Bool.false_eq_true, if_false] at hx
        split at hx
        · obtain ⟨n, hn, ho⟩ := ih _ _ _ hx
          exact ⟨n + 1, by simp [hn, iter], ho⟩
        · simp at hx

theorem mem_pruneGo (key : σ → String) :
    ∀ (l : List σ) (seen : Std.HashSet String) (x : σ), x ∈ pruneGo key l seen → x ∈ l := by
  intro l
  induction l with
  | nil => intro seen x hx; simp [pruneGo] at hx
  | cons a as ih =>
    intro seen x hx
    simp only [pruneGo] at hx
    split at hx
    · exact List.mem_cons_of_mem _ (ih _ _ hx)
    · rcases List.mem_cons.mp hx with h | h
      · simp [h]
      · exact List.mem_cons_of_mem _ (ih _ _ h)

theorem mem_pruneBy (key : σ → String) (l : List σ) (x : σ) (h : x ∈ pruneBy key l) : x ∈ l :=
  mem_pruneGo key l _ x h

section
variable [DecidableEq ο] (step : σ → τ → σ) (en : σ → τ → Bool) (obs : σ → ο)
  (prune : List σ → List σ) (hprune : ∀ l x, x ∈ prune l → x ∈ l) (fuel : Nat)

include hprune in
theorem mem_advance {S : List σ} {t : τ} {o : ο} {x : σ}
    (h : x ∈ advance step en obs prune fuel S t o) :
    ∃ c ∈ S, ∃ n, x = iter step t n c ∧ obs x = o := by
  unfold advance at h
  have h := hprune _ _ h
  simp only [List.mem_flatMap] at h
  obtain ⟨c, hc, hx⟩ := h
  obtain ⟨n, hn, ho⟩ := mem_chainTo fuel false c x hx
  exact ⟨c, hc, n, hn, ho⟩

include hprune in
theorem follow_sound : ∀ (tr : List (τ × ο)) (S : List σ) (x : σ),
    x ∈ follow step en obs prune fuel S tr → ∃ c ∈ S, ∃ cs, Follows step obs c tr cs := by
  intro tr
  induction tr with
  | nil => intro S x hx; exact ⟨x, by simpa [follow] using hx, [], .nil x⟩
  | cons a r ih =>
    intro S x hx
    obtain ⟨t, o⟩ := a
    simp only [follow] at hx
    obtain ⟨y, hy, cs, hf⟩ := ih _ _ hx
    obtain ⟨c, hc, n, hn, ho⟩ := mem_advance step en obs prune hprune fuel hy
    subst hn
    exact ⟨c, hc, _, .cons n ho hf⟩

include hprune in
/-- an admitted trace is a sampling of a model run that starts in one of the given states -/
theorem admits_sound (S : List σ) (tr : List (τ × ο))
    (h : admits step en obs prune fuel S tr = true) : ∃ c ∈ S, ∃ cs, Follows step obs c tr cs := by
  unfold admits at h
  cases hf : follow step en obs prune fuel S tr with
  | nil => simp [hf] at h
  | cons x xs => exact follow_sound step en obs prune hprune fuel tr S x (by simp [hf])
end

theorem iter_inv {step : σ → τ → σ} {P : σ → Prop} (hstep : ∀ c t, P c → P (step c t)) (t : τ) :
    ∀ (n : Nat) (c : σ), P c → P (iter step t n c) := by
  intro n
  induction n with
  | zero => intro c h; exact h
  | succ k ih => intro c h; exact ih _ (hstep c t h)

/-- invariants of all model runs hold at every sample point; the sampled observations are the
    observed ones -/
theorem follows_inv {step : σ → τ → σ} {obs : σ → ο} {P : σ → Prop}
    (hstep : ∀ c t, P c → P (step c t)) :
    ∀ {c : σ} {tr : List (τ × ο)} {cs : List σ}, P c → Follows step obs c tr cs →
      (∀ x ∈ cs, P x) ∧ cs.map obs = tr.map (·.2) := by
  intro c tr cs hp hf
  induction hf with
  | nil c => exact ⟨by simp, by simp⟩
  | @cons c t o r cs n ho _ ih =>
    have hp' := iter_inv hstep t n c hp
    obtain ⟨h1, h2⟩ := ih hp'
    refine ⟨?_, by simp [ho, h2]⟩
    intro x hx
    rcases List.mem_cons.mp hx with h | h
    · exact h ▸ hp'
    · exact h1 x h

/-- the sampling is a schedule: the state at the last sample point is the result of running a
    schedule (a list of thread ids) from the start state -/
theorem follows_sched {step : σ → τ → σ} {obs : σ → ο} :
    ∀ {c : σ} {tr : List (τ × ο)} {cs : List σ}, Follows step obs c tr cs →
      ∃ sched : List τ, cs.getLast? = (if tr.isEmpty then none else some (sched.foldl step c)) := by
  intro c tr cs hf
  induction hf with
  | nil c => exact ⟨[], by simp⟩
  | @cons c t o r cs n ho hf ih =>
    obtain ⟨s, hs⟩ := ih
    have hi : ∀ (k : Nat) (c : σ), iter step t k c = (List.replicate k t).foldl step c := by
      intro k
      induction k with
      | zero => intro c; rfl
      | succ j ihj => intro c; simp [iter, ihj, List.replicate_succ]
    cases hr : r with
    | nil =>
      subst hr
      cases hf
      exact ⟨List.replicate n t, by simp [hi]⟩
    | cons a r' =>
      subst hr
      refine ⟨List.replicate n t ++ s, ?_⟩
      cases hf with
      | cons m ho' hf' =>
        simp only [List.isEmpty_cons, Bool.false_eq_true, if_false] at hs ⊢
        rw [List.getLast?_cons_cons, hs, List.foldl_append, hi]

end CpProofs.C20Admit

namespace CpProofs.C20Admit
open CpModel.C20Admit

variable {σ τ ο : Type}

/-- what a positive answer of the driver's admission test means -/
theorem admitsInit_sound [DecidableEq ο] (step : σ → τ → σ) (en : σ → τ → Bool) (obs : σ → ο) (key : σ → String)
    (fuel : Nat) (c0 : σ) (o0 : ο) (tr : List (τ × ο))
    (h : admitsInit step en obs key fuel c0 o0 tr = true) :
    obs c0 = o0 ∧ ∃ cs, Follows step obs c0 tr cs := by
  unfold admitsInit at h
  obtain ⟨c, hc, cs, hf⟩ := admits_sound step en obs (pruneBy key) (mem_pruneBy key) fuel _ tr h
  by_cases ho : obs c0 = o0
  · simp only [ho, if_true, List.mem_singleton] at hc
    subst hc
    exact ⟨ho, cs, hf⟩
  · simp [ho] at hc

end CpProofs.C20Admit
