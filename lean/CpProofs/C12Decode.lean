import CpProofs.C12
import CpModel.HeaderNorm
/-!
  C12 (round 2) — the request side of RFC 2047 (`decode_TEXT_maybe`, one encoded word) against the
  response side (`encode_header_item`): what CherryPy emits for text outside Latin-1, its own
  reader decodes to the original.  `decodeWord` is compared with the live `decode_TEXT_maybe` on
  every run, so "decodes to the original" is here a statement about the code's own decoder, not
  only about the base64/UTF-8 functions used in `C12_rfc2047_roundtrip`.
-/
set_option linter.unusedSimpArgs false
set_option linter.unnecessarySimpa false

namespace CpProofs.C12
open CpModel.HeaderEnc CpModel.HeaderNorm

theorem b64chr_ne_qmark : ∀ n, n < 64 → b64chr n ≠ 63 := by decide +kernel

/-- no `?` in base64 text -/
theorem b64encN_no_qmark (l : List Nat) (h : ∀ x ∈ l, x < 256) : ∀ y ∈ b64encN l, y ≠ 63 := by
  fun_induction b64encN l with
  | case1 => simp
  | case2 a =>
    have ha : a < 256 := h a (by simp)
    intro y hy
    simp only [List.mem_cons, List.not_mem_nil, or_false] at hy
    rcases hy with rfl | rfl | rfl | rfl
    · exact b64chr_ne_qmark _ (by omega)
    · exact b64chr_ne_qmark _ (by omega)
    · omega
    · omega
  | case3 a b =>
    have ha : a < 256 := h a (by simp)
    have hb : b < 256 := h b (by simp)
    intro y hy
    simp only [List.mem_cons, List.not_mem_nil, or_false] at hy
    rcases hy with rfl | rfl | rfl | rfl
    · exact b64chr_ne_qmark _ (by omega)
    · exact b64chr_ne_qmark _ (by omega)
    · exact b64chr_ne_qmark _ (by omega)
    · omega
  | case4 a b c rest ih =>
    have ha : a < 256 := h a (by simp)
    have hb : b < 256 := h b (by simp)
    have hc : c < 256 := h c (by simp)
    have hr := ih (fun x hx => h x (by simp [hx]))
    intro y hy
    simp only [List.mem_cons] at hy
    rcases hy with rfl | rfl | rfl | rfl | hy
    · exact b64chr_ne_qmark _ (by omega)
    · exact b64chr_ne_qmark _ (by omega)
    · exact b64chr_ne_qmark _ (by omega)
    · exact b64chr_ne_qmark _ (by omega)
    · exact hr y hy

/-- bytes as the Latin-1 text a server hands to the application -/
def asText (b : Bytes) : Text := b.map fun x => Char.ofNat x.toNat

theorem char_toNat_ofNat_u8 (x : UInt8) : (Char.ofNat x.toNat).toNat = x.toNat := by
  have key : ∀ n, n < 256 → (Char.ofNat n).toNat = n := by decide +kernel
  exact key _ (UInt8.toNat_lt x)

theorem asText_back (b : Bytes) : (asText b).map (fun c => UInt8.ofNat c.toNat) = b := by
  induction b with
  | nil => rfl
  | cons x rest ih =>
    simp only [asText, List.map_cons, List.map_map] at ih ⊢
    rw [char_toNat_ofNat_u8, UInt8.ofNat_toNat]
    congr 1

/-- what `encode_header_item` emits for text outside Latin-1, explicitly -/
theorem encodeHeaderItem_word (s : Text) (h : isLatin1 s = false) :
    encodeHeaderItem s = .ok (ewPrefix ++ b64enc (utf8 s) ++ ewSuffix) := by
  have hclean : ∀ b ∈ ewPrefix ++ b64enc (utf8 s) ++ ewSuffix, Clean b := by
    intro b hb
    simp only [List.mem_append] at hb
    rcases hb with (hb | hb) | hb
    · revert b; decide
    · exact b64enc_clean _ b hb
    · revert b; decide
  have henc : encode s = .ok (ewPrefix ++ b64enc (utf8 s) ++ ewSuffix) := by
    unfold encode
    simp [h, CpModel.Gen.C12.classProtocol11, CpModel.Gen.C12.useRfc2047]
  unfold encodeHeaderItem
  rw [henc]
  simp only [Except.map]
  rw [deleteCtl_id_of_clean _ hclean]

theorem b64enc_text_facts (bs : Bytes) :
    (∀ c ∈ asText (b64enc bs), c ≠ '?') ∧ (∀ c ∈ asText (b64enc bs), c.toNat < 128) := by
  have hlt := map_toNat_lt bs
  constructor
  · intro c hc hq
    simp only [asText, b64enc, List.mem_map] at hc
    obtain ⟨u, ⟨y, hy, rfl⟩, rfl⟩ := hc
    have hp := b64encN_printable _ hlt y hy
    have hn := b64encN_no_qmark _ hlt y hy
    have h1 : (UInt8.ofNat y).toNat = y := u8_toNat_ofNat (by omega)
    have := congrArg Char.toNat hq
    rw [char_toNat_ofNat_u8, h1] at this
    exact hn this
  · intro c hc
    simp only [asText, b64enc, List.mem_map] at hc
    obtain ⟨u, ⟨y, hy, rfl⟩, rfl⟩ := hc
    have hp := b64encN_printable _ hlt y hy
    have h1 : (UInt8.ofNat y).toNat = y := u8_toNat_ofNat (by omega)
    rw [char_toNat_ofNat_u8, h1]
    omega

theorem stripSuffix2_append (p : Text) : stripSuffix2 (p ++ ['?', '=']) = some p := by
  unfold stripSuffix2
  simp

theorem utf8DecodeBytes_utf8 (s : Text) : utf8DecodeBytes (utf8 s) = some s := by
  unfold utf8DecodeBytes utf8
  have : (List.flatMap String.utf8EncodeChar s).toByteArray.utf8Decode? = some s.toArray :=
    List.utf8Decode?_utf8Encode
  rw [this]
  simp

/-- **C12_emitted_word_reads_back**: for every text with a code point above 255, the header item
    CherryPy emits, handed back to CherryPy's own request-side reader (`decode_TEXT_maybe`, as
    modelled and compared with the live function), decodes to exactly that text. -/
theorem C12_emitted_word_reads_back (s : Text) (h : isLatin1 s = false) :
    ∃ w, encodeHeaderItem s = .ok w ∧ decodeWord (asText w) = .text s := by
  refine ⟨_, encodeHeaderItem_word s h, ?_⟩
  have hshape : asText (ewPrefix ++ b64enc (utf8 s) ++ ewSuffix)
      = pfxB ++ (asText (b64enc (utf8 s)) ++ ['?', '=']) := by
    simp only [asText, List.map_append, List.append_assoc]
    rfl
  have hf := b64enc_text_facts (utf8 s)
  have hbody : wordBody pfxB (asText (ewPrefix ++ b64enc (utf8 s) ++ ewSuffix))
      = some (asText (b64enc (utf8 s))) := by
    rw [hshape]
    unfold wordBody
    have hp : pfxB.isPrefixOf (pfxB ++ (asText (b64enc (utf8 s)) ++ ['?', '='])) = true :=
      List.isPrefixOf_iff_prefix.mpr (List.prefix_append _ _)
    rw [if_pos hp, List.drop_left, stripSuffix2_append]
    simp only [Option.bind_some]
    have : (asText (b64enc (utf8 s))).contains '?' = false := by
      rw [Bool.eq_false_iff]
      intro hc
      have := List.contains_iff_mem.mp hc
      exact hf.1 '?' this rfl
    rw [this]
    simp
  unfold decodeWord
  rw [hbody]
  simp only
  have hall : (asText (b64enc (utf8 s))).all (fun c => decide (c.toNat < 128)) = true := by
    rw [List.all_eq_true]
    intro c hc
    simpa using hf.2 c hc
  rw [if_pos hall, asText_back, b64dec_b64enc]
  simp only
  rw [utf8DecodeBytes_utf8]

/-- non-vacuity / the docstring example of `HeaderMap.encode`, read back -/
example : decodeWord "=?utf-8?b?6IiA?=".toList = .text [Char.ofNat 0x8200] := by decide +kernel

/-- a decoded word may hold CR LF: the request side does not filter, the response side does -/
example : decodeWord "=?utf-8?b?DQpYLUV2aWw6IDE=?=".toList = .text "\r\nX-Evil: 1".toList ∧
    decodeWord "=?iso-8859-1?q?a=0Ab?=".toList = .text "a\nb".toList := by decide +kernel

/-- **C12_decoded_word_emitted_clean**: whatever an encoded word of the request decodes to (CR, LF,
    NUL … included), echoing it into a response header emits clean bytes only. -/
theorem C12_decoded_word_emitted_clean (raw t : Text) (_h : decodeWord raw = .text t) (out : Bytes)
    (he : encodeHeaderItem t = .ok out) : ∀ b ∈ out, Clean b :=
  C12_headermap_clean t out he

end CpProofs.C12
