import CpModel.Cache
/-!
  Helper lemmas for C15: association lists, the descending sort, and how each `MemoryCache`
  operation changes the store (`Shrinks` for get / delete / sweep, `put_cases` for put).
-/
namespace CpProofs.C15
open CpModel.Cache

/-! ### association lists -/
section AList
variable {κ β : Type} [DecidableEq κ]

theorem aget_aset (l : List (κ × β)) (k k' : κ) (v : β) :
    aget (aset l k v) k' = if k = k' then some v else aget l k' := by
  induction l with
  | nil => simp [aset, aget]
  | cons hd t ih =>
    obtain ⟨a, b⟩ := hd
    by_cases h : a = k
    · subst h
      by_cases h2 : a = k' <;> simp [aset, aget, h2]
    · by_cases h2 : a = k'
      · subst h2
        simp [aset, aget, h, Ne.symm h]
      · simp [aset, aget, h, h2, ih]

theorem aget_aset_self (l : List (κ × β)) (k : κ) (v : β) : aget (aset l k v) k = some v := by
  simp [aget_aset]

theorem aget_aset_ne (l : List (κ × β)) (k k' : κ) (v : β) (h : k ≠ k') :
    aget (aset l k v) k' = aget l k' := by
  simp [aget_aset, h]

theorem aget_adel (l : List (κ × β)) (k k' : κ) :
    aget (adel l k) k' = if k = k' then none else aget l k' := by
  induction l with
  | nil => simp [adel, aget]
  | cons hd t ih =>
    obtain ⟨a, b⟩ := hd
    by_cases h : a = k
    · subst h
      by_cases h2 : a = k'
      · subst h2
        simp [adel, ih]
      · simp [adel, aget, h2, ih]
    · by_cases h2 : a = k'
      · subst h2
        simp [adel, aget, h, Ne.symm h]
      · simp [adel, aget, h, h2, ih]

end AList

/-! ### the descending sort is a rearrangement -/

theorem mem_insDesc (x y : Str) (l : List Str) : y ∈ insDesc x l ↔ y = x ∨ y ∈ l := by
  induction l with
  | nil => simp [insDesc]
  | cons z zs ih =>
    simp only [insDesc]
    split
    · simp only [List.mem_cons, ih]
      constructor
      · rintro (h | h | h) <;> simp [h]
      · rintro (h | h | h) <;> simp [h]
    · simp [List.mem_cons]

theorem mem_sortDesc (y : Str) (l : List Str) : y ∈ sortDesc l ↔ y ∈ l := by
  induction l with
  | nil => simp [sortDesc]
  | cons x xs ih => simp [sortDesc, mem_insDesc, ih]

/-! ### how operations change the store -/

abbrev Store := List (Str × UriCache)

/-- `s'` has no resource, selecting-header list or stored response that `s` does not have. -/
def Shrinks (s' s : Store) : Prop :=
  ∀ uri uc', aget s' uri = some uc' →
    ∃ uc, aget s uri = some uc ∧ uc.sel = uc'.sel ∧
      ∀ key v, aget uc'.slots key = some (.val v) → aget uc.slots key = some (.val v)

theorem Shrinks.refl (s : Store) : Shrinks s s :=
  fun _ uc h => ⟨uc, h, rfl, fun _ _ h => h⟩

theorem Shrinks.trans {a b c : Store} (h1 : Shrinks a b) (h2 : Shrinks b c) : Shrinks a c := by
  intro uri uc h
  obtain ⟨uc1, g1, s1, v1⟩ := h1 uri uc h
  obtain ⟨uc2, g2, s2, v2⟩ := h2 uri uc1 g1
  exact ⟨uc2, g2, s2.trans s1, fun k v hk => v2 k v (v1 k v hk)⟩

theorem Shrinks.absent {s' s : Store} (h : Shrinks s' s) {u : Str} (ha : aget s u = none) :
    aget s' u = none := by
  cases hs : aget s' u with
  | none => rfl
  | some uc =>
    obtain ⟨uc0, g, _, _⟩ := h u uc hs
    rw [ha] at g
    cases g

/-- replacing the slots of one resource by fewer value slots shrinks the store -/
theorem shrinks_aset {s : Store} {uri : Str} {uc : UriCache} (slots : List (List Str × Slot))
    (hg : aget s uri = some uc)
    (hv : ∀ key v, aget slots key = some (.val v) → aget uc.slots key = some (.val v)) :
    Shrinks (aset s uri { uc with slots := slots }) s := by
  intro u uc' h
  rw [aget_aset] at h
  split at h
  · rename_i he
    subst he
    cases h
    exact ⟨uc, hg, rfl, hv⟩
  · exact ⟨uc', h, rfl, fun _ _ h => h⟩

theorem get_shrinks (c : Cache) (r : Req) : Shrinks (c.get r).1.store c.store := by
  unfold Cache.get
  split
  · exact Shrinks.refl _
  · rename_i uc hg
    dsimp only
    split
    · exact Shrinks.refl _
    · exact Shrinks.refl _
    · rename_i hk
      apply shrinks_aset _ hg
      intro key v h
      rw [aget_aset] at h
      split at h
      · cases h
      · exact h

theorem get_exps (c : Cache) (r : Req) : (c.get r).1.exps = c.exps ∧ (c.get r).1.cursize = c.cursize := by
  unfold Cache.get
  split
  · exact ⟨rfl, rfl⟩
  · dsimp only
    split <;> exact ⟨rfl, rfl⟩

/-- what `get` returns is a stored response under the key built from the request's headers -/
theorem get_some (c : Cache) (r : Req) (v : Variant) (h : (c.get r).2 = some v) :
    (c.get r).1 = c ∧ ∃ uc, aget c.store r.uri = some uc ∧ aget uc.slots (uc.sel.map (hget r)) = some (.val v) := by
  unfold Cache.get at h ⊢
  split at h
  · cases h
  · rename_i uc hg
    dsimp only at h ⊢
    split at h
    · rename_i v' hk
      cases h
      exact ⟨rfl, uc, hg, hk⟩
    · cases h
    · cases h

theorem get_absent (c : Cache) (r : Req) (h : aget c.store r.uri = none) :
    (c.get r).2 = none ∧ (c.get r).1 = c := by
  unfold Cache.get
  rw [h]
  exact ⟨rfl, rfl⟩

theorem get_frame (c : Cache) (r : Req) (u : Str) (h : r.uri ≠ u) :
    aget (c.get r).1.store u = aget c.store u := by
  unfold Cache.get
  split
  · rfl
  · dsimp only
    split
    · rfl
    · rfl
    · exact aget_aset_ne _ _ _ _ h

theorem delete_shrinks (c : Cache) (u : Str) : Shrinks (c.delete u).store c.store := by
  intro uri uc h
  simp only [Cache.delete, aget_adel] at h
  split at h
  · cases h
  · exact ⟨uc, h, rfl, fun _ _ h => h⟩

theorem delete_absent (c : Cache) (u : Str) : aget (c.delete u).store u = none := by
  simp [Cache.delete, aget_adel]

theorem delete_frame (c : Cache) (u u' : Str) (h : u ≠ u') :
    aget (c.delete u).store u' = aget c.store u' := by
  simp [Cache.delete, aget_adel, h]

theorem sweepOne_shrinks (s : Store) (cur : Int) (e : Entry) : Shrinks (sweepOne s cur e).1 s := by
  unfold sweepOne
  split
  · exact Shrinks.refl _
  · rename_i uc hg
    split
    · exact Shrinks.refl _
    · apply shrinks_aset _ hg
      intro key v h
      rw [aget_adel] at h
      split at h
      · cases h
      · exact h

theorem sweepAll_shrinks (now : Nat) (es : List Entry) (s : Store) (cur : Int) :
    Shrinks (sweepAll now es s cur).1 s := by
  induction es generalizing s cur with
  | nil => exact Shrinks.refl _
  | cons e es ih =>
    simp only [sweepAll]
    split
    · exact (ih _ _).trans (sweepOne_shrinks s cur e)
    · exact ih _ _

theorem sweep_shrinks (c : Cache) (now : Nat) : Shrinks (c.sweep now).store c.store :=
  sweepAll_shrinks now c.exps c.store c.cursize

/-- Everything `put` can do to the store: resources other than the request's are untouched; the
    request's resource keeps its selecting headers (or gets `sortDesc vary` when it is new) and
    gains at most the one value `(gen, now)` under the key built from the request's headers, and
    only when the size limits allow. -/
theorem put_cases (cfg : Cfg) (c : Cache) (r : Req) (p : Plan) (gen now : Nat) (uri : Str) (uc' : UriCache)
    (h : aget (c.put cfg r p gen now).store uri = some uc') :
    (∃ uc, aget c.store uri = some uc ∧ uc.sel = uc'.sel ∧
        ∀ key v, aget uc'.slots key = some (.val v) →
          aget uc.slots key = some (.val v) ∨
          (uri = r.uri ∧ key = uc'.sel.map (hget r) ∧ v = ⟨gen, now⟩ ∧ p.size < cfg.maxobjSize)) ∨
    (uri = r.uri ∧ aget c.store uri = none ∧ uc'.sel = sortDesc p.vary ∧
        ∀ key v, aget uc'.slots key = some (.val v) →
          key = uc'.sel.map (hget r) ∧ v = ⟨gen, now⟩ ∧ p.size < cfg.maxobjSize) := by
  unfold Cache.put at h
  cases hg : aget c.store r.uri with
  | some uc =>
    simp only [hg] at h
    left
    split at h
    · split at h
      · rename_i hlim
        dsimp only at h
        rw [aget_aset] at h
        split at h
        · rename_i he
          subst he
          cases h
          refine ⟨uc, hg, rfl, ?_⟩
          intro key v hk
          dsimp only at hk
          rw [aget_aset] at hk
          split at hk
          · rename_i hkey
            cases hk
            exact Or.inr ⟨rfl, hkey.symm, rfl, hlim.1⟩
          · exact Or.inl hk
        · exact ⟨uc', h, rfl, fun _ _ h => Or.inl h⟩
      · exact ⟨uc', h, rfl, fun _ _ h => Or.inl h⟩
    · exact ⟨uc', h, rfl, fun _ _ h => Or.inl h⟩
  | none =>
    simp only [hg] at h
    split at h
    · split at h
      · rename_i hlim
        dsimp only at h
        rw [aget_aset] at h
        split at h
        · rename_i he
          subst he
          cases h
          right
          refine ⟨rfl, hg, rfl, ?_⟩
          intro key v hk
          dsimp only at hk
          rw [aget_aset] at hk
          split at hk
          · rename_i hkey
            cases hk
            exact ⟨hkey.symm, rfl, hlim.1⟩
          · simp [aget] at hk
        · rename_i hne
          rw [aget_aset_ne _ _ _ _ hne] at h
          exact Or.inl ⟨uc', h, rfl, fun _ _ h => Or.inl h⟩
      · dsimp only at h
        rw [aget_aset] at h
        split at h
        · rename_i he
          subst he
          cases h
          right
          exact ⟨rfl, hg, rfl, fun key v hk => by simp [aget] at hk⟩
        · exact Or.inl ⟨uc', h, rfl, fun _ _ h => Or.inl h⟩
    · dsimp only at h
      rw [aget_aset] at h
      split at h
      · rename_i he
        subst he
        cases h
        right
        exact ⟨rfl, hg, rfl, fun key v hk => by simp [aget] at hk⟩
      · exact Or.inl ⟨uc', h, rfl, fun _ _ h => Or.inl h⟩

theorem put_frame (cfg : Cfg) (c : Cache) (r : Req) (p : Plan) (gen now : Nat) (u : Str) (hne : r.uri ≠ u) :
    aget (c.put cfg r p gen now).store u = aget c.store u := by
  unfold Cache.put
  cases hg : aget c.store r.uri with
  | some uc =>
    simp only []
    split
    · split
      · exact aget_aset_ne _ _ _ _ hne
      · rfl
    · rfl
  | none =>
    simp only []
    split
    · split
      · dsimp only
        rw [aget_aset_ne _ _ _ _ hne, aget_aset_ne _ _ _ _ hne]
      · exact aget_aset_ne _ _ _ _ hne
    · exact aget_aset_ne _ _ _ _ hne

/-! ### `tee`, `request`: frame and shrink facts -/

theorem tee_frame (cfg : Cfg) (c : Cache) (r : Req) (p : Plan) (gen now : Nat) (u : Str) (hne : r.uri ≠ u) :
    aget (tee cfg c r p gen now).store u = aget c.store u := by
  unfold tee
  split
  · rfl
  · split
    · rfl
    · split
      · rfl
      · split
        · exact delete_frame _ _ _ hne
        · exact put_frame _ _ _ _ _ _ _ hne

theorem tee_marked (cfg : Cfg) (c : Cache) (r : Req) (p : Plan) (gen now : Nat)
    (h : sNoStore ∈ r.cc ∨ p.noStore = true ∨ p.pragmaNoCache = true ∨ p.completes r = false) :
    tee cfg c r p gen now = c := by
  unfold tee
  split
  · rfl
  · rename_i h0
    split
    · rfl
    · rename_i h1
      split
      · rfl
      · rename_i h2
        rcases h with h | h | h | h
        · exact absurd h h1
        · exact absurd (Or.inr h) h2
        · exact absurd (Or.inl h) h2
        · exact absurd h h0

/-- a request touches only its own resource -/
theorem request_frame (cfg : Cfg) (w : World) (r : Req) (p : Plan) (u : Str) (hne : r.uri ≠ u) :
    aget (request cfg w r p).1.cache.store u = aget w.cache.store u := by
  unfold request
  split
  · exact delete_frame _ _ _ hne
  · split
    · exact tee_frame _ _ _ _ _ _ _ hne
    · split
      · exact (tee_frame _ _ _ _ _ _ _ hne).trans (get_frame _ _ _ hne)
      · split
        · rfl
        · exact tee_frame _ _ _ _ _ _ _ hne
        · split
          · exact tee_frame _ _ _ _ _ _ _ hne
          · rfl

/-- a request for a resource that is not in the store reaches the handler -/
theorem request_absent (cfg : Cfg) (w : World) (r : Req) (p : Plan) (h : aget w.cache.store r.uri = none) :
    ∃ c, (request cfg w r p).2 = .miss w.nextGen c := by
  unfold request
  split
  · exact ⟨false, rfl⟩
  · split
    · exact ⟨true, rfl⟩
    · rw [(get_absent _ _ h).1]
      exact ⟨true, rfl⟩

theorem request_invalidates (cfg : Cfg) (w : World) (r : Req) (p : Plan) (hm : r.method ∈ cfg.invalid) :
    aget (request cfg w r p).1.cache.store r.uri = none := by
  unfold request
  rw [if_pos hm]
  exact delete_absent _ _

theorem step_absent (cfg : Cfg) (w : World) (op : Op) (u : Str) (hop : ∀ r p, op = .req r p → r.uri ≠ u)
    (h : aget w.cache.store u = none) : aget (step cfg w op).1.cache.store u = none := by
  cases op with
  | req r p =>
    simp only [step]
    rw [request_frame cfg w r p u (hop r p rfl)]
    exact h
  | tick n => exact h
  | sweep => exact (sweep_shrinks w.cache w.now).absent h

theorem runOps_absent (cfg : Cfg) (ops : List Op) (w : World) (u : Str)
    (hops : ∀ r p, Op.req r p ∈ ops → r.uri ≠ u) (h : aget w.cache.store u = none) :
    aget (runOps cfg w ops).cache.store u = none := by
  induction ops generalizing w with
  | nil => exact h
  | cons op ops ih =>
    simp only [runOps]
    apply ih
    · exact fun r p hm => hops r p (List.mem_cons_of_mem _ hm)
    · exact step_absent cfg w op u (fun r p he => hops r p (by simp [he])) h

theorem request_marked_shrinks (cfg : Cfg) (w : World) (r : Req) (p : Plan)
    (h : sNoStore ∈ r.cc ∨ p.noStore = true ∨ p.pragmaNoCache = true ∨ p.completes r = false) :
    Shrinks (request cfg w r p).1.cache.store w.cache.store := by
  unfold request
  split
  · exact delete_shrinks _ _
  · split
    · simp only [runHandler, tee_marked cfg _ r p _ _ h]
      exact Shrinks.refl _
    · split
      · simp only [runHandler, tee_marked cfg _ r p _ _ h]
        exact get_shrinks _ _
      · split
        · exact Shrinks.refl _
        · simp only [runHandler, tee_marked cfg _ r p _ _ h]
          exact Shrinks.refl _
        · split
          · simp only [runHandler, tee_marked cfg _ r p _ _ h]
            exact Shrinks.refl _
          · exact Shrinks.refl _

/-! ### size accounting -/

def sumSizes : List Entry → Nat
  | [] => 0
  | e :: es => e.size + sumSizes es

theorem sumSizes_append (a b : List Entry) : sumSizes (a ++ b) = sumSizes a + sumSizes b := by
  induction a with
  | nil => simp [sumSizes]
  | cons x xs ih => simp [sumSizes, ih]; omega

theorem sweepOne_cur (s : Store) (cur : Int) (e : Entry) :
    (sweepOne s cur e).2 = cur ∨ (sweepOne s cur e).2 = cur - e.size := by
  unfold sweepOne
  split
  · exact Or.inl rfl
  · split
    · exact Or.inl rfl
    · exact Or.inr rfl

theorem sweepAll_sizes (now : Nat) (es : List Entry) (s : Store) (cur k : Int)
    (h : (sumSizes es : Int) + k ≤ cur) :
    (sumSizes (sweepAll now es s cur).2.2 : Int) + k ≤ (sweepAll now es s cur).2.1 ∧
      (sweepAll now es s cur).2.1 ≤ cur := by
  induction es generalizing s cur k with
  | nil => simp [sweepAll, sumSizes] at h ⊢; omega
  | cons e es ih =>
    simp only [sweepAll]
    simp only [sumSizes] at h
    split
    · have hc := sweepOne_cur s cur e
      have hle : (sumSizes es : Int) + k ≤ (sweepOne s cur e).2 := by rcases hc with hc | hc <;> omega
      have := ih (sweepOne s cur e).1 (sweepOne s cur e).2 k hle
      refine ⟨this.1, ?_⟩
      have h2 := this.2
      rcases hc with hc | hc <;> omega
    · have := ih s cur (k + e.size) (by omega)
      simp only [sumSizes]
      refine ⟨?_, this.2⟩
      have h1 := this.1
      omega

structure SizeInv (cfg : Cfg) (c : Cache) : Prop where
  nonneg : 0 ≤ c.cursize
  sum : (sumSizes c.exps : Int) ≤ c.cursize
  bound : c.cursize = 0 ∨ c.cursize < cfg.maxsize

theorem SizeInv.init (cfg : Cfg) : SizeInv cfg {} := ⟨by decide, by decide, Or.inl rfl⟩

theorem SizeInv.same {cfg : Cfg} {c c' : Cache} (h : SizeInv cfg c) (he : c'.exps = c.exps)
    (hc : c'.cursize = c.cursize) : SizeInv cfg c' := ⟨by rw [hc]; exact h.nonneg, by rw [he, hc]; exact h.sum, by rw [hc]; exact h.bound⟩

theorem put_sizeInv {cfg : Cfg} {c : Cache} (h : SizeInv cfg c) (r : Req) (p : Plan) (gen now : Nat) :
    SizeInv cfg (c.put cfg r p gen now) := by
  have key : ∀ (store1 : Store) (uc : UriCache), SizeInv cfg
      (if store1.length < cfg.maxobjects then
        if p.size < cfg.maxobjSize ∧ c.cursize + (p.size : Int) < cfg.maxsize then
          { store := aset store1 r.uri { uc with slots := aset uc.slots (uc.sel.map (hget r)) (.val ⟨gen, now⟩) }
            exps := c.exps ++ [⟨now + tps * cfg.delay, p.size, r.uri,
              if cfg.sweepByNames then uc.sel else uc.sel.map (hget r)⟩]
            cursize := c.cursize + p.size }
        else { c with store := store1 }
      else { c with store := store1 }) := by
    intro store1 uc
    split
    · split
      · rename_i hlim
        refine ⟨?_, ?_, Or.inr hlim.2⟩
        · have := h.nonneg; dsimp only; omega
        · have := h.sum; dsimp only; rw [sumSizes_append]; simp only [sumSizes]; omega
      · exact h.same rfl rfl
    · exact h.same rfl rfl
  unfold Cache.put
  exact key _ _

theorem sweep_sizeInv {cfg : Cfg} {c : Cache} (h : SizeInv cfg c) (now : Nat) : SizeInv cfg (c.sweep now) := by
  have := sweepAll_sizes now c.exps c.store c.cursize 0 (by have := h.sum; omega)
  have h0 := h.nonneg
  have hb := h.bound
  refine ⟨?_, ?_, ?_⟩ <;> simp only [Cache.sweep] <;> omega

theorem tee_sizeInv {cfg : Cfg} {c : Cache} (h : SizeInv cfg c) (r : Req) (p : Plan) (gen now : Nat) :
    SizeInv cfg (tee cfg c r p gen now) := by
  unfold tee
  split
  · exact h
  · split
    · exact h
    · split
      · exact h
      · split
        · exact h.same rfl rfl
        · exact put_sizeInv h r p gen now

theorem request_sizeInv {cfg : Cfg} {w : World} (h : SizeInv cfg w.cache) (r : Req) (p : Plan) :
    SizeInv cfg (request cfg w r p).1.cache := by
  have hget : SizeInv cfg (w.cache.get r).1 := h.same (get_exps _ _).1 (get_exps _ _).2
  unfold request
  split
  · exact h.same rfl rfl
  · split
    · exact tee_sizeInv h r p _ _
    · split
      · exact tee_sizeInv hget r p _ _
      · split
        · exact h
        · exact tee_sizeInv h r p _ _
        · split
          · exact tee_sizeInv h r p _ _
          · exact h

theorem runOps_sizeInv {cfg : Cfg} (ops : List Op) (w : World) (h : SizeInv cfg w.cache) :
    SizeInv cfg (runOps cfg w ops).cache := by
  induction ops generalizing w with
  | nil => exact h
  | cons op ops ih =>
    simp only [runOps]
    apply ih
    cases op with
    | req r p => exact request_sizeInv h r p
    | tick n => exact h
    | sweep => exact sweep_sizeInv h _

/-! ### the order of `header_elements`: `no-cache` is always seen before `max-age` -/

theorem strLt_asymm (x y : Str) (h : strLt x y = true) : strLt y x = false := by
  induction x generalizing y with
  | nil => cases y <;> simp [strLt] at h ⊢
  | cons a as ih =>
    cases y with
    | nil => simp [strLt] at h
    | cons b bs =>
      simp only [strLt] at h ⊢
      split at h
      · rename_i hab
        have : ¬ b.toNat < a.toNat := by omega
        simp [this, hab]
      · split at h
        · cases h
        · rename_i h1 h2
          simp only [h2, h1, if_false]
          exact ih bs h

/-- `¬ x < y` and `¬ y < z` give `¬ x < z` (the order is total) -/
theorem strLt_negtrans (x y z : Str) (h1 : strLt x y = false) (h2 : strLt y z = false) :
    strLt x z = false := by
  induction x generalizing y z with
  | nil =>
    cases y with
    | nil => exact h2
    | cons b bs => simp [strLt] at h1
  | cons a as ih =>
    cases z with
    | nil => simp [strLt]
    | cons c cs =>
      cases y with
      | nil => simp [strLt] at h2
      | cons b bs =>
        simp only [strLt] at h1 h2 ⊢
        split at h1
        · cases h1
        · rename_i hab
          split at h2
          · cases h2
          · rename_i hbc
            split at h1
            · rename_i hba
              have h3 : ¬ a.toNat < c.toNat := by omega
              have h4 : c.toNat < a.toNat := by omega
              simp [h3, h4]
            · rename_i hba
              split at h2
              · rename_i hcb
                have h3 : ¬ a.toNat < c.toNat := by omega
                have h4 : c.toNat < a.toNat := by omega
                simp [h3, h4]
              · rename_i hcb
                have h3 : ¬ a.toNat < c.toNat := by omega
                have h4 : ¬ c.toNat < a.toNat := by omega
                simp only [h3, h4, if_false]
                exact ih bs cs h1 h2

/-- descending: no element is smaller than a later one -/
def Desc (l : List Str) : Prop := l.Pairwise fun a b => strLt a b = false

theorem insDesc_desc (x : Str) (l : List Str) (h : Desc l) : Desc (insDesc x l) := by
  induction l with
  | nil => simp [insDesc, Desc]
  | cons y ys ih =>
    simp only [insDesc]
    have hy := List.pairwise_cons.mp h
    split
    · rename_i hxy
      apply List.pairwise_cons.mpr
      refine ⟨?_, ih hy.2⟩
      intro z hz
      rcases (mem_insDesc x z ys).mp hz with rfl | hz
      · exact strLt_asymm _ _ hxy
      · exact hy.1 z hz
    · rename_i hxy
      have hxy' : strLt x y = false := by simpa using hxy
      apply List.pairwise_cons.mpr
      refine ⟨?_, h⟩
      intro z hz
      rcases List.mem_cons.mp hz with rfl | hz
      · exact hxy'
      · exact strLt_negtrans x y z hxy' (hy.1 z hz)

theorem sortDesc_desc (l : List Str) : Desc (sortDesc l) := by
  induction l with
  | nil => simp [sortDesc, Desc]
  | cons x xs ih => exact insDesc_desc x _ ih

theorem splitEq_head (v : Str) (c : Char) (cs : Str) (h : (splitEq v).1 = c :: cs) : ∃ t, v = c :: t := by
  cases v with
  | nil => simp [splitEq] at h
  | cons x t =>
    simp only [splitEq] at h
    split at h
    · cases h
    · simp only [List.cons.injEq] at h
      exact ⟨t, by rw [h.1]⟩

/-- on a descending list, an element with directive `no-cache` wins over every `max-age` -/
theorem scan_desc_no_cache (l : List Str) (hd : Desc l) (h : ∃ v ∈ l, (splitEq v).1 = sNoCache) :
    scanCC l = .noCache := by
  induction l with
  | nil => obtain ⟨v, hv, _⟩ := h; cases hv
  | cons x xs ih =>
    obtain ⟨v, hv, hdir⟩ := h
    have hx := List.pairwise_cons.mp hd
    simp only [scanCC]
    split
    · rename_i hma
      exfalso
      rcases List.mem_cons.mp hv with rfl | hv'
      · rw [hma] at hdir
        revert hdir
        decide
      · obtain ⟨t1, rfl⟩ := splitEq_head x _ _ hma
        obtain ⟨t2, rfl⟩ := splitEq_head v _ _ hdir
        have := hx.1 _ hv'
        simp [strLt] at this
    · split
      · rfl
      · rename_i h1 h2
        apply ih hx.2
        rcases List.mem_cons.mp hv with rfl | hv'
        · exact absurd hdir h2
        · exact ⟨v, hv', hdir⟩

/-! ### number of resources that hold a stored response -/

def isVal : Slot → Bool
  | .val _ => true
  | .sentinel => false

def nonEmpty (uc : UriCache) : Bool := uc.slots.any fun s => isVal s.2

def countRes : Store → Nat
  | [] => 0
  | (_, uc) :: t => (if nonEmpty uc then 1 else 0) + countRes t

theorem countRes_le_length (s : Store) : countRes s ≤ s.length := by
  induction s with
  | nil => simp [countRes]
  | cons hd t ih =>
    obtain ⟨a, b⟩ := hd
    simp only [countRes, List.length_cons]
    split <;> omega

theorem length_aset_of_mem (s : Store) (u : Str) (uc uc' : UriCache) (h : aget s u = some uc) :
    (aset s u uc').length = s.length := by
  induction s with
  | nil => simp [aget] at h
  | cons hd t ih =>
    obtain ⟨a, b⟩ := hd
    simp only [aget] at h
    simp only [aset]
    split
    · simp
    · rename_i hne
      simp only [hne, if_false] at h
      simp [ih h]

theorem countRes_aset_of_le (s : Store) (u : Str) (uc uc' : UriCache) (hg : aget s u = some uc)
    (h : nonEmpty uc' = true → nonEmpty uc = true) : countRes (aset s u uc') ≤ countRes s := by
  induction s with
  | nil => simp [aget] at hg
  | cons hd t ih =>
    obtain ⟨a, b⟩ := hd
    simp only [aget] at hg
    simp only [aset]
    split
    · rename_i he
      simp only [he, if_true] at hg
      cases hg
      simp only [countRes]
      cases h1 : nonEmpty uc' <;> cases h2 : nonEmpty uc <;> simp_all
    · rename_i hne
      simp only [hne, if_false] at hg
      simp only [countRes]
      have := ih hg
      omega

theorem countRes_aset_empty (s : Store) (u : Str) (uc' : UriCache) (h : nonEmpty uc' = false) :
    countRes (aset s u uc') ≤ countRes s := by
  induction s with
  | nil => simp [aset, countRes, h]
  | cons hd t ih =>
    obtain ⟨a, b⟩ := hd
    simp only [aset]
    split
    · simp only [countRes, h]
      split <;> simp_all
    · simp only [countRes]
      omega

theorem countRes_adel (s : Store) (u : Str) : countRes (adel s u) ≤ countRes s := by
  induction s with
  | nil => simp [adel, countRes]
  | cons hd t ih =>
    obtain ⟨a, b⟩ := hd
    simp only [adel]
    split
    · simp only [countRes]; omega
    · simp only [countRes]; omega

theorem any_aset_sentinel (l : List (List Str × Slot)) (k : List Str)
    (h : (aset l k Slot.sentinel).any (fun s => isVal s.2) = true) : l.any (fun s => isVal s.2) = true := by
  induction l with
  | nil => simp [aset, isVal] at h
  | cons hd t ih =>
    obtain ⟨a, b⟩ := hd
    simp only [aset] at h
    split at h
    · simp only [List.any_cons, isVal, Bool.false_or] at h
      simp only [List.any_cons, Bool.or_eq_true]
      exact Or.inr h
    · simp only [List.any_cons, Bool.or_eq_true] at h ⊢
      rcases h with h | h
      · exact Or.inl h
      · exact Or.inr (ih h)

theorem any_adel (l : List (List Str × Slot)) (k : List Str)
    (h : (adel l k).any (fun s => isVal s.2) = true) : l.any (fun s => isVal s.2) = true := by
  induction l with
  | nil => simp [adel] at h
  | cons hd t ih =>
    obtain ⟨a, b⟩ := hd
    simp only [adel] at h
    split at h
    · simp only [List.any_cons, Bool.or_eq_true]
      exact Or.inr (ih h)
    · simp only [List.any_cons, Bool.or_eq_true] at h ⊢
      rcases h with h | h
      · exact Or.inl h
      · exact Or.inr (ih h)

theorem get_countRes (c : Cache) (r : Req) : countRes (c.get r).1.store ≤ countRes c.store := by
  unfold Cache.get
  split
  · exact Nat.le_refl _
  · rename_i uc hg
    dsimp only
    split
    · exact Nat.le_refl _
    · exact Nat.le_refl _
    · exact countRes_aset_of_le _ _ uc _ hg (any_aset_sentinel _ _)

theorem sweepOne_countRes (s : Store) (cur : Int) (e : Entry) : countRes (sweepOne s cur e).1 ≤ countRes s := by
  unfold sweepOne
  split
  · exact Nat.le_refl _
  · rename_i uc hg
    split
    · exact Nat.le_refl _
    · exact countRes_aset_of_le _ _ uc _ hg (any_adel _ _)

theorem sweepAll_countRes (now : Nat) (es : List Entry) (s : Store) (cur : Int) :
    countRes (sweepAll now es s cur).1 ≤ countRes s := by
  induction es generalizing s cur with
  | nil => exact Nat.le_refl _
  | cons e es ih =>
    simp only [sweepAll]
    split
    · exact Nat.le_trans (ih _ _) (sweepOne_countRes s cur e)
    · exact ih _ _

/-- number of resources holding a response: none, or fewer than `maxobjects` -/
def CountInv (cfg : Cfg) (s : Store) : Prop := countRes s = 0 ∨ countRes s < cfg.maxobjects

theorem CountInv.of_le {cfg : Cfg} {s s' : Store} (h : CountInv cfg s) (hle : countRes s' ≤ countRes s) :
    CountInv cfg s' := by
  unfold CountInv at *
  omega

theorem put_countInv {cfg : Cfg} {c : Cache} (h : CountInv cfg c.store) (r : Req) (p : Plan) (gen now : Nat) :
    CountInv cfg (c.put cfg r p gen now).store := by
  have key : ∀ (store1 : Store) (uc uc0 : UriCache), aget store1 r.uri = some uc0 →
      countRes store1 ≤ countRes c.store → CountInv cfg
      (if store1.length < cfg.maxobjects then
        if p.size < cfg.maxobjSize ∧ c.cursize + (p.size : Int) < cfg.maxsize then
          ({ store := aset store1 r.uri { uc with slots := aset uc.slots (uc.sel.map (hget r)) (.val ⟨gen, now⟩) }
             exps := c.exps ++ [⟨now + tps * cfg.delay, p.size, r.uri,
               if cfg.sweepByNames then uc.sel else uc.sel.map (hget r)⟩]
             cursize := c.cursize + p.size } : Cache)
        else { c with store := store1 }
      else { c with store := store1 }).store := by
    intro store1 uc uc0 hg hle
    split
    · rename_i hlen
      split
      · right
        dsimp only
        have h1 := countRes_le_length (aset store1 r.uri
          { uc with slots := aset uc.slots (uc.sel.map (hget r)) (.val ⟨gen, now⟩) })
        rw [length_aset_of_mem _ _ uc0 _ hg] at h1
        omega
      · exact h.of_le hle
    · exact h.of_le hle
  unfold Cache.put
  cases hg : aget c.store r.uri with
  | some uc0 => exact key c.store uc0 uc0 hg (Nat.le_refl _)
  | none =>
    exact key _ _ _ (aget_aset_self _ _ _) (countRes_aset_empty _ _ _ (by simp [nonEmpty]))

theorem tee_countInv {cfg : Cfg} {c : Cache} (h : CountInv cfg c.store) (r : Req) (p : Plan) (gen now : Nat) :
    CountInv cfg (tee cfg c r p gen now).store := by
  unfold tee
  split
  · exact h
  · split
    · exact h
    · split
      · exact h
      · split
        · exact h.of_le (countRes_adel _ _)
        · exact put_countInv h r p gen now

theorem request_countInv {cfg : Cfg} {w : World} (h : CountInv cfg w.cache.store) (r : Req) (p : Plan) :
    CountInv cfg (request cfg w r p).1.cache.store := by
  have hget : CountInv cfg (w.cache.get r).1.store := h.of_le (get_countRes _ _)
  unfold request
  split
  · exact h.of_le (countRes_adel _ _)
  · split
    · exact tee_countInv h r p _ _
    · split
      · exact tee_countInv hget r p _ _
      · split
        · exact h
        · exact tee_countInv h r p _ _
        · split
          · exact tee_countInv h r p _ _
          · exact h

theorem runOps_countInv {cfg : Cfg} (ops : List Op) (w : World) (h : CountInv cfg w.cache.store) :
    CountInv cfg (runOps cfg w ops).cache.store := by
  induction ops generalizing w with
  | nil => exact h
  | cons op ops ih =>
    simp only [runOps]
    apply ih
    cases op with
    | req r p => exact request_countInv h r p
    | tick n => exact h
    | sweep => exact h.of_le (sweepAll_countRes _ _ _ _)

end CpProofs.C15
