import CpModel.PathLinks
import CpProofs.C11
/-!
  C11 — the concrete percent-decoder, characters that are NOT separators (backslash, drive
  letters, `;`, NUL, `%`), `staticfile`, `FileSession.__len__`.
-/
namespace CpProofs.C11
open CpModel.PathContain

private def S' (s : String) : Str := s.toList

/-! ### `urllib.parse.unquote` as modelled (`CpModel.PathContain.unquote`) -/

/-- **C11, static part, for the concrete decoder** (the general theorem holds for every function in
    its place; this is the instance the code runs). -/
theorem C11_static_contained_unquote (fs : Str → Kind) (i : StaticIn) (hix : IndexPlain i.index) :
    ∀ a ∈ (staticdir unquote fs i).accesses, ∃ dir, staticDir i = some dir ∧ Under dir a.path :=
  C11_static_contained unquote fs i hix

theorem C11_refused_untouched_unquote (fs : Str → Kind) (i : StaticIn)
    (h : (staticdir unquote fs i).outcome = .forbidden ∨ (staticdir unquote fs i).outcome = .passThrough ∨
      staticDir i = none) : (staticdir unquote fs i).accesses = [] :=
  C11_refused_untouched unquote fs i h

theorem utf8Start_ascii (b : Nat) (h : b < 0x80) : utf8Start b = ([Char.ofNat b], none) := by
  simp [utf8Start, h]

/-- An ASCII character other than `%` decodes to itself and does not influence its neighbours. -/
theorem unquote_cons_ascii (c : Char) (s : Str) (h1 : c ≠ '%') (h2 : c.toNat < 128) :
    unquote (c :: s) = c :: unquote s := by
  simp [unquote, pctItems, pctAux, h1, h2, decodeItems, utf8Start_ascii, Char.ofNat_toNat]

/-- `%XX` with an ASCII value decodes to that character; decoding goes on BEHIND the escape: the
    character produced is never looked at again (single pass). -/
theorem unquote_cons_pct (h1 h2 : Char) (a b : Nat) (s : Str) (ha : hexVal? h1 = some a)
    (hb : hexVal? h2 = some b) (hv : a * 16 + b < 128) :
    unquote ('%' :: h1 :: h2 :: s) = Char.ofNat (a * 16 + b) :: unquote s := by
  simp [unquote, pctItems, pctAux, ha, hb, decodeItems, utf8Start_ascii, hv]

/-- A `%` that is not followed by two hex digits stays a `%` (invalid escapes are kept). -/
theorem unquote_cons_pct_invalid (s : Str)
    (h : ∀ h1 h2 rest, s = h1 :: h2 :: rest → hexVal? h1 = none ∨ hexVal? h2 = none) :
    unquote ('%' :: s) = '%' :: unquote s := by
  have h37 : utf8Start 37 = (['%'], none) := utf8Start_ascii 37 (by decide)
  match s, h with
  | [], _ => simp [unquote, pctItems, pctAux, decodeItems, h37]
  | [x], _ => simp [unquote, pctItems, pctAux, decodeItems, h37]
  | x :: y :: rest, h =>
    rcases h x y rest rfl with hx | hy
    · simp [unquote, pctItems, pctAux, hx, decodeItems, h37]
    · cases hx : hexVal? x <;> simp [unquote, pctItems, pctAux, hx, hy, decodeItems, h37]

/-- `%25` gives `%`, and what follows is decoded on its own: `%252e` is `%2e`, not `.`. -/
theorem unquote_pct25 (s : Str) : unquote ('%' :: '2' :: '5' :: s) = '%' :: unquote s := by
  have := unquote_cons_pct '2' '5' 2 5 s (by decide) (by decide) (by decide)
  simpa using this

/-- Decoding twice is NOT decoding once: the order "decode exactly once, then test, then use the
    same string" matters. -/
theorem unquote_not_idempotent :
    unquote (unquote "%252e%252e".toList) ≠ unquote "%252e%252e".toList ∧
    unquote "%252e%252e".toList = "%2e%2e".toList ∧
    unquote (unquote "%252e%252e".toList) = dotdot := by decide

theorem staticdir_forbidden_of_check (unq : Str → Str) (fs : Str → Kind) (i : StaticIn) (dir : Str)
    (hm : i.method = strGET) (hmo : i.matchOk = true) (hd : staticDir i = some dir)
    (hchk : containedCheck (normpath dir) (normpath (join dir (staticBranch unq i))) = false) :
    staticdir unq fs i = ⟨.forbidden, []⟩ := by
  have hm' : ¬ (i.method ≠ strGET ∧ i.method ≠ strHEAD) := fun h => h.1 hm
  simp [staticdir, hm', hmo, hd, hchk]

def traversalSpellings : List String :=
  ["/static/../secret", "/static/%2e%2e/secret", "/static/..%2fsecret", "/static/%2e%2e%2fsecret",
   "/static/.%2e/secret", "/static/%2E%2E/secret", "/static/sub/../../secret",
   "/static/../root-evil/secret", "/static/%2ft/secret", "/static/%2Fetc/passwd",
   "/static//%2f/etc/passwd", "/static/..%2F..%2F..%2Fetc%2Fpasswd"]

def reqT (u : String) : StaticIn :=
  ⟨strGET, true, "/static".toList, "/t/root".toList, [], "index.html".toList, u.toList⟩

/-- The traversal spellings of the statement, through the concrete decoder and the concrete test:
    all refused, nothing touched - for whatever the file system would answer. -/
theorem traversal_spellings_refused (fs : Str → Kind) :
    ∀ u ∈ traversalSpellings, staticdir unquote fs (reqT u) = ⟨.forbidden, []⟩ := by
  have key : ∀ u ∈ traversalSpellings,
      containedCheck (normpath "/t/root".toList)
        (normpath (join "/t/root".toList (staticBranch unquote (reqT u)))) = false := by decide
  intro u hu
  exact staticdir_forbidden_of_check unquote fs (reqT u) "/t/root".toList rfl rfl rfl (key u hu)

/-- The spellings that are NOT traversals on POSIX (double encoding, backslashes, a drive letter,
    `..;`, `..` + NUL, over-long UTF-8, a full-width solidus, `%u` escapes) name ONE plain component
    below the directory. -/
theorem non_traversal_spellings_plain :
    ∀ u ∈ ["%252e%252e", "..\\..\\secret", "..%5c..%5csecret", "C:\\secret", "..;", "..%00", "%c0%ae%c0%ae",
           "..%c0%afsecret", "..%ef%bc%8fsecret", "%uff0e%uff0e"],
      components (normpath (join "/t/root".toList (unquote (String.toList u)))) =
        ["t".toList, "root".toList, unquote (String.toList u)] := by decide

/-! ### only `/` separates: backslash, drive letters, `;`, NUL, `%` are ordinary characters -/

/-- A non-empty `/`-free name other than "." and ".." - whatever else it contains - joined onto an
    absolute path is exactly ONE component below it. -/
theorem one_component_below (sp name : Str) (hsp : isAbs sp = true) (hns : '/' ∉ name)
    (h1 : name ≠ []) (h2 : name ≠ dot) (h3 : name ≠ dotdot) :
    components (normpath (join sp name)) = components (normpath sp) ++ [name] := by
  have h4 : isAbs name = false := by
    cases name with
    | nil => rfl
    | cons c r =>
      have : c ≠ '/' := fun e => hns (by simp [e])
      simp [isAbs, this]
  have hj : isAbs (join sp name) = true := isAbs_join sp name hsp
  rw [normpath_abs_components _ hj, normStack_join sp name hsp h4, splitSlash_noslash name hns,
    normpath_abs_components sp hsp]
  simp [normStep, h1, h2, h3]

/-- Backslashes do not separate: a branch made of backslash-separated pieces (a Windows-style
    traversal, a drive letter) is one name. -/
theorem backslash_is_plain (sp : Str) (hsp : isAbs sp = true) (name : Str) (hns : '/' ∉ name)
    (hb : '\\' ∈ name) : components (normpath (join sp name)) = components (normpath sp) ++ [name] := by
  have h1 : name ≠ [] := by intro e; simp [e] at hb
  have h2 : name ≠ dot := by intro e; simp [e, dot] at hb
  have h3 : name ≠ dotdot := by intro e; simp [e, dotdot] at hb
  exact one_component_below sp name hsp hns h1 h2 h3

theorem mem_join_right (a b : Str) (x : Char) (h : x ∈ b) : x ∈ join a b := by
  unfold join
  split
  · exact h
  · split <;> simp [h]

theorem mem_join_left (a b : Str) (x : Char) (hb : isAbs b = false) (h : x ∈ a) : x ∈ join a b := by
  unfold join
  simp only [hb, Bool.false_eq_true, if_false]
  split <;> simp [h]

/-- **NUL bytes.**  `os.stat` raises ValueError for a path with an embedded NUL, `serve_file` turns
    that into NotFound: for every file-system function that answers "missing" for such paths, a
    request whose tested (normalised) file name contains NUL is never served (403 or 404,
    test_null_bytes). -/
theorem static_nul_never_served (unq : Str → Str) (fs : Str → Kind) (i : StaticIn)
    (hfs : ∀ p, Char.ofNat 0 ∈ p → fs p = .missing) (hix : isAbs i.index = false)
    (hnul : ∀ dir, staticDir i = some dir → Char.ofNat 0 ∈ normpath (join dir (staticBranch unq i))) :
    ∀ p, (staticdir unq fs i).outcome ≠ .served p := by
  intro p
  unfold staticdir
  split
  · simp
  · split
    · simp
    · split
      · simp
      · rename_i dir hd
        dsimp only
        split
        · simp
        · have hn := hnul dir hd
          have hf : Char.ofNat 0 ∈ staticTarget (join dir (staticBranch unq i)) := by
            unfold staticTarget
            split
            · exact List.mem_append_left _ hn
            · exact hn
          have hfi : Char.ofNat 0 ∈ join (staticTarget (join dir (staticBranch unq i))) i.index :=
            mem_join_left _ _ _ hix hf
          have a1 : ∀ acc, attempt fs (staticTarget (join dir (staticBranch unq i))) ≠ .served acc := by
            intro acc; unfold attempt; rw [hfs _ hf]; split <;> simp
          have a2 : ∀ acc, attempt fs (join (staticTarget (join dir (staticBranch unq i))) i.index) ≠
              .served acc := by
            intro acc; unfold attempt; rw [hfs _ hfi]; split <;> simp
          unfold serveChecked
          cases h1 : attempt fs (staticTarget (join dir (staticBranch unq i))) with
          | valueError => simp
          | served acc => exact absurd h1 (a1 acc)
          | notFound acc =>
            by_cases hi : i.index = []
            · simp [hi]
            · simp only [hi, if_false]
              cases h2 : attempt fs (join (staticTarget (join dir (staticBranch unq i))) i.index) with
              | valueError => simp
              | served acc2 => exact absurd h2 (a2 acc2)
              | notFound acc2 => simp

example : Char.ofNat 0 ∈ normpath (join "/t/root".toList (staticBranch unquote ⟨strGET, true, "/static".toList,
    "/t/root".toList, [], [], "/static/f.txt%00.html".toList⟩)) := by decide

/-! ### static.staticfile -/

/-- `staticfile` looks only at the configured file: the path it stats/opens is the configured
    (root +) filename, absolute - the request path is not even an input of the function. -/
theorem C11_staticfile_only_configured (fs : Str → Kind) (i : FileIn) :
    ∀ a ∈ (staticfile fs i).accesses,
      ∃ f, staticFileName i = some f ∧ a.path = f ∧ isAbs f = true := by
  intro a ha
  unfold staticfile at ha
  split at ha
  · simp at ha
  · split at ha
    · simp at ha
    · split at ha
      · simp at ha
      · rename_i f hf
        refine ⟨f, hf, ?_⟩
        cases h1 : attempt fs f with
        | valueError => simp [h1] at ha
        | served acc =>
          obtain ⟨hfa, hp⟩ := attempt_served fs f acc h1
          simp only [h1] at ha
          exact ⟨hp a ha, hfa⟩
        | notFound acc =>
          obtain ⟨hfa, hp⟩ := attempt_notFound fs f acc h1
          simp only [h1] at ha
          exact ⟨hp a ha, hfa⟩

/-- A relative filename without root, a method other than GET/HEAD, a failed `match`: nothing is
    touched. -/
theorem staticfile_refused_untouched (fs : Str → Kind) (i : FileIn)
    (h : staticFileName i = none ∨ (i.method ≠ strGET ∧ i.method ≠ strHEAD) ∨ i.matchOk = false) :
    (staticfile fs i).accesses = [] := by
  unfold staticfile
  rcases h with h | h | h
  · split
    · rfl
    · split
      · rfl
      · simp [h]
  · simp [h]
  · split
    · rfl
    · simp [h]

/-- A relative filename joined onto an absolute root is served from below that root when it has no
    ".." piece (the operator's own spelling; configuration is trusted). -/
theorem staticfile_rel_under_root (fs : Str → Kind) (i : FileIn) (hr : isAbs i.root = true)
    (hf : isAbs i.filename = false) (hplain : ∀ c ∈ splitSlash i.filename, c ≠ dotdot) :
    ∀ a ∈ (staticfile fs i).accesses, Under i.root a.path := by
  intro a ha
  obtain ⟨f, hfn, hp, _⟩ := C11_staticfile_only_configured fs i a ha
  have hne : i.root ≠ [] := by intro e; simp [e, isAbs] at hr
  have : f = join i.root i.filename := by
    simp [staticFileName, hf, hne] at hfn; exact hfn.symm
  rw [hp, this]
  have hroot : Under i.root i.root := under_of_abs _ _ hr (List.prefix_refl _)
  exact under_join_index i.root i.root i.filename hr hroot ⟨hf, hplain⟩

example : staticfile (fun _ => .file) ⟨strGET, true, "f.txt".toList, "/t/root".toList⟩ =
    ⟨.served "/t/root/f.txt".toList,
     [⟨.stat, "/t/root/f.txt".toList⟩, ⟨.openR, "/t/root/f.txt".toList⟩]⟩ := by decide

/-! ### FileSession.__len__ -/

theorem C11_len_contained (cwd storage : Str) (hcwd : isAbs cwd = true) :
    ∀ a ∈ sessLen (sessionRoot cwd storage), Under (sessionRoot cwd storage) a.path := by
  obtain ⟨X, hX, hsp⟩ := sessionRoot_eq cwd storage hcwd
  rw [hsp]
  intro a ha
  simp only [sessLen, List.mem_singleton] at ha
  rw [ha]
  exact under_of_abs _ _ (normpath_abs_isAbs X hX) (List.prefix_refl _)

/-- A session id without `/` - every other character allowed: NUL, newline, backslash, `;`, `%`,
    non-ASCII - names exactly one entry of the storage directory. -/
theorem session_id_noslash_one_below (X id : Str) (hX : isAbs X = true) (hns : '/' ∉ id) :
    components (normpath (sessionFileRaw (normpath X) id)) =
      components (normpath X) ++ [sessionPrefix ++ id] := by
  have hsp : isAbs (normpath X) = true := normpath_abs_isAbs X hX
  have hname : '/' ∉ sessionPrefix ++ id := by
    intro h
    rcases List.mem_append.1 h with h | h
    · revert h; decide
    · exact hns h
  have hpre : startsWith (sessionPrefix ++ id) sessionPrefix = true := by
    simp [startsWith]
  obtain ⟨h1, h2, h3, _⟩ := regular_of_prefix _ hpre
  have := one_component_below (normpath X) (sessionPrefix ++ id) hsp hname h1 h2 h3
  rw [normpath_idem] at this
  exact this

/-! ### a78b01e: only the canonical spelling of an id names a session -/

/-- `_exists` looks (one `stat`) only at the canonical spelling
    `join(abspath(storage_path), SESSION_PREFIX + id)`. -/
theorem exists_stat_only_canonical (cwd sp id : Str) (acc : List Access)
    (h : sessOp .exists_ cwd sp id = some acc) :
    ∀ a ∈ acc, a = ⟨.stat, sessionCanonical cwd sp id⟩ := by
  unfold sessOp at h
  split at h
  · cases h
  · rename_i f _
    simp only [Option.some.injEq] at h
    subst h
    intro a ha
    split at ha
    · simp at ha
    · rename_i hc
      simp only [List.mem_singleton] at ha
      have : f = sessionCanonical cwd sp id := by
        simp only [Bool.or_eq_true, bne_iff_ne, ne_eq, not_or, Decidable.not_not] at hc
        exact hc.1
      rw [ha, this]

/-- An alias (a spelling whose normal form differs from it) is refused or simply not looked at. -/
theorem exists_alias_untouched (cwd sp id : Str)
    (hne : sessionFile cwd sp id ≠ sessionCanonical cwd sp id) :
    sessOp .exists_ cwd sp id = none ∨ sessOp .exists_ cwd sp id = some [] := by
  unfold sessOp getFilePath
  by_cases hchk : sessionCheck cwd sp id = true
  · right
    have : (sessionFile cwd sp id != sessionCanonical cwd sp id) = true := by simpa using hne
    simp [hchk, this]
  · left; simp [hchk]

/-- ... and never adopted: whatever `os.path.exists` would answer, the request goes on with a
    fresh id (the C14 regression of ead95a2, repaired by a78b01e). -/
theorem session_alias_not_adopted (cwd storage id g1 g2 : Str) (a : Action)
    (hne : sessionFile cwd (sessionRoot cwd storage) id ≠
      sessionCanonical cwd (sessionRoot cwd storage) id) :
    sessionRequest cwd storage (some id) true g1 g2 a =
      sessionRequest cwd storage (some id) false g1 g2 a := by
  have : (sessionFile cwd (sessionRoot cwd storage) id ==
      sessionCanonical cwd (sessionRoot cwd storage) id) = false := by simpa using hne
  simp [sessionRequest, this]

/-- `<live id>/`, `x/../session-<live id>`, `/../session-<live id>`, `./<id>`-like spellings are
    aliases; the plain id is canonical. -/
example :
    (["abc/", "x/../session-abc", "/../session-abc", "abc/.", "abc//"].map fun i =>
      sessOp .exists_ (S' "/") (sessionRoot (S' "/") (S' "/t/sess")) (S' i)) =
      [some [], some [], some [], some [], some []] ∧
    sessOp .exists_ (S' "/") (sessionRoot (S' "/") (S' "/t/sess")) (S' "abc") =
      some [⟨.stat, S' "/t/sess/session-abc"⟩] ∧
    sessionRequest (S' "/") (S' "/t/sess") (some (S' "x/../session-abc")) true (S' "0a") (S' "0b") .read =
      some [⟨.stat, S' "/t/sess/session-0a"⟩, ⟨.lock, S' "/t/sess/session-0a.lock"⟩,
        ⟨.openR, S' "/t/sess/session-0a"⟩, ⟨.openW, S' "/t/sess/session-0a"⟩] := by decide

end CpProofs.C11
