import CpProofs.C17Lemmas
/-!
  C17, part 3: the q-values `float()` accepts, and what `sorted` does with them.

  * `Q.key` is an exact image of the decimal value: comparing keys = comparing the rationals
    (`key_lt_iff`, `key_eq_iff`), every finite key is below the key of `inf` (`key_lt_infKey`).
  * The comparison `AcceptElement.__lt__` depends on the q-values only through their ORDER: replacing
    the keys by any strictly monotone image (the rounding decimal → double is one on the modelled
    range) changes no comparison, hence no sort result and no decision (`acceptLt_order_only`,
    `sortAsc_congr`, `acceptSort_order_only`).
  * `__lt__` is a strict weak order on elements with ordered q (`acceptLt_asymm`, `acceptLt_negTrans`),
    so the result of `sorted` is the one any stable sort yields: no inversion with respect to the full
    (q, str) comparison (`sortAsc_sorted_full`) and equivalent elements keep their input order
    (`sortAsc_stable`).
  * Tokenising: without a `"` in the field `RE_HEADER_SPLIT` is `str.split(',')` (`splitHeader_noQuote`);
    concrete element shapes are pinned by `decide` examples (the same strings are replayed on the real
    parser on every run).
-/
set_option exponentiation.threshold 2048

namespace CpProofs.C17

open CpModel.Gzip CpModel.Negotiate

/-! ## keys are exact -/

theorem mul_pow_lt_iff (x y c : Nat) (hc : 0 < c) : x * c < y * c ↔ x < y :=
  ⟨fun h => Nat.lt_of_mul_lt_mul_right h, fun h => Nat.mul_lt_mul_of_pos_right h hc⟩

theorem pow_split (s : Nat) (hs : s ≤ keyScale) : 10 ^ (keyScale - s) * 10 ^ s = 10 ^ keyScale := by
  rw [← Nat.pow_add]
  congr 1
  omega

/-- comparing the keys of two non-negative decimals = comparing the rationals `na/10^sa`, `nb/10^sb`
    (cross-multiplied) -/
theorem key_lt_iff (na sa nb sb : Nat) (ha : sa ≤ keyScale) (hb : sb ≤ keyScale) :
    (Q.ok false na sa).key < (Q.ok false nb sb).key ↔ na * 10 ^ sb < nb * 10 ^ sa := by
  simp only [Q.key, Bool.false_eq_true, if_false, Int.ofNat_eq_natCast, Int.ofNat_lt]
  have hp : 0 < 10 ^ sa * 10 ^ sb := Nat.mul_pos (Nat.pow_pos (by omega)) (Nat.pow_pos (by omega))
  rw [← mul_pow_lt_iff _ _ _ hp]
  have e1 : na * 10 ^ (keyScale - sa) * (10 ^ sa * 10 ^ sb) = na * 10 ^ sb * 10 ^ keyScale := by
    rw [← pow_split sa ha]
    simp only [Nat.mul_assoc, Nat.mul_comm, Nat.mul_left_comm]
  have e2 : nb * 10 ^ (keyScale - sb) * (10 ^ sa * 10 ^ sb) = nb * 10 ^ sa * 10 ^ keyScale := by
    rw [← pow_split sb hb]
    simp only [Nat.mul_assoc, Nat.mul_comm, Nat.mul_left_comm]
  rw [e1, e2]
  exact mul_pow_lt_iff _ _ _ (Nat.pow_pos (by omega))

theorem key_eq_iff (na sa nb sb : Nat) (ha : sa ≤ keyScale) (hb : sb ≤ keyScale) :
    (Q.ok false na sa).key = (Q.ok false nb sb).key ↔ na * 10 ^ sb = nb * 10 ^ sa := by
  have h1 := key_lt_iff na sa nb sb ha hb
  have h2 := key_lt_iff nb sb na sa hb ha
  constructor
  · intro h
    have a1 : ¬ na * 10 ^ sb < nb * 10 ^ sa := fun hh => by have := h1.mpr hh; omega
    have a2 : ¬ nb * 10 ^ sa < na * 10 ^ sb := fun hh => by have := h2.mpr hh; omega
    omega
  · intro h
    have a1 : ¬ (Q.ok false na sa).key < (Q.ok false nb sb).key := fun hh => by have := h1.mp hh; omega
    have a2 : ¬ (Q.ok false nb sb).key < (Q.ok false na sa).key := fun hh => by have := h2.mp hh; omega
    omega

/-- a negative decimal mirrors the positive one -/
theorem key_neg (n s : Nat) : (Q.ok true n s).key = -(Q.ok false n s).key := by
  simp [Q.key]

/-- zero is zero whatever the sign and scale (`-0`, `0e5`, an underflowing `1e-400`) -/
theorem key_zero (neg : Bool) (s : Nat) : (Q.ok neg 0 s).key = 0 := by
  cases neg <;> simp [Q.key]

theorem isZero_iff_key (neg : Bool) (n s : Nat) : (Q.ok neg n s).isZero = true ↔ (Q.ok neg n s).key = 0 := by
  have hp : 0 < 10 ^ (keyScale - s) := Nat.pow_pos (by omega)
  cases neg <;> simp only [Q.isZero, Q.key, beq_iff_eq, Bool.false_eq_true, if_false, if_true,
    Int.ofNat_eq_natCast]
  · constructor
    · intro h; simp [h]
    · intro h
      have : n * 10 ^ (keyScale - s) = 0 := by omega
      rcases Nat.mul_eq_zero.mp this with h0 | h0
      · exact h0
      · omega
  · constructor
    · intro h; simp [h]
    · intro h
      have : n * 10 ^ (keyScale - s) = 0 := by omega
      rcases Nat.mul_eq_zero.mp this with h0 | h0
      · exact h0
      · omega

theorem infKey_pos : 0 < infKey := by
  unfold infKey
  exact Int.natCast_pos.mpr (Nat.pow_pos (by omega))

/-- `qvalue > 0` is `key > 0` on every ordered value -/
theorem isPos_iff_key (q : Q) (hq : q.ordered = true) : q.isPos = true ↔ 0 < q.key := by
  cases q with
  | ok neg n s =>
    have hp : 0 < 10 ^ (keyScale - s) := Nat.pow_pos (by omega)
    cases neg
    · simp only [Q.isPos, Q.key, Bool.not_false, Bool.true_and, bne_iff_ne, ne_eq, Bool.false_eq_true,
        if_false, Int.ofNat_eq_natCast]
      constructor
      · intro h
        have : 0 < n * 10 ^ (keyScale - s) := Nat.mul_pos (by omega) hp
        omega
      · intro h h0
        simp [h0] at h
    · simp only [Q.isPos, Q.key, Bool.not_true, Bool.false_and, Bool.false_eq_true, if_true,
        Int.ofNat_eq_natCast, false_iff]
      omega
  | inf neg =>
    have := infKey_pos
    cases neg
    · simp only [Q.isPos, Q.key, Bool.not_false, Bool.false_eq_true, if_false, true_iff]
      omega
    · simp only [Q.isPos, Q.key, Bool.not_true, Bool.false_eq_true, if_true, false_iff]
      omega
  | nan => simp [Q.ordered] at hq
  | bad => simp [Q.ordered] at hq
  | exotic => simp [Q.ordered] at hq

/-! ### finite keys stay below the key of `inf` -/

theorem digitsVal_go_lt (ds : Str) (n : Nat) :
    ds.foldl (fun n c => 10 * n + (c.toNat - '0'.toNat) % 10) n < (n + 1) * 10 ^ ds.length := by
  induction ds generalizing n with
  | nil => simp
  | cons c cs ih =>
    simp only [List.foldl_cons, List.length_cons]
    have h := ih (10 * n + (c.toNat - '0'.toNat) % 10)
    have hm : (c.toNat - '0'.toNat) % 10 < 10 := Nat.mod_lt _ (by omega)
    have : (10 * n + (c.toNat - '0'.toNat) % 10 + 1) * 10 ^ cs.length ≤ (n + 1) * 10 ^ (cs.length + 1) := by
      rw [Nat.pow_succ, ← Nat.mul_assoc]
      have h10 : 10 * n + (c.toNat - '0'.toNat) % 10 + 1 ≤ (n + 1) * 10 := by omega
      calc (10 * n + (c.toNat - '0'.toNat) % 10 + 1) * 10 ^ cs.length
          ≤ ((n + 1) * 10) * 10 ^ cs.length := Nat.mul_le_mul_right _ h10
        _ = (n + 1) * 10 ^ cs.length * 10 := by
            simp only [Nat.mul_assoc, Nat.mul_comm, Nat.mul_left_comm]
    omega

/-- a digit string of length n is below 10^n -/
theorem digitsVal_lt (ds : Str) : digitsVal ds < 10 ^ ds.length := by
  have := digitsVal_go_lt ds 0
  simpa [digitsVal] using this

theorem pow_le_pow10 {a b : Nat} (h : a ≤ b) : 10 ^ a ≤ 10 ^ b := Nat.pow_le_pow_right (by omega) h

/-- every finite value `mkQ` yields lies strictly between `-inf` and `+inf` in the key order -/
theorem mkQ_key_lt_infKey (neg : Bool) (ip fp : Str) (e : Int) (neg' : Bool) (n sc : Nat)
    (h : mkQ neg ip fp e = .ok neg' n sc) : -infKey < (Q.ok neg' n sc).key ∧ (Q.ok neg' n sc).key < infKey := by
  have hbound : n * 10 ^ (keyScale - sc) < 10 ^ (keyScale + 320) := by
    simp only [mkQ] at h
    split at h
    · simp only [Q.ok.injEq] at h
      obtain ⟨_, rfl, rfl⟩ := h
      simpa using Nat.pow_pos (by omega : 0 < 10)
    · split at h
      · simp at h
      · split at h
        · simp only [Q.ok.injEq] at h
          obtain ⟨_, rfl, rfl⟩ := h
          simpa using Nat.pow_pos (by omega : 0 < 10)
        · split at h
          · simp at h
          · rename_i hz hinf hunder hrange
            generalize hd2 : List.take _ _ = d2 at h hinf hunder hrange
            generalize he2 : (e - (fp.length : Int) + _ : Int) = e2 at h hinf hunder hrange
            have hdv := digitsVal_lt d2
            split at h
            · rename_i hpos
              simp only [Q.ok.injEq] at h
              obtain ⟨_, rfl, rfl⟩ := h
              have hlen : d2.length + e2.toNat ≤ 308 := by omega
              calc digitsVal d2 * 10 ^ e2.toNat * 10 ^ (keyScale - 0)
                  < 10 ^ d2.length * 10 ^ e2.toNat * 10 ^ (keyScale - 0) := by
                    apply Nat.mul_lt_mul_of_pos_right _ (Nat.pow_pos (by omega))
                    exact Nat.mul_lt_mul_of_pos_right hdv (Nat.pow_pos (by omega))
                _ = 10 ^ (d2.length + e2.toNat + keyScale) := by
                    rw [← Nat.pow_add, ← Nat.pow_add]; rfl
                _ ≤ 10 ^ (keyScale + 320) := pow_le_pow10 (by omega)
            · simp only [Q.ok.injEq] at h
              obtain ⟨_, rfl, rfl⟩ := h
              calc digitsVal d2 * 10 ^ (keyScale - (-e2).toNat)
                  < 10 ^ d2.length * 10 ^ (keyScale - (-e2).toNat) :=
                    Nat.mul_lt_mul_of_pos_right hdv (Nat.pow_pos (by omega))
                _ = 10 ^ (d2.length + (keyScale - (-e2).toNat)) := by rw [← Nat.pow_add]
                _ ≤ 10 ^ (keyScale + 320) := pow_le_pow10 (by omega)
  cases neg' <;> simp only [Q.key, infKey, Bool.false_eq_true, if_false, if_true, Int.ofNat_eq_natCast] <;> omega

theorem key_lt_infKey (s : Str) (neg : Bool) (n sc : Nat) (h : parseQ s = .ok neg n sc) :
    -infKey < (parseQ s).key ∧ (parseQ s).key < infKey := by
  rw [h]
  simp only [parseQ] at h
  repeat' split at h
  all_goals first
    | exact mkQ_key_lt_infKey _ _ _ _ _ _ _ h
    | simp at h

/-! ### the grammar, pinned on the notations `float()` knows -/

private def q (s : String) : Q := parseQ s.toList

example : q "0.5" = .ok false 5 1 := by decide
example : q ".5" = .ok false 5 1 := by decide
example : q "1." = .ok false 1 0 := by decide
example : q "+0.50" = .ok false 5 1 := by decide
example : q "-0" = .ok true 0 0 := by decide
example : q "1e0" = .ok false 1 0 := by decide
example : q "5E-1" = .ok false 5 1 := by decide
example : q "1_0" = .ok false 10 0 := by decide
example : q "1_000.0_1e0_2" = .ok false 100001 0 := by decide
example : q "0.000" = .ok false 0 0 := by decide
example : q "1e-400" = .ok false 0 0 := by decide
example : q "1e400" = .inf false := by decide
example : q "-1e400" = .inf true := by decide
example : q "inf" = .inf false := by decide
example : q "-Infinity" = .inf true := by decide
example : q "NaN" = .nan := by decide
example : q "+nan" = .nan := by decide
example : q "0.30000000000000001" = .exotic := by decide
example : q "0.500000000000000000000" = .ok false 5 1 := by decide
example : q "1e308" = .exotic := by decide
example : q "1e-320" = .exotic := by decide
example : q "" = .bad := by decide
example : q "." = .bad := by decide
example : q "1e" = .bad := by decide
example : q "1e+" = .bad := by decide
example : q "_1" = .bad := by decide
example : q "1_" = .bad := by decide
example : q "1__0" = .bad := by decide
example : q "1_.5" = .bad := by decide
example : q "1e_1" = .bad := by decide
example : q "in_f" = .bad := by decide
example : q "0x1" = .bad := by decide
example : q "0,5" = .bad := by decide
example : q "1 0" = .bad := by decide
example : q "infinit" = .bad := by decide
example : (q "0.5").key < (q "0.50001").key := by decide
example : (q "5e-1").key = (q "0.5").key := by decide
example : (q "-inf").key < (q "-1e300").key := by decide
example : (q "9.99999999999999e307").key < (q "inf").key := by decide

/-! ## the comparison looks at the order of the q-values only -/

/-- `AcceptElement.__lt__` with the keys seen through `φ` -/
def acceptLtBy (φ : Int → Int) (a b : Elem) : Bool :=
  if φ a.q.key = φ b.q.key then ltStr a.str b.str else decide (φ a.q.key < φ b.q.key)

def StrictMonoInt (φ : Int → Int) : Prop := ∀ x y, x < y → φ x < φ y

/-- **Order only**: any strictly monotone re-labelling of the values (such as rounding the modelled
    decimals to doubles) leaves every comparison unchanged. -/
theorem acceptLt_order_only (φ : Int → Int) (hφ : StrictMonoInt φ) (a b : Elem) :
    acceptLtBy φ a b = acceptLt a b := by
  simp only [acceptLtBy, acceptLt, Q.eq, Q.lt]
  rcases Int.lt_trichotomy a.q.key b.q.key with h | h | h
  · have := hφ _ _ h
    have h1 : ¬ φ a.q.key = φ b.q.key := by omega
    have h2 : ¬ a.q.key = b.q.key := by omega
    simp [h1, h2, h, this]
  · simp [h]
  · have := hφ _ _ h
    have h1 : ¬ φ a.q.key = φ b.q.key := by omega
    have h2 : ¬ a.q.key = b.q.key := by omega
    have h3 : ¬ φ a.q.key < φ b.q.key := by omega
    have h4 : ¬ a.q.key < b.q.key := by omega
    simp [h1, h2, h3, h4]

theorem ins_congr (lt1 lt2 : Elem → Elem → Bool) (x : Elem) (l : List Elem)
    (h : ∀ y ∈ l, lt1 y x = lt2 y x) : ins lt1 x l = ins lt2 x l := by
  induction l with
  | nil => rfl
  | cons y ys ih =>
    simp only [ins, h y List.mem_cons_self]
    rw [ih (fun z hz => h z (List.mem_cons_of_mem _ hz))]

/-- the sort result is a function of the comparisons between the elements of the list -/
theorem sortAsc_congr (lt1 lt2 : Elem → Elem → Bool) (l : List Elem)
    (h : ∀ a ∈ l, ∀ b ∈ l, lt1 a b = lt2 a b) : sortAsc lt1 l = sortAsc lt2 l := by
  induction l with
  | nil => rfl
  | cons x xs ih =>
    simp only [sortAsc]
    rw [ih (fun a ha b hb => h a (List.mem_cons_of_mem _ ha) b (List.mem_cons_of_mem _ hb))]
    apply ins_congr
    intro y hy
    have hy' : y ∈ xs := (sortAsc_perm lt2 xs).mem_iff.mp hy
    exact h y (List.mem_cons_of_mem _ hy') x List.mem_cons_self

/-- **the sort depends on the order of the values only** -/
theorem acceptSort_order_only (φ : Int → Int) (hφ : StrictMonoInt φ) (l : List Elem) :
    sortAsc (acceptLtBy φ) l = sortAsc acceptLt l :=
  sortAsc_congr _ _ l (fun a _ b _ => acceptLt_order_only φ hφ a b)

/-! ## `__lt__` is a strict weak order; `sorted` is the stable sort -/

theorem ltStr_irrefl (a : Str) : ltStr a a = false := by
  induction a with
  | nil => rfl
  | cons c cs ih => simp [ltStr, ih]

theorem ltStr_asymm (a b : Str) (h : ltStr a b = true) : ltStr b a = false := by
  induction a generalizing b with
  | nil => cases b <;> simp [ltStr] at h ⊢
  | cons c cs ih =>
    cases b with
    | nil => simp [ltStr] at h
    | cons d ds =>
      simp only [ltStr] at h ⊢
      by_cases h1 : c.toNat < d.toNat
      · have : ¬ d.toNat < c.toNat := by omega
        simp [this, h1]
      · by_cases h2 : d.toNat < c.toNat
        · simp [h1, h2] at h
        · simp only [h1, h2, if_false] at h ⊢
          exact ih ds h

/-- "not less" is transitive (the order on texts is total) -/
theorem ltStr_negTrans (a b c : Str) (h1 : ltStr a b = false) (h2 : ltStr b c = false) :
    ltStr a c = false := by
  induction a generalizing b c with
  | nil =>
    cases b with
    | nil => exact h2 ▸ (by cases c <;> simp_all [ltStr])
    | cons _ _ => simp [ltStr] at h1
  | cons x xs ih =>
    cases c with
    | nil => simp [ltStr]
    | cons z zs =>
      cases b with
      | nil => simp [ltStr] at h2
      | cons y ys =>
        simp only [ltStr] at h1 h2 ⊢
        by_cases hxy : x.toNat < y.toNat
        · simp [hxy] at h1
        · by_cases hyz : y.toNat < z.toNat
          · simp [hyz] at h2
          · simp only [hxy, if_false] at h1
            simp only [hyz, if_false] at h2
            by_cases hyx : y.toNat < x.toNat
            · have hxz : ¬ x.toNat < z.toNat := by omega
              by_cases hzx : z.toNat < x.toNat
              · simp [hxz, hzx]
              · have : z.toNat < y.toNat := by omega
                simp only [hxz, hzx, if_false]
                omega
            · simp only [hyx, if_false] at h1
              by_cases hzy : z.toNat < y.toNat
              · have hxz : ¬ x.toNat < z.toNat := by omega
                have hzx : z.toNat < x.toNat := by omega
                simp [hxz, hzx]
              · simp only [hzy, if_false] at h2
                have hxz : ¬ x.toNat < z.toNat := by omega
                have hzx : ¬ z.toNat < x.toNat := by omega
                simp only [hxz, hzx, if_false]
                exact ih ys zs h1 h2

/-- the two laws of a strict weak order -/
structure StrictWeak (lt : Elem → Elem → Bool) : Prop where
  asymm : ∀ a b, lt a b = true → lt b a = false
  negTrans : ∀ a b c, lt a b = false → lt b c = false → lt a c = false

/-- `AcceptElement.__lt__` (on elements whose q is ordered: the keys are then the values) -/
theorem acceptLt_strictWeak : StrictWeak acceptLt where
  asymm := by
    intro a b h
    simp only [acceptLt, Q.eq, Q.lt] at h ⊢
    by_cases he : a.q.key = b.q.key
    · simp only [he, decide_true, if_true] at h ⊢
      exact ltStr_asymm _ _ h
    · have he' : ¬ b.q.key = a.q.key := fun x => he x.symm
      simp only [he, he', decide_false, Bool.false_eq_true, if_false, decide_eq_true_eq,
        decide_eq_false_iff_not] at h ⊢
      omega
  negTrans := by
    intro a b c h1 h2
    simp only [acceptLt, Q.eq, Q.lt] at h1 h2 ⊢
    by_cases hab : a.q.key = b.q.key
    · by_cases hbc : b.q.key = c.q.key
      · have hac : a.q.key = c.q.key := by omega
        simp only [hab, hbc, decide_true, if_true] at h1 h2 ⊢
        first
          | exact ltStr_negTrans _ _ _ h1 h2
          | (simp only [← hbc] at h1 h2 ⊢; exact ltStr_negTrans _ _ _ h1 h2)
      · simp only [hbc, decide_false, Bool.false_eq_true, if_false, decide_eq_false_iff_not] at h2
        have hac : ¬ a.q.key = c.q.key := by omega
        simp only [hac, decide_false, Bool.false_eq_true, if_false, decide_eq_false_iff_not]
        omega
    · simp only [hab, decide_false, Bool.false_eq_true, if_false, decide_eq_false_iff_not] at h1
      by_cases hbc : b.q.key = c.q.key
      · have hac : ¬ a.q.key = c.q.key := by omega
        simp only [hac, decide_false, Bool.false_eq_true, if_false, decide_eq_false_iff_not]
        omega
      · simp only [hbc, decide_false, Bool.false_eq_true, if_false, decide_eq_false_iff_not] at h2
        have hac : ¬ a.q.key = c.q.key := by omega
        simp only [hac, decide_false, Bool.false_eq_true, if_false, decide_eq_false_iff_not]
        omega

theorem plainLt_strictWeak : StrictWeak plainLt where
  asymm := fun _ _ h => ltStr_asymm _ _ h
  negTrans := fun _ _ _ h1 h2 => ltStr_negTrans _ _ _ h1 h2

/-- no inversion: for `a` before `b` in the output, `b < a` is false -/
def NoInv (lt : Elem → Elem → Bool) (l : List Elem) : Prop := l.Pairwise (fun a b => lt b a = false)

theorem ins_noInv (lt : Elem → Elem → Bool) (sw : StrictWeak lt) (x : Elem) (l : List Elem)
    (h : NoInv lt l) : NoInv lt (ins lt x l) := by
  induction l with
  | nil => simp [ins, NoInv]
  | cons y ys ih =>
    have hy := List.pairwise_cons.mp h
    simp only [ins]
    split
    · rename_i hlt
      refine List.pairwise_cons.mpr ⟨?_, ih hy.2⟩
      intro z hz
      rcases List.mem_cons.mp ((ins_perm lt x ys).mem_iff.mp hz) with rfl | hm
      · exact sw.asymm _ _ hlt
      · exact hy.1 z hm
    · rename_i hlt
      have hyx : lt y x = false := by simpa using hlt
      refine List.pairwise_cons.mpr ⟨?_, h⟩
      intro z hz
      rcases List.mem_cons.mp hz with rfl | hm
      · exact hyx
      · exact sw.negTrans _ _ _ (hy.1 z hm) hyx

/-- **sorted**: the result of `sorted` has no inversion with respect to the full comparison
    (q first, then `str`), for every strict weak order -/
theorem sortAsc_sorted_full (lt : Elem → Elem → Bool) (sw : StrictWeak lt) (l : List Elem) :
    NoInv lt (sortAsc lt l) := by
  induction l with
  | nil => simp [sortAsc, NoInv]
  | cons x xs ih => exact ins_noInv lt sw x _ ih

/-- `a` and `b` are not ordered by `lt` (same q and same text for `__lt__`) -/
def equivBy (lt : Elem → Elem → Bool) (z e : Elem) : Bool := !lt z e && !lt e z

theorem ins_filter (lt : Elem → Elem → Bool) (sw : StrictWeak lt) (z x : Elem) (l : List Elem) :
    (ins lt x l).filter (equivBy lt z) =
      if equivBy lt z x then x :: l.filter (equivBy lt z) else l.filter (equivBy lt z) := by
  induction l with
  | nil => cases hx : equivBy lt z x <;> simp [ins, List.filter, hx]
  | cons y ys ih =>
    simp only [ins]
    split
    · rename_i hlt
      rw [List.filter_cons, ih]
      by_cases hx : equivBy lt z x = true
      · -- y < x and x ~ z: y is not ~ z
        have hy : equivBy lt z y = false := by
          cases hzy : equivBy lt z y with
          | false => rfl
          | true =>
            simp only [equivBy, Bool.and_eq_true, Bool.not_eq_true'] at hx hzy
            have := sw.negTrans y z x hzy.2 hx.1
            rw [hlt] at this
            cases this
        simp [hx, hy]
      · simp only [hx, Bool.false_eq_true, if_false]
        rw [List.filter_cons]
    · by_cases hx : equivBy lt z x = true
      · simp [hx, List.filter_cons]
      · simp [hx, List.filter_cons]

/-- **stable**: elements the comparison does not separate keep their input order -/
theorem sortAsc_stable (lt : Elem → Elem → Bool) (sw : StrictWeak lt) (z : Elem) (l : List Elem) :
    (sortAsc lt l).filter (equivBy lt z) = l.filter (equivBy lt z) := by
  induction l with
  | nil => rfl
  | cons x xs ih =>
    simp only [sortAsc]
    rw [ins_filter lt sw, ih, List.filter_cons]

/-- what the consumers iterate over: `reversed(sorted(...))` has no ascent in the full comparison -/
theorem acceptElements_sorted_full (v : Option Str) (els : List Elem) (h : acceptElements v = .ok els) :
    els.Pairwise (fun a b => acceptLt a b = false) := by
  unfold acceptElements at h
  split at h
  · cases h; simp
  · cases h; simp
  · simp only at h
    split at h
    · split at h
      · simp at h
      · split at h
        · simp at h
        · cases h
          exact List.pairwise_reverse.mpr (sortAsc_sorted_full _ acceptLt_strictWeak _)
    · cases h
      rename_i hl
      generalize List.map acceptFromStr _ = l at hl ⊢
      match l, hl with
      | [], _ => simp
      | [a], _ => simp
      | _ :: _ :: _, hl => simp at hl

/-- equal q: the tie is broken by the text, greater text first (`identity` before `gzip`) -/
example : acceptElements (some "gzip, identity".toList) =
    .ok [⟨sIdentity, []⟩, ⟨sGzip, []⟩] := by decide

/-! ## tokenising -/

theorem splitHeader_fold (v : Str) (h : '"' ∉ v) :
    v.foldr splitStep ⟨false, [], []⟩ =
      ⟨false, (v.foldr (fun x (st : Str × List Str) => if x = ',' then ([], st.1 :: st.2) else (x :: st.1, st.2)) ([], [])).1,
       (v.foldr (fun x (st : Str × List Str) => if x = ',' then ([], st.1 :: st.2) else (x :: st.1, st.2)) ([], [])).2⟩ := by
  induction v with
  | nil => rfl
  | cons c cs ih =>
    have hc : '"' ∉ cs := fun hh => h (List.mem_cons_of_mem _ hh)
    have hne : c ≠ '"' := fun hh => h (hh ▸ List.mem_cons_self)
    simp only [List.foldr_cons, ih hc, splitStep]
    by_cases hcomma : c = ','
    · simp [hcomma]
    · simp [hcomma, hne]

/-- without a quote in the field, `RE_HEADER_SPLIT.split` is `str.split(',')` -/
theorem splitHeader_noQuote (v : Str) (h : '"' ∉ v) : splitHeader v = splitOnChar ',' v := by
  simp only [splitHeader, splitOnChar, splitHeader_fold v h]

/-! ### the simple elements of the RFC grammar: `token` and `token;q=qvalue` -/

/-- a text without blanks and without the characters the element syntax gives a meaning to -/
def Plain (s : Str) : Prop := s ≠ [] ∧ ∀ c ∈ s, isSpace c = false ∧ c ≠ ';' ∧ c ≠ '"'

theorem qSplit_none (a : Str) (h : ';' ∉ a) : qSplit a = (a, none) := by
  induction a with
  | nil => rfl
  | cons c cs ih =>
    have hc : c ≠ ';' := fun e => h (e ▸ List.mem_cons_self)
    simp only [qSplit, hc, if_false, ih (fun hh => h (List.mem_cons_of_mem _ hh))]

/-- `q_separator.split(e, 1)` cuts at the first `;q=` -/
theorem qSplit_q (a r : Str) (h : ';' ∉ a) : qSplit (a ++ ';' :: 'q' :: '=' :: r) = (a, some r) := by
  induction a with
  | nil => simp [qSplit, matchQ, dropSpaces]
  | cons c cs ih =>
    have hc : c ≠ ';' := fun e => h (e ▸ List.mem_cons_self)
    simp only [List.cons_append, qSplit, hc, if_false, ih (fun hh => h (List.mem_cons_of_mem _ hh))]

theorem pfields_plain (s : Str) (pb odd : Bool) (cur : Str) (h : ';' ∉ s) :
    pfields s pb odd cur = [cur.reverse ++ s] := by
  induction s generalizing pb odd cur with
  | nil => simp [pfields]
  | cons c cs ih =>
    have hc : c ≠ ';' := fun e => h (e ▸ List.mem_cons_self)
    simp only [pfields, hc, false_and, if_false]
    rw [ih _ _ _ (fun hh => h (List.mem_cons_of_mem _ hh))]
    simp

theorem dropWhile_space_append (pad s : Str) (hp : ∀ c ∈ pad, isSpace c = true) :
    (pad ++ s).dropWhile isSpace = s.dropWhile isSpace := by
  induction pad with
  | nil => rfl
  | cons c cs ih =>
    simp only [List.cons_append, List.dropWhile, hp c List.mem_cons_self]
    exact ih (fun d hd => hp d (List.mem_cons_of_mem _ hd))

theorem strip_plain (pad s : Str) (hp : ∀ c ∈ pad, isSpace c = true) (hs : ∀ c ∈ s, isSpace c = false) :
    strip (pad ++ s) = s := by
  have h1 : lstrip (pad ++ s) = s := by
    simp only [lstrip, dropWhile_space_append pad s hp]
    cases s with
    | nil => rfl
    | cons c cs => simp [List.dropWhile, hs c List.mem_cons_self]
  simp only [strip, h1, rstrip]
  have : s.reverse.dropWhile isSpace = s.reverse := by
    cases hr : s.reverse with
    | nil => rfl
    | cons c cs =>
      have hc : c ∈ s := by
        have : c ∈ s.reverse := hr ▸ List.mem_cons_self
        exact List.mem_reverse.mp this
      simp [List.dropWhile, hs c hc]
  rw [this, List.reverse_reverse]

theorem parseHeader_plain (s : Str) (h : Plain s) : parseHeader s = (s, []) := by
  have hsemi : ';' ∉ s := fun hh => (h.2 _ hh).2.1 rfl
  simp only [parseHeader, pfields_plain s false false [] hsemi, List.reverse_nil, List.nil_append,
    List.map_cons, List.map_nil]
  have := strip_plain [] s (by simp) (fun c hc => (h.2 c hc).1)
  simp only [List.nil_append] at this
  simp [this]

/-- **`token`**: value = the token, no parameters, q = 1 (leading blanks after a comma do not matter) -/
theorem C17_simple_element (pad name : Str) (hp : ∀ c ∈ pad, isSpace c = true ∧ c ≠ ';') (hn : Plain name) :
    acceptFromStr (pad ++ name) = ⟨name, []⟩ ∧ (acceptFromStr (pad ++ name)).q = .ok false 1 0 := by
  have hsemi : ';' ∉ pad ++ name := by
    intro hh
    rcases List.mem_append.mp hh with h1 | h1
    · exact (hp _ h1).2 rfl
    · exact (hn.2 _ h1).2.1 rfl
  have hst := strip_plain pad name (fun c hc => (hp c hc).1) (fun c hc => (hn.2 c hc).1)
  have he : acceptFromStr (pad ++ name) = ⟨name, []⟩ := by
    simp only [acceptFromStr, qSplit_none _ hsemi, hst, parseHeader_plain name hn, List.map_nil]
  refine ⟨he, ?_⟩
  rw [he]
  simp only [Elem.q, Elem.qRaw, getP, List.find?]
  decide

/-- **`token;q=qvalue`**: value = the token, the only parameter is q, and the q-value is `float(qvalue)` -/
theorem C17_simple_element_q (pad name qs : Str) (hp : ∀ c ∈ pad, isSpace c = true ∧ c ≠ ';')
    (hn : Plain name) (hq : Plain qs) :
    acceptFromStr (pad ++ name ++ ';' :: 'q' :: '=' :: qs) = ⟨name, [(['q'], .elem qs [])]⟩ ∧
    (acceptFromStr (pad ++ name ++ ';' :: 'q' :: '=' :: qs)).q = parseQ qs := by
  have hsemi : ';' ∉ pad ++ name := by
    intro hh
    rcases List.mem_append.mp hh with h1 | h1
    · exact (hp _ h1).2 rfl
    · exact (hn.2 _ h1).2.1 rfl
  have hst := strip_plain pad name (fun c hc => (hp c hc).1) (fun c hc => (hn.2 c hc).1)
  have hsq := strip_plain [] qs (by simp) (fun c hc => (hq.2 c hc).1)
  simp only [List.nil_append] at hsq
  have he : acceptFromStr (pad ++ name ++ ';' :: 'q' :: '=' :: qs) = ⟨name, [(['q'], .elem qs [])]⟩ := by
    simp only [acceptFromStr, qSplit_q _ qs hsemi, hst, hsq, parseHeader_plain name hn,
      parseHeader_plain qs hq, List.map_nil, setP]
  refine ⟨he, ?_⟩
  rw [he]
  simp [Elem.q, Elem.qRaw, getP, List.find?]

example : Plain "gzip".toList := ⟨by decide, by decide⟩
example : Plain "0.5".toList := ⟨by decide, by decide⟩

private def els (s : String) : Parsed := acceptElements (some s.toList)
private def S (s : String) : Str := s.toList

/-- media-range parameters stay with the element, what follows the first `;q=` are accept-params -/
example : els "a;q=0.5;level=1, b" =
    .ok [⟨S "b", []⟩, ⟨S "a", [(S "q", .elem (S "0.5") [(S "level", S "1")])]⟩] := by decide
example : els "a;level=1;q=0.5" =
    .ok [⟨S "a", [(S "level", .str (S "1")), (S "q", .elem (S "0.5") [])]⟩] := by decide
/-- a comma inside a quoted value does not split -/
example : els "a;x=\"1,2\";q=0.1" = .ok [⟨S "a", [(S "x", .str (S "1,2")), (S "q", .elem (S "0.1") [])]⟩] := by
  decide
/-- blanks around `;`, `q` and `=` as far as `; *q *=` reaches -/
example : els "gzip ; q = 0.5" = .ok [⟨S "gzip", [(S "q", .elem (S "0.5") [])]⟩] := by decide
/-- a TAB before q is outside `; *q *=`: q stays an ordinary parameter (a plain string) -/
example : els "gzip;\tq=0.5" = .ok [⟨S "gzip", [(S "q", .str (S "0.5"))]⟩] := by decide
/-- a second q lands among the accept-params; the first one counts -/
example : (match els "a;q=0.5;q=0.9" with | .ok [e] => e.q | _ => .bad) = .ok false 5 1 := by decide
/-- `q=` without a value: one element → the list is returned, the consumer gets 400 from `qvalue` -/
example : (match els "gzip;q=" with | .ok [e] => e.q | _ => .exotic) = .bad := by decide
/-- … two elements: `sorted` evaluates it → 400 from header_elements -/
example : els "gzip;q=, identity" = .err400 := by decide
/-- upper-case `Q` is not the q separator, but parameter names are lower-cased: it is still q -/
example : (match els "gzip;Q=0" with | .ok [e] => e.q.isZero | _ => false) = true := by decide
example : els "a;q=0.5, b;q=0.7, c;q=0.5" =
    .ok [⟨S "b", [(S "q", .elem (S "0.7") [])]⟩, ⟨S "c", [(S "q", .elem (S "0.5") [])]⟩,
         ⟨S "a", [(S "q", .elem (S "0.5") [])]⟩] := by decide
/-- exponent notation takes part in the order -/
example : els "a;q=5e-1, b;q=0.7" =
    .ok [⟨S "b", [(S "q", .elem (S "0.7") [])]⟩, ⟨S "a", [(S "q", .elem (S "5e-1") [])]⟩] := by decide
/-- a list with a nan is not ordered by the model -/
example : els "a;q=nan, b" = .exotic := by decide

end CpProofs.C17
