import CpModel.BlockWait
/-!
  C20, part B: `Bus.block()` on the main thread against a second thread driving the bus.
  All schedules, all call sequences of the second thread in which `exit`/`restart`, if present,
  comes last (`ExitLast`), any initial state other than EXITING.
-/
namespace CpProofs.C20B
open CpModel.BlockWait

inductive Reach (s0 : St) (calls : List BCall) (fr : List Bool) : Cfg → Prop where
  | init : Reach s0 calls fr (init s0 calls fr)
  | step {c : Cfg} (t : Tid) : Reach s0 calls fr c → Reach s0 calls fr (step c t)

/-- the main thread has left the polling loop of `wait` -/
def leftWait (m : MPc) : Prop :=
  m = .tail ∨ m = .jn ∨ m = .jw ∨ m = .ex ∨ m = .dx ∨ m = .done

def inExitFrame (c : Cfg) : Prop :=
  c.xpc = .r7 ∨ c.xpc = .r8 ∨ c.xpc = .e2 ∨ c.xpc = .e3 ∨ c.xpc = .e4 ∨ c.xpc = .e5 ∨ c.xpc = .e7 ∨
    c.inExit = true

def afterE7 (c : Cfg) : Prop :=
  c.xpc = .e8 ∨ c.xpc = .e9 ∨ c.xpc = .e12 ∨ c.xpc = .e20 ∨ c.xpc = .done ∨ c.xpc = .osExit

def inStopFrame (c : Cfg) : Prop :=
  c.xpc = .s2 ∨ c.xpc = .s3 ∨ c.xpc = .s4 ∨ c.xpc = .s5 ∨ c.xpc = .s6

structure Inv (calls : List BCall) (c : Cfg) : Prop where
  exl : ExitLast c.todo = true
  sub : ∀ b, b ∈ c.todo → b ∈ calls
  /-- once `exit()` has written EXITING nothing writes the state again -/
  ex : c.exited = true → c.state = .exiting ∧ c.todo = [] ∧ afterE7 c
  st : c.state = .exiting → c.exited = true
  fr : inExitFrame c → c.todo = []
  ie : c.inExit = true → inStopFrame c
  saw : c.sawExiting = true → c.exited = true
  mp : leftWait c.mpc → c.sawExiting = true
  xv : c.execv = true → BCall.restart ∈ calls
  xr : BCall.restart ∈ calls → BCall.restart ∈ c.todo ∨ c.xpc = .r7 ∨ c.execv = true
  dn : c.mpc = .done → c.execvDone = c.execv
  nd : c.mpc ≠ .done → c.execvDone = false
  dxv : c.mpc = .dx → c.execv = true
  rr : c.xpc = .r7 → BCall.restart ∈ calls
  ee : (c.xpc = .e8 ∨ c.xpc = .e9 ∨ c.xpc = .e12 ∨ c.xpc = .e20) → c.exited = true

theorem exitLast_tail {b : BCall} {r : List BCall} (h : ExitLast (b :: r) = true) :
    ExitLast r = true ∧ ((b = .exit ∨ b = .restart) → r = []) := by
  cases b <;> simp_all [ExitLast] <;> cases r <;> simp_all [ExitLast]

theorem inv_enter {calls : List BCall} {c : Cfg} (h : Inv calls c)
    (hx : ¬ inExitFrame c) (he : c.exited = false) :
    Inv calls (enter c) := by
  obtain ⟨exl, sub, ex, st, fr, ie, saw, mp, xv, xr, dn, nd, dxv, rr, ee⟩ := h
  unfold enter
  split
  · refine ⟨by simp_all, by simp_all, ?_, ?_, ?_, ?_, ?_, ?_, ?_, ?_, ?_, ?_, ?_, ?_, ?_⟩ <;>
      simp only [inExitFrame, afterE7, inStopFrame, leftWait] at * <;> grind
  all_goals
    rename_i r heq
    have h2 := exitLast_tail (heq ▸ exl)
    have hsub : ∀ b, b ∈ r → b ∈ calls := fun b hb => sub b (by rw [heq]; exact List.mem_cons_of_mem _ hb)
    have hhd := sub _ (by rw [heq]; exact List.mem_cons_self)
    refine ⟨h2.1, hsub, ?_, ?_, ?_, ?_, ?_, ?_, ?_, ?_, ?_, ?_, ?_, ?_, ?_⟩ <;>
      simp only [inExitFrame, afterE7, inStopFrame, leftWait, heq] at * <;> grind


theorem inv_init (s0 : St) (calls : List BCall) (fr : List Bool) (hs : s0 ≠ .exiting)
    (hl : ExitLast calls = true) : Inv calls (init s0 calls fr) := by
  unfold init
  apply inv_enter
  · refine ⟨hl, fun _ h => h, ?_, ?_, ?_, ?_, ?_, ?_, ?_, ?_, ?_, ?_, ?_, ?_, ?_⟩ <;>
      simp_all [inExitFrame, afterE7, inStopFrame, leftWait]
  · simp [inExitFrame]
  · rfl

theorem inv_stepMain {calls : List BCall} {c : Cfg} (h : Inv calls c) : Inv calls (stepMain c) := by
  obtain ⟨exl, sub, ex, st, fr, ie, saw, mp, xv, xr, dn, nd, dxv, rr, ee⟩ := h
  unfold stepMain
  cases hpc : c.mpc <;> simp only [] <;> (try split) <;> (try split) <;> (try split) <;>
    (refine ⟨exl, sub, ?_, ?_, ?_, ?_, ?_, ?_, xv, ?_, ?_, ?_, ?_, ?_, ?_⟩ <;>
      simp only [inExitFrame, afterE7, inStopFrame, leftWait] at * <;> grind)

theorem inv_stepX {calls : List BCall} {c : Cfg} (h : Inv calls c) : Inv calls (stepX c) := by
  have h0 := h
  obtain ⟨exl, sub, ex, st, fr, ie, saw, mp, xv, xr, dn, nd, dxv, rr, ee⟩ := h
  unfold stepX
  cases hpc : c.xpc <;> simp only []
  case s6 =>
    split
    · refine ⟨exl, sub, ?_, ?_, ?_, ?_, ?_, ?_, xv, ?_, ?_, ?_, ?_, ?_, ?_⟩ <;>
        simp only [inExitFrame, afterE7, inStopFrame, leftWait] at * <;> grind
    · apply inv_enter h0 <;> simp only [inExitFrame, afterE7] at * <;> grind
  case a9 => apply inv_enter h0 <;> simp only [inExitFrame, afterE7, inStopFrame] at * <;> grind
  case g3 => apply inv_enter h0 <;> simp only [inExitFrame, afterE7, inStopFrame] at * <;> grind
  case e20 =>
    split
    · refine ⟨exl, sub, ?_, ?_, ?_, ?_, ?_, ?_, xv, ?_, ?_, ?_, ?_, ?_, ?_⟩ <;>
        simp only [inExitFrame, afterE7, inStopFrame, leftWait] at * <;> grind
    · have ht : c.todo = [] := by
        exact (ex (ee (by simp [hpc]))).2.1
      simp only [enter, ht]
      refine ⟨by simp [ht, ExitLast], by simp, ?_, ?_, ?_, ?_, ?_, ?_, xv, ?_, ?_, ?_, ?_, ?_, ?_⟩ <;>
        simp only [inExitFrame, afterE7, inStopFrame, leftWait] at * <;> grind
  all_goals
    (refine ⟨exl, sub, ?_, ?_, ?_, ?_, ?_, ?_, ?_, ?_, ?_, ?_, ?_, ?_, ?_⟩ <;>
      simp only [inExitFrame, afterE7, inStopFrame, leftWait] at * <;> grind)

theorem inv_stepF {calls : List BCall} {c : Cfg} (k : Nat) (h : Inv calls c) :
    Inv calls { c with fdone := c.fdone.set k true } := by
  obtain ⟨exl, sub, ex, st, fr, ie, saw, mp, xv, xr, dn, nd, dxv, rr, ee⟩ := h
  exact ⟨exl, sub, ex, st, fr, ie, saw, mp, xv, xr, dn, nd, dxv, rr, ee⟩

theorem inv_step {calls : List BCall} {c : Cfg} (t : Tid) (h : Inv calls c) : Inv calls (step c t) := by
  unfold step
  split
  · cases t
    · exact inv_stepMain h
    · exact inv_stepX h
    · exact inv_stepF _ h
  · exact h

theorem inv_of_reach {s0 : St} {calls : List BCall} {fr : List Bool} {c : Cfg} (hs : s0 ≠ .exiting)
    (hl : ExitLast calls = true) (h : Reach s0 calls fr c) : Inv calls c := by
  induction h with
  | init => exact inv_init s0 calls fr hs hl
  | step t _ ih => exact inv_step t ih

theorem stepMain_exited (c : Cfg) : (stepMain c).exited = c.exited := by
  unfold stepMain
  cases c.mpc <;> simp only [] <;> (try split) <;> (try split) <;> (try split) <;> rfl

theorem exited_step {calls : List BCall} {c : Cfg} (t : Tid) (h : Inv calls c)
    (he : c.exited = true) : (step c t).exited = true := by
  obtain ⟨_, _, hx⟩ := h.ex he
  unfold step
  split
  · cases t
    · rw [stepMain_exited]; exact he
    · unfold stepX
      simp only [afterE7] at hx
      rcases hx with h | h | h | h | h | h <;> simp only [h] <;> (try split) <;>
        (try unfold enter) <;> (try split) <;> exact he
    · exact he
  · exact he

/-! ### the join loop: which threads `block()` joins -/

theorem isDone_set {c : Cfg} (k j : Nat) (h : isDone c j = true) :
    isDone { c with fdone := c.fdone.set k true } j = true := by
  unfold isDone at *
  simp only [List.getD_eq_getElem?_getD, List.getElem?_set] at *
  split <;> simp_all
  split <;> simp_all

structure JInv (c : Cfg) : Prop where
  len : c.fdone.length = c.foreign.length
  /-- a snapshot entry of a foreign thread carries that thread's `daemon` flag -/
  sn : ∀ t ∈ c.snap, ∀ k, t.fid = some k →
        k < c.foreign.length ∧ t.daemon = c.foreign.getD k true ∧ t.cur = false ∧ t.main = false
  jw : c.mpc = .jw → c.jtgt < c.foreign.length ∧ c.foreign.getD c.jtgt true = false
  jd : ∀ k ∈ c.joined, k < c.foreign.length ∧ c.foreign.getD k true = false
  /-- inside the loop every unfinished non-daemon foreign thread is still ahead (or being joined) -/
  cv : (c.mpc = .jn ∨ c.mpc = .jw) → ∀ k, k < c.foreign.length → c.foreign.getD k true = false →
        isDone c k = true ∨ (∃ t ∈ c.snap, t.fid = some k) ∨ (c.mpc = .jw ∧ c.jtgt = k)
  fin : (c.mpc = .ex ∨ c.mpc = .dx ∨ c.mpc = .done) → ∀ k, k < c.foreign.length →
        c.foreign.getD k true = false → isDone c k = true

theorem mem_aliveForeign {c : Cfg} {t : Cand} (h : t ∈ aliveForeign c) :
    ∃ k, k < c.foreign.length ∧ isDone c k = false ∧ t = { daemon := c.foreign.getD k true, fid := some k } := by
  unfold aliveForeign at h
  simp only [List.mem_filterMap, List.mem_range] at h
  obtain ⟨k, hk, hx⟩ := h
  refine ⟨k, hk, ?_⟩
  split at hx
  · simp at hx
  · simp only [Option.some.injEq] at hx
    exact ⟨by simp_all, hx.symm⟩

theorem aliveForeign_mem {c : Cfg} {k : Nat} (hk : k < c.foreign.length) (hd : isDone c k = false) :
    ∃ t ∈ aliveForeign c, t.fid = some k := by
  refine ⟨{ daemon := c.foreign.getD k true, fid := some k }, ?_, rfl⟩
  unfold aliveForeign
  simp only [List.mem_filterMap, List.mem_range]
  exact ⟨k, hk, by simp [hd]⟩

theorem jinv_init (s0 : St) (calls : List BCall) (fr : List Bool) : JInv (init s0 calls fr) := by
  have : ∀ c : Cfg, c.mpc = .b10 → c.snap = [] → c.joined = [] → c.fdone.length = c.foreign.length →
      JInv (enter c) := by
    intro c h1 h2 h3 h4
    have e1 : (enter c).mpc = c.mpc := by unfold enter; split <;> rfl
    have e2 : (enter c).snap = c.snap := by unfold enter; split <;> rfl
    have e3 : (enter c).joined = c.joined := by unfold enter; split <;> rfl
    have e4 : (enter c).fdone = c.fdone := by unfold enter; split <;> rfl
    have e5 : (enter c).foreign = c.foreign := by unfold enter; split <;> rfl
    refine ⟨by rw [e4, e5]; exact h4, ?_, ?_, ?_, ?_, ?_⟩ <;> simp [e1, e2, e3, h1, h2, h3]
  exact this _ rfl rfl rfl (by simp)

theorem jinv_frame {c c' : Cfg} (h : JInv c) (h1 : c'.mpc = c.mpc) (h2 : c'.foreign = c.foreign)
    (h3 : c'.fdone = c.fdone) (h4 : c'.snap = c.snap) (h5 : c'.jtgt = c.jtgt)
    (h6 : c'.joined = c.joined) : JInv c' := by
  obtain ⟨len, sn, jw, jd, cv, fin⟩ := h
  refine ⟨?_, ?_, ?_, ?_, ?_, ?_⟩ <;> simp only [h1, h2, h3, h4, h5, h6, isDone] at * <;> assumption

theorem stepX_frame (c : Cfg) :
    (stepX c).mpc = c.mpc ∧ (stepX c).foreign = c.foreign ∧ (stepX c).fdone = c.fdone ∧
      (stepX c).snap = c.snap ∧ (stepX c).jtgt = c.jtgt ∧ (stepX c).joined = c.joined := by
  unfold stepX
  cases c.xpc <;> simp only [] <;> (try split) <;> (try unfold enter) <;> (try split) <;> simp

theorem jinv_stepF {c : Cfg} (k : Nat) (h : JInv c) : JInv { c with fdone := c.fdone.set k true } := by
  obtain ⟨len, sn, jw, jd, cv, fin⟩ := h
  refine ⟨by simpa using len, sn, jw, jd, ?_, ?_⟩
  · intro hm j hj hn
    rcases cv hm j hj hn with h | h | h
    · exact Or.inl (isDone_set k j h)
    · exact Or.inr (Or.inl h)
    · exact Or.inr (Or.inr h)
  · intro hm j hj hn
    exact isDone_set k j (fin hm j hj hn)

theorem jinv_stepMain {c : Cfg} (h : JInv c) (hen : enabled c .main = true) : JInv (stepMain c) := by
  obtain ⟨len, sn, jw, jd, cv, fin⟩ := h
  unfold stepMain
  cases hpc : c.mpc <;> simp only []
  case b10 => refine ⟨len, sn, ?_, jd, ?_, ?_⟩ <;> simp
  case b11 => refine ⟨len, sn, ?_, jd, ?_, ?_⟩ <;> simp
  case w2 => refine ⟨len, sn, ?_, jd, ?_, ?_⟩ <;> simp
  case w4 => split <;> (refine ⟨len, sn, ?_, jd, ?_, ?_⟩ <;> simp)
  case w5 => refine ⟨len, sn, ?_, jd, ?_, ?_⟩ <;> simp
  case w6 => refine ⟨len, sn, ?_, jd, ?_, ?_⟩ <;> simp
  case tail =>
    refine ⟨len, ?_, by simp, jd, ?_, by simp⟩
    · intro t ht k hk
      simp only [cands, List.mem_append, List.mem_cons, List.not_mem_nil, or_false] at ht
      rcases ht with (h | h | h) | h
      · subst h; simp at hk
      · subst h; simp at hk
      · subst h; simp at hk
      · obtain ⟨k', hk', _, ht'⟩ := mem_aliveForeign h
        subst ht'
        simp only [Option.some.injEq] at hk
        subst hk
        exact ⟨hk', rfl, rfl, rfl⟩
    · intro _ k hk hn
      have hk' : k < c.foreign.length := hk
      cases hd : isDone c k with
      | true => exact Or.inl (by simpa [isDone] using hd)
      | false =>
        obtain ⟨t, ht, hf⟩ := aliveForeign_mem (c := c) hk' hd
        exact Or.inr (Or.inl ⟨t, by simp [cands, ht], hf⟩)
  case jn =>
    have cv' := cv (Or.inl hpc)
    cases hs : c.snap with
    | nil =>
      simp only []
      refine ⟨len, by simp [hs], by simp, jd, by simp, ?_⟩
      intro _ k hk hn
      rcases cv' k hk hn with h | ⟨t, ht, _⟩ | ⟨h, _⟩
      · exact h
      · simp [hs] at ht
      · simp [hpc] at h
    | cons t r =>
      have snt := sn t (by simp [hs])
      have snr : ∀ t' ∈ r, ∀ k, t'.fid = some k →
          k < c.foreign.length ∧ t'.daemon = c.foreign.getD k true ∧ t'.cur = false ∧ t'.main = false :=
        fun t' ht' => sn t' (by simp [hs, ht'])
      simp only []
      split
      · rename_i hmj
        split
        · rename_i k hfk
          obtain ⟨h1, h2, h3, h4⟩ := snt k hfk
          have hnd : c.foreign.getD k true = false := by
            simp only [Cand.mustJoin, Bool.and_eq_true, Bool.not_eq_true'] at hmj
            rw [← h2]; exact hmj.2
          refine ⟨len, snr, fun _ => ⟨h1, hnd⟩, ?_, ?_, by simp⟩
          · intro j hj
            simp only [List.mem_append, List.mem_singleton] at hj
            rcases hj with hj | hj
            · exact jd j hj
            · subst hj; exact ⟨h1, hnd⟩
          · intro _ j hj hn
            rcases cv' j hj hn with h | ⟨t', ht', hf'⟩ | ⟨h, _⟩
            · exact Or.inl h
            · simp only [hs, List.mem_cons] at ht'
              rcases ht' with h | h
              · subst h
                rw [hfk] at hf'
                simp only [Option.some.injEq] at hf'
                exact Or.inr (Or.inr ⟨rfl, hf'⟩)
              · exact Or.inr (Or.inl ⟨t', h, hf'⟩)
            · simp [hpc] at h
        · rename_i hfk
          refine ⟨len, snr, by simp, jd, ?_, by simp⟩
          intro _ j hj hn
          rcases cv' j hj hn with h | ⟨t', ht', hf'⟩ | ⟨h, _⟩
          · exact Or.inl h
          · simp only [hs, List.mem_cons] at ht'
            rcases ht' with h | h
            · subst h; simp [hfk] at hf'
            · exact Or.inr (Or.inl ⟨t', h, hf'⟩)
          · simp [hpc] at h
      · rename_i hmj
        refine ⟨len, snr, by simp, jd, ?_, by simp⟩
        intro _ j hj hn
        rcases cv' j hj hn with h | ⟨t', ht', hf'⟩ | ⟨h, _⟩
        · exact Or.inl h
        · simp only [hs, List.mem_cons] at ht'
          rcases ht' with h | h
          · subst h
            obtain ⟨_, h2, h3, h4⟩ := snt j hf'
            exfalso
            apply hmj
            simp only [Cand.mustJoin, h3, h4, h2, hn, Bool.not_false, Bool.and_self]
          · exact Or.inr (Or.inl ⟨t', h, hf'⟩)
        · simp [hpc] at h
  case jw =>
    simp only [enabled, hpc, ne_eq, not_true_eq_false, decide_false, Bool.false_or, Bool.and_eq_true,
      decide_eq_true_eq] at hen
    refine ⟨len, sn, by simp, jd, ?_, by simp⟩
    intro _ j hj hn
    rcases cv (Or.inr hpc) j hj hn with h | h | ⟨_, h⟩
    · exact Or.inl h
    · exact Or.inr (Or.inl h)
    · subst h; exact Or.inl hen.2
  case ex =>
    have f := fin (Or.inl hpc)
    split <;> (refine ⟨len, sn, by simp, jd, by simp, ?_⟩ <;> intro _ <;> exact f)
  case dx =>
    have f := fin (Or.inr (Or.inl hpc))
    exact ⟨len, sn, by simp, jd, by simp, fun _ => f⟩
  case done => exact ⟨len, sn, jw, jd, cv, fin⟩

theorem jinv_step {c : Cfg} (t : Tid) (h : JInv c) : JInv (step c t) := by
  unfold step
  split
  · rename_i hen
    cases t with
    | main => exact jinv_stepMain h hen
    | x =>
      obtain ⟨h1, h2, h3, h4, h5, h6⟩ := stepX_frame c
      exact jinv_frame h h1 h2 h3 h4 h5 h6
    | f k => exact jinv_stepF k h
  · exact h

theorem aliveForeign_length (c : Cfg) : (aliveForeign c).length ≤ c.foreign.length := by
  unfold aliveForeign
  exact Nat.le_trans (List.length_filterMap_le _ _) (by simp)

theorem snapLen_step {c : Cfg} (t : Tid) (h : c.snap.length ≤ c.foreign.length + 3) :
    (step c t).snap.length ≤ (step c t).foreign.length + 3 := by
  have hal := aliveForeign_length c
  unfold step
  split
  · cases t with
    | main =>
      unfold stepMain
      cases c.mpc <;> simp only [] <;> (try split) <;> (try split) <;> (try split) <;>
        (try simp only [cands, List.length_append, List.length_cons, List.length_nil]) <;>
        (try simp_all only [List.length_cons]) <;> omega
    | x =>
      obtain ⟨_, h2, _, h4, _⟩ := stepX_frame c
      rw [h2, h4]; exact h
    | f k => exact h
  · exact h

theorem snapLen_of_reach {s0 : St} {calls : List BCall} {fr : List Bool} {c : Cfg}
    (h : Reach s0 calls fr c) : c.snap.length ≤ c.foreign.length + 3 := by
  induction h with
  | init =>
    have : ∀ c : Cfg, c.snap = [] → (enter c).snap.length ≤ (enter c).foreign.length + 3 := by
      intro c h; unfold enter; split <;> simp [h]
    exact this _ rfl
  | step t _ ih => exact snapLen_step t ih

theorem jinv_of_reach {s0 : St} {calls : List BCall} {fr : List Bool} {c : Cfg}
    (h : Reach s0 calls fr c) : JInv c := by
  induction h with
  | init => exact jinv_init s0 calls fr
  | step t _ ih => exact jinv_step t ih

/-- how many of its own steps the main thread needs, at most, to return from `block()` once the
    bus is EXITING and the foreign threads it has to join have finished: one per candidate of the
    `enumerate()` snapshot, one more per joined thread, plus the fixed lines -/
def dist (c : Cfg) : Nat :=
  let T := 2 * (3 + c.foreign.length) + 4
  match c.mpc with
  | .b10 => T + 4 | .b11 => T + 3 | .w2 => T + 2 | .w4 => T + 1 | .w5 => T + 3 | .w6 => T + 2
  | .tail => T
  | .jn => 2 * c.snap.length + 3
  | .jw => 2 * c.snap.length + 4
  | .ex => 2 | .dx => 1 | .done => 0

theorem dist_stepMain {c : Cfg} (hs : c.state = .exiting) :
    dist (stepMain c) ≤ dist c - 1 := by
  have hal := aliveForeign_length c
  unfold stepMain
  cases h : c.mpc <;> simp only []
  case b10 => simp [dist, h]
  case b11 => simp [dist, h]
  case w2 => simp [dist, h]
  case w4 => simp [dist, h, hs]
  case w5 => simp [dist, h]
  case w6 => simp [dist, h]
  case tail =>
    simp only [dist, h, cands, List.length_append, List.length_cons, List.length_nil]
    omega
  case jn =>
    cases hsn : c.snap with
    | nil => simp [dist, h, hsn]
    | cons t r =>
      simp only []
      by_cases hm : t.mustJoin = true
      · simp only [hm, if_true]
        cases hf : t.fid with
        | none => simp only [dist, h, hsn, List.length_cons]; omega
        | some k => simp only [dist, h, hsn, List.length_cons]; omega
      · simp only [hm, Bool.false_eq_true, if_false]
        simp only [dist, h, hsn, List.length_cons]; omega
  case jw => simp only [dist, h]; omega
  case ex => by_cases hx : c.execv = true <;> simp [dist, h, hx]
  case dx => simp [dist, h]
  case done => simp [dist, h]

/-- all non-daemon foreign threads have finished -/
def ForeignDone (c : Cfg) : Prop :=
  ∀ k, k < c.foreign.length → c.foreign.getD k true = false → isDone c k = true

theorem foreignDone_step {c : Cfg} (t : Tid) (h : ForeignDone c) : ForeignDone (step c t) := by
  unfold step
  split
  · cases t with
    | main =>
      have : (stepMain c).foreign = c.foreign ∧ (stepMain c).fdone = c.fdone := by
        unfold stepMain
        cases c.mpc <;> simp only [] <;> (try split) <;> (try split) <;> (try split) <;> simp
      intro k; simp only [isDone, this.1, this.2]; exact h k
    | x =>
      obtain ⟨_, h2, h3, _⟩ := stepX_frame c
      intro k; simp only [isDone, h2, h3]; exact h k
    | f j => intro k hk hn; exact isDone_set j k (h k hk hn)
  · exact h

theorem dist_run {calls : List BCall} (sched : List Tid) :
    ∀ c : Cfg, Inv calls c → JInv c → c.exited = true → ForeignDone c →
      dist (run c sched) ≤ dist c - sched.count .main := by
  induction sched with
  | nil => intro c _ _ _ _; simp [run]
  | cons t ts ih =>
    intro c h hj he hfd
    have h' := inv_step t h
    have hj' := jinv_step t hj
    have he' := exited_step t h he
    have hfd' := foreignDone_step t hfd
    have := ih (step c t) h' hj' he' hfd'
    simp only [run]
    have hs := (h.ex he).1
    cases t with
    | main =>
      have hd : dist (step c .main) ≤ dist c - 1 := by
        unfold step
        split
        · exact dist_stepMain hs
        · rename_i hen
          simp only [enabled, ne_eq, Bool.and_eq_true, decide_eq_true_eq, Bool.or_eq_true, not_and,
            not_or] at hen
          by_cases hm : c.mpc = .done
          · simp [dist, hm]
          · exfalso
            have h2 := hen hm
            by_cases hw : c.mpc = .jw
            · obtain ⟨hlt, hnd⟩ := hj.jw hw
              exact h2.2 (hfd _ hlt hnd)
            · exact h2.1 hw
      simp only [List.count_cons_self]
      omega
    | x =>
      have hd : dist (step c .x) = dist c := by
        unfold step; split
        · obtain ⟨h1, h2, _, h4, _⟩ := stepX_frame c
          simp only [dist, h1, h2, h4]
        · rfl
      have hc : List.count Tid.main (Tid.x :: ts) = List.count Tid.main ts := by
        rw [List.count_cons]; simp
      rw [hd] at this
      rw [hc]
      exact this
    | f k =>
      have hd : dist (step c (.f k)) = dist c := by
        unfold step; split <;> rfl
      have hc : List.count Tid.main (Tid.f k :: ts) = List.count Tid.main ts := by
        rw [List.count_cons]; simp
      rw [hd] at this
      rw [hc]
      exact this

theorem dist_zero {c : Cfg} (h : dist c = 0) : c.mpc = .done := by
  unfold dist at h
  cases hm : c.mpc <;> simp_all <;> omega

/-! ### theorems -/

/-- EXITING is stable: once `exit()` has written it, every later state of every schedule is EXITING. -/
theorem C20_exiting_stable (s0 : St) (calls : List BCall) (fr : List Bool) (c : Cfg) (hs : s0 ≠ .exiting)
    (hl : ExitLast calls = true) (h : Reach s0 calls fr c) (he : c.exited = true) (sched : List Tid) :
    (run c sched).state = .exiting := by
  have hi := inv_of_reach hs hl h
  suffices ∀ c, Inv calls c → c.exited = true → (run c sched).state = .exiting from this c hi he
  induction sched with
  | nil => intro c h he; exact (h.ex he).1
  | cons t ts ih => intro c h he; exact ih _ (inv_step t h) (exited_step t h he)

/-- `block()` returns once the bus is EXITING and the non-daemon foreign threads have finished:
    under ANY schedule in which the main thread gets `2 * #foreign + 14` turns (fairness for main),
    whatever the other threads do in between. -/
theorem C20_block_returns (s0 : St) (calls : List BCall) (fr : List Bool) (c : Cfg) (hs : s0 ≠ .exiting)
    (hl : ExitLast calls = true) (h : Reach s0 calls fr c) (he : c.exited = true)
    (hfd : ForeignDone c) (sched : List Tid)
    (hf : 2 * c.foreign.length + 14 ≤ sched.count .main) : (run c sched).mpc = .done := by
  have := dist_run sched c (inv_of_reach hs hl h) (jinv_of_reach h) he hfd
  apply dist_zero
  have hj := jinv_of_reach h
  have hb : dist c ≤ 2 * c.foreign.length + 14 := by
    unfold dist
    cases hm : c.mpc <;> simp only [] <;> try omega
    all_goals
      have hlen := snapLen_of_reach h
      omega
  omega

/-- ... and not before: when the main thread has left `wait`, EXITING had been written and the
    bus is still EXITING. -/
theorem C20_block_only_after_exiting (s0 : St) (calls : List BCall) (fr : List Bool) (c : Cfg)
    (hs : s0 ≠ .exiting) (hl : ExitLast calls = true) (h : Reach s0 calls fr c) (hm : leftWait c.mpc) :
    c.exited = true ∧ c.state = .exiting := by
  have hi := inv_of_reach hs hl h
  have he := hi.saw (hi.mp hm)
  exact ⟨he, (hi.ex he).1⟩

/-- when `block()` has returned, the main thread has performed `execv` iff `restart()` was called -/
theorem C20_execv_iff_restart (s0 : St) (calls : List BCall) (fr : List Bool) (c : Cfg)
    (hs : s0 ≠ .exiting) (hl : ExitLast calls = true) (h : Reach s0 calls fr c) (hm : c.mpc = .done) :
    c.execvDone = true ↔ BCall.restart ∈ calls := by
  have hi := inv_of_reach hs hl h
  have he := hi.saw (hi.mp (by simp [leftWait, hm]))
  obtain ⟨_, ht, ha⟩ := hi.ex he
  rw [hi.dn hm]
  constructor
  · exact hi.xv
  · intro hr
    rcases hi.xr hr with h1 | h1 | h1
    · simp [ht] at h1
    · simp only [afterE7, h1] at ha; simp at ha
    · exact h1

/-- without `ExitLast` the statement is false: `exit(); start()` on the second thread can hide
    EXITING from the polling loop for ever (documented misuse; outside the property's quantifier) -/
theorem C20_block_returns_needs_exitLast :
    ∃ sched, let c := run (init .started [.exit, .start]) sched
      c.xpc = .done ∧ c.state = .started ∧ c.exited = true := by
  refine ⟨List.replicate 22 .x, ?_⟩
  decide +kernel

/-! non-vacuity -/
theorem reach_run (s0 : St) (calls : List BCall) (fr : List Bool) (sched : List Tid) :
    Reach s0 calls fr (run (init s0 calls fr) sched) := by
  suffices ∀ c, Reach s0 calls fr c → Reach s0 calls fr (run c sched) from this _ .init
  induction sched with
  | nil => intro c h; exact h
  | cons t ts ih => intro c h; exact ih _ (.step t h)

example : ∃ c, Reach .started [.stop, .restart] [] c ∧ c.exited = true ∧ c.mpc = .w5 := by
  have : ∀ sched, Reach .started [.stop, .restart] [] (run (init .started [.stop, .restart]) sched) := by
    intro sched
    suffices ∀ c, Reach .started [.stop, .restart] [] c → Reach .started [.stop, .restart] [] (run c sched)
      from this _ .init
    induction sched with
    | nil => intro c h; exact h
    | cons t ts ih => intro c h; exact ih _ (.step t h)
  exact ⟨_, this (List.replicate 4 .main ++ List.replicate 18 .x), by decide +kernel, by decide +kernel⟩

/-- `block()` joins only foreign threads that are not daemonic — never the caller, never the
    `_MainThread` (no self-deadlock), never a daemon -/
theorem C20_block_joins_only_nondaemon (s0 : St) (calls : List BCall) (fr : List Bool) (c : Cfg)
    (h : Reach s0 calls fr c) : ∀ k ∈ c.joined, k < c.foreign.length ∧ c.foreign.getD k true = false :=
  (jinv_of_reach h).jd

/-- when the join loop is over (the `execv` test, `_do_execv`, returned) every non-daemon foreign
    thread has finished: `block()` does not return, and does not re-exec, before they have -/
theorem C20_block_waits_for_foreign (s0 : St) (calls : List BCall) (fr : List Bool) (c : Cfg)
    (h : Reach s0 calls fr c) (hm : c.mpc = .ex ∨ c.mpc = .dx ∨ c.mpc = .done) : ForeignDone c :=
  (jinv_of_reach h).fin hm

/-- execv is performed only after those joins -/
theorem C20_execv_after_joins (s0 : St) (calls : List BCall) (fr : List Bool) (c : Cfg)
    (hs : s0 ≠ .exiting) (hl : ExitLast calls = true) (h : Reach s0 calls fr c)
    (hx : c.execvDone = true) : ForeignDone c := by
  have hi := inv_of_reach hs hl h
  have hm : c.mpc = .done := by
    apply Classical.byContradiction
    intro hne
    have := hi.nd hne
    simp [hx] at this
  exact (jinv_of_reach h).fin (Or.inr (Or.inr hm))

/-- a non-daemon foreign thread that has not finished keeps `block()` inside the join loop -/
theorem C20_block_blocked_by_foreign (s0 : St) (calls : List BCall) (fr : List Bool) (c : Cfg)
    (h : Reach s0 calls fr c) (k : Nat) (hk : k < c.foreign.length)
    (hn : c.foreign.getD k true = false) (hd : isDone c k = false) : c.mpc ≠ .done := by
  intro hm
  have := (jinv_of_reach h).fin (Or.inr (Or.inr hm)) k hk hn
  simp [hd] at this

/-! non-vacuity: one non-daemon and one daemon foreign thread; the daemon one never finishes -/
example : let c := run (init .started [.restart] [false, true]) (List.replicate 12 .x ++ List.replicate 9 .main ++ [.f 0] ++ List.replicate 6 .main)
    c.mpc = .done ∧ c.joined = [0] ∧ c.execvDone = true ∧ c.fdone = [true, false] := by
  decide +kernel

example : let c := run (init .started [.restart] [false, true]) (List.replicate 12 .x ++ List.replicate 40 .main)
    c.mpc = .jw ∧ c.joined = [0] ∧ c.execvDone = false := by
  decide +kernel

end CpProofs.C20B
