import CpModel.BlockWait
/-!
  C20, part B: `Bus.block()` on the main thread against a second thread driving the bus.
  All schedules, all call sequences of the second thread in which `exit`/`restart`, if present,
  comes last (`ExitLast`), any initial state other than EXITING.
-/
namespace CpProofs.C20B
open CpModel.BlockWait

inductive Reach (s0 : St) (calls : List BCall) : Cfg → Prop where
  | init : Reach s0 calls (init s0 calls)
  | step {c : Cfg} (t : Tid) : Reach s0 calls c → Reach s0 calls (step c t)

def inExitFrame (c : Cfg) : Prop :=
  c.xpc = .r7 ∨ c.xpc = .r8 ∨ c.xpc = .e2 ∨ c.xpc = .e3 ∨ c.xpc = .e4 ∨ c.xpc = .e5 ∨ c.xpc = .e7 ∨
    c.inExit = true

def afterE7 (c : Cfg) : Prop :=
  c.xpc = .e8 ∨ c.xpc = .e9 ∨ c.xpc = .e12 ∨ c.xpc = .e20 ∨ c.xpc = .done ∨ c.xpc = .osExit

def inStopFrame (c : Cfg) : Prop :=
  c.xpc = .s2 ∨ c.xpc = .s3 ∨ c.xpc = .s4 ∨ c.xpc = .s5 ∨ c.xpc = .s6

structure Inv (calls : List BCall) (c : Cfg) : Prop where
  exl : ExitLast c.todo = true
  sub : ∀ b, b ∈ c.todo → b ∈ calls
  /-- once `exit()` has written EXITING nothing writes the state again -/
  ex : c.exited = true → c.state = .exiting ∧ c.todo = [] ∧ afterE7 c
  st : c.state = .exiting → c.exited = true
  fr : inExitFrame c → c.todo = []
  ie : c.inExit = true → inStopFrame c
  saw : c.sawExiting = true → c.exited = true
  mp : (c.mpc = .tail ∨ c.mpc = .done) → c.sawExiting = true
  xv : c.execv = true → BCall.restart ∈ calls
  xr : BCall.restart ∈ calls → BCall.restart ∈ c.todo ∨ c.xpc = .r7 ∨ c.execv = true
  dn : c.mpc = .done → c.execvDone = c.execv
  nd : c.mpc ≠ .done → c.execvDone = false
  rr : c.xpc = .r7 → BCall.restart ∈ calls
  ee : (c.xpc = .e8 ∨ c.xpc = .e9 ∨ c.xpc = .e12 ∨ c.xpc = .e20) → c.exited = true

theorem exitLast_tail {b : BCall} {r : List BCall} (h : ExitLast (b :: r) = true) :
    ExitLast r = true ∧ ((b = .exit ∨ b = .restart) → r = []) := by
  cases b <;> simp_all [ExitLast] <;> cases r <;> simp_all [ExitLast]

theorem inv_enter {calls : List BCall} {c : Cfg} (h : Inv calls c)
    (hx : ¬ inExitFrame c) (he : c.exited = false) :
    Inv calls (enter c) := by
  obtain ⟨exl, sub, ex, st, fr, ie, saw, mp, xv, xr, dn, nd, rr, ee⟩ := h
  unfold enter
  split
  · refine ⟨by simp_all, by simp_all, ?_, ?_, ?_, ?_, ?_, ?_, ?_, ?_, ?_, ?_, ?_, ?_⟩ <;>
      simp only [inExitFrame, afterE7, inStopFrame] at * <;> grind
  all_goals
    rename_i r heq
    have h2 := exitLast_tail (heq ▸ exl)
    have hsub : ∀ b, b ∈ r → b ∈ calls := fun b hb => sub b (by rw [heq]; exact List.mem_cons_of_mem _ hb)
    have hhd := sub _ (by rw [heq]; exact List.mem_cons_self)
    refine ⟨h2.1, hsub, ?_, ?_, ?_, ?_, ?_, ?_, ?_, ?_, ?_, ?_, ?_, ?_⟩ <;>
      simp only [inExitFrame, afterE7, inStopFrame, heq] at * <;> grind


theorem inv_init (s0 : St) (calls : List BCall) (hs : s0 ≠ .exiting) (hl : ExitLast calls = true) :
    Inv calls (init s0 calls) := by
  unfold init
  apply inv_enter
  · refine ⟨hl, fun _ h => h, ?_, ?_, ?_, ?_, ?_, ?_, ?_, ?_, ?_, ?_, ?_, ?_⟩ <;>
      simp_all [inExitFrame, afterE7, inStopFrame]
  · simp [inExitFrame]
  · rfl

theorem inv_stepMain {calls : List BCall} {c : Cfg} (h : Inv calls c) : Inv calls (stepMain c) := by
  obtain ⟨exl, sub, ex, st, fr, ie, saw, mp, xv, xr, dn, nd, rr, ee⟩ := h
  unfold stepMain
  cases hpc : c.mpc <;> simp only [] <;> (try split) <;>
    (refine ⟨exl, sub, ?_, ?_, ?_, ?_, ?_, ?_, xv, ?_, ?_, ?_, ?_, ?_⟩ <;>
      simp only [inExitFrame, afterE7, inStopFrame] at * <;> grind)

theorem inv_stepX {calls : List BCall} {c : Cfg} (h : Inv calls c) : Inv calls (stepX c) := by
  have h0 := h
  obtain ⟨exl, sub, ex, st, fr, ie, saw, mp, xv, xr, dn, nd, rr, ee⟩ := h
  unfold stepX
  cases hpc : c.xpc <;> simp only []
  case s6 =>
    split
    · refine ⟨exl, sub, ?_, ?_, ?_, ?_, ?_, ?_, xv, ?_, ?_, ?_, ?_, ?_⟩ <;>
        simp only [inExitFrame, afterE7, inStopFrame] at * <;> grind
    · apply inv_enter h0 <;> simp only [inExitFrame, afterE7] at * <;> grind
  case a9 => apply inv_enter h0 <;> simp only [inExitFrame, afterE7, inStopFrame] at * <;> grind
  case g3 => apply inv_enter h0 <;> simp only [inExitFrame, afterE7, inStopFrame] at * <;> grind
  case e20 =>
    split
    · refine ⟨exl, sub, ?_, ?_, ?_, ?_, ?_, ?_, xv, ?_, ?_, ?_, ?_, ?_⟩ <;>
        simp only [inExitFrame, afterE7, inStopFrame] at * <;> grind
    · have ht : c.todo = [] := by
        exact (ex (ee (by simp [hpc]))).2.1
      simp only [enter, ht]
      refine ⟨by simp [ht, ExitLast], by simp, ?_, ?_, ?_, ?_, ?_, ?_, xv, ?_, ?_, ?_, ?_, ?_⟩ <;>
        simp only [inExitFrame, afterE7, inStopFrame] at * <;> grind
  all_goals
    (refine ⟨exl, sub, ?_, ?_, ?_, ?_, ?_, ?_, ?_, ?_, ?_, ?_, ?_, ?_⟩ <;>
      simp only [inExitFrame, afterE7, inStopFrame] at * <;> grind)


theorem inv_step {calls : List BCall} {c : Cfg} (t : Tid) (h : Inv calls c) : Inv calls (step c t) := by
  unfold step
  split
  · cases t
    · exact inv_stepMain h
    · exact inv_stepX h
  · exact h

theorem inv_of_reach {s0 : St} {calls : List BCall} {c : Cfg} (hs : s0 ≠ .exiting)
    (hl : ExitLast calls = true) (h : Reach s0 calls c) : Inv calls c := by
  induction h with
  | init => exact inv_init s0 calls hs hl
  | step t _ ih => exact inv_step t ih

theorem exited_step {calls : List BCall} {c : Cfg} (t : Tid) (h : Inv calls c)
    (he : c.exited = true) : (step c t).exited = true := by
  obtain ⟨_, _, hx⟩ := h.ex he
  unfold step
  split
  · cases t
    · unfold stepMain; cases c.mpc <;> simp only [] <;> (try split) <;> exact he
    · unfold stepX
      simp only [afterE7] at hx
      rcases hx with h | h | h | h | h | h <;> simp only [h] <;> (try split) <;>
        (try unfold enter) <;> (try split) <;> exact he
  · exact he

/-- how many of its own steps the main thread needs, at most, to return from `block()` once the
    bus is EXITING -/
def dist : MPc → Nat
  | .b10 => 5 | .b11 => 4 | .w2 => 3 | .w4 => 2 | .w5 => 4 | .w6 => 3 | .tail => 1 | .done => 0

theorem dist_stepMain {c : Cfg} (hs : c.state = .exiting) :
    dist (stepMain c).mpc = dist c.mpc - 1 := by
  unfold stepMain
  cases h : c.mpc <;> simp [dist, hs, h]

theorem mpc_stepX (c : Cfg) : (stepX c).mpc = c.mpc := by
  unfold stepX
  cases c.xpc <;> simp only [] <;> (try split) <;> (try unfold enter) <;> (try split) <;> rfl

theorem dist_run {calls : List BCall} (sched : List Tid) :
    ∀ c : Cfg, Inv calls c → c.exited = true →
      dist (run c sched).mpc ≤ dist c.mpc - sched.count .main := by
  induction sched with
  | nil => intro c _ _; simp [run]
  | cons t ts ih =>
    intro c h he
    have h' := inv_step t h
    have he' := exited_step t h he
    have := ih (step c t) h' he'
    simp only [run]
    have hs := (h.ex he).1
    cases t with
    | main =>
      have hd : dist (step c .main).mpc = dist c.mpc - 1 := by
        unfold step
        split
        · exact dist_stepMain hs
        · rename_i hen
          simp only [enabled, decide_eq_true_eq, ne_eq, Decidable.not_not] at hen
          simp [hen, dist]
      simp only [List.count_cons_self]
      omega
    | x =>
      have hd : (step c .x).mpc = c.mpc := by
        unfold step; split
        · exact mpc_stepX c
        · rfl
      have hc : List.count Tid.main (Tid.x :: ts) = List.count Tid.main ts := by
        rw [List.count_cons]; simp
      rw [hd] at this
      rw [hc]
      exact this

theorem dist_zero {m : MPc} (h : dist m = 0) : m = .done := by
  cases m <;> simp_all [dist]

/-! ### theorems -/

/-- EXITING is stable: once `exit()` has written it, every later state of every schedule is EXITING. -/
theorem C20_exiting_stable (s0 : St) (calls : List BCall) (c : Cfg) (hs : s0 ≠ .exiting)
    (hl : ExitLast calls = true) (h : Reach s0 calls c) (he : c.exited = true) (sched : List Tid) :
    (run c sched).state = .exiting := by
  have hi := inv_of_reach hs hl h
  suffices ∀ c, Inv calls c → c.exited = true → (run c sched).state = .exiting from this c hi he
  induction sched with
  | nil => intro c h he; exact (h.ex he).1
  | cons t ts ih => intro c h he; exact ih _ (inv_step t h) (exited_step t h he)

/-- `block()` returns once the bus is EXITING: under ANY schedule in which the main thread gets 5
    turns (fairness for main), whatever the other thread does in between. -/
theorem C20_block_returns (s0 : St) (calls : List BCall) (c : Cfg) (hs : s0 ≠ .exiting)
    (hl : ExitLast calls = true) (h : Reach s0 calls c) (he : c.exited = true) (sched : List Tid)
    (hf : 5 ≤ sched.count .main) : (run c sched).mpc = .done := by
  have := dist_run sched c (inv_of_reach hs hl h) he
  apply dist_zero
  have : dist c.mpc ≤ 5 := by cases c.mpc <;> simp [dist]
  omega

/-- ... and not before: when the main thread has left `wait`, EXITING had been written and the
    bus is still EXITING. -/
theorem C20_block_only_after_exiting (s0 : St) (calls : List BCall) (c : Cfg) (hs : s0 ≠ .exiting)
    (hl : ExitLast calls = true) (h : Reach s0 calls c) (hm : c.mpc = .tail ∨ c.mpc = .done) :
    c.exited = true ∧ c.state = .exiting := by
  have hi := inv_of_reach hs hl h
  have he := hi.saw (hi.mp hm)
  exact ⟨he, (hi.ex he).1⟩

/-- when `block()` has returned, the main thread has performed `execv` iff `restart()` was called -/
theorem C20_execv_iff_restart (s0 : St) (calls : List BCall) (c : Cfg) (hs : s0 ≠ .exiting)
    (hl : ExitLast calls = true) (h : Reach s0 calls c) (hm : c.mpc = .done) :
    c.execvDone = true ↔ BCall.restart ∈ calls := by
  have hi := inv_of_reach hs hl h
  have he := hi.saw (hi.mp (Or.inr hm))
  obtain ⟨_, ht, ha⟩ := hi.ex he
  rw [hi.dn hm]
  constructor
  · exact hi.xv
  · intro hr
    rcases hi.xr hr with h1 | h1 | h1
    · simp [ht] at h1
    · simp only [afterE7, h1] at ha; simp at ha
    · exact h1

/-- without `ExitLast` the statement is false: `exit(); start()` on the second thread can hide
    EXITING from the polling loop for ever (documented misuse; outside the property's quantifier) -/
theorem C20_block_returns_needs_exitLast :
    ∃ sched, let c := run (init .started [.exit, .start]) sched
      c.xpc = .done ∧ c.state = .started ∧ c.exited = true := by
  refine ⟨List.replicate 22 .x, ?_⟩
  decide +kernel

/-! non-vacuity -/
example : ∃ c, Reach .started [.stop, .restart] c ∧ c.exited = true ∧ c.mpc = .w5 := by
  have : ∀ sched, Reach .started [.stop, .restart] (run (init .started [.stop, .restart]) sched) := by
    intro sched
    suffices ∀ c, Reach .started [.stop, .restart] c → Reach .started [.stop, .restart] (run c sched)
      from this _ .init
    induction sched with
    | nil => intro c h; exact h
    | cons t ts ih => intro c h; exact ih _ (.step t h)
  exact ⟨_, this (List.replicate 4 .main ++ List.replicate 18 .x), by decide +kernel, by decide +kernel⟩

end CpProofs.C20B
