import CpProofs.C03Lemmas
/-!
  C03 helper lemmas, part 2: Python's `split` as transcribed in `CpModel.UrlEnc` (one- and two-level
  splitting of `seg0 sep seg1 sep …`), the `%`-split-and-join skeleton shared by both unquote
  functions, hex digits, charset codecs with a round-trip law.
-/
namespace CpProofs.C03
open CpModel.UrlEnc

section Split
variable {α : Type} [DecidableEq α]

theorem splitOn'_nil (sep : α) : splitOn' sep ([] : List α) = ([], []) := rfl

theorem splitOn'_cons (sep c : α) (s : List α) :
    splitOn' sep (c :: s) =
      if c = sep then ([], (splitOn' sep s).1 :: (splitOn' sep s).2)
      else (c :: (splitOn' sep s).1, (splitOn' sep s).2) := by
  rw [splitOn']

theorem splitOn_eq (sep : α) (s : List α) : splitOn sep s = (splitOn' sep s).1 :: (splitOn' sep s).2 := by
  unfold splitOn
  rfl

/-- Splitting a piece that does not contain the separator, followed by anything. -/
theorem splitOn'_append_of_not_mem (sep : α) (t w : List α) (h : sep ∉ t) :
    splitOn' sep (t ++ w) = (t ++ (splitOn' sep w).1, (splitOn' sep w).2) := by
  induction t with
  | nil => simp
  | cons c t ih =>
    simp only [List.mem_cons, not_or] at h
    have hc : ¬ c = sep := fun e => h.1 e.symm
    simp only [List.cons_append, splitOn'_cons, hc, if_false, ih h.2]

theorem splitOn'_of_not_mem (sep : α) (t : List α) (h : sep ∉ t) : splitOn' sep t = (t, []) := by
  have := splitOn'_append_of_not_mem sep t [] h
  simpa [splitOn'_nil] using this

theorem partition1_append_sep (sep : α) (t w : List α) (h : sep ∉ t) :
    partition1 sep (t ++ sep :: w) = (t, some w) := by
  induction t with
  | nil => simp [partition1]
  | cons c t ih =>
    simp only [List.mem_cons, not_or] at h
    have hc : ¬ c = sep := fun e => h.1 e.symm
    simp only [List.cons_append, partition1, hc, if_false, ih h.2]

theorem partition1_of_not_mem (sep : α) (t : List α) (h : sep ∉ t) : partition1 sep t = (t, none) := by
  induction t with
  | nil => simp [partition1]
  | cons c t ih =>
    simp only [List.mem_cons, not_or] at h
    have hc : ¬ c = sep := fun e => h.1 e.symm
    simp only [partition1, hc, if_false, ih h.2]

/-- `[s2 for s1 in s.split(a) for s2 in s1.split(b)]` -/
def pieces (a b : α) (s : List α) : List (List α) := (splitOn a s).flatMap (splitOn b)

/-- first piece / remaining pieces of `pieces` -/
def piecesHd (a b : α) (s : List α) : List α := (splitOn' b (splitOn' a s).1).1

def piecesTl (a b : α) (s : List α) : List (List α) :=
  (splitOn' b (splitOn' a s).1).2 ++ (splitOn' a s).2.flatMap (splitOn b)

theorem pieces_eq (a b : α) (s : List α) : pieces a b s = piecesHd a b s :: piecesTl a b s := by
  simp [pieces, piecesHd, piecesTl, splitOn_eq]

theorem pieces_nil (a b : α) : pieces a b ([] : List α) = [[]] := by
  simp [pieces, splitOn_eq, splitOn'_nil]

theorem pieces_cons_sep (a b c : α) (s : List α) (h : c = a ∨ c = b) :
    pieces a b (c :: s) = [] :: pieces a b s := by
  by_cases ha : c = a
  · subst ha
    simp [pieces, splitOn_eq, splitOn'_cons, splitOn'_nil]
  · have hb : c = b := by rcases h with h | h; exact absurd h ha; exact h
    subst hb
    simp [pieces, splitOn_eq, splitOn'_cons, ha]

theorem pieces_append_of_not_mem (a b : α) (t w : List α) (ha : a ∉ t) (hb : b ∉ t) :
    pieces a b (t ++ w) = (t ++ piecesHd a b w) :: piecesTl a b w := by
  rw [pieces_eq]
  simp only [piecesHd, piecesTl, splitOn'_append_of_not_mem a t w ha]
  rw [splitOn'_append_of_not_mem b t _ hb]

/-- `seg0 sep1 seg1 sep2 seg2 …` where every separator is `a` or `b`. -/
def joinSegs (a b : α) (first : List α) (rest : List (Bool × List α)) : List α :=
  first ++ rest.flatMap (fun p => (if p.1 then a else b) :: p.2)

/-- Splitting on `a` then `b` recovers exactly the segments (empty ones included), whatever mix of
    the two separators was used. -/
theorem pieces_joinSegs (a b : α) (first : List α) (rest : List (Bool × List α))
    (h0 : a ∉ first ∧ b ∉ first) (hr : ∀ p ∈ rest, a ∉ p.2 ∧ b ∉ p.2) :
    pieces a b (joinSegs a b first rest) = first :: rest.map (·.2) := by
  induction rest generalizing first with
  | nil =>
    have := pieces_append_of_not_mem a b first [] h0.1 h0.2
    simpa [joinSegs, piecesHd, piecesTl, splitOn'_nil] using this
  | cons p more ih =>
    have hp := hr p (by simp)
    have hmore : ∀ q ∈ more, a ∉ q.2 ∧ b ∉ q.2 := fun q hq => hr q (by simp [hq])
    have ih' := ih p.2 hp hmore
    have hw : joinSegs a b first (p :: more) = first ++ ((if p.1 then a else b) :: joinSegs a b p.2 more) := by
      simp [joinSegs]
    rw [hw, pieces_append_of_not_mem a b first _ h0.1 h0.2]
    have hsep : pieces a b ((if p.1 then a else b) :: joinSegs a b p.2 more) = [] :: pieces a b (joinSegs a b p.2 more) :=
      pieces_cons_sep a b _ _ (by cases p.1 <;> simp)
    rw [pieces_eq] at hsep
    simp only [List.cons.injEq] at hsep
    rw [hsep.1, hsep.2, ih']
    simp

end Split

/-! ### the `%`-split-and-join skeleton of both unquote functions -/

/-- `bits = s.split(b'%'); bits[0] + b''.join(fix(item) for item in bits[1:])` -/
def pctJoin (fix : Bytes → Bytes) (bs : Bytes) : Bytes :=
  (splitOn' 0x25 bs).1 ++ (splitOn' 0x25 bs).2.flatMap fix

theorem unquotePlusBytes_eq (bs : Bytes) :
    unquotePlusBytes bs = pctJoin fixAtom (bs.map fun b => if b = 0x2B then 0x20 else b) := by
  unfold unquotePlusBytes pctJoin
  rfl

theorem unquoteImpl_eq (bs : Bytes) : unquoteImpl bs = pctJoin fixItemT bs := by
  unfold unquoteImpl pctJoin
  rfl

theorem pctJoin_nil (fix : Bytes → Bytes) : pctJoin fix [] = [] := by
  simp [pctJoin, splitOn'_nil]

theorem pctJoin_cons_ne (fix : Bytes → Bytes) (b : UInt8) (s : Bytes) (h : b ≠ 0x25) :
    pctJoin fix (b :: s) = b :: pctJoin fix s := by
  simp [pctJoin, splitOn'_cons, h]

/-- A `%` followed by two non-`%` bytes that `fix` turns into one byte. -/
theorem pctJoin_escape (fix : Bytes → Bytes) (h1 h2 b : UInt8) (s : Bytes)
    (n1 : h1 ≠ 0x25) (n2 : h2 ≠ 0x25) (hfix : ∀ r, fix (h1 :: h2 :: r) = b :: r) :
    pctJoin fix (0x25 :: h1 :: h2 :: s) = b :: pctJoin fix s := by
  simp [pctJoin, splitOn'_cons, n1, n2, hfix]

/-! ### hex digits -/

/-- The ASCII hex digit for `n < 16`, upper or lower case. -/
def hexDigitB (upper : Bool) (n : Nat) : UInt8 :=
  if n < 10 then UInt8.ofNat (0x30 + n)
  else if upper then UInt8.ofNat (0x41 + (n - 10)) else UInt8.ofNat (0x61 + (n - 10))

theorem hexVal_hexDigitB_fin : ∀ (u : Bool) (n : Fin 16), hexVal? (hexDigitB u n.val) = some n.val := by
  decide

theorem hexVal_hexDigitB (u : Bool) (n : Nat) (h : n < 16) : hexVal? (hexDigitB u n) = some n :=
  hexVal_hexDigitB_fin u ⟨n, h⟩

theorem hexDigitB_safe_fin : ∀ (u : Bool) (n : Fin 16),
    hexDigitB u n.val ≠ 0x25 ∧ hexDigitB u n.val ≠ 0x2B ∧ hexDigitB u n.val ≠ 0x26 ∧
    hexDigitB u n.val ≠ 0x3B ∧ hexDigitB u n.val ≠ 0x3D ∧ hexDigitB u n.val < 0x80 := by
  decide

theorem hexDigitB_safe (u : Bool) (n : Nat) (h : n < 16) :
    hexDigitB u n ≠ 0x25 ∧ hexDigitB u n ≠ 0x2B ∧ hexDigitB u n ≠ 0x26 ∧
    hexDigitB u n ≠ 0x3B ∧ hexDigitB u n ≠ 0x3D ∧ hexDigitB u n < 0x80 :=
  hexDigitB_safe_fin u ⟨n, h⟩

theorem byte_of_nibbles (b : UInt8) : UInt8.ofNat (b.toNat / 16 * 16 + b.toNat % 16) = b := by
  rw [Nat.div_add_mod']
  exact UInt8.ofNat_toNat

theorem nibble_lt (b : UInt8) : b.toNat / 16 < 16 ∧ b.toNat % 16 < 16 := by
  have := b.toNat_lt
  omega

/-- Both decoders read `XY` (any case per digit) back as the byte. -/
theorem fixAtom_hex (b : UInt8) (u1 u2 : Bool) (r : Bytes) :
    fixAtom (hexDigitB u1 (b.toNat / 16) :: hexDigitB u2 (b.toNat % 16) :: r) = b :: r := by
  have h := nibble_lt b
  simp [fixAtom, pctByte?, hexVal_hexDigitB _ _ h.1, hexVal_hexDigitB _ _ h.2]
  simpa using byte_of_nibbles b

theorem fixItemT_hex (b : UInt8) (u1 u2 : Bool) (r : Bytes) :
    fixItemT (hexDigitB u1 (b.toNat / 16) :: hexDigitB u2 (b.toNat % 16) :: r) = b :: r := by
  have h := nibble_lt b
  simp [fixItemT, hexVal_hexDigitB _ _ h.1, hexVal_hexDigitB _ _ h.2]
  simpa using byte_of_nibbles b

/-! ### charset codecs with a round-trip law -/

/-- A charset as far as the round trip needs it: what the client does (`enc`), what
    `bytes.decode(cs)` does (`dec`), which characters the charset can represent (`ok`). -/
structure Codec where
  enc : Text → Bytes
  dec : Bytes → Option Text
  ok : Char → Prop
  rt : ∀ s, (∀ c ∈ s, ok c) → dec (enc s) = some s

theorem utf8_rt (s : Text) : utf8Dec (utf8Enc s) = some s := by
  unfold utf8Dec utf8Enc
  have h : (s.flatMap String.utf8EncodeChar).toByteArray = s.utf8Encode := rfl
  rw [h, List.utf8Decode?_utf8Encode]
  simp

/-- UTF-8: core Lean's verified codec; every text is representable. -/
def utf8Codec : Codec where
  enc := utf8Enc
  dec := decode .utf8
  ok := fun _ => True
  rt := fun s _ => utf8_rt s

theorem latin1_rt (s : Text) (h : ∀ c ∈ s, c.toNat < 256) : latin1Dec (latin1Enc s) = s := by
  induction s with
  | nil => rfl
  | cons c s ih =>
    have hc := h c (by simp)
    have hs : ∀ c ∈ s, c.toNat < 256 := fun c hc => h c (by simp [hc])
    simp only [latin1Enc, latin1Dec, List.map_cons, List.map_map] at ih ⊢
    rw [ih hs]
    congr 1
    simp [Nat.mod_eq_of_lt hc]

/-- Latin-1 on code points ≤ 255. -/
def latin1Codec : Codec where
  enc := latin1Enc
  dec := decode .latin1
  ok := fun c => c.toNat < 256
  rt := fun s h => by simp [decode, latin1_rt s h]

end CpProofs.C03
