import CpModel.RedirQ
/-!
  C01 — the `InternalRedirector` loop terminates, for every redirect function.

  `redirector key app fuel n redirections u` is the `while True` loop of `InternalRedirector.__call__`
  (`CpModel/RedirQ.lean`), generic in the URL type, in the key kept in `redirections`
  (`sn + path (+ '?' + qs)` in the code) and in `app`, the next application: what it does with the `n`-th
  request of the conversation (answer, fail, `InternalRedirect` to a target).

  * `redirector_terminates` — if every redirect target's key lies in a list `T` (no other assumption on the
    application: it may depend on the request number, i.e. on the whole history), then with
    `fuel ≥ T.length + 2` the loop ends by itself and has made at most `T.length + 1` requests: the number of
    distinct (path, query string) targets + 1 (take `T` duplicate-free).
  * `redirector_fuel_irrelevant` — any two such amounts of fuel give the same result: the model's bound
    is not part of its behaviour.
  * `redirector_keys_nodup` — no key is requested twice (the original URL included).
  * `redirector_loop_revisits` — a reported loop names a key that really was requested before.
-/
namespace CpProofs.C01Redirect
open CpModel.RedirQ

section
variable {υ κ α : Type} [DecidableEq κ]

def isOOF : Res κ α → Bool
  | .outOfFuel => true
  | _ => false

/-- keys of `T` that are not in `redirections` yet -/
def unvisited (T vis : List κ) : Nat := (T.filter (fun k => decide (k ∉ vis))).length

theorem unvisited_le_length (T vis : List κ) : unvisited T vis ≤ T.length := by
  unfold unvisited; exact List.length_filter_le _ _

theorem unvisited_mono (T vis : List κ) (x : κ) : unvisited T (vis ++ [x]) ≤ unvisited T vis := by
  unfold unvisited
  induction T with
  | nil => simp
  | cons a T ih =>
    simp only [List.filter_cons]
    by_cases h1 : a ∈ vis
    · have h2 : a ∈ vis ++ [x] := List.mem_append_left _ h1
      simp [h1, h2]; simpa using ih
    · by_cases h2 : a ∈ vis ++ [x]
      · simp [h1, h2]; have := ih; simp at this; omega
      · simp [h1, h2]; simpa using ih

theorem unvisited_lt (T vis : List κ) (x : κ) (hx : x ∈ T) (hv : x ∉ vis) :
    unvisited T (vis ++ [x]) < unvisited T vis := by
  induction T with
  | nil => cases hx
  | cons a T ih =>
    have hm := unvisited_mono T vis x
    unfold unvisited at *
    simp only [List.filter_cons]
    by_cases hax : a = x
    · subst hax
      have h2 : a ∈ vis ++ [a] := by simp
      simp [hv, h2]; simp at hm; omega
    · have hx' : x ∈ T := by
        cases hx with
        | head => exact absurd rfl hax
        | tail _ h => exact h
      have ih' := ih hx'
      by_cases h1 : a ∈ vis
      · have h2 : a ∈ vis ++ [x] := List.mem_append_left _ h1
        simp [h1, h2]; simpa using ih'
      · have h2 : a ∉ vis ++ [x] := by
          simp only [List.mem_append, List.mem_singleton, not_or]; exact ⟨h1, hax⟩
        simp [h1, h2]; simp at ih'; omega

/-- a target that passed the check: its key is one of `T` and not yet in `redirections` -/
theorem redirector_good (key : υ → κ) (app : Nat → υ → Step υ α) (T : List κ)
    (hT : ∀ n u t, app n u = .redirect t → key t ∈ T) :
    ∀ fuel n vis u, key u ∈ T → key u ∉ vis → unvisited T vis + 1 ≤ fuel →
      isOOF (redirector key app fuel n vis u).1 = false ∧
      (redirector key app fuel n vis u).2.length ≤ unvisited T vis := by
  intro fuel
  induction fuel with
  | zero => intro n vis u _ _ h; omega
  | succ f ih =>
    intro n vis u hu hv hf
    have hlt := unvisited_lt T vis (key u) hu hv
    unfold redirector
    cases happ : app n u with
    | served a => simp [isOOF]; omega
    | failed a => simp [isOOF]; omega
    | redirect t =>
      simp only
      by_cases hin : key t ∈ vis ++ [key u]
      · simp [hin, isOOF]; omega
      · simp only [hin, if_false]
        have := ih (n + 1) (vis ++ [key u]) t (hT n u t happ) hin (by omega)
        refine ⟨this.1, ?_⟩
        simp only [List.length_cons]; omega

/-- **The loop terminates, for every redirect function**: with all target keys in `T`, `T.length + 2` units of
    fuel are never used up, and at most `T.length + 1` requests are made. -/
theorem redirector_terminates (key : υ → κ) (app : Nat → υ → Step υ α) (T : List κ)
    (hT : ∀ n u t, app n u = .redirect t → key t ∈ T) (u : υ) (fuel : Nat) (hf : T.length + 2 ≤ fuel) :
    isOOF (redirector key app fuel 0 [] u).1 = false ∧
    (redirector key app fuel 0 [] u).2.length ≤ T.length + 1 := by
  match fuel, hf with
  | f + 1, hf =>
    unfold redirector
    cases happ : app 0 u with
    | served a => simp [isOOF]
    | failed a => simp [isOOF]
    | redirect t =>
      simp only
      by_cases hin : key t ∈ [] ++ [key u]
      · simp only [hin, if_true]; simp [isOOF]
      · simp only [hin, if_false]
        have hle := unvisited_le_length T ([] ++ [key u])
        have := redirector_good key app T hT f (0 + 1) ([] ++ [key u]) t (hT 0 u t happ) hin (by omega)
        refine ⟨this.1, ?_⟩
        simp only [List.length_cons]; omega

/-- one more unit of fuel changes nothing once the loop ended by itself -/
theorem redirector_mono (key : υ → κ) (app : Nat → υ → Step υ α) :
    ∀ fuel n vis u, isOOF (redirector key app fuel n vis u).1 = false →
      redirector key app (fuel + 1) n vis u = redirector key app fuel n vis u := by
  intro fuel
  induction fuel with
  | zero => intro n vis u h; simp [redirector, isOOF] at h
  | succ f ih =>
    intro n vis u h
    rw [redirector.eq_def key app (f + 1 + 1)]
    rw [redirector.eq_def key app (f + 1)] at h ⊢
    simp only at h ⊢
    cases happ : app n u with
    | served a => rfl
    | failed a => rfl
    | redirect t =>
      simp only [happ] at h ⊢
      by_cases hin : key t ∈ vis ++ [key u]
      · simp [hin]
      · simp only [hin, if_false] at h ⊢
        rw [ih (n + 1) (vis ++ [key u]) t h]

theorem redirector_mono_le (key : υ → κ) (app : Nat → υ → Step υ α) (f n : Nat) (vis : List κ) (u : υ)
    (h : isOOF (redirector key app f n vis u).1 = false) :
    ∀ d, redirector key app (f + d) n vis u = redirector key app f n vis u := by
  intro d
  induction d with
  | zero => rfl
  | succ d ih =>
    have : isOOF (redirector key app (f + d) n vis u).1 = false := by rw [ih]; exact h
    have := redirector_mono key app (f + d) n vis u this
    rw [← ih, ← this]; rfl

/-- the model's fuel is not part of its behaviour -/
theorem redirector_fuel_irrelevant (key : υ → κ) (app : Nat → υ → Step υ α) (T : List κ)
    (hT : ∀ n u t, app n u = .redirect t → key t ∈ T) (u : υ) (f1 f2 : Nat)
    (h1 : T.length + 2 ≤ f1) (h2 : T.length + 2 ≤ f2) :
    redirector key app f1 0 [] u = redirector key app f2 0 [] u := by
  have hb := (redirector_terminates key app T hT u (T.length + 2) (Nat.le_refl _)).1
  have e1 := redirector_mono_le key app (T.length + 2) 0 [] u hb (f1 - (T.length + 2))
  have e2 := redirector_mono_le key app (T.length + 2) 0 [] u hb (f2 - (T.length + 2))
  have : T.length + 2 + (f1 - (T.length + 2)) = f1 := by omega
  rw [this] at e1
  have : T.length + 2 + (f2 - (T.length + 2)) = f2 := by omega
  rw [this] at e2
  rw [e1, e2]

/-- no key is requested twice, and none that already was in `redirections` -/
theorem redirector_keys (key : υ → κ) (app : Nat → υ → Step υ α) :
    ∀ fuel n vis u, key u ∉ vis →
      ((redirector key app fuel n vis u).2.map key).Nodup ∧
      ∀ k ∈ (redirector key app fuel n vis u).2.map key, k ∉ vis := by
  intro fuel
  induction fuel with
  | zero => intro n vis u _; simp [redirector]
  | succ f ih =>
    intro n vis u hu
    unfold redirector
    cases happ : app n u with
    | served a => simp [hu]
    | failed a => simp [hu]
    | redirect t =>
      simp only
      by_cases hin : key t ∈ vis ++ [key u]
      · simp [hin, hu]
      · simp only [hin, if_false]
        have ⟨hnd, hnot⟩ := ih (n + 1) (vis ++ [key u]) t hin
        constructor
        · simp only [List.map_cons, List.nodup_cons]
          refine ⟨?_, hnd⟩
          intro hmem
          have := hnot _ hmem
          simp at this
        · intro k hk
          simp only [List.map_cons, List.mem_cons] at hk
          cases hk with
          | inl h => subst h; exact hu
          | inr h =>
            have := hnot k h
            simp only [List.mem_append, List.mem_singleton, not_or] at this
            exact this.1

theorem redirector_keys_nodup (key : υ → κ) (app : Nat → υ → Step υ α) (fuel : Nat) (u : υ) :
    ((redirector key app fuel 0 [] u).2.map key).Nodup :=
  (redirector_keys key app fuel 0 [] u (by simp)).1

/-- a reported loop names a key that is in `redirections`, i.e. (with `redirections` = the keys requested
    so far) one that really was requested before -/
theorem redirector_loop_revisits (key : υ → κ) (app : Nat → υ → Step υ α) :
    ∀ fuel n vis u k, (redirector key app fuel n vis u).1 = .loop k →
      k ∈ vis ++ (redirector key app fuel n vis u).2.map key := by
  intro fuel
  induction fuel with
  | zero => intro n vis u k h; simp [redirector] at h
  | succ f ih =>
    intro n vis u k h
    rw [redirector.eq_def key app (f + 1)] at h ⊢
    simp only at h ⊢
    cases happ : app n u with
    | served a => simp [happ] at h
    | failed a => simp [happ] at h
    | redirect t =>
      simp only [happ] at h ⊢
      by_cases hin : key t ∈ vis ++ [key u]
      · simp only [hin, if_true] at h ⊢
        injection h with hk
        subst hk
        simpa using hin
      · simp only [hin, if_false] at h ⊢
        have := ih (n + 1) (vis ++ [key u]) t k h
        rw [List.map_cons]
        rw [List.mem_append] at this ⊢
        rcases this with h1 | h1
        · rw [List.mem_append] at h1
          rcases h1 with h1 | h1
          · exact Or.inl h1
          · exact Or.inr (List.mem_cons.2 (Or.inl (List.mem_singleton.1 h1)))
        · exact Or.inr (List.mem_cons_of_mem _ h1)

end

/-- the instance the code runs: URLs are (path, query string), the key is `sn + path (+ '?' + qs)` for
    recording *and* for the check: at most `T.length + 1` requests, for every redirect function whose targets'
    keys lie in `T` -/
theorem internalRedirector_terminates {α : Type} (sn : String) (app : Nat → Url → Step Url α) (T : List String)
    (hT : ∀ n u t, app n u = .redirect t → uriKey sn t ∈ T) (u : Url) (fuel : Nat) (hf : T.length + 2 ≤ fuel) :
    isOOF (redirector (uriKey sn) app fuel 0 [] u).1 = false ∧
    (redirector (uriKey sn) app fuel 0 [] u).2.length ≤ T.length + 1 ∧
    ((redirector (uriKey sn) app fuel 0 [] u).2.map (uriKey sn)).Nodup :=
  ⟨(redirector_terminates _ app T hT u fuel hf).1, (redirector_terminates _ app T hT u fuel hf).2,
   redirector_keys_nodup _ app fuel u⟩

/-! ### non-vacuity: small sites over `(page, query)` pairs with the pair itself as key -/

/-- `/0 → /0?1 → /0?1 …`: the repeated target carries a query string (the shape of the loop a key format that
    forgets the query string on one side can never detect) -/
def loginLoop : Nat → Nat × Nat → Step (Nat × Nat) Unit := fun _ _ => .redirect (0, 1)

example : redirector id loginLoop 4 0 [] (0, 0) = (.loop (0, 1), [(0, 0), (0, 1)]) := by decide

example : ∀ n u t, loginLoop n u = .redirect t → id t ∈ [(0, 1)] := by
  intro n u t h; simp [loginLoop] at h; simp [← h]

/-- a chain with a changing query string that ends: `/0 → /0?1 → /0?2 → /0?3` answers -/
def hops : Nat → Nat × Nat → Step (Nat × Nat) Unit := fun _ u => if u.2 < 3 then .redirect (0, u.2 + 1) else .served ()

example : redirector id hops 6 0 [] (0, 0) = (.served (), [(0, 0), (0, 1), (0, 2), (0, 3)]) := by decide

/-- a history-dependent application: redirects to itself with the same query twice, then answers — the loop
    detection fires although the application would have terminated -/
def twice : Nat → Nat × Nat → Step (Nat × Nat) Unit := fun n _ => if n < 2 then .redirect (0, 7) else .served ()

example : redirector id twice 6 0 [] (0, 7) = (.loop (0, 7), [(0, 7)]) := by decide

end CpProofs.C01Redirect
