import CpModel.AuthPrims
/-!
  C19 helper: the concrete base64 decoder of the driver (`CpModel.AuthPrims.b64decode`, a transcription of the
  non-strict loop of `binascii.a2b_base64`) inverts the RFC 4648 encoder on every byte string.
-/
namespace CpProofs.C19
open CpModel.Auth CpModel.AuthPrims

theorem b64Val_char : ∀ v : Fin 64, b64Val? (b64Char v.val) = some v.val := by decide
theorem b64Char_ne_pad : ∀ v : Fin 64, (b64Char v.val = '=') = False := by decide
theorem b64Char_ascii : ∀ v : Fin 64, (b64Char v.val).toNat < 128 := by decide

theorem b64Go_data (v : Nat) (hv : v < 64) (cs : Str) (st : B64St) :
    b64Go (b64Char v :: cs) st =
      match st.quadPos with
      | 0 => b64Go cs { st with quadPos := 1, leftchar := v, pads := 0 }
      | 1 => b64Go cs { quadPos := 2, leftchar := v % 16, pads := 0,
                        out := UInt8.ofNat ((st.leftchar * 4 + v / 16) % 256) :: st.out }
      | 2 => b64Go cs { quadPos := 3, leftchar := v % 4, pads := 0,
                        out := UInt8.ofNat ((st.leftchar * 16 + v / 4) % 256) :: st.out }
      | _ => b64Go cs { quadPos := 0, leftchar := 0, pads := 0,
                        out := UInt8.ofNat ((st.leftchar * 64 + v) % 256) :: st.out } := by
  have h1 := b64Val_char ⟨v, hv⟩
  have h2 := b64Char_ne_pad ⟨v, hv⟩
  simp only at h1 h2
  rw [b64Go]
  simp only [h2, if_false, h1]
  rfl

theorem ofNat_byte (a : UInt8) (n : Nat) (h : n = a.toNat) : UInt8.ofNat (n % 256) = a := by
  subst h
  have : a.toNat % 256 = a.toNat := Nat.mod_eq_of_lt a.toNat_lt
  rw [this]
  exact UInt8.ofNat_toNat

/-- decoding what the encoder produced gives the bytes back (from any group boundary) -/
theorem b64Go_encode : ∀ (bs : Bytes) (out : Bytes),
    b64Go (b64encode bs) { quadPos := 0, leftchar := 0, pads := 0, out := out } = some (out.reverse ++ bs)
  | [], out => by simp [b64encode, b64Go]
  | [a], out => by
    have ha := a.toNat_lt
    rw [b64encode]
    rw [b64Go_data _ (by omega)]
    simp only
    rw [b64Go_data _ (by omega)]
    simp only
    rw [b64Go, b64Go]
    simp only [if_true, ge_iff_le, Nat.le_refl, true_and, Nat.reduceAdd, Nat.reduceLeDiff, if_false,
      Nat.zero_add, and_self, List.reverse_cons]
    rw [ofNat_byte a _ (by omega)]
  | [a, b], out => by
    have ha := a.toNat_lt
    have hb := b.toNat_lt
    rw [b64encode]
    rw [b64Go_data _ (by omega)]
    simp only
    rw [b64Go_data _ (by omega)]
    simp only
    rw [b64Go_data _ (by omega)]
    simp only
    rw [b64Go]
    simp only [if_true, ge_iff_le, Nat.reduceLeDiff, Nat.zero_add, Nat.reduceAdd, Nat.le_refl, and_self,
      List.reverse_cons, List.append_assoc, List.cons_append, List.nil_append]
    rw [ofNat_byte a _ (by omega), ofNat_byte b _ (by omega)]
  | a :: b :: c :: rest, out => by
    have ha := a.toNat_lt
    have hb := b.toNat_lt
    have hc := c.toNat_lt
    rw [b64encode]
    rw [b64Go_data _ (by omega)]
    simp only
    rw [b64Go_data _ (by omega)]
    simp only
    rw [b64Go_data _ (by omega)]
    simp only
    rw [b64Go_data _ (by omega)]
    simp only
    have e1 : UInt8.ofNat ((a.toNat / 4 * 4 + (a.toNat % 4 * 16 + b.toNat / 16) / 16) % 256) = a :=
      ofNat_byte a _ (by omega)
    have e2 : UInt8.ofNat (((a.toNat % 4 * 16 + b.toNat / 16) % 16 * 16 + (b.toNat % 16 * 4 + c.toNat / 64) / 4) % 256)
        = b := ofNat_byte b _ (by omega)
    have e3 : UInt8.ofNat (((b.toNat % 16 * 4 + c.toNat / 64) % 4 * 64 + c.toNat % 64) % 256) = c :=
      ofNat_byte c _ (by omega)
    rw [e1, e2, e3]
    rw [b64Go_encode rest]
    simp

theorem b64encode_ascii : ∀ (bs : Bytes), (b64encode bs).all (fun c => decide (c.toNat < 128)) = true
  | [] => by simp [b64encode]
  | [a] => by
    have ha := a.toNat_lt
    have h1 := b64Char_ascii ⟨a.toNat / 4, by omega⟩
    have h2 := b64Char_ascii ⟨a.toNat % 4 * 16, by omega⟩
    simp only at h1 h2
    simp [b64encode, h1, h2]
  | [a, b] => by
    have ha := a.toNat_lt
    have hb := b.toNat_lt
    have h1 := b64Char_ascii ⟨a.toNat / 4, by omega⟩
    have h2 := b64Char_ascii ⟨a.toNat % 4 * 16 + b.toNat / 16, by omega⟩
    have h3 := b64Char_ascii ⟨b.toNat % 16 * 4, by omega⟩
    simp only at h1 h2 h3
    simp [b64encode, h1, h2, h3]
  | a :: b :: c :: rest => by
    have ha := a.toNat_lt
    have hb := b.toNat_lt
    have hc := c.toNat_lt
    have h1 := b64Char_ascii ⟨a.toNat / 4, by omega⟩
    have h2 := b64Char_ascii ⟨a.toNat % 4 * 16 + b.toNat / 16, by omega⟩
    have h3 := b64Char_ascii ⟨b.toNat % 16 * 4 + c.toNat / 64, by omega⟩
    have h4 := b64Char_ascii ⟨c.toNat % 64, by omega⟩
    simp only at h1 h2 h3 h4
    simp [b64encode, h1, h2, h3, h4, b64encode_ascii rest]

/-- **base64 contract**: `b64decode(b64encode(b)) = b` for every byte string -/
theorem b64decode_encode (bs : Bytes) : b64decode (b64encode bs) = some bs := by
  unfold b64decode
  rw [if_pos (b64encode_ascii bs)]
  have := b64Go_encode bs []
  simpa using this

end CpProofs.C19
