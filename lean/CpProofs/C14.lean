import CpModel.SessionStore
/-!
  C14 — session ids are never adopted from clients; data persists until expiry.
-/
namespace CpProofs.C14
open CpModel.SessionStore

theorem lookup_erase_self (s : Store) (i : Id) : lookup (erase s i) i = none := by
  induction s with
  | nil => rfl
  | cons p ps ih =>
    obtain ⟨j, r⟩ := p
    simp only [erase]
    split
    · exact ih
    · simp only [lookup]; split
      · contradiction
      · exact ih

end CpProofs.C14
