import CpModel.SessionStore
import CpProofs.C14Lemmas
import CpModel.Gen.C14Tables
/-!
  C14 — session ids are never adopted from clients; data persists until expiry.

  All theorems are about `CpModel.SessionStore` (the transcription of `cherrypy.lib.sessions` behind
  the sessions tool) and quantify over *every* state of the store — hence over every history that can
  lead to it — every configuration (backend, timeout, id source), every cookie and every handler
  script; the history-level statements are inductions over the operation list.
-/
namespace CpProofs.C14
open CpModel.SessionStore

/-! ### generic machinery: one request -/

theorem newId_spec {cfg : Cfg} {st st' : St} {i : Id} (h : newId cfg st = some (i, st')) :
    has st.store i = false ∧ st'.store = st.store ∧ st'.now = st.now ∧
      ∃ n, st.ctr ≤ n ∧ st'.ctr = n + 1 ∧ i = cfg.gen n := by
  unfold newId at h
  split at h
  · cases h
  · rename_i j c hr
    cases h
    obtain ⟨h1, n, hn, hc, hi⟩ := regenLoop_spec hr
    exact ⟨h1, rfl, rfl, n, hn, hc, hi⟩

theorem ensureLoaded_spec {st : St} {s s' : Sess} (h : ensureLoaded st s = some s') :
    s'.id = s.id ∧ s'.loaded = true ∧ s'.reads = s.reads ∧ s'.cookieExpired = s.cookieExpired ∧
      (s.loaded = true → s' = s) ∧ (s.loaded = false → loadData st s.id = some s'.data) := by
  unfold ensureLoaded at h
  split at h
  · rename_i hl
    cases h
    exact ⟨rfl, hl, rfl, rfl, fun _ => rfl, fun h => by rw [hl] at h; cases h⟩
  · rename_i hl
    split at h
    · cases h
    · rename_i d hd
      cases h
      exact ⟨rfl, rfl, rfl, rfl, fun h => absurd h hl, fun _ => hd⟩

/-- Induction principle over the statements of a handler: an invariant of `(store state, session
    object)` kept by every statement holds when the handler ends (normally or by an exception). -/
theorem runHops_induct {cfg : Cfg} (P : St → Sess → Prop) (hs : List HOp)
    (hstep : ∀ st s h, h ∈ hs → P st s → P (hop cfg st s h).st (hop cfg st s h).sess)
    (st : St) (s : Sess) (h0 : P st s) :
    P (runHops cfg st s hs).st (runHops cfg st s hs).sess := by
  induction hs generalizing st s with
  | nil => exact h0
  | cons h hs ih =>
    simp only [runHops]
    have h1 := hstep st s h List.mem_cons_self h0
    split
    · rename_i st' s' heq
      rw [heq] at h1
      exact ih (fun st s h' hm hp => hstep st s h' (List.mem_cons_of_mem _ hm) hp) st' s' h1
    · rename_i e st' s' heq
      rw [heq] at h1
      exact h1

/-! ### C14_no_fixation -/

/-- Where the id of the session object comes from: the presented cookie, and then the store held it
    before the request; or the id source, drawn during this request. -/
def Origin (cfg : Cfg) (st0 : St) (ck : Cookie) (st : St) (s : Sess) : Prop :=
  st0.ctr ≤ st.ctr ∧
  ((Cookie.presented ck = some s.id ∧ has st0.store s.id = true) ∨
   (∃ n, st0.ctr ≤ n ∧ n < st.ctr ∧ s.id = cfg.gen n))

theorem initSess_spec {cfg : Cfg} {st st' : St} {ck : Cookie} {s : Sess}
    (h : initSess cfg st ck = .ok (s, st')) :
    st'.store = st.store ∧ st'.now = st.now ∧ s.data = [] ∧ s.loaded = false ∧ s.reads = [] ∧
      s.cookieExpired = false ∧ st.ctr ≤ st'.ctr ∧
      ((Cookie.presented ck = some s.id ∧ has st.store s.id = true ∧ st' = st) ∨
       (has st.store s.id = false ∧ ∃ n, st.ctr ≤ n ∧ n < st'.ctr ∧ s.id = cfg.gen n)) := by
  have fresh : ∀ {i st'}, newId cfg st = some (i, st') →
      st'.store = st.store ∧ st'.now = st.now ∧ st.ctr ≤ st'.ctr ∧
        (has st.store i = false ∧ ∃ n, st.ctr ≤ n ∧ n < st'.ctr ∧ i = cfg.gen n) := by
    intro i st' hn
    obtain ⟨h1, h2, h3, n, hn1, hn2, hn3⟩ := newId_spec hn
    exact ⟨h2, h3, by omega, h1, n, hn1, by omega, hn3⟩
  cases ck with
  | none =>
    simp only [initSess] at h
    split at h
    · cases h
    · rename_i i st1 hn
      cases h
      obtain ⟨a, b, c, d⟩ := fresh hn
      exact ⟨a, b, rfl, rfl, rfl, rfl, c, Or.inr d⟩
  | id c =>
    simp only [initSess] at h
    split at h
    · rename_i hh
      cases h
      exact ⟨rfl, rfl, rfl, rfl, rfl, rfl, Nat.le_refl _, Or.inl ⟨rfl, hh, rfl⟩⟩
    · split at h
      · cases h
      · rename_i i st1 hn
        cases h
        obtain ⟨a, b, c, d⟩ := fresh hn
        exact ⟨a, b, rfl, rfl, rfl, rfl, c, Or.inr d⟩
  | escaping c =>
    simp only [initSess] at h
    split at h
    · cases h
    · split at h
      · rename_i hh
        cases h
        exact ⟨rfl, rfl, rfl, rfl, rfl, rfl, Nat.le_refl _, Or.inl ⟨rfl, hh, rfl⟩⟩
      · split at h
        · cases h
        · rename_i i st1 hn
          cases h
          obtain ⟨a, b, c, d⟩ := fresh hn
          exact ⟨a, b, rfl, rfl, rfl, rfl, c, Or.inr d⟩

theorem hop_origin {cfg : Cfg} {st0 : St} {ck : Cookie} (st : St) (s : Sess) (h : HOp)
    (hp : Origin cfg st0 ck st s) :
    Origin cfg st0 ck (hop cfg st s h).st (hop cfg st s h).sess := by
  obtain ⟨hc, ho⟩ := hp
  have keep : ∀ s' : Sess, s'.id = s.id → Origin cfg st0 ck st s' := by
    intro s' hid
    refine ⟨hc, ?_⟩
    rw [hid]
    rcases ho with h | ⟨n, a, b, c⟩
    · exact Or.inl h
    · exact Or.inr ⟨n, a, b, c⟩
  cases h with
  | read =>
    simp only [hop]
    split
    · exact keep s rfl
    · rename_i s' hs'
      exact keep _ (ensureLoaded_spec hs').1
  | write k v =>
    simp only [hop]
    split
    · exact keep s rfl
    · rename_i s' hs'
      exact keep _ (ensureLoaded_spec hs').1
  | delKey k =>
    simp only [hop]
    split
    · exact keep s rfl
    · rename_i s' hs'
      exact keep _ (ensureLoaded_spec hs').1
  | clear =>
    simp only [hop]
    split
    · exact keep s rfl
    · rename_i s' hs'
      exact keep _ (ensureLoaded_spec hs').1
  | regenerate =>
    simp only [hop]
    split
    · refine ⟨hc, ?_⟩
      rcases ho with h | ⟨n, a, b, c⟩
      · exact Or.inl h
      · exact Or.inr ⟨n, a, b, c⟩
    · rename_i i st2 hn
      obtain ⟨_, _, _, n, hn1, hn2, hn3⟩ := newId_spec hn
      simp only [HRes.st, HRes.sess]
      simp only at hn1
      exact ⟨by omega, Or.inr ⟨n, by omega, by omega, hn3⟩⟩
  | delete =>
    simp only [hop]
    split
    · refine ⟨hc, ?_⟩
      rcases ho with h | ⟨n, a, b, c⟩
      · exact Or.inl h
      · exact Or.inr ⟨n, a, b, c⟩
    · refine ⟨hc, ?_⟩
      rcases ho with h | ⟨n, a, b, c⟩
      · exact Or.inl h
      · exact Or.inr ⟨n, a, b, c⟩
  | expire => exact keep _ rfl
  | acc a =>
    simp only [hop]
    split
    · exact keep s rfl
    · rename_i s' hs'
      exact keep _ (ensureLoaded_spec hs').1
  | len => exact keep _ rfl
  | raise => exact keep s rfl

/-- **No fixation.**  Whatever the store, the cookie and the handler: the id in the response cookie is
    the presented one only if the store held it before the request; otherwise it was drawn from the id
    source during this request. -/
theorem C14_no_fixation (cfg : Cfg) (st : St) (ck : Cookie) (hops : List HOp) (i : Id)
    (h : (request cfg st ck hops).2.cookie = some i) :
    (Cookie.presented ck = some i ∧ has st.store i = true) ∨
    (∃ n, st.ctr ≤ n ∧ n < (request cfg st ck hops).1.ctr ∧ i = cfg.gen n) := by
  unfold request at h ⊢
  split at h
  · cases h
  · rename_i s0 st0 hi
    obtain ⟨hs, _, _, _, _, _, hc, ho⟩ := initSess_spec hi
    have h0 : Origin cfg st ck st0 s0 := by
      refine ⟨hc, ?_⟩
      rcases ho with ⟨a, b, _⟩ | ⟨_, n, a, b, c⟩
      · exact Or.inl ⟨a, b⟩
      · exact Or.inr ⟨n, a, b, c⟩
    have hfin := runHops_induct (cfg := cfg) (Origin cfg st ck) hops
      (fun st s h _ hp => hop_origin st s h hp) st0 s0 h0
    split at h
    · rename_i st1 s1 hr
      rw [hr] at hfin
      simp only [HRes.st, HRes.sess] at hfin
      simp only at h
      cases h
      have hsave : (saveSess cfg st1 s1).ctr = st1.ctr := by
        unfold saveSess; split <;> rfl
      rcases hfin.2 with h | ⟨n, a, b, c⟩
      · exact Or.inl h
      · exact Or.inr ⟨n, a, by simp only [hsave]; exact b, c⟩
    · rename_i e st1 s1 hr
      rw [hr] at hfin
      simp only [HRes.st, HRes.sess] at hfin
      simp only at h
      cases h
      rcases hfin.2 with h | ⟨n, a, b, c⟩
      · exact Or.inl h
      · exact Or.inr ⟨n, a, b, c⟩

/-- A presented id the store does not hold is never the response id, as long as the client cannot
    name a value the id source yields (a 160-bit `urandom` collision is excluded, explicitly). -/
theorem C14_unknown_id_replaced (cfg : Cfg) (st : St) (c : Id) (hops : List HOp)
    (hunk : has st.store c = false) (hguess : ∀ n, cfg.gen n ≠ c) :
    (request cfg st (.id c) hops).2.cookie ≠ some c := by
  intro h
  rcases C14_no_fixation cfg st (.id c) hops c h with ⟨_, h2⟩ | ⟨n, _, _, h3⟩
  · rw [hunk] at h2; cases h2
  · exact hguess n h3.symm

/-- The id issued instead of a refused (or absent) cookie differs from every live id. -/
theorem C14_fresh_not_live (cfg : Cfg) (st st' : St) (ck : Cookie) (s : Sess)
    (h : initSess cfg st ck = .ok (s, st'))
    (hnew : Cookie.presented ck ≠ some s.id) : has st.store s.id = false := by
  obtain ⟨_, _, _, _, _, _, _, ho⟩ := initSess_spec h
  rcases ho with ⟨a, _, _⟩ | ⟨a, _⟩
  · exact absurd a hnew
  · exact a

/-- ... and so does the id drawn by `regenerate()`: it is not in the store at that moment. -/
theorem C14_regenerate_fresh (cfg : Cfg) (st st' : St) (s s' : Sess)
    (h : hop cfg st s .regenerate = .ok st' s') :
    has st'.store s'.id = false ∧ lookup st'.store s.id = none := by
  simp only [hop] at h
  split at h
  · cases h
  · rename_i i st2 hn
    obtain ⟨h1, h2, _, _⟩ := newId_spec hn
    cases h
    simp only at h1 h2
    rw [h2]
    exact ⟨h1, lookup_erase_self _ _⟩

/-- For an injective id source (`os.urandom` never repeats) the regeneration loop always ends. -/
theorem regen_total (cfg : Cfg) (st : St) (hinj : ∀ a b, cfg.gen a = cfg.gen b → a = b) :
    (newId cfg st).isSome = true := by
  unfold newId
  have := regenLoop_isSome hinj (st.store.length + 1) st.store st.ctr (Nat.lt_succ_self _)
  split
  · rename_i hr; rw [hr] at this; cases this
  · rfl

example : (request { file := false, timeout := 2, gen := fun n => n + 1 } {} (.id 77) [.read]).2.cookie
    = some 1 := by decide


/-! ### effects of one handler statement -/

theorem hop_id (cfg : Cfg) (st : St) (s : Sess) (h : HOp) (hr : h ≠ .regenerate) :
    (hop cfg st s h).sess.id = s.id := by
  cases h with
  | regenerate => exact absurd rfl hr
  | read => simp only [hop]; split; · rfl
            · rename_i s' hs'; exact (ensureLoaded_spec hs').1
  | write k v => simp only [hop]; split; · rfl
                 · rename_i s' hs'; exact (ensureLoaded_spec hs').1
  | delKey k => simp only [hop]; split; · rfl
                · rename_i s' hs'; exact (ensureLoaded_spec hs').1
  | clear => simp only [hop]; split; · rfl
             · rename_i s' hs'; exact (ensureLoaded_spec hs').1
  | delete => simp only [hop]; split <;> rfl
  | expire => rfl
  | acc a => simp only [hop]; split; · rfl
             · rename_i s' hs'; exact (ensureLoaded_spec hs').1
  | len => rfl
  | raise => rfl

theorem hop_now (cfg : Cfg) (st : St) (s : Sess) (h : HOp) : (hop cfg st s h).st.now = st.now := by
  cases h with
  | regenerate =>
    simp only [hop]; split
    · rfl
    · rename_i i st2 hn; exact (newId_spec hn).2.2.1
  | read => simp only [hop]; split <;> rfl
  | write k v => simp only [hop]; split <;> rfl
  | delKey k => simp only [hop]; split <;> rfl
  | clear => simp only [hop]; split <;> rfl
  | delete => simp only [hop]; split <;> rfl
  | expire => rfl
  | acc a => simp only [hop]; split <;> rfl
  | len => rfl
  | raise => rfl

theorem hop_ctr (cfg : Cfg) (st : St) (s : Sess) (h : HOp) : st.ctr ≤ (hop cfg st s h).st.ctr := by
  cases h with
  | regenerate =>
    simp only [hop]; split
    · exact Nat.le_refl _
    · rename_i i st2 hn
      obtain ⟨_, _, _, n, a, b, _⟩ := newId_spec hn
      simp only [HRes.st]; simp only at a; omega
  | read => simp only [hop]; split <;> exact Nat.le_refl _
  | write k v => simp only [hop]; split <;> exact Nat.le_refl _
  | delKey k => simp only [hop]; split <;> exact Nat.le_refl _
  | clear => simp only [hop]; split <;> exact Nat.le_refl _
  | delete => simp only [hop]; split <;> exact Nat.le_refl _
  | expire => exact Nat.le_refl _
  | acc a => simp only [hop]; split <;> exact Nat.le_refl _
  | len => exact Nat.le_refl _
  | raise => exact Nat.le_refl _

/-- inside a request the store only shrinks (nothing is written before the `save` hook) -/
theorem hop_store_sub (cfg : Cfg) (st : St) (s : Sess) (h : HOp) (p : Id × Rec)
    (hm : p ∈ (hop cfg st s h).st.store) : p ∈ st.store := by
  cases h with
  | regenerate =>
    simp only [hop] at hm; split at hm
    · exact (mem_erase (s := st.store) (i := s.id) (j := p.1) (r := p.2) hm).1
    · rename_i i st2 hn
      have := (newId_spec hn).2.1
      simp only [HRes.st] at hm
      rw [this] at hm
      exact (mem_erase (s := st.store) (i := s.id) (j := p.1) (r := p.2) hm).1
  | read => simp only [hop] at hm; split at hm <;> exact hm
  | write k v => simp only [hop] at hm; split at hm <;> exact hm
  | delKey k => simp only [hop] at hm; split at hm <;> exact hm
  | clear => simp only [hop] at hm; split at hm <;> exact hm
  | delete =>
    simp only [hop] at hm; split at hm <;>
      exact (mem_erase (s := st.store) (i := s.id) (j := p.1) (r := p.2) hm).1
  | expire => exact hm
  | acc a => simp only [hop] at hm; split at hm <;> exact hm
  | len => exact hm
  | raise => exact hm

/-- a statement touches no stored record other than the session's own -/
theorem hop_lookup_other (cfg : Cfg) (st : St) (s : Sess) (h : HOp) (i : Id) (hne : s.id ≠ i) :
    lookup (hop cfg st s h).st.store i = lookup st.store i := by
  cases h with
  | regenerate =>
    simp only [hop]; split
    · exact lookup_erase_ne _ (Ne.symm hne)
    · rename_i j st2 hn
      have := (newId_spec hn).2.1
      simp only [HRes.st]
      rw [this]
      exact lookup_erase_ne _ (Ne.symm hne)
  | read => simp only [hop]; split <;> rfl
  | write k v => simp only [hop]; split <;> rfl
  | delKey k => simp only [hop]; split <;> rfl
  | clear => simp only [hop]; split <;> rfl
  | delete => simp only [hop]; split <;> exact lookup_erase_ne _ (Ne.symm hne)
  | expire => rfl
  | acc a => simp only [hop]; split <;> rfl
  | len => rfl
  | raise => rfl

/-! ### C14_persist -/

/-- operations that do not concern session `i`: requests presenting another (or no) cookie, clock
    advances, sweeps, damage to other files -/
def Quiet (i : Id) : Op → Prop
  | .req ck _ => Cookie.presented ck ≠ some i
  | .tear j _ => j ≠ i
  | _ => True

/-- Frame: a request that does not present `i` leaves the record stored for `i` alone. -/
theorem request_frame (cfg : Cfg) (st : St) (ck : Cookie) (hops : List HOp) (i : Id) (rec : Rec)
    (hq : Cookie.presented ck ≠ some i) (hl : lookup st.store i = some rec) :
    lookup (request cfg st ck hops).1.store i = some rec := by
  unfold request
  split
  · exact hl
  · rename_i s0 st0 hi
    obtain ⟨hs, _, _, _, _, _, _, ho⟩ := initSess_spec hi
    have hid : s0.id ≠ i := by
      rcases ho with ⟨a, _, _⟩ | ⟨a, _⟩
      · intro e; rw [e] at a; exact hq a
      · intro e; rw [e, has_false_iff, hl] at a; cases a
    have hfin := runHops_induct (cfg := cfg)
      (fun st1 s => s.id ≠ i ∧ lookup st1.store i = some rec) hops
      (fun st1 s h _ hp => by
        refine ⟨?_, ?_⟩
        · by_cases hr : h = .regenerate
          · subst hr
            simp only [hop]; split
            · exact hp.1
            · rename_i j st2 hn
              obtain ⟨a, b, _⟩ := newId_spec hn
              simp only [HRes.sess]
              intro e
              simp only at a b
              rw [e, has_false_iff, lookup_erase_ne _ (Ne.symm hp.1), hp.2] at a
              cases a
          · rw [hop_id cfg st1 s h hr]; exact hp.1
        · rw [hop_lookup_other cfg st1 s h i hp.1]; exact hp.2)
      st0 s0 ⟨hid, by rw [hs]; exact hl⟩
    split
    · rename_i st1 s1 hr
      rw [hr] at hfin
      simp only [HRes.st, HRes.sess] at hfin
      simp only [saveSess]
      split
      · simp only; rw [lookup_upsert_ne _ _ (Ne.symm hfin.1)]; exact hfin.2
      · exact hfin.2
    · rename_i e st1 s1 hr
      rw [hr] at hfin
      exact hfin.2

theorem request_now (cfg : Cfg) (st : St) (ck : Cookie) (hops : List HOp) :
    (request cfg st ck hops).1.now = st.now := by
  unfold request
  split
  · rfl
  · rename_i s0 st0 hi
    obtain ⟨_, hn, _⟩ := initSess_spec hi
    have hfin := runHops_induct (cfg := cfg) (fun st1 _ => st1.now = st.now) hops
      (fun st1 s h _ hp => by rw [hop_now]; exact hp) st0 s0 hn
    split
    · rename_i st1 s1 hr
      rw [hr] at hfin
      simp only [HRes.st] at hfin
      simp only [saveSess]; split <;> exact hfin
    · rename_i e st1 s1 hr
      rw [hr] at hfin
      exact hfin

theorem step_now_le (cfg : Cfg) (st : St) (op : Op) : st.now ≤ (step cfg st op).1.now := by
  cases op with
  | req ck hops => simp only [step]; rw [request_now]; exact Nat.le_refl _
  | advance d => simp only [step]; omega
  | sweep => simp only [step]; split <;> exact Nat.le_refl _
  | tear j e => simp only [step]; split <;> exact Nat.le_refl _

theorem runSt_cons (cfg : Cfg) (st : St) (o : Op) (os : List Op) :
    runSt cfg st (o :: os) = runSt cfg (step cfg st o).1 os := rfl

theorem runSt_now_le (cfg : Cfg) (st : St) (ops : List Op) : st.now ≤ (runSt cfg st ops).now := by
  induction ops generalizing st with
  | nil => exact Nat.le_refl _
  | cons o os ih =>
    rw [runSt_cons]
    exact Nat.le_trans (step_now_le cfg st o) (ih _)

/-- the RAM sweep fires at `expiry ≤ now`, one tick before `load` gives the data up -/
def margin (cfg : Cfg) : Nat := if cfg.file then 0 else 1

theorem step_persist (cfg : Cfg) (st : St) (op : Op) (i : Id) (d : Data) (e : Nat)
    (hq : Quiet i op) (hl : lookup st.store i = some (.good d e)) (hnow : st.now + margin cfg ≤ e) :
    lookup (step cfg st op).1.store i = some (.good d e) := by
  cases op with
  | req ck hops => exact request_frame cfg st ck hops i _ hq hl
  | advance k => exact hl
  | sweep =>
    simp only [step]
    split
    · rename_i hf
      exact lookup_sweepFile_live hl (by simp [margin, hf] at hnow; omega)
    · rename_i hf
      exact lookup_sweepRam_live hl (by simp [margin, hf] at hnow; omega)
  | tear j x =>
    simp only [step]
    split
    · simp only; rw [lookup_upsert_ne _ _ (Ne.symm hq)]; exact hl
    · exact hl

/-- **Persistence (store side).**  For every history of operations that do not present `i` (other
    clients' requests with any handler, clock advances, sweeps, damage to other files) ending no
    later than the expiry of `i` (RAM: strictly before, because its sweep fires at `expiry ≤ now`), the
    record saved under `i` is still there, unchanged. -/
theorem C14_persist_store (cfg : Cfg) (ops : List Op) (st : St) (i : Id) (d : Data) (e : Nat)
    (hq : ∀ op ∈ ops, Quiet i op) (hl : lookup st.store i = some (.good d e))
    (hend : (runSt cfg st ops).now + margin cfg ≤ e) :
    lookup (runSt cfg st ops).store i = some (.good d e) := by
  induction ops generalizing st with
  | nil => exact hl
  | cons o os ih =>
    rw [runSt_cons] at hend ⊢
    have hmono := runSt_now_le cfg (step cfg st o).1 os
    have h1 := step_now_le cfg st o
    apply ih
    · exact fun op hm => hq op (List.mem_cons_of_mem _ hm)
    · exact step_persist cfg st o i d e (hq o List.mem_cons_self) hl (by omega)
    · exact hend

/-- **Persistence (request side).**  A request presenting `i` while the record is unexpired
    (`now ≤ expiry`) adopts the id and its handler reads exactly the saved data. -/
theorem C14_load_live (cfg : Cfg) (st : St) (i : Id) (d : Data) (e : Nat)
    (hl : lookup st.store i = some (.good d e)) (hnow : st.now ≤ e) :
    (request cfg st (.id i) [.read]).2 = ⟨.ok, some i, false, [d]⟩ ∧
    lookup (request cfg st (.id i) [.read]).1.store i = some (.good d (st.now + cfg.timeout)) := by
  have hhas : has st.store i = true := by simp [has, hl]
  have hload : loadData st i = some d := by
    unfold loadData
    rw [hl]
    simp only
    rw [if_neg (by omega)]
  constructor
  · simp [request, initSess, hhas, runHops, hop, ensureLoaded, hload, saveSess]
  · simp [request, initSess, hhas, runHops, hop, ensureLoaded, hload, saveSess, lookup_upsert_self]

/-- **C14_persist**: data saved under `i` is what a later request presenting `i` reads, after any
    history of other operations, up to the expiry. -/
theorem C14_persist (cfg : Cfg) (ops : List Op) (st : St) (i : Id) (d : Data) (e : Nat)
    (hq : ∀ op ∈ ops, Quiet i op) (hl : lookup st.store i = some (.good d e))
    (hend : (runSt cfg st ops).now + margin cfg ≤ e) :
    (request cfg (runSt cfg st ops) (.id i) [.read]).2 = ⟨.ok, some i, false, [d]⟩ := by
  have h1 := C14_persist_store cfg ops st i d e hq hl hend
  exact (C14_load_live cfg _ i d e h1 (by omega)).1

/-- what the `save` hook stores: the handler's data, expiring `timeout` after now -/
theorem C14_save_stores (cfg : Cfg) (st : St) (s : Sess) (hl : s.loaded = true) :
    lookup (saveSess cfg st s).store s.id = some (.good s.data (st.now + cfg.timeout)) := by
  simp [saveSess, hl, lookup_upsert_self]

-- non-vacuity: a two-client history in which client 1's data survives client 2's traffic and a sweep
def exCfg : Cfg := { file := true, timeout := 3, gen := fun n => n + 1 }
def exSt : St := (request exCfg {} .none [.write 1 7]).1
def exOps : List Op :=
  [.req .none [.write 2 2, .regenerate], .advance 3, .sweep, .req (.id 2) [.delete]]

example : ∀ op ∈ exOps, Quiet 1 op := by
  intro op hm
  simp only [exOps, List.mem_cons, List.not_mem_nil, or_false] at hm
  rcases hm with rfl | rfl | rfl | rfl <;> simp [Quiet, Cookie.presented]

example : lookup exSt.store 1 = some (.good [(1, 7)] 3) ∧
    (runSt exCfg exSt exOps).now + margin exCfg ≤ 3 ∧
    (request exCfg (runSt exCfg exSt exOps) (.id 1) [.read]).2 = ⟨.ok, some 1, false, [[(1, 7)]]⟩ := by
  decide

/-! ### C14_sweep_exact -/

/-- **RAM sweep**: removes exactly the entries with `expiry ≤ now`. -/
theorem C14_sweep_exact_ram (now : Nat) (s : Store) (i : Id) (r : Rec) :
    (i, r) ∈ sweepRam now s ↔ (i, r) ∈ s ∧ ∀ d e, r = .good d e → ¬ e ≤ now :=
  mem_sweepRam

/-- **File sweep**: when no file makes `_load` raise, the loop is not left early and removes exactly
    the readable files with `expiry < now`; unreadable (torn) files stay and do not stop it. -/
theorem C14_sweep_exact_file (now : Nat) (s : Store) (hno : NoOther s) (i : Id) (r : Rec) :
    (sweepFile now s).2 = false ∧
    ((i, r) ∈ (sweepFile now s).1 ↔ (i, r) ∈ s ∧ ∀ d e, r = .good d e → ¬ e < now) :=
  ⟨sweepFile_not_aborted hno, mem_sweepFile hno⟩

/-- The one-tick boundary: at `now = expiry` `load` still returns the data, the file sweep keeps the
    session, the RAM sweep removes it. -/
theorem C14_boundary_tick (i : Id) (d : Data) (e : Nat) :
    loadData { store := [(i, .good d e)], now := e } i = some d ∧
    (sweepFile e [(i, .good d e)]).1 = [(i, .good d e)] ∧
    sweepRam e [(i, .good d e)] = [] := by
  refine ⟨?_, ?_, ?_⟩
  · simp [loadData, lookup]
  · simp [sweepFile]
  · simp [sweepRam]

/-! ### C14_torn_file -/

theorem loadData_benign {st : St} (_hb : NoOther st.store) (i : Id) : ∃ d, loadData st i = some d := by
  unfold loadData
  split
  · exact ⟨_, rfl⟩
  · split <;> exact ⟨_, rfl⟩
  · exact ⟨_, rfl⟩

/-- since the F14d repair `load` never fails, whatever the file holds -/
theorem loadData_total (st : St) (i : Id) : ∃ d, loadData st i = some d := by
  unfold loadData
  split
  · exact ⟨_, rfl⟩
  · split <;> exact ⟨_, rfl⟩
  · exact ⟨_, rfl⟩

/-- Relative to the measured pickle contract, every proper prefix of a saved file is a record of a
    class that `_load` turns into "no session". -/
theorem torn_prefix_benign (P : Pickle (Data × Nat)) (S : Data × Nat → Prop) (hP : P.Contract S)
    (d : Data) (e n : Nat) (hS : S (d, e)) (hn : n < (P.dumps (d, e)).length) :
    fileRec P ((P.dumps (d, e)).take n) = .bad .eof ∨ fileRec P ((P.dumps (d, e)).take n) = .bad .unpickling := by
  unfold fileRec
  rcases hP.truncated (d, e) hS n hn with h | h <;> rw [h] <;> simp

theorem whole_file_loads (P : Pickle (Data × Nat)) (S : Data × Nat → Prop) (hP : P.Contract S)
    (d : Data) (e : Nat) (hS : S (d, e)) : fileRec P (P.dumps (d, e)) = .good d e := by
  unfold fileRec
  rw [hP.roundtrip _ hS]

/-- **Torn file = absent session, not an error.**  For every pickle meeting the contract on the saved
    values, every saved record and every truncation offset: a request presenting the id of the torn
    file is answered normally, its handler sees an empty session, and the file sweep runs to the end. -/
theorem C14_torn_file (P : Pickle (Data × Nat)) (S : Data × Nat → Prop) (hP : P.Contract S)
    (cfg : Cfg) (st : St) (i : Id) (d : Data) (e n : Nat) (hS : S (d, e))
    (hn : n < (P.dumps (d, e)).length)
    (hrec : lookup st.store i = some (fileRec P ((P.dumps (d, e)).take n)))
    (hrest : NoOther st.store) :
    (request cfg st (.id i) [.read]).2 = ⟨.ok, some i, false, [[]]⟩ ∧
    (sweepFile st.now st.store).2 = false := by
  refine ⟨?_, sweepFile_not_aborted hrest⟩
  have hhas : has st.store i = true := by simp [has, hrec]
  have hload : loadData st i = some [] := by
    unfold loadData
    rcases torn_prefix_benign P S hP d e n hS hn with h | h <;> rw [hrec, h]
  simp [request, initSess, hhas, runHops, hop, ensureLoaded, hload, saveSess]

/-- a pickle meeting the contract for a saved value exists: the hypotheses of `C14_torn_file` are not
    vacuous (two-byte file, one saved record). -/
def toyValue : Data × Nat := ([(1, 7)], 3)

def toyPickle : Pickle (Data × Nat) where
  dumps _ := [1, 46]
  loads
    | [] => .exc .eof
    | [_] => .exc .eof
    | [1, 46] => .ok toyValue
    | _ => .exc .unpickling

theorem toyPickle_contract : toyPickle.Contract (· = toyValue) where
  roundtrip := by intro x hx; subst hx; rfl
  truncated := by
    intro x _ n hn
    have hn' : n < 2 := hn
    match n, hn' with
    | 0, _ => exact Or.inl rfl
    | 1, _ => exact Or.inl rfl

example :
    let st : St := { store := [(5, fileRec toyPickle ((toyPickle.dumps toyValue).take 1)), (6, .good [] 9)] }
    lookup st.store 5 = some (fileRec toyPickle ((toyPickle.dumps toyValue).take 1)) ∧
      (request exCfg st (.id 5) [.read]).2 = ⟨.ok, some 5, false, [[]]⟩ := by
  decide


/-! ### C14_no_resurrection -/

/-- a stored record from which `load` returns nothing: expired, empty, or unreadable -/
def DeadRec (now : Nat) : Rec → Prop
  | .good d e => e < now ∨ d = []
  | .bad _ => True

/-- every record the store holds under `i` is dead (the store holds nothing returnable for `i`) -/
def DeadAll (st : St) (i : Id) : Prop := ∀ r, (i, r) ∈ st.store → DeadRec st.now r

def NoWrite (hs : List HOp) : Prop := ∀ h ∈ hs, HOp.writes h = false

theorem Acc.apply_nil {a : Acc} (h : a.writes = false) : a.apply [] = ([], []) := by
  cases a <;> first | rfl | cases h

/-- the only way new data may appear under `i`: a request presenting `i` whose handler writes it -/
def WritesNot (i : Id) : Op → Prop
  | .req ck hs => Cookie.presented ck = some i → NoWrite hs
  | _ => True

/-- the id source does not yield `i` from now on (true of every id already drawn when the source
    is injective) -/
def FutureNot (cfg : Cfg) (st : St) (i : Id) : Prop := ∀ n, st.ctr ≤ n → cfg.gen n ≠ i

theorem DeadRec_mono {now now' : Nat} {r : Rec} (h : DeadRec now r) (hle : now ≤ now') : DeadRec now' r := by
  cases r with
  | good d e => rcases h with h | h; exact Or.inl (by omega); exact Or.inr h
  | bad x => trivial

theorem DeadAll_of_absent {st : St} {i : Id} (h : lookup st.store i = none) : DeadAll st i :=
  fun r hm => absurd hm (not_mem_of_lookup_none h r)

/-- expiry: once the clock has passed the expiry of the only record under `i`, it is dead -/
theorem C14_expired_dead (st : St) (i : Id) (d : Data) (e : Nat)
    (honly : ∀ r, (i, r) ∈ st.store → r = .good d e) (hexp : e < st.now) : DeadAll st i := by
  intro r hm
  rw [honly r hm]
  exact Or.inl hexp

theorem loadData_dead {st : St} {i : Id} (hd : DeadAll st i) {d : Data} (h : loadData st i = some d) :
    d = [] := by
  unfold loadData at h
  split at h
  · cases h; rfl
  · rename_i d' e hl
    have := hd _ (lookup_mem hl)
    split at h
    · cases h; rfl
    · rename_i hne
      cases h
      rcases this with h1 | h1
      · exact absurd h1 hne
      · exact h1
  · cases h; rfl

/-- invariant of a request on a store in which `i` is dead -/
def DeadInv (_cfg : Cfg) (st0 : St) (ck : Cookie) (i : Id) (st : St) (s : Sess) : Prop :=
  st.now = st0.now ∧ st0.ctr ≤ st.ctr ∧ DeadAll st i ∧
  (s.id = i → Cookie.presented ck = some i) ∧
  (Cookie.presented ck = some i →
     s.data = [] ∧ (∀ d ∈ s.reads, d = []) ∧ (s.loaded = false → DeadAll st s.id))

theorem DeadAll_sub {st st' : St} {i : Id} (hd : DeadAll st i) (hn : st'.now = st.now)
    (hsub : ∀ p, p ∈ st'.store → p ∈ st.store) : DeadAll st' i :=
  fun r hm => by rw [hn]; exact hd r (hsub _ hm)

theorem hop_dead {cfg : Cfg} {st0 : St} {ck : Cookie} {i : Id} (hf : FutureNot cfg st0 i)
    (st : St) (s : Sess) (h : HOp)
    (hw : Cookie.presented ck = some i → h.writes = false)
    (hp : DeadInv cfg st0 ck i st s) :
    DeadInv cfg st0 ck i (hop cfg st s h).st (hop cfg st s h).sess := by
  obtain ⟨hnow, hctr, hdead, hid, hpres⟩ := hp
  -- statements that only go through `ensureLoaded`
  have loaded : ∀ s' : Sess, ensureLoaded st s = some s' →
      (s'.id = i → Cookie.presented ck = some i) ∧
      (Cookie.presented ck = some i → s'.data = [] ∧ (∀ d ∈ s'.reads, d = [])) := by
    intro s' hs'
    obtain ⟨e1, e2, e3, _, e5, e6⟩ := ensureLoaded_spec hs'
    refine ⟨fun h => hid (e1 ▸ h), fun hc => ?_⟩
    obtain ⟨a, b, c⟩ := hpres hc
    refine ⟨?_, by rw [e3]; exact b⟩
    cases hl : s.loaded with
    | true => rw [e5 hl]; exact a
    | false => exact loadData_dead (c hl) (e6 hl)
  cases h with
  | read =>
    simp only [hop]
    split
    · exact ⟨hnow, hctr, hdead, hid, hpres⟩
    · rename_i s' hs'
      obtain ⟨l1, l2⟩ := loaded s' hs'
      have e2 := (ensureLoaded_spec hs').2.1
      refine ⟨hnow, hctr, hdead, l1, fun hc => ⟨(l2 hc).1, ?_, fun h => ?_⟩⟩
      · intro d hd
        have hd' : d ∈ s'.reads ++ [s'.data] := hd
        simp only [List.mem_append, List.mem_singleton] at hd'
        rcases hd' with hd | hd
        · exact (l2 hc).2 d hd
        · rw [hd]; exact (l2 hc).1
      · have h' : s'.loaded = false := h
        rw [e2] at h'; cases h'
  | write k v =>
    simp only [hop]
    split
    · exact ⟨hnow, hctr, hdead, hid, hpres⟩
    · rename_i s' hs'
      obtain ⟨l1, _⟩ := loaded s' hs'
      exact ⟨hnow, hctr, hdead, l1, fun hc => by have := hw hc; cases this⟩
  | delKey k =>
    simp only [hop]
    split
    · exact ⟨hnow, hctr, hdead, hid, hpres⟩
    · rename_i s' hs'
      obtain ⟨l1, l2⟩ := loaded s' hs'
      have e2 := (ensureLoaded_spec hs').2.1
      refine ⟨hnow, hctr, hdead, l1, fun hc => ⟨?_, (l2 hc).2, fun h => ?_⟩⟩
      · show ddel s'.data k = []
        rw [(l2 hc).1]; rfl
      · have h' : s'.loaded = false := h
        rw [e2] at h'; cases h'
  | clear =>
    simp only [hop]
    split
    · exact ⟨hnow, hctr, hdead, hid, hpres⟩
    · rename_i s' hs'
      obtain ⟨l1, l2⟩ := loaded s' hs'
      have e2 := (ensureLoaded_spec hs').2.1
      refine ⟨hnow, hctr, hdead, l1, fun hc => ⟨rfl, (l2 hc).2, fun h => ?_⟩⟩
      have h' : s'.loaded = false := h
      rw [e2] at h'; cases h'
  | regenerate =>
    simp only [hop]
    have hsub : ∀ p, p ∈ erase st.store s.id → p ∈ st.store :=
      fun p hm => (mem_erase (j := p.1) (r := p.2) hm).1
    split
    · refine ⟨hnow, hctr, DeadAll_sub hdead rfl hsub, hid, fun hc => ?_⟩
      obtain ⟨a, b, c⟩ := hpres hc
      exact ⟨a, b, fun hl => DeadAll_sub (c hl) rfl hsub⟩
    · rename_i j st2 hn
      obtain ⟨n1, n2, n3, n, n4, n5, n6⟩ := newId_spec hn
      simp only at n1 n2 n3 n4
      simp only [HRes.st, HRes.sess]
      have hji : j ≠ i := by rw [n6]; exact hf n (by omega)
      refine ⟨by rw [n3]; exact hnow, by omega, ?_, fun h => absurd h hji, fun hc => ?_⟩
      · exact DeadAll_sub hdead n3 (fun p hm => hsub p (n2 ▸ hm))
      · obtain ⟨a, b, _⟩ := hpres hc
        refine ⟨a, b, fun _ => ?_⟩
        intro r hm
        rw [n2] at hm
        exact absurd hm (not_mem_of_lookup_none (has_false_iff.mp n1) r)
  | delete =>
    simp only [hop]
    have hsub : ∀ p, p ∈ erase st.store s.id → p ∈ st.store :=
      fun p hm => (mem_erase (j := p.1) (r := p.2) hm).1
    split
    · refine ⟨hnow, hctr, DeadAll_sub hdead rfl hsub, hid, fun hc => ?_⟩
      obtain ⟨_, b, _⟩ := hpres hc
      refine ⟨rfl, b, fun _ => ?_⟩
      intro r hm
      exact absurd rfl (mem_erase hm).2
    · refine ⟨hnow, hctr, DeadAll_sub hdead rfl hsub, hid, fun hc => ?_⟩
      obtain ⟨a, b, c⟩ := hpres hc
      exact ⟨a, b, fun hl => DeadAll_sub (c hl) rfl hsub⟩
  | expire => exact ⟨hnow, hctr, hdead, hid, hpres⟩
  | acc a =>
    simp only [hop]
    split
    · exact ⟨hnow, hctr, hdead, hid, hpres⟩
    · rename_i s' hs'
      obtain ⟨l1, l2⟩ := loaded s' hs'
      have e2 := (ensureLoaded_spec hs').2.1
      refine ⟨hnow, hctr, hdead, l1, fun hc => ?_⟩
      have hnil : a.apply s'.data = ([], []) := by
        rw [(l2 hc).1]; exact Acc.apply_nil (hw hc)
      refine ⟨by show (a.apply s'.data).1 = []; rw [hnil], ?_, fun h => ?_⟩
      · intro d hd
        have hd' : d ∈ s'.reads ++ [(a.apply s'.data).2] := hd
        simp only [List.mem_append, List.mem_singleton] at hd'
        rcases hd' with hd | hd
        · exact (l2 hc).2 d hd
        · rw [hd, hnil]
      · have h' : s'.loaded = false := h
        rw [e2] at h'; cases h'
  | len => exact ⟨hnow, hctr, hdead, hid, hpres⟩
  | raise => exact ⟨hnow, hctr, hdead, hid, hpres⟩

/-- One request on a store in which `i` is dead: `i` stays dead, and if the request presents `i`
    (without writing) every read of its handler is empty. -/
theorem request_dead (cfg : Cfg) (st : St) (ck : Cookie) (hops : List HOp) (i : Id)
    (hd : DeadAll st i) (hf : FutureNot cfg st i)
    (hw : Cookie.presented ck = some i → NoWrite hops) :
    DeadAll (request cfg st ck hops).1 i ∧ st.ctr ≤ (request cfg st ck hops).1.ctr ∧
    (Cookie.presented ck = some i → ∀ d ∈ (request cfg st ck hops).2.reads, d = []) := by
  unfold request
  split
  · exact ⟨hd, Nat.le_refl _, fun _ d hm => by cases hm⟩
  · rename_i s0 st0 hi
    obtain ⟨e1, e2, e3, e4, e5, _, e7, ho⟩ := initSess_spec hi
    have h0 : DeadInv cfg st ck i st0 s0 := by
      refine ⟨e2, e7, DeadAll_sub hd e2 (fun p hm => e1 ▸ hm), ?_, fun hc => ⟨e3, (by rw [e5]; intro d hm; cases hm), fun _ => ?_⟩⟩
      · intro hid
        rcases ho with ⟨a, _, _⟩ | ⟨_, n, a, _, c⟩
        · rw [hid] at a; exact a
        · exact absurd (hid ▸ c).symm (hf n a)
      · rcases ho with ⟨a, _, c⟩ | ⟨a, _⟩
        · rw [hc] at a; cases a; rw [c]; exact hd
        · intro r hm
          rw [e1] at hm
          exact absurd hm (not_mem_of_lookup_none (has_false_iff.mp a) r)
    have hfin := runHops_induct (cfg := cfg) (DeadInv cfg st ck i) hops
      (fun st1 s h hm hp => hop_dead hf st1 s h
        (fun hc => hw hc h hm) hp) st0 s0 h0
    split
    · rename_i st1 s1 hr
      rw [hr] at hfin
      simp only [HRes.st, HRes.sess] at hfin
      obtain ⟨a, b, c, d, e⟩ := hfin
      refine ⟨?_, ?_, fun hc => (e hc).2.1⟩
      · simp only [saveSess]
        split
        · intro r hm
          simp only at hm
          rcases mem_upsert hm with ⟨h1, h2⟩ | ⟨_, h2⟩
          · rw [h2]
            exact Or.inr (e (d h1.symm)).1
          · exact c r h2
        · exact c
      · simp only [saveSess]; split <;> exact b
    · rename_i x st1 s1 hr
      rw [hr] at hfin
      simp only [HRes.st, HRes.sess] at hfin
      obtain ⟨a, b, c, d, e⟩ := hfin
      exact ⟨c, b, fun hc => (e hc).2.1⟩

theorem step_dead (cfg : Cfg) (st : St) (op : Op) (i : Id)
    (hd : DeadAll st i) (hf : FutureNot cfg st i) (hw : WritesNot i op) :
    DeadAll (step cfg st op).1 i ∧ FutureNot cfg (step cfg st op).1 i := by
  cases op with
  | req ck hops =>
    obtain ⟨a, b, _⟩ := request_dead cfg st ck hops i hd hf hw
    exact ⟨a, fun n hn => hf n (by simp only [step] at hn; omega)⟩
  | advance k =>
    exact ⟨fun r hm => DeadRec_mono (hd r hm) (by simp only [step]; omega), hf⟩
  | sweep =>
    simp only [step]
    split
    · exact ⟨fun r hm => hd r (mem_sweepFile_sub hm), hf⟩
    · exact ⟨fun r hm => hd r (mem_sweepRam.mp hm).1, hf⟩
  | tear j x =>
    simp only [step]
    split
    · refine ⟨fun r hm => ?_, hf⟩
      simp only at hm
      rcases mem_upsert hm with ⟨_, h2⟩ | ⟨_, h2⟩
      · rw [h2]; trivial
      · exact hd r h2
    · exact ⟨hd, hf⟩

/-- **No resurrection.**  Once nothing returnable is stored under `i` (expired, deleted, regenerated
    away, torn), it stays so through every history — other clients' requests with any handler, requests
    presenting `i` that do not write, clock advances, sweeps of either backend, file damage — and a
    request presenting `i` at the end reads nothing.  (The only way back is a request presenting `i`
    that itself writes new data.) -/
theorem C14_no_resurrection (cfg : Cfg) (ops : List Op) (st : St) (i : Id)
    (hd : DeadAll st i) (hf : FutureNot cfg st i) (hw : ∀ op ∈ ops, WritesNot i op)
    (hops : List HOp) (hnw : NoWrite hops) :
    DeadAll (runSt cfg st ops) i ∧
    ∀ d ∈ (request cfg (runSt cfg st ops) (.id i) hops).2.reads, d = [] := by
  induction ops generalizing st with
  | nil =>
    exact ⟨hd, (request_dead cfg st (.id i) hops i hd hf (fun _ => hnw)).2.2 rfl⟩
  | cons o os ih =>
    rw [runSt_cons]
    obtain ⟨a, b⟩ := step_dead cfg st o i hd hf (hw o List.mem_cons_self)
    exact ih _ a b (fun op hm => hw op (List.mem_cons_of_mem _ hm))

/-- `delete()` (repaired, 8042c0e) as the last statement of a handler that did not regenerate: nothing
    is stored under the id afterwards, whatever the handler read or wrote before. -/
def C14_delete_full (cfg : Cfg) : Prop :=
  ∀ (st : St) (i : Id) (pre : List HOp), has st.store i = true → HOp.regenerate ∉ pre →
    (request cfg st (.id i) (pre ++ [.delete])).2.status = .ok →
    lookup (request cfg st (.id i) (pre ++ [.delete])).1.store i = none

theorem runHops_append (cfg : Cfg) (a b : List HOp) (st : St) (s : Sess) :
    runHops cfg st s (a ++ b) =
      match runHops cfg st s a with
      | .ok st' s' => runHops cfg st' s' b
      | .fail e st' s' => .fail e st' s' := by
  induction a generalizing st s with
  | nil => rfl
  | cons h hs ih =>
    simp only [List.cons_append, runHops]
    split
    · exact ih _ _
    · rfl

theorem hop_fail_status {cfg : Cfg} {st st' : St} {s s' : Sess} {h : HOp} {e : Status}
    (hf : hop cfg st s h = .fail e st' s') : e ≠ .ok := by
  cases h with
  | read => simp only [hop] at hf; split at hf <;> cases hf; intro hc; cases hc
  | write k v => simp only [hop] at hf; split at hf <;> cases hf; intro hc; cases hc
  | delKey k => simp only [hop] at hf; split at hf <;> cases hf; intro hc; cases hc
  | clear => simp only [hop] at hf; split at hf <;> cases hf; intro hc; cases hc
  | regenerate => simp only [hop] at hf; split at hf <;> cases hf; intro hc; cases hc
  | delete => simp only [hop] at hf; split at hf <;> cases hf
  | expire => simp only [hop] at hf; cases hf
  | acc a => simp only [hop] at hf; split at hf <;> cases hf; intro hc; cases hc
  | len => simp only [hop] at hf; cases hf
  | raise => simp only [hop] at hf; cases hf; intro hc; cases hc

theorem runHops_fail_status {cfg : Cfg} (hs : List HOp) {st st' : St} {s s' : Sess} {e : Status}
    (hf : runHops cfg st s hs = .fail e st' s') : e ≠ .ok := by
  induction hs generalizing st s with
  | nil => simp [runHops] at hf
  | cons h hs ih =>
    simp only [runHops] at hf
    split at hf
    · exact ih hf
    · rename_i e1 st1 s1 h1
      cases hf
      exact hop_fail_status h1

theorem C14_delete_dead (cfg : Cfg) (hfix : cfg.deleteForgets = true) : C14_delete_full cfg := by
  intro st i pre hhas hnr hok
  unfold request at hok ⊢
  simp only [initSess, hhas, if_true] at hok ⊢
  have hfin := runHops_induct (cfg := cfg) (fun _ s => s.id = i) pre
    (fun st1 s h hm hp => by
      rw [hop_id cfg st1 s h (fun e => hnr (e ▸ hm))]; exact hp) st { id := i } rfl
  rw [runHops_append] at hok ⊢
  cases hr : runHops cfg st { id := i } pre with
  | fail e st1 s1 =>
    rw [hr] at hok
    simp only at hok
    exact absurd hok (runHops_fail_status pre hr)
  | ok st1 s1 =>
    rw [hr] at hfin
    simp only [HRes.sess] at hfin
    simp only [runHops, hop, hfix, if_true, saveSess]
    simp only [Bool.false_eq_true, if_false]
    rw [hfin]
    exact lookup_erase_self _ _

/-- Before the repair (`deleteForgets = false`: `delete()` left the request's copy loaded) the
    end-of-request `save` wrote the deleted data back: the statement was false (finding F14b). -/
theorem C14_delete_full_false_before_fix :
    ¬ C14_delete_full { file := false, timeout := 1, gen := fun n => n + 1, deleteForgets := false } := by
  intro h
  have := h { store := [(1, .good [(1, 1)] 5)] } 1 [.read] (by decide) (by decide) (by decide)
  revert this
  decide

/-- `regenerate()`: from that statement on nothing is stored under the old id, whatever the rest of
    the handler does, and the `save` hook does not bring it back. -/
theorem C14_regenerate_dead (cfg : Cfg) (st : St) (i : Id) (pre post : List HOp)
    (hhas : has st.store i = true) (hnr : HOp.regenerate ∉ pre) (hf : FutureNot cfg st i) :
    (request cfg st (.id i) (pre ++ .regenerate :: post)).2.status = .ok →
    lookup (request cfg st (.id i) (pre ++ .regenerate :: post)).1.store i = none := by
  intro hok
  unfold request at hok ⊢
  simp only [initSess, hhas, if_true] at hok ⊢
  have hpre := runHops_induct (cfg := cfg) (fun st1 s => s.id = i ∧ st.ctr ≤ st1.ctr) pre
    (fun st1 s h hm hp => by
      rw [hop_id cfg st1 s h (fun e => hnr (e ▸ hm))]
      exact ⟨hp.1, Nat.le_trans hp.2 (hop_ctr cfg st1 s h)⟩) st { id := i } ⟨rfl, Nat.le_refl _⟩
  rw [runHops_append] at hok ⊢
  cases hr : runHops cfg st { id := i } pre with
  | fail e st1 s1 =>
    rw [hr] at hok
    simp only at hok
    exact absurd hok (runHops_fail_status pre hr)
  | ok st1 s1 =>
    rw [hr] at hpre hok
    simp only [HRes.st, HRes.sess] at hpre
    simp only [runHops] at hok ⊢
    -- the regenerate statement itself
    cases hreg : hop cfg st1 s1 .regenerate with
    | fail e st2 s2 =>
      rw [hreg] at hok
      simp only at hok
      exact absurd hok (hop_fail_status hreg)
    | ok st2 s2 =>
      rw [hreg] at hok
      simp only at hok ⊢
      obtain ⟨g1, g2⟩ := C14_regenerate_fresh cfg st1 st2 s1 s2 hreg
      rw [hpre.1] at g2
      have hctr2 : st.ctr ≤ st2.ctr := by
        have := hop_ctr cfg st1 s1 .regenerate
        rw [hreg] at this
        exact Nat.le_trans hpre.2 this
      have hid2 : s2.id ≠ i := by
        simp only [hop] at hreg
        split at hreg
        · cases hreg
        · rename_i j st3 hn
          obtain ⟨_, _, _, n, n4, _, n6⟩ := newId_spec hn
          cases hreg
          simp only at n4
          rw [n6]; exact hf n (by omega)
      have hpost := runHops_induct (cfg := cfg)
        (fun st3 s => s.id ≠ i ∧ lookup st3.store i = none ∧ st.ctr ≤ st3.ctr) post
        (fun st3 s h _ hp => by
          refine ⟨?_, ?_, Nat.le_trans hp.2.2 (hop_ctr cfg st3 s h)⟩
          · by_cases hr : h = .regenerate
            · subst hr
              simp only [hop]; split
              · exact hp.1
              · rename_i j st4 hn
                obtain ⟨_, _, _, n, n4, _, n6⟩ := newId_spec hn
                simp only [HRes.sess]
                simp only at n4
                have := hp.2.2
                rw [n6]; exact hf n (by omega)
            · rw [hop_id cfg st3 s h hr]; exact hp.1
          · rw [hop_lookup_other cfg st3 s h i hp.1]; exact hp.2.1)
        st2 s2 ⟨hid2, g2, hctr2⟩
      cases hr3 : runHops cfg st2 s2 post with
      | fail e st3 s3 =>
        rw [hr3] at hok
        simp only at hok
        exact absurd hok (runHops_fail_status post hr3)
      | ok st3 s3 =>
        rw [hr3] at hpost
        simp only [HRes.st, HRes.sess] at hpost
        simp only [saveSess]
        split
        · simp only; rw [lookup_upsert_ne _ _ (Ne.symm hpost.1)]; exact hpost.2.1
        · exact hpost.2.1

-- non-vacuity of the hypotheses above: a dead id, a source that has moved past it, a mixed history
def exDeadSt : St := { store := [(1, .good [(1, 7)] 2), (2, .good [(2, 2)] 9)], now := 3, ctr := 2 }

example : DeadAll exDeadSt 1 := by
  intro r hm
  simp only [exDeadSt, List.mem_cons, List.not_mem_nil, or_false, Prod.mk.injEq] at hm
  rcases hm with ⟨_, rfl⟩ | ⟨h, _⟩
  · exact Or.inl (by decide)
  · cases h

example : FutureNot exCfg exDeadSt 1 := by
  intro n hn
  have hn' : 2 ≤ n := hn
  show n + 1 ≠ 1
  omega

example : (request exCfg exDeadSt (.id 1) [.read, .delKey 1, .read]).2 = ⟨.ok, some 1, false, [[], []]⟩ := by
  decide

/-! ### damaged files that are not truncated pickles (finding F14d, repaired) -/

/-- "a damaged session file is never an error": the reading of the statement that covers *every*
    file content.  It was false before the F14d repair (`_load` let exception classes other than
    EOFError / UnpicklingError through); `C14_damaged_full_holds` proves it for the repaired code. -/
def C14_damaged_full : Prop :=
  ∀ (cfg : Cfg) (st : St) (ck : Cookie) (hops : List HOp), HOp.raise ∉ hops →
    (request cfg st ck hops).2.status ≠ .err500 ∧ (sweepFile st.now st.store).2 = false

theorem runHops_no500 (cfg : Cfg) (hs : List HOp) (st : St) (s : Sess) (hb : NoOther st.store)
    (hnr : HOp.raise ∉ hs) :
    ∀ e st' s', runHops cfg st s hs = .fail e st' s' → e ≠ .err500 := by
  induction hs generalizing st s with
  | nil => intro e st' s' h; simp [runHops] at h
  | cons h hs ih =>
    intro e st' s' hr
    have hnr' : HOp.raise ∉ hs := fun hm => hnr (List.mem_cons_of_mem _ hm)
    have hne : h ≠ .raise := fun e => hnr (e ▸ List.mem_cons_self)
    simp only [runHops] at hr
    have hload : ∀ s : Sess, ensureLoaded st s ≠ none := by
      intro s hn
      unfold ensureLoaded at hn
      split at hn
      · cases hn
      · obtain ⟨d, hd⟩ := loadData_total st s.id
        rw [hd] at hn
        cases hn
    split at hr
    · rename_i st1 s1 h1
      have hsub : NoOther st1.store := by
        intro j hm
        have := hop_store_sub cfg st s h (j, .bad .other) (by rw [h1]; exact hm)
        exact hb j this
      exact ih st1 s1 hsub hnr' e st' s' hr
    · rename_i e1 st1 s1 h1
      cases hr
      cases h with
      | read => simp only [hop] at h1; split at h1
                · rename_i hn; exact absurd hn (hload s)
                · cases h1
      | write k v => simp only [hop] at h1; split at h1
                     · rename_i hn; exact absurd hn (hload s)
                     · cases h1
      | delKey k => simp only [hop] at h1; split at h1
                    · rename_i hn; exact absurd hn (hload s)
                    · cases h1
      | clear => simp only [hop] at h1; split at h1
                 · rename_i hn; exact absurd hn (hload s)
                 · cases h1
      | regenerate => simp only [hop] at h1; split at h1
                      · cases h1; intro hc; cases hc
                      · cases h1
      | delete => simp only [hop] at h1; split at h1 <;> cases h1
      | expire => simp only [hop] at h1; cases h1
      | acc a => simp only [hop] at h1; split at h1
                 · rename_i hn; exact absurd hn (hload s)
                 · cases h1
      | len => simp only [hop] at h1; cases h1
      | raise => exact absurd rfl hne

/-- the same without any hypothesis on the files (F14d repaired) -/
theorem runHops_no500' (cfg : Cfg) (hs : List HOp) (st : St) (s : Sess)
    (hnr : HOp.raise ∉ hs) :
    ∀ e st' s', runHops cfg st s hs = .fail e st' s' → e ≠ .err500 := by
  induction hs generalizing st s with
  | nil => intro e st' s' h; simp [runHops] at h
  | cons h hs ih =>
    intro e st' s' hr
    have hnr' : HOp.raise ∉ hs := fun hm => hnr (List.mem_cons_of_mem _ hm)
    have hne : h ≠ .raise := fun e => hnr (e ▸ List.mem_cons_self)
    simp only [runHops] at hr
    have hload : ∀ s : Sess, ensureLoaded st s ≠ none := by
      intro s hn
      unfold ensureLoaded at hn
      split at hn
      · cases hn
      · obtain ⟨d, hd⟩ := loadData_total st s.id
        rw [hd] at hn
        cases hn
    split at hr
    · rename_i st1 s1 h1
      exact ih st1 s1 hnr' e st' s' hr
    · rename_i e1 st1 s1 h1
      cases hr
      cases h with
      | read => simp only [hop] at h1; split at h1
                · rename_i hn; exact absurd hn (hload s)
                · cases h1
      | write k v => simp only [hop] at h1; split at h1
                     · rename_i hn; exact absurd hn (hload s)
                     · cases h1
      | delKey k => simp only [hop] at h1; split at h1
                    · rename_i hn; exact absurd hn (hload s)
                    · cases h1
      | clear => simp only [hop] at h1; split at h1
                 · rename_i hn; exact absurd hn (hload s)
                 · cases h1
      | regenerate => simp only [hop] at h1; split at h1
                      · cases h1; intro hc; cases hc
                      · cases h1
      | delete => simp only [hop] at h1; split at h1 <;> cases h1
      | expire => simp only [hop] at h1; cases h1
      | acc a => simp only [hop] at h1; split at h1
                 · rename_i hn; exact absurd hn (hload s)
                 · cases h1
      | len => simp only [hop] at h1; cases h1
      | raise => exact absurd rfl hne

/-- **Partial statement that holds**: while every damaged file is of a class `_load` maps to "no
    session" (in particular every truncation of a saved file, `torn_prefix_benign`), no request is
    answered 500, whatever the cookie and the handler, and the sweep runs to the end. -/
theorem C14_damaged_partial (cfg : Cfg) (st : St) (ck : Cookie) (hops : List HOp)
    (hb : NoOther st.store) (hnr : HOp.raise ∉ hops) :
    (request cfg st ck hops).2.status ≠ .err500 ∧ (sweepFile st.now st.store).2 = false := by
  refine ⟨?_, sweepFile_not_aborted hb⟩
  unfold request
  split
  · rename_i e hi
    intro hc
    simp only at hc
    subst hc
    cases ck with
    | none => simp only [initSess] at hi; split at hi <;> cases hi
    | id c => simp only [initSess] at hi; split at hi
              · cases hi
              · split at hi <;> cases hi
    | escaping c =>
      simp only [initSess] at hi; split at hi
      · cases hi
      · split at hi
        · cases hi
        · split at hi <;> cases hi
  · rename_i s0 st0 hi
    obtain ⟨e1, _⟩ := initSess_spec hi
    split
    · intro hc; cases hc
    · rename_i e st1 s1 hr
      exact runHops_no500 cfg hops st0 s0 (by rw [e1]; exact hb) hnr e st1 s1 hr

/-- **Every damaged file is an absent session** (F14d repaired): whatever the files hold - truncated
    pickles, garbage on which `pickle.load` raises any class, pickles of another shape - no request is
    answered 500 because of them, whatever the cookie and the handler, and the sweep runs to the end. -/
theorem C14_damaged_full_holds : C14_damaged_full := by
  intro cfg st ck hops hnr
  refine ⟨?_, sweepFile_never_aborted _ _⟩
  unfold request
  split
  · rename_i e hi
    intro hc
    simp only at hc
    subst hc
    cases ck with
    | none => simp only [initSess] at hi; split at hi <;> cases hi
    | id c => simp only [initSess] at hi; split at hi
              · cases hi
              · split at hi <;> cases hi
    | escaping c =>
      simp only [initSess] at hi; split at hi
      · cases hi
      · split at hi
        · cases hi
        · split at hi <;> cases hi
  · rename_i s0 st0 hi
    split
    · intro hc; cases hc
    · rename_i e st1 s1 hr
      exact runHops_no500' cfg hops st0 s0 hnr e st1 s1 hr

example : (request exCfg { store := [(1, .bad .other)] } (.id 1) [.read]).2 = ⟨.ok, some 1, false, [[]]⟩ ∧
    sweepFile 5 [(1, .good [] 1), (2, .bad .other), (3, .good [] 1)] = ([(2, .bad .other)], false) := by decide

example : NoOther [(1, Rec.bad .eof), (2, .good [] 3)] := by
  intro i hm
  simp only [List.mem_cons, List.not_mem_nil, or_false, Prod.mk.injEq] at hm
  rcases hm with ⟨_, h⟩ | ⟨_, h⟩ <;> cases h

/-! ### the table regenerated from the live module agrees with the model -/

/-- The except clause of `FileSession._load`, as measured on the live code on every run, is exactly the
    one the model transcribes: EOFError and UnpicklingError (and a missing file) are "no session",
    other classes propagate; an id is 40 characters long. -/
theorem C14_except_clause_table :
    (∀ e, CpModel.Gen.C14.loadCatches e = (loadData { store := [(0, .bad e)] } 0).isSome) ∧
    CpModel.Gen.C14.missingFileIsNone = true ∧ CpModel.Gen.C14.idTextLen = 40 := by
  refine ⟨fun e => ?_, rfl, rfl⟩
  cases e <;> rfl

end CpProofs.C14
