import CpModel.SessionStore
import CpProofs.C14Lemmas
/-!
  C14 — session ids are never adopted from clients; data persists until expiry.

  All theorems are about `CpModel.SessionStore` (the transcription of `cherrypy.lib.sessions` behind
  the sessions tool) and quantify over *every* state of the store — hence over every history that can
  lead to it — every configuration (backend, timeout, id source), every cookie and every handler
  script; the history-level statements are inductions over the operation list.
-/
namespace CpProofs.C14
open CpModel.SessionStore

/-! ### generic machinery: one request -/

theorem newId_spec {cfg : Cfg} {st st' : St} {i : Id} (h : newId cfg st = some (i, st')) :
    has st.store i = false ∧ st'.store = st.store ∧ st'.now = st.now ∧
      ∃ n, st.ctr ≤ n ∧ st'.ctr = n + 1 ∧ i = cfg.gen n := by
  unfold newId at h
  split at h
  · cases h
  · rename_i j c hr
    cases h
    obtain ⟨h1, n, hn, hc, hi⟩ := regenLoop_spec hr
    exact ⟨h1, rfl, rfl, n, hn, hc, hi⟩

theorem ensureLoaded_spec {st : St} {s s' : Sess} (h : ensureLoaded st s = some s') :
    s'.id = s.id ∧ s'.loaded = true ∧ s'.reads = s.reads ∧ s'.cookieExpired = s.cookieExpired ∧
      (s.loaded = true → s' = s) ∧ (s.loaded = false → loadData st s.id = some s'.data) := by
  unfold ensureLoaded at h
  split at h
  · rename_i hl
    cases h
    exact ⟨rfl, hl, rfl, rfl, fun _ => rfl, fun h => by rw [hl] at h; cases h⟩
  · rename_i hl
    split at h
    · cases h
    · rename_i d hd
      cases h
      exact ⟨rfl, rfl, rfl, rfl, fun h => absurd h hl, fun _ => hd⟩

/-- Induction principle over the statements of a handler: an invariant of `(store state, session
    object)` kept by every statement holds when the handler ends (normally or by an exception). -/
theorem runHops_induct {cfg : Cfg} (P : St → Sess → Prop) (hs : List HOp)
    (hstep : ∀ st s h, h ∈ hs → P st s → P (hop cfg st s h).st (hop cfg st s h).sess)
    (st : St) (s : Sess) (h0 : P st s) :
    P (runHops cfg st s hs).st (runHops cfg st s hs).sess := by
  induction hs generalizing st s with
  | nil => exact h0
  | cons h hs ih =>
    simp only [runHops]
    have h1 := hstep st s h List.mem_cons_self h0
    split
    · rename_i st' s' heq
      rw [heq] at h1
      exact ih (fun st s h' hm hp => hstep st s h' (List.mem_cons_of_mem _ hm) hp) st' s' h1
    · rename_i e st' s' heq
      rw [heq] at h1
      exact h1

/-! ### C14_no_fixation -/

/-- Where the id of the session object comes from: the presented cookie, and then the store held it
    before the request; or the id source, drawn during this request. -/
def Origin (cfg : Cfg) (st0 : St) (ck : Cookie) (st : St) (s : Sess) : Prop :=
  st0.ctr ≤ st.ctr ∧
  ((Cookie.presented ck = some s.id ∧ has st0.store s.id = true) ∨
   (∃ n, st0.ctr ≤ n ∧ n < st.ctr ∧ s.id = cfg.gen n))

theorem initSess_spec {cfg : Cfg} {st st' : St} {ck : Cookie} {s : Sess}
    (h : initSess cfg st ck = .ok (s, st')) :
    st'.store = st.store ∧ st'.now = st.now ∧ s.data = [] ∧ s.loaded = false ∧ s.reads = [] ∧
      s.cookieExpired = false ∧ st.ctr ≤ st'.ctr ∧
      ((Cookie.presented ck = some s.id ∧ has st.store s.id = true ∧ st' = st) ∨
       (has st.store s.id = false ∧ ∃ n, st.ctr ≤ n ∧ n < st'.ctr ∧ s.id = cfg.gen n)) := by
  have fresh : ∀ {i st'}, newId cfg st = some (i, st') →
      st'.store = st.store ∧ st'.now = st.now ∧ st.ctr ≤ st'.ctr ∧
        (has st.store i = false ∧ ∃ n, st.ctr ≤ n ∧ n < st'.ctr ∧ i = cfg.gen n) := by
    intro i st' hn
    obtain ⟨h1, h2, h3, n, hn1, hn2, hn3⟩ := newId_spec hn
    exact ⟨h2, h3, by omega, h1, n, hn1, by omega, hn3⟩
  cases ck with
  | none =>
    simp only [initSess] at h
    split at h
    · cases h
    · rename_i i st1 hn
      cases h
      obtain ⟨a, b, c, d⟩ := fresh hn
      exact ⟨a, b, rfl, rfl, rfl, rfl, c, Or.inr d⟩
  | id c =>
    simp only [initSess] at h
    split at h
    · rename_i hh
      cases h
      exact ⟨rfl, rfl, rfl, rfl, rfl, rfl, Nat.le_refl _, Or.inl ⟨rfl, hh, rfl⟩⟩
    · split at h
      · cases h
      · rename_i i st1 hn
        cases h
        obtain ⟨a, b, c, d⟩ := fresh hn
        exact ⟨a, b, rfl, rfl, rfl, rfl, c, Or.inr d⟩
  | escaping c =>
    simp only [initSess] at h
    split at h
    · cases h
    · split at h
      · rename_i hh
        cases h
        exact ⟨rfl, rfl, rfl, rfl, rfl, rfl, Nat.le_refl _, Or.inl ⟨rfl, hh, rfl⟩⟩
      · split at h
        · cases h
        · rename_i i st1 hn
          cases h
          obtain ⟨a, b, c, d⟩ := fresh hn
          exact ⟨a, b, rfl, rfl, rfl, rfl, c, Or.inr d⟩

theorem hop_origin {cfg : Cfg} {st0 : St} {ck : Cookie} (st : St) (s : Sess) (h : HOp)
    (hp : Origin cfg st0 ck st s) :
    Origin cfg st0 ck (hop cfg st s h).st (hop cfg st s h).sess := by
  obtain ⟨hc, ho⟩ := hp
  have keep : ∀ s' : Sess, s'.id = s.id → Origin cfg st0 ck st s' := by
    intro s' hid
    refine ⟨hc, ?_⟩
    rw [hid]
    rcases ho with h | ⟨n, a, b, c⟩
    · exact Or.inl h
    · exact Or.inr ⟨n, a, b, c⟩
  cases h with
  | read =>
    simp only [hop]
    split
    · exact keep s rfl
    · rename_i s' hs'
      exact keep _ (ensureLoaded_spec hs').1
  | write k v =>
    simp only [hop]
    split
    · exact keep s rfl
    · rename_i s' hs'
      exact keep _ (ensureLoaded_spec hs').1
  | delKey k =>
    simp only [hop]
    split
    · exact keep s rfl
    · rename_i s' hs'
      exact keep _ (ensureLoaded_spec hs').1
  | clear =>
    simp only [hop]
    split
    · exact keep s rfl
    · rename_i s' hs'
      exact keep _ (ensureLoaded_spec hs').1
  | regenerate =>
    simp only [hop]
    split
    · refine ⟨hc, ?_⟩
      rcases ho with h | ⟨n, a, b, c⟩
      · exact Or.inl h
      · exact Or.inr ⟨n, a, b, c⟩
    · rename_i i st2 hn
      obtain ⟨_, _, _, n, hn1, hn2, hn3⟩ := newId_spec hn
      simp only [HRes.st, HRes.sess]
      simp only at hn1
      exact ⟨by omega, Or.inr ⟨n, by omega, by omega, hn3⟩⟩
  | delete =>
    simp only [hop]
    split
    · refine ⟨hc, ?_⟩
      rcases ho with h | ⟨n, a, b, c⟩
      · exact Or.inl h
      · exact Or.inr ⟨n, a, b, c⟩
    · refine ⟨hc, ?_⟩
      rcases ho with h | ⟨n, a, b, c⟩
      · exact Or.inl h
      · exact Or.inr ⟨n, a, b, c⟩
  | expire => exact keep _ rfl

/-- **No fixation.**  Whatever the store, the cookie and the handler: the id in the response cookie is
    the presented one only if the store held it before the request; otherwise it was drawn from the id
    source during this request. -/
theorem C14_no_fixation (cfg : Cfg) (st : St) (ck : Cookie) (hops : List HOp) (i : Id)
    (h : (request cfg st ck hops).2.cookie = some i) :
    (Cookie.presented ck = some i ∧ has st.store i = true) ∨
    (∃ n, st.ctr ≤ n ∧ n < (request cfg st ck hops).1.ctr ∧ i = cfg.gen n) := by
  unfold request at h ⊢
  split at h
  · cases h
  · rename_i s0 st0 hi
    obtain ⟨hs, _, _, _, _, _, hc, ho⟩ := initSess_spec hi
    have h0 : Origin cfg st ck st0 s0 := by
      refine ⟨hc, ?_⟩
      rcases ho with ⟨a, b, _⟩ | ⟨_, n, a, b, c⟩
      · exact Or.inl ⟨a, b⟩
      · exact Or.inr ⟨n, a, b, c⟩
    have hfin := runHops_induct (cfg := cfg) (Origin cfg st ck) hops
      (fun st s h _ hp => hop_origin st s h hp) st0 s0 h0
    split at h
    · rename_i st1 s1 hr
      rw [hr] at hfin
      simp only [HRes.st, HRes.sess] at hfin
      simp only at h
      cases h
      have hsave : (saveSess cfg st1 s1).ctr = st1.ctr := by
        unfold saveSess; split <;> rfl
      rcases hfin.2 with h | ⟨n, a, b, c⟩
      · exact Or.inl h
      · exact Or.inr ⟨n, a, by simp only [hsave]; exact b, c⟩
    · rename_i e st1 s1 hr
      rw [hr] at hfin
      simp only [HRes.st, HRes.sess] at hfin
      simp only at h
      cases h
      rcases hfin.2 with h | ⟨n, a, b, c⟩
      · exact Or.inl h
      · exact Or.inr ⟨n, a, b, c⟩

/-- A presented id the store does not hold is never the response id, as long as the client cannot
    name a value the id source yields (a 160-bit `urandom` collision is excluded, explicitly). -/
theorem C14_unknown_id_replaced (cfg : Cfg) (st : St) (c : Id) (hops : List HOp)
    (hunk : has st.store c = false) (hguess : ∀ n, cfg.gen n ≠ c) :
    (request cfg st (.id c) hops).2.cookie ≠ some c := by
  intro h
  rcases C14_no_fixation cfg st (.id c) hops c h with ⟨_, h2⟩ | ⟨n, _, _, h3⟩
  · rw [hunk] at h2; cases h2
  · exact hguess n h3.symm

/-- The id issued instead of a refused (or absent) cookie differs from every live id. -/
theorem C14_fresh_not_live (cfg : Cfg) (st st' : St) (ck : Cookie) (s : Sess)
    (h : initSess cfg st ck = .ok (s, st'))
    (hnew : Cookie.presented ck ≠ some s.id) : has st.store s.id = false := by
  obtain ⟨_, _, _, _, _, _, _, ho⟩ := initSess_spec h
  rcases ho with ⟨a, _, _⟩ | ⟨a, _⟩
  · exact absurd a hnew
  · exact a

/-- ... and so does the id drawn by `regenerate()`: it is not in the store at that moment. -/
theorem C14_regenerate_fresh (cfg : Cfg) (st st' : St) (s s' : Sess)
    (h : hop cfg st s .regenerate = .ok st' s') :
    has st'.store s'.id = false ∧ lookup st'.store s.id = none := by
  simp only [hop] at h
  split at h
  · cases h
  · rename_i i st2 hn
    obtain ⟨h1, h2, _, _⟩ := newId_spec hn
    cases h
    simp only at h1 h2
    rw [h2]
    exact ⟨h1, lookup_erase_self _ _⟩

/-- For an injective id source (`os.urandom` never repeats) the regeneration loop always ends. -/
theorem regen_total (cfg : Cfg) (st : St) (hinj : ∀ a b, cfg.gen a = cfg.gen b → a = b) :
    (newId cfg st).isSome = true := by
  unfold newId
  have := regenLoop_isSome hinj (st.store.length + 1) st.store st.ctr (Nat.lt_succ_self _)
  split
  · rename_i hr; rw [hr] at this; cases this
  · rfl

example : (request { file := false, timeout := 2, gen := fun n => n + 1 } {} (.id 77) [.read]).2.cookie
    = some 1 := by decide

/-! ### C14_sweep_exact -/

/-- **RAM sweep**: removes exactly the entries with `expiry ≤ now`. -/
theorem C14_sweep_exact_ram (now : Nat) (s : Store) (i : Id) (r : Rec) :
    (i, r) ∈ sweepRam now s ↔ (i, r) ∈ s ∧ ∀ d e, r = .good d e → ¬ e ≤ now :=
  mem_sweepRam

/-- **File sweep**: when no file makes `_load` raise, the loop is not left early and removes exactly
    the readable files with `expiry < now`; unreadable (torn) files stay and do not stop it. -/
theorem C14_sweep_exact_file (now : Nat) (s : Store) (hno : NoOther s) (i : Id) (r : Rec) :
    (sweepFile now s).2 = false ∧
    ((i, r) ∈ (sweepFile now s).1 ↔ (i, r) ∈ s ∧ ∀ d e, r = .good d e → ¬ e < now) :=
  ⟨sweepFile_not_aborted hno, mem_sweepFile hno⟩

/-- The one-tick boundary: at `now = expiry` `load` still returns the data, the file sweep keeps the
    session, the RAM sweep removes it. -/
theorem C14_boundary_tick (i : Id) (d : Data) (e : Nat) :
    loadData { store := [(i, .good d e)], now := e } i = some d ∧
    (sweepFile e [(i, .good d e)]).1 = [(i, .good d e)] ∧
    sweepRam e [(i, .good d e)] = [] := by
  refine ⟨?_, ?_, ?_⟩
  · simp [loadData, lookup]
  · simp [sweepFile]
  · simp [sweepRam]

/-! ### C14_torn_file -/

theorem loadData_benign {st : St} (hb : NoOther st.store) (i : Id) : ∃ d, loadData st i = some d := by
  unfold loadData
  split
  · exact ⟨_, rfl⟩
  · split <;> exact ⟨_, rfl⟩
  · rename_i hl
    exact absurd (lookup_mem hl) (hb i)
  · exact ⟨_, rfl⟩

/-- Relative to the measured pickle contract, every proper prefix of a saved file is a record of a
    class that `_load` turns into "no session". -/
theorem torn_prefix_benign (P : Pickle (Data × Nat)) (hP : P.Contract) (d : Data) (e n : Nat)
    (hn : n < (P.dumps (d, e)).length) :
    fileRec P ((P.dumps (d, e)).take n) = .bad .eof ∨ fileRec P ((P.dumps (d, e)).take n) = .bad .unpickling := by
  unfold fileRec
  rcases hP.truncated (d, e) n hn with h | h <;> rw [h] <;> simp

theorem whole_file_loads (P : Pickle (Data × Nat)) (hP : P.Contract) (d : Data) (e : Nat) :
    fileRec P (P.dumps (d, e)) = .good d e := by
  unfold fileRec
  rw [hP.roundtrip]

/-- **Torn file = absent session, not an error.**  For every pickle meeting the contract, every saved
    record and every truncation offset: a request presenting the id of the torn file is answered
    normally, its handler sees an empty session, and the file sweep runs to the end. -/
theorem C14_torn_file (P : Pickle (Data × Nat)) (hP : P.Contract) (cfg : Cfg) (st : St) (i : Id)
    (d : Data) (e n : Nat) (hn : n < (P.dumps (d, e)).length)
    (hrec : lookup st.store i = some (fileRec P ((P.dumps (d, e)).take n)))
    (hrest : NoOther st.store) :
    (request cfg st (.id i) [.read]).2 = ⟨.ok, some i, false, [[]]⟩ ∧
    (sweepFile st.now st.store).2 = false := by
  refine ⟨?_, sweepFile_not_aborted hrest⟩
  have hhas : has st.store i = true := by simp [has, hrec]
  have hload : loadData st i = some [] := by
    unfold loadData
    rcases torn_prefix_benign P hP d e n hn with h | h <;> rw [hrec, h]
  simp [request, initSess, hhas, runHops, hop, ensureLoaded, hload, saveSess]

/-- a pickle meeting the contract exists (payload `Bool`, two-byte encoding): the hypothesis of
    `C14_torn_file` is not vacuous. -/
def toyPickle : Pickle Bool where
  dumps b := [if b then 1 else 0, 46]
  loads
    | [] => .exc .eof
    | [_] => .exc .eof
    | [0, 46] => .ok false
    | [1, 46] => .ok true
    | _ => .exc .unpickling

example : toyPickle.Contract where
  roundtrip := by intro x; cases x <;> rfl
  truncated := by
    intro x n hn
    cases x <;> simp [toyPickle] at hn ⊢ <;>
      (match n, hn with
       | 0, _ => simp
       | 1, _ => simp)

end CpProofs.C14
