import CpProofs.C13Lemmas
/-!
  C13 — the inductive invariant of the REPAIRED RamSession protocol (`Variant.recheck`): any number
  of request threads, the sweeper and the clock, every schedule.  Proved by cases on the program
  counter of the actor that moves; every case is closed by `grind` after the state projections
  have been simplified.
-/
namespace CpProofs.C13
open CpModel.SessionLock

/-- program points at which a request thread owns the lock object `my` -/
def holds (p : Pc) : Bool :=
  match p with
  | .chk | .rel0 | .load | .write | .save | .lookup | .rel => true
  | _ => false

theorem inCS_holds (p : Pc) (h : inCS p = true) : holds p = true := by
  cases p <;> simp_all [inCS, holds]

structure Inv (s : St) : Prop where
  i1 : ∀ i, holds (s.thr i).pc = true → s.heap (s.thr i).my = ⟨some (.req i), 1⟩
  i2 : ∀ i, inCS (s.thr i).pc = true → s.table = some (s.thr i).my
  i3 : ∀ i, (s.thr i).pc = .rel → (s.thr i).r = (s.thr i).my
  i4 : ∀ l i, (s.heap l).owner = some (.req i) → holds (s.thr i).pc = true ∧ (s.thr i).my = l
  s1 : s.sw.pc = .try_ → s.table = some s.sw.lk
  s2 : s.sw.pc = .pop → s.table = some s.sw.lk
  s3 : (s.sw.pc = .pop ∨ s.sw.pc = .rel) → s.heap s.sw.lk = ⟨some .sweep, 1⟩
  s4 : ∀ l, (s.heap l).owner = some .sweep → (s.sw.pc = .pop ∨ s.sw.pc = .rel) ∧ s.sw.lk = l
  s5 : (s.sw.pc = .chk ∨ (s.sw.pc = .get ∧ s.sw.second = true)) → s.table ≠ none
  s6 : s.sw.pc = .del → s.sw.second = false
  s7 : ∀ l d, (s.heap l).owner ≠ some (.tick d)
  c1 : ∀ i, (s.thr i).pc ≠ .crashed
  c2 : s.sw.pc ≠ .crashed
  l1 : s.lost = false
  l2 : ∀ i, (s.thr i).pc = .write → (s.thr i).seen = s.version

macro "inv_close" : tactic =>
  `(tactic| (refine ⟨?_, ?_, ?_, ?_, ?_, ?_, ?_, ?_, ?_, ?_, ?_, ?_, ?_, ?_, ?_⟩ <;>
      simp only [setThr_thr, setThr_heap, setLock_heap, setThr_table, setLock_table, setLock_thr,
        setThr_sw, setLock_sw, setThr_lost, setLock_lost, setThr_version, setLock_version,
        setSw_sw, setSw_thr, setSw_heap, setSw_table, setSw_lost, setSw_version] <;>
      grind [holds, inCS, inCS_holds]))

theorem inv_req_init (s : St) (i : Nat) (h : Inv s) (hpc : (s.thr i).pc = .init) :
    Inv (stepReq .recheck s i) := by
  obtain ⟨i1, i2, i3, i4, s1, s2, s3, s4, s5, s6, s7, c1, c2, l1, l2⟩ := h
  unfold stepReq
  simp only [hpc]
  inv_close
theorem inv_req_setdef (s : St) (i : Nat) (h : Inv s) (hpc : (s.thr i).pc = .setdef) :
    Inv (stepReq .recheck s i) := by
  obtain ⟨i1, i2, i3, i4, s1, s2, s3, s4, s5, s6, s7, c1, c2, l1, l2⟩ := h
  unfold stepReq
  simp only [hpc]
  split <;> inv_close
theorem inv_req_acq (s : St) (i : Nat) (h : Inv s) (hpc : (s.thr i).pc = .acq) :
    Inv (stepReq .recheck s i) := by
  obtain ⟨i1, i2, i3, i4, s1, s2, s3, s4, s5, s6, s7, c1, c2, l1, l2⟩ := h
  unfold stepReq
  simp only [hpc]
  cases htry : tryAcquire s (s.thr i).my (.req i) with
  | none => exact ⟨i1, i2, i3, i4, s1, s2, s3, s4, s5, s6, s7, c1, c2, l1, l2⟩
  | some s' =>
    simp only []
    rcases tryAcquire_some htry with ⟨ho, rfl⟩ | ⟨ho, rfl⟩ <;> inv_close
theorem inv_req_chk (s : St) (i : Nat) (h : Inv s) (hpc : (s.thr i).pc = .chk) :
    Inv (stepReq .recheck s i) := by
  obtain ⟨i1, i2, i3, i4, s1, s2, s3, s4, s5, s6, s7, c1, c2, l1, l2⟩ := h
  unfold stepReq
  simp only [hpc]
  inv_close
theorem inv_req_rel0 (s : St) (i : Nat) (h : Inv s) (hpc : (s.thr i).pc = .rel0) :
    Inv (stepReq .recheck s i) := by
  obtain ⟨i1, i2, i3, i4, s1, s2, s3, s4, s5, s6, s7, c1, c2, l1, l2⟩ := h
  unfold stepReq
  simp only [hpc]
  cases hrel : release s (s.thr i).my (.req i) with
  | none =>
    have := release_none hrel
    have := i1 i (by simp [hpc, holds])
    simp_all
  | some s' =>
    simp only []
    obtain ⟨ho, rfl⟩ := release_some hrel
    have := i1 i (by simp [hpc, holds])
    inv_close
theorem inv_req_load (s : St) (i : Nat) (h : Inv s) (hpc : (s.thr i).pc = .load) :
    Inv (stepReq .recheck s i) := by
  obtain ⟨i1, i2, i3, i4, s1, s2, s3, s4, s5, s6, s7, c1, c2, l1, l2⟩ := h
  unfold stepReq
  simp only [hpc]
  split <;> (try split) <;> inv_close
theorem inv_req_write (s : St) (i : Nat) (h : Inv s) (hpc : (s.thr i).pc = .write) :
    Inv (stepReq .recheck s i) := by
  obtain ⟨i1, i2, i3, i4, s1, s2, s3, s4, s5, s6, s7, c1, c2, l1, l2⟩ := h
  unfold stepReq
  simp only [hpc]
  inv_close
theorem inv_req_save (s : St) (i : Nat) (h : Inv s) (hpc : (s.thr i).pc = .save) :
    Inv (stepReq .recheck s i) := by
  obtain ⟨i1, i2, i3, i4, s1, s2, s3, s4, s5, s6, s7, c1, c2, l1, l2⟩ := h
  unfold stepReq
  simp only [hpc]
  inv_close
theorem inv_req_lookup (s : St) (i : Nat) (h : Inv s) (hpc : (s.thr i).pc = .lookup) :
    Inv (stepReq .recheck s i) := by
  obtain ⟨i1, i2, i3, i4, s1, s2, s3, s4, s5, s6, s7, c1, c2, l1, l2⟩ := h
  unfold stepReq
  simp only [hpc]
  split <;> inv_close
theorem inv_req_rel (s : St) (i : Nat) (h : Inv s) (hpc : (s.thr i).pc = .rel) :
    Inv (stepReq .recheck s i) := by
  obtain ⟨i1, i2, i3, i4, s1, s2, s3, s4, s5, s6, s7, c1, c2, l1, l2⟩ := h
  unfold stepReq
  simp only [hpc]
  cases hrel : release s (s.thr i).r (.req i) with
  | none =>
    have := release_none hrel
    have := i1 i (by simp [hpc, holds])
    have := i3 i hpc
    simp_all
  | some s' =>
    simp only []
    obtain ⟨ho, rfl⟩ := release_some hrel
    have := i1 i (by simp [hpc, holds])
    have := i3 i hpc
    inv_close

theorem inv_stepReq (s : St) (i : Nat) (h : Inv s) : Inv (stepReq .recheck s i) := by
  cases hpc : (s.thr i).pc
  · exact inv_req_init s i h hpc
  · exact inv_req_setdef s i h hpc
  · exact inv_req_acq s i h hpc
  · exact inv_req_chk s i h hpc
  · exact inv_req_rel0 s i h hpc
  · exact inv_req_load s i h hpc
  · exact inv_req_write s i h hpc
  · exact inv_req_save s i h hpc
  · exact inv_req_lookup s i h hpc
  · exact inv_req_rel s i h hpc
  all_goals (unfold stepReq; simp only [hpc]; exact h)

theorem inv_sw_copy (s : St) (h : Inv s) (hpc : s.sw.pc = .copy) :
    Inv (stepSweep s) := by
  obtain ⟨i1, i2, i3, i4, s1, s2, s3, s4, s5, s6, s7, c1, c2, l1, l2⟩ := h
  unfold stepSweep
  simp only [hpc]
  split <;> (try split) <;> inv_close
theorem inv_sw_del (s : St) (h : Inv s) (hpc : s.sw.pc = .del) :
    Inv (stepSweep s) := by
  obtain ⟨i1, i2, i3, i4, s1, s2, s3, s4, s5, s6, s7, c1, c2, l1, l2⟩ := h
  unfold stepSweep
  simp only [hpc]
  inv_close
theorem inv_sw_get (s : St) (h : Inv s) (hpc : s.sw.pc = .get) :
    Inv (stepSweep s) := by
  obtain ⟨i1, i2, i3, i4, s1, s2, s3, s4, s5, s6, s7, c1, c2, l1, l2⟩ := h
  unfold stepSweep
  simp only [hpc]
  split <;> inv_close
theorem inv_sw_try (s : St) (h : Inv s) (hpc : s.sw.pc = .try_) :
    Inv (stepSweep s) := by
  obtain ⟨i1, i2, i3, i4, s1, s2, s3, s4, s5, s6, s7, c1, c2, l1, l2⟩ := h
  unfold stepSweep
  simp only [hpc]
  cases htry : tryAcquire s s.sw.lk .sweep with
  | none => simp only []; inv_close
  | some s' =>
    simp only []
    rcases tryAcquire_some htry with ⟨ho, rfl⟩ | ⟨ho, rfl⟩ <;> inv_close
theorem inv_sw_pop (s : St) (h : Inv s) (hpc : s.sw.pc = .pop) :
    Inv (stepSweep s) := by
  obtain ⟨i1, i2, i3, i4, s1, s2, s3, s4, s5, s6, s7, c1, c2, l1, l2⟩ := h
  unfold stepSweep
  simp only [hpc]
  split <;> inv_close
theorem inv_sw_rel (s : St) (h : Inv s) (hpc : s.sw.pc = .rel) :
    Inv (stepSweep s) := by
  obtain ⟨i1, i2, i3, i4, s1, s2, s3, s4, s5, s6, s7, c1, c2, l1, l2⟩ := h
  unfold stepSweep
  simp only [hpc]
  cases hrel : release s s.sw.lk .sweep with
  | none =>
    have := release_none hrel
    have := s3 (Or.inr hpc)
    simp_all
  | some s' =>
    simp only []
    obtain ⟨ho, rfl⟩ := release_some hrel
    have := s3 (Or.inr hpc)
    inv_close
theorem inv_sw_list (s : St) (h : Inv s) (hpc : s.sw.pc = .list) :
    Inv (stepSweep s) := by
  obtain ⟨i1, i2, i3, i4, s1, s2, s3, s4, s5, s6, s7, c1, c2, l1, l2⟩ := h
  unfold stepSweep
  simp only [hpc]
  inv_close
theorem inv_sw_chk (s : St) (h : Inv s) (hpc : s.sw.pc = .chk) :
    Inv (stepSweep s) := by
  obtain ⟨i1, i2, i3, i4, s1, s2, s3, s4, s5, s6, s7, c1, c2, l1, l2⟩ := h
  unfold stepSweep
  simp only [hpc]
  inv_close

theorem inv_stepSweep (s : St) (h : Inv s) : Inv (stepSweep s) := by
  cases hpc : s.sw.pc
  · exact inv_sw_copy s h hpc
  · exact inv_sw_del s h hpc
  · exact inv_sw_get s h hpc
  · exact inv_sw_try s h hpc
  · exact inv_sw_pop s h hpc
  · exact inv_sw_rel s h hpc
  · exact inv_sw_list s h hpc
  · exact inv_sw_chk s h hpc
  · unfold stepSweep; simp only [hpc]; exact h

theorem inv_step (s : St) (a : Actor) (h : Inv s) : Inv (step .recheck s a) := by
  cases a with
  | req i => exact inv_stepReq s i h
  | sweep => exact inv_stepSweep s h
  | tick d =>
    obtain ⟨i1, i2, i3, i4, s1, s2, s3, s4, s5, s6, s7, c1, c2, l1, l2⟩ := h
    exact ⟨i1, i2, i3, i4, s1, s2, s3, s4, s5, s6, s7, c1, c2, l1, l2⟩

theorem inv_init (c : Option (Nat × Nat)) (tbl : Bool) (now : Nat) : Inv (init c tbl now) := by
  refine ⟨?_, ?_, ?_, ?_, ?_, ?_, ?_, ?_, ?_, ?_, ?_, ?_, ?_, ?_, ?_⟩ <;> simp [init, holds, inCS]

theorem inv_run (s : St) (sched : List Actor) (h : Inv s) : Inv (run .recheck s sched) := by
  induction sched generalizing s with
  | nil => exact h
  | cons a rest ih => exact ih _ (inv_step s a h)

end CpProofs.C13
