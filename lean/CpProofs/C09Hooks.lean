import CpModel.Hooks
/-!
  C09, part 1 — `HookMap.run` / `run_hooks`: priority order, fail-safe continuation, exactly once.

  All theorems quantify over *every* hook list (any length, any priorities, any fail-safe bits, any
  outcomes — so also second and further failures inside the fail-safe continuation).
-/
namespace CpProofs.C09
open CpModel.Hooks

/-! ### the priority sort -/

theorem insertByPrio_perm (a : Hook) (l : List Hook) : (insertByPrio a l).Perm (a :: l) := by
  induction l with
  | nil => exact List.Perm.refl _
  | cons y ys ih =>
    simp only [insertByPrio]
    split
    · exact List.Perm.refl _
    · exact (List.Perm.cons y ih).trans (List.Perm.swap a y ys)

/-- `sorted(...)` is a permutation of the attached hooks: nothing lost, nothing duplicated. -/
theorem sortByPrio_perm (l : List Hook) : (sortByPrio l).Perm l := by
  induction l with
  | nil => exact List.Perm.refl _
  | cons x xs ih => exact (insertByPrio_perm x _).trans (List.Perm.cons x ih)

def Sorted : List Hook → Prop
  | [] => True
  | [_] => True
  | a :: b :: rest => a.prio ≤ b.prio ∧ Sorted (b :: rest)

theorem insertByPrio_sorted (a : Hook) (l : List Hook) (h : Sorted l) : Sorted (insertByPrio a l) := by
  induction l with
  | nil => simp [insertByPrio, Sorted]
  | cons y ys ih =>
    simp only [insertByPrio]
    split
    · exact ⟨by assumption, h⟩
    · rename_i hlt
      have hya : y.prio ≤ a.prio := by omega
      cases ys with
      | nil => simp [insertByPrio, Sorted]; omega
      | cons z zs =>
        have hs : Sorted (z :: zs) := h.2
        have := ih hs
        simp only [insertByPrio] at this ⊢
        split
        · exact ⟨hya, by assumption, hs⟩
        · rename_i h2
          simp only [h2, if_false] at this
          exact ⟨h.1, this⟩

/-- ascending priority order -/
theorem sortByPrio_sorted (l : List Hook) : Sorted (sortByPrio l) := by
  induction l with
  | nil => trivial
  | cons x xs ih => exact insertByPrio_sorted x _ ih

theorem insertByPrio_filter (p : Nat) (a : Hook) (l : List Hook) (h : Sorted l) :
    (insertByPrio a l).filter (·.prio = p) =
      if a.prio = p then a :: l.filter (·.prio = p) else l.filter (·.prio = p) := by
  induction l with
  | nil => simp [insertByPrio, List.filter]; split <;> simp_all
  | cons y ys ih =>
    have hs : Sorted ys := by
      cases ys with
      | nil => trivial
      | cons z zs => exact h.2
    simp only [insertByPrio]
    split
    · simp [List.filter]; split <;> simp_all
    · rename_i hlt
      have hya : y.prio < a.prio := by omega
      rw [List.filter_cons, ih hs]
      by_cases hap : a.prio = p
      · have : ¬ y.prio = p := by omega
        simp [hap, this]
      · simp [hap, List.filter_cons]

/-- ties keep attachment order: the sort is stable (the hooks of any one priority appear in the
    order in which they were attached) -/
theorem sortByPrio_stable (l : List Hook) (p : Nat) :
    (sortByPrio l).filter (·.prio = p) = l.filter (·.prio = p) := by
  induction l with
  | nil => rfl
  | cons x xs ih =>
    simp only [sortByPrio]
    rw [insertByPrio_filter p x _ (sortByPrio_sorted xs), ih, List.filter_cons]
    by_cases h : x.prio = p <;> simp [h]

/-! ### `run_hooks` -/

/-- the callback raises -/
def failing (h : Hook) : Bool := h.out.raised.isSome

/-- What the statement demands of a run over the (sorted) list: everything up to and including the
    first failing hook, then exactly the fail-safe ones among the rest. -/
def demanded : List Hook → List Hook
  | [] => []
  | h :: rest => if failing h then h :: rest.filter (·.failsafe) else h :: demanded rest

/-- position of the first failing hook -/
def firstFail : List Hook → Option Nat
  | [] => none
  | h :: rest => if failing h then some 0 else (firstFail rest).map (· + 1)

/-- `demanded` in the words of the property statement. -/
theorem demanded_eq (l : List Hook) :
    demanded l = match firstFail l with
      | none => l
      | some k => l.take (k + 1) ++ (l.drop (k + 1)).filter (·.failsafe) := by
  induction l with
  | nil => rfl
  | cons h rest ih =>
    simp only [demanded, firstFail]
    by_cases hf : failing h = true
    · simp [hf]
    · simp only [hf, Bool.false_eq_true, if_false, ih]
      cases firstFail rest <;> simp

/-- the recursive call on `safe = filter(failsafe, hooks)`: every fail-safe hook that is left, once,
    in order, whatever any of them raises -/
theorem runHooks_safe (l : List Hook) : (runHooks true l).1 = l.filter (·.failsafe) := by
  induction l with
  | nil => rfl
  | cons h rest ih =>
    simp only [runHooks]
    by_cases hs : h.failsafe = true
    · simp only [hs, Bool.not_true, Bool.and_false, Bool.false_eq_true, if_false, List.filter_cons, if_true]
      split <;> simp [ih]
    · simp [hs, ih]

theorem runHooks_normal (l : List Hook) : (runHooks false l).1 = demanded l := by
  induction l with
  | nil => rfl
  | cons h rest ih =>
    simp only [runHooks, demanded, failing, Bool.false_and, Bool.false_eq_true, if_false]
    split
    · rename_i hr; simp [hr, ih]
    · rename_i e hr; simp [hr, runHooks_safe]

/-- **C09_failsafe**: with `k` the position of the first failing hook in the sorted list, the hooks
    called are `sorted[:k+1] ++ [h for h in sorted[k+1:] if h.failsafe]` (all of `sorted` when none
    fails) — each position once, ordinary hooks after `k` not at all. -/
theorem C09_failsafe (hooks : List Hook) :
    (run hooks).1 = match firstFail (sortByPrio hooks) with
      | none => sortByPrio hooks
      | some k => (sortByPrio hooks).take (k + 1) ++ ((sortByPrio hooks).drop (k + 1)).filter (·.failsafe) := by
  simp only [run, runHooks_normal, demanded_eq]

theorem demanded_sublist (l : List Hook) : (demanded l).Sublist l := by
  induction l with
  | nil => exact List.Sublist.refl _
  | cons h rest ih =>
    simp only [demanded]
    split
    · exact (List.filter_sublist).cons_cons h
    · exact ih.cons_cons h

/-- **C09_order**: the hooks called at a point are a subsequence of the attached hooks sorted by
    ascending priority with ties in attachment order (`sortByPrio_sorted`, `sortByPrio_stable`,
    `sortByPrio_perm` say that `sortByPrio` is that order). -/
theorem C09_order (hooks : List Hook) :
    (run hooks).1.Sublist (sortByPrio hooks) ∧ Sorted (sortByPrio hooks)
      ∧ (sortByPrio hooks).Perm hooks
      ∧ ∀ p, (sortByPrio hooks).filter (·.prio = p) = hooks.filter (·.prio = p) := by
  refine ⟨?_, sortByPrio_sorted _, sortByPrio_perm _, sortByPrio_stable _⟩
  simp only [run, runHooks_normal]
  exact demanded_sublist _

theorem count_demanded_failsafe (l : List Hook) (h : Hook) (hs : h.failsafe = true) :
    (demanded l).count h = l.count h := by
  induction l with
  | nil => rfl
  | cons x rest ih =>
    simp only [demanded]
    split
    · simp only [List.count_cons]
      congr 1
      rw [List.count_filter]
      simpa using hs
    · simp [List.count_cons, ih]

/-- **exactly once**: a fail-safe hook is called exactly as often as it is attached (once, when it is
    attached once), whatever the other hooks — before or after it, fail-safe or not — do. -/
theorem C09_failsafe_exactly_once (hooks : List Hook) (h : Hook) (hs : h.failsafe = true) :
    (run hooks).1.count h = hooks.count h := by
  simp only [run, runHooks_normal]
  rw [count_demanded_failsafe _ _ hs]
  exact (sortByPrio_perm hooks).count_eq h

/-- non-vacuity: a list with a failing ordinary hook first, a failing fail-safe hook and an ordinary
    hook after it -/
example : (run [⟨1, 50, false, .exc⟩, ⟨2, 50, true, .httpError 404⟩, ⟨3, 50, false, .ok⟩, ⟨4, 10, true, .ok⟩]).1.map (·.id)
    = [4, 1, 2] := by decide

/-- no hook is called more often than it is attached -/
theorem C09_at_most_once (hooks : List Hook) (h : Hook) : (run hooks).1.count h ≤ hooks.count h := by
  have := (C09_order hooks).1.count_le h
  rwa [(sortByPrio_perm hooks).count_eq h] at this

/-- **ordinary hooks after the first failure do not run**: the called hooks split into the sorted
    prefix up to the first failure and a continuation consisting of fail-safe hooks only. -/
theorem C09_ordinary_after_failure_skipped (hooks : List Hook) (k : Nat)
    (hk : firstFail (sortByPrio hooks) = some k) :
    ∃ cont, (run hooks).1 = (sortByPrio hooks).take (k + 1) ++ cont
      ∧ cont.Sublist ((sortByPrio hooks).drop (k + 1)) ∧ ∀ h ∈ cont, h.failsafe = true := by
  refine ⟨((sortByPrio hooks).drop (k + 1)).filter (·.failsafe), ?_, List.filter_sublist, ?_⟩
  · rw [C09_failsafe, hk]
  · intro h hm
    simpa using (List.mem_filter.mp hm).2

example : firstFail (sortByPrio [⟨1, 50, false, .exc⟩, ⟨4, 10, true, .ok⟩]) = some 1 := by decide

/-- the exception of the last failing hook among a list -/
def lastRaised : List Hook → Option Exn
  | [] => none
  | h :: rest => match lastRaised rest with
    | some e => some e
    | none => h.out.raised

theorem runHooks_exn (b : Bool) (l : List Hook) : (runHooks b l).2 = lastRaised (runHooks b l).1 := by
  induction l generalizing b with
  | nil => rfl
  | cons h rest ih =>
    simp only [runHooks]
    split
    · exact ih b
    · cases hr : h.out.raised with
      | none =>
        simp only [lastRaised, hr]
        rw [ih b]
        cases lastRaised (runHooks b rest).1 <;> rfl
      | some e =>
        simp only [lastRaised, hr]
        rw [ih true]
        cases lastRaised (runHooks true rest).1 <;> rfl

/-- **the last exception propagates**: what leaves `hooks.run(point)` is the exception raised by the
    last failing hook among those called (second failures inside the fail-safe continuation replace
    the first), and nothing when no called hook failed. -/
theorem C09_last_exception_propagates (hooks : List Hook) :
    (run hooks).2 = lastRaised (run hooks).1 := runHooks_exn _ _

theorem demanded_no_failure (l : List Hook) (h : ∀ x ∈ l, failing x = false) : demanded l = l := by
  induction l with
  | nil => rfl
  | cons x rest ih =>
    have hx := h x (by simp)
    simp only [demanded, hx, Bool.false_eq_true, if_false]
    rw [ih (fun y hy => h y (by simp [hy]))]

theorem lastRaised_no_failure (l : List Hook) (h : ∀ x ∈ l, failing x = false) : lastRaised l = none := by
  induction l with
  | nil => rfl
  | cons x rest ih =>
    have hx := h x (by simp)
    simp only [lastRaised, ih (fun y hy => h y (by simp [hy]))]
    simpa [failing] using hx

/-- when no attached hook fails, all of them run, in sorted order, and nothing propagates -/
theorem C09_no_failure_all_run (hooks : List Hook) (h : ∀ x ∈ hooks, failing x = false) :
    run hooks = (sortByPrio hooks, none) := by
  have hs : ∀ x ∈ sortByPrio hooks, failing x = false :=
    fun x hx => h x ((sortByPrio_perm hooks).mem_iff.mp hx)
  have h1 : (run hooks).1 = sortByPrio hooks := by
    simp only [run, runHooks_normal]; exact demanded_no_failure _ hs
  have h2 : (run hooks).2 = none := by
    rw [C09_last_exception_propagates, h1]; exact lastRaised_no_failure _ hs
  exact Prod.ext h1 h2

/-- a failing hook makes the run fail: an exception propagates iff some called hook raised -/
theorem run_fails_iff (hooks : List Hook) :
    (run hooks).2.isSome = (sortByPrio hooks).any failing := by
  rw [C09_last_exception_propagates]
  simp only [run, runHooks_normal]
  induction sortByPrio hooks with
  | nil => rfl
  | cons x rest ih =>
    simp only [demanded, List.any_cons]
    by_cases hx : failing x = true
    · simp only [hx, if_true, Bool.true_or, lastRaised]
      cases lastRaised (rest.filter (·.failsafe)) with
      | some e => rfl
      | none => simpa [failing] using hx
    · simp only [hx, Bool.false_eq_true, if_false, lastRaised, Bool.false_or]
      rw [← ih]
      cases lastRaised (demanded rest) with
      | some e => rfl
      | none => simpa [failing] using hx

end CpProofs.C09
