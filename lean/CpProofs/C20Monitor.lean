import CpModel.Monitor
/-!
  C20, part M: inductive invariant of the Monitor/BackgroundTask interleaving model, over ALL
  schedules, ALL controller call sequences, any number of workers.

  `Reach p calls c` – `c` is reachable from `init calls` by steps of arbitrary threads, where in the
  `asIs` protocol the one step that loses a cancel (`earlyCancel`: `cancel()` executed while the
  target worker has not yet executed its own `self.running = True`) is excluded.  In the `fixed`
  protocol no step is excluded (`okStep` is identically true), so the theorems for `fixed` are
  about every schedule.
-/
namespace CpProofs.C20
open CpModel.Monitor

def okStep (p : Params) (c : Cfg) (t : Tid) : Bool :=
  p.mode = .fixed || !earlyCancel c t

inductive Reach (p : Params) (calls : List Call) : Cfg → Prop where
  | init : Reach p calls (init calls)
  | step {c : Cfg} (t : Tid) : Reach p calls c → okStep p c t = true → Reach p calls (step p c t)

/-- Reachability without any restriction on the schedule. -/
inductive ReachAll (p : Params) (calls : List Call) : Cfg → Prop where
  | init : ReachAll p calls (init calls)
  | step {c : Cfg} (t : Tid) : ReachAll p calls c → ReachAll p calls (step p c t)

theorem reachAll_fixed {p : Params} {calls : List Call} {c : Cfg} (hp : p.mode = .fixed)
    (h : ReachAll p calls c) : Reach p calls c := by
  induction h with
  | init => exact .init
  | step t _ ih => exact .step t ih (by simp [okStep, hp])

/-- `active` as a proposition -/
def Act (p : Params) (w : Worker) : Prop :=
  w.running = true ∨ (p.mode = .asIs ∧ (w.pc = .held ∨ w.pc = .arm))

theorem active_iff (p : Params) (w : Worker) : active p w = true ↔ Act p w := by
  simp [active, Act]

/-- the worker `k` is the current, armed, started-or-being-started one -/
def Cur (p : Params) (c : Cfg) (k : Nat) : Prop :=
  c.thread = some k ∧ Act p (c.ws k) ∧ (c.ws k).pc ≠ .created

/-- frame bookkeeping: which top-level call a `start` frame belongs to -/
def InStart (c : Cfg) : Prop :=
  (c.g = .none ∧ c.cur = some .start) ∨ (c.g = .inStart ∧ c.cur = some .graceful)
def InStop (c : Cfg) : Prop :=
  (c.g = .none ∧ c.cur = some .stop) ∨ (c.g = .inStop ∧ c.cur = some .graceful)

/-- what is known at each controller line -/
def ctlInv (p : Params) (c : Cfg) : Prop :=
  match c.cpc with
  | .st2 | .st3 | .st4 =>
    InStart c ∧ c.cancelled = none ∧ ∀ k, c.thread = some k → Cur p c k
  | .st5a | .st6 | .st5b => InStart c ∧ c.cancelled = none ∧ c.thread = none
  | .st7 | .st8 =>
    InStart c ∧ c.cancelled = none ∧
      ∃ k, c.thread = some k ∧ (c.ws k).pc = .created ∧ (c.ws k).running = false
  | .bs7 =>
    InStart c ∧ c.cancelled = none ∧ p.mode = .fixed ∧
      c.thread = some c.tgt ∧ (c.ws c.tgt).pc = .created ∧ (c.ws c.tgt).running = false
  | .bs8 =>
    InStart c ∧ c.cancelled = none ∧ p.mode = .fixed ∧
      c.thread = some c.tgt ∧ (c.ws c.tgt).pc = .created ∧ (c.ws c.tgt).running = true
  | .st9 | .st11 => InStart c ∧ c.cancelled = none ∧ ∃ k, Cur p c k
  | .sp2 => InStop c ∧ c.cancelled = none ∧ ∀ k, c.thread = some k → Cur p c k
  | .sp3a | .sp4 | .sp3b => InStop c ∧ c.cancelled = none ∧ c.thread = none
  | .sp6 | .sp7 | .sp8 => InStop c ∧ c.cancelled = none ∧ ∃ k, Cur p c k
  | .cn2 => InStop c ∧ c.cancelled = none ∧ c.thread = some c.tgt ∧ (c.ws c.tgt).pc ≠ .created
  | .sp9 =>
    InStop c ∧ ∃ k, c.thread = some k ∧ c.cancelled = some k ∧ ¬ Act p (c.ws k) ∧
      (c.ws k).pc ≠ .created
  | .sp10 | .sp11 =>
    InStop c ∧ p.daemon = false ∧ ∃ k, c.thread = some k ∧ c.cancelled = some k ∧
      ¬ Act p (c.ws k) ∧ (c.ws k).pc ≠ .created
  | .sp11w =>
    InStop c ∧ p.daemon = false ∧ c.thread = some c.tgt ∧ c.cancelled = some c.tgt ∧
      ¬ Act p (c.ws c.tgt) ∧ (c.ws c.tgt).pc ≠ .created
  | .sp12 | .sp13 =>
    InStop c ∧ ∃ k, c.thread = some k ∧ c.cancelled = some k ∧ ¬ Act p (c.ws k) ∧
      (c.ws k).pc ≠ .created ∧ (p.daemon = false → (c.ws k).pc = .done)
  | .gr2 => c.g = .none ∧ c.cur = some .graceful ∧ c.cancelled = none ∧
      ∀ k, c.thread = some k → Cur p c k
  | .gr3 => c.g = .inStop ∧ c.cur = some .graceful ∧ c.cancelled = none ∧ c.thread = none
  | .done => c.cancelled = none ∧ ∀ k, c.thread = some k → Cur p c k
  | .crashed => False

/-- the controller is between two top-level calls (or finished): it stands before the first line
    of the next call -/
def atBoundary (c : Cfg) : Prop :=
  c.cpc = .done ∨ (c.g = .none ∧ (c.cpc = .st2 ∨ c.cpc = .sp2 ∨ c.cpc = .gr2))

/-- what the last returned top-level call left behind -/
def lastOk (p : Params) (c : Cfg) : Prop :=
  match c.lastRet with
  | some .stop => c.thread = none
  | some _ => p.freqPos = true → ∃ k, Cur p c k
  | none => True

structure Inv (p : Params) (c : Cfg) : Prop where
  ctl : ctlInv p c
  /-- only the worker `Monitor.thread` points at can be armed -/
  g1 : ∀ i, Act p (c.ws i) → c.thread = some i
  /-- a worker whose `stop()` has returned is disarmed and invokes the callback at most once more -/
  g2 : ∀ i, (c.ws i).stopRet = true →
        ¬ Act p (c.ws i) ∧ (c.ws i).pc ≠ .created ∧ (c.ws i).after ≤ 1 ∧
        ((c.ws i).after = 1 → (c.ws i).pc = .loop ∨ (c.ws i).pc = .done) ∧
        (p.daemon = false → (c.ws i).pc = .done ∧ (c.ws i).after = 0)
  g3 : ∀ i, (c.ws i).stopRet = false → (c.ws i).after = 0
  /-- an armed worker has not left (and is not about to leave) `run`, unless its callback raised -/
  g4 : ∀ i, Act p (c.ws i) → (c.ws i).pc ≠ .ret ∧ ((c.ws i).pc = .done → (c.ws i).crashed = true)
  g5 : ∀ i, c.nw ≤ i → c.ws i = {}
  g5' : ∀ k, c.thread = some k → k < c.nw
  g7 : ∀ k, c.thread = some k → (c.ws k).stopRet = false
  g8 : p.mode = .fixed → ∀ i, (c.ws i).pc ≠ .arm
  /-- a worker whose callback raised has left `run` -/
  g9 : ∀ i, (c.ws i).crashed = true → (c.ws i).pc = .done
  /-- the second controller is idle: the controller calls do not overlap (the property's quantifier) -/
  g10 : c.c2.cpc = .done
  b : atBoundary c → lastOk p c


theorem ctlInv_setW {p : Params} {c : Cfg} (i : Nat) (w' : Worker)
    (hact : Act p w' ↔ Act p (c.ws i))
    (hne : (c.ws i).pc ≠ .created) (hne' : w'.pc ≠ .created) (hnd : (c.ws i).pc ≠ .done)
    (h : ctlInv p c) : ctlInv p (setW c i w') := by
  unfold ctlInv at h ⊢
  simp only [setW, Cur, InStart, InStop] at h ⊢
  cases hpc : c.cpc <;> simp only [hpc] at h ⊢ <;> grind

/-- What one step of a worker may change (abstracted from the program counter). -/
structure WStep (p : Params) (w w' : Worker) : Prop where
  act : Act p w' ↔ Act p w
  ne : w.pc ≠ .created
  ne' : w'.pc ≠ .created
  nd : w.pc ≠ .done
  sr : w'.stopRet = w.stopRet
  aft : w'.after = w.after ∨
    (w.pc = .call ∧ w.stopRet = true ∧ w'.after = w.after + 1 ∧ (w'.pc = .loop ∨ w'.pc = .done))
  lp : w.pc = .loop → w.running = false → w'.pc = .done ∧ w'.after = w.after
  rt : (w'.pc = .ret ∨ (w'.pc = .done ∧ w'.crashed = false)) → ¬ Act p w'
  fx : p.mode = .fixed → w'.pc ≠ .arm
  cr : w'.crashed = true → w'.pc = .done

theorem inv_setW {p : Params} {c : Cfg} (i : Nat) (w' : Worker) (h : Inv p c) (hlt : i < c.nw)
    (s : WStep p (c.ws i) w') : Inv p (setW c i w') := by
  obtain ⟨hctl, g1, g2, g3, g4, g5, g5', g7, g8, g9, g10, b⟩ := h
  obtain ⟨act, ne, ne', nd, sr, aft, lp, rt, fx, cr⟩ := s
  have g1i := g1 i; have g2i := g2 i; have g3i := g3 i; have g4i := g4 i
  refine ⟨ctlInv_setW i _ act ne ne' nd hctl, ?_, ?_, ?_, ?_, ?_, ?_, ?_, ?_, ?_, g10, ?_⟩
  all_goals simp only [setW, atBoundary, lastOk, Cur] at g1 g2 g3 g4 g5 g5' g7 g8 g9 b g1i g2i g3i g4i ⊢
  · grind
  · intro j; by_cases hj : j = i
    · subst hj; simp only [if_true]; simp only [Act] at *; grind
    · simp only [hj, if_false]; exact g2 j
  · grind
  · grind
  · grind
  · grind
  · grind
  · grind
  · grind
  · intro hb; have := b hb; split at this <;> grind

theorem inv_stepW {p : Params} {c : Cfg} (i : Nat) (boom : Bool) (h : Inv p c)
    (hen : enabled c (.w i) = true) : Inv p (stepW p c i boom) := by
  have g4i := h.g4 i; have g8i := fun hm => h.g8 hm i; have g2i := h.g2 i; have g9i := h.g9 i
  simp only [enabled, Bool.and_eq_true, decide_eq_true_eq, ne_eq] at hen
  obtain ⟨⟨hlt, hne⟩, hnd⟩ := hen
  unfold stepW
  cases hm : p.mode <;> cases hpc : (c.ws i).pc <;> simp only [hpc] at hne hnd ⊢
  all_goals first
    | contradiction
    | (apply inv_setW i _ h hlt
       constructor <;> simp only [Act, hpc, hm] at g4i g8i g2i g9i ⊢ <;> grind)

/-- the part of the invariant that only depends on `thread`, `ws`, `nw` -/
def Glob (p : Params) (c : Cfg) : Prop :=
  (∀ i, Act p (c.ws i) → c.thread = some i) ∧
  (∀ i, (c.ws i).stopRet = true →
        ¬ Act p (c.ws i) ∧ (c.ws i).pc ≠ .created ∧ (c.ws i).after ≤ 1 ∧
        ((c.ws i).after = 1 → (c.ws i).pc = .loop ∨ (c.ws i).pc = .done) ∧
        (p.daemon = false → (c.ws i).pc = .done ∧ (c.ws i).after = 0)) ∧
  (∀ i, (c.ws i).stopRet = false → (c.ws i).after = 0) ∧
  (∀ i, Act p (c.ws i) → (c.ws i).pc ≠ .ret ∧ ((c.ws i).pc = .done → (c.ws i).crashed = true)) ∧
  (∀ i, c.nw ≤ i → c.ws i = {}) ∧
  (∀ k, c.thread = some k → k < c.nw) ∧
  (∀ k, c.thread = some k → (c.ws k).stopRet = false) ∧
  (p.mode = .fixed → ∀ i, (c.ws i).pc ≠ .arm) ∧
  (∀ i, (c.ws i).crashed = true → (c.ws i).pc = .done) ∧
  c.c2.cpc = .done

theorem Inv.glob {p : Params} {c : Cfg} (h : Inv p c) : Glob p c :=
  ⟨h.g1, h.g2, h.g3, h.g4, h.g5, h.g5', h.g7, h.g8, h.g9, h.g10⟩

theorem Inv.ofGlob {p : Params} {c : Cfg} (G : Glob p c) (hctl : ctlInv p c)
    (hb : atBoundary c → lastOk p c) : Inv p c := by
  obtain ⟨g1, g2, g3, g4, g5, g5', g7, g8, g9, g10⟩ := G
  exact ⟨hctl, g1, g2, g3, g4, g5, g5', g7, g8, g9, g10, hb⟩

theorem glob_of_same {p : Params} {c c' : Cfg} (G : Glob p c)
    (h1 : c'.thread = c.thread) (h2 : c'.ws = c.ws) (h3 : c'.nw = c.nw)
    (h4 : c'.c2 = c.c2 := by rfl) : Glob p c' := by
  simp only [Glob, h1, h2, h3, h4]; exact G

theorem inv_of_same {p : Params} {c c' : Cfg} (G : Glob p c)
    (h1 : c'.thread = c.thread) (h2 : c'.ws = c.ws) (h3 : c'.nw = c.nw)
    (hctl : ctlInv p c') (hb : atBoundary c' → lastOk p c') (h4 : c'.c2 = c.c2 := by rfl) : Inv p c' :=
  Inv.ofGlob (glob_of_same G h1 h2 h3 h4) hctl hb

theorem lastOk_congr {p : Params} {c c' : Cfg} (h1 : c'.thread = c.thread) (h2 : c'.ws = c.ws)
    (h3 : c'.lastRet = c.lastRet) : lastOk p c' ↔ lastOk p c := by
  simp only [lastOk, Cur, h1, h2, h3]

/-- returning from a top-level call -/
theorem inv_retTop {p : Params} {c : Cfg} (G : Glob p c) (hc : c.cancelled = none)
    (hcur : ∀ k, c.thread = some k → Cur p c k)
    (hl : lastOk p { c with lastRet := c.cur }) : Inv p (retTop c) := by
  unfold retTop enter
  split
  all_goals
    refine @inv_of_same p c _ G rfl rfl rfl ?_ ?_ rfl
    · simp only [ctlInv, InStart, InStop, Cur] at *; grind
    · intro _; exact (lastOk_congr rfl rfl rfl).mpr hl

theorem inv_retStart {p : Params} {c : Cfg} (G : Glob p c) (hc : c.cancelled = none)
    (hs : InStart c) (hcur : ∀ k, c.thread = some k → Cur p c k)
    (hex : p.freqPos = true → ∃ k, Cur p c k) : Inv p (retStart c) := by
  have : retStart c = retTop c := by unfold retStart; split <;> rfl
  rw [this]
  apply inv_retTop G hc hcur
  simp only [lastOk, InStart, Cur] at *
  rcases hs with ⟨_, h2⟩ | ⟨_, h2⟩ <;> simp only [h2] <;> exact hex

/-- marking the worker a finished `stop()` cancelled -/
theorem glob_mark {p : Params} {c : Cfg} (G : Glob p c) (k : Nat) (ht : c.thread = none)
    (h1 : (c.ws k).stopRet = false) (h2 : ¬ Act p (c.ws k)) (h3 : (c.ws k).pc ≠ .created)
    (h4 : p.daemon = false → (c.ws k).pc = .done) :
    Glob p { setW c k { c.ws k with stopRet := true } with cancelled := none } := by
  obtain ⟨g1, g2, g3, g4, g5, g5', g7, g8, g9, g10⟩ := G
  have g3k := g3 k h1
  simp only [Glob, setW, Act] at *
  refine ⟨?_, ?_, ?_, ?_, ?_, ?_, ?_, ?_, ?_, g10⟩
  · grind
  · intro j; by_cases hj : j = k
    · subst hj; simp only [if_true]; grind
    · simp only [hj, if_false]; exact g2 j
  · grind
  · grind
  · intro j hj; by_cases hjk : j = k
    · subst hjk; have := g5 j hj; rw [this] at h3; simp at h3
    · simp only [hjk, if_false]; exact g5 j hj
  · grind
  · grind
  · grind
  · grind

theorem inv_retStop {p : Params} {c : Cfg} (G : Glob p c) (hs : InStop c) (ht : c.thread = none)
    (hcn : ∀ k, c.cancelled = some k → (c.ws k).stopRet = false ∧ ¬ Act p (c.ws k) ∧
      (c.ws k).pc ≠ .created ∧ (p.daemon = false → (c.ws k).pc = .done)) :
    Inv p (retStop c) := by
  unfold retStop
  cases hcan : c.cancelled with
  | none =>
    simp only []
    split
    · refine @inv_of_same p c _ G rfl rfl rfl ?_ ?_ rfl
      · simp only [ctlInv, InStop] at *; grind
      · simp [atBoundary]
    · apply inv_retTop G hcan (by simp [ht])
      simp only [lastOk, InStop] at *; grind
  | some k =>
    obtain ⟨h1, h2, h3, h4⟩ := hcn k hcan
    have G' := glob_mark G k ht h1 h2 h3 h4
    simp only []
    split
    · refine Inv.ofGlob (glob_of_same G' rfl rfl rfl) ?_ ?_
      · simp only [ctlInv, InStop, setW] at *; grind
      · simp [atBoundary]
    · apply inv_retTop G' rfl (by simp [setW, ht])
      simp only [lastOk, InStop, setW] at *; grind

/-- a controller line that touches neither `thread` nor any worker -/
macro "pc_only" h:ident hctl:ident hpc:ident : tactic => `(tactic|
  (refine @inv_of_same _ _ _ (Inv.glob $h) rfl rfl rfl ?_ ?_ rfl
   · (simp only [ctlInv, $hpc:ident, InStart, InStop, Cur] at $hctl:ident ⊢; grind)
   · (simp only [ctlInv, $hpc:ident, atBoundary, InStart, InStop] at $hctl:ident ⊢; grind)))

/-- a controller line that updates a worker or `thread`: all fields by brute force -/
macro "upd" G:ident hctl:ident hpc:ident : tactic => `(tactic|
  (obtain ⟨g1, g2, g3, g4, g5, g5', g7, g8, g9, g10⟩ := $G:ident
   simp only [ctlInv, $hpc:ident, InStart, InStop, Cur, Act] at $hctl:ident
   refine Inv.ofGlob ⟨?_, ?_, ?_, ?_, ?_, ?_, ?_, ?_, ?_, g10⟩ ?_ ?_
   all_goals simp only [ctlInv, setW, atBoundary, InStart, InStop, Cur, Act] at g1 g2 g3 g4 g5 g5' g7 g8 g9 ⊢
   all_goals grind))

theorem inv_stepCtl {p : Params} {c : Cfg} (h : Inv p c)
    (hen : enabled c .ctl = true) (hok : okStep p c .ctl = true) : Inv p (stepCtl p c) := by
  have hctl := h.ctl
  have G := h.glob
  unfold stepCtl
  cases hpc : c.cpc <;> simp only []
  case st2 =>
    split
    · pc_only h hctl hpc
    · simp only [ctlInv, hpc] at hctl
      exact inv_retStart G hctl.2.1 hctl.1 hctl.2.2 (by simp_all)
  case st3 => pc_only h hctl hpc
  case st4 => split <;> pc_only h hctl hpc
  case st5a => pc_only h hctl hpc
  case st6 => pc_only h hctl hpc
  case st5b => upd G hctl hpc
  case st7 => split <;> pc_only h hctl hpc
  case st8 =>
    split
    · pc_only h hctl hpc
    · split
      · split
        · upd G hctl hpc
        · exfalso; simp only [ctlInv, hpc] at hctl; grind
      · pc_only h hctl hpc
  case bs7 => upd G hctl hpc
  case bs8 =>
    split
    · upd G hctl hpc
    · exfalso; simp only [ctlInv, hpc] at hctl; grind
  case st9 =>
    simp only [ctlInv, hpc] at hctl
    exact inv_retStart G hctl.2.1 hctl.1 (by grind [Cur]) (fun _ => hctl.2.2)
  case st11 =>
    simp only [ctlInv, hpc] at hctl
    exact inv_retStart G hctl.2.1 hctl.1 (by grind [Cur]) (fun _ => hctl.2.2)
  case sp2 => split <;> pc_only h hctl hpc
  case sp3a => pc_only h hctl hpc
  case sp4 => pc_only h hctl hpc
  case sp3b =>
    simp only [ctlInv, hpc] at hctl
    exact inv_retStop G hctl.1 hctl.2.2 (by simp [hctl.2.1])
  case sp6 => pc_only h hctl hpc
  case sp7 => split <;> pc_only h hctl hpc
  case sp8 => split <;> pc_only h hctl hpc
  case cn2 =>
    simp only [okStep, earlyCancel, hpc] at hok
    upd G hctl hpc
  case sp9 => split <;> (try split) <;> pc_only h hctl hpc
  case sp10 => pc_only h hctl hpc
  case sp11 => split <;> (try split) <;> pc_only h hctl hpc
  case sp11w =>
    simp only [enabled, hpc, decide_eq_true_eq] at hen
    pc_only h hctl hpc
  case sp12 => pc_only h hctl hpc
  case sp13 =>
    simp only [ctlInv, hpc] at hctl
    obtain ⟨hs, k, hk, hcan, hna, hne, hd⟩ := hctl
    obtain ⟨g1, g2, g3, g4, g5, g5', g7, g8, g9, g10⟩ := G
    refine inv_retStop (p := p) ?G ?hs rfl ?hc
    case G => refine ⟨?_, g2, g3, g4, g5, ?_, ?_, g8, g9, g10⟩ <;> simp only [] <;> grind
    case hs => simpa [InStop] using hs
    intro k' hk'
    simp only [hcan, Option.some.injEq] at hk'
    subst hk'
    exact ⟨g7 k hk, hna, hne, hd⟩
  case gr2 => pc_only h hctl hpc
  case gr3 => pc_only h hctl hpc
  case done => exact h
  case crashed => exact h


theorem inv_init (p : Params) (calls : List Call) : Inv p (init calls) := by
  unfold init enter
  split <;>
  · refine Inv.ofGlob ⟨?_, ?_, ?_, ?_, ?_, ?_, ?_, ?_, ?_, ?_⟩ ?_ ?_
    all_goals simp [ctlInv, InStart, InStop, Cur, Act, atBoundary, lastOk]

theorem inv_step {p : Params} {c : Cfg} (t : Tid) (h : Inv p c) (hok : okStep p c t = true) :
    Inv p (step p c t) := by
  unfold step
  split
  · rename_i hen
    cases t with
    | ctl => exact inv_stepCtl h hen hok
    | ctl2 => simp [enabled, h.g10] at hen
    | w i => exact inv_stepW i false h hen
    | wx i => exact inv_stepW i true h hen
  · exact h

theorem inv_of_reach {p : Params} {calls : List Call} {c : Cfg} (h : Reach p calls c) : Inv p c := by
  induction h with
  | init => exact inv_init p calls
  | step t _ hok ih => exact inv_step t ih hok

theorem reachAll_run (p : Params) (calls : List Call) (sched : List Tid) :
    ReachAll p calls (run p (init calls) sched) := by
  suffices ∀ c, ReachAll p calls c → ReachAll p calls (run p c sched) from this _ .init
  induction sched with
  | nil => intro c h; exact h
  | cons t ts ih => intro c h; exact ih _ (.step t h)

end CpProofs.C20
