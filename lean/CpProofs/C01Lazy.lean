import CpModel.PipelineLazy
/-
  C01 / C10: requests that arrive while another thread is still assembling the application's WSGI pipeline.
  For every number of layers, every number of threads and EVERY schedule: whatever chain a thread calls is the
  complete one (so the ExceptionTrapper and the InternalRedirector are in it: nothing escapes, redirects are
  followed, exactly as for a request that is alone).  The in-place variant is refuted by a witness schedule.
-/
namespace CpProofs.C01Lazy
open CpModel.PipelineLazy

theorem mem_set_cases {α : Type} {l : List α} {i : Nat} {a x : α} (h : x ∈ l.set i a) : x = a ∨ x ∈ l := by
  induction l generalizing i with
  | nil => simp at h
  | cons y ys ih =>
    cases i with
    | zero =>
      simp [List.set] at h
      rcases h with h | h
      · exact Or.inl h
      · exact Or.inr (List.mem_cons_of_mem _ h)
    | succ j =>
      simp [List.set] at h
      rcases h with h | h
      · exact Or.inr (by simp [h])
      · rcases ih h with h' | h'
        · exact Or.inl h'
        · exact Or.inr (List.mem_cons_of_mem _ h')

theorem inv_init (n threads : Nat) : Inv n (init threads) := by
  refine ⟨?_, ?_⟩
  · intro k h; simp [init] at h
  · intro pc h
    have : pc = .start := by
      simp [init] at h
      exact h.2
    subst this
    exact True.intro

/-- one step of any thread preserves the invariant -/
theorem step_inv (n : Nat) (s : State) (t : Nat) (h : Inv n s) : Inv n (stepLocal n s t) := by
  obtain ⟨hh, hp⟩ := h
  unfold stepLocal
  cases hget : s.pcs[t]? with
  | none => exact ⟨hh, hp⟩
  | some pc =>
    have hmem : pc ∈ s.pcs := List.mem_of_getElem? hget
    have hpc := hp pc hmem
    cases pc with
    | start =>
      cases hhead : s.head with
      | none =>
        refine ⟨by simp, ?_⟩
        intro q hq
        rcases mem_set_cases hq with rfl | hq
        · exact Nat.zero_le n
        · exact hp q hq
      | some k =>
        refine ⟨by simpa [hhead] using hh, ?_⟩
        intro q hq
        rcases mem_set_cases hq with rfl | hq
        · exact hh k hhead
        · exact hp q hq
    | build k =>
      by_cases hk : k < n
      · simp only [hk, if_true]
        refine ⟨hh, ?_⟩
        intro q hq
        rcases mem_set_cases hq with rfl | hq
        · exact hk
        · exact hp q hq
      · simp only [hk, if_false]
        have hkn : k = n := Nat.le_antisymm hpc (Nat.le_of_not_lt hk)
        refine ⟨?_, ?_⟩
        · intro k' hk'
          simp at hk'
          omega
        · intro q hq
          rcases mem_set_cases hq with rfl | hq
          · exact hkn
          · exact hp q hq
    | ready k =>
      refine ⟨hh, ?_⟩
      intro q hq
      rcases mem_set_cases hq with rfl | hq
      · exact hpc
      · exact hp q hq
    | called k => exact ⟨hh, hp⟩

theorem run_inv (n : Nat) (sched : List Nat) (s : State) (h : Inv n s) : Inv n (runLocal n s sched) := by
  induction sched generalizing s with
  | nil => exact h
  | cons t ts ih => exact ih _ (step_inv n s t h)

/-- **Every chain ever called is complete**: any number of layers, any number of threads, any schedule. -/
theorem C01_lazy_pipeline_complete (n threads : Nat) (sched : List Nat) (k : Nat)
    (h : Pc.called k ∈ (runLocal n (init threads) sched).pcs) : k = n :=
  (run_inv n sched _ (inv_init n threads)).2 _ h

/-- ... and what is memoized in `self.head` is the complete chain or nothing. -/
theorem C01_lazy_head_complete (n threads : Nat) (sched : List Nat) (k : Nat)
    (h : (runLocal n (init threads) sched).head = some k) : k = n :=
  (run_inv n sched _ (inv_init n threads)).1 _ h

/-- non-vacuity: two threads, three layers, the second thread arriving in the middle of the first one's
    assembly - both have called a 3-layer chain. -/
example : (runLocal 3 (init 2) [0, 0, 0, 1, 1, 1, 1, 1, 1, 0, 0, 0, 0]).pcs = [.called 3, .called 3] := by decide

/-- progress: a thread that is given `n + 3` turns has made its call, whatever the others do in between
    (stated for the witness shape used by the harness: thread 0 parked after `j` steps, thread 1 runs alone). -/
theorem C01_lazy_overlapped_request_served (j : Nat) (hj : j ≤ 2) :
    (runLocal 2 (init 2) (List.replicate j 0 ++ List.replicate 5 1)).pcs[1]? = some (.called 2) := by
  have : j = 0 ∨ j = 1 ∨ j = 2 := by omega
  rcases this with rfl | rfl | rfl <;> decide

theorem rep_split (n t : Nat) : List.replicate (n + 2) t = List.replicate n t ++ [t, t] := by
  induction n with
  | zero => rfl
  | succ k ih =>
    rw [show k + 1 + 2 = (k + 2) + 1 from rfl, List.replicate_succ, ih, List.replicate_succ]
    rfl

theorem get_set_self {α : Type} (l : List α) (t : Nat) (a x : α) (h : l[t]? = some a) : (l.set t x)[t]? = some x := by
  have hlt : t < l.length := by
    rcases Nat.lt_or_ge t l.length with h' | h'
    · exact h'
    · rw [List.getElem?_eq_none h'] at h; cases h
  simp [hlt]

/-- a thread in `build j` that runs alone reaches `build n` after `n - j` steps (nobody's chain changes) -/
theorem solo_build (n t : Nat) : ∀ (d : Nat) (s : State) (j : Nat), j + d = n → s.pcs[t]? = some (.build j) →
    (runLocal n s (List.replicate d t)).pcs[t]? = some (.build n) ∧
    (runLocal n s (List.replicate d t)).head = s.head := by
  intro d
  induction d with
  | zero =>
    intro s j hj h
    have : j = n := by omega
    subst this
    exact ⟨h, rfl⟩
  | succ d ih =>
    intro s j hj h
    have hlt : j < n := by omega
    have hstep : stepLocal n s t = { s with pcs := s.pcs.set t (.build (j + 1)) } := by
      unfold stepLocal
      simp [h, hlt]
    simp only [List.replicate_succ, runLocal]
    rw [hstep]
    have := ih { s with pcs := s.pcs.set t (.build (j + 1)) } (j + 1) (by omega) (get_set_self _ _ _ _ h)
    exact this

/-- **progress**: a thread that has not started, given `n + 3` turns of its own - whatever state the others have
    left behind (any state satisfying the invariant: somebody may have published the complete chain, others may
    be in the middle of their own assembly) - has called the complete chain. -/
theorem C01_lazy_solo_progress (n t : Nat) (s : State) (hinv : Inv n s) (h : s.pcs[t]? = some .start) :
    (runLocal n s (List.replicate (n + 3) t)).pcs[t]? = some (.called n) := by
  cases hhead : s.head with
  | some k =>
    have hk : k = n := hinv.1 k hhead
    subst hk
    have h1 : stepLocal k s t = { s with pcs := s.pcs.set t (.ready k) } := by
      unfold stepLocal; simp [h, hhead]
    have h2 : stepLocal k { s with pcs := s.pcs.set t (.ready k) } t =
        { s with pcs := (s.pcs.set t (.ready k)).set t (.called k) } := by
      unfold stepLocal; simp [get_set_self _ _ _ _ h]
    -- after two steps the thread is in `called k`; further steps are the identity on it
    have hstay : ∀ (m : Nat) (s' : State), s'.pcs[t]? = some (.called k) →
        (runLocal k s' (List.replicate m t)).pcs[t]? = some (.called k) := by
      intro m
      induction m with
      | zero => intro s' h'; exact h'
      | succ m ih =>
        intro s' h'
        simp only [List.replicate_succ, runLocal]
        have : stepLocal k s' t = s' := by unfold stepLocal; simp [h']
        rw [this]; exact ih s' h'
    have : List.replicate (k + 3) t = t :: t :: List.replicate (k + 1) t := by
      simp [List.replicate_succ]
    rw [this]
    simp only [runLocal]
    rw [h1, h2]
    exact hstay _ _ (get_set_self _ _ _ _ (get_set_self _ _ _ _ h))
  | none =>
    have h1 : stepLocal n s t = { s with pcs := s.pcs.set t (.build 0) } := by
      unfold stepLocal; simp [h, hhead]
    have hb := solo_build n t n { s with pcs := s.pcs.set t (.build 0) } 0 (by omega) (get_set_self _ _ _ _ h)
    have : List.replicate (n + 3) t = t :: (List.replicate n t ++ [t, t]) := by
      rw [show n + 3 = (n + 2) + 1 from rfl, List.replicate_succ, rep_split]
    rw [this]
    simp only [runLocal]
    rw [h1]
    have hrun : ∀ (l1 l2 : List Nat) (s' : State), runLocal n s' (l1 ++ l2) = runLocal n (runLocal n s' l1) l2 := by
      intro l1
      induction l1 with
      | nil => intro l2 s'; rfl
      | cons a l ih => intro l2 s'; simp only [List.cons_append, runLocal]; exact ih l2 _
    rw [hrun]
    generalize hs' : runLocal n { s with pcs := s.pcs.set t (.build 0) } (List.replicate n t) = s' at hb
    obtain ⟨hpc, _⟩ := hb
    have h3 : stepLocal n s' t = { head := some n, pcs := s'.pcs.set t (.ready n) } := by
      unfold stepLocal; simp [hpc]
    simp only [runLocal]
    rw [h3]
    have h4 : stepLocal n { head := some n, pcs := s'.pcs.set t (.ready n) } t =
        { head := some n, pcs := (s'.pcs.set t (.ready n)).set t (.called n) } := by
      unfold stepLocal; simp [get_set_self _ _ _ _ hpc]
    rw [h4]
    exact get_set_self _ _ _ _ (get_set_self _ _ _ _ hpc)

/-- The in-place variant publishes the growing chain: a second thread that arrives after the first layer calls
    a ONE-layer chain (no InternalRedirector / ExceptionTrapper around the tail) - the statement above is false
    for it.  Witness: 3 layers, thread 0 takes two steps, thread 1 reads `self.head` and calls it. -/
theorem C01_lazy_inplace_false :
    ¬ (∀ (sched : List Nat) (k : Nat), Pc.called k ∈ (runInPlace 3 (init 2) sched).pcs → k = 3) := by
  intro h
  have := h [0, 0, 1, 1] 1 (by decide)
  omega

end CpProofs.C01Lazy
