import CpModel.PipelineLazy
/-
  C01 / C10: requests that arrive while another thread is still assembling the application's WSGI pipeline.
  For every number of layers, every number of threads and EVERY schedule: whatever chain a thread calls is the
  complete one (so the ExceptionTrapper and the InternalRedirector are in it: nothing escapes, redirects are
  followed, exactly as for a request that is alone).  The in-place variant is refuted by a witness schedule.
-/
namespace CpProofs.C01Lazy
open CpModel.PipelineLazy

theorem mem_set_cases {α : Type} {l : List α} {i : Nat} {a x : α} (h : x ∈ l.set i a) : x = a ∨ x ∈ l := by
  induction l generalizing i with
  | nil => simp at h
  | cons y ys ih =>
    cases i with
    | zero =>
      simp [List.set] at h
      rcases h with h | h
      · exact Or.inl h
      · exact Or.inr (List.mem_cons_of_mem _ h)
    | succ j =>
      simp [List.set] at h
      rcases h with h | h
      · exact Or.inr (by simp [h])
      · rcases ih h with h' | h'
        · exact Or.inl h'
        · exact Or.inr (List.mem_cons_of_mem _ h')

theorem inv_init (n threads : Nat) : Inv n (init threads) := by
  refine ⟨?_, ?_⟩
  · intro k h; simp [init] at h
  · intro pc h
    have : pc = .start := by
      simp [init] at h
      exact h.2
    subst this
    exact True.intro

/-- one step of any thread preserves the invariant -/
theorem step_inv (n : Nat) (s : State) (t : Nat) (h : Inv n s) : Inv n (stepLocal n s t) := by
  obtain ⟨hh, hp⟩ := h
  unfold stepLocal
  cases hget : s.pcs[t]? with
  | none => exact ⟨hh, hp⟩
  | some pc =>
    have hmem : pc ∈ s.pcs := List.mem_of_getElem? hget
    have hpc := hp pc hmem
    cases pc with
    | start =>
      cases hhead : s.head with
      | none =>
        refine ⟨by simp, ?_⟩
        intro q hq
        rcases mem_set_cases hq with rfl | hq
        · exact Nat.zero_le n
        · exact hp q hq
      | some k =>
        refine ⟨by simpa [hhead] using hh, ?_⟩
        intro q hq
        rcases mem_set_cases hq with rfl | hq
        · exact hh k hhead
        · exact hp q hq
    | build k =>
      by_cases hk : k < n
      · simp only [hk, if_true]
        refine ⟨hh, ?_⟩
        intro q hq
        rcases mem_set_cases hq with rfl | hq
        · exact hk
        · exact hp q hq
      · simp only [hk, if_false]
        have hkn : k = n := Nat.le_antisymm hpc (Nat.le_of_not_lt hk)
        refine ⟨?_, ?_⟩
        · intro k' hk'
          simp at hk'
          omega
        · intro q hq
          rcases mem_set_cases hq with rfl | hq
          · exact hkn
          · exact hp q hq
    | ready k =>
      refine ⟨hh, ?_⟩
      intro q hq
      rcases mem_set_cases hq with rfl | hq
      · exact hpc
      · exact hp q hq
    | called k => exact ⟨hh, hp⟩

theorem run_inv (n : Nat) (sched : List Nat) (s : State) (h : Inv n s) : Inv n (runLocal n s sched) := by
  induction sched generalizing s with
  | nil => exact h
  | cons t ts ih => exact ih _ (step_inv n s t h)

/-- **Every chain ever called is complete**: any number of layers, any number of threads, any schedule. -/
theorem C01_lazy_pipeline_complete (n threads : Nat) (sched : List Nat) (k : Nat)
    (h : Pc.called k ∈ (runLocal n (init threads) sched).pcs) : k = n :=
  (run_inv n sched _ (inv_init n threads)).2 _ h

/-- ... and what is memoized in `self.head` is the complete chain or nothing. -/
theorem C01_lazy_head_complete (n threads : Nat) (sched : List Nat) (k : Nat)
    (h : (runLocal n (init threads) sched).head = some k) : k = n :=
  (run_inv n sched _ (inv_init n threads)).1 _ h

/-- non-vacuity: two threads, three layers, the second thread arriving in the middle of the first one's
    assembly - both have called a 3-layer chain. -/
example : (runLocal 3 (init 2) [0, 0, 0, 1, 1, 1, 1, 1, 1, 0, 0, 0, 0]).pcs = [.called 3, .called 3] := by decide

/-- progress: a thread that is given `n + 3` turns has made its call, whatever the others do in between
    (stated for the witness shape used by the harness: thread 0 parked after `j` steps, thread 1 runs alone). -/
theorem C01_lazy_overlapped_request_served (j : Nat) (hj : j ≤ 2) :
    (runLocal 2 (init 2) (List.replicate j 0 ++ List.replicate 5 1)).pcs[1]? = some (.called 2) := by
  have : j = 0 ∨ j = 1 ∨ j = 2 := by omega
  rcases this with rfl | rfl | rfl <;> decide

/-- The in-place variant publishes the growing chain: a second thread that arrives after the first layer calls
    a ONE-layer chain (no InternalRedirector / ExceptionTrapper around the tail) - the statement above is false
    for it.  Witness: 3 layers, thread 0 takes two steps, thread 1 reads `self.head` and calls it. -/
theorem C01_lazy_inplace_false :
    ¬ (∀ (sched : List Nat) (k : Nat), Pc.called k ∈ (runInPlace 3 (init 2) sched).pcs → k = 3) := by
  intro h
  have := h [0, 0, 1, 1] 1 (by decide)
  omega

end CpProofs.C01Lazy
