import CpProofs.C13NInv
import CpProofs.C13Admit
import CpProofs.C13File
/-!
  C13 — theorems over `CpModel.SessionLockN`: several session ids, ANY number of request threads and
  of concurrent `clean_up` sweepers, handler scripts (read-modify-write, `delete`, `clear`,
  `regenerate` inside the locked region), the clock; every schedule; every start state in which
  nobody holds a lock yet (`Start`: whatever the two tables contain).

  * repaired protocol (`ReqV.recheck` + `SwV.recheck`, the code since 8584df8 / 8e1b7bf):
    `C13N_mutex`, `C13N_no_lost_update`, `C13N_no_release_error`, `C13N_released`,
    `C13N_regenerate_moves_the_lock`, `C13N_no_deadlock`, `C13N_sweep_respects_cs`, `C13N_frame`.
  * `SwV.orig` (clean_up before 8e1b7bf) with TWO sweepers: `C13N_two_sweepers_orig_false`,
    `C13N_two_sweepers_orig_blocked` (finding C13-F21, witnesses by `decide`).
  * `ReqV.orig` (RamSession before 8584df8; `MemcachedSession.acquire_lock` to this day):
    `C13N_orig_swept_false` (finding F20 again, in this model) and `C13N_mutex_no_sweep` — without
    sweeper steps (memcached has no sweeper: its lock table only grows) the protocol is safe.
  * `C13N_admitted_safe` / `C13_file_admitted_safe`: what the driver's admission test
    (trace inclusion modulo stuttering) means for a recorded run of the real code.
-/
namespace CpProofs.C13N
open CpModel.SessionLockN

/-- At most one request is inside the critical section of any one session id. -/
def MutexAt (s : St) : Prop :=
  ∀ i j, inCS (s.thr i).pc = true → inCS (s.thr j).pc = true → (s.thr i).sid = (s.thr j).sid → i = j

/-- the repaired configuration (whatever the data-aliasing mode: RAM aliases, memcached copies) -/
def Repaired (c : Cfg) : Prop := c.rv = .recheck ∧ c.sv = .recheck

theorem mutex_of_inv {s : St} (h : Inv s) : MutexAt s := by
  intro i j hi hj hs
  have a1 := h.i1 i (inCS_holds _ hi)
  have a2 := h.i2 i hi
  have b1 := h.i1 j (inCS_holds _ hj)
  have b2 := h.i2 j hj
  rw [hs, b2] at a2
  injection a2 with a2
  rw [← a2, b1] at a1
  injection a1 with a1
  injection a1 with a1
  injection a1 with a1
  exact a1.symm

theorem reachable_inv (c : Cfg) (hc : Repaired c) (s0 : St) (h0 : Start s0) (sched : List Actor) :
    Inv (run c s0 sched) :=
  inv_run c hc.1 hc.2 s0 sched (inv_start s0 h0)

/-- **Mutual exclusion**, per session id, for any number of ids, request threads and sweepers, any
    handler scripts, any schedule. -/
theorem C13N_mutex (c : Cfg) (hc : Repaired c) (s0 : St) (h0 : Start s0) (sched : List Actor) :
    MutexAt (run c s0 sched) :=
  mutex_of_inv (reachable_inv c hc s0 h0 sched)

/-- No handler write is ever based on a read that another write has overtaken. -/
theorem C13N_no_lost_update (c : Cfg) (hc : Repaired c) (s0 : St) (h0 : Start s0) (sched : List Actor) :
    (run c s0 sched).lost = false :=
  (reachable_inv c hc s0 h0 sched).l1

/-- `release_lock` (in `save`, `regenerate`, `acquire_lock`'s retry) never fails and `clean_up` never
    raises — with any number of concurrent sweepers. -/
theorem C13N_no_release_error (c : Cfg) (hc : Repaired c) (s0 : St) (h0 : Start s0) (sched : List Actor) :
    (∀ i, ((run c s0 sched).thr i).pc ≠ .crashed) ∧ (∀ k, ((run c s0 sched).sw k).pc ≠ .crashed) :=
  ⟨(reachable_inv c hc s0 h0 sched).c1, (reachable_inv c hc s0 h0 sched).c2⟩

/-- The lock is released: a lock object is owned by request `i` only while `i` is between an
    acquisition and the matching release; a finished request (done / gone) owns nothing. -/
theorem C13N_released (c : Cfg) (hc : Repaired c) (s0 : St) (h0 : Start s0) (sched : List Actor) (l i : Nat)
    (hfin : holds ((run c s0 sched).thr i).pc = false) :
    ((run c s0 sched).heap l).owner ≠ some (.req i) := by
  intro h
  have := ((reachable_inv c hc s0 h0 sched).i4 l i h).1
  rw [hfin] at this
  cases this

/-- `regenerate()` inside the locked region moves the lock: whenever a request is inside its critical
    section it holds (exactly once) the lock object the table maps its CURRENT id to, and it owns no
    other lock object — in particular not the one of the id it has left. -/
theorem C13N_regenerate_moves_the_lock (c : Cfg) (hc : Repaired c) (s0 : St) (h0 : Start s0)
    (sched : List Actor) (i : Nat) :
    let s := run c s0 sched
    inCS (s.thr i).pc = true →
    s.table (s.thr i).sid = some (s.thr i).my ∧ s.heap (s.thr i).my = ⟨some (.req i), 1⟩ ∧
    ∀ l, (s.heap l).owner = some (.req i) → l = (s.thr i).my := by
  intro s hin
  have h : Inv s := reachable_inv c hc s0 h0 sched
  exact ⟨h.i2 i hin, h.i1 i (inCS_holds _ hin), fun l hl => ((h.i4 l i hl).2).symm⟩

/-- A request blocked in `acquire` waits for an actor that can move: another request that holds the
    lock object (every step of which is enabled) or a sweeper between its non-blocking acquire and its
    release.  No reachable state is a deadlock. -/
theorem C13N_no_deadlock (c : Cfg) (hc : Repaired c) (s0 : St) (h0 : Start s0) (sched : List Actor) (i : Nat) :
    let s := run c s0 sched
    (s.thr i).pc = .acq → enabled s (.req i) = false →
    (∃ j, holds (s.thr j).pc = true ∧ enabled s (.req j) = true) ∨
    (∃ k, swHolds (s.sw k).pc = true ∧ enabled s (.sweep k) = true) := by
  intro s hpc hen
  have hinv : Inv s := reachable_inv c hc s0 h0 sched
  simp only [enabled, hpc] at hen
  cases htry : tryAcquire s (s.thr i).my (.req i) with
  | some s' => simp [htry] at hen
  | none =>
    obtain ⟨h1, h2⟩ := tryAcquire_none htry
    cases ho : (s.heap (s.thr i).my).owner with
    | none => exact absurd ho h1
    | some a =>
      cases a with
      | req j =>
        left
        have hj := (hinv.i4 _ j ho).1
        refine ⟨j, hj, ?_⟩
        simp only [enabled]
        cases hp : (s.thr j).pc <;> simp_all [holds]
      | sweep k =>
        right
        have hk := (hinv.s4 _ k ho).1
        refine ⟨k, hk, ?_⟩
        simp only [enabled]
        cases hp : (s.sw k).pc <;> simp_all [swHolds]
      | tick d => exact absurd ho (hinv.s7 _ d)

theorem stepSweep_thr (c : Cfg) (s : St) (k : Nat) : (stepSweep c s k).thr = s.thr := by
  unfold stepSweep
  cases hpc : (s.sw k).pc <;> simp only [hpc]
  case get => split <;> (try split) <;> rfl
  case try_ =>
    cases htry : tryAcquire s (s.sw k).lk (.sweep k) with
    | none => rfl
    | some s' => rcases tryAcquire_some htry with ⟨_, rfl⟩ | ⟨_, rfl⟩ <;> rfl
  case pop => split <;> (try split) <;> rfl
  case rel =>
    cases hrel : release s (s.sw k).lk (.sweep k) with
    | none => rfl
    | some s' => obtain ⟨_, rfl⟩ := release_some hrel; rfl
  all_goals rfl

/-- A sweep step — for the same id or another one — never touches what a critical section rests on:
    the table entry of the id a request is inside of and the lock object the request holds are the
    same before and after. -/
theorem C13N_sweep_respects_cs (c : Cfg) (hc : Repaired c) (s0 : St) (h0 : Start s0) (sched : List Actor)
    (k i : Nat) :
    let s := run c s0 sched
    inCS (s.thr i).pc = true →
    (stepSweep c s k).table (s.thr i).sid = s.table (s.thr i).sid ∧
    (stepSweep c s k).heap (s.thr i).my = s.heap (s.thr i).my := by
  intro s hin
  have h : Inv s := reachable_inv c hc s0 h0 sched
  have h' : Inv (stepSweep c s k) := inv_stepSweep c hc.2 s k h
  have ht := stepSweep_thr c s k
  have hin' : inCS ((stepSweep c s k).thr i).pc = true := by rw [ht]; exact hin
  have a := h'.i2 i hin'
  have b := h'.i1 i (inCS_holds _ hin')
  rw [ht] at a b
  exact ⟨by rw [a, h.i2 i hin], by rw [b, h.i1 i (inCS_holds _ hin)]⟩

/-- Independence of session ids: a step that operates on id `x` (`target`) leaves the cache entry and
    the lock-table entry of every other id alone — for every configuration, reachable or not. -/
theorem C13N_frame (c : Cfg) (s : St) (a : Actor) (x y : Nat) (ht : target s a = some x) (hy : y ≠ x) :
    (step c s a).cache y = s.cache y ∧ (step c s a).table y = s.table y := by
  cases a with
  | tick d => simp [target] at ht
  | req i =>
    simp only [target, Option.some.injEq] at ht
    subst ht
    simp only [step]
    unfold stepReq
    cases hpc : (s.thr i).pc <;> simp only [hpc]
    case init => split <;> simp
    case gex => split <;> simp
    case setdef => split <;> simp [hy]
    case acq =>
      cases htry : tryAcquire s (s.thr i).my (.req i) with
      | none => simp
      | some s' => rcases tryAcquire_some htry with ⟨_, rfl⟩ | ⟨_, rfl⟩ <;> simp
    case chk => simp
    case rel0 =>
      cases hrel : release s (s.thr i).my (.req i) with
      | none => simp
      | some s' => obtain ⟨_, rfl⟩ := release_some hrel; simp
    case load => simp
    case loadNow => split <;> (try split) <;> (try split) <;> simp
    case write => simp
    case clr => simp
    case del => simp [hy]
    case rdel => simp [hy]
    case rlookup => split <;> simp
    case rrel =>
      cases hrel : release s (s.thr i).r (.req i) with
      | none => simp
      | some s' => obtain ⟨_, rfl⟩ := release_some hrel; simp
    case rex => split <;> simp
    case saveNow => simp
    case save => simp [hy]
    case lookup => split <;> simp
    case rel =>
      cases hrel : release s (s.thr i).r (.req i) with
      | none => simp
      | some s' => obtain ⟨_, rfl⟩ := release_some hrel; simp
    all_goals simp
  | sweep k =>
    simp only [step]
    unfold stepSweep
    cases hpc : (s.sw k).pc <;> simp only [target, hpc] at ht <;> simp only [hpc]
    case del => simp only [Option.some.injEq] at ht; subst ht; simp [hy]
    case get => split <;> (try split) <;> simp
    case try_ =>
      cases htry : tryAcquire s (s.sw k).lk (.sweep k) with
      | none => simp
      | some s' => rcases tryAcquire_some htry with ⟨_, rfl⟩ | ⟨_, rfl⟩ <;> simp
    case vfy => simp
    case pop =>
      simp only [Option.some.injEq] at ht
      subst ht
      split <;> (try split) <;> simp [hy]
    case rel =>
      cases hrel : release s (s.sw k).lk (.sweep k) with
      | none => simp
      | some s' => obtain ⟨_, rfl⟩ := release_some hrel; simp
    case chk => split <;> simp
    all_goals simp at ht

/-! ### non-vacuity: a contended run with two ids, three requests (one regenerates), two sweepers -/

def sampleInit : St :=
  init [(some (5, 0), true), (some (7, 100), false)] [(0, [.rmw, .regen, .rmw]), (0, [.rmw]), (1, [.delete, .rmw])]

def sampleSched : List Actor :=
  [.req 0, .req 1, .req 2, .req 0, .req 0, .req 0, .sweep 0, .sweep 1, .tick 1, .sweep 0, .sweep 1,
   .req 0, .req 0, .req 1, .req 1, .req 2, .req 2, .req 0, .req 0, .req 0, .req 0, .req 0]

example : Start sampleInit := start_init _ _ _

example : Repaired {} := ⟨rfl, rfl⟩

/-- after this schedule request 0 has regenerated: it waits in front of the fresh id's table -/
example : ((run {} sampleInit sampleSched).thr 0).sid = 2 ∧
    (((run {} sampleInit sampleSched).thr 1).pc = .acq) := by decide

/-! ### `SwV.orig` with two sweepers: finding C13-F21 -/

def origSweep : Cfg := { rv := .recheck, sv := .orig }

def f21Init : St := init [(some (5, 0), true)] [(0, [.rmw]), (0, [.rmw])]

/-- r0, r1 pass `__init__`; sweep 0 snapshots, deletes the expired entry and looks the lock object up;
    sweep 1 (second loop) looks the SAME object up; sweep 0 acquires, pops, releases it; r0 stores and
    acquires a fresh object, its re-check succeeds: inside; sweep 1 acquires the orphan and pops r0's
    object, its release raises; r1 stores and acquires a third object: inside as well. -/
def f21Witness : List Actor :=
  [.req 0, .req 1, .sweep 0, .sweep 0, .sweep 0, .sweep 0,
   .sweep 1, .sweep 1, .sweep 1, .sweep 1, .sweep 1,
   .sweep 0, .sweep 0, .sweep 0, .req 0, .req 0, .req 0,
   .sweep 1, .sweep 1, .sweep 1, .req 1, .req 1, .req 1]

/-- With the unrepaired `clean_up` and TWO concurrent sweepers even the re-checking `acquire_lock`
    is not mutually exclusive. -/
theorem C13N_two_sweepers_orig_false :
    ¬ (∀ sched, MutexAt (run origSweep f21Init sched)) := by
  intro h
  have := h f21Witness 0 1 (by decide) (by decide) (by decide)
  exact absurd this (by decide)

/-- … the second sweep dies in its `release` (RuntimeError) still owning the orphan, … -/
theorem C13N_two_sweepers_orig_crash :
    ((run origSweep f21Init f21Witness).sw 1).pc = .crashed ∧
    ((run origSweep f21Init f21Witness).heap 0).owner = some (.sweep 1) := by decide

/-- … and in the first loop a `KeyError` from `pop` is swallowed with the acquired object left owned:
    a request that had looked that object up is blocked for ever. -/
theorem C13N_two_sweepers_orig_blocked :
    let s := run origSweep f21Init
      [.req 0, .req 0, .sweep 0, .sweep 0, .sweep 1, .sweep 1, .sweep 0, .sweep 0, .sweep 1, .sweep 1,
       .sweep 0, .sweep 0, .sweep 0, .sweep 1, .sweep 1]
    (s.thr 0).pc = .acq ∧ enabled s (.req 0) = false ∧
    (s.heap (s.thr 0).my).owner = some (.sweep 1) ∧ swHolds (s.sw 1).pc = false := by decide

/-! ### `ReqV.orig`: finding F20 in this model, and the sweeper-free case (memcached) -/

def origReq : Cfg := { rv := .orig, sv := .recheck }

/-- `setdefault(...).acquire()` without re-check is not safe against even ONE (repaired) sweeper. -/
theorem C13N_orig_swept_false :
    ¬ (∀ sched, MutexAt (run origReq (init [(some (5, 0), false)] [(0, [.rmw]), (0, [.rmw])]) sched)) := by
  intro h
  have := h [.req 0, .req 1, .req 0, .sweep 0, .sweep 0, .sweep 0, .sweep 0, .sweep 0, .sweep 0, .sweep 0,
             .sweep 0, .req 0, .req 1, .req 1] 0 1 (by decide) (by decide) (by decide)
  exact absurd this (by decide)

/-- program points after `setdefault` returned and before the lock is given back -/
def afterSetdef (p : Pc) : Bool :=
  match p with
  | .acq => true
  | p => holds p

/-- Invariant for schedules WITHOUT sweeper steps (both `acquire_lock` variants): a table entry never
    changes once it exists, so everybody who asks for an id works on the same lock object. -/
structure InvNS (s : St) : Prop where
  k1 : ∀ i, afterSetdef (s.thr i).pc = true → s.table (s.thr i).sid = some (s.thr i).my
  k2 : ∀ i, holds (s.thr i).pc = true → (s.heap (s.thr i).my).owner = some (.req i)
  k3 : ∀ i, ((s.thr i).pc = .rel ∨ (s.thr i).pc = .rrel) → (s.thr i).r = (s.thr i).my

macro "ns_close" : tactic =>
  `(tactic| (refine ⟨?_, ?_, ?_⟩ <;> invn_simp <;>
      grind [afterSetdef, inCS, holds, inCS_holds, next_facts]))

theorem holds_afterSetdef (p : Pc) (h : holds p = true) : afterSetdef p = true := by
  cases p <;> simp_all [holds, afterSetdef]

/-- a data-only step of a thread that holds its lock, ending with the thread-local dispatch -/
theorem invNS_next (s s1 : St) (i : Nat) (t : Thr) (h : InvNS s)
    (eh : s1.heap = s.heap) (et : s1.table = s.table) (ethr : s1.thr = s.thr)
    (hmy : t.my = (s.thr i).my) (hsid : t.sid = (s.thr i).sid) (hin : holds (s.thr i).pc = true) :
    InvNS (setThr s1 i (next s1 t)) := by
  obtain ⟨k1, k2, k3⟩ := h
  have hk := k1 i (holds_afterSetdef _ hin)
  have hk2 := k2 i hin
  obtain ⟨n1, n2, n3, n4, n5, n6, n7, n8, n9⟩ := next_facts s1 t
  generalize next s1 t = tn at *
  refine ⟨?_, ?_, ?_⟩ <;> invn_simp <;> simp only [eh, et, ethr] <;>
    grind [afterSetdef, inCS, holds, inCS_holds, holds_afterSetdef]

theorem invNS_req_a (c : Cfg) (s : St) (i : Nat) (h : InvNS s)
    (hp : (s.thr i).pc = .init ∨ (s.thr i).pc = .gex ∨ (s.thr i).pc = .setdef ∨ (s.thr i).pc = .chk ∨
          (s.thr i).pc = .rel0 ∨ (s.thr i).pc = .load) : InvNS (stepReq c s i) := by
  obtain ⟨k1, k2, k3⟩ := h
  unfold stepReq
  rcases hp with hpc | hpc | hpc | hpc | hpc | hpc <;> simp only [hpc]
  · split <;> ns_close
  · split <;> ns_close
  · split <;> ns_close
  · have hk := k1 i (by simp [hpc, afterSetdef, holds])
    split <;> ns_close
  · cases hrel : release s (s.thr i).my (.req i) with
    | none => simp only []; ns_close
    | some s' =>
      simp only []
      obtain ⟨ho, rfl⟩ := release_some hrel
      ns_close
  · ns_close

theorem invNS_req_acq (c : Cfg) (s : St) (i : Nat) (h : InvNS s) (hpc : (s.thr i).pc = .acq) :
    InvNS (stepReq c s i) := by
  obtain ⟨k1, k2, k3⟩ := h
  unfold stepReq
  simp only [hpc]
  cases htry : tryAcquire s (s.thr i).my (.req i) with
  | none => exact ⟨k1, k2, k3⟩
  | some s' =>
    simp only []
    have hk := k1 i (by simp [hpc, afterSetdef])
    rcases tryAcquire_some htry with ⟨ho, rfl⟩ | ⟨ho, rfl⟩ <;> cases hv : c.rv <;> simp only [] <;> ns_close

theorem invNS_req_b (c : Cfg) (s : St) (i : Nat) (h : InvNS s)
    (hp : (s.thr i).pc = .loadNow ∨ (s.thr i).pc = .write ∨ (s.thr i).pc = .clr ∨ (s.thr i).pc = .del) :
    InvNS (stepReq c s i) := by
  have hin : holds (s.thr i).pc = true := by rcases hp with hpc | hpc | hpc | hpc <;> simp [hpc, holds]
  unfold stepReq
  rcases hp with hpc | hpc | hpc | hpc <;> simp only [hpc]
  · split
    · split
      · exact invNS_next s _ i _ h rfl rfl rfl rfl rfl hin
      · split
        · exact invNS_next s _ i _ h rfl rfl rfl rfl rfl hin
        · exact invNS_next s _ i _ h rfl rfl rfl rfl rfl hin
    · exact invNS_next s _ i _ h rfl rfl rfl rfl rfl hin
  · exact invNS_next s _ i _ h rfl rfl rfl rfl rfl hin
  · exact invNS_next s _ i _ h rfl rfl rfl rfl rfl hin
  · exact invNS_next s _ i _ h rfl rfl rfl rfl rfl hin

theorem invNS_req_c (c : Cfg) (s : St) (i : Nat) (h : InvNS s)
    (hp : (s.thr i).pc = .rdel ∨ (s.thr i).pc = .rlookup ∨ (s.thr i).pc = .rrel ∨ (s.thr i).pc = .rex) :
    InvNS (stepReq c s i) := by
  obtain ⟨k1, k2, k3⟩ := h
  unfold stepReq
  rcases hp with hpc | hpc | hpc | hpc <;> simp only [hpc]
  · ns_close
  · have hk := k1 i (by simp [hpc, afterSetdef, holds])
    split <;> ns_close
  · cases hrel : release s (s.thr i).r (.req i) with
    | none => simp only []; ns_close
    | some s' =>
      simp only []
      obtain ⟨ho, rfl⟩ := release_some hrel
      have := k3 i (Or.inr hpc)
      ns_close
  · split <;> ns_close

theorem invNS_req_d (c : Cfg) (s : St) (i : Nat) (h : InvNS s)
    (hp : (s.thr i).pc = .saveNow ∨ (s.thr i).pc = .save ∨ (s.thr i).pc = .lookup ∨ (s.thr i).pc = .rel) :
    InvNS (stepReq c s i) := by
  obtain ⟨k1, k2, k3⟩ := h
  unfold stepReq
  rcases hp with hpc | hpc | hpc | hpc <;> simp only [hpc]
  · ns_close
  · ns_close
  · have hk := k1 i (by simp [hpc, afterSetdef, holds])
    split <;> ns_close
  · cases hrel : release s (s.thr i).r (.req i) with
    | none => simp only []; ns_close
    | some s' =>
      simp only []
      obtain ⟨ho, rfl⟩ := release_some hrel
      have := k3 i (Or.inl hpc)
      ns_close

theorem invNS_stepReq (c : Cfg) (s : St) (i : Nat) (h : InvNS s) : InvNS (stepReq c s i) := by
  cases hpc : (s.thr i).pc
  case acq => exact invNS_req_acq c s i h hpc
  case init | gex | setdef | chk | rel0 | load => exact invNS_req_a c s i h (by simp [hpc])
  case loadNow | write | clr | del => exact invNS_req_b c s i h (by simp [hpc])
  case rdel | rlookup | rrel | rex => exact invNS_req_c c s i h (by simp [hpc])
  case saveNow | save | lookup | rel => exact invNS_req_d c s i h (by simp [hpc])
  all_goals (unfold stepReq; simp only [hpc]; exact h)

/-- schedules that contain no sweeper step -/
def NoSweep (sched : List Actor) : Prop := ∀ a ∈ sched, ∀ k, a ≠ Actor.sweep k

theorem invNS_run (c : Cfg) (s : St) (sched : List Actor) (hs : NoSweep sched) (h : InvNS s) :
    InvNS (run c s sched) := by
  induction sched generalizing s with
  | nil => exact h
  | cons a rest ih =>
    have hrest : NoSweep rest := fun b hb => hs b (List.mem_cons_of_mem a hb)
    apply ih _ hrest
    cases a with
    | req i => exact invNS_stepReq c s i h
    | sweep k => exact absurd rfl (hs _ List.mem_cons_self k)
    | tick d => exact ⟨h.k1, h.k2, h.k3⟩

/-- Without sweeper steps BOTH `acquire_lock` variants — in particular `setdefault(...).acquire()`,
    which is what `MemcachedSession` does, whose lock table nothing ever removes from — are mutually
    exclusive per session id: any number of ids, threads, any handler scripts, any schedule. -/
theorem C13N_mutex_no_sweep (c : Cfg) (s0 : St) (h0 : Start s0) (sched : List Actor) (hs : NoSweep sched) :
    MutexAt (run c s0 sched) := by
  have hi : InvNS s0 := by
    refine ⟨?_, ?_, ?_⟩ <;> intro i <;> simp [h0.thr i, afterSetdef, holds]
  have h := invNS_run c s0 sched hs hi
  intro i j hi hj hsid
  have a1 := h.k1 i (by simp [afterSetdef]; cases hp : ((run c s0 sched).thr i).pc <;> simp_all [inCS, holds])
  have a2 := h.k1 j (by simp [afterSetdef]; cases hp : ((run c s0 sched).thr j).pc <;> simp_all [inCS, holds])
  have b1 := h.k2 i (inCS_holds _ hi)
  have b2 := h.k2 j (inCS_holds _ hj)
  rw [hsid, a2] at a1
  injection a1 with a1
  rw [a1, b1] at b2
  injection b2 with b2
  injection b2 with b2

/-- non-vacuity: three memcached-style requests contend without a sweeper -/
example : NoSweep [.req 0, .req 1, .req 0, .req 1, .req 0, .req 1, .tick 3] ∧
    inCS ((run origReq (init [(some (5, 100), false)] [(0, [.rmw]), (0, [.rmw])])
      [.req 0, .req 1, .req 0, .req 1, .req 0, .req 1, .tick 3]).thr 0).pc = true := by
  constructor
  · intro a ha k; simp at ha; rcases ha with h | h | h | h | h | h | h <;> simp [h]
  · decide

/-! ### what an admitted trace means -/
section Admitted
open CpModel.SessionAdmit CpProofs.C13Admit

theorem run_eq_foldl (c : Cfg) : ∀ (sched : List Actor) (s : St), run c s sched = sched.foldl (step c) s := by
  intro sched
  induction sched with
  | nil => intro s; rfl
  | cons a rest ih => intro s; simp [run, ih]

/-- If the driver admits a recorded run of the real threads (fast path or subset construction) against
    the repaired configuration, then some schedule of the MODEL shows exactly the recorded sequence
    of observations (contents of both tables for every id, owner and count of every lock object, lost
    flag, status of every thread, sweeps) up to stuttering, ends with the recorded blocked-for-ever
    flags, and — being a model run — satisfies every theorem above in its final state. -/
theorem C13N_admitted_safe (c : Cfg) (hc : Repaired c) (ids : List (Option (Nat × Nat) × Bool))
    (thrs : List (Nat × List Op)) (n nsw fuel : Nat) (o0 : List Nat)
    (tr : List (Turn Actor (List Nat) × Option (Nat × Nat))) (f : List Nat)
    (h : admitsT (step c) enabled (obs n nsw) (fin n) lab isLocal fuel (init ids thrs) o0 tr f = true ∨
         admits (step c) enabled (obs n nsw) (fin n) (pruneBy (key n nsw)) fuel (init ids thrs) o0
           (turns tr) f = true) :
    ∃ sched : List Actor,
      Run (step c) (obs n nsw) (init ids thrs) (changes o0 (turns tr)) (run c (init ids thrs) sched) ∧
      fin n (run c (init ids thrs) sched) = f ∧
      MutexAt (run c (init ids thrs) sched) ∧ (run c (init ids thrs) sched).lost = false ∧
      (∀ i, ((run c (init ids thrs) sched).thr i).pc ≠ .crashed) := by
  have key : ∃ x, Run (step c) (obs n nsw) (init ids thrs) (changes o0 (turns tr)) x ∧ fin n x = f := by
    rcases h with h | h
    · exact (admitsT_sound _ _ _ _ _ _ _ _ _ _ _ h).2
    · exact (admits_sound _ _ _ _ _ _ _ _ _ _ h).2
  obtain ⟨x, hr, hf⟩ := key
  obtain ⟨sched, hx⟩ := run_sched hr
  rw [← run_eq_foldl] at hx
  subst hx
  have hi := reachable_inv c hc (init ids thrs) (start_init ids thrs 0) sched
  exact ⟨sched, hr, hf, mutex_of_inv hi, hi.l1, hi.c1⟩

end Admitted

end CpProofs.C13N

namespace CpProofs.C13
open CpModel.SessionFile CpModel.SessionAdmit CpProofs.C13Admit

theorem File.run_eq_foldl : ∀ (sched : List Actor) (s : St), run s sched = sched.foldl step s := by
  intro sched
  induction sched with
  | nil => intro s; rfl
  | cons a rest ih => intro s; simp [run, ih]

/-- The same for the file backend: an admitted recorded run of real FileSession threads / the real
    clean_up is, up to stuttering, a run of the model, whose final state has every property of
    `C13_file_mutex`. -/
theorem C13_file_admitted_safe (f0 : FileC) (to : Nat → Bool) (progs : List (List FOp)) (n fuel : Nat)
    (o0 : List Nat)
    (tr : List (Turn Actor (List Nat) × Option (Nat × Nat))) (f : List Nat)
    (h : admitsT step enabled (obs n) (fin n) lab isLocal fuel (init f0 to progs) o0 tr f = true ∨
         admits step enabled (obs n) (fin n) (pruneBy (key n)) fuel (init f0 to progs) o0 (turns tr) f = true) :
    ∃ sched : List Actor,
      Run step (obs n) (init f0 to progs) (changes o0 (turns tr)) (run (init f0 to progs) sched) ∧
      fin n (run (init f0 to progs) sched) = f ∧
      (∀ i j, inCS ((run (init f0 to progs) sched).thr i).pc = true →
        inCS ((run (init f0 to progs) sched).thr j).pc = true → i = j) ∧
      (run (init f0 to progs) sched).lost = false := by
  have key : ∃ x, Run step (obs n) (init f0 to progs) (changes o0 (turns tr)) x ∧ fin n x = f := by
    rcases h with h | h
    · exact (admitsT_sound _ _ _ _ _ _ _ _ _ _ _ h).2
    · exact (admits_sound _ _ _ _ _ _ _ _ _ _ h).2
  obtain ⟨x, hr, hf⟩ := key
  obtain ⟨sched, hx⟩ := run_sched hr
  rw [← File.run_eq_foldl] at hx
  subst hx
  have hm := C13_file_mutex f0 to progs sched
  exact ⟨sched, hr, hf, hm.1, hm.2.2.1⟩

end CpProofs.C13
