import CpModel.UrlEnc
/-!
  Helper lemmas for C03: parameter dictionaries (`lookup`/`assign`/`addParam`/`mergeBody`),
  the `split` primitives, hex digits.
-/
namespace CpProofs.C03
open CpModel.UrlEnc

/-! ### dictionaries -/

/-- The values a key carries, as a flat list (absent key = no values). -/
def atomsOpt : Option Val → List Atom
  | none => []
  | some v => atoms v

/-- What a handler must see for a key that was sent with these values, in wire order:
    nothing, a scalar, or a list. -/
def shape : List Atom → Option Val
  | [] => none
  | [a] => some (.one a)
  | l => some (.many l)

/-- A dict value is well shaped when a list has at least two elements. -/
def WSVal (v : Val) : Prop := shape (atoms v) = some v

def WS (d : Params) : Prop := ∀ k v, lookup d k = some v → WSVal v

def keys (d : Params) : List Text := d.map (·.1)

theorem atomsOpt_none : atomsOpt none = [] := rfl

theorem atomsOpt_shape (l : List Atom) : atomsOpt (shape l) = l := by
  match l with
  | [] => rfl
  | [a] => rfl
  | a :: b :: t => rfl

theorem shape_eq_none {l : List Atom} : shape l = none ↔ l = [] := by
  match l with
  | [] => simp [shape]
  | [a] => simp [shape]
  | a :: b :: t => simp [shape]

theorem WSVal_shape {l : List Atom} {v : Val} (h : shape l = some v) : WSVal v := by
  match l, h with
  | [a], h => simp [shape] at h; subst h; rfl
  | a :: b :: t, h => simp [shape] at h; subst h; rfl

theorem lookup_assign (d : Params) (k k' : Text) (v : Val) :
    lookup (assign d k v) k' = if k = k' then some v else lookup d k' := by
  induction d with
  | nil => simp [assign, lookup]
  | cons e rest ih =>
    obtain ⟨k0, v0⟩ := e
    simp only [assign]
    by_cases h : k0 = k
    · subst h
      simp only [if_true, lookup]
      split <;> simp_all
    · simp only [h, if_false, lookup, ih]
      by_cases h2 : k0 = k'
      · subst h2
        have : ¬ k = k0 := fun e => h e.symm
        simp [this]
      · simp [h2]

theorem mem_keys_assign (d : Params) (k k' : Text) (v : Val) :
    k' ∈ keys (assign d k v) ↔ k' = k ∨ k' ∈ keys d := by
  induction d with
  | nil => simp [assign, keys]
  | cons e rest ih =>
    obtain ⟨k0, v0⟩ := e
    simp only [assign]
    by_cases h : k0 = k
    · subst h
      simp [keys]
    · simp only [h, if_false]
      simp only [keys, List.map_cons, List.mem_cons] at ih ⊢
      rw [ih]
      constructor
      · rintro (h1 | h1 | h1) <;> simp [h1]
      · rintro (h1 | h1 | h1) <;> simp [h1]

theorem nodup_keys_assign (d : Params) (k : Text) (v : Val) (h : (keys d).Nodup) :
    (keys (assign d k v)).Nodup := by
  induction d with
  | nil => simp [assign, keys]
  | cons e rest ih =>
    obtain ⟨k0, v0⟩ := e
    simp only [assign]
    by_cases hk : k0 = k
    · subst hk
      simpa [keys] using h
    · simp only [hk, if_false]
      simp only [keys, List.map_cons, List.nodup_cons] at h ⊢
      refine ⟨?_, ih h.2⟩
      intro hmem
      have := (mem_keys_assign rest k k0 v).1 hmem
      rcases this with h1 | h1
      · exact hk h1
      · exact h.1 h1

theorem lookup_eq_none_of_not_mem {d : Params} {k : Text} (h : k ∉ keys d) : lookup d k = none := by
  induction d with
  | nil => rfl
  | cons e rest ih =>
    obtain ⟨k0, v0⟩ := e
    simp only [keys, List.map_cons, List.mem_cons, not_or] at h
    have h0 : ¬ k0 = k := fun e => h.1 e.symm
    simp only [lookup, h0, if_false]
    exact ih h.2

/-- Specification of the promotion step: the key's value list grows by one at the end. -/
theorem lookup_addParam (d : Params) (hd : WS d) (k k' : Text) (a : Atom) :
    lookup (addParam d k a) k' =
      if k = k' then shape (atomsOpt (lookup d k) ++ [a]) else lookup d k' := by
  unfold addParam
  cases hl : lookup d k with
  | none => simp [lookup_assign, atomsOpt, shape]
  | some v =>
    cases v with
    | one old => simp [lookup_assign, atomsOpt, atoms, shape]
    | many l =>
      have hw := hd k _ hl
      simp only [lookup_assign, atomsOpt, atoms]
      match l, hw with
      | [], hw => simp [WSVal, atoms, shape] at hw
      | [x], hw => simp [WSVal, atoms, shape] at hw
      | x :: y :: t, _ => simp [shape]

theorem WS_addParam (d : Params) (hd : WS d) (k : Text) (a : Atom) : WS (addParam d k a) := by
  intro k' v hv
  rw [lookup_addParam d hd] at hv
  by_cases h : k = k'
  · simp only [h, if_true] at hv
    exact WSVal_shape hv
  · simp only [h, if_false] at hv
    exact hd k' v hv

theorem nodup_keys_addParam (d : Params) (k : Text) (a : Atom) (h : (keys d).Nodup) :
    (keys (addParam d k a)).Nodup := by
  unfold addParam
  split <;> exact nodup_keys_assign _ _ _ h

/-- `addParam` for every pair, in order (what both parse loops do). -/
def addAll (d : Params) (pairs : List (Text × Text)) : Params :=
  pairs.foldl (fun d kv => addParam d kv.1 (.str kv.2)) d

/-- The values sent for `key`, in wire order. -/
def valuesOf (key : Text) (pairs : List (Text × Text)) : List Atom :=
  (pairs.filter (fun kv => kv.1 = key)).map (fun kv => Atom.str kv.2)

theorem valuesOf_append (key : Text) (p q : List (Text × Text)) :
    valuesOf key (p ++ q) = valuesOf key p ++ valuesOf key q := by
  simp [valuesOf]

theorem WS_nil : WS [] := by
  intro k v h; simp [lookup] at h

theorem WS_addAll (d : Params) (hd : WS d) (pairs : List (Text × Text)) : WS (addAll d pairs) := by
  induction pairs generalizing d with
  | nil => exact hd
  | cons p ps ih => exact ih _ (WS_addParam d hd _ _)

theorem nodup_keys_addAll (d : Params) (h : (keys d).Nodup) (pairs : List (Text × Text)) :
    (keys (addAll d pairs)).Nodup := by
  induction pairs generalizing d with
  | nil => exact h
  | cons p ps ih => exact ih _ (nodup_keys_addParam d _ _ h)

/-- Scalar → list promotion is right: after the loop each key carries exactly the values sent for
    it, in wire order, behind whatever it carried before; one value is a scalar, more are a list. -/
theorem lookup_addAll (d : Params) (hd : WS d) (pairs : List (Text × Text)) (key : Text) :
    lookup (addAll d pairs) key = shape (atomsOpt (lookup d key) ++ valuesOf key pairs) := by
  induction pairs generalizing d with
  | nil =>
    simp only [addAll, List.foldl_nil, valuesOf, List.filter_nil, List.map_nil, List.append_nil]
    cases h : lookup d key with
    | none => rfl
    | some v => exact (hd key v h).symm
  | cons p ps ih =>
    obtain ⟨k, v⟩ := p
    have := ih (addParam d k (.str v)) (WS_addParam d hd _ _)
    simp only [addAll, List.foldl_cons] at this ⊢
    rw [this, lookup_addParam d hd]
    by_cases h : k = key
    · subst h
      simp [valuesOf, atomsOpt_shape]
    · simp [valuesOf, h]

/-! ### merge of body params behind query params -/

theorem lookup_mergeOne (rp : Params) (key k' : Text) (value : Val) :
    lookup (mergeOne rp key value) k' =
      if key = k' then
        (match lookup rp key with
         | some old => some (.many (atoms old ++ atoms value))
         | none => some value)
      else lookup rp k' := by
  unfold mergeOne
  cases h : lookup rp key <;> simp [lookup_assign]

theorem atoms_ne_nil_of_WSVal {v : Val} (h : WSVal v) : atoms v ≠ [] := by
  intro e
  simp [WSVal, e, shape] at h

theorem shape_append_of_ne_nil {a b : List Atom} (ha : a ≠ []) (hb : b ≠ []) :
    shape (a ++ b) = some (.many (a ++ b)) := by
  match a, b, ha, hb with
  | x :: a', y :: b', _, _ =>
    cases a' with
    | nil => simp [shape]
    | cons z a'' => simp [shape]

theorem lookup_mergeOne_shape (rp : Params) (hrp : WS rp) (key k' : Text) (value : Val) (hv : WSVal value) :
    lookup (mergeOne rp key value) k' =
      if key = k' then shape (atomsOpt (lookup rp key) ++ atoms value) else lookup rp k' := by
  rw [lookup_mergeOne]
  by_cases h : key = k'
  · simp only [h, if_true]
    cases hl : lookup rp k' with
    | none => simpa [atomsOpt] using hv.symm
    | some old =>
      simp only [atomsOpt]
      exact (shape_append_of_ne_nil (atoms_ne_nil_of_WSVal (hrp k' old hl)) (atoms_ne_nil_of_WSVal hv)).symm
  · simp [h]

theorem WS_mergeOne (rp : Params) (hrp : WS rp) (key : Text) (value : Val) (hv : WSVal value) :
    WS (mergeOne rp key value) := by
  intro k' v h
  rw [lookup_mergeOne_shape rp hrp key k' value hv] at h
  by_cases hk : key = k'
  · simp only [hk, if_true] at h
    exact WSVal_shape h
  · simp only [hk, if_false] at h
    exact hrp k' v h

/-- The merge loop of `RequestBody.process`: per key, the query-string values, then the body values,
    flat; a key with a single value overall stays a scalar. -/
theorem lookup_mergeBody (rp body : Params) (hrp : WS rp) (hb : WS body) (hn : (keys body).Nodup)
    (key : Text) :
    lookup (mergeBody rp body) key = shape (atomsOpt (lookup rp key) ++ atomsOpt (lookup body key)) := by
  induction body generalizing rp with
  | nil =>
    simp only [mergeBody, List.foldl_nil, lookup, atomsOpt, List.append_nil]
    cases h : lookup rp key with
    | none => rfl
    | some v => exact (hrp key v h).symm
  | cons e rest ih =>
    obtain ⟨k0, v0⟩ := e
    have hv0 : WSVal v0 := hb k0 v0 (by simp [lookup])
    simp only [keys, List.map_cons, List.nodup_cons] at hn
    have hrest : WS rest := by
      intro k v h
      by_cases hk : k0 = k
      · subst hk
        have := lookup_eq_none_of_not_mem (d := rest) hn.1
        rw [this] at h; cases h
      · exact hb k v (by simp [lookup, hk, h])
    have := ih (mergeOne rp k0 v0) (WS_mergeOne rp hrp k0 v0 hv0) hrest hn.2
    simp only [mergeBody, List.foldl_cons] at this ⊢
    rw [this, lookup_mergeOne_shape rp hrp k0 key v0 hv0]
    by_cases hk : k0 = key
    · subst hk
      have hnone := lookup_eq_none_of_not_mem (d := rest) hn.1
      simp only [lookup, if_true, hnone, atomsOpt_shape]
      simp [atomsOpt]
    · simp [lookup, hk]

end CpProofs.C03
