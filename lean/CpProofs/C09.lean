import CpModel.Wsgi
import CpProofs.C09Hooks
/-!
  C09, part 2 — the end hooks run exactly once and the hook points are visited in the documented
  order, for **every** fault plan: any pages, any hook lists with any outcomes, any handler outcome and
  return shape, failures inside error handling, internal-redirect chains and loops, streamed bodies
  consumed completely, partially or not at all, any number of `close()` calls by the server.

  `visits r j` is the sequence of hook points on which `hooks.run(point)` was called for Request
  object number `r`.  Part 1 (`C09Hooks.lean`) says which hooks are called at each such visit
  (`C09_point_visit_shape` links the two).
-/
namespace CpProofs.C09
open CpModel.Hooks CpModel.Pipeline CpModel.Wsgi

/-! ### projections of journals -/

/-- hook points visited, request-level journal -/
def pv (j : List Ev) : List Point := j.filterMap fun e => match e with | .visit p => some p | _ => none

/-- hook points visited by Request object `r` -/
def visits (r : Nat) (j : List Entry) : List Point :=
  j.filterMap fun e => match e with
    | .req r' (.visit p) => if r' = r then some p else none
    | _ => none

/-- number of `close()` calls by the server recorded in a journal -/
def closeCount (j : List Entry) : Nat := j.count .closeCall

@[simp] theorem pv_nil : pv [] = [] := rfl
@[simp] theorem pv_append (a b : List Ev) : pv (a ++ b) = pv a ++ pv b := by simp [pv]
@[simp] theorem visits_nil (r : Nat) : visits r [] = [] := rfl
@[simp] theorem visits_append (r : Nat) (a b : List Entry) : visits r (a ++ b) = visits r a ++ visits r b := by
  simp [visits]

theorem visits_tag (r r0 : Nat) (j : List Ev) : visits r (tag r0 j) = if r0 = r then pv j else [] := by
  induction j with
  | nil => simp [tag]
  | cons e rest ih =>
    simp only [tag, List.map_cons] at ih ⊢
    cases e <;> by_cases h : r0 = r <;> simp_all [visits, pv]

@[simp] theorem visits_start (r c : Nat) (b : Bool) : visits r [.start c b] = [] := rfl
@[simp] theorem visits_closeCall (r : Nat) : visits r [.closeCall] = [] := rfl

theorem visits_replicate_close (r n : Nat) : visits r (List.replicate n .closeCall) = [] := by
  induction n with
  | zero => rfl
  | succ n ih => simp [List.replicate_succ, visits] at ih ⊢

theorem pv_hooks (p : Point) (l : List Hook) : pv (l.map fun h => Ev.hook p h.id) = [] := by
  induction l with
  | nil => rfl
  | cons h rest ih => simp [pv] at ih ⊢

/-- **C09_point_visit_shape**: a visit of a hook point journals the visit and then exactly the hooks
    `HookMap.run` calls on the list attached at that moment (to which `C09_failsafe`, `C09_order`,
    `C09_failsafe_exactly_once` apply), and raises what that run raises. -/
theorem C09_point_visit_shape (pg : Page) (p : Point) (s : St) :
    (runPoint pg p s).j = .visit p :: ((CpModel.Hooks.run (hooksAt pg s p)).1.map fun h => Ev.hook p h.id)
      ∧ (runPoint pg p s).exn = (CpModel.Hooks.run (hooksAt pg s p)).2
      ∧ (runPoint pg p s).st = s := ⟨rfl, rfl, rfl⟩

@[simp] theorem pv_runPoint (pg : Page) (p : Point) (s : St) : pv (runPoint pg p s).j = [p] := by
  simp [runPoint, pv]

/-! ### sequential composition with early exit -/

/-- `a` is a straight-line block which, when nothing raises, visits exactly `L`; when something
    raises it has visited a prefix of `L`. -/
def Chain (a : R) (L : List Point) : Prop := (a.exn = none → pv a.j = L) ∧ pv a.j <+: L

theorem Chain.step {a : R} {L : List Point} (h : Chain a L) (f : St → R) (w : List Point)
    (hf : ∀ s, pv (f s).j = w) : Chain (a.andThen f) (L ++ w) := by
  unfold R.andThen
  cases he : a.exn with
  | some e =>
    simp only
    exact ⟨fun h0 => by simp [he] at h0, h.2.trans (List.prefix_append _ _)⟩
  | none =>
    refine ⟨fun _ => ?_, ?_⟩ <;> simp [hf, h.1 he]

theorem Chain.start (o : Option Exn) (s : St) : Chain (raiseIf o s) [] := by
  simp [Chain, raiseIf]

@[simp] theorem pv_raiseIf (o : Option Exn) (s : St) : pv (raiseIf o s).j = [] := rfl

@[simp] theorem pv_finalize (pg : Page) (s : St) : pv (finalize pg s).j = [] := by
  unfold finalize
  simp only []
  repeat' split
  all_goals rfl

@[simp] theorem pv_callHandler (pg : Page) (s : St) : pv (callHandler pg s).j = [] := by
  unfold callHandler
  repeat' split
  all_goals rfl

@[simp] theorem pv_setResponseError (pg : Page) (c : Nat) (s : St) : pv (setResponseError pg c s).j = [] := by
  unfold setResponseError
  simp only []
  split <;> rfl

@[simp] theorem pv_setResponseRedirect (c : Nat) (s : St) : pv (setResponseRedirect c s).j = [] := by
  unfold setResponseRedirect
  simp only []
  split <;> rfl

@[simp] theorem pv_callErrorResponse (pg : Page) (s : St) : pv (callErrorResponse pg s).j = [] := by
  unfold callErrorResponse
  repeat' split
  all_goals first | rfl | exact pv_setResponseError _ _ _

open Point in
theorem doRespond_chain (pg : Page) (m : Method) (nh bq : Bool) (s : St) :
    Chain (doRespond pg m nh bq s) [onStartResource, beforeRequestBody, beforeHandler, beforeFinalize] := by
  unfold doRespond
  have h := ((((((((((Chain.start (if nh then some (.httpError 400) else none) s).step
    (raiseIf pg.dispatch.raised) [] (fun _ => rfl)).step
    (fun s => raiseIf pg.ns.raised { s with attached := true }) [] (fun _ => rfl)).step
    (runPoint pg .onStartResource) [onStartResource] (pv_runPoint pg _)).step
    (raiseIf (if bq then some (.httpError 404) else none)) [] (fun _ => rfl)).step
    (runPoint pg .beforeRequestBody) [beforeRequestBody] (pv_runPoint pg _)).step
    (raiseIf (if m = .post then pg.body.raised else none)) [] (fun _ => rfl)).step
    (runPoint pg .beforeHandler) [beforeHandler] (pv_runPoint pg _)).step
    (callHandler pg) [] (pv_callHandler pg)).step
    (runPoint pg .beforeFinalize) [beforeFinalize] (pv_runPoint pg _)).step
    (finalize pg) [] (pv_finalize pg)
  simpa using h

open Point in
/-- the `except (HTTPRedirect, HTTPError)` branch adds at most one more `before_finalize` -/
theorem exceptBranch_pv (pg : Page) (a : R) :
    ∃ x, pv (exceptBranch pg a).j = pv a.j ++ x ∧ x <+: [beforeFinalize] := by
  unfold exceptBranch
  split
  · rename_i c _
    have h := (((show Chain (setResponseError pg c a.st) [] from
      ⟨fun _ => pv_setResponseError _ _ _, by simp⟩).step
      (runPoint pg .beforeFinalize) [beforeFinalize] (pv_runPoint pg _)).step (finalize pg) [] (pv_finalize pg))
    exact ⟨_, by simp only [pv_append]; rfl, by simpa using h.2⟩
  · rename_i c _
    have h := (((show Chain (setResponseRedirect c a.st) [] from
      ⟨fun _ => pv_setResponseRedirect _ _, by simp⟩).step
      (runPoint pg .beforeFinalize) [beforeFinalize] (pv_runPoint pg _)).step (finalize pg) [] (pv_finalize pg))
    exact ⟨_, by simp only [pv_append]; rfl, by simpa using h.2⟩
  · exact ⟨[], by simp, List.nil_prefix⟩

theorem pv_redirect_finalize (pg : Page) (c : Nat) (s : St) :
    pv ((setResponseRedirect c s).andThen (finalize pg)).j = [] := by
  have := ((show Chain (setResponseRedirect c s) [] from
    ⟨fun _ => pv_setResponseRedirect _ _, by simp⟩).step (finalize pg) [] (pv_finalize pg)).2
  simpa using this

open Point in
theorem handleError_pv (pg : Page) (s : St) :
    pv (handleError pg s).j <+: [beforeErrorResponse, afterErrorResponse] := by
  unfold handleError handleErrorTry
  have h := (((show Chain (runPoint pg .beforeErrorResponse s) [beforeErrorResponse] from
    ⟨fun _ => pv_runPoint _ _ _, by simp⟩).step
    (callErrorResponse pg) [] (pv_callErrorResponse pg)).step
    (runPoint pg .afterErrorResponse) [afterErrorResponse] (pv_runPoint pg _)).step
    (finalize pg) [] (pv_finalize pg)
  simp only [List.append_nil, List.cons_append, List.nil_append] at h
  simp only []
  split
  · rename_i c _
    simp only [pv_append, pv_redirect_finalize, List.append_nil]
    exact h.2
  · exact h.2

open Point in
/-- Shape of the visits of one `Request.run`. -/
theorem runRequest_pv (pg : Page) (m : Method) (nh bq : Bool) :
    ∃ pre x err, pv (runRequest pg m nh bq).j = pre ++ x ++ [onEndResource] ++ err
      ∧ pre <+: [onStartResource, beforeRequestBody, beforeHandler, beforeFinalize]
      ∧ x <+: [beforeFinalize]
      ∧ err <+: [beforeErrorResponse, afterErrorResponse] := by
  obtain ⟨x, hx, hxp⟩ := exceptBranch_pv pg (doRespond pg m nh bq {})
  have hpre := (doRespond_chain pg m nh bq {}).2
  have hresp : ∃ err, pv (respond pg m nh bq {}).j =
      pv (doRespond pg m nh bq {}).j ++ x ++ [onEndResource] ++ err
      ∧ err <+: [beforeErrorResponse, afterErrorResponse] := by
    unfold respond protectedBlock
    simp only [R.finallyDo]
    split
    · exact ⟨[], by simp [hx], List.nil_prefix⟩
    · exact ⟨[], by simp [hx], List.nil_prefix⟩
    · exact ⟨_, by simp only [pv_append, hx, pv_runPoint]; rfl, handleError_pv pg _⟩
  obtain ⟨err, herr, herrp⟩ := hresp
  refine ⟨_, x, err, ?_, hpre, hxp, herrp⟩
  rw [← herr]
  unfold runRequest
  simp only []
  repeat' split
  all_goals rfl

/-! ### the admissible visit sequences -/

open Point in
/-- visits of a request that is not closed yet:
    `on_start_resource? before_request_body? before_handler? before_finalize{0,2} on_end_resource
     (before_error_response after_error_response?)?` with the first four forming a prefix -/
def coreList : List (List Point) :=
  ([[], [onStartResource], [onStartResource, beforeRequestBody],
    [onStartResource, beforeRequestBody, beforeHandler],
    [onStartResource, beforeRequestBody, beforeHandler, beforeFinalize]] : List (List Point)).flatMap fun pre =>
  ([[], [beforeFinalize]] : List (List Point)).flatMap fun x =>
  ([[], [beforeErrorResponse], [beforeErrorResponse, afterErrorResponse]] : List (List Point)).map fun err =>
    pre ++ x ++ [onEndResource] ++ err

/-- visits of a closed request -/
def closedList : List (List Point) := coreList.map (· ++ [Point.onEndRequest])

theorem prefix1 {α} {a : α} {v : List α} (h : v <+: [a]) : v = [] ∨ v = [a] := by
  rcases List.prefix_cons_iff.mp h with rfl | ⟨t, rfl, h1⟩
  · exact Or.inl rfl
  · right; rw [List.prefix_nil.mp h1]

theorem prefix2 {α} {a b : α} {v : List α} (h : v <+: [a, b]) : v = [] ∨ v = [a] ∨ v = [a, b] := by
  rcases List.prefix_cons_iff.mp h with rfl | ⟨t, rfl, h1⟩
  · exact Or.inl rfl
  · rcases prefix1 h1 with rfl | rfl <;> simp

theorem prefix4 {α} {a b c d : α} {v : List α} (h : v <+: [a, b, c, d]) :
    v = [] ∨ v = [a] ∨ v = [a, b] ∨ v = [a, b, c] ∨ v = [a, b, c, d] := by
  rcases List.prefix_cons_iff.mp h with rfl | ⟨t, rfl, h1⟩
  · exact Or.inl rfl
  rcases List.prefix_cons_iff.mp h1 with rfl | ⟨t, rfl, h2⟩
  · simp
  rcases prefix2 h2 with rfl | rfl | rfl <;> simp

theorem runRequest_core (pg : Page) (m : Method) (nh bq : Bool) :
    pv (runRequest pg m nh bq).j ∈ coreList := by
  obtain ⟨pre, x, err, h, hp, hx, he⟩ := runRequest_pv pg m nh bq
  rw [h]
  rcases prefix4 hp with rfl | rfl | rfl | rfl | rfl <;>
    rcases prefix1 hx with rfl | rfl <;>
      rcases prefix2 he with rfl | rfl | rfl <;> decide

@[simp] theorem pv_closeRequest (pg : Page) (s : St) : pv (closeRequest pg s) = [Point.onEndRequest] :=
  pv_runPoint _ _ _

/-! ### the documented order as an automaton -/

/-- drop one leading `p` if present -/
def dropOpt (p : Point) : List Point → List Point
  | [] => []
  | x :: xs => if x = p then xs else x :: xs

open Point in
/-- Acceptor for `on_start_resource? before_request_body? before_handler? before_finalize{0,2}
    on_end_resource (before_error_response after_error_response?)? on_end_request?` -/
def accepts (v : List Point) : Bool :=
  let v := dropOpt onStartResource v
  let v := dropOpt beforeRequestBody v
  let v := dropOpt beforeHandler v
  let v := dropOpt beforeFinalize v
  let v := dropOpt beforeFinalize v
  match v with
  | onEndResource :: rest =>
    let rest := match rest with
      | beforeErrorResponse :: afterErrorResponse :: t => t
      | beforeErrorResponse :: t => t
      | t => t
    rest = [] || rest = [onEndRequest]
  | _ => false

theorem coreList_facts : ∀ v ∈ coreList,
    accepts v = true ∧ v.count .onEndResource = 1 ∧ v.count .onEndRequest = 0 ∧ v ≠ [] := by decide

theorem closedList_facts : ∀ v ∈ closedList,
    accepts v = true ∧ v.count .onEndResource = 1 ∧ v.count .onEndRequest = 1 ∧ v ≠ [] := by decide

/-! ### `AppResponse.__init__` and the redirector -/

/-- State of Request object `r'` as seen in a journal `j`: absent, run but not closed, closed. -/
inductive ReqState where
  | absent | open | closed
  deriving DecidableEq

def HasState (r : Nat) (j : List Entry) : ReqState → Prop
  | .absent => visits r j = []
  | .open => visits r j ∈ coreList
  | .closed => visits r j ∈ closedList

theorem mem_closedList {v : List Point} (h : v ∈ coreList) : v ++ [Point.onEndRequest] ∈ closedList :=
  List.mem_map.mpr ⟨v, h, rfl⟩

theorem closeCount_tag (r : Nat) (j : List Ev) : closeCount (tag r j) = 0 := by
  simp only [closeCount, List.count_eq_zero, tag, List.mem_map]
  rintro ⟨e, _, h⟩
  cases h

theorem closeCount_append (a b : List Entry) : closeCount (a ++ b) = closeCount a + closeCount b := by
  simp [closeCount]

theorem appResponse_spec (pg : Page) (m : Method) (nh bq : Bool) (r : Nat) :
    (∀ r', r' ≠ r → visits r' (appResponse pg m nh bq r).1 = []) ∧
    closeCount (appResponse pg m nh bq r).1 = 0 ∧
    match (appResponse pg m nh bq r).2 with
    | .served _ => visits r (appResponse pg m nh bq r).1 ∈ coreList
    | .raised _ _ => visits r (appResponse pg m nh bq r).1 ∈ closedList := by
  have hc := runRequest_core pg m nh bq
  unfold appResponse
  simp only []
  split
  · refine ⟨fun r' h => ?_, ?_, ?_⟩
    · simp [visits_tag, Ne.symm h]
    · exact closeCount_tag _ _
    · simp only [visits_tag, if_true, pv_append, pv_closeRequest]
      exact mem_closedList hc
  · split
    · refine ⟨fun r' h => ?_, ?_, ?_⟩
      · simp [visits_tag, Ne.symm h]
      · exact closeCount_tag _ _
      · simp only [visits_tag, if_true, pv_append, pv_closeRequest]
        exact mem_closedList hc
    · refine ⟨fun r' h => ?_, ?_, ?_⟩
      · simp [visits_tag, Ne.symm h]
      · rw [closeCount_append, closeCount_tag]; rfl
      · simpa [visits_tag] using hc

/-- What the `InternalRedirector` loop leaves in the journal `j` (started with request number `r`):
    nothing from Request objects numbered below `r`; every Request object it created is closed, except
    the one being served, which has run but is not closed; the server has not closed anything yet. -/
def RedirOk (r : Nat) (j : List Entry) : Redir → Prop
  | .served _ _ rl => r ≤ rl ∧ visits rl j ∈ coreList ∧
      ∀ r', r' ≠ rl → (visits r' j = [] ∨ visits r' j ∈ closedList)
  | _ => ∀ r', (visits r' j = [] ∨ visits r' j ∈ closedList)

theorem redirector_succ (pages : List Page) (nh gtb : Bool) (fuel : Nat) (visited : List (Nat × Bool))
    (cur : Nat) (m : Method) (bq : Bool) (r : Nat) :
    redirector pages nh gtb (fuel + 1) visited cur m bq r =
      match (appResponse (pages.getD cur (notFoundPage gtb)) m nh bq r).2 with
      | .served st => ((appResponse (pages.getD cur (notFoundPage gtb)) m nh bq r).1,
                       .served st (pages.getD cur (notFoundPage gtb)) r)
      | .raised e tb =>
        match e with
        | .internalRedirect t =>
          if (t, false) ∈ visited ++ [(cur, bq)] then
            ((appResponse (pages.getD cur (notFoundPage gtb)) m nh bq r).1, .raised .exc tb)
          else
            ((appResponse (pages.getD cur (notFoundPage gtb)) m nh bq r).1 ++
               (redirector pages nh gtb fuel (visited ++ [(cur, bq)]) t .get false (r + 1)).1,
             (redirector pages nh gtb fuel (visited ++ [(cur, bq)]) t .get false (r + 1)).2)
        | e => ((appResponse (pages.getD cur (notFoundPage gtb)) m nh bq r).1, .raised e tb) := by
  rfl

theorem redirector_spec (pages : List Page) (nh gtb : Bool) (fuel : Nat) :
    ∀ (visited : List (Nat × Bool)) (cur : Nat) (m : Method) (bq : Bool) (r : Nat),
    (∀ r', r' < r → visits r' (redirector pages nh gtb fuel visited cur m bq r).1 = []) ∧
    closeCount (redirector pages nh gtb fuel visited cur m bq r).1 = 0 ∧
    RedirOk r (redirector pages nh gtb fuel visited cur m bq r).1 (redirector pages nh gtb fuel visited cur m bq r).2 := by
  induction fuel with
  | zero => intro _ _ _ _ _; exact ⟨fun _ _ => rfl, rfl, fun _ => Or.inl rfl⟩
  | succ fuel ih =>
    intro visited cur m bq r
    obtain ⟨hA, hC, hS⟩ := appResponse_spec (pages.getD cur (notFoundPage gtb)) m nh bq r
    rw [redirector_succ]
    generalize appResponse (pages.getD cur (notFoundPage gtb)) m nh bq r = ar at hA hC hS ⊢
    obtain ⟨j, ini⟩ := ar
    simp only at hA hC hS ⊢
    cases ini with
    | served st =>
      simp only at hS ⊢
      exact ⟨fun r' h => hA r' (by omega), hC, Nat.le_refl _, hS, fun r' h => Or.inl (hA r' h)⟩
    | raised e tb =>
      simp only at hS ⊢
      have closedHere : ∀ r', (visits r' j = [] ∨ visits r' j ∈ closedList) := by
        intro r'
        by_cases h : r' = r
        · subst h; exact Or.inr hS
        · exact Or.inl (hA r' h)
      cases e with
      | internalRedirect t =>
        simp only []
        split
        · exact ⟨fun r' h => hA r' (by omega), hC, closedHere⟩
        · obtain ⟨hA2, hC2, hS2⟩ := ih (visited ++ [(cur, bq)]) t .get false (r + 1)
          generalize redirector pages nh gtb fuel (visited ++ [(cur, bq)]) t .get false (r + 1) = res at hA2 hC2 hS2 ⊢
          obtain ⟨j2, red⟩ := res
          simp only at hA2 hC2 hS2 ⊢
          refine ⟨fun r' h => ?_, ?_, ?_⟩
          · simp [hA r' (by omega), hA2 r' (by omega)]
          · rw [closeCount_append, hC, hC2]
          · have merge : ∀ r', r' ≠ r → visits r' (j ++ j2) = visits r' j2 := by
              intro r' h; simp [hA r' h]
            have mine : visits r (j ++ j2) ∈ closedList := by
              simpa [hA2 r (by omega)] using hS
            cases red with
            | served st pg rl =>
              obtain ⟨hle, hcore, hrest⟩ := hS2
              refine ⟨by omega, ?_, fun r' h => ?_⟩
              · rw [merge rl (by omega)]; exact hcore
              · by_cases h' : r' = r
                · subst h'; exact Or.inr mine
                · rw [merge r' h']; exact hrest r' h
            | raised e tb =>
              intro r'
              by_cases h' : r' = r
              · subst h'; exact Or.inr mine
              · rw [merge r' h']; exact hS2 r'
            | outOfFuel =>
              intro r'
              by_cases h' : r' = r
              · subst h'; exact Or.inr mine
              · rw [merge r' h']; exact hS2 r'
      | httpError c => exact ⟨fun r' h => hA r' (by omega), hC, closedHere⟩
      | httpRedirect c => exact ⟨fun r' h => hA r' (by omega), hC, closedHere⟩
      | exc => exact ⟨fun r' h => hA r' (by omega), hC, closedHere⟩

/-! ### the whole conversation -/

theorem visits_cons_start (r c : Nat) (b : Bool) (l : List Entry) : visits r (.start c b :: l) = visits r l := rfl

theorem visits_cons_closeCall (r : Nat) (l : List Entry) : visits r (.closeCall :: l) = visits r l := rfl

theorem visits_closeCalls (pg : Page) (r r' : Nat) (st : St) (n : Nat) :
    visits r' (closeCalls pg r st n) = if r = r' ∧ 0 < n then [Point.onEndRequest] else [] := by
  cases n with
  | zero => simp [closeCalls]
  | succ n =>
    simp only [closeCalls, List.cons_append, visits_cons_closeCall, visits_append, visits_replicate_close,
      List.append_nil, visits_tag, pv_closeRequest]
    by_cases h : r = r' <;> simp [h]

/-- Main invariant of `call`: in the final journal every Request object that appears at all is
    closed — or, when the server never calls `close()`, the served one is left open. -/
theorem call_spec (p : Plan) (r : Nat) :
    visits r (call p).j = [] ∨ visits r (call p).j ∈ closedList ∨
      (p.closes = 0 ∧ visits r (call p).j ∈ coreList) := by
  obtain ⟨_, _, hS⟩ := redirector_spec p.pages p.noHost p.globalTb (p.pages.length + 2) [] p.start p.meth p.badQuery 0
  unfold call
  generalize redirector p.pages p.noHost p.globalTb (p.pages.length + 2) [] p.start p.meth p.badQuery 0 = res at hS ⊢
  obtain ⟨j, red⟩ := res
  cases red with
  | outOfFuel =>
    simp only at hS ⊢
    simp only [visits_append, visits_replicate_close, List.append_nil]
    rcases hS r with h | h
    · exact Or.inl h
    · exact Or.inr (Or.inl h)
  | raised e tb =>
    simp only [trapCatches, if_true] at hS ⊢
    simp only [visits_append, visits_start, visits_replicate_close, List.append_nil]
    rcases hS r with h | h
    · exact Or.inl h
    · exact Or.inr (Or.inl h)
  | served st pg rl =>
    simp only at hS ⊢
    obtain ⟨_, hcore, hrest⟩ := hS
    have key : visits r (j ++ closeCalls pg rl st p.closes) = [] ∨
        visits r (j ++ closeCalls pg rl st p.closes) ∈ closedList ∨
        (p.closes = 0 ∧ visits r (j ++ closeCalls pg rl st p.closes) ∈ coreList) := by
      simp only [visits_append, visits_closeCalls]
      by_cases h : rl = r
      · subst h
        by_cases hc : 0 < p.closes
        · simp only [hc, and_self, if_true]
          exact Or.inr (Or.inl (mem_closedList hcore))
        · have : p.closes = 0 := by omega
          simp only [this, Nat.lt_irrefl, and_false, if_false, List.append_nil]
          exact Or.inr (Or.inr ⟨trivial, hcore⟩)
      · simp only [h, false_and, if_false, List.append_nil]
        rcases hrest r (Ne.symm h) with h' | h'
        · exact Or.inl h'
        · exact Or.inr (Or.inl h')
    split
    · simpa [visits_append, visits_cons_start] using key
    · exact key

/-- **C09_end_resource_once**: every Request object that takes part in the conversation (the
    original one and every one created by an internal redirect) runs `on_end_resource` exactly once,
    however its processing ends. -/
theorem C09_end_resource_once (p : Plan) (r : Nat) (h : visits r (call p).j ≠ []) :
    (visits r (call p).j).count .onEndResource = 1 := by
  rcases call_spec p r with h0 | h1 | ⟨_, h2⟩
  · exact absurd h0 h
  · exact (closedList_facts _ h1).2.1
  · exact (coreList_facts _ h2).2.1

/-- **C09_end_request_once**: when the server calls `close()` at least once, every Request object
    that takes part runs `on_end_request` exactly once — however many more times `close()` is called. -/
theorem C09_end_request_once (p : Plan) (r : Nat) (hc : 1 ≤ p.closes) (h : visits r (call p).j ≠ []) :
    (visits r (call p).j).count .onEndRequest = 1 := by
  rcases call_spec p r with h0 | h1 | ⟨h2, _⟩
  · exact absurd h0 h
  · exact (closedList_facts _ h1).2.2.1
  · omega

/-- `on_end_request` never runs twice, and without a `close()` call it does not run on the request
    being served. -/
theorem C09_end_request_not_without_close (p : Plan) (r : Nat) :
    (visits r (call p).j).count .onEndRequest ≤ 1 := by
  rcases call_spec p r with h0 | h1 | ⟨_, h2⟩
  · simp [h0]
  · simp [(closedList_facts _ h1).2.2.1]
  · simp [(coreList_facts _ h2).2.2.1]

/-- Request object 0 always takes part (non-vacuity of the hypotheses above). -/
theorem request_zero_present (p : Plan) : visits 0 (call p).j ≠ [] := by
  have hA := appResponse_spec (p.pages.getD p.start (notFoundPage p.globalTb)) p.meth p.noHost p.badQuery 0
  have hne : visits 0 (appResponse (p.pages.getD p.start (notFoundPage p.globalTb)) p.meth p.noHost p.badQuery 0).1 ≠ [] := by
    obtain ⟨_, _, h⟩ := hA
    split at h
    · exact (coreList_facts _ h).2.2.2
    · exact (closedList_facts _ h).2.2.2
  have hred : ∃ rest, (redirector p.pages p.noHost p.globalTb (p.pages.length + 2) [] p.start p.meth p.badQuery 0).1 =
      (appResponse (p.pages.getD p.start (notFoundPage p.globalTb)) p.meth p.noHost p.badQuery 0).1 ++ rest := by
    rw [show p.pages.length + 2 = (p.pages.length + 1) + 1 from rfl, redirector_succ]
    split
    · exact ⟨[], by simp⟩
    · split
      · split
        · exact ⟨[], by simp⟩
        · exact ⟨_, rfl⟩
      · exact ⟨[], by simp⟩
  obtain ⟨rest, hrest⟩ := hred
  have hcall : ∃ more, (call p).j =
      (redirector p.pages p.noHost p.globalTb (p.pages.length + 2) [] p.start p.meth p.badQuery 0).1 ++ more := by
    unfold call
    split
    · rename_i heq; exact ⟨List.replicate p.closes .closeCall, by simp only [heq]⟩
    · rename_i heq
      simp only [trapCatches, if_true]
      exact ⟨_, by simp only [heq, List.append_assoc]; rfl⟩
    · rename_i heq
      split
      · exact ⟨_, by simp only [heq, List.append_assoc]; rfl⟩
      · exact ⟨_, by simp only [heq]; rfl⟩
  obtain ⟨more, hmore⟩ := hcall
  rw [hmore, hrest]
  simp only [visits_append]
  intro h
  simp only [List.append_eq_nil_iff] at h
  exact hne h.1.1

/-- **C09_documented_order**: the hook points of every Request object are visited in the documented
    order: `on_start_resource? before_request_body? before_handler? before_finalize{0,2}
    on_end_resource (before_error_response after_error_response?)? on_end_request?`. -/
theorem C09_documented_order (p : Plan) (r : Nat) (h : visits r (call p).j ≠ []) :
    accepts (visits r (call p).j) = true := by
  rcases call_spec p r with h0 | h1 | ⟨_, h2⟩
  · exact absurd h0 h
  · exact (closedList_facts _ h1).1
  · exact (coreList_facts _ h2).1

/-- **C09_end_request_at_first_close**: the conversation's journal is `pre ++ tail` where `pre`
    contains no `close()` call and `tail` is either just the `close()` calls (the request was released
    before the application callable returned: trapped error) or
    `closeCall :: <on_end_request of the served request> ++ <further close() calls with nothing after them>`;
    the served request's `on_end_request` has not run before the first `close()`. -/
theorem C09_end_request_at_first_close (p : Plan) :
    ∃ pre, closeCount pre = 0 ∧
      ((call p).j = pre ++ List.replicate p.closes .closeCall ∨
       ∃ pg rl st, (call p).j = pre ++ closeCalls pg rl st p.closes ∧
          (visits rl pre).count .onEndRequest = 0 ∧
          ∀ n, closeCalls pg rl st (n + 1) =
            .closeCall :: tag rl (.visit .onEndRequest ::
              ((CpModel.Hooks.run (hooksAt pg st .onEndRequest)).1.map fun h => Ev.hook .onEndRequest h.id))
            ++ List.replicate n .closeCall) := by
  obtain ⟨_, hC, hS⟩ := redirector_spec p.pages p.noHost p.globalTb (p.pages.length + 2) [] p.start p.meth p.badQuery 0
  unfold call
  generalize redirector p.pages p.noHost p.globalTb (p.pages.length + 2) [] p.start p.meth p.badQuery 0 = res at hC hS ⊢
  obtain ⟨j, red⟩ := res
  cases red with
  | outOfFuel =>
    -- (unreachable, see `CpProofs.C01.fuel_sufficient`)
    simp only at hC ⊢
    exact ⟨j, hC, Or.inl rfl⟩
  | raised e tb =>
    simp only [trapCatches, if_true] at hC ⊢
    refine ⟨j ++ [.start 500 true], ?_, Or.inl rfl⟩
    simp only [closeCount, List.count_append] at hC ⊢
    simp [hC]
  | served st pg rl =>
    simp only at hC hS ⊢
    obtain ⟨_, hcore, _⟩ := hS
    have hz : (visits rl j).count .onEndRequest = 0 := (coreList_facts _ hcore).2.2.1
    split
    · refine ⟨j ++ [.start 500 true], ?_, Or.inr ⟨pg, rl, st, rfl, ?_, fun n => rfl⟩⟩
      · simp only [closeCount, List.count_append] at hC ⊢
        simp [hC]
      · simpa using hz
    · exact ⟨j, hC, Or.inr ⟨pg, rl, st, rfl, hz, fun n => rfl⟩⟩

end CpProofs.C09
