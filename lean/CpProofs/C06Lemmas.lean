import CpModel.Finalize
/-!
  C06 — helper lemmas: byte lists, the header dict, the framing invariant `CLok` and its
  preservation by every single step.
-/
namespace CpProofs.C06
open CpModel CpModel.Finalize

/-! ### bodies -/

theorem deliver_allBytes (cs : List Chunk) (h : allBytes cs = true) : deliver cs = (concat cs, .clean) := by
  induction cs with
  | nil => rfl
  | cons c cs ih =>
    cases c with
    | bytes b => simp only [allBytes] at h; simp [deliver, concat, ih h]
    | text t => simp [allBytes] at h
    | nested n => simp [allBytes] at h
    | raise => simp [allBytes] at h

theorem join_some {cs : List Chunk} {b : Bytes} (h : join cs = some b) :
    allBytes cs = true ∧ concat cs = b := by
  unfold join at h
  split at h
  · exact ⟨by assumption, by simpa using h⟩
  · cases h

theorem join_of_allBytes {cs : List Chunk} (h : allBytes cs = true) : join cs = some (concat cs) := by
  simp [join, h]

theorem oneChunk_allBytes (b : Bytes) : allBytes (oneChunk b) = true := by
  unfold oneChunk; split <;> simp [allBytes]

theorem oneChunk_concat (b : Bytes) : concat (oneChunk b) = b := by
  unfold oneChunk
  split
  · rename_i h; simp [concat]; exact (List.isEmpty_iff.mp h)
  · simp [concat]

theorem bytesBody_allBytes (b : Bytes) : allBytes (bytesBody b).chunks = true := oneChunk_allBytes b

theorem bytesBody_concat (b : Bytes) : concat (bytesBody b).chunks = b := oneChunk_concat b

theorem flattenChunks_allBytes (cs : List Chunk) (h : allBytes cs = true) : flattenChunks cs = cs := by
  induction cs with
  | nil => rfl
  | cons c cs ih =>
    cases c with
    | bytes b => simp only [allBytes] at h; simp [flattenChunks, ih h]
    | text t => simp [allBytes] at h
    | nested n => simp [allBytes] at h
    | raise => simp [allBytes] at h

/-! ### the header dict -/

@[simp] theorem set_same (h : Hdrs) (k : HKey) (v : HVal) : (h.set k v) k = some v := by simp [Hdrs.set]
@[simp] theorem set_other (h : Hdrs) (k k' : HKey) (v : HVal) (hne : k' ≠ k) : (h.set k v) k' = h k' := by
  simp [Hdrs.set, hne]
@[simp] theorem del_same (h : Hdrs) (k : HKey) : (h.del k) k = none := by simp [Hdrs.del]
@[simp] theorem del_other (h : Hdrs) (k k' : HKey) (hne : k' ≠ k) : (h.del k) k' = h k' := by
  simp [Hdrs.del, hne]

/-! ### the invariant -/

/-- The framing invariant on a response in flight: a Content-Length header is absent, `None`, or a
    number, and when it is a number, iterating the body yields only bytes, exactly that many. -/
def CLok (r : Resp) : Prop :=
  match r.hdrs .contentLength with
  | none => True
  | some .pyNone => True
  | some (.nat n) => allBytes r.body.chunks = true ∧ (concat r.body.chunks).length = n
  | some _ => False

theorem CLok_of_none {r : Resp} (h : r.hdrs .contentLength = none) : CLok r := by
  simp [CLok, h]

theorem CLok_of_nat {r : Resp} {n : Nat} (h : r.hdrs .contentLength = some (.nat n))
    (hb : allBytes r.body.chunks = true) (hl : (concat r.body.chunks).length = n) : CLok r := by
  simp [CLok, h, hb, hl]

/-- `CLok` only looks at the Content-Length header and the chunks. -/
theorem CLok_congr {r r' : Resp} (hh : r'.hdrs .contentLength = r.hdrs .contentLength)
    (hb : r'.body.chunks = r.body.chunks) (h : CLok r) : CLok r' := by
  unfold CLok at *
  rw [hh, hb]; exact h

/-! ### one lemma per step -/

theorem expires_CLok (cfg : ExpiresCfg) (r : Resp) (h : CLok r) : CLok (expiresStep cfg r).1 := by
  unfold expiresStep
  simp only
  split
  · exact h
  · split
    · exact CLok_congr (by simp) rfl h
    · exact CLok_congr (by simp) rfl h

theorem tee_CLok (rq : Req) (r : Resp) (h : CLok r) : CLok (teeStep rq r).1 := by
  unfold teeStep
  split
  · exact h
  · exact CLok_congr rfl rfl h

theorem flatten_CLok (r : Resp) (h : CLok r) : CLok (flattenStep r).1 := by
  unfold CLok at *
  simp only [flattenStep]
  cases hcl : r.hdrs .contentLength with
  | none => trivial
  | some v =>
    cases v with
    | nat n =>
      simp only [hcl] at h ⊢
      rw [flattenChunks_allBytes _ h.1]
      exact h
    | pyNone => trivial
    | ctype _ _ => simp [hcl] at h
    | tag _ => simp [hcl] at h
    | other => simp [hcl] at h

theorem collapse_CLok {r r' : Resp} {b : Bytes} (hc : collapse r = some (r', b)) (h : CLok r) :
    CLok r' ∧ r'.hdrs = r.hdrs ∧ allBytes r'.body.chunks = true ∧ concat r'.body.chunks = b := by
  unfold collapse at hc
  split at hc
  · cases hc
  · rename_i b' hj
    cases hc
    have ⟨hab, hcb⟩ := join_some hj
    refine ⟨?_, rfl, bytesBody_allBytes _, bytesBody_concat _⟩
    unfold CLok at *
    simp only
    cases hcl : r.hdrs .contentLength with
    | none => trivial
    | some v =>
      cases v with
      | nat n =>
        simp only [hcl] at h ⊢
        exact ⟨bytesBody_allBytes _, by rw [bytesBody_concat, ← hcb]; exact h.2⟩
      | pyNone => trivial
      | ctype _ _ => simp [hcl] at h
      | tag _ => simp [hcl] at h
      | other => simp [hcl] at h

theorem CLok_of_pyNone {r : Resp} (h : r.hdrs .contentLength = some .pyNone) : CLok r := by
  simp [CLok, h]

theorem CLok_cases {r : Resp} (h : CLok r) :
    r.hdrs .contentLength = none ∨ r.hdrs .contentLength = some .pyNone ∨
    ∃ n, r.hdrs .contentLength = some (.nat n) ∧ allBytes r.body.chunks = true ∧
      (concat r.body.chunks).length = n := by
  unfold CLok at h
  cases hcl : r.hdrs .contentLength with
  | none => exact .inl rfl
  | some v =>
    cases v with
    | nat n => simp only [hcl] at h; exact .inr (.inr ⟨n, rfl, h⟩)
    | pyNone => exact .inr (.inl rfl)
    | ctype _ _ => simp [hcl] at h
    | tag _ => simp [hcl] at h
    | other => simp [hcl] at h

/-- `_be_ie_unfriendly` on a response without Content-Length: sets it to the padded length -/
theorem ieUnfriendly_CLok (code : Nat) (r : Resp) (h : r.hdrs .contentLength = none) :
    CLok (ieUnfriendly code r).1 := by
  unfold ieUnfriendly
  simp only
  split
  · exact CLok_of_none h
  · split
    · exact CLok_of_none h
    · exact CLok_of_nat (n := _) (by simp only [set_same]; rfl) (bytesBody_allBytes _) (by rw [bytesBody_concat])

/-- `HTTPError.set_response` establishes the invariant whatever the response looked like before -/
theorem setError_CLok (pg : Pages) (code : Nat) (r : Resp) : CLok (setError pg code r).1 := by
  unfold setError
  simp only
  split <;> (apply ieUnfriendly_CLok; simp)

/-- `HTTPRedirect.set_response` keeps the invariant (and removes Content-Length on every known status) -/
theorem setRedirect_CLok (pg : Pages) (code : Nat) (r : Resp) (h : CLok r) :
    CLok (setRedirect pg code r).1 := by
  unfold setRedirect
  simp only
  split
  · exact CLok_of_none (by simp)
  · exact CLok_of_none (by simp)
  · exact CLok_of_none (by simp)
  · exact CLok_congr rfl rfl h

theorem setResponse_CLok (pg : Pages) (e : Exn) (r : Resp) (h : CLok r) : CLok (setResponse pg e r).1 := by
  cases e with
  | httpError c => exact setError_CLok pg c r
  | redirect c => exact setRedirect_CLok pg c r h
  | exc => exact h

theorem etagsTag_CLok {code : Nat} {r r1 : Resp} (h1 : etagsTag code r = some r1) (h : CLok r) : CLok r1 := by
  unfold etagsTag at h1
  split at h1
  · cases h1; exact h
  · split at h1
    · cases h1; exact h
    · split at h1
      · cases h1
      · rename_i r' b hc
        cases h1
        have ⟨h', _, _, _⟩ := collapse_CLok hc h
        exact CLok_congr (by simp) rfl h'

theorem etags_CLok (rq : Req) (r : Resp) (h : CLok r) : CLok (etagsStep rq r).1 := by
  unfold etagsStep
  split
  · exact h
  · split
    · exact h
    · split
      · exact h
      · rename_i r1 h1
        exact CLok_congr (r := r1) rfl rfl (etagsTag_CLok h1 h)

theorem gzip_CLok (pg : Pages) (rq : Req) (cached : Bool) (r : Resp) (h : CLok r) :
    CLok (gzipStep pg rq cached r).1 := by
  have hv : CLok { r with hdrs := r.hdrs.set .vary .other } := CLok_congr (by simp) rfl h
  unfold gzipStep
  simp only
  split
  · exact hv
  · split
    · exact hv
    · split
      · exact hv
      · exact hv
      · exact hv
      · split
        · exact CLok_of_none (by simp)
        · exact hv
      · exact hv
      · exact setError_CLok _ _ _

theorem probe_CLok (act : ProbeAct) (once : Bool) (r : Resp) (h : CLok r) : CLok (probeStep act once r).1 := by
  unfold probeStep
  split
  · exact h
  · simp only
    split
    · exact CLok_congr rfl rfl h
    · exact CLok_of_none (by simp)
    · exact CLok_congr rfl rfl h

/-- `sessions.save`: collapsing the body keeps a numeric Content-Length right -/
theorem sessions_CLok (r : Resp) (h : CLok r) : CLok (sessionsStep r).1 := by
  unfold sessionsStep
  split
  · exact h
  · simp only
    split
    · exact CLok_congr rfl rfl h
    · split
      · split
        · exact CLok_congr rfl rfl h
        · rename_i r' b hc
          exact (collapse_CLok hc (CLok_congr (r := r) rfl rfl h)).1
      · exact CLok_congr rfl rfl h

/-- the autovary hook only sets Vary -/
theorem autovary_CLok (r : Resp) (h : CLok r) : CLok (autovaryStep r).1 :=
  CLok_congr (by simp [autovaryStep]) rfl h

/-- every built-in step keeps the framing invariant, whether it returns or raises -/
theorem applyStep_CLok (pg : Pages) (rq : Req) (cached : Bool) (s : Step) (r : Resp) (h : CLok r) :
    CLok (applyStep pg rq cached s r).1 := by
  cases s with
  | expires cfg => exact expires_CLok cfg r h
  | flatten => exact flatten_CLok r h
  | etags => exact etags_CLok rq r h
  | gzip => exact gzip_CLok pg rq cached r h
  | tee => exact tee_CLok rq r h
  | probe act once => exact probe_CLok act once r h
  | sessions => exact sessions_CLok r h
  | autovary => exact autovary_CLok r h

/-- the failsafe hooks that still run after a failure keep it too -/
theorem runFailsafe_CLok (pg : Pages) (rq : Req) (cached : Bool) (steps : List Step) (r : Resp) (e : Exn)
    (h : CLok r) : CLok (runFailsafe pg rq cached steps r e).1 := by
  induction steps generalizing r e with
  | nil => exact h
  | cons s rest ih =>
    unfold runFailsafe
    split
    · have := applyStep_CLok pg rq cached s r h
      split
      · rename_i r' heq
        rw [heq] at this
        exact ih r' e this
      · rename_i r' e' heq
        rw [heq] at this
        exact ih r' e' this
    · exact ih r e h

/-- ... and so does every *sequence* of steps, in any order and of any length (`HookMap.run` with its
    failsafe continuation) -/
theorem runSteps_CLok (pg : Pages) (rq : Req) (cached : Bool) (steps : List Step) (r : Resp) (h : CLok r) :
    CLok (runSteps pg rq cached steps r).1 := by
  induction steps generalizing r with
  | nil => exact h
  | cons s rest ih =>
    unfold runSteps
    have := applyStep_CLok pg rq cached s r h
    split
    · rename_i r' heq
      rw [heq] at this
      exact ih r' this
    · rename_i r' e heq
      rw [heq] at this
      exact runFailsafe_CLok pg rq cached rest r' e this


/-! ### any tool mix: third-party steps that follow the rule -/

/-- `HookMap.run` over arbitrary (user-supplied) steps -/
def runAny : List (Resp → Out) → Resp → Out
  | [], r => (r, none)
  | f :: rest, r =>
    match f r with
    | (r', none) => runAny rest r'
    | (r', some e) => (r', some e)

/-- The rule every body-rewriting tool has to follow ("delete Content-Length so finalize recalculates
    it"), as a predicate on an arbitrary step. -/
def StepOk (f : Resp → Out) : Prop := ∀ r, CLok r → CLok (f r).1

/-- every built-in step follows the rule … -/
theorem builtin_StepOk (pg : Pages) (rq : Req) (cached : Bool) (s : Step) : StepOk (applyStep pg rq cached s) :=
  fun r h => applyStep_CLok pg rq cached s r h

/-- … a step that replaces the body and deletes the header follows it, whatever the new body is … -/
theorem rewrite_and_delete_StepOk (g : Body → Body) :
    StepOk (fun r => ({ r with body := g r.body, hdrs := r.hdrs.del .contentLength }, none)) :=
  fun _ _ => CLok_of_none (by simp)

/-- … and any mix of steps that follow the rule, built-in or not, in any order, keeps the invariant -/
theorem runAny_CLok (steps : List (Resp → Out)) (hs : ∀ f ∈ steps, StepOk f) (r : Resp) (h : CLok r) :
    CLok (runAny steps r).1 := by
  induction steps generalizing r with
  | nil => exact h
  | cons f rest ih =>
    unfold runAny
    have hf := hs f List.mem_cons_self r h
    have ih' := ih (fun g hg => hs g (List.mem_cons_of_mem _ hg))
    split
    · rename_i r' heq; rw [heq] at hf; exact ih' r' hf
    · rename_i r' e heq; rw [heq] at hf; exact hf

/-- a step that rewrites the body and *forgets* the header breaks the invariant (the rule is needed) -/
theorem forgetful_step_breaks :
    ¬ StepOk (fun r => ({ r with body := ⟨.list, [.bytes [0]]⟩ }, none)) := by
  intro h
  have := h { hdrs := fun k => if k = .contentLength then some (.nat 0) else none } (by simp [CLok, allBytes, concat])
  simp [CLok, allBytes, concat] at this

end CpProofs.C06
